import Splipy.Generated.Pyx
import Splipy.Lemmas.EvalRow

/-!
# The Cython kernel `basis_eval.pyx`, translated, equals the hand-written model (work package t2)

`Splipy/Generated/Pyx.lean` is written on every run by `harness/translate/pyx_translate.py` from the
CURRENT source `splipy/basis_eval.pyx` and keeps the imperative structure of the code (one record
field per assigned variable, array stores, loops as folds; see `Lemmas/PyxLib.lean`).  This file
proves, against that fresh file, that the imperative code computes what the model
`Splipy/Model/Basis.lean` says — the model whose agreement with the Cox–de Boor specification is
proved in `Lemmas/Triangle.lean`, `Lemmas/EvalRow.lean`, `Properties/C01.lean`.  In particular the
sentence of the model's header "each `M[j]` is written once per level and reads only the old
`M[j]`, `M[j+1]`, so a level is the pure map `levelVal`/`levelDer`" is a theorem here
(`evaluate_value_level`, `evaluate_deriv_level`; abstract form `Pyx.sweep_aget`), proved by
induction over the inner loop with the invariant "entries below `j` already hold the new value,
entries from `j` on still hold the old one".

Main statements (the source-derived obligations reported by `harness/props/_pyx.py`):

* `my_bisect_left_eq`, `my_bisect_right_eq` — the `while` loops are `bisectLeft`/`bisectRight`;
* `evaluate_value_level`, `evaluate_deriv_level` — one level of the triangle, in place = parallel map;
* `evaluate_triangle` — initialisation + value loops + derivative loops = `triangle`;
* `evaluate_point` — one iteration of the main loop = `evalAt` (data and indices of the row);
* `evaluate_eq`, `evaluate_eq_of_valid` — the whole function = rows of `evalRow`, `indptr`, shape;
* `snap_eq` — `snap` = the model's `snap`, entry by entry;
* `evaluate_defaults` — the default arguments `d=0`, `from_right=True`.

If the source changes so that a statement no longer holds (or the translator no longer accepts it),
the corresponding theorem stops compiling: the obligation is reported broken (fail closed).
-/

set_option linter.unusedSectionVars false
set_option linter.unusedVariables false

namespace Splipy.PyxEq

open Splipy Splipy.Pyx Splipy.Generated.Pyx

variable {K : Type} [Field K] [LinearOrder K]

/-! ## (a) the binary searches -/

theorem my_bisect_left_loop (fuel : ℕ) (array : Array K) (value : K) :
    ∀ (n : ℕ) (s : my_bisect_left.St K), s.hi - s.lo ≤ n →
      (whileFuel n (fun s => decide (s.lo < s.hi)) (my_bisect_left.L1_body fuel array value) s).lo
        = bisectLeftAux (aget array) value s.lo s.hi := by
  intro n
  induction n with
  | zero =>
    intro s h
    rw [whileFuel_zero, bisectLeftAux, dif_neg (by omega)]
  | succ n ih =>
    intro s h
    rw [whileFuel_succ, bisectLeftAux]
    by_cases hlt : s.lo < s.hi
    · rw [if_pos (by simpa using hlt), dif_pos hlt]
      simp only []
      by_cases hc : aget array ((s.lo + s.hi) / 2) < value
      · rw [if_pos hc]
        have e : my_bisect_left.L1_body fuel array value s
            = { s with mid := (s.lo + s.hi) / 2, lo := (s.lo + s.hi) / 2 + 1 } := by
          unfold my_bisect_left.L1_body
          simp only [if_pos hc]
        rw [e, ih _ (by simp only []; omega)]
      · rw [if_neg hc]
        have e : my_bisect_left.L1_body fuel array value s
            = { s with mid := (s.lo + s.hi) / 2, hi := (s.lo + s.hi) / 2 } := by
          unfold my_bisect_left.L1_body
          simp only [if_neg hc]
        rw [e, ih _ (by simp only []; omega)]
    · rw [if_neg (by simpa using hlt), dif_neg hlt]

/-- **`my_bisect_left`** (generated from the `.pyx`) is the model's `bisectLeft`, as soon as the
`while` loop is given `hi` iterations of fuel (it needs only `⌈log₂ hi⌉ + 1`). -/
theorem my_bisect_left_eq (fuel : ℕ) (array : Array K) (value : K) (hi : ℕ) (h : hi ≤ fuel) :
    my_bisect_left fuel array value hi = bisectLeft (aget array) value hi := by
  unfold my_bisect_left my_bisect_left.L1 bisectLeft
  simp only []
  rw [my_bisect_left_loop fuel array value fuel _ (by simp only []; omega)]

theorem my_bisect_right_loop (fuel : ℕ) (array : Array K) (value : K) :
    ∀ (n : ℕ) (s : my_bisect_right.St K), s.hi - s.lo ≤ n →
      (whileFuel n (fun s => decide (s.lo < s.hi)) (my_bisect_right.L1_body fuel array value) s).lo
        = bisectRightAux (aget array) value s.lo s.hi := by
  intro n
  induction n with
  | zero =>
    intro s h
    rw [whileFuel_zero, bisectRightAux, dif_neg (by omega)]
  | succ n ih =>
    intro s h
    rw [whileFuel_succ, bisectRightAux]
    by_cases hlt : s.lo < s.hi
    · rw [if_pos (by simpa using hlt), dif_pos hlt]
      simp only []
      by_cases hc : value < aget array ((s.lo + s.hi) / 2)
      · rw [if_pos hc]
        have e : my_bisect_right.L1_body fuel array value s
            = { s with mid := (s.lo + s.hi) / 2, hi := (s.lo + s.hi) / 2 } := by
          unfold my_bisect_right.L1_body
          simp only [if_pos hc]
        rw [e, ih _ (by simp only []; omega)]
      · rw [if_neg hc]
        have e : my_bisect_right.L1_body fuel array value s
            = { s with mid := (s.lo + s.hi) / 2, lo := (s.lo + s.hi) / 2 + 1 } := by
          unfold my_bisect_right.L1_body
          simp only [if_neg hc]
        rw [e, ih _ (by simp only []; omega)]
    · rw [if_neg (by simpa using hlt), dif_neg hlt]

/-- **`my_bisect_right`** (generated) is the model's `bisectRight` for `fuel ≥ hi`. -/
theorem my_bisect_right_eq (fuel : ℕ) (array : Array K) (value : K) (hi : ℕ) (h : hi ≤ fuel) :
    my_bisect_right fuel array value hi = bisectRight (aget array) value hi := by
  unfold my_bisect_right my_bisect_right.L1 bisectRight
  simp only []
  rw [my_bisect_right_loop fuel array value fuel _ (by simp only []; omega)]

/-! ## (b) one level of the triangle: the in-place loops are the parallel maps `levelVal`/`levelDer` -/

section levels

variable [FloorRing K]
variable (fuel : ℕ) (knots_in : Array K) (p : ℕ) (eval_t_in : Array K) (periodic : ℤ) (tol : K)
  (d : ℕ) (from_right : Bool)

/-- Array after the iterations `j < hi` of the inner value loop: entries `p-q ≤ i < hi` hold
`levelVal` of the OLD array `s.M`, all the others are still the old ones. -/
def L5M (p : ℕ) (s : evaluate.St K) (hi : ℕ) : Array K :=
  tab p (fun i => if p - s.q ≤ i ∧ i < hi
    then levelVal (aget s.knots) p s.mu s.evalT s.q (aget s.M) i else aget s.M i)

theorem L5M_self (p : ℕ) (s : evaluate.St K) (hM : s.M.size = p) (hi : ℕ) (h : hi ≤ p - s.q) :
    L5M p s hi = s.M := by
  symm
  apply eq_tab_of_aget p _ _ hM
  intro j hj
  rw [if_neg (by omega)]

/-- Inner value loop `for j in range(p-q, p-1)` (two in-place statements per `j`): entries
`p-q ≤ i < p-1` receive `levelVal` of the OLD array, everything else is untouched. -/
theorem evaluate_L5_eq (s : evaluate.St K) (hq : s.q < p) (hM : s.M.size = p) :
    ∃ j' k', evaluate.L5 fuel knots_in p eval_t_in periodic tol d from_right s =
      { s with j := j', k := k', M := L5M p s (p - 1) } := by
  unfold evaluate.L5
  by_cases hle : p - s.q ≤ p - 1
  swap
  · rw [forRange_of_le _ _ _ _ (by omega)]
    refine ⟨s.j, s.k, ?_⟩
    rw [L5M_self p s hM _ (by omega)]
  · have h0 : ∃ j' k', s = { s with j := j', k := k', M := L5M p s (p - s.q) } := by
      refine ⟨s.j, s.k, ?_⟩
      rw [L5M_self p s hM _ (by omega)]
    have hstep : ∀ jv s', p - s.q ≤ jv → jv < p - 1 →
        (∃ j' k', s' = { s with j := j', k := k', M := L5M p s jv }) →
        (∃ j' k', evaluate.L5_body fuel knots_in p eval_t_in periodic tol d from_right jv s' =
             { s with j := j', k := k', M := L5M p s (jv + 1) }) := by
      rintro jv s' h1 h2 ⟨j', k', rfl⟩
      refine ⟨jv, s.mu - p + jv, ?_⟩
      unfold evaluate.L5_body
      simp only []
      congr 1
      unfold L5M
      apply eq_tab_of_aget p _ _ (by simp [size_tab])
      intro i hi
      by_cases hij : i = jv
      · subst hij
        rw [aget_aset_self _ _ _ (by simp [size_tab]; omega), aget_aset_self _ _ _ (by rw [size_tab]; omega),
          aget_aset_ne _ _ _ _ (by omega), aget_tab, aget_tab, if_pos hi, if_pos (show i + 1 < p by omega),
          if_neg (show ¬(p - s.q ≤ i ∧ i < i) by omega), if_neg (show ¬(p - s.q ≤ i + 1 ∧ i + 1 < i) by omega),
          if_pos (show p - s.q ≤ i ∧ i < i + 1 by omega)]
        unfold levelVal
        simp only []
        rw [if_neg (show ¬(i + s.q + 1 < p) by omega), if_neg (show ¬(i + s.q + 1 = p) by omega),
          if_pos (show i + 1 < p by omega)]
      · rw [aget_aset_ne _ _ _ _ hij, aget_aset_ne _ _ _ _ hij, aget_tab, if_pos hi]
        by_cases h3 : p - s.q ≤ i ∧ i < jv
        · rw [if_pos h3, if_pos (by omega)]
        · rw [if_neg h3, if_neg (by omega)]
    exact forRange_inv (fun jv s' => ∃ j' k', s' = { s with j := j', k := k', M := L5M p s jv })
      (p - s.q) (p - 1) _ s hle h0 hstep

omit [LinearOrder K] [FloorRing K] in
theorem levelVal_congr_M (τ : ℕ → K) (p mu : ℕ) (t : K) (q : ℕ) (M M' : ℕ → K) (j : ℕ)
    (h1 : M j = M' j) (h2 : M (j + 1) = M' (j + 1)) :
    levelVal τ p mu t q M j = levelVal τ p mu t q M' j := by
  unfold levelVal
  simp only [h1, h2]

omit [LinearOrder K] [FloorRing K] in
theorem levelDer_congr_M (τ : ℕ → K) (p mu : ℕ) (q : ℕ) (M M' : ℕ → K) (j : ℕ)
    (h1 : M j = M' j) (h2 : M (j + 1) = M' (j + 1)) :
    levelDer τ p mu q M j = levelDer τ p mu q M' j := by
  unfold levelDer
  simp only [h1, h2]

/-- **Value level** (`for q in range(1, p-d)` body, generated from the `.pyx`): the three in-place
statement groups — entry `p-q-1`, the ascending sweep over `p-q ≤ j < p-1` (two statements per
entry), entry `p-1` — compute exactly the parallel map `levelVal` of the model on the OLD array.
Side conditions: `1 ≤ q < p` (the loop range), `p ≤ mu` (so that the two spellings
`mu - q - 1` and `mu - p + j` of the knot index agree, i.e. no unsigned wrap-around). -/
theorem evaluate_value_level (s : evaluate.St K) (q : ℕ) (hq1 : 1 ≤ q) (hqp : q < p)
    (hmu : p ≤ s.mu) (hM : s.M.size = p) :
    evaluate.L4_body fuel knots_in p eval_t_in periodic tol d from_right q s =
      { s with q := q, j := p - 1, k := s.mu - 1,
               M := tab p (levelVal (aget s.knots) p s.mu s.evalT q (untab s.M)) } := by
  set s1 : evaluate.St K :=
    { s with q := q, j := p - q - 1, k := s.mu - q - 1,
             M := aset s.M (p - q - 1) (aget s.M (p - q - 1) + aget s.M (p - q - 1 + 1) *
        (aget s.knots (s.mu - q - 1 + q + 1) - s.evalT) /
        (aget s.knots (s.mu - q - 1 + q + 1) - aget s.knots (s.mu - q - 1 + 1))) } with hs1
  have e : evaluate.L4_body fuel knots_in p eval_t_in periodic tol d from_right q s =
      (fun s5 : evaluate.St K =>
        { s5 with j := p - 1, k := s5.mu - 1,
                  M := aset s5.M (p - 1) (aget s5.M (p - 1) * (s5.evalT - aget s5.knots (s5.mu - 1)) /
            (aget s5.knots (s5.mu - 1 + s5.q) - aget s5.knots (s5.mu - 1))) })
        (evaluate.L5 fuel knots_in p eval_t_in periodic tol d from_right s1) := rfl
  obtain ⟨j', k', h5⟩ := evaluate_L5_eq fuel knots_in p eval_t_in periodic tol d from_right s1
    (by simpa [hs1] using hqp) (by simp [hs1, hM])
  rw [e, h5]
  simp only [hs1]
  congr 1
  unfold L5M
  simp only []
  apply eq_tab_of_aget p _ _ (by simp [size_tab])
  intro i hi
  rw [untab_eq_aget]
  by_cases h1 : i = p - 1
  · subst h1
    rw [aget_aset_self _ _ _ (by rw [size_tab]; omega), aget_tab, if_pos hi,
      if_neg (show ¬(p - q ≤ p - 1 ∧ p - 1 < p - 1) by omega),
      aget_aset_ne _ _ _ _ (show p - 1 ≠ p - q - 1 by omega)]
    unfold levelVal
    simp only []
    rw [if_neg (show ¬(p - 1 + q + 1 < p) by omega), if_neg (show ¬(p - 1 + q + 1 = p) by omega),
      if_neg (show ¬(p - 1 + 1 < p) by omega), show s.mu - p + (p - 1) = s.mu - 1 by omega]
  · rw [aget_aset_ne _ _ _ _ h1, aget_tab, if_pos hi]
    by_cases h2 : p - q ≤ i
    · rw [if_pos (show p - q ≤ i ∧ i < p - 1 by omega)]
      apply levelVal_congr_M
      · rw [aget_aset_ne _ _ _ _ (by omega)]
      · rw [aget_aset_ne _ _ _ _ (by omega)]
    · rw [if_neg (show ¬(p - q ≤ i ∧ i < p - 1) by omega)]
      by_cases h3 : i = p - q - 1
      · subst h3
        rw [aget_aset_self _ _ _ (by omega)]
        unfold levelVal
        simp only []
        rw [if_neg (show ¬(p - q - 1 + q + 1 < p) by omega), if_pos (show p - q - 1 + q + 1 = p by omega),
          show s.mu - q - 1 + q + 1 = s.mu - p + (p - q - 1) + q + 1 by omega,
          show s.mu - q - 1 + 1 = s.mu - p + (p - q - 1) + 1 by omega]
      · rw [aget_aset_ne _ _ _ _ h3]
        unfold levelVal
        simp only []
        rw [if_pos (show i + q + 1 < p by omega)]

/-- Array after the iterations `j < hi` of the inner derivative loop. -/
def L7M (p : ℕ) (s : evaluate.St K) (hi : ℕ) : Array K :=
  tab p (fun i => if p - s.q - 1 ≤ i ∧ i < hi
    then levelDer (aget s.knots) p s.mu s.q (aget s.M) i else aget s.M i)

theorem L7M_self (p : ℕ) (s : evaluate.St K) (hM : s.M.size = p) (hi : ℕ) (h : hi ≤ p - s.q - 1) :
    L7M p s hi = s.M := by
  symm
  apply eq_tab_of_aget p _ _ hM
  intro j hj
  rw [if_neg (by omega)]

/-- One iteration of the inner derivative loop on the array alone: the two guarded in-place
statements at index `jv` turn "entries `< jv` new, entries `≥ jv` old" into the same with `jv + 1`. -/
theorem der_step_array (τ : ℕ → K) (p mu q : ℕ) (M0 Mj : Array K) (jv : ℕ) (hsz : Mj.size = p)
    (hq : q < p) (hjv : p - q - 1 ≤ jv) (hjp : jv < p)
    (hMj : ∀ i, i < p → aget Mj i =
      if p - q - 1 ≤ i ∧ i < jv then levelDer τ p mu q (aget M0) i else aget M0 i)
    (M1 M2 : Array K)
    (hM1 : M1 = if jv ≠ p - q - 1
      then aset Mj jv (aget Mj jv * (q : K) / (τ (mu - p + jv + q) - τ (mu - p + jv))) else Mj)
    (hM2 : M2 = if jv ≠ p - 1
      then aset M1 jv (aget M1 jv - aget M1 (jv + 1) * (q : K) /
        (τ (mu - p + jv + q + 1) - τ (mu - p + jv + 1))) else M1) :
    M2.size = p ∧ ∀ i, i < p → aget M2 i =
      if p - q - 1 ≤ i ∧ i < jv + 1 then levelDer τ p mu q (aget M0) i else aget M0 i := by
  have hs1 : M1.size = p := by
    rw [hM1]; split_ifs <;> simp [hsz]
  have hs2 : M2.size = p := by
    rw [hM2]; split_ifs <;> simp [hs1]
  refine ⟨hs2, ?_⟩
  -- the entries of M1
  have h1 : ∀ i, i < p → aget M1 i =
      if i = jv ∧ jv ≠ p - q - 1 then aget M0 jv * (q : K) / (τ (mu - p + jv + q) - τ (mu - p + jv))
      else aget Mj i := by
    intro i hi
    rw [hM1]
    by_cases c1 : jv ≠ p - q - 1
    · rw [if_pos c1, aget_aset, hsz]
      by_cases hij : i = jv
      · subst hij
        rw [if_pos ⟨rfl, hi⟩, if_pos ⟨rfl, c1⟩, hMj i hi, if_neg (by omega)]
      · rw [if_neg (fun h => hij h.1), if_neg (fun h => hij h.1)]
    · rw [if_neg c1, if_neg (fun h => c1 h.2)]
  intro i hi
  rw [hM2]
  by_cases hij : i = jv
  · subst hij
    rw [if_pos (show p - q - 1 ≤ i ∧ i < i + 1 by omega)]
    unfold levelDer
    simp only []
    rw [if_neg (show ¬(i + q + 1 < p) by omega)]
    by_cases c2 : i ≠ p - 1
    · rw [if_pos c2, aget_aset_self _ _ _ (by omega), h1 i hi, h1 (i + 1) (by omega),
        if_neg (show ¬(i + 1 = i ∧ i ≠ p - q - 1) by omega), hMj (i + 1) (by omega),
        if_neg (show ¬(p - q - 1 ≤ i + 1 ∧ i + 1 < i) by omega), if_pos (show i + 1 ≠ p by omega)]
      by_cases c1 : i ≠ p - q - 1
      · rw [if_pos ⟨rfl, c1⟩, if_pos (show i + q + 1 ≠ p by omega)]
      · rw [if_neg (fun h => c1 h.2), if_neg (show ¬(i + q + 1 ≠ p) by omega), hMj i hi, if_neg (by omega)]
    · rw [if_neg c2, h1 i hi, if_neg (show ¬(i + 1 ≠ p) by omega)]
      by_cases c1 : i ≠ p - q - 1
      · rw [if_pos ⟨rfl, c1⟩, if_pos (show i + q + 1 ≠ p by omega)]
      · rw [if_neg (fun h => c1 h.2), if_neg (show ¬(i + q + 1 ≠ p) by omega), hMj i hi, if_neg (by omega)]
  · have e2 : aget (if jv ≠ p - 1 then aset M1 jv (aget M1 jv - aget M1 (jv + 1) * (q : K) /
        (τ (mu - p + jv + q + 1) - τ (mu - p + jv + 1))) else M1) i = aget M1 i := by
      split_ifs
      · rw [aget_aset_ne _ _ _ _ hij]
      · rfl
    rw [e2, h1 i hi, if_neg (fun h => hij h.1), hMj i hi]
    by_cases h3 : p - q - 1 ≤ i ∧ i < jv
    · rw [if_pos h3, if_pos (by omega)]
    · rw [if_neg h3, if_neg (by omega)]

/-- Inner derivative loop `for j in range(p-q-1, p)`. -/
theorem evaluate_L7_eq (s : evaluate.St K) (hq : s.q < p) (hM : s.M.size = p) :
    evaluate.L7 fuel knots_in p eval_t_in periodic tol d from_right s =
      { s with j := p - 1, k := s.mu - p + (p - 1), M := L7M p s p } := by
  unfold evaluate.L7
  have hle : p - s.q - 1 ≤ p := by omega
  have h0 : ∃ j' k', s = { s with j := j', k := k', M := L7M p s (p - s.q - 1) } := by
    refine ⟨s.j, s.k, ?_⟩
    rw [L7M_self p s hM _ (by omega)]
  have hstep : ∀ jv s', p - s.q - 1 ≤ jv → jv < p →
      (∃ j' k', s' = { s with j := j', k := k', M := L7M p s jv }) →
      (evaluate.L7_body fuel knots_in p eval_t_in periodic tol d from_right jv s' =
           { s with j := jv, k := s.mu - p + jv, M := L7M p s (jv + 1) }) := by
    rintro jv s' h1 h2 ⟨j', k', rfl⟩
    have harr := der_step_array (aget s.knots) p s.mu s.q s.M (L7M p s jv) jv (size_tab _ _) hq h1 h2
      (by
        intro i hi
        unfold L7M
        rw [aget_tab, if_pos hi])
    unfold evaluate.L7_body
    simp only []
    by_cases c1 : jv ≠ p - s.q - 1 <;> by_cases c2 : jv ≠ p - 1
    · obtain ⟨hsz, hget⟩ := harr _ _ rfl rfl
      rw [if_pos c1] at hsz hget
      rw [if_pos c2] at hsz hget
      rw [if_pos c1]
      simp only []
      rw [if_pos c2]
      congr 1
      exact eq_tab_of_aget p _ _ hsz hget
    · obtain ⟨hsz, hget⟩ := harr _ _ rfl rfl
      rw [if_pos c1] at hsz hget
      rw [if_neg c2] at hsz hget
      rw [if_pos c1]
      simp only []
      rw [if_neg c2]
      congr 1
      exact eq_tab_of_aget p _ _ hsz hget
    · obtain ⟨hsz, hget⟩ := harr _ _ rfl rfl
      rw [if_neg c1] at hsz hget
      rw [if_pos c2] at hsz hget
      rw [if_neg c1]
      simp only []
      rw [if_pos c2]
      congr 1
      exact eq_tab_of_aget p _ _ hsz hget
    · obtain ⟨hsz, hget⟩ := harr _ _ rfl rfl
      rw [if_neg c1] at hsz hget
      rw [if_neg c2] at hsz hget
      rw [if_neg c1]
      simp only []
      rw [if_neg c2]
      congr 1
      exact eq_tab_of_aget p _ _ hsz hget
  have key := forRange_inv
    (fun jv s' => (∃ j' k', s' = { s with j := j', k := k', M := L7M p s jv }) ∧
      (p - s.q - 1 < jv → s' = { s with j := jv - 1, k := s.mu - p + (jv - 1), M := L7M p s jv }))
    (p - s.q - 1) p (evaluate.L7_body fuel knots_in p eval_t_in periodic tol d from_right) s hle
    ⟨h0, fun h => absurd h (lt_irrefl _)⟩
    (by
      rintro jv s' h1 h2 ⟨h3, -⟩
      have := hstep jv s' h1 h2 h3
      exact ⟨⟨_, _, this⟩, fun _ => by rw [this]; rfl⟩)
  exact key.2 (by omega)

/-- **Derivative level** (`for q in range(p-d, p)` body, generated from the `.pyx`): the ascending
in-place sweep with its two guarded statements per entry computes exactly the parallel map
`levelDer` of the model on the OLD array.  Side condition: `q < p` (the loop range). -/
theorem evaluate_deriv_level (s : evaluate.St K) (q : ℕ) (hqp : q < p) (hM : s.M.size = p) :
    evaluate.L6_body fuel knots_in p eval_t_in periodic tol d from_right q s =
      { s with q := q, j := p - 1, k := s.mu - p + (p - 1),
               M := tab p (levelDer (aget s.knots) p s.mu q (untab s.M)) } := by
  have e : evaluate.L6_body fuel knots_in p eval_t_in periodic tol d from_right q s =
      evaluate.L7 fuel knots_in p eval_t_in periodic tol d from_right { s with q := q } := rfl
  rw [e, evaluate_L7_eq fuel knots_in p eval_t_in periodic tol d from_right { s with q := q } hqp hM]
  simp only []
  congr 1
  unfold L7M
  simp only []
  apply tab_congr
  intro i hi
  rw [untab_eq_aget]
  by_cases h : p - q - 1 ≤ i
  · rw [if_pos ⟨h, hi⟩]
  · rw [if_neg (fun hh => h hh.1)]
    unfold levelDer
    simp only []
    rw [if_pos (show i + q + 1 < p by omega)]

/-! ## (c) the whole triangle -/

/-- The model's value levels `1 .. n` folded from `M`. -/
def valFold (τ : ℕ → K) (p mu : ℕ) (t : K) (n : ℕ) (M : Array K) : Array K :=
  (List.range' 1 n).foldl (fun M q => tab p (levelVal τ p mu t q (untab M))) M

/-- The model's derivative levels `a .. a+n-1` folded from `M`. -/
def derFold (τ : ℕ → K) (p mu : ℕ) (a n : ℕ) (M : Array K) : Array K :=
  (List.range' a n).foldl (fun M q => tab p (levelDer τ p mu q (untab M))) M

omit [LinearOrder K] [FloorRing K] in
theorem valFold_size (τ : ℕ → K) (p mu : ℕ) (t : K) (n : ℕ) (M : Array K) (h : M.size = p) :
    (valFold τ p mu t n M).size = p :=
  tri_foldl_tab_size p (fun q M => levelVal τ p mu t q (untab M)) _ _ h

omit [LinearOrder K] [FloorRing K] in
theorem derFold_size (τ : ℕ → K) (p mu : ℕ) (a n : ℕ) (M : Array K) (h : M.size = p) :
    (derFold τ p mu a n M).size = p :=
  tri_foldl_tab_size p (fun q M => levelDer τ p mu q (untab M)) _ _ h

omit [LinearOrder K] [FloorRing K] in
theorem valFold_succ (τ : ℕ → K) (p mu : ℕ) (t : K) (n : ℕ) (M : Array K) :
    valFold τ p mu t (n + 1) M = tab p (levelVal τ p mu t (n + 1) (untab (valFold τ p mu t n M))) := by
  unfold valFold
  rw [List.range'_concat, List.foldl_append]
  simp only [List.foldl_cons, List.foldl_nil, Nat.one_mul]
  rw [Nat.add_comm 1 n]

omit [LinearOrder K] [FloorRing K] in
theorem derFold_succ (τ : ℕ → K) (p mu : ℕ) (a n : ℕ) (M : Array K) :
    derFold τ p mu a (n + 1) M = tab p (levelDer τ p mu (a + n) (untab (derFold τ p mu a n M))) := by
  unfold derFold
  rw [List.range'_concat, List.foldl_append]
  simp only [List.foldl_cons, List.foldl_nil, Nat.one_mul]

omit [LinearOrder K] [FloorRing K] in
theorem triangle_eq_folds (τ : ℕ → K) (p mu d : ℕ) (t : K) :
    triangle τ p mu d t = derFold τ p mu (p - d) d
      (valFold τ p mu t (p - d - 1) (tab p (fun j => if j + 1 = p then 1 else 0))) := rfl

/-- Initialisation loop `for k in range(p-1): M[k] = 0`. -/
theorem evaluate_L3_eq (s : evaluate.St K) (hM : s.M.size = p) :
    ∃ k', evaluate.L3 fuel knots_in p eval_t_in periodic tol d from_right s =
      { s with k := k', M := tab p (fun i => if i < p - 1 then 0 else aget s.M i) } := by
  unfold evaluate.L3
  have h0 : ∃ k', s = { s with k := k', M := tab p (fun i => if i < 0 then 0 else aget s.M i) } := by
    refine ⟨s.k, ?_⟩
    have : tab p (fun i => if i < 0 then 0 else aget s.M i) = s.M := by
      symm
      apply eq_tab_of_aget p _ _ hM
      intro j hj
      rw [if_neg (by omega)]
    rw [this]
  refine forRange_inv
    (fun kv s' => ∃ k', s' = { s with k := k', M := tab p (fun i => if i < kv then 0 else aget s.M i) })
    0 (p - 1) _ s (Nat.zero_le _) h0 ?_
  rintro kv s' h1 h2 ⟨k', rfl⟩
  refine ⟨kv, ?_⟩
  unfold evaluate.L3_body
  simp only []
  congr 1
  apply eq_tab_of_aget p _ _ (by simp [size_tab])
  intro i hi
  rw [aget_aset, size_tab]
  by_cases hij : i = kv
  · subst hij
    rw [if_pos ⟨rfl, by omega⟩, if_pos (by omega)]
  · rw [if_neg (fun h => hij h.1), aget_tab, if_pos hi]
    by_cases h3 : i < kv
    · rw [if_pos h3, if_pos (by omega)]
    · rw [if_neg h3, if_neg (by omega)]

/-- Value loop `for q in range(1, p-d)`: the model's fold of `levelVal` over `q = 1 .. p-d-1`. -/
theorem evaluate_L4_eq (s : evaluate.St K) (hmu : p ≤ s.mu) (hM : s.M.size = p) :
    ∃ q' j' k', evaluate.L4 fuel knots_in p eval_t_in periodic tol d from_right s =
      { s with q := q', j := j', k := k',
               M := valFold (aget s.knots) p s.mu s.evalT (p - d - 1) s.M } := by
  unfold evaluate.L4
  by_cases hle : 1 ≤ p - d
  swap
  · rw [forRange_of_le _ _ _ _ (by omega), show p - d - 1 = 0 by omega]
    exact ⟨s.q, s.j, s.k, rfl⟩
  · have key := forRange_inv
      (fun qv s' => ∃ q' j' k', s' = { s with q := q', j := j', k := k',
                                              M := valFold (aget s.knots) p s.mu s.evalT (qv - 1) s.M })
      1 (p - d) (evaluate.L4_body fuel knots_in p eval_t_in periodic tol d from_right) s hle
      ⟨s.q, s.j, s.k, rfl⟩
      (by
        rintro qv s' h1 h2 ⟨q', j', k', rfl⟩
        refine ⟨qv, p - 1, s.mu - 1, ?_⟩
        rw [evaluate_value_level fuel knots_in p eval_t_in periodic tol d from_right
          { s with q := q', j := j', k := k', M := valFold (aget s.knots) p s.mu s.evalT (qv - 1) s.M }
          qv h1 (by omega) hmu (valFold_size _ _ _ _ _ _ hM)]
        simp only []
        rw [show qv + 1 - 1 = (qv - 1) + 1 by omega, valFold_succ, show qv - 1 + 1 = qv by omega])
    exact key

/-- Derivative loop `for q in range(p-d, p)`: the model's fold of `levelDer` over
`q = p-d .. p-1`. -/
theorem evaluate_L6_eq (s : evaluate.St K) (hd : d ≤ p) (hM : s.M.size = p) :
    ∃ q' j' k', evaluate.L6 fuel knots_in p eval_t_in periodic tol d from_right s =
      { s with q := q', j := j', k := k', M := derFold (aget s.knots) p s.mu (p - d) d s.M } := by
  unfold evaluate.L6
  have key := forRange_inv
    (fun qv s' => ∃ q' j' k', s' = { s with q := q', j := j', k := k',
                                            M := derFold (aget s.knots) p s.mu (p - d) (qv - (p - d)) s.M })
    (p - d) p (evaluate.L6_body fuel knots_in p eval_t_in periodic tol d from_right) s (Nat.sub_le _ _)
    (by
      rw [Nat.sub_self]
      exact ⟨s.q, s.j, s.k, rfl⟩)
    (by
      rintro qv s' h1 h2 ⟨q', j', k', rfl⟩
      refine ⟨qv, p - 1, s.mu - p + (p - 1), ?_⟩
      rw [evaluate_deriv_level fuel knots_in p eval_t_in periodic tol d from_right
        { s with q := q', j := j', k := k', M := derFold (aget s.knots) p s.mu (p - d) (qv - (p - d)) s.M }
        qv h2 (derFold_size _ _ _ _ _ _ hM)]
      simp only []
      rw [show qv + 1 - (p - d) = (qv - (p - d)) + 1 by omega, derFold_succ,
        show p - d + (qv - (p - d)) = qv by omega])
  rw [show p - (p - d) = d by omega] at key
  exact key

/-- **The triangle** (initialisation of `M`, value loops, derivative loops of the generated
`evaluate`): the scratch array ends as the model's `triangle`.  Side conditions: `1 ≤ p`, `d < p`,
`p ≤ mu` (no unsigned wrap-around in `mu - q - 1`, `mu - p + j`; proved on valid input by
`muOf_spec`). -/
theorem evaluate_triangle (s : evaluate.St K) (hp : 1 ≤ p) (hd : d < p) (hmu : p ≤ s.mu)
    (hM : s.M.size = p) :
    ∃ q' j' k', evaluate.L6 fuel knots_in p eval_t_in periodic tol d from_right
      (evaluate.L4 fuel knots_in p eval_t_in periodic tol d from_right
        ((fun s3 : evaluate.St K => { s3 with M := aset s3.M (p - 1) 1 })
          (evaluate.L3 fuel knots_in p eval_t_in periodic tol d from_right s))) =
      { s with q := q', j := j', k := k', M := triangle (aget s.knots) p s.mu d s.evalT } := by
  obtain ⟨k3, h3⟩ := evaluate_L3_eq fuel knots_in p eval_t_in periodic tol d from_right s hM
  rw [h3]
  simp only []
  have hinit : aset (tab p (fun i => if i < p - 1 then (0 : K) else aget s.M i)) (p - 1) 1
      = tab p (fun j => if j + 1 = p then 1 else 0) := by
    apply eq_tab_of_aget p _ _ (by simp [size_tab])
    intro i hi
    rw [aget_aset, size_tab]
    by_cases h : i = p - 1
    · rw [if_pos ⟨h, by omega⟩, if_pos (by omega)]
    · rw [if_neg (fun hh => h hh.1), aget_tab, if_pos hi, if_pos (by omega), if_neg (by omega)]
  rw [hinit]
  obtain ⟨q4, j4, k4, h4⟩ := evaluate_L4_eq fuel knots_in p eval_t_in periodic tol d from_right
    { s with k := k3, M := tab p (fun j => if j + 1 = p then 1 else 0) } hmu (size_tab _ _)
  rw [h4]
  simp only []
  obtain ⟨q6, j6, k6, h6⟩ := evaluate_L6_eq fuel knots_in p eval_t_in periodic tol d from_right
    { s with k := k4, q := q4, j := j4,
             M := valFold (aget s.knots) p s.mu s.evalT (p - d - 1) (tab p (fun j => if j + 1 = p then 1 else 0)) }
    (le_of_lt hd) (valFold_size _ _ _ _ _ _ (size_tab _ _))
  rw [h6]
  exact ⟨q6, j6, k6, rfl⟩

/-! ### The triangle only reads knots below `mu + p` -/

omit [LinearOrder K] [FloorRing K] in
theorem levelVal_congr_knots (τ τ' : ℕ → K) (p mu : ℕ) (t : K) (q : ℕ) (M : ℕ → K) (j : ℕ)
    (hj : j < p) (hq : q < p) (hmu : p ≤ mu) (h : ∀ i, i < mu + p → τ i = τ' i) :
    levelVal τ p mu t q M j = levelVal τ' p mu t q M j := by
  unfold levelVal
  simp only []
  rw [h (mu - p + j) (by omega), h (mu - p + j + q) (by omega), h (mu - p + j + q + 1) (by omega),
    h (mu - p + j + 1) (by omega)]

omit [LinearOrder K] [FloorRing K] in
theorem levelDer_congr_knots (τ τ' : ℕ → K) (p mu : ℕ) (q : ℕ) (M : ℕ → K) (j : ℕ)
    (hj : j < p) (hq : q < p) (hmu : p ≤ mu) (h : ∀ i, i < mu + p → τ i = τ' i) :
    levelDer τ p mu q M j = levelDer τ' p mu q M j := by
  unfold levelDer
  simp only []
  rw [h (mu - p + j) (by omega), h (mu - p + j + q) (by omega), h (mu - p + j + q + 1) (by omega),
    h (mu - p + j + 1) (by omega)]

omit [LinearOrder K] [FloorRing K] in
theorem valFold_congr_knots (τ τ' : ℕ → K) (p mu : ℕ) (t : K) (n : ℕ) (M : Array K)
    (hn : n < p) (hmu : p ≤ mu) (h : ∀ i, i < mu + p → τ i = τ' i) :
    valFold τ p mu t n M = valFold τ' p mu t n M := by
  induction n with
  | zero => rfl
  | succ n ih =>
    rw [valFold_succ, valFold_succ, ih (by omega)]
    exact tab_congr p _ _ (fun j hj => levelVal_congr_knots τ τ' p mu t (n + 1) _ j hj hn hmu h)

omit [LinearOrder K] [FloorRing K] in
theorem derFold_congr_knots (τ τ' : ℕ → K) (p mu : ℕ) (a n : ℕ) (M : Array K)
    (hn : a + n ≤ p) (hmu : p ≤ mu) (h : ∀ i, i < mu + p → τ i = τ' i) :
    derFold τ p mu a n M = derFold τ' p mu a n M := by
  induction n with
  | zero => rfl
  | succ n ih =>
    rw [derFold_succ, derFold_succ, ih (by omega)]
    exact tab_congr p _ _ (fun j hj => levelDer_congr_knots τ τ' p mu (a + n) _ j hj (by omega) hmu h)

omit [LinearOrder K] [FloorRing K] in
/-- `triangle` depends on the knot accessor only through its values below `mu + p`. -/
theorem triangle_congr_knots (τ τ' : ℕ → K) (p mu d : ℕ) (t : K) (hd : d < p) (hmu : p ≤ mu)
    (h : ∀ i, i < mu + p → τ i = τ' i) : triangle τ p mu d t = triangle τ' p mu d t := by
  rw [triangle_eq_folds, triangle_eq_folds, valFold_congr_knots τ τ' p mu t _ _ (by omega) hmu h,
    derFold_congr_knots τ τ' p mu _ _ _ (by omega) hmu h]

/-! ### The output loop -/

/-- `D` with the `p` entries from offset `off` on replaced by `f 0 .. f (p-1)`. -/
def writeRow {α : Type} [Zero α] (D : Array α) (off p : ℕ) (f : ℕ → α) : Array α :=
  Array.ofFn (n := D.size) (fun idx =>
    if off ≤ idx.val ∧ idx.val < off + p then f (idx.val - off) else aget D idx.val)

theorem size_writeRow {α : Type} [Zero α] (D : Array α) (off p : ℕ) (f : ℕ → α) :
    (writeRow D off p f).size = D.size := by
  simp [writeRow]

theorem aget_writeRow {α : Type} [Zero α] (D : Array α) (off p : ℕ) (f : ℕ → α) (i : ℕ)
    (hi : i < D.size) :
    aget (writeRow D off p f) i = if off ≤ i ∧ i < off + p then f (i - off) else aget D i := by
  unfold writeRow
  rw [aget_ofFn _ _ _ hi]

theorem writeRow_zero {α : Type} [Zero α] (D : Array α) (off : ℕ) (f : ℕ → α) :
    writeRow D off 0 f = D := by
  apply ext_aget _ _ (size_writeRow _ _ _ _)
  intro i hi
  rw [size_writeRow] at hi
  rw [aget_writeRow _ _ _ _ _ hi, if_neg (by omega)]

theorem writeRow_step {α : Type} [Zero α] (D : Array α) (off n : ℕ) (f : ℕ → α) :
    aset (writeRow D off n f) (off + n) (f n) = writeRow D off (n + 1) f := by
  apply ext_aget _ _ (by simp [size_writeRow])
  intro i hi
  rw [size_aset, size_writeRow] at hi
  rw [aget_aset, size_writeRow, aget_writeRow _ _ _ _ _ hi, aget_writeRow _ _ _ _ _ hi]
  by_cases h : i = off + n
  · subst h
    rw [if_pos ⟨rfl, hi⟩, if_pos (by omega), Nat.add_sub_cancel_left]
  · rw [if_neg (fun hh => h hh.1)]
    by_cases h2 : off ≤ i ∧ i < off + n
    · rw [if_pos h2, if_pos (by omega)]
    · rw [if_neg h2, if_neg (by omega)]

/-- Output loop `for j,k in enumerate(range(i*p, (i+1)*p)): data[k] = M[j]; indices[k] = (mu-p+j) % n`. -/
theorem evaluate_L8_eq (s : evaluate.St K) :
    ∃ j' k', evaluate.L8 fuel knots_in p eval_t_in periodic tol d from_right s =
      { s with j := j', k := k',
               data := writeRow s.data (s.i * p) p (aget s.M),
               indices := writeRow s.indices (s.i * p) p (fun j => (s.mu - p + j) % s.n) } := by
  unfold evaluate.L8
  rw [forEnumRange_eq_forRange]
  have hle : s.i * p ≤ (s.i + 1) * p := Nat.mul_le_mul_right _ (Nat.le_succ _)
  have key := forRange_inv
    (fun kv s' => ∃ j' k', s' =
      { s with j := j', k := k',
               data := writeRow s.data (s.i * p) (kv - s.i * p) (aget s.M),
               indices := writeRow s.indices (s.i * p) (kv - s.i * p) (fun j => (s.mu - p + j) % s.n) })
    (s.i * p) ((s.i + 1) * p)
    (fun k s' => evaluate.L8_body fuel knots_in p eval_t_in periodic tol d from_right (k - s.i * p) k s') s hle
    (by
      refine ⟨s.j, s.k, ?_⟩
      rw [Nat.sub_self, writeRow_zero, writeRow_zero])
    (by
      rintro kv s' h1 h2 ⟨j', k', rfl⟩
      refine ⟨kv - s.i * p, kv, ?_⟩
      unfold evaluate.L8_body
      simp only []
      rw [show kv + 1 - s.i * p = (kv - s.i * p) + 1 by omega, ← writeRow_step, ← writeRow_step,
        show s.i * p + (kv - s.i * p) = kv by omega])
  rw [show (s.i + 1) * p - s.i * p = p by rw [Nat.add_mul, Nat.one_mul]; omega] at key
  exact key

theorem writeRow_congr {α : Type} [Zero α] (D : Array α) (off p : ℕ) (f g : ℕ → α)
    (h : ∀ j, j < p → f j = g j) : writeRow D off p f = writeRow D off p g := by
  apply ext_aget _ _ (by simp [size_writeRow])
  intro i hi
  rw [size_writeRow] at hi
  rw [aget_writeRow _ _ _ _ _ hi, aget_writeRow _ _ _ _ _ hi]
  by_cases h2 : off ≤ i ∧ i < off + p
  · rw [if_pos h2, if_pos h2, h _ (by omega)]
  · rw [if_neg h2, if_neg h2]

/-- Writing an all-zero row over entries that are zero changes nothing. -/
theorem writeRow_zeros {α : Type} [Zero α] (D : Array α) (off p : ℕ) (f : ℕ → α)
    (hf : ∀ j, j < p → f j = 0) (hD : ∀ i, off ≤ i → i < off + p → aget D i = 0) :
    writeRow D off p f = D := by
  apply ext_aget _ _ (size_writeRow _ _ _ _)
  intro i hi
  rw [size_writeRow] at hi
  rw [aget_writeRow _ _ _ _ _ hi]
  by_cases h2 : off ≤ i ∧ i < off + p
  · rw [if_pos h2, hf _ (by omega), hD i h2.1 h2.2]
  · rw [if_neg h2]

end levels

/-! ## (c) one evaluation point: the main-loop body is the model's `evalAt` -/

section point

variable [IsStrictOrderedRing K] [FloorRing K]

omit [FloorRing K] in
theorem aget_knots_eq_kn (b : Basis K) (i : ℕ) (h : i < b.knots.size) : aget b.knots i = b.kn i := by
  rw [aget_of_lt _ _ h, b.kn_of_lt h]

omit [FloorRing K] in
/-- The span index computed by the generated code (`my_bisect_*` on the array, then `min`) is the
model's `muOf`. -/
theorem mu_eq_muOf (b : Basis K) (fuel : ℕ) (t1 : K) (hsz : b.order ≤ b.knots.size)
    (hfuel : b.knots.size ≤ fuel) :
    min (my_bisect_right fuel b.knots t1 (b.nAll + b.order)) b.nAll = muOf b .right t1 ∧
    min (my_bisect_left fuel b.knots t1 (b.nAll + b.order)) b.nAll = muOf b .left t1 := by
  have hn : b.nAll + b.order = b.knots.size := by unfold Basis.nAll; omega
  constructor
  · rw [my_bisect_right_eq _ _ _ _ (by omega)]
    unfold muOf bisectRight
    simp only []
    rw [bisectRightAux_congr (aget b.knots) b.kn t1 0 _
      (fun i _ h => aget_knots_eq_kn b i (by omega))]
  · rw [my_bisect_left_eq _ _ _ _ (by omega)]
    unfold muOf bisectLeft
    simp only []
    rw [bisectLeftAux_congr (aget b.knots) b.kn t1 0 _
      (fun i _ h => aget_knots_eq_kn b i (by omega))]

variable (fuel : ℕ) (knots_in : Array K) (eval_t_in : Array K) (periodic : ℤ) (tol : K)
  (d : ℕ) (from_right : Bool)

/-- Side of the bisection used for a state. -/
def sideOf (r : Bool) : Side := if r then .right else .left

/-- **The non-skipped part of the main-loop body** (generated `evaluate.L2_body_cont1`: `mu` by
bisection and `min`, initialisation of `M`, value and derivative loops, output loop) writes the
model's `triangle` and column indices into the `p` slots of row `i`.
`hmu` is the no-wrap-around hypothesis `p ≤ mu`. -/
theorem evaluate_cont1_eq (b : Basis K) (s : evaluate.St K)
    (hp : 1 ≤ b.order) (hd : d < b.order) (hsz : b.order ≤ b.knots.size) (hfuel : b.knots.size ≤ fuel)
    (hk : s.knots = b.knots) (hnall : s.n_all = b.nAll) (hM : s.M.size = b.order)
    (hmu : b.order ≤ muOf b (sideOf s.right) s.evalT) :
    ∃ q' j' k', evaluate.L2_body_cont1 fuel knots_in b.order eval_t_in periodic tol d from_right s =
      { s with mu := muOf b (sideOf s.right) s.evalT, q := q', j := j', k := k',
               M := triangle b.kn b.order (muOf b (sideOf s.right) s.evalT) d s.evalT,
               data := writeRow s.data (s.i * b.order) b.order
                 (aget (triangle b.kn b.order (muOf b (sideOf s.right) s.evalT) d s.evalT)),
               indices := writeRow s.indices (s.i * b.order) b.order
                 (fun j => (muOf b (sideOf s.right) s.evalT - b.order + j) % s.n) } := by
  obtain ⟨hmr, hml⟩ := mu_eq_muOf b fuel s.evalT hsz hfuel
  -- the state after `mu = min(bisect, n_all)`
  have e : evaluate.L2_body_cont1 fuel knots_in b.order eval_t_in periodic tol d from_right s =
      evaluate.L8 fuel knots_in b.order eval_t_in periodic tol d from_right
        (evaluate.L6 fuel knots_in b.order eval_t_in periodic tol d from_right
          (evaluate.L4 fuel knots_in b.order eval_t_in periodic tol d from_right
            ((fun s3 : evaluate.St K => { s3 with M := aset s3.M (b.order - 1) 1 })
              (evaluate.L3 fuel knots_in b.order eval_t_in periodic tol d from_right
                { s with mu := muOf b (sideOf s.right) s.evalT })))) := by
    unfold evaluate.L2_body_cont1
    cases hr : s.right
    · simp only [Bool.false_eq_true, if_false, hk, hnall, hml, sideOf]
    · simp only [if_true, hk, hnall, hmr, sideOf]
  rw [e]
  obtain ⟨q6, j6, k6, h6⟩ := evaluate_triangle fuel knots_in b.order eval_t_in periodic tol d from_right
    { s with mu := muOf b (sideOf s.right) s.evalT } hp hd hmu hM
  rw [h6]
  obtain ⟨j8, k8, h8⟩ := evaluate_L8_eq fuel knots_in b.order eval_t_in periodic tol d from_right
    { s with mu := muOf b (sideOf s.right) s.evalT, q := q6, j := j6, k := k6,
             M := triangle (aget s.knots) b.order (muOf b (sideOf s.right) s.evalT) d s.evalT }
  rw [h8]
  have hmule : muOf b (sideOf s.right) s.evalT ≤ b.nAll := by
    unfold muOf; exact min_le_right _ _
  have htri : triangle (aget s.knots) b.order (muOf b (sideOf s.right) s.evalT) d s.evalT =
      triangle b.kn b.order (muOf b (sideOf s.right) s.evalT) d s.evalT := by
    apply triangle_congr_knots _ _ _ _ _ _ hd hmu
    intro i hi
    rw [hk]
    apply aget_knots_eq_kn
    unfold Basis.nAll at hmule
    omega
  refine ⟨q6, j8, k8, ?_⟩
  simp only [htri]

/-- The effective side flag of the main loop (`right = from_right`, `False` at the end point). -/
def rOf (b : Basis K) (tol : K) (fromRight : Bool) (t1 : K) : Bool :=
  if |t1 - b.kn b.nAll| < tol then false else fromRight

/-- The skip test of the main loop (`continue`). -/
def SkipAt (b : Basis K) (tol : K) (fromRight : Bool) (t1 : K) : Prop :=
  t1 < b.kn (b.order - 1) ∨ t1 > b.kn b.nAll ∨
    (|t1 - b.kn (b.order - 1)| < tol ∧ ¬ (rOf b tol fromRight t1 = true))

/-- **No unsigned wrap-around at the point `t1`**: when the point is not skipped, the span index
satisfies `p ≤ mu` (so that `mu - q - 1` and `mu - p + j` are exact in `unsigned int`).  Holds for
every valid basis and positive tolerance: `noWrapAt_of_valid` (from `muOf_spec`). -/
def NoWrapAt (b : Basis K) (tol : K) (fromRight : Bool) (t1 : K) : Prop :=
  ¬ SkipAt b tol fromRight t1 → b.order ≤ muOf b (sideOf (rOf b tol fromRight t1)) t1

omit [FloorRing K] in
theorem noWrapAt_of_valid {b : Basis K} (hv : b.Valid) {tol : K} (htol : 0 < tol) (fromRight : Bool)
    (t1 : K) : NoWrapAt b tol fromRight t1 := by
  intro hns
  have h1 : b.kn (b.order - 1) ≤ t1 := not_lt.mp (fun h => hns (Or.inl h))
  have h2' : t1 ≤ b.kn b.nAll := not_lt.mp (fun h => hns (Or.inr (Or.inl h)))
  have h3 : |t1 - b.kn (b.order - 1)| < tol → rOf b tol fromRight t1 = true := by
    intro h
    by_contra hc
    exact hns (Or.inr (Or.inr ⟨h, hc⟩))
  refine (muOf_spec hv _ t1 (by rw [b.start_eq]; exact h1) (by rw [b.stop_eq]; exact h2') ?_ ?_).1
  · intro hs
    rw [b.stop_eq]
    have hr : rOf b tol fromRight t1 = true := by
      cases h : rOf b tol fromRight t1
      · rw [h] at hs; simp [sideOf] at hs
      · rfl
    unfold rOf at hr
    by_cases c : |t1 - b.kn b.nAll| < tol
    · rw [if_pos c] at hr; exact absurd hr (by simp)
    · refine lt_of_le_of_ne h2' (fun heq => c ?_)
      rw [heq, sub_self, abs_zero]; exact htol
  · intro hs
    rw [b.start_eq]
    have hr : rOf b tol fromRight t1 = false := by
      cases h : rOf b tol fromRight t1
      · rfl
      · rw [h] at hs; simp [sideOf] at hs
    refine lt_of_le_of_ne h1 (fun heq => ?_)
    have := h3 (by rw [← heq, sub_self, abs_zero]; exact htol)
    rw [hr] at this
    exact absurd this (by simp)

omit [IsStrictOrderedRing K] [FloorRing K] in
theorem evalAt_of_skip (b : Basis K) (tol : K) (d : ℕ) (fromRight : Bool) (t1 : K)
    (h : SkipAt b tol fromRight t1) : evalAt b tol d fromRight t1 = zeroRow K b.order := by
  unfold evalAt
  simp only []
  rw [if_pos]
  unfold SkipAt rOf at h
  rcases h with h | h | ⟨h1, h2⟩
  · exact Or.inl h
  · exact Or.inr (Or.inl h)
  · refine Or.inr (Or.inr ⟨h1, ?_⟩)
    revert h2
    cases (if |t1 - b.kn b.nAll| < tol then false else fromRight) <;> simp

omit [IsStrictOrderedRing K] [FloorRing K] in
theorem evalAt_of_not_skip (b : Basis K) (tol : K) (d : ℕ) (fromRight : Bool) (t1 : K)
    (h : ¬ SkipAt b tol fromRight t1) :
    evalAt b tol d fromRight t1 = rowAt b d (sideOf (rOf b tol fromRight t1)) t1 := by
  unfold evalAt
  simp only []
  rw [if_neg]
  · rfl
  · intro hc
    apply h
    unfold SkipAt rOf
    rcases hc with hc | hc | ⟨h1, h2⟩
    · exact Or.inl hc
    · exact Or.inr (Or.inl hc)
    · refine Or.inr (Or.inr ⟨h1, ?_⟩)
      revert h2
      cases (if |t1 - b.kn b.nAll| < tol then false else fromRight) <;> simp

/-- **One evaluation point** (generated main-loop body `evaluate.L2_body`, all of it: end-point
rule, skip test, `mu`, triangle, output): the `p` data slots and `p` index slots of row `i` receive
the row of the model's `evalAt` at `t[i]`; nothing else of `data`/`indices` changes; `knots`, the
scalars of the prologue and `t` are untouched; `M` keeps its size. -/
theorem evaluate_point (b : Basis K) (s : evaluate.St K) (iv : ℕ)
    (hp : 1 ≤ b.order) (hd : d < b.order) (hsz : b.order ≤ b.knots.size) (hfuel : b.knots.size ≤ fuel)
    (hk : s.knots = b.knots) (hnall : s.n_all = b.nAll) (hn : s.n = b.numFunctions)
    (hstart : s.start = b.kn (b.order - 1)) (hend : s.«end» = b.kn b.nAll) (hM : s.M.size = b.order)
    (hzd : ∀ idx, iv * b.order ≤ idx → idx < iv * b.order + b.order → aget s.data idx = 0)
    (hzi : ∀ idx, iv * b.order ≤ idx → idx < iv * b.order + b.order → aget s.indices idx = 0)
    (hnw : NoWrapAt b tol from_right (aget s.t iv)) :
    ∃ r eT mu M q j k, M.size = b.order ∧
      evaluate.L2_body fuel knots_in b.order eval_t_in periodic tol d from_right iv s =
        { s with i := iv, right := r, evalT := eT, mu := mu, M := M, q := q, j := j, k := k,
                 data := writeRow s.data (iv * b.order) b.order
                   (aget (evalAt b tol d from_right (aget s.t iv)).data),
                 indices := writeRow s.indices (iv * b.order) b.order
                   (aget (evalAt b tol d from_right (aget s.t iv)).idx) } := by
  have e : evaluate.L2_body fuel knots_in b.order eval_t_in periodic tol d from_right iv s =
      if (aget s.t iv < b.kn (b.order - 1) ∨ aget s.t iv > b.kn b.nAll ∨
          (|aget s.t iv - b.kn (b.order - 1)| < tol ∧ ¬ (rOf b tol from_right (aget s.t iv) = true))) then
        { s with i := iv, right := rOf b tol from_right (aget s.t iv), evalT := aget s.t iv }
      else evaluate.L2_body_cont1 fuel knots_in b.order eval_t_in periodic tol d from_right
        { s with i := iv, right := rOf b tol from_right (aget s.t iv), evalT := aget s.t iv } := by
    unfold evaluate.L2_body rOf
    simp only [hend, hstart]
    by_cases c0 : |aget s.t iv - b.kn b.nAll| < tol
    · simp only [c0, if_true]
    · simp only [c0, if_false]
  rw [e]
  by_cases hs : SkipAt b tol from_right (aget s.t iv)
  · have hs' : (aget s.t iv < b.kn (b.order - 1) ∨ aget s.t iv > b.kn b.nAll ∨
        (|aget s.t iv - b.kn (b.order - 1)| < tol ∧ ¬ (rOf b tol from_right (aget s.t iv) = true))) := hs
    rw [if_pos hs', evalAt_of_skip b tol d from_right _ hs]
    refine ⟨rOf b tol from_right (aget s.t iv), aget s.t iv, s.mu, s.M, s.q, s.j, s.k, hM, ?_⟩
    have hz : ∀ j, j < b.order → aget (zeroRow K b.order).data j = 0 := fun j _ => aget_replicate _ _
    have hz' : ∀ j, j < b.order → aget (zeroRow K b.order).idx j = 0 := fun j _ => aget_replicate _ _
    rw [writeRow_zeros _ _ _ _ hz hzd, writeRow_zeros _ _ _ _ hz' hzi]
  · have hs' : ¬ (aget s.t iv < b.kn (b.order - 1) ∨ aget s.t iv > b.kn b.nAll ∨
        (|aget s.t iv - b.kn (b.order - 1)| < tol ∧ ¬ (rOf b tol from_right (aget s.t iv) = true))) := hs
    rw [if_neg hs', evalAt_of_not_skip b tol d from_right _ hs]
    obtain ⟨q', j', k', h1⟩ := evaluate_cont1_eq fuel knots_in eval_t_in periodic tol d from_right b
      { s with i := iv, right := rOf b tol from_right (aget s.t iv), evalT := aget s.t iv }
      hp hd hsz hfuel hk hnall hM (hnw hs)
    rw [h1]
    refine ⟨rOf b tol from_right (aget s.t iv), aget s.t iv,
      muOf b (sideOf (rOf b tol from_right (aget s.t iv))) (aget s.t iv),
      triangle b.kn b.order (muOf b (sideOf (rOf b tol from_right (aget s.t iv))) (aget s.t iv)) d (aget s.t iv),
      q', j', k', triangle_size _ _ _ _ _, ?_⟩
    have e1 : (rowAt b d (sideOf (rOf b tol from_right (aget s.t iv))) (aget s.t iv)).data =
        triangle b.kn b.order (muOf b (sideOf (rOf b tol from_right (aget s.t iv))) (aget s.t iv)) d
          (aget s.t iv) := rfl
    have e2 : writeRow s.indices (iv * b.order) b.order
          (aget (rowAt b d (sideOf (rOf b tol from_right (aget s.t iv))) (aget s.t iv)).idx) =
        writeRow s.indices (iv * b.order) b.order
          (fun j => (muOf b (sideOf (rOf b tol from_right (aget s.t iv))) (aget s.t iv) - b.order + j) % s.n) := by
      apply writeRow_congr
      intro j hj
      have : (rowAt b d (sideOf (rOf b tol from_right (aget s.t iv))) (aget s.t iv)).idx =
          Array.ofFn (n := b.order) (fun j =>
            (muOf b (sideOf (rOf b tol from_right (aget s.t iv))) (aget s.t iv) - b.order + j.val)
              % b.numFunctions) := rfl
      rw [this, aget_ofFn _ _ _ hj, hn]
    rw [e1, e2]

/-! ## The periodic wrap loop -/

/-- The body of the wrap loop on one value (the `periodic ≥ 0` branch of the model's `wrapT`). -/
def wrapP (b : Basis K) (tol : K) (fromRight : Bool) (t0 : K) : K :=
  let w := if t0 < b.kn (b.order - 1) ∨ t0 > b.kn b.nAll then
      pmod (t0 - b.kn (b.order - 1)) (b.kn b.nAll - b.kn (b.order - 1)) + b.kn (b.order - 1)
    else t0
  if |w - b.kn (b.order - 1)| < tol ∧ !fromRight then b.kn b.nAll else w

omit [IsStrictOrderedRing K] in
theorem wrapT_eq_wrapP (b : Basis K) (tol : K) (fromRight : Bool) (t0 : K) :
    wrapT b tol fromRight t0 = if b.periodic ≥ 0 then wrapP b tol fromRight t0 else t0 := rfl

omit [IsStrictOrderedRing K] in
/-- One iteration of the wrap loop: `t[i]` becomes `wrapP t[i]` (two guarded in-place stores). -/
theorem evaluate_L1_body_eq (b : Basis K) (s : evaluate.St K) (iv : ℕ) (hiv : iv < s.t.size)
    (p : ℕ) (hstart : s.start = b.kn (b.order - 1)) (hend : s.«end» = b.kn b.nAll) :
    evaluate.L1_body fuel knots_in p eval_t_in periodic tol d from_right iv s =
      { s with i := iv, t := aset s.t iv (wrapP b tol from_right (aget s.t iv)) } := by
  unfold evaluate.L1_body wrapP
  simp only [hstart, hend]
  by_cases c1 : aget s.t iv < b.kn (b.order - 1) ∨ aget s.t iv > b.kn b.nAll
  · simp only [c1, if_true, aget_aset_self _ _ _ hiv]
    by_cases c2 : |pmod (aget s.t iv - b.kn (b.order - 1)) (b.kn b.nAll - b.kn (b.order - 1)) +
        b.kn (b.order - 1) - b.kn (b.order - 1)| < tol ∧ ¬ (from_right = true)
    · have c2' : |pmod (aget s.t iv - b.kn (b.order - 1)) (b.kn b.nAll - b.kn (b.order - 1)) +
          b.kn (b.order - 1) - b.kn (b.order - 1)| < tol ∧ (!from_right) = true := by
        refine ⟨c2.1, ?_⟩
        cases from_right <;> simp_all
      rw [if_pos c2, if_pos c2']
      congr 1
      apply ext_aget _ _ (by simp)
      intro i hi
      simp only [aget_aset, size_aset]
      split_ifs <;> rfl
    · have c2' : ¬ (|pmod (aget s.t iv - b.kn (b.order - 1)) (b.kn b.nAll - b.kn (b.order - 1)) +
          b.kn (b.order - 1) - b.kn (b.order - 1)| < tol ∧ (!from_right) = true) := by
        intro h
        apply c2
        refine ⟨h.1, ?_⟩
        cases from_right <;> simp_all
      rw [if_neg c2, if_neg c2']
  · simp only [c1, if_false]
    by_cases c2 : |aget s.t iv - b.kn (b.order - 1)| < tol ∧ ¬ (from_right = true)
    · have c2' : |aget s.t iv - b.kn (b.order - 1)| < tol ∧ (!from_right) = true := by
        refine ⟨c2.1, ?_⟩
        cases from_right <;> simp_all
      rw [if_pos c2, if_pos c2']
    · have c2' : ¬ (|aget s.t iv - b.kn (b.order - 1)| < tol ∧ (!from_right) = true) := by
        intro h
        apply c2
        refine ⟨h.1, ?_⟩
        cases from_right <;> simp_all
      rw [if_neg c2, if_neg c2']
      congr 1
      apply ext_aget _ _ (by simp)
      intro i hi
      rw [aget_aset]
      split_ifs with h
      · rw [h.1]
      · rfl

omit [IsStrictOrderedRing K] in
/-- The wrap loop maps `wrapP` over `t`. -/
theorem evaluate_L1_eq (b : Basis K) (s : evaluate.St K) (p : ℕ)
    (hstart : s.start = b.kn (b.order - 1)) (hend : s.«end» = b.kn b.nAll) :
    ∃ i' t', evaluate.L1 fuel knots_in p eval_t_in periodic tol d from_right s =
        { s with i := i', t := t' } ∧ t'.size = s.t.size ∧
      ∀ i, i < s.t.size → aget t' i = wrapP b tol from_right (aget s.t i) := by
  unfold evaluate.L1
  have key := forRange_inv
    (fun iv s' => ∃ i' t', s' = { s with i := i', t := t' } ∧ t'.size = s.t.size ∧
      ∀ i, i < s.t.size → aget t' i = if i < iv then wrapP b tol from_right (aget s.t i) else aget s.t i)
    0 s.t.size (evaluate.L1_body fuel knots_in p eval_t_in periodic tol d from_right) s (Nat.zero_le _)
    ⟨s.i, s.t, rfl, rfl, fun i _ => by rw [if_neg (by omega)]⟩
    (by
      rintro iv s' h1 h2 ⟨i', t', rfl, hsz, hget⟩
      rw [evaluate_L1_body_eq fuel knots_in eval_t_in periodic tol d from_right b { s with i := i', t := t' } iv
        (by simpa [hsz] using h2) p hstart hend]
      refine ⟨iv, aset t' iv (wrapP b tol from_right (aget t' iv)), rfl, by simp [hsz], ?_⟩
      intro i hi
      rw [aget_aset, hsz]
      by_cases hij : i = iv
      · subst hij
        rw [if_pos ⟨rfl, hi⟩, if_pos (by omega), hget i hi, if_neg (by omega)]
      · rw [if_neg (fun h => hij h.1), hget i hi]
        by_cases h3 : i < iv
        · rw [if_pos h3, if_pos (by omega)]
        · rw [if_neg h3, if_neg (by omega)])
  obtain ⟨i', t', h1, h2, h3⟩ := key
  exact ⟨i', t', h1, h2, fun i hi => by rw [h3 i hi, if_pos hi]⟩

/-! ## The main loop over the evaluation points, and the whole function -/

theorem row_idx_lt {i iv p j : ℕ} (hi : i < iv) (hj : j < p) : i * p + j < iv * p := by
  have := Nat.mul_le_mul_right p (Nat.succ_le_of_lt hi)
  rw [Nat.succ_mul] at this
  omega

/-- **Main loop** `for i in range(len(t))`: row `i` of `data`/`indices` is the model's `evalAt` row
at `t[i]`. -/
theorem evaluate_L2_eq (b : Basis K) (s : evaluate.St K)
    (hp : 1 ≤ b.order) (hd : d < b.order) (hsz : b.order ≤ b.knots.size) (hfuel : b.knots.size ≤ fuel)
    (hk : s.knots = b.knots) (hnall : s.n_all = b.nAll) (hn : s.n = b.numFunctions)
    (hstart : s.start = b.kn (b.order - 1)) (hend : s.«end» = b.kn b.nAll) (hM : s.M.size = b.order)
    (hDs : s.data.size = s.t.size * b.order) (hIs : s.indices.size = s.t.size * b.order)
    (hzd : ∀ idx, aget s.data idx = 0) (hzi : ∀ idx, aget s.indices idx = 0)
    (hnw : ∀ i, i < s.t.size → NoWrapAt b tol from_right (aget s.t i)) :
    ∃ i' r eT mu M q j k D I,
      evaluate.L2 fuel knots_in b.order eval_t_in periodic tol d from_right s =
        { s with i := i', right := r, evalT := eT, mu := mu, M := M, q := q, j := j, k := k,
                 data := D, indices := I } ∧
      D.size = s.t.size * b.order ∧ I.size = s.t.size * b.order ∧
      ∀ i, i < s.t.size → ∀ jj, jj < b.order →
        aget D (i * b.order + jj) = aget (evalAt b tol d from_right (aget s.t i)).data jj ∧
        aget I (i * b.order + jj) = aget (evalAt b tol d from_right (aget s.t i)).idx jj := by
  unfold evaluate.L2
  have key := forRange_inv
    (fun iv s' => ∃ i' r eT mu M q j k D I, M.size = b.order ∧
      s' = { s with i := i', right := r, evalT := eT, mu := mu, M := M, q := q, j := j, k := k,
                    data := D, indices := I } ∧
      D.size = s.t.size * b.order ∧ I.size = s.t.size * b.order ∧
      (∀ idx, iv * b.order ≤ idx → aget D idx = 0) ∧ (∀ idx, iv * b.order ≤ idx → aget I idx = 0) ∧
      ∀ i, i < iv → ∀ jj, jj < b.order →
        aget D (i * b.order + jj) = aget (evalAt b tol d from_right (aget s.t i)).data jj ∧
        aget I (i * b.order + jj) = aget (evalAt b tol d from_right (aget s.t i)).idx jj)
    0 s.t.size (evaluate.L2_body fuel knots_in b.order eval_t_in periodic tol d from_right) s (Nat.zero_le _)
    ⟨s.i, s.right, s.evalT, s.mu, s.M, s.q, s.j, s.k, s.data, s.indices, hM, rfl, hDs, hIs,
      fun idx _ => hzd idx, fun idx _ => hzi idx, fun i hi => absurd hi (Nat.not_lt_zero _)⟩
    (by
      rintro iv s' h1 h2 ⟨i', r, eT, mu, M, q, j, k, D, I, hMs, rfl, hD, hI, hzD, hzI, hrows⟩
      obtain ⟨r2, eT2, mu2, M2, q2, j2, k2, hM2, hpt⟩ :=
        evaluate_point fuel knots_in eval_t_in periodic tol d from_right b
          { s with i := i', right := r, evalT := eT, mu := mu, M := M, q := q, j := j, k := k,
                   data := D, indices := I } iv hp hd hsz hfuel hk hnall hn hstart hend hMs
          (fun idx h _ => hzD idx h) (fun idx h _ => hzI idx h) (hnw iv h2)
      simp only [] at hpt
      rw [hpt]
      have hle : (iv + 1) * b.order ≤ s.t.size * b.order := Nat.mul_le_mul_right _ h2
      have hsucc : (iv + 1) * b.order = iv * b.order + b.order := Nat.succ_mul _ _
      refine ⟨iv, r2, eT2, mu2, M2, q2, j2, k2, _, _, hM2, rfl, by rw [size_writeRow, hD],
        by rw [size_writeRow, hI], ?_, ?_, ?_⟩
      · intro idx hidx
        by_cases hlt : idx < D.size
        · rw [aget_writeRow _ _ _ _ _ hlt, if_neg (by omega)]
          exact hzD idx (by omega)
        · exact aget_of_ge _ _ (by rw [size_writeRow]; omega)
      · intro idx hidx
        by_cases hlt : idx < I.size
        · rw [aget_writeRow _ _ _ _ _ hlt, if_neg (by omega)]
          exact hzI idx (by omega)
        · exact aget_of_ge _ _ (by rw [size_writeRow]; omega)
      · intro i hi jj hjj
        by_cases hlast : i = iv
        · subst hlast
          rw [aget_writeRow _ _ _ _ _ (by omega), aget_writeRow _ _ _ _ _ (by omega),
            if_pos (by omega), if_pos (by omega), Nat.add_sub_cancel_left]
          exact ⟨rfl, rfl⟩
        · have hlt := row_idx_lt (p := b.order) (j := jj) (show i < iv by omega) hjj
          rw [aget_writeRow _ _ _ _ _ (by omega), aget_writeRow _ _ _ _ _ (by omega),
            if_neg (by omega), if_neg (by omega)]
          exact hrows i (by omega) jj hjj)
  obtain ⟨i', r, eT, mu, M, q, j, k, D, I, -, h1, hD, hI, -, -, hrows⟩ := key
  exact ⟨i', r, eT, mu, M, q, j, k, D, I, h1, hD, hI, hrows⟩

/-- **`basis_eval.evaluate`, the whole function** (generated from the `.pyx`: prologue, periodic wrap
loop, main loop, return value) returns the CSR triple whose row `i` is the model's
`evalRow b tol d fromRight t[i]` (data and column indices), `indptr = arange(0, m·p+1, p)` and shape
`(m, num_functions)`.

Side conditions, all explicit: `1 ≤ p`, `d < p` (the caller `BSplineBasis.evaluate` guarantees it),
`p ≤ len(knots)`, `periodic ≥ -1` (otherwise `len(knots) - p - (periodic+1)` is not the truncated
difference), enough fuel for the `while` loops of the bisections, and `NoWrapAt` at every wrapped
point: `p ≤ mu` whenever the point is not skipped, i.e. the `unsigned int` expressions
`mu - q - 1`, `mu - p + j` do not wrap.  `evaluate_eq_of_valid` discharges the last one for valid
bases. -/
theorem evaluate_eq (b : Basis K) (ts : Array K)
    (hp : 1 ≤ b.order) (hd : d < b.order) (hsz : b.order ≤ b.knots.size) (hper : -1 ≤ b.periodic)
    (hfuel : b.knots.size ≤ fuel)
    (hnw : ∀ i, i < ts.size → NoWrapAt b tol from_right (wrapT b tol from_right (aget ts i))) :
    ∃ data indices,
      evaluate fuel b.knots b.order ts b.periodic tol d from_right =
        ((data, indices, npArange 0 (ts.size * b.order + 1) b.order), (ts.size, b.numFunctions)) ∧
      data.size = ts.size * b.order ∧ indices.size = ts.size * b.order ∧
      ∀ i, i < ts.size → ∀ j, j < b.order →
        aget data (i * b.order + j) = aget (evalRow b tol d from_right (aget ts i)).data j ∧
        aget indices (i * b.order + j) = aget (evalRow b tol d from_right (aget ts i)).idx j := by
  have hn : Int.toNat (((b.knots.size - b.order : ℕ) : ℤ) - (b.periodic + 1)) = b.numFunctions := by
    unfold Basis.numFunctions
    omega
  have hst : aget b.knots (b.order - 1) = b.kn (b.order - 1) := aget_knots_eq_kn b _ (by omega)
  have hen : aget b.knots (b.knots.size - b.order) = b.kn b.nAll := aget_knots_eq_kn b _ (by omega)
  unfold evaluate
  simp only []
  by_cases hper0 : b.periodic ≥ 0
  · rw [if_pos hper0]
    obtain ⟨i1, t1, h1, ht1s, ht1⟩ := evaluate_L1_eq fuel b.knots ts b.periodic tol d from_right b
      { knots := b.knots, n_all := b.knots.size - b.order,
        n := Int.toNat (((b.knots.size - b.order : ℕ) : ℤ) - (b.periodic + 1)), m := ts.size,
        start := aget b.knots (b.order - 1), «end» := aget b.knots (b.knots.size - b.order),
        evalT := 0, mu := 0, t := ts, data := Array.replicate (ts.size * b.order) 0,
        indices := Array.replicate (ts.size * b.order) 0,
        indptr := npArange 0 (ts.size * b.order + 1) b.order, M := Array.replicate b.order 0,
        k := 0, q := 0, j := 0, i := 0, right := false } b.order hst hen
    rw [h1]
    obtain ⟨i', r, eT, mu, M, q, j, k, D, I, h2, hD, hI, hrows⟩ :=
      evaluate_L2_eq fuel b.knots ts b.periodic tol d from_right b
        { knots := b.knots, n_all := b.knots.size - b.order,
          n := Int.toNat (((b.knots.size - b.order : ℕ) : ℤ) - (b.periodic + 1)), m := ts.size,
          start := aget b.knots (b.order - 1), «end» := aget b.knots (b.knots.size - b.order),
          evalT := 0, mu := 0, t := t1, data := Array.replicate (ts.size * b.order) 0,
          indices := Array.replicate (ts.size * b.order) 0,
          indptr := npArange 0 (ts.size * b.order + 1) b.order, M := Array.replicate b.order 0,
          k := 0, q := 0, j := 0, i := i1, right := false }
        hp hd hsz hfuel rfl rfl hn hst hen (by simp) (by simp [ht1s]) (by simp [ht1s])
        (fun idx => aget_replicate _ _) (fun idx => aget_replicate _ _)
        (by
          intro i hi
          have hi' : i < ts.size := by simpa [ht1s] using hi
          have := hnw i hi'
          rw [wrapT_eq_wrapP, if_pos hper0] at this
          simp only []
          rw [ht1 i hi']
          exact this)
    rw [h2]
    simp only [] at hD hI hrows ⊢
    rw [ht1s] at hD hI hrows
    refine ⟨D, I, by rw [hn], hD, hI, ?_⟩
    intro i hi jj hjj
    have := hrows i hi jj hjj
    rw [ht1 i hi] at this
    rw [evalRow_eq, wrapT_eq_wrapP, if_pos hper0]
    exact this
  · rw [if_neg hper0]
    obtain ⟨i', r, eT, mu, M, q, j, k, D, I, h2, hD, hI, hrows⟩ :=
      evaluate_L2_eq fuel b.knots ts b.periodic tol d from_right b
        { knots := b.knots, n_all := b.knots.size - b.order,
          n := Int.toNat (((b.knots.size - b.order : ℕ) : ℤ) - (b.periodic + 1)), m := ts.size,
          start := aget b.knots (b.order - 1), «end» := aget b.knots (b.knots.size - b.order),
          evalT := 0, mu := 0, t := ts, data := Array.replicate (ts.size * b.order) 0,
          indices := Array.replicate (ts.size * b.order) 0,
          indptr := npArange 0 (ts.size * b.order + 1) b.order, M := Array.replicate b.order 0,
          k := 0, q := 0, j := 0, i := 0, right := false }
        hp hd hsz hfuel rfl rfl hn hst hen (by simp) (by simp) (by simp)
        (fun idx => aget_replicate _ _) (fun idx => aget_replicate _ _)
        (by
          intro i hi
          have := hnw i hi
          rw [wrapT_eq_wrapP, if_neg hper0] at this
          exact this)
    rw [h2]
    simp only [] at hD hI hrows ⊢
    refine ⟨D, I, by rw [hn], hD, hI, ?_⟩
    intro i hi jj hjj
    rw [evalRow_eq, wrapT_eq_wrapP, if_neg hper0]
    exact hrows i hi jj hjj

/-- `evaluate_eq` for a valid basis and a positive tolerance: the no-wrap-around hypothesis is
proved (from `muOf_spec`), so only `d < p` and the fuel bound remain. -/
theorem evaluate_eq_of_valid (b : Basis K) (ts : Array K) (hv : b.Valid) (htol : 0 < tol)
    (hd : d < b.order) (hfuel : b.knots.size ≤ fuel) :
    ∃ data indices,
      evaluate fuel b.knots b.order ts b.periodic tol d from_right =
        ((data, indices, npArange 0 (ts.size * b.order + 1) b.order), (ts.size, b.numFunctions)) ∧
      data.size = ts.size * b.order ∧ indices.size = ts.size * b.order ∧
      ∀ i, i < ts.size → ∀ j, j < b.order →
        aget data (i * b.order + j) = aget (evalRow b tol d from_right (aget ts i)).data j ∧
        aget indices (i * b.order + j) = aget (evalRow b tol d from_right (aget ts i)).idx j :=
  evaluate_eq fuel tol d from_right b ts hv.order_pos hd (by have := hv.size_ge; omega) hv.periodic_ge hfuel
    (fun i _ => noWrapAt_of_valid hv htol from_right _)

/-! ## `snap` -/

section snapsec

variable (tolerance : K)

omit [FloorRing K] in
/-- One iteration of the loop of `basis_eval.snap`: `t[j]` becomes the model's `snap b tol t[j]`. -/
theorem snap_L1_body_eq (b : Basis K) (s : snap.St K) (jv : ℕ) (hjv : jv < s.t.size)
    (hk : s.knots = b.knots) (hn : s.n = b.knots.size) (hfuel : b.knots.size ≤ fuel) :
    snap.L1_body fuel knots_in eval_t_in tolerance jv s =
      { s with j := jv, i := bisectLeft b.kn (aget s.t jv) b.knots.size,
               t := aset s.t jv (Splipy.snap b tolerance (aget s.t jv)) } := by
  have hbis : my_bisect_left fuel b.knots (aget s.t jv) b.knots.size
      = bisectLeft b.kn (aget s.t jv) b.knots.size := by
    rw [my_bisect_left_eq _ _ _ _ hfuel]
    unfold bisectLeft
    exact bisectLeftAux_congr _ _ _ _ _ (fun i _ h => aget_knots_eq_kn b i h)
  have hle : bisectLeft b.kn (aget s.t jv) b.knots.size ≤ b.knots.size := bisectLeft_le _ _ _
  unfold snap.L1_body Splipy.snap
  simp only [hk, hn, hbis]
  set I := bisectLeft b.kn (aget s.t jv) b.knots.size with hIdef
  have hnop : s.t = aset s.t jv (aget s.t jv) := by
    apply ext_aget _ _ (by simp)
    intro i hi
    rw [aget_aset]
    split_ifs with h
    · rw [h.1]
    · rfl
  by_cases hI : I < b.knots.size
  · rw [aget_knots_eq_kn b _ hI]
    by_cases c1 : I < b.knots.size ∧ |b.kn I - aget s.t jv| < tolerance
    · rw [if_pos c1, if_pos c1]
    · rw [if_neg c1, if_neg c1]
      by_cases hpos : I > 0
      · rw [aget_knots_eq_kn b _ (show I - 1 < b.knots.size by omega)]
        by_cases c2 : I > 0 ∧ |b.kn (I - 1) - aget s.t jv| < tolerance
        · rw [if_pos c2, if_pos c2]
        · rw [if_neg c2, if_neg c2]
          congr 1
      · have c2 : ¬ (I > 0 ∧ |aget b.knots (I - 1) - aget s.t jv| < tolerance) := fun h => hpos h.1
        have c2' : ¬ (0 < I ∧ |b.kn (I - 1) - aget s.t jv| < tolerance) := fun h => hpos h.1
        rw [if_neg c2, if_neg c2']
        congr 1
  · have c1 : ¬ (I < b.knots.size ∧ |aget b.knots I - aget s.t jv| < tolerance) := fun h => hI h.1
    have c1' : ¬ (I < b.knots.size ∧ |b.kn I - aget s.t jv| < tolerance) := fun h => hI h.1
    rw [if_neg c1, if_neg c1']
    by_cases hpos : I > 0
    · rw [aget_knots_eq_kn b _ (show I - 1 < b.knots.size by omega)]
      by_cases c2 : I > 0 ∧ |b.kn (I - 1) - aget s.t jv| < tolerance
      · rw [if_pos c2, if_pos c2]
      · rw [if_neg c2, if_neg c2]
        congr 1
    · have c2 : ¬ (I > 0 ∧ |aget b.knots (I - 1) - aget s.t jv| < tolerance) := fun h => hpos h.1
      have c2' : ¬ (0 < I ∧ |b.kn (I - 1) - aget s.t jv| < tolerance) := fun h => hpos h.1
      rw [if_neg c2, if_neg c2']
      congr 1

omit [FloorRing K] in
/-- **`basis_eval.snap`** (generated from the `.pyx`): every entry of the (in-place modified)
vector `t` is the model's `snap` of the old entry.  Side condition: fuel for the bisection. -/
theorem snap_eq (b : Basis K) (ts : Array K) (hfuel : b.knots.size ≤ fuel) :
    (Splipy.Generated.Pyx.snap fuel b.knots ts tolerance).t.size = ts.size ∧
    ∀ j, j < ts.size →
      aget (Splipy.Generated.Pyx.snap fuel b.knots ts tolerance).t j = Splipy.snap b tolerance (aget ts j) := by
  unfold Splipy.Generated.Pyx.snap snap.L1
  simp only []
  have key := forRange_inv
    (fun jv (s' : snap.St K) => ∃ i' j' t', s' = { i := i', j := j', n := b.knots.size, t := t', knots := b.knots } ∧
      t'.size = ts.size ∧
      ∀ j, j < ts.size → aget t' j = if j < jv then Splipy.snap b tolerance (aget ts j) else aget ts j)
    0 ts.size (snap.L1_body fuel b.knots ts tolerance)
    { i := 0, j := 0, n := b.knots.size, t := ts, knots := b.knots } (Nat.zero_le _)
    ⟨0, 0, ts, rfl, rfl, fun j _ => by rw [if_neg (by omega)]⟩
    (by
      rintro jv s' h1 h2 ⟨i', j', t', rfl, hsz, hget⟩
      rw [snap_L1_body_eq fuel b.knots ts tolerance b
        { i := i', j := j', n := b.knots.size, t := t', knots := b.knots } jv (by simpa [hsz] using h2)
        rfl rfl hfuel]
      refine ⟨_, jv, _, rfl, by simp [hsz], ?_⟩
      intro j hj
      rw [aget_aset, hsz]
      by_cases hij : j = jv
      · subst hij
        rw [if_pos ⟨rfl, hj⟩, if_pos (by omega), hget j hj, if_neg (by omega)]
      · rw [if_neg (fun h => hij h.1), hget j hj]
        by_cases h3 : j < jv
        · rw [if_pos h3, if_pos (by omega)]
        · rw [if_neg h3, if_neg (by omega)])
  obtain ⟨i', j', t', h1, h2, h3⟩ := key
  rw [h1]
  exact ⟨h2, fun j hj => by rw [h3 j hj, if_pos hj]⟩

end snapsec

/-- The default arguments of `evaluate` in the source are `d=0`, `from_right=True`; the other three
functions have none. -/
theorem evaluate_defaults :
    evaluate.defaults = [("d", "0"), ("from_right", "True")] ∧ my_bisect_left.defaults = [] ∧
      my_bisect_right.defaults = [] ∧ Splipy.Generated.Pyx.snap.defaults = [] :=
  ⟨rfl, rfl, rfl, rfl⟩

end point

end Splipy.PyxEq
