import Splipy.Lemmas.SchoenbergWhitney
import Splipy.Lemmas.TensorEvalObj1
import Splipy.Lemmas.TensorEvalObj3
import Splipy.Lemmas.C14SolveEq
import Splipy.Lemmas.C14Through
import Splipy.Lemmas.C14SW
import Splipy.Lemmas.C14Lsq0
set_option linter.unusedSectionVars false

/-!
# C14: collocation rows in specification terms; solvability from Schoenberg–Whitney
-/

namespace Splipy
open Finset

variable {K : Type} [Field K] [LinearOrder K] [IsStrictOrderedRing K] [FloorRing K]

/-- The model's row at an admissible parameter is the specification row (C01/C02). -/
theorem evaluate_getD_eq_specRow_c14 {b : Basis K} (hv : b.Valid) {tol u : K} (htol : 0 < tol)
    (h : b.Admissible tol u) {j : ℕ} (hj : j < b.numFunctions) :
    (b.evaluate tol u 0 true).getD j 0 = b.specRow u j := by
  have := Basis.rowVal_eq_specRow hv htol h hj
  unfold Basis.rowVal at this
  rw [h.snap_eq htol] at this
  exact this

namespace Interp

/-- The model's collocation matrix is the matrix the Schoenberg–Whitney lemmas speak about. -/
theorem colloc_eq_basisMat (b : Basis K) (tol : K) (ts : List K) :
    colloc b tol ts 0 = Obj.basisMat b tol ts 0 true := rfl

/-- **Solvability from Schoenberg–Whitney** (user parameters): a valid clamped non-periodic basis of
order ≥ 2 with interior multiplicities ≤ p−1, `n` exact parameters that are nested collocation
points (`t₀ = start`, `t_{n−1} = end`, strictly increasing, `τ_l < t_l < τ_{l+p}`) and a
well-shaped right-hand side: `curve_factory.interpolate` does not fail. -/
theorem interpolateCurve_ok_of_nested {b : Basis K} (hv : b.Valid) (hper : b.periodic = -1)
    (hp : 2 ≤ b.order) (hc0 : b.kn 0 = b.kn (b.order - 1))
    (hc1 : b.kn b.numFunctions = b.kn (b.numFunctions + (b.order - 1)))
    (hmult : ∀ i, 1 ≤ i → i < b.numFunctions → b.kn i < b.kn (i + (b.order - 1)))
    {tol : K} (htol : 0 < tol) (ts : List K) (hlen : ts.length = b.numFunctions)
    (hx : NestedPts b.kn (b.order - 1) b.numFunctions (fun l => ts.getD l 0))
    (hex : ∀ l, l < b.numFunctions → b.ExactAt tol (ts.getD l 0))
    (x : Mat K) (m : ℕ) (hxs : x.size = b.numFunctions ∧ ∀ i, i < b.numFunctions → (x.getD i #[]).size = m) :
    ∃ c, interpolateCurve b tol (some ts) x = .ok c := by
  obtain ⟨Ni, hNi⟩ := colloc_invChecked_ok hv hper hp hc0 hc1 hmult htol ts hlen (fun l => ts.getD l 0) hx
    (fun l hl => by simp [List.getD_eq_getElem?_getD, hl]) hex
  obtain ⟨_, hL⟩ := Mat.invChecked_spec _ _ hNi
  have hshape := basisMat_shape b tol ts hlen
  rw [hlen] at hshape
  have hnr : (Obj.basisMat b tol ts 0 true).nrows = b.numFunctions := hshape.1
  rw [hnr] at hL
  obtain ⟨c, hc⟩ := solveC_complete (colloc b tol ts 0) x b.numFunctions m hshape hxs (fun i l => Ni.get i l)
    (fun i j hi hj => hL i hi j hj)
  refine ⟨c, ?_⟩
  unfold interpolateCurve
  simp only [paramsOrGreville, bind, Except.bind]
  rw [if_neg (by rw [size_colloc]; omega)]
  exact hc

/-- **Solvability from Schoenberg–Whitney** (default Greville parameters): as above with `t = None`;
the knot-gap hypothesis makes `snap` harmless (distinct knots at least `2(p−1)·tol` apart). -/
theorem interpolateCurve_ok_greville {b : Basis K} (hv : b.Valid) (hper : b.periodic = -1)
    (hp : 2 ≤ b.order) (hc0 : b.kn 0 = b.kn (b.order - 1))
    (hc1 : b.kn b.numFunctions = b.kn (b.numFunctions + (b.order - 1)))
    (hmult : ∀ i, 1 ≤ i → i < b.numFunctions → b.kn i < b.kn (i + (b.order - 1)))
    {tol : K} (htol : 0 < tol)
    (hgap : ∀ i j, b.kn i < b.kn j → b.kn i + 2 * ((b.order - 1 : ℕ) : K) * tol ≤ b.kn j)
    (x : Mat K) (m : ℕ) (hxs : x.size = b.numFunctions ∧ ∀ i, i < b.numFunctions → (x.getD i #[]).size = m) :
    ∃ c, interpolateCurve b tol none x = .ok c := by
  have hg := sw_greville_eq b hp
  set pts := Array.ofFn (n := b.numFunctions) (fun i => grevilleAbscissa b.kn (b.order - 1) i.val) with hpts
  obtain ⟨Ni, hNi⟩ := greville_invChecked_ok_gap hv hper hp hc0 hc1 hmult htol pts hg hgap
  have hlen : pts.toList.length = b.numFunctions := by rw [hpts]; simp
  obtain ⟨_, hL⟩ := Mat.invChecked_spec _ _ hNi
  have hshape := basisMat_shape b tol pts.toList hlen
  rw [hlen] at hshape
  have hnr : (Obj.basisMat b tol pts.toList 0 true).nrows = b.numFunctions := hshape.1
  rw [hnr] at hL
  obtain ⟨c, hc⟩ := solveC_complete (colloc b tol pts.toList 0) x b.numFunctions m hshape hxs
    (fun i l => Ni.get i l) (fun i j hi hj => hL i hi j hj)
  refine ⟨c, ?_⟩
  unfold interpolateCurve
  simp only [paramsOrGreville, hg, Except.map, bind, Except.bind]
  rw [if_neg (by rw [size_colloc]; omega)]
  exact hc

end Interp
end Splipy

namespace Splipy
open Finset
variable {K : Type} [Field K] [LinearOrder K] [IsStrictOrderedRing K] [FloorRing K]

namespace Interp

theorem get_matTensor (c : Mat K) (n m l j : ℕ) (hl : l < n) (hj : j < m) :
    (matTensor c n m).get (l * m + j) = c.get l j := by
  unfold matTensor Tensor.get
  simp only
  have hlt : l * m + j < n * m := by
    have := Tensor.flat_lt_c14 (o := 1) (a := 0) Nat.zero_lt_one hl hj
    simpa using this
  rw [getD_ofFn_c14 _ _ _ _ hlt]
  simp only [Tensor.decode_div_c14 hj, Tensor.decode_inner_c14 hj]

/-- `interpolate(x, basis)` with `t = None` is `interpolate(x, basis, basis.greville())`. -/
theorem interpolateCurve_none (b : Basis K) (tol : K) (x : Mat K) (pts : Array K)
    (hg : b.greville = .ok pts) :
    interpolateCurve b tol none x = interpolateCurve b tol (some pts.toList) x := by
  unfold interpolateCurve
  simp only [paramsOrGreville, hg, Except.map, bind, Except.bind]

/-- Nested points lie in the domain of a clamped non-periodic basis. -/
theorem nested_in_domain {b : Basis K} (hper : b.periodic = -1) (xf : ℕ → K)
    (hx : NestedPts b.kn (b.order - 1) b.numFunctions xf) (l : ℕ) (hl : l < b.numFunctions) :
    b.start ≤ xf l ∧ xf l ≤ b.stop := by
  have hnf : b.numFunctions = b.nAll := Basis.numFunctions_of_nonperiodic hper
  have hstart : b.start = b.kn (b.order - 1) := rfl
  have hstop : b.stop = b.kn b.numFunctions := by rw [hnf]; rfl
  constructor
  · rw [hstart, ← hx.first]
    rcases Nat.eq_zero_or_pos l with h0 | h0
    · rw [h0]
    · have := hx.strict 0 (l-1) (by omega)
      rw [show 0 + (l - 1) + 1 = l by omega] at this
      exact this.le
  · rcases Nat.lt_or_ge (l+1) b.numFunctions with h | h
    · obtain ⟨d, hd⟩ : ∃ d, b.numFunctions - 1 = l + d + 1 := ⟨b.numFunctions - 1 - l - 1, by omega⟩
      have h3 := hx.strict l d (by omega)
      rw [← hd, hx.last, ← hstop] at h3
      exact h3.le
    · rw [hstop, ← hx.last, show b.numFunctions - 1 = l by omega]

theorem NestedPts.congr_c14 {τ : ℕ → K} {q n : ℕ} {x y : ℕ → K} (hn : 1 ≤ n)
    (hx : NestedPts τ q n x) (h : ∀ l, l < n → y l = x l) : NestedPts τ q n y where
  first := by rw [h 0 (by omega)]; exact hx.first
  last := by rw [h (n-1) (by omega)]; exact hx.last
  lt_succ := fun l hl => by rw [h l (by omega), h (l+1) hl]; exact hx.lt_succ l hl
  nest := fun l h1 h2 => by rw [h l (by omega)]; exact hx.nest l h1 h2

end Interp
end Splipy

namespace Splipy
open Finset
variable {K : Type} [Field K] [LinearOrder K] [IsStrictOrderedRing K] [FloorRing K]

namespace Interp

omit [LinearOrder K] [IsStrictOrderedRing K] [FloorRing K] in
/-- `tensordot` succeeds when the contracted lengths agree. -/
theorem tensordot_ok (M : Mat K) (t : Tensor K) (ax n : ℕ) (hax : ax < t.shape.length)
    (hn : t.shape.getD ax 0 = n) (hM : ∀ r < M.size, (M.getD r #[]).size = n) :
    tensordot M t ax = .ok (moveFront (Tensor.applyAxis M t ax) ax) := by
  unfold tensordot
  rw [if_neg]
  rintro (h | h)
  · rw [Array.any_eq_true] at h
    obtain ⟨r, hr, hne⟩ := h
    have := hM r hr
    have e : M[r] = M.getD r #[] := by simp [Array.getD, hr]
    rw [e, hn, this] at hne
    simp at hne
  · omega

/-- The Greville collocation matrix of a clamped continuous basis is inverted by the model
(Schoenberg–Whitney + completeness of Gauss–Jordan); the inverse is well shaped. -/
theorem invC_greville_ok {b : Basis K} (hv : b.Valid) (hper : b.periodic = -1)
    (hp : 2 ≤ b.order) (hc0 : b.kn 0 = b.kn (b.order - 1))
    (hc1 : b.kn b.numFunctions = b.kn (b.numFunctions + (b.order - 1)))
    (hmult : ∀ i, 1 ≤ i → i < b.numFunctions → b.kn i < b.kn (i + (b.order - 1)))
    {tol : K} (htol : 0 < tol)
    (hgap : ∀ i j, b.kn i < b.kn j → b.kn i + 2 * ((b.order - 1 : ℕ) : K) * tol ≤ b.kn j) :
    ∃ (g : Array K) (Ni : Mat K), b.greville = .ok g ∧ g.size = b.numFunctions ∧
      invC (colloc b tol g.toList 0) = .ok Ni ∧ Ni.size = b.numFunctions ∧
      ∀ r < b.numFunctions, (Ni.getD r #[]).size = b.numFunctions := by
  have hg := sw_greville_eq b hp
  set pts := Array.ofFn (n := b.numFunctions) (fun i => grevilleAbscissa b.kn (b.order - 1) i.val) with hpts
  obtain ⟨Nc, hNc⟩ := greville_invChecked_ok_gap hv hper hp hc0 hc1 hmult htol pts hg hgap
  have hlen : pts.toList.length = b.numFunctions := by rw [hpts]; simp
  obtain ⟨_, hL⟩ := Mat.invChecked_spec _ _ hNc
  have hshape := basisMat_shape b tol pts.toList hlen
  rw [hlen] at hshape
  have hnr : (Obj.basisMat b tol pts.toList 0 true).nrows = b.numFunctions := hshape.1
  rw [hnr] at hL
  obtain ⟨Ni, hNi⟩ := invC_complete (colloc b tol pts.toList 0) b.numFunctions hshape (fun i l => Nc.get i l)
    (fun i j hi hj => hL i hi j hj)
  have hinv := hNi
  rw [invC_eq_inv (colloc b tol pts.toList 0) b.numFunctions hshape] at hinv
  obtain ⟨s1, s2, _⟩ := Mat.inv_sound _ Ni b.numFunctions hshape hinv
  exact ⟨pts, Ni, hg, by rw [hpts]; simp, hNi, s1, s2⟩

/-- **`surface_factory.interpolate` at the default Greville parameters SUCCEEDS** for two clamped
continuous non-periodic bases (Schoenberg–Whitney in each direction), for both input layouts. -/
theorem interpolateGrid_ok_greville_surface {bu bv : Basis K}
    (hvu : bu.Valid) (hperu : bu.periodic = -1) (hpu : 2 ≤ bu.order)
    (hc0u : bu.kn 0 = bu.kn (bu.order - 1))
    (hc1u : bu.kn bu.numFunctions = bu.kn (bu.numFunctions + (bu.order - 1)))
    (hmultu : ∀ i, 1 ≤ i → i < bu.numFunctions → bu.kn i < bu.kn (i + (bu.order - 1)))
    (hvv : bv.Valid) (hperv : bv.periodic = -1) (hpv : 2 ≤ bv.order)
    (hc0v : bv.kn 0 = bv.kn (bv.order - 1))
    (hc1v : bv.kn bv.numFunctions = bv.kn (bv.numFunctions + (bv.order - 1)))
    (hmultv : ∀ i, 1 ≤ i → i < bv.numFunctions → bv.kn i < bv.kn (i + (bv.order - 1)))
    {tol : K} (htol : 0 < tol)
    (hgapu : ∀ i j, bu.kn i < bu.kn j → bu.kn i + 2 * ((bu.order - 1 : ℕ) : K) * tol ≤ bu.kn j)
    (hgapv : ∀ i j, bv.kn i < bv.kn j → bv.kn i + 2 * ((bv.order - 1 : ℕ) : K) * tol ≤ bv.kn j)
    (x : Tensor K) (d : ℕ)
    (hx : x.shape = [bu.numFunctions * bv.numFunctions, d] ∨ x.shape = [bu.numFunctions, bv.numFunctions, d]) :
    ∃ cp, interpolateGrid [bu, bv] tol none x = .ok cp ∧ interpolateGridCore [bu, bv] tol none x = .ok cp := by
  obtain ⟨gu, iu, hgu, hgus, hiu, hiuS, hiuR⟩ := invC_greville_ok hvu hperu hpu hc0u hc1u hmultu htol hgapu
  obtain ⟨gv, iv, hgv, hgvs, hiv, hivS, hivR⟩ := invC_greville_ok hvv hperv hpv hc0v hc1v hmultv htol hgapv
  -- the prologue
  have hx' : ∃ x', gridInput [bu, bv] x = .ok x' ∧ x'.shape = [bu.numFunctions, bv.numFunctions, d] := by
    unfold gridInput
    rcases hx with h | h
    · refine ⟨{ x with shape := [bu.numFunctions, bv.numFunctions, d] }, ?_, rfl⟩
      have hl : x.shape.length = 2 := by rw [h]; rfl
      have hd : x.shape.getLastD 1 = d := by rw [h]; rfl
      simp only [hl, if_true, List.map_cons, List.map_nil, hd, List.cons_append, List.nil_append]
      unfold Interp.reshape
      have : Tensor.prod [bu.numFunctions, bv.numFunctions, d] = Tensor.prod x.shape := by
        rw [h]; simp only [Tensor.prod, List.foldl]; ring
      rw [if_neg (by rw [this]; simp)]
    · refine ⟨x, ?_, h⟩
      have hl : x.shape.length ≠ 2 := by rw [h]; simp
      simp only [hl, if_false]
  obtain ⟨x', hx1, hx2⟩ := hx'
  -- the two contractions
  have t1 := tensordot_ok iv x' 1 bv.numFunctions (by rw [hx2]; simp) (by rw [hx2]; rfl)
    (fun r hr => hivR r (by rw [← hivS]; exact hr))
  obtain ⟨r1sh, _, _⟩ := tensordot3 iv x' _ hx2 t1
  have t2 := tensordot_ok iu (moveFront (Tensor.applyAxis iv x' 1) 1) 1 bu.numFunctions (by rw [r1sh]; simp)
    (by rw [r1sh]; rfl) (fun r hr => hiuR r (by rw [← hiuS]; exact hr))
  obtain ⟨r2sh, _, _⟩ := tensordot3 iu _ _ r1sh t2
  have hcore : interpolateGridCore [bu, bv] tol none x
      = .ok (moveFront (Tensor.applyAxis iu (moveFront (Tensor.applyAxis iv x' 1) 1) 1) 1) := by
    unfold interpolateGridCore gridParams chain
    simp only [bind, Except.bind, pure, Except.pure, hx1, List.mapM_cons, List.mapM_nil, hgu, hgv, Except.map,
      List.zip_cons_cons, List.zip_nil_right, List.map_cons, List.map_nil, List.reverse_cons, List.reverse_nil,
      List.nil_append, List.cons_append, hiu, hiv, List.foldlM, List.length_cons, List.length_nil,
      Nat.add_one_sub_one, t1, t2]
  obtain ⟨r, hr, rsh, rsz, rent⟩ := throughConstructor3 _ r2sh
  have hsz := tensordot3_size iu _ _ r1sh t2
  have : r = _ := tensor_ext3 _ r r2sh rsh hsz rsz rent
  refine ⟨_, ?_, hcore⟩
  unfold interpolateGrid
  simp only [bind, Except.bind, hcore, List.length_cons, List.length_nil]
  rw [hr, this]

/-- **`volume_factory.interpolate` at the default Greville parameters SUCCEEDS** for three clamped
continuous non-periodic bases, for both input layouts. -/
theorem interpolateGrid_ok_greville_volume {bu bv bw : Basis K}
    (hvu : bu.Valid) (hperu : bu.periodic = -1) (hpu : 2 ≤ bu.order)
    (hc0u : bu.kn 0 = bu.kn (bu.order - 1))
    (hc1u : bu.kn bu.numFunctions = bu.kn (bu.numFunctions + (bu.order - 1)))
    (hmultu : ∀ i, 1 ≤ i → i < bu.numFunctions → bu.kn i < bu.kn (i + (bu.order - 1)))
    (hvv : bv.Valid) (hperv : bv.periodic = -1) (hpv : 2 ≤ bv.order)
    (hc0v : bv.kn 0 = bv.kn (bv.order - 1))
    (hc1v : bv.kn bv.numFunctions = bv.kn (bv.numFunctions + (bv.order - 1)))
    (hmultv : ∀ i, 1 ≤ i → i < bv.numFunctions → bv.kn i < bv.kn (i + (bv.order - 1)))
    (hvw : bw.Valid) (hperw : bw.periodic = -1) (hpw : 2 ≤ bw.order)
    (hc0w : bw.kn 0 = bw.kn (bw.order - 1))
    (hc1w : bw.kn bw.numFunctions = bw.kn (bw.numFunctions + (bw.order - 1)))
    (hmultw : ∀ i, 1 ≤ i → i < bw.numFunctions → bw.kn i < bw.kn (i + (bw.order - 1)))
    {tol : K} (htol : 0 < tol)
    (hgapu : ∀ i j, bu.kn i < bu.kn j → bu.kn i + 2 * ((bu.order - 1 : ℕ) : K) * tol ≤ bu.kn j)
    (hgapv : ∀ i j, bv.kn i < bv.kn j → bv.kn i + 2 * ((bv.order - 1 : ℕ) : K) * tol ≤ bv.kn j)
    (hgapw : ∀ i j, bw.kn i < bw.kn j → bw.kn i + 2 * ((bw.order - 1 : ℕ) : K) * tol ≤ bw.kn j)
    (x : Tensor K) (d : ℕ)
    (hx : x.shape = [bu.numFunctions * bv.numFunctions * bw.numFunctions, d] ∨
          x.shape = [bu.numFunctions, bv.numFunctions, bw.numFunctions, d]) :
    ∃ cp, interpolateGrid [bu, bv, bw] tol none x = .ok cp ∧ interpolateGridCore [bu, bv, bw] tol none x = .ok cp := by
  obtain ⟨gu, iu, hgu, hgus, hiu, hiuS, hiuR⟩ := invC_greville_ok hvu hperu hpu hc0u hc1u hmultu htol hgapu
  obtain ⟨gv, iv, hgv, hgvs, hiv, hivS, hivR⟩ := invC_greville_ok hvv hperv hpv hc0v hc1v hmultv htol hgapv
  obtain ⟨gw, iw, hgw, hgws, hiw, hiwS, hiwR⟩ := invC_greville_ok hvw hperw hpw hc0w hc1w hmultw htol hgapw
  have hx' : ∃ x', gridInput [bu, bv, bw] x = .ok x' ∧
      x'.shape = [bu.numFunctions, bv.numFunctions, bw.numFunctions, d] := by
    unfold gridInput
    rcases hx with h | h
    · refine ⟨{ x with shape := [bu.numFunctions, bv.numFunctions, bw.numFunctions, d] }, ?_, rfl⟩
      have hl : x.shape.length = 2 := by rw [h]; rfl
      have hd : x.shape.getLastD 1 = d := by rw [h]; rfl
      simp only [hl, if_true, List.map_cons, List.map_nil, hd, List.cons_append, List.nil_append]
      unfold Interp.reshape
      have : Tensor.prod [bu.numFunctions, bv.numFunctions, bw.numFunctions, d] = Tensor.prod x.shape := by
        rw [h]; simp only [Tensor.prod, List.foldl]; ring
      rw [if_neg (by rw [this]; simp)]
    · refine ⟨x, ?_, h⟩
      have hl : x.shape.length ≠ 2 := by rw [h]; simp
      simp only [hl, if_false]
  obtain ⟨x', hx1, hx2⟩ := hx'
  have t1 := tensordot_ok iw x' 2 bw.numFunctions (by rw [hx2]; simp) (by rw [hx2]; rfl)
    (fun r hr => hiwR r (by rw [← hiwS]; exact hr))
  obtain ⟨r1sh, _, _⟩ := tensordot4 iw x' _ hx2 t1
  have t2 := tensordot_ok iv (moveFront (Tensor.applyAxis iw x' 2) 2) 2 bv.numFunctions (by rw [r1sh]; simp)
    (by rw [r1sh]; rfl) (fun r hr => hivR r (by rw [← hivS]; exact hr))
  obtain ⟨r2sh, _, _⟩ := tensordot4 iv _ _ r1sh t2
  have t3 := tensordot_ok iu (moveFront (Tensor.applyAxis iv (moveFront (Tensor.applyAxis iw x' 2) 2) 2) 2) 2
    bu.numFunctions (by rw [r2sh]; simp) (by rw [r2sh]; rfl) (fun r hr => hiuR r (by rw [← hiuS]; exact hr))
  obtain ⟨r3sh, _, _⟩ := tensordot4 iu _ _ r2sh t3
  have hcore : interpolateGridCore [bu, bv, bw] tol none x
      = .ok (moveFront (Tensor.applyAxis iu (moveFront (Tensor.applyAxis iv
          (moveFront (Tensor.applyAxis iw x' 2) 2) 2) 2) 2) 2) := by
    unfold interpolateGridCore gridParams chain
    simp only [bind, Except.bind, pure, Except.pure, hx1, List.mapM_cons, List.mapM_nil, hgu, hgv, hgw, Except.map,
      List.zip_cons_cons, List.zip_nil_right, List.map_cons, List.map_nil, List.reverse_cons, List.reverse_nil,
      List.nil_append, List.cons_append, hiu, hiv, hiw, List.foldlM, List.length_cons, List.length_nil,
      Nat.add_one_sub_one, t1, t2, t3]
  obtain ⟨r, hr, rsh, rsz, rent⟩ := throughConstructor4 _ r3sh
  have hsz := tensordot4_size iu _ _ r2sh t3
  have : r = _ := tensor_ext4 _ r r3sh rsh hsz rsz rent
  refine ⟨_, ?_, hcore⟩
  unfold interpolateGrid
  simp only [bind, Except.bind, hcore, List.length_cons, List.length_nil]
  rw [hr, this]

/-- `NestedPts` is the both-ends-pinned case of `GenNested`. -/
theorem NestedPts.toGen {τ : ℕ → K} {q n : ℕ} {x : ℕ → K} (h : NestedPts τ q n x) :
    GenNested τ q n x true true where
  first := by simpa using h.first
  last := by simpa using h.last
  lt_succ := h.lt_succ
  nest := h.nest

theorem GenNested.congr_c14 {τ : ℕ → K} {q n : ℕ} {x y : ℕ → K} {p0 p1 : Bool} (hn : 1 ≤ n)
    (hx : GenNested τ q n x p0 p1) (h : ∀ l, l < n → y l = x l) : GenNested τ q n y p0 p1 where
  first := by rw [h 0 (by omega)]; exact hx.first
  last := by rw [h (n-1) (by omega)]; exact hx.last
  lt_succ := fun l hl => by rw [h l (by omega), h (l+1) hl]; exact hx.lt_succ l hl
  nest := fun l h1 h2 => by rw [h l (by omega)]; exact hx.nest l h1 h2

/-- Generalised nested points lie in the domain; only a pinned last point is the domain end. -/
theorem gen_nested_in_domain {b : Basis K} (hv : b.Valid) (hper : b.periodic = -1)
    (hc0 : b.kn 0 = b.kn (b.order - 1))
    (hc1 : b.kn b.numFunctions = b.kn (b.numFunctions + (b.order - 1)))
    (xf : ℕ → K) (p0 p1 : Bool)
    (hx : GenNested b.kn (b.order - 1) b.numFunctions xf p0 p1) (l : ℕ) (hl : l < b.numFunctions) :
    b.start ≤ xf l ∧ xf l ≤ b.stop ∧ (xf l = b.stop ↔ (p1 = true ∧ l + 1 = b.numFunctions)) := by
  have hτ : Monotone b.kn := hv.kn_mono
  have hnf : b.numFunctions = b.nAll := Basis.numFunctions_of_nonperiodic hper
  have hstart : b.start = b.kn (b.order - 1) := rfl
  have hstop : b.stop = b.kn b.numFunctions := by rw [hnf]; rfl
  have hlo0 : b.start ≤ xf 0 := by
    have := hx.first
    cases hp : p0
    · rw [hp] at this; simp only [Bool.false_eq_true, if_false] at this
      rw [hstart, ← hc0]; exact this.1.le
    · rw [hp] at this; simp only [if_true] at this
      rw [hstart, this]
  have hlo : b.start ≤ xf l := by
    rcases Nat.eq_zero_or_pos l with h0 | h0
    · rw [h0]; exact hlo0
    · have := hx.strict 0 (l-1) (by omega)
      rw [show 0 + (l - 1) + 1 = l by omega] at this
      exact le_trans hlo0 this.le
  have hlast : xf (b.numFunctions - 1) ≤ b.stop ∧ (xf (b.numFunctions - 1) = b.stop ↔ p1 = true) := by
    have := hx.last
    cases hp : p1
    · rw [hp] at this; simp only [Bool.false_eq_true, if_false] at this
      rw [hstop]
      exact ⟨this.2.le, ⟨fun h => absurd h (ne_of_lt this.2), fun h => absurd h (by simp)⟩⟩
    · rw [hp] at this; simp only [if_true] at this
      rw [hstop, this]; simp
  by_cases hln : l + 1 = b.numFunctions
  · have hl' : l = b.numFunctions - 1 := by omega
    rw [hl']
    refine ⟨by rw [← hl']; exact hlo, hlast.1, ?_⟩
    rw [hlast.2]
    constructor
    · intro h; exact ⟨h, by omega⟩
    · intro h; exact h.1
  · obtain ⟨d, hd⟩ : ∃ d, b.numFunctions - 1 = l + d + 1 := ⟨b.numFunctions - 1 - l - 1, by omega⟩
    have h3 := hx.strict l d (by omega)
    rw [← hd] at h3
    have hlt : xf l < b.stop := lt_of_lt_of_le h3 hlast.1
    refine ⟨hlo, hlt.le, ?_⟩
    constructor
    · intro h; exact absurd h (ne_of_lt hlt)
    · intro h; exact absurd h.2 hln

/-- **Schoenberg–Whitney for the executable model, ends pinned or open**: the collocation matrix at
exact generalised-nested parameters has an entrywise left inverse. -/
theorem colloc_left_inverse_gen {b : Basis K} (hv : b.Valid) (hper : b.periodic = -1)
    (hp : 2 ≤ b.order) (hc0 : b.kn 0 = b.kn (b.order - 1))
    (hc1 : b.kn b.numFunctions = b.kn (b.numFunctions + (b.order - 1)))
    (hmult : ∀ i, 1 ≤ i → i < b.numFunctions → b.kn i < b.kn (i + (b.order - 1)))
    {tol : K} (htol : 0 < tol) (ts : List K) (hlen : ts.length = b.numFunctions) (p0 p1 : Bool)
    (hx : GenNested b.kn (b.order - 1) b.numFunctions (fun l => ts.getD l 0) p0 p1)
    (hex : ∀ l, l < b.numFunctions → b.ExactAt tol (ts.getD l 0)) :
    ∃ L : ℕ → ℕ → K, ∀ i j, i < b.numFunctions → j < b.numFunctions →
      ∑ l ∈ range b.numFunctions, L i l * (colloc b tol ts 0).get l j = if i = j then 1 else 0 := by
  have hτ : Monotone b.kn := hv.kn_mono
  have hn : b.order - 1 + 1 ≤ b.numFunctions := by
    have := hv.order_le_nAll
    have := Basis.numFunctions_of_nonperiodic hper
    omega
  apply left_inverse_of_injective_c14
  intro y hy
  apply gen_colloc_injective_c14 b.kn hτ (b.order - 1) b.numFunctions (by omega) hn hc0 hc1 hmult
    (fun l => ts.getD l 0) p0 p1 hx y
  intro l hl
  refine (sum_congr rfl (fun j hj => ?_)).trans (hy l hl)
  obtain ⟨d1, d2, d3⟩ := gen_nested_in_domain hv hper hc0 hc1 _ p0 p1 hx l hl
  rw [get_colloc b tol ts 0 l j (by omega), evaluate_inside_right hv hper htol (hex l hl) d1 d2 (mem_range.mp hj),
    mul_comm]
  congr 1
  symm
  unfold effSide genSide
  simp only [if_true]
  by_cases h1 : ts.getD l 0 = b.stop
  · rw [if_pos h1, if_pos (d3.mp h1)]
  · rw [if_neg h1, if_neg (fun h => h1 (d3.mpr h))]

/-- Interpolation at exact generalised-nested user parameters succeeds. -/
theorem interpolateCurve_ok_of_gen_nested {b : Basis K} (hv : b.Valid) (hper : b.periodic = -1)
    (hp : 2 ≤ b.order) (hc0 : b.kn 0 = b.kn (b.order - 1))
    (hc1 : b.kn b.numFunctions = b.kn (b.numFunctions + (b.order - 1)))
    (hmult : ∀ i, 1 ≤ i → i < b.numFunctions → b.kn i < b.kn (i + (b.order - 1)))
    {tol : K} (htol : 0 < tol) (ts : List K) (hlen : ts.length = b.numFunctions) (p0 p1 : Bool)
    (hx : GenNested b.kn (b.order - 1) b.numFunctions (fun l => ts.getD l 0) p0 p1)
    (hex : ∀ l, l < b.numFunctions → b.ExactAt tol (ts.getD l 0))
    (x : Mat K) (m : ℕ) (hxs : x.size = b.numFunctions ∧ ∀ i, i < b.numFunctions → (x.getD i #[]).size = m) :
    ∃ c, interpolateCurve b tol (some ts) x = .ok c := by
  obtain ⟨L, hL⟩ := colloc_left_inverse_gen hv hper hp hc0 hc1 hmult htol ts hlen p0 p1 hx hex
  obtain ⟨c, hc⟩ := solveC_complete (colloc b tol ts 0) x b.numFunctions m (colloc_shape b tol ts 0 hlen) hxs L hL
  refine ⟨c, ?_⟩
  unfold interpolateCurve
  simp only [paramsOrGreville, bind, Except.bind]
  rw [if_neg (by rw [size_colloc]; omega)]
  exact hc

end Interp
end Splipy
