import Mathlib.Data.List.Sigma
import Mathlib.Data.List.Perm.Basic
import Splipy.Model.Numbering
import Splipy.Lemmas.C17Group

/-!
# C18 — `ifem_format` is a bijection onto the IFEM codes, `connections` lists every interface once
-/

namespace Splipy.MP.C18L

/-! ## `ifem_format` -/

/-- on the 8 surface orientations `ifem_format` is injective … -/
theorem ifemFormat_injective2 :
    ∀ a ∈ Orientation.all 2, ∀ b ∈ Orientation.all 2, a.ifemFormat = b.ifemFormat → a = b := by
  decide

/-- … and its values are exactly the codes `0..7` -/
theorem ifemFormat_range2 :
    ((Orientation.all 2).map (·.ifemFormat)).Perm ((List.range 8).map some) := by
  decide

theorem ifemFormat_injective1 :
    ∀ a ∈ Orientation.all 1, ∀ b ∈ Orientation.all 1, a.ifemFormat = b.ifemFormat → a = b := by
  decide

theorem ifemFormat_range1 :
    (Orientation.all 1).map (·.ifemFormat) = [some 0, some 1] := by
  decide

/-! ## the loop nest of `IFEMWriter.connections` -/

theorem nodup_flatMap_of_key {α β γ : Type} (l : List α) (f : α → List β) (key : α → γ) (g : β → γ)
    (hk : (l.map key).Nodup) (hf : ∀ x ∈ l, (f x).Nodup) (hg : ∀ x ∈ l, ∀ y ∈ f x, g y = key x) :
    (l.flatMap f).Nodup := by
  rw [List.nodup_flatMap]
  refine ⟨hf, ?_⟩
  rw [List.Nodup, List.pairwise_map] at hk
  refine hk.imp_of_mem ?_
  intro a b ha hb hab
  show List.Disjoint (f a) (f b)
  intro y hya hyb
  exact hab ((hg a ha y hya).symm.trans (hg b hb y hyb))

/-- the section indices of `l` at which `sub` sits -/
def idxsOf (l : List ℕ) (sub : ℕ) : List ℕ := (l.zipIdx.filter (fun (nj : ℕ × ℕ) => nj.1 == sub)).map (·.2)

theorem mem_idxsOf {l : List ℕ} {sub j : ℕ} : j ∈ idxsOf l sub ↔ l[j]? = some sub := by
  unfold idxsOf
  constructor
  · intro h
    obtain ⟨x, hx, rfl⟩ := List.mem_map.1 h
    obtain ⟨hx1, hx2⟩ := List.mem_filter.1 hx
    have := List.mem_zipIdx_iff_getElem?.1 hx1
    rw [this]
    simpa using hx2
  · intro h
    refine List.mem_map.2 ⟨(sub, j), List.mem_filter.2 ⟨List.mk_mem_zipIdx_iff_getElem?.2 h, by simp⟩, rfl⟩

theorem nodup_idxsOf (l : List ℕ) (sub : ℕ) : (idxsOf l sub).Nodup := by
  unfold idxsOf
  exact ((List.nodup_zipIdx_map_snd l).sublist (List.filter_sublist.map _))

theorem connPairs_eq (lowers : List (List ℕ)) (nbrs : ℕ → List ℕ) :
    connPairs lowers nbrs =
    lowers.zipIdx.flatMap fun (la : List ℕ × ℕ) =>
      la.1.zipIdx.flatMap fun (si : ℕ × ℕ) =>
        (nbrs si.1).flatMap fun b =>
          if la.2 > b then []
          else
            let idxs := idxsOf (lowers.getD b []) si.1
            let idxs := if b = la.2 then idxs.filter (· > si.2) else idxs
            idxs.map fun j => (la.2, si.2, b, j) := rfl

/-- **membership**: `(a, i, b, j)` is yielded iff the top node `a` has the node `sub` as its
    `i`-th codimension-1 section, `b` is one of the neighbours listed at `sub`, `b ≥ a`, `b` has
    `sub` as its `j`-th section, and `i < j` when `b = a`. -/
theorem mem_connPairs (lowers : List (List ℕ)) (nbrs : ℕ → List ℕ) (a i b j : ℕ) :
    (a, i, b, j) ∈ connPairs lowers nbrs ↔
      ∃ la sub, lowers[a]? = some la ∧ la[i]? = some sub ∧ b ∈ nbrs sub ∧ a ≤ b ∧
        (lowers.getD b [])[j]? = some sub ∧ (b = a → i < j) := by
  rw [connPairs_eq]
  simp only [List.mem_flatMap, Prod.exists]
  constructor
  · rintro ⟨la, a', hla, sub, i', hsi, b', hb', hmem⟩
    have hla' := List.mk_mem_zipIdx_iff_getElem?.1 hla
    have hsi' := List.mk_mem_zipIdx_iff_getElem?.1 hsi
    split at hmem
    · simp at hmem
    · rename_i hgt
      simp only [List.mem_map, Prod.mk.injEq] at hmem
      obtain ⟨j', hj', rfl, rfl, rfl, rfl⟩ := hmem
      refine ⟨la, sub, hla', hsi', hb', by omega, ?_, ?_⟩
      · split at hj'
        · exact mem_idxsOf.1 (List.mem_filter.1 hj').1
        · exact mem_idxsOf.1 hj'
      · intro hba
        rw [if_pos hba] at hj'
        simpa using (List.mem_filter.1 hj').2
  · rintro ⟨la, sub, hla, hsub, hb, hab, hj, hij⟩
    refine ⟨la, a, List.mk_mem_zipIdx_iff_getElem?.2 hla, sub, i, List.mk_mem_zipIdx_iff_getElem?.2 hsub, b, hb, ?_⟩
    rw [if_neg (by omega)]
    simp only [List.mem_map, Prod.mk.injEq, true_and, exists_eq_right]
    split
    · rename_i hba
      exact List.mem_filter.2 ⟨mem_idxsOf.2 hj, by simpa using hij hba⟩
    · exact mem_idxsOf.2 hj

/-- **no repetition**: when the neighbour lists are duplicate free (`set(...)`), no quadruple is
    yielded twice. -/
theorem nodup_connPairs (lowers : List (List ℕ)) (nbrs : ℕ → List ℕ) (hn : ∀ sub, (nbrs sub).Nodup) :
    (connPairs lowers nbrs).Nodup := by
  rw [connPairs_eq]
  refine nodup_flatMap_of_key _ _ (fun la => la.2) (fun q => q.1) (List.nodup_zipIdx_map_snd _) ?_ ?_
  · intro la _
    refine nodup_flatMap_of_key _ _ (fun si => si.2) (fun q => q.2.1) (List.nodup_zipIdx_map_snd _) ?_ ?_
    · intro si _
      refine nodup_flatMap_of_key _ _ id (fun q => q.2.2.1) (by simpa using hn si.1) ?_ ?_
      · intro b _
        split
        · exact List.nodup_nil
        · refine List.Nodup.map (fun x y h => by simpa using h) ?_
          split
          · exact (nodup_idxsOf _ _).filter _
          · exact nodup_idxsOf _ _
      · intro b _ y hy
        split at hy
        · simp at hy
        · obtain ⟨j, _, rfl⟩ := List.mem_map.1 hy
          rfl
    · intro si _ y hy
      obtain ⟨b, _, hy⟩ := List.mem_flatMap.1 hy
      split at hy
      · simp at hy
      · obtain ⟨j, _, rfl⟩ := List.mem_map.1 hy
        rfl
  · intro la _ y hy
    obtain ⟨si, _, hy⟩ := List.mem_flatMap.1 hy
    obtain ⟨b, _, hy⟩ := List.mem_flatMap.1 hy
    split at hy
    · simp at hy
    · obtain ⟨j, _, rfl⟩ := List.mem_map.1 hy
      rfl

theorem mapM_ok_map {α β : Type} (f : α → Except NErr β) (g : β → α)
    (hfg : ∀ a b, f a = .ok b → g b = a) :
    ∀ (l : List α) (bs : List β), l.mapM f = .ok bs → bs.map g = l
  | [], bs, h => by
    simp only [List.mapM_nil, pure, Except.pure, Except.ok.injEq] at h
    subst h; rfl
  | a :: l, bs, h => by
    rw [List.mapM_cons] at h
    simp only [bind, Except.bind, pure, Except.pure] at h
    split at h
    · cases h
    · rename_i b hb
      split at h
      · cases h
      · rename_i bs' hbs
        simp only [Except.ok.injEq] at h
        subst h
        rw [List.map_cons, hfg a b hb, mapM_ok_map f g hfg l bs' hbs]

theorem connOf_ok (sm : SplineModel) (q : ℕ × ℕ × ℕ × ℕ) (c : Conn) (h : sm.connOf q = .ok c) :
    (c.master - 1, c.midx - 1, c.slave - 1, c.sidx - 1) = q := by
  unfold SplineModel.connOf at h
  simp only at h
  split at h
  · split at h
    · cases h
    · split at h
      · simp only [Except.ok.injEq] at h
        subst h
        simp
      · cases h
  · cases h

theorem connOf_shape (sm : SplineModel) (q : ℕ × ℕ × ℕ × ℕ) (c : Conn) (h : sm.connOf q = .ok c) :
    1 ≤ c.master ∧ 1 ≤ c.midx ∧ 1 ≤ c.slave ∧ 1 ≤ c.sidx := by
  unfold SplineModel.connOf at h
  simp only at h
  split at h
  · split at h
    · cases h
    · split at h
      · simp only [Except.ok.injEq] at h
        subst h
        simp
      · cases h
  · cases h

theorem List.mem_mapM_ok {α β : Type} {f : α → Except NErr β} :
    ∀ {l : List α} {bs : List β}, l.mapM f = .ok bs → ∀ b ∈ bs, ∃ a ∈ l, f a = .ok b
  | [], bs, h, b, hb => by
    simp only [List.mapM_nil, pure, Except.pure, Except.ok.injEq] at h
    subst h; simp at hb
  | a :: l, bs, h, b, hb => by
    rw [List.mapM_cons] at h
    simp only [bind, Except.bind, pure, Except.pure] at h
    split at h
    · cases h
    · rename_i b' hb'
      split at h
      · cases h
      · rename_i bs' hbs
        simp only [Except.ok.injEq] at h
        subst h
        rcases List.mem_cons.1 hb with rfl | hb2
        · exact ⟨a, by simp, hb'⟩
        · obtain ⟨a', ha', hfa⟩ := List.mem_mapM_ok hbs b hb2
          exact ⟨a', List.mem_cons_of_mem _ ha', hfa⟩

/-- the list returned by `connections` is the image of `connPairs`, entry by entry -/
theorem connections_pairs (sm : SplineModel) (cs : List Conn) (h : sm.connections = .ok cs) :
    cs.map (fun c => (c.master - 1, c.midx - 1, c.slave - 1, c.sidx - 1)) =
      connPairs sm.topLowers sm.topNbrs :=
  mapM_ok_map sm.connOf _ (connOf_ok sm) _ cs h

theorem topNbrs_nodup (sm : SplineModel) (hinj : ∀ a ∈ sm.tops, ∀ b ∈ sm.tops, sm.tops.idxOf a = sm.tops.idxOf b → a = b)
    (hmem : ∀ sub, ∀ t ∈ ((sm.cat.node sub).higherAt sm.pardim).getD [], t ∈ sm.tops) (sub : ℕ) :
    (sm.topNbrs sub).Nodup := by
  unfold SplineModel.topNbrs
  refine List.Nodup.map_on ?_ (List.nodup_dedup _)
  intro a ha b hb hab
  exact hinj a (hmem sub a (List.mem_dedup.1 ha)) b (hmem sub b (List.mem_dedup.1 hb)) hab

end Splipy.MP.C18L
