import Splipy.Lemmas.C15Volume
import Splipy.Lemmas.C15EdgePackage

/-!
# Volumes of the family: shapes, the defining sum as a triple sum, swaps, the ruled volume
-/

set_option linter.unusedSectionVars false

namespace Splipy
namespace C15

open C06 C12 Obj Basis Finset

variable {K : Type} [Field K] [LinearOrder K] [IsStrictOrderedRing K] [FloorRing K]

theorem bases_of_size_three {o : Obj K} (h : o.bases.size = 3) :
    o.bases.toList = [o.basis 0, o.basis 1, o.basis 2] := by
  have hl : o.bases.toList.length = 3 := by simpa using h
  match hb : o.bases.toList, hl with
  | [b0, b1, b2], _ =>
    have e0 : o.basis 0 = b0 := by
      unfold Obj.basis
      rw [Array.getD_eq_getD_getElem?, ← Array.getElem?_toList, hb]; rfl
    have e1 : o.basis 1 = b1 := by
      unfold Obj.basis
      rw [Array.getD_eq_getD_getElem?, ← Array.getElem?_toList, hb]; rfl
    have e2 : o.basis 2 = b2 := by
      unfold Obj.basis
      rw [Array.getD_eq_getD_getElem?, ← Array.getElem?_toList, hb]; rfl
    rw [e0, e1, e2]

theorem bases_eq_three {o : Obj K} (hw : C06.WF o 3) : o.bases = #[o.basis 0, o.basis 1, o.basis 2] := by
  apply Array.ext'
  rw [bases_of_size_three hw.size]

theorem volume_shape {o : Obj K} (hw : C06.WF o 3) :
    o.cps.shape = [(o.basis 0).numFunctions, (o.basis 1).numFunctions, (o.basis 2).numFunctions, o.ncomp] := by
  rw [hw.shape]; simp [midx, List.ofFn_succ]

theorem getIdx_volume (t : Tensor K) (n0 n1 n2 nc : ℕ) (hs : t.shape = [n0, n1, n2, nc]) (I : Fin 3 → ℕ)
    (comp : ℕ) :
    getIdx t (midx I comp) = t.get (((I 0 * n1 + I 1) * n2 + I 2) * nc + comp) := by
  unfold getIdx midx
  rw [hs]
  simp [flatIdx, Tensor.prod, List.ofFn_succ]
  ring_nf

theorem fin3_cases {P : Fin 3 → Prop} (h0 : P 0) (h1 : P 1) (h2 : P 2) : ∀ i, P i := by
  intro i
  rcases i with ⟨i, hi⟩
  interval_cases i
  · exact h0
  · exact h1
  · exact h2

/-- The defining sum of a component of a non-periodic volume, as a triple sum. -/
theorem toTP_eval_volume {o : Obj K} (hw : C06.WF o 3) (hper : ∀ d : Fin 3, (o.basis d).periodic = -1)
    (comp : ℕ) (s : Fin 3 → Side) (u : Fin 3 → K) :
    (toTP o 3 comp).eval s u
      = ∑ i ∈ range (o.basis 0).numFunctions, ∑ j ∈ range (o.basis 1).numFunctions,
          ∑ k ∈ range (o.basis 2).numFunctions,
          o.cps.get (((i * (o.basis 1).numFunctions + j) * (o.basis 2).numFunctions + k) * o.ncomp + comp)
            * (B (s 0) (o.basis 0).kn ((o.basis 0).order - 1) i (u 0)
              * B (s 1) (o.basis 1).kn ((o.basis 1).order - 1) j (u 1)
              * B (s 2) (o.basis 2).kn ((o.basis 2).order - 1) k (u 2)) := by
  rw [TP.eval_eq, ← Finset.sum_product', ← Finset.sum_product']
  have v0 : (o.basis 0).Valid := hw.valid 0
  have v1 : (o.basis 1).Valid := hw.valid 1
  have v2 : (o.basis 2).Valid := hw.valid 2
  have q0 : (o.basis 0).periodic = -1 := hper 0
  have q1 : (o.basis 1).periodic = -1 := hper 1
  have q2 : (o.basis 2).periodic = -1 := hper 2
  have hn0 : (o.basis 0).nAll = (o.basis 0).numFunctions := by
    rw [valid_nAll_eq v0, q0]; simp
  have hn1 : (o.basis 1).nAll = (o.basis 1).numFunctions := by
    rw [valid_nAll_eq v1, q1]; simp
  have hn2 : (o.basis 2).nAll = (o.basis 2).numFunctions := by
    rw [valid_nAll_eq v2, q2]; simp
  have hshape := volume_shape hw
  have hmem : ∀ I : Fin 3 → ℕ, I ∈ Fintype.piFinset (fun d : Fin 3 => range ((toTP o 3 comp).nAll d)) →
      I 0 < (o.basis 0).numFunctions ∧ I 1 < (o.basis 1).numFunctions ∧ I 2 < (o.basis 2).numFunctions := by
    intro I hI
    have a0 := (Fintype.mem_piFinset.mp hI) 0
    have a1 := (Fintype.mem_piFinset.mp hI) 1
    have a2 := (Fintype.mem_piFinset.mp hI) 2
    have b0 : I 0 ∈ range (o.basis 0).nAll := a0
    have b1 : I 1 ∈ range (o.basis 1).nAll := a1
    have b2 : I 2 ∈ range (o.basis 2).nAll := a2
    rw [hn0] at b0; rw [hn1] at b1; rw [hn2] at b2
    exact ⟨mem_range.mp b0, mem_range.mp b1, mem_range.mp b2⟩
  refine Finset.sum_bij' (fun I _ => ((I 0, I 1), I 2)) (fun p _ => ![p.1.1, p.1.2, p.2]) ?_ ?_ ?_ ?_ ?_
  · intro I hI
    obtain ⟨a, b, c⟩ := hmem I hI
    exact mem_product.mpr ⟨mem_product.mpr ⟨mem_range.mpr a, mem_range.mpr b⟩, mem_range.mpr c⟩
  · intro p hp
    obtain ⟨ab, c⟩ := mem_product.mp hp
    obtain ⟨a, b⟩ := mem_product.mp ab
    rw [Fintype.mem_piFinset]
    apply fin3_cases
    · show p.1.1 ∈ range (o.basis 0).nAll
      rw [hn0]; exact a
    · show p.1.2 ∈ range (o.basis 1).nAll
      rw [hn1]; exact b
    · show p.2 ∈ range (o.basis 2).nAll
      rw [hn2]; exact c
  · intro I _
    funext d
    revert d
    apply fin3_cases <;> rfl
  · intro p _; rfl
  · intro I hI
    obtain ⟨a, b, c⟩ := hmem I hI
    rw [Fin.prod_univ_three]
    show getIdx o.cps (midx (fun d : Fin 3 => I d % (o.basis (d : ℕ)).numFunctions) comp)
        * (B (s 0) (o.basis 0).kn ((o.basis 0).order - 1) (I 0) (u 0)
          * B (s 1) (o.basis 1).kn ((o.basis 1).order - 1) (I 1) (u 1)
          * B (s 2) (o.basis 2).kn ((o.basis 2).order - 1) (I 2) (u 2)) = _
    rw [getIdx_volume o.cps _ _ _ _ hshape]
    show o.cps.get (((I 0 % (o.basis 0).numFunctions * (o.basis 1).numFunctions
        + I 1 % (o.basis 1).numFunctions) * (o.basis 2).numFunctions + I 2 % (o.basis 2).numFunctions)
          * o.ncomp + comp) * _ = _
    rw [Nat.mod_eq_of_lt a, Nat.mod_eq_of_lt b, Nat.mod_eq_of_lt c]

/-- **`swap(a, b)` exchanges the roles of two parameters** (any number of directions). -/
theorem swap_eval_gen {m : ℕ} {o : Obj K} (hw : C06.WF o m) (a b : Fin m) (comp : ℕ) (hc : comp < o.ncomp)
    (sd : Fin m → Side) (u : Fin m → K) :
    (toTP (o.swap a b) m comp).eval sd u
      = (toTP o m comp).eval (fun d => sd (Equiv.swap a b d)) (fun d => u (Equiv.swap a b d)) := by
  have hag : TP.Agree (toTP (o.swap a b) m comp) ((toTP o m comp).perm (Equiv.swap a b)) :=
    toTP_swap hw a b comp hc
  have hwS : C06.WF (o.swap a b) m := (wf_swap hw a b).1
  have hpos : (toTP (o.swap a b) m comp).Pos := fun k => valid_numFunctions_pos (hwS.valid k)
  rw [hag.eval hpos]
  have h := TP.evalD_perm (toTP o m comp) (Equiv.swap a b)
    (fun d => sd (Equiv.swap a b d)) (fun _ => 0) (fun d => u (Equiv.swap a b d))
  simp only [Equiv.swap_apply_self] at h
  exact h

/-- A volume of the family. -/
structure UnitVol (s : Obj K) (p : Fin 3 → ℕ) (U : Fin 3 → List K) (M : Fin 3 → List ℕ) (rat : Bool) (nc : ℕ) :
    Prop where
  wf : C06.WF s 3
  basis : ∀ d : Fin 3, s.basis d = unitBasis (p d) (U d) (M d)
  rational : s.rational = rat
  ncomp : s.ncomp = nc

theorem UnitVol.shape {s : Obj K} {p : Fin 3 → ℕ} {U : Fin 3 → List K} {M : Fin 3 → List ℕ} {rat : Bool} {nc : ℕ}
    (h : UnitVol s p U M rat nc) :
    s.cps.shape = midx (fun d : Fin 3 => (unitBasis (p d) (U d) (M d)).numFunctions) nc := by
  rw [h.wf.shape, h.ncomp]
  congr 1
  funext d
  rw [h.basis d]

theorem UnitVol.nonper {s : Obj K} {p : Fin 3 → ℕ} {U : Fin 3 → List K} {M : Fin 3 → List ℕ} {rat : Bool} {nc : ℕ}
    (h : UnitVol s p U M rat nc) (d : Fin 3) : (s.basis d).periodic = -1 := by
  rw [h.basis d]; rfl

theorem swap_unitVol {s : Obj K} {p : Fin 3 → ℕ} {U : Fin 3 → List K} {M : Fin 3 → List ℕ} {rat : Bool} {nc : ℕ}
    (h : UnitVol s p U M rat nc) (a b : Fin 3) :
    UnitVol (s.swap a b) (fun d => p (Equiv.swap a b d)) (fun d => U (Equiv.swap a b d))
      (fun d => M (Equiv.swap a b d)) rat nc := by
  obtain ⟨hw, hn⟩ := wf_swap h.wf a b
  have hb := basis_swap s h.wf.size a b
  exact ⟨hw, fun d => by rw [hb d, h.basis], h.rational, hn.trans h.ncomp⟩

/-! ## The ruled volume between two surfaces with the same control-array shape -/

theorem ruledObj_basis3 (r1 r2 : Obj K) (h : r1.bases.size = 2) :
    (ruledObj r1 r2).basis 0 = r1.basis 0 ∧ (ruledObj r1 r2).basis 1 = r1.basis 1
      ∧ (ruledObj r1 r2).basis 2 = linearBasis := by
  have hl := bases_of_size_two h
  have hb : (ruledObj r1 r2).bases.toList = [r1.basis 0, r1.basis 1, linearBasis] := by
    show (r1.bases.push linearBasis).toList = _
    rw [Array.toList_push, hl]; rfl
  refine ⟨?_, ?_, ?_⟩ <;>
  · unfold Obj.basis
    rw [Array.getD_eq_getD_getElem?, ← Array.getElem?_toList, hb]; rfl

theorem ruledObj_wf3 (r1 r2 : Obj K) (hw1 : C06.WF r1 2) (hsh : r2.cps.shape = r1.cps.shape) :
    C06.WF (ruledObj r1 r2) 3 ∧ (ruledObj r1 r2).ncomp = r1.ncomp := by
  have hs1 := surface_shape hw1
  have hss : (ruledObj r1 r2).cps.shape
      = [(r1.basis 0).numFunctions, (r1.basis 1).numFunctions, 2, r1.ncomp] :=
    Tensor.stack2_shape r1.cps r2.cps [(r1.basis 0).numFunctions, (r1.basis 1).numFunctions] r1.ncomp hs1
  obtain ⟨hb0, hb1, hb2⟩ := ruledObj_basis3 r1 r2 hw1.size
  have hn : (ruledObj r1 r2).ncomp = r1.ncomp := by unfold Obj.ncomp; rw [hss]; rfl
  refine ⟨⟨by simp [ruledObj, hw1.size], ?_, ?_⟩, hn⟩
  · apply fin3_cases
    · show ((ruledObj r1 r2).basis 0).Valid
      rw [hb0]; exact hw1.valid 0
    · show ((ruledObj r1 r2).basis 1).Valid
      rw [hb1]; exact hw1.valid 1
    · show ((ruledObj r1 r2).basis 2).Valid
      rw [hb2]; exact linearBasis_valid
  · rw [hss, hn]
    simp [midx, List.ofFn_succ]
    refine ⟨by rw [hb0], by rw [hb1], by rw [hb2]; exact linearBasis_numFunctions.symm⟩

/-- Flat entries of the stacked control array of two surfaces. -/
theorem stack2_get3 (a b : Tensor K) (n0 n1 nc : ℕ) (hs : a.shape = [n0, n1, nc]) (hsb : b.shape = [n0, n1, nc])
    (i j k c : ℕ) (hi : i < n0) (hj : j < n1) (hk : k < 2) (hc : c < nc) :
    (Obj.stack2 a b).get (((i * n1 + j) * 2 + k) * nc + c) = (if k = 0 then a else b).get ((i * n1 + j) * nc + c) := by
  have h := Tensor.stack2_getIdx a b [n0, n1] nc hs hsb [i, j] k c
    (List.Forall₂.cons hi (List.Forall₂.cons hj List.Forall₂.nil)) hk hc
  have hsh := Tensor.stack2_shape a b [n0, n1] nc hs
  unfold Tensor.getIdx at h
  rw [hsh] at h
  have e1 : Tensor.ravel ([n0, n1] ++ [2, nc]) ([i, j] ++ [k, c]) = ((i * n1 + j) * 2 + k) * nc + c := by
    simp [Tensor.ravel, Tensor.prod]; ring
  rw [e1] at h
  rw [h]
  split_ifs
  · rw [hs]; simp [Tensor.ravel, Tensor.prod]; ring_nf
  · rw [hsb]; simp [Tensor.ravel, Tensor.prod]; ring_nf

/-- **The ruled volume between two surfaces on the same bases is their linear blend in `w`.** -/
theorem ruledObj_eval3 (r1 r2 : Obj K) (hw1 : C06.WF r1 2) (hw2 : C06.WF r2 2)
    (hp0 : (r1.basis 0).periodic = -1) (hp1 : (r1.basis 1).periodic = -1)
    (hb0 : r2.basis 0 = r1.basis 0) (hb1 : r2.basis 1 = r1.basis 1) (hsh : r2.cps.shape = r1.cps.shape)
    (comp : ℕ) (hc : comp < r1.ncomp) (sd : Fin 3 → Side) (u : Fin 3 → K) :
    (toTP (ruledObj r1 r2) 3 comp).eval sd u
      = beta (sd 2) 0 (u 2) * (toTP r1 2 comp).eval ![sd 0, sd 1] ![u 0, u 1]
        + beta (sd 2) 1 (u 2) * (toTP r2 2 comp).eval ![sd 0, sd 1] ![u 0, u 1] := by
  obtain ⟨hw, hn⟩ := ruledObj_wf3 r1 r2 hw1 hsh
  obtain ⟨e0, e1, e2⟩ := ruledObj_basis3 r1 r2 hw1.size
  have hs1 := surface_shape hw1
  have hs2 : r2.cps.shape = [(r1.basis 0).numFunctions, (r1.basis 1).numFunctions, r1.ncomp] := hsh.trans hs1
  have hn2 : r2.ncomp = r1.ncomp := by unfold Obj.ncomp; rw [hsh]
  have hper : ∀ d : Fin 3, ((ruledObj r1 r2).basis d).periodic = -1 := by
    apply fin3_cases
    · show ((ruledObj r1 r2).basis 0).periodic = -1; rw [e0]; exact hp0
    · show ((ruledObj r1 r2).basis 1).periodic = -1; rw [e1]; exact hp1
    · show ((ruledObj r1 r2).basis 2).periodic = -1; rw [e2]; rfl
  rw [toTP_eval_volume hw hper, e0, e1, e2, hn, linearBasis_numFunctions,
    toTP_eval_surface hw1 hp0 hp1, toTP_eval_surface hw2 (by rw [hb0]; exact hp0) (by rw [hb1]; exact hp1),
    hb0, hb1, hn2, Finset.mul_sum, Finset.mul_sum, ← Finset.sum_add_distrib]
  apply Finset.sum_congr rfl
  intro i hi
  have hi' := mem_range.mp hi
  rw [Finset.mul_sum, Finset.mul_sum, ← Finset.sum_add_distrib]
  apply Finset.sum_congr rfl
  intro j hj
  have hj' := mem_range.mp hj
  rw [Finset.sum_range_succ, Finset.sum_range_one]
  have g0 := stack2_get3 r1.cps r2.cps _ _ _ hs1 hs2 i j 0 comp hi' hj' (by norm_num) hc
  have g1 := stack2_get3 r1.cps r2.cps _ _ _ hs1 hs2 i j 1 comp hi' hj' (by norm_num) hc
  simp only [if_true, one_ne_zero, if_false, add_zero] at g0 g1
  show (Obj.stack2 r1.cps r2.cps).get (((i * (r1.basis 1).numFunctions + j) * 2 + 0) * r1.ncomp + comp) * _
      + (Obj.stack2 r1.cps r2.cps).get (((i * (r1.basis 1).numFunctions + j) * 2 + 1) * r1.ncomp + comp) * _ = _
  rw [add_zero, g0, g1]
  unfold beta
  simp only [Matrix.cons_val_zero, Matrix.cons_val_one]
  show _ * (_ * _ * B (sd 2) (linearBasis : Basis K).kn 1 0 (u 2)) + _ * (_ * _ * B (sd 2) (linearBasis : Basis K).kn 1 1 (u 2)) = _
  ring

end C15
end Splipy
