import Splipy.Lemmas.C14Lsq
import Splipy.Lemmas.C14LsqGrid
set_option linter.unusedSectionVars false

/-!
# C14: surface least squares succeeds (no solvability hypothesis)
-/

namespace Splipy
open Finset Tensor
namespace Interp
variable {K : Type} [Field K] [LinearOrder K] [IsStrictOrderedRing K] [FloorRing K]

/-- The inverse of the normal matrix exists and is well shaped. -/
theorem normal_inv_shaped {b : Basis K} (hv : b.Valid) (hper : b.periodic = -1)
    (hp : 2 ≤ b.order) (hc0 : b.kn 0 = b.kn (b.order - 1))
    (hc1 : b.kn b.numFunctions = b.kn (b.numFunctions + (b.order - 1)))
    (hmult : ∀ i, 1 ≤ i → i < b.numFunctions → b.kn i < b.kn (i + (b.order - 1)))
    {tol : K} (htol : 0 < tol) (ts : List K) (idx : ℕ → ℕ) (p0 p1 : Bool)
    (hidx : ∀ l, l < b.numFunctions → idx l < ts.length)
    (hx : GenNested b.kn (b.order - 1) b.numFunctions (fun l => ts.getD (idx l) 0) p0 p1)
    (hex : ∀ l, l < b.numFunctions → b.ExactAt tol (ts.getD (idx l) 0)) :
    ∃ Gi, invC (Mat.mul (Mat.transpose (colloc b tol ts 0)) (colloc b tol ts 0)) = .ok Gi ∧
      Gi.size = b.numFunctions ∧ ∀ r, r < b.numFunctions → (Gi.getD r #[]).size = b.numFunctions := by
  obtain ⟨hshape, _, Gi, hGi⟩ := normal_invC_ok hv hper hp hc0 hc1 hmult htol ts idx p0 p1 hidx hx hex
  have hinv := hGi
  rw [invC_eq_inv _ b.numFunctions hshape] at hinv
  obtain ⟨s1, s2, _⟩ := Mat.inv_sound _ Gi b.numFunctions hshape hinv
  exact ⟨Gi, hGi, s1, s2⟩

/-- **`surface_factory.least_square_fit` succeeds** when the sample points of both directions contain
nested (Schoenberg–Whitney) subsequences — no solvability hypothesis. -/
theorem leastSquareSurface_ok {bu bv : Basis K}
    (hvu : bu.Valid) (hperu : bu.periodic = -1) (hpu : 2 ≤ bu.order)
    (hc0u : bu.kn 0 = bu.kn (bu.order - 1))
    (hc1u : bu.kn bu.numFunctions = bu.kn (bu.numFunctions + (bu.order - 1)))
    (hmultu : ∀ i, 1 ≤ i → i < bu.numFunctions → bu.kn i < bu.kn (i + (bu.order - 1)))
    (hvv : bv.Valid) (hperv : bv.periodic = -1) (hpv : 2 ≤ bv.order)
    (hc0v : bv.kn 0 = bv.kn (bv.order - 1))
    (hc1v : bv.kn bv.numFunctions = bv.kn (bv.numFunctions + (bv.order - 1)))
    (hmultv : ∀ i, 1 ≤ i → i < bv.numFunctions → bv.kn i < bv.kn (i + (bv.order - 1)))
    {tol : K} (htol : 0 < tol) (tu tv : List K) (iu iv : ℕ → ℕ) (p0u p1u p0v p1v : Bool)
    (hiu : ∀ l, l < bu.numFunctions → iu l < tu.length)
    (hxu : GenNested bu.kn (bu.order - 1) bu.numFunctions (fun l => tu.getD (iu l) 0) p0u p1u)
    (hexu : ∀ l, l < bu.numFunctions → bu.ExactAt tol (tu.getD (iu l) 0))
    (hiv : ∀ l, l < bv.numFunctions → iv l < tv.length)
    (hxv : GenNested bv.kn (bv.order - 1) bv.numFunctions (fun l => tv.getD (iv l) 0) p0v p1v)
    (hexv : ∀ l, l < bv.numFunctions → bv.ExactAt tol (tv.getD (iv l) 0))
    (x x' : Tensor K) (d : ℕ)
    (hx' : gridInputLsq [tu, tv] x = .ok x') (hsh : x'.shape = [tu.length, tv.length, d]) :
    ∃ cp Giu Giv, leastSquareGridCore [bu, bv] tol [tu, tv] x = .ok cp ∧
      invC (Mat.mul (Mat.transpose (colloc bu tol tu 0)) (colloc bu tol tu 0)) = .ok Giu ∧
      invC (Mat.mul (Mat.transpose (colloc bv tol tv 0)) (colloc bv tol tv 0)) = .ok Giv := by
  obtain ⟨Giu, hGu, gu1, gu2⟩ := normal_inv_shaped hvu hperu hpu hc0u hc1u hmultu htol tu iu p0u p1u hiu hxu hexu
  obtain ⟨Giv, hGv, gv1, gv2⟩ := normal_inv_shaped hvv hperv hpv hc0v hc1v hmultv htol tv iv p0v p1v hiv hxv hexv
  have hnu : 0 < bu.numFunctions := by
    have := hvu.order_le_nAll
    have := Basis.numFunctions_of_nonperiodic hperu
    omega
  have hnv : 0 < bv.numFunctions := by
    have := hvv.order_le_nAll
    have := Basis.numFunctions_of_nonperiodic hperv
    omega
  have hpu' : 0 < tu.length := Nat.lt_of_le_of_lt (Nat.zero_le _) (hiu 0 hnu)
  have hpv' : 0 < tv.length := Nat.lt_of_le_of_lt (Nat.zero_le _) (hiv 0 hnv)
  set Nu := colloc bu tol tu 0 with hNu
  set Nv := colloc bv tol tv 0 with hNv
  -- transposes: `n × m` with rows of width `m`
  have hT : ∀ (b : Basis K) (ts : List K), 0 < ts.length →
      (Mat.transpose (colloc b tol ts 0)).size = b.numFunctions ∧
      ∀ r, r < (Mat.transpose (colloc b tol ts 0)).size →
        ((Mat.transpose (colloc b tol ts 0)).getD r #[]).size = ts.length := by
    intro b ts hpos
    have hcols : (colloc b tol ts 0).ncols = b.numFunctions := by
      unfold Mat.ncols
      rw [row_colloc b tol ts 0 0 hpos, size_evaluate_c14]
    have hsz : (Mat.transpose (colloc b tol ts 0)).size = b.numFunctions := by
      have := Mat.nrows_transpose_c14 (colloc b tol ts 0)
      unfold Mat.nrows at this
      rw [this, hcols]
    refine ⟨hsz, fun r hr => ?_⟩
    unfold Mat.transpose
    rw [getD_ofFn_c14 _ _ _ _ (by rw [hcols]; omega)]
    simp [Mat.nrows, size_colloc]
  obtain ⟨hTu1, hTu2⟩ := hT bu tu hpu'
  obtain ⟨hTv1, hTv2⟩ := hT bv tv hpv'
  have t1 := tensordot_ok (Mat.transpose Nv) x' 1 tv.length (by rw [hsh]; simp) (by rw [hsh]; rfl) hTv2
  obtain ⟨r1sh, _, _⟩ := tensordot3 (Mat.transpose Nv) x' _ hsh t1
  have t2 := tensordot_ok (Mat.transpose Nu) (moveFront (Tensor.applyAxis (Mat.transpose Nv) x' 1) 1) 1 tu.length
    (by rw [r1sh]; simp) (by rw [r1sh]; rfl) hTu2
  obtain ⟨r2sh, _, _⟩ := tensordot3 (Mat.transpose Nu) _ _ r1sh t2
  rw [hTu1, hTv1] at r2sh
  have t3 := tensordot_ok Giv (moveFront (Tensor.applyAxis (Mat.transpose Nu)
      (moveFront (Tensor.applyAxis (Mat.transpose Nv) x' 1) 1) 1) 1) 1 bv.numFunctions
    (by rw [r2sh]; simp) (by rw [r2sh]; rfl) (fun r hr => gv2 r (by rw [← gv1]; exact hr))
  obtain ⟨r3sh, _, _⟩ := tensordot3 Giv _ _ r2sh t3
  rw [gv1] at r3sh
  have t4 := tensordot_ok Giu (moveFront (Tensor.applyAxis Giv (moveFront (Tensor.applyAxis (Mat.transpose Nu)
      (moveFront (Tensor.applyAxis (Mat.transpose Nv) x' 1) 1) 1) 1) 1) 1) 1 bu.numFunctions
    (by rw [r3sh]; simp) (by rw [r3sh]; rfl) (fun r hr => gu2 r (by rw [← gu1]; exact hr))
  suffices h : ∃ cp, leastSquareGridCore [bu, bv] tol [tu, tv] x = .ok cp by
    obtain ⟨cp, h⟩ := h
    exact ⟨cp, Giu, Giv, h, hGu, hGv⟩
  unfold leastSquareGridCore chain
  simp only [bind, Except.bind, pure, Except.pure, hx', List.zip_cons_cons, List.zip_nil_right, List.map_cons,
    List.map_nil, List.reverse_cons, List.reverse_nil, List.nil_append, List.cons_append, List.mapM_cons,
    List.mapM_nil, List.foldlM, List.length_cons, List.length_nil, Nat.add_one_sub_one, ← hNu, ← hNv,
    t1, t2, hGu, hGv, t3, t4]
  exact ⟨_, rfl⟩

end Interp
end Splipy
