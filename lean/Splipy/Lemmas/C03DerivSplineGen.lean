import Splipy.Lemmas.C03DerivSplineDir

/-!
# C03 – `get_derivative_spline(dir).evaluate = derivative(d = e_dir)` at object level, every direction

Generic in the differentiated direction (`DSplineDir`: clamped non-periodic or periodic): curves, surfaces
(both directions), volumes (all three directions); tensor grid and pointwise (`tensor=False`) form.
-/

namespace Splipy

set_option linter.unusedSectionVars false
open Tensor

variable {K : Type} [Field K] [LinearOrder K] [IsStrictOrderedRing K] [FloorRing K]

/-- `o'` is what `get_derivative_spline(dir)` builds from `o`: non-rational, control net = difference matrix
applied along `dir`, basis `dir` replaced by `nb`. -/
structure IsDerivObj (o o' : Obj K) (dir : ℕ) (b nb : Basis K) : Prop where
  rat : o'.rational = false
  cps : o'.cps = applyAxis (Obj.derivativeMatrix b b.numFunctions) o.cps dir
  bases : o'.bases = o.bases.set! dir nb

/-! ## Sum rearrangements -/

section sums
variable {K : Type} [Field K]

theorem sum2_pull0 (n1 n2 : ℕ) (f g : ℕ → K) (P : ℕ → ℕ → K) :
    ∑ j1 ∈ Finset.range n1, ∑ j2 ∈ Finset.range n2, f j1 * g j2 * P j1 j2 =
      ∑ j2 ∈ Finset.range n2, g j2 * ∑ j1 ∈ Finset.range n1, f j1 * P j1 j2 := by
  rw [Finset.sum_comm]
  apply Finset.sum_congr rfl; intro j2 _
  rw [Finset.mul_sum]
  apply Finset.sum_congr rfl; intro j1 _
  ring

theorem sum2_pull1 (n1 n2 : ℕ) (f g : ℕ → K) (P : ℕ → ℕ → K) :
    ∑ j1 ∈ Finset.range n1, ∑ j2 ∈ Finset.range n2, f j1 * g j2 * P j1 j2 =
      ∑ j1 ∈ Finset.range n1, f j1 * ∑ j2 ∈ Finset.range n2, g j2 * P j1 j2 := by
  apply Finset.sum_congr rfl; intro j1 _
  rw [Finset.mul_sum]
  apply Finset.sum_congr rfl; intro j2 _
  ring

theorem sum3_pull2 (n1 n2 n3 : ℕ) (f g h : ℕ → K) (P : ℕ → ℕ → ℕ → K) :
    ∑ j1 ∈ Finset.range n1, ∑ j2 ∈ Finset.range n2, ∑ j3 ∈ Finset.range n3,
        f j1 * g j2 * h j3 * P j1 j2 j3 =
      ∑ j1 ∈ Finset.range n1, ∑ j2 ∈ Finset.range n2,
        f j1 * g j2 * ∑ j3 ∈ Finset.range n3, h j3 * P j1 j2 j3 := by
  apply Finset.sum_congr rfl; intro j1 _
  apply Finset.sum_congr rfl; intro j2 _
  rw [Finset.mul_sum]
  apply Finset.sum_congr rfl; intro j3 _
  ring

theorem sum3_pull1 (n1 n2 n3 : ℕ) (f g h : ℕ → K) (P : ℕ → ℕ → ℕ → K) :
    ∑ j1 ∈ Finset.range n1, ∑ j2 ∈ Finset.range n2, ∑ j3 ∈ Finset.range n3,
        f j1 * g j2 * h j3 * P j1 j2 j3 =
      ∑ j1 ∈ Finset.range n1, ∑ j3 ∈ Finset.range n3,
        f j1 * h j3 * ∑ j2 ∈ Finset.range n2, g j2 * P j1 j2 j3 := by
  apply Finset.sum_congr rfl; intro j1 _
  rw [Finset.sum_comm]
  apply Finset.sum_congr rfl; intro j3 _
  rw [Finset.mul_sum]
  apply Finset.sum_congr rfl; intro j2 _
  ring

theorem sum3_pull0 (n1 n2 n3 : ℕ) (f g h : ℕ → K) (P : ℕ → ℕ → ℕ → K) :
    ∑ j1 ∈ Finset.range n1, ∑ j2 ∈ Finset.range n2, ∑ j3 ∈ Finset.range n3,
        f j1 * g j2 * h j3 * P j1 j2 j3 =
      ∑ j2 ∈ Finset.range n2, ∑ j3 ∈ Finset.range n3,
        g j2 * h j3 * ∑ j1 ∈ Finset.range n1, f j1 * P j1 j2 j3 := by
  rw [Finset.sum_comm]
  apply Finset.sum_congr rfl; intro j2 _
  rw [Finset.sum_comm]
  apply Finset.sum_congr rfl; intro j3 _
  rw [Finset.mul_sum]
  apply Finset.sum_congr rfl; intro j1 _
  ring

end sums

namespace Obj

/-! ## Curves -/

theorem derivSplineG_curve {o o' : Obj K} {b nb : Basis K} {tol : K} {Ok : K → Prop}
    (hb : o.bases = #[b]) (hv : b.Valid) {nc : ℕ} (hs : o.cps.shape = [b.numFunctions, nc])
    (hr : o.rational = false) (htol : 0 < tol) (hdir : DSplineDir b nb tol Ok)
    (hO : IsDerivObj o o' 0 b nb) {us : List K} (hus : ∀ u ∈ us, Ok u) (tensor : Bool)
    (hneA1 : nb.periodic < 0 → us ≠ [] := by (first | assumption | (simp; done) | skip))
    (hneA2 : b.periodic < 0 → us ≠ [] := by (first | assumption | (simp; done) | skip)) :
    ∃ rv rd, o'.evaluate tol [us] tensor = .ok rv ∧
      o.derivativeGeneric tol [us] [1] [true] tensor = .ok rd ∧
      ∀ i c, i < us.length → c < nc → rv.get (i * nc + c) = rd.get (i * nc + c) := by
  have hb' : o'.bases = #[nb] := by rw [hO.bases, hb]; rfl
  have hs' : o'.cps.shape = [nb.numFunctions, nc] := by
    rw [hO.cps, applyAxis_shape, hs, hdir.rows]; rfl
  have husb : ∀ u ∈ us, b.Admissible tol u := fun u hu => hdir.admb u (hus u hu)
  have husn : ∀ u ∈ us, nb.Admissible tol u := fun u hu => hdir.adm u (hus u hu)
  have hdomn := Obj.not_outOfDomain1 hb' hdir.valid htol husn
  obtain ⟨rg, hrg, -, -, hgetv⟩ := Obj.evaluate1_spec_nonrational hb' hdir.valid hs' hO.rat htol husn
  obtain ⟨rd, hrd, hgetd⟩ := Obj.derivative1_nonrational hb hs hr tol us 1 true tensor
    (Obj.not_outOfDomain1 hb hv htol husb)
  have hdimn : o'.dimension = nc := by
    have := (Obj.dimension_of_shape (o := o') (pre := [nb.numFunctions]) hs').2
    rw [this, hO.rat]; simp
  -- the grid evaluation equals the derivative entries
  have hcore : ∀ i c, i < us.length → c < nc → rg.get (i * nc + c) = rd.get (i * nc + c) := by
    intro i c hi hc
    have hu := hus _ (getD_mem_of_lt us hi 0)
    rw [hgetv i c hi hc, hgetd i c hi hc]
    have hL : ∑ j ∈ Finset.range b.numFunctions,
        b.drowVal tol (us.getD i 0) 1 true j * o.cps.get (j * nc + c) =
        ∑ j ∈ Finset.range b.numFunctions,
          b.rowSpec (us.getD i 0) true 1 j * (fun j => o.cps.get (j * nc + c)) j :=
      Finset.sum_congr rfl (fun j hj => by
        rw [Basis.drowVal_eq_rowSpec hv htol (hdir.admb _ hu) 1 true (Finset.mem_range.mp hj)])
    rw [hL, hdir.ident _ hu]
    apply Finset.sum_congr rfl
    intro j hj
    rw [Finset.mem_range] at hj
    rw [hO.cps, ← contractGrid_one, contractGrid1_get _ _ hs (by rw [hdir.rows]; exact hj) hc]
    rfl
  cases tensor
  · obtain ⟨rg', rp, hrg', hrp, -, -, hdiag⟩ :=
      Obj.evaluate1_pointwise_diag hb' hs' (by rw [hO.rat]; simp) tol us hdomn
    rw [hrg] at hrg'
    injection hrg' with hrg'
    subst hrg'
    refine ⟨rp, rd, hrp, hrd, ?_⟩
    intro i c hi hc
    have := hdiag i c hi (by rw [hdimn]; exact hc)
    rw [hdimn] at this
    rw [this]
    exact hcore i c hi hc
  · exact ⟨rg, rd, hrg, hrd, hcore⟩

/-! ## Surfaces -/

/-- Grid and pointwise form of a surface derivative have the same entries on the diagonal. -/
theorem derivative2_pointwise_diag {o : Obj K} {b1 b2 : Basis K} (hb : o.bases = #[b1, b2])
    {n1 n2 nc : ℕ} (hs : o.cps.shape = [n1, n2, nc]) (hr : o.rational = false) (tol : K)
    (us vs : List K) (d1 d2 : ℕ) (a1 a2 : Bool) (hlen : vs.length = us.length)
    (hdom : ¬ o.OutOfDomain tol [us, vs]) :
    ∃ rg rp, o.derivativeGeneric tol [us, vs] [d1, d2] [a1, a2] true = .ok rg ∧
      o.derivativeGeneric tol [us, vs] [d1, d2] [a1, a2] false = .ok rp ∧
      ∀ i c, i < us.length → c < nc →
        rp.get (i * nc + c) = rg.get ((i * vs.length + i) * nc + c) := by
  obtain ⟨rg, hrg, hg⟩ := derivative2_nonrational_grid hb hs hr tol us vs d1 d2 a1 a2 hdom
  obtain ⟨rp, hrp, hp⟩ := derivative2_nonrational_pointwise hb hs hr tol us vs d1 d2 a1 a2 hlen hdom
  refine ⟨rg, rp, hrg, hrp, fun i c hi hc => ?_⟩
  rw [hp i c hi hc, hg i i c hi (by omega) hc]

/-- Surface, first direction (`get_derivative_spline(0)` versus `d = (1,0)`), grid and pointwise. -/
theorem derivSplineG_surface_u {o o' : Obj K} {b1 b2 nb : Basis K} {tol : K} {Ok : K → Prop}
    (hb : o.bases = #[b1, b2]) (hv1 : b1.Valid) (hv2 : b2.Valid) {nc : ℕ}
    (hs : o.cps.shape = [b1.numFunctions, b2.numFunctions, nc]) (hr : o.rational = false)
    (htol : 0 < tol) (hdir : DSplineDir b1 nb tol Ok) (hO : IsDerivObj o o' 0 b1 nb)
    {us vs : List K} (hus : ∀ u ∈ us, Ok u) (hvs : ∀ v ∈ vs, b2.Admissible tol v)
    (hneA1 : b1.periodic < 0 → us ≠ [] := by (first | assumption | (simp; done) | skip))
    (hneA2 : b2.periodic < 0 → vs ≠ [] := by (first | assumption | (simp; done) | skip))
    (hneA3 : nb.periodic < 0 → us ≠ [] := by (first | assumption | (simp; done) | skip)) :
    (∃ rv rd, o'.evaluate tol [us, vs] true = .ok rv ∧
      o.derivativeGeneric tol [us, vs] [1, 0] [true, true] true = .ok rd ∧
      ∀ i1 i2 c, i1 < us.length → i2 < vs.length → c < nc →
        rv.get ((i1 * vs.length + i2) * nc + c) = rd.get ((i1 * vs.length + i2) * nc + c)) ∧
    (vs.length = us.length →
      ∃ rv rd, o'.evaluate tol [us, vs] false = .ok rv ∧
        o.derivativeGeneric tol [us, vs] [1, 0] [true, true] false = .ok rd ∧
        ∀ i c, i < us.length → c < nc → rv.get (i * nc + c) = rd.get (i * nc + c)) := by
  have hb' : o'.bases = #[nb, b2] := by rw [hO.bases, hb]; rfl
  have hs' : o'.cps.shape = [nb.numFunctions, b2.numFunctions, nc] := by
    rw [hO.cps, applyAxis_shape, hs, hdir.rows]; rfl
  have husb : ∀ u ∈ us, b1.Admissible tol u := fun u hu => hdir.admb u (hus u hu)
  have husn : ∀ u ∈ us, nb.Admissible tol u := fun u hu => hdir.adm u (hus u hu)
  have hdom := Obj.not_outOfDomain2 hb hv1 hv2 htol husb hvs
  have hdomn := Obj.not_outOfDomain2 hb' hdir.valid hv2 htol husn hvs
  obtain ⟨rg, hrg, -, -, hgetv⟩ :=
    Obj.evaluate2_spec_nonrational hb' hdir.valid hv2 hs' hO.rat htol husn hvs
  obtain ⟨rd, hrd, hgetd⟩ := derivative2_nonrational_grid hb hs hr tol us vs 1 0 true true hdom
  have hdimn : o'.dimension = nc := by
    have := (Obj.dimension_of_shape (o := o') (pre := [nb.numFunctions, b2.numFunctions]) hs').2
    rw [this, hO.rat]; simp
  have hcore : ∀ i1 i2 c, i1 < us.length → i2 < vs.length → c < nc →
      rg.get ((i1 * vs.length + i2) * nc + c) = rd.get ((i1 * vs.length + i2) * nc + c) := by
    intro i1 i2 c h1 h2 hc
    have hu := hus _ (getD_mem_of_lt us h1 0)
    have hvv := hvs _ (getD_mem_of_lt vs h2 0)
    rw [hgetv i1 i2 c h1 h2 hc, hgetd i1 i2 c h1 h2 hc]
    have hcp : ∀ j1 j2, j1 < nb.numFunctions → j2 < b2.numFunctions →
        o'.cps.get ((j1 * b2.numFunctions + j2) * nc + c) =
          dmRow b1 j1 (fun i => o.cps.get ((i * b2.numFunctions + j2) * nc + c)) := by
      intro j1 j2 hj1 hj2
      rw [hO.cps, applyAxis_get _ _ 0 (by simp [hs]) (o := 1) (n := b1.numFunctions)
        (inn := b2.numFunctions * nc) (by rw [hs]; exact split3_surface_0 _ _ _)
        (a := 0) (r := j1) (i := j2 * nc + c) (by omega) (by rw [hdir.rows]; exact hj1)
        (by
          calc j2 * nc + c < j2 * nc + nc := by omega
            _ = (j2 + 1) * nc := by ring
            _ ≤ b2.numFunctions * nc := Nat.mul_le_mul_right _ hj2)
        (by ring)]
      unfold dmRow
      apply Finset.sum_congr rfl
      intro i _
      congr 2
      ring
    have hLHS : ∑ j1 ∈ Finset.range nb.numFunctions, ∑ j2 ∈ Finset.range b2.numFunctions,
        nb.specRow (us.getD i1 0) j1 * b2.specRow (vs.getD i2 0) j2
          * o'.cps.get ((j1 * b2.numFunctions + j2) * nc + c) =
        ∑ j1 ∈ Finset.range nb.numFunctions, ∑ j2 ∈ Finset.range b2.numFunctions,
          nb.specRow (us.getD i1 0) j1 * b2.specRow (vs.getD i2 0) j2
            * (fun j1 j2 => dmRow b1 j1 (fun i => o.cps.get ((i * b2.numFunctions + j2) * nc + c))) j1 j2 :=
      Finset.sum_congr rfl (fun j1 hj1 => Finset.sum_congr rfl (fun j2 hj2 => by
        rw [hcp j1 j2 (Finset.mem_range.mp hj1) (Finset.mem_range.mp hj2)]))
    have hRHS : ∑ j1 ∈ Finset.range b1.numFunctions, ∑ j2 ∈ Finset.range b2.numFunctions,
        b1.drowVal tol (us.getD i1 0) 1 true j1 * b2.drowVal tol (vs.getD i2 0) 0 true j2
          * o.cps.get ((j1 * b2.numFunctions + j2) * nc + c) =
        ∑ j1 ∈ Finset.range b1.numFunctions, ∑ j2 ∈ Finset.range b2.numFunctions,
          b1.rowSpec (us.getD i1 0) true 1 j1 * b2.specRow (vs.getD i2 0) j2
            * (fun j1 j2 => o.cps.get ((j1 * b2.numFunctions + j2) * nc + c)) j1 j2 :=
      Finset.sum_congr rfl (fun j1 hj1 => Finset.sum_congr rfl (fun j2 hj2 => by
        rw [Basis.drowVal_eq_rowSpec hv1 htol (hdir.admb _ hu) 1 true (Finset.mem_range.mp hj1),
          Basis.drowVal_eq_rowSpec hv2 htol hvv 0 true (Finset.mem_range.mp hj2), rowSpec_zero_true hv2]))
    rw [hLHS, hRHS, sum2_pull0, sum2_pull0]
    apply Finset.sum_congr rfl
    intro j2 _
    rw [hdir.ident _ hu]
  refine ⟨⟨rg, rd, hrg, hrd, hcore⟩, ?_⟩
  intro hlen
  obtain ⟨rg', rp, hrg', hrp, -, -, hdiag⟩ :=
    Obj.evaluate2_pointwise_diag hb' hs' (by rw [hO.rat]; simp) tol us vs hlen hdomn
  rw [hrg] at hrg'; injection hrg' with hrg'; subst hrg'
  obtain ⟨rdg, rdp, hrdg, hrdp, hddiag⟩ :=
    derivative2_pointwise_diag hb hs hr tol us vs 1 0 true true hlen hdom
  rw [hrd] at hrdg; injection hrdg with hrdg; subst hrdg
  refine ⟨rp, rdp, hrp, hrdp, fun i c hi hc => ?_⟩
  have h1 := hdiag i c hi (by rw [hdimn]; exact hc)
  rw [hdimn] at h1
  rw [h1, hddiag i c hi hc]
  exact hcore i i c hi (by omega) hc

/-- Surface, second direction (`get_derivative_spline(1)` versus `d = (0,1)`), grid and pointwise. -/
theorem derivSplineG_surface_v {o o' : Obj K} {b1 b2 nb : Basis K} {tol : K} {Ok : K → Prop}
    (hb : o.bases = #[b1, b2]) (hv1 : b1.Valid) (hv2 : b2.Valid) {nc : ℕ}
    (hs : o.cps.shape = [b1.numFunctions, b2.numFunctions, nc]) (hr : o.rational = false)
    (htol : 0 < tol) (hdir : DSplineDir b2 nb tol Ok) (hO : IsDerivObj o o' 1 b2 nb)
    {us vs : List K} (hus : ∀ u ∈ us, b1.Admissible tol u) (hvs : ∀ v ∈ vs, Ok v)
    (hneA1 : b1.periodic < 0 → us ≠ [] := by (first | assumption | (simp; done) | skip))
    (hneA2 : b2.periodic < 0 → vs ≠ [] := by (first | assumption | (simp; done) | skip))
    (hneA3 : nb.periodic < 0 → vs ≠ [] := by (first | assumption | (simp; done) | skip)) :
    (∃ rv rd, o'.evaluate tol [us, vs] true = .ok rv ∧
      o.derivativeGeneric tol [us, vs] [0, 1] [true, true] true = .ok rd ∧
      ∀ i1 i2 c, i1 < us.length → i2 < vs.length → c < nc →
        rv.get ((i1 * vs.length + i2) * nc + c) = rd.get ((i1 * vs.length + i2) * nc + c)) ∧
    (vs.length = us.length →
      ∃ rv rd, o'.evaluate tol [us, vs] false = .ok rv ∧
        o.derivativeGeneric tol [us, vs] [0, 1] [true, true] false = .ok rd ∧
        ∀ i c, i < us.length → c < nc → rv.get (i * nc + c) = rd.get (i * nc + c)) := by
  have hb' : o'.bases = #[b1, nb] := by rw [hO.bases, hb]; rfl
  have hs' : o'.cps.shape = [b1.numFunctions, nb.numFunctions, nc] := by
    rw [hO.cps, applyAxis_shape, hs, hdir.rows]; rfl
  have hvsb : ∀ v ∈ vs, b2.Admissible tol v := fun v hv => hdir.admb v (hvs v hv)
  have hvsn : ∀ v ∈ vs, nb.Admissible tol v := fun v hv => hdir.adm v (hvs v hv)
  have hdom := Obj.not_outOfDomain2 hb hv1 hv2 htol hus hvsb
  have hdomn := Obj.not_outOfDomain2 hb' hv1 hdir.valid htol hus hvsn
  obtain ⟨rg, hrg, -, -, hgetv⟩ :=
    Obj.evaluate2_spec_nonrational hb' hv1 hdir.valid hs' hO.rat htol hus hvsn
  obtain ⟨rd, hrd, hgetd⟩ := derivative2_nonrational_grid hb hs hr tol us vs 0 1 true true hdom
  have hdimn : o'.dimension = nc := by
    have := (Obj.dimension_of_shape (o := o') (pre := [b1.numFunctions, nb.numFunctions]) hs').2
    rw [this, hO.rat]; simp
  have hcore : ∀ i1 i2 c, i1 < us.length → i2 < vs.length → c < nc →
      rg.get ((i1 * vs.length + i2) * nc + c) = rd.get ((i1 * vs.length + i2) * nc + c) := by
    intro i1 i2 c h1 h2 hc
    have hu := hus _ (getD_mem_of_lt us h1 0)
    have hvv := hvs _ (getD_mem_of_lt vs h2 0)
    rw [hgetv i1 i2 c h1 h2 hc, hgetd i1 i2 c h1 h2 hc]
    have hcp : ∀ j1 j2, j1 < b1.numFunctions → j2 < nb.numFunctions →
        o'.cps.get ((j1 * nb.numFunctions + j2) * nc + c) =
          dmRow b2 j2 (fun i => o.cps.get ((j1 * b2.numFunctions + i) * nc + c)) := by
      intro j1 j2 hj1 hj2
      rw [hO.cps, applyAxis_get _ _ 1 (by simp [hs]) (o := b1.numFunctions) (n := b2.numFunctions)
        (inn := nc) (by rw [hs]; exact split3_surface_1 _ _ _)
        (a := j1) (r := j2) (i := c) hj1 (by rw [hdir.rows]; exact hj2) hc (by rw [hdir.rows])]
      rfl
    have hLHS : ∑ j1 ∈ Finset.range b1.numFunctions, ∑ j2 ∈ Finset.range nb.numFunctions,
        b1.specRow (us.getD i1 0) j1 * nb.specRow (vs.getD i2 0) j2
          * o'.cps.get ((j1 * nb.numFunctions + j2) * nc + c) =
        ∑ j1 ∈ Finset.range b1.numFunctions, ∑ j2 ∈ Finset.range nb.numFunctions,
          b1.specRow (us.getD i1 0) j1 * nb.specRow (vs.getD i2 0) j2
            * (fun j1 j2 => dmRow b2 j2 (fun i => o.cps.get ((j1 * b2.numFunctions + i) * nc + c))) j1 j2 :=
      Finset.sum_congr rfl (fun j1 hj1 => Finset.sum_congr rfl (fun j2 hj2 => by
        rw [hcp j1 j2 (Finset.mem_range.mp hj1) (Finset.mem_range.mp hj2)]))
    have hRHS : ∑ j1 ∈ Finset.range b1.numFunctions, ∑ j2 ∈ Finset.range b2.numFunctions,
        b1.drowVal tol (us.getD i1 0) 0 true j1 * b2.drowVal tol (vs.getD i2 0) 1 true j2
          * o.cps.get ((j1 * b2.numFunctions + j2) * nc + c) =
        ∑ j1 ∈ Finset.range b1.numFunctions, ∑ j2 ∈ Finset.range b2.numFunctions,
          b1.specRow (us.getD i1 0) j1 * b2.rowSpec (vs.getD i2 0) true 1 j2
            * (fun j1 j2 => o.cps.get ((j1 * b2.numFunctions + j2) * nc + c)) j1 j2 :=
      Finset.sum_congr rfl (fun j1 hj1 => Finset.sum_congr rfl (fun j2 hj2 => by
        rw [Basis.drowVal_eq_rowSpec hv1 htol hu 0 true (Finset.mem_range.mp hj1),
          Basis.drowVal_eq_rowSpec hv2 htol (hdir.admb _ hvv) 1 true (Finset.mem_range.mp hj2),
          rowSpec_zero_true hv1]))
    rw [hLHS, hRHS, sum2_pull1, sum2_pull1]
    apply Finset.sum_congr rfl
    intro j1 _
    rw [hdir.ident _ hvv]
  refine ⟨⟨rg, rd, hrg, hrd, hcore⟩, ?_⟩
  intro hlen
  obtain ⟨rg', rp, hrg', hrp, -, -, hdiag⟩ :=
    Obj.evaluate2_pointwise_diag hb' hs' (by rw [hO.rat]; simp) tol us vs hlen hdomn
  rw [hrg] at hrg'; injection hrg' with hrg'; subst hrg'
  obtain ⟨rdg, rdp, hrdg, hrdp, hddiag⟩ :=
    derivative2_pointwise_diag hb hs hr tol us vs 0 1 true true hlen hdom
  rw [hrd] at hrdg; injection hrdg with hrdg; subst hrdg
  refine ⟨rp, rdp, hrp, hrdp, fun i c hi hc => ?_⟩
  have h1 := hdiag i c hi (by rw [hdimn]; exact hc)
  rw [hdimn] at h1
  rw [h1, hddiag i c hi hc]
  exact hcore i i c hi (by omega) hc

/-! ## Volumes -/

/-- Grid and pointwise form of a volume derivative have the same entries on the diagonal. -/
theorem derivative3_pointwise_diag {o : Obj K} {b1 b2 b3 : Basis K} (hb : o.bases = #[b1, b2, b3])
    {n1 n2 n3 nc : ℕ} (hs : o.cps.shape = [n1, n2, n3, nc]) (hr : o.rational = false) (tol : K)
    (us vs ws : List K) (d1 d2 d3 : ℕ) (a1 a2 a3 : Bool) (hlen2 : vs.length = us.length)
    (hlen3 : ws.length = us.length) (hdom : ¬ o.OutOfDomain tol [us, vs, ws]) :
    ∃ rg rp, o.derivativeGeneric tol [us, vs, ws] [d1, d2, d3] [a1, a2, a3] true = .ok rg ∧
      o.derivativeGeneric tol [us, vs, ws] [d1, d2, d3] [a1, a2, a3] false = .ok rp ∧
      ∀ i c, i < us.length → c < nc →
        rp.get (i * nc + c) = rg.get (((i * vs.length + i) * ws.length + i) * nc + c) := by
  obtain ⟨rg, hrg, hg⟩ := derivative3_nonrational_grid hb hs hr tol us vs ws d1 d2 d3 a1 a2 a3 hdom
  obtain ⟨rp, hrp, hp⟩ :=
    derivative3_nonrational_pointwise hb hs hr tol us vs ws d1 d2 d3 a1 a2 a3 hlen2 hlen3 hdom
  refine ⟨rg, rp, hrg, hrp, fun i c hi hc => ?_⟩
  rw [hp i c hi hc, hg i i i c hi (by omega) (by omega) hc]

/-- Volume, direction 0 (`get_derivative_spline(0)` versus the unit multi-index), grid and pointwise. -/
theorem derivSplineG_volume_u {o o' : Obj K} {b1 b2 b3 nb : Basis K} {tol : K} {Ok : K → Prop}
    (hb : o.bases = #[b1, b2, b3]) (hv1 : b1.Valid) (hv2 : b2.Valid) (hv3 : b3.Valid) {nc : ℕ}
    (hs : o.cps.shape = [b1.numFunctions, b2.numFunctions, b3.numFunctions, nc])
    (hr : o.rational = false) (htol : 0 < tol) (hdir : DSplineDir b1 nb tol Ok)
    (hO : IsDerivObj o o' 0 b1 nb) {us vs ws : List K}
    (hus : ∀ u ∈ us, Ok u) (hvs : ∀ v ∈ vs, b2.Admissible tol v)
    (hws : ∀ w ∈ ws, b3.Admissible tol w)
    (hneA1 : b1.periodic < 0 → us ≠ [] := by (first | assumption | (simp; done) | skip))
    (hneA2 : b2.periodic < 0 → vs ≠ [] := by (first | assumption | (simp; done) | skip))
    (hneA3 : b3.periodic < 0 → ws ≠ [] := by (first | assumption | (simp; done) | skip))
    (hneA4 : nb.periodic < 0 → us ≠ [] := by (first | assumption | (simp; done) | skip)) :
    (∃ rv rd, o'.evaluate tol [us, vs, ws] true = .ok rv ∧
      o.derivativeGeneric tol [us, vs, ws] [1, 0, 0] [true, true, true] true = .ok rd ∧
      ∀ i1 i2 i3 c, i1 < us.length → i2 < vs.length → i3 < ws.length → c < nc →
        rv.get (((i1 * vs.length + i2) * ws.length + i3) * nc + c) =
          rd.get (((i1 * vs.length + i2) * ws.length + i3) * nc + c)) ∧
    (vs.length = us.length → ws.length = us.length →
      ∃ rv rd, o'.evaluate tol [us, vs, ws] false = .ok rv ∧
        o.derivativeGeneric tol [us, vs, ws] [1, 0, 0] [true, true, true] false = .ok rd ∧
        ∀ i c, i < us.length → c < nc → rv.get (i * nc + c) = rd.get (i * nc + c)) := by
  have hb' : o'.bases = #[nb, b2, b3] := by rw [hO.bases, hb]; rfl
  have hs' : o'.cps.shape = [nb.numFunctions, b2.numFunctions, b3.numFunctions, nc] := by
    rw [hO.cps, applyAxis_shape, hs, hdir.rows]; rfl
  have hDb : ∀ x ∈ us, b1.Admissible tol x := fun x hx => hdir.admb x (hus x hx)
  have hDn : ∀ x ∈ us, nb.Admissible tol x := fun x hx => hdir.adm x (hus x hx)
  have hdom := Obj.not_outOfDomain3 hb hv1 hv2 hv3 htol hDb hvs hws
  have hdomn := Obj.not_outOfDomain3 hb' hdir.valid hv2 hv3 htol hDn hvs hws
  obtain ⟨rg, hrg, -, -, hgetv⟩ :=
    Obj.evaluate3_spec_nonrational hb' hdir.valid hv2 hv3 hs' hO.rat htol hDn hvs hws
  obtain ⟨rd, hrd, hgetd⟩ :=
    derivative3_nonrational_grid hb hs hr tol us vs ws 1 0 0 true true true hdom
  have hdimn : o'.dimension = nc := by
    have := (Obj.dimension_of_shape (o := o') (pre := [nb.numFunctions, b2.numFunctions, b3.numFunctions]) hs').2
    rw [this, hO.rat]; simp
  have hcore : ∀ i1 i2 i3 c, i1 < us.length → i2 < vs.length → i3 < ws.length → c < nc →
      rg.get (((i1 * vs.length + i2) * ws.length + i3) * nc + c) =
        rd.get (((i1 * vs.length + i2) * ws.length + i3) * nc + c) := by
    intro i1 i2 i3 c h1 h2 h3 hc
    have hu := hus _ (getD_mem_of_lt us h1 0)
    have hvv := hvs _ (getD_mem_of_lt vs h2 0)
    have hww := hws _ (getD_mem_of_lt ws h3 0)
    rw [hgetv i1 i2 i3 c h1 h2 h3 hc, hgetd i1 i2 i3 c h1 h2 h3 hc]
    have hcp : ∀ j1 j2 j3, j1 < nb.numFunctions → j2 < b2.numFunctions → j3 < b3.numFunctions →
        o'.cps.get (((j1 * b2.numFunctions + j2) * b3.numFunctions + j3) * nc + c) =
          dmRow b1 j1 (fun i => o.cps.get (((i * b2.numFunctions + j2) * b3.numFunctions + j3) * nc + c)) := by
      intro j1 j2 j3 hj1 hj2 hj3
      rw [hO.cps, applyAxis_get _ _ 0 (by simp [hs]) (o := 1) (n := b1.numFunctions)
        (inn := b2.numFunctions * b3.numFunctions * nc) (by rw [hs]; exact split3_volume_0 _ _ _ _)
        (a := 0) (r := j1) (i := (j2 * b3.numFunctions + j3) * nc + c) (by omega)
        (by rw [hdir.rows]; exact hj1)
        (by
          have h23 : j2 * b3.numFunctions + j3 < b2.numFunctions * b3.numFunctions := by
            calc j2 * b3.numFunctions + j3 < j2 * b3.numFunctions + b3.numFunctions := by omega
              _ = (j2 + 1) * b3.numFunctions := by ring
              _ ≤ _ := Nat.mul_le_mul_right _ hj2
          calc (j2 * b3.numFunctions + j3) * nc + c < (j2 * b3.numFunctions + j3) * nc + nc := by omega
            _ = (j2 * b3.numFunctions + j3 + 1) * nc := by ring
            _ ≤ b2.numFunctions * b3.numFunctions * nc := Nat.mul_le_mul_right _ h23)
        (by ring)]
      unfold dmRow
      apply Finset.sum_congr rfl
      intro i _
      congr 2
      ring
    have hLHS : ∑ j1 ∈ Finset.range nb.numFunctions, ∑ j2 ∈ Finset.range b2.numFunctions,
        ∑ j3 ∈ Finset.range b3.numFunctions,
          nb.specRow (us.getD i1 0) j1 * b2.specRow (vs.getD i2 0) j2
            * b3.specRow (ws.getD i3 0) j3 * o'.cps.get (((j1 * b2.numFunctions + j2) * b3.numFunctions + j3) * nc + c) =
        ∑ j1 ∈ Finset.range nb.numFunctions, ∑ j2 ∈ Finset.range b2.numFunctions,
          ∑ j3 ∈ Finset.range b3.numFunctions,
            nb.specRow (us.getD i1 0) j1 * b2.specRow (vs.getD i2 0) j2
              * b3.specRow (ws.getD i3 0) j3
              * (fun j1 j2 j3 => dmRow b1 j1 (fun i => o.cps.get (((i * b2.numFunctions + j2) * b3.numFunctions + j3) * nc + c))) j1 j2 j3 :=
      Finset.sum_congr rfl (fun j1 hj1 => Finset.sum_congr rfl (fun j2 hj2 =>
        Finset.sum_congr rfl (fun j3 hj3 => by
          rw [hcp j1 j2 j3 (Finset.mem_range.mp hj1) (Finset.mem_range.mp hj2) (Finset.mem_range.mp hj3)])))
    have hRHS : ∑ j1 ∈ Finset.range b1.numFunctions, ∑ j2 ∈ Finset.range b2.numFunctions,
        ∑ j3 ∈ Finset.range b3.numFunctions,
          b1.drowVal tol (us.getD i1 0) 1 true j1 * b2.drowVal tol (vs.getD i2 0) 0 true j2
            * b3.drowVal tol (ws.getD i3 0) 0 true j3 * o.cps.get (((j1 * b2.numFunctions + j2) * b3.numFunctions + j3) * nc + c) =
        ∑ j1 ∈ Finset.range b1.numFunctions, ∑ j2 ∈ Finset.range b2.numFunctions,
          ∑ j3 ∈ Finset.range b3.numFunctions,
            b1.rowSpec (us.getD i1 0) true 1 j1 * b2.specRow (vs.getD i2 0) j2
              * b3.specRow (ws.getD i3 0) j3
              * (fun j1 j2 j3 => o.cps.get (((j1 * b2.numFunctions + j2) * b3.numFunctions + j3) * nc + c)) j1 j2 j3 :=
      Finset.sum_congr rfl (fun j1 hj1 => Finset.sum_congr rfl (fun j2 hj2 =>
        Finset.sum_congr rfl (fun j3 hj3 => by
          rw [Basis.drowVal_eq_rowSpec hv1 htol (hdir.admb _ hu) 1 true (Finset.mem_range.mp hj1),
            Basis.drowVal_eq_rowSpec hv2 htol hvv 0 true (Finset.mem_range.mp hj2),
            Basis.drowVal_eq_rowSpec hv3 htol hww 0 true (Finset.mem_range.mp hj3),
            rowSpec_zero_true hv2, rowSpec_zero_true hv3])))
    rw [hLHS, hRHS, sum3_pull0, sum3_pull0]
    apply Finset.sum_congr rfl
    intro ja _
    apply Finset.sum_congr rfl
    intro jb _
    rw [hdir.ident _ hu]
  refine ⟨⟨rg, rd, hrg, hrd, hcore⟩, ?_⟩
  intro hlen2 hlen3
  obtain ⟨rg', rp, hrg', hrp, -, -, hdiag⟩ :=
    Obj.evaluate3_pointwise_diag hb' hs' (by rw [hO.rat]; simp) tol us vs ws hlen2 hlen3 hdomn
  rw [hrg] at hrg'; injection hrg' with hrg'; subst hrg'
  obtain ⟨rdg, rdp, hrdg, hrdp, hddiag⟩ :=
    derivative3_pointwise_diag hb hs hr tol us vs ws 1 0 0 true true true hlen2 hlen3 hdom
  rw [hrd] at hrdg; injection hrdg with hrdg; subst hrdg
  refine ⟨rp, rdp, hrp, hrdp, fun i c hi hc => ?_⟩
  have h1 := hdiag i c hi (by rw [hdimn]; exact hc)
  rw [hdimn] at h1
  rw [h1, hddiag i c hi hc]
  exact hcore i i i c hi (by omega) (by omega) hc

/-- Volume, direction 1 (`get_derivative_spline(1)` versus the unit multi-index), grid and pointwise. -/
theorem derivSplineG_volume_v {o o' : Obj K} {b1 b2 b3 nb : Basis K} {tol : K} {Ok : K → Prop}
    (hb : o.bases = #[b1, b2, b3]) (hv1 : b1.Valid) (hv2 : b2.Valid) (hv3 : b3.Valid) {nc : ℕ}
    (hs : o.cps.shape = [b1.numFunctions, b2.numFunctions, b3.numFunctions, nc])
    (hr : o.rational = false) (htol : 0 < tol) (hdir : DSplineDir b2 nb tol Ok)
    (hO : IsDerivObj o o' 1 b2 nb) {us vs ws : List K}
    (hus : ∀ u ∈ us, b1.Admissible tol u) (hvs : ∀ v ∈ vs, Ok v)
    (hws : ∀ w ∈ ws, b3.Admissible tol w)
    (hneA1 : b1.periodic < 0 → us ≠ [] := by (first | assumption | (simp; done) | skip))
    (hneA2 : b2.periodic < 0 → vs ≠ [] := by (first | assumption | (simp; done) | skip))
    (hneA3 : b3.periodic < 0 → ws ≠ [] := by (first | assumption | (simp; done) | skip))
    (hneA4 : nb.periodic < 0 → vs ≠ [] := by (first | assumption | (simp; done) | skip)) :
    (∃ rv rd, o'.evaluate tol [us, vs, ws] true = .ok rv ∧
      o.derivativeGeneric tol [us, vs, ws] [0, 1, 0] [true, true, true] true = .ok rd ∧
      ∀ i1 i2 i3 c, i1 < us.length → i2 < vs.length → i3 < ws.length → c < nc →
        rv.get (((i1 * vs.length + i2) * ws.length + i3) * nc + c) =
          rd.get (((i1 * vs.length + i2) * ws.length + i3) * nc + c)) ∧
    (vs.length = us.length → ws.length = us.length →
      ∃ rv rd, o'.evaluate tol [us, vs, ws] false = .ok rv ∧
        o.derivativeGeneric tol [us, vs, ws] [0, 1, 0] [true, true, true] false = .ok rd ∧
        ∀ i c, i < us.length → c < nc → rv.get (i * nc + c) = rd.get (i * nc + c)) := by
  have hb' : o'.bases = #[b1, nb, b3] := by rw [hO.bases, hb]; rfl
  have hs' : o'.cps.shape = [b1.numFunctions, nb.numFunctions, b3.numFunctions, nc] := by
    rw [hO.cps, applyAxis_shape, hs, hdir.rows]; rfl
  have hDb : ∀ x ∈ vs, b2.Admissible tol x := fun x hx => hdir.admb x (hvs x hx)
  have hDn : ∀ x ∈ vs, nb.Admissible tol x := fun x hx => hdir.adm x (hvs x hx)
  have hdom := Obj.not_outOfDomain3 hb hv1 hv2 hv3 htol hus hDb hws
  have hdomn := Obj.not_outOfDomain3 hb' hv1 hdir.valid hv3 htol hus hDn hws
  obtain ⟨rg, hrg, -, -, hgetv⟩ :=
    Obj.evaluate3_spec_nonrational hb' hv1 hdir.valid hv3 hs' hO.rat htol hus hDn hws
  obtain ⟨rd, hrd, hgetd⟩ :=
    derivative3_nonrational_grid hb hs hr tol us vs ws 0 1 0 true true true hdom
  have hdimn : o'.dimension = nc := by
    have := (Obj.dimension_of_shape (o := o') (pre := [b1.numFunctions, nb.numFunctions, b3.numFunctions]) hs').2
    rw [this, hO.rat]; simp
  have hcore : ∀ i1 i2 i3 c, i1 < us.length → i2 < vs.length → i3 < ws.length → c < nc →
      rg.get (((i1 * vs.length + i2) * ws.length + i3) * nc + c) =
        rd.get (((i1 * vs.length + i2) * ws.length + i3) * nc + c) := by
    intro i1 i2 i3 c h1 h2 h3 hc
    have hu := hus _ (getD_mem_of_lt us h1 0)
    have hvv := hvs _ (getD_mem_of_lt vs h2 0)
    have hww := hws _ (getD_mem_of_lt ws h3 0)
    rw [hgetv i1 i2 i3 c h1 h2 h3 hc, hgetd i1 i2 i3 c h1 h2 h3 hc]
    have hcp : ∀ j1 j2 j3, j1 < b1.numFunctions → j2 < nb.numFunctions → j3 < b3.numFunctions →
        o'.cps.get (((j1 * nb.numFunctions + j2) * b3.numFunctions + j3) * nc + c) =
          dmRow b2 j2 (fun i => o.cps.get (((j1 * b2.numFunctions + i) * b3.numFunctions + j3) * nc + c)) := by
      intro j1 j2 j3 hj1 hj2 hj3
      rw [hO.cps, applyAxis_get _ _ 1 (by simp [hs]) (o := b1.numFunctions) (n := b2.numFunctions)
        (inn := b3.numFunctions * nc) (by rw [hs]; exact split3_volume_1 _ _ _ _)
        (a := j1) (r := j2) (i := j3 * nc + c) hj1 (by rw [hdir.rows]; exact hj2)
        (by
          calc j3 * nc + c < j3 * nc + nc := by omega
            _ = (j3 + 1) * nc := by ring
            _ ≤ b3.numFunctions * nc := Nat.mul_le_mul_right _ hj3)
        (by rw [hdir.rows]; ring)]
      unfold dmRow
      apply Finset.sum_congr rfl
      intro i _
      congr 2
      ring
    have hLHS : ∑ j1 ∈ Finset.range b1.numFunctions, ∑ j2 ∈ Finset.range nb.numFunctions,
        ∑ j3 ∈ Finset.range b3.numFunctions,
          b1.specRow (us.getD i1 0) j1 * nb.specRow (vs.getD i2 0) j2
            * b3.specRow (ws.getD i3 0) j3 * o'.cps.get (((j1 * nb.numFunctions + j2) * b3.numFunctions + j3) * nc + c) =
        ∑ j1 ∈ Finset.range b1.numFunctions, ∑ j2 ∈ Finset.range nb.numFunctions,
          ∑ j3 ∈ Finset.range b3.numFunctions,
            b1.specRow (us.getD i1 0) j1 * nb.specRow (vs.getD i2 0) j2
              * b3.specRow (ws.getD i3 0) j3
              * (fun j1 j2 j3 => dmRow b2 j2 (fun i => o.cps.get (((j1 * b2.numFunctions + i) * b3.numFunctions + j3) * nc + c))) j1 j2 j3 :=
      Finset.sum_congr rfl (fun j1 hj1 => Finset.sum_congr rfl (fun j2 hj2 =>
        Finset.sum_congr rfl (fun j3 hj3 => by
          rw [hcp j1 j2 j3 (Finset.mem_range.mp hj1) (Finset.mem_range.mp hj2) (Finset.mem_range.mp hj3)])))
    have hRHS : ∑ j1 ∈ Finset.range b1.numFunctions, ∑ j2 ∈ Finset.range b2.numFunctions,
        ∑ j3 ∈ Finset.range b3.numFunctions,
          b1.drowVal tol (us.getD i1 0) 0 true j1 * b2.drowVal tol (vs.getD i2 0) 1 true j2
            * b3.drowVal tol (ws.getD i3 0) 0 true j3 * o.cps.get (((j1 * b2.numFunctions + j2) * b3.numFunctions + j3) * nc + c) =
        ∑ j1 ∈ Finset.range b1.numFunctions, ∑ j2 ∈ Finset.range b2.numFunctions,
          ∑ j3 ∈ Finset.range b3.numFunctions,
            b1.specRow (us.getD i1 0) j1 * b2.rowSpec (vs.getD i2 0) true 1 j2
              * b3.specRow (ws.getD i3 0) j3
              * (fun j1 j2 j3 => o.cps.get (((j1 * b2.numFunctions + j2) * b3.numFunctions + j3) * nc + c)) j1 j2 j3 :=
      Finset.sum_congr rfl (fun j1 hj1 => Finset.sum_congr rfl (fun j2 hj2 =>
        Finset.sum_congr rfl (fun j3 hj3 => by
          rw [Basis.drowVal_eq_rowSpec hv1 htol hu 0 true (Finset.mem_range.mp hj1),
            Basis.drowVal_eq_rowSpec hv2 htol (hdir.admb _ hvv) 1 true (Finset.mem_range.mp hj2),
            Basis.drowVal_eq_rowSpec hv3 htol hww 0 true (Finset.mem_range.mp hj3),
            rowSpec_zero_true hv1, rowSpec_zero_true hv3])))
    rw [hLHS, hRHS, sum3_pull1, sum3_pull1]
    apply Finset.sum_congr rfl
    intro ja _
    apply Finset.sum_congr rfl
    intro jb _
    rw [hdir.ident _ hvv]
  refine ⟨⟨rg, rd, hrg, hrd, hcore⟩, ?_⟩
  intro hlen2 hlen3
  obtain ⟨rg', rp, hrg', hrp, -, -, hdiag⟩ :=
    Obj.evaluate3_pointwise_diag hb' hs' (by rw [hO.rat]; simp) tol us vs ws hlen2 hlen3 hdomn
  rw [hrg] at hrg'; injection hrg' with hrg'; subst hrg'
  obtain ⟨rdg, rdp, hrdg, hrdp, hddiag⟩ :=
    derivative3_pointwise_diag hb hs hr tol us vs ws 0 1 0 true true true hlen2 hlen3 hdom
  rw [hrd] at hrdg; injection hrdg with hrdg; subst hrdg
  refine ⟨rp, rdp, hrp, hrdp, fun i c hi hc => ?_⟩
  have h1 := hdiag i c hi (by rw [hdimn]; exact hc)
  rw [hdimn] at h1
  rw [h1, hddiag i c hi hc]
  exact hcore i i i c hi (by omega) (by omega) hc

/-- Volume, direction 2 (`get_derivative_spline(2)` versus the unit multi-index), grid and pointwise. -/
theorem derivSplineG_volume_w {o o' : Obj K} {b1 b2 b3 nb : Basis K} {tol : K} {Ok : K → Prop}
    (hb : o.bases = #[b1, b2, b3]) (hv1 : b1.Valid) (hv2 : b2.Valid) (hv3 : b3.Valid) {nc : ℕ}
    (hs : o.cps.shape = [b1.numFunctions, b2.numFunctions, b3.numFunctions, nc])
    (hr : o.rational = false) (htol : 0 < tol) (hdir : DSplineDir b3 nb tol Ok)
    (hO : IsDerivObj o o' 2 b3 nb) {us vs ws : List K}
    (hus : ∀ u ∈ us, b1.Admissible tol u) (hvs : ∀ v ∈ vs, b2.Admissible tol v)
    (hws : ∀ w ∈ ws, Ok w)
    (hneA1 : b1.periodic < 0 → us ≠ [] := by (first | assumption | (simp; done) | skip))
    (hneA2 : b2.periodic < 0 → vs ≠ [] := by (first | assumption | (simp; done) | skip))
    (hneA3 : b3.periodic < 0 → ws ≠ [] := by (first | assumption | (simp; done) | skip))
    (hneA4 : nb.periodic < 0 → ws ≠ [] := by (first | assumption | (simp; done) | skip)) :
    (∃ rv rd, o'.evaluate tol [us, vs, ws] true = .ok rv ∧
      o.derivativeGeneric tol [us, vs, ws] [0, 0, 1] [true, true, true] true = .ok rd ∧
      ∀ i1 i2 i3 c, i1 < us.length → i2 < vs.length → i3 < ws.length → c < nc →
        rv.get (((i1 * vs.length + i2) * ws.length + i3) * nc + c) =
          rd.get (((i1 * vs.length + i2) * ws.length + i3) * nc + c)) ∧
    (vs.length = us.length → ws.length = us.length →
      ∃ rv rd, o'.evaluate tol [us, vs, ws] false = .ok rv ∧
        o.derivativeGeneric tol [us, vs, ws] [0, 0, 1] [true, true, true] false = .ok rd ∧
        ∀ i c, i < us.length → c < nc → rv.get (i * nc + c) = rd.get (i * nc + c)) := by
  have hb' : o'.bases = #[b1, b2, nb] := by rw [hO.bases, hb]; rfl
  have hs' : o'.cps.shape = [b1.numFunctions, b2.numFunctions, nb.numFunctions, nc] := by
    rw [hO.cps, applyAxis_shape, hs, hdir.rows]; rfl
  have hDb : ∀ x ∈ ws, b3.Admissible tol x := fun x hx => hdir.admb x (hws x hx)
  have hDn : ∀ x ∈ ws, nb.Admissible tol x := fun x hx => hdir.adm x (hws x hx)
  have hdom := Obj.not_outOfDomain3 hb hv1 hv2 hv3 htol hus hvs hDb
  have hdomn := Obj.not_outOfDomain3 hb' hv1 hv2 hdir.valid htol hus hvs hDn
  obtain ⟨rg, hrg, -, -, hgetv⟩ :=
    Obj.evaluate3_spec_nonrational hb' hv1 hv2 hdir.valid hs' hO.rat htol hus hvs hDn
  obtain ⟨rd, hrd, hgetd⟩ :=
    derivative3_nonrational_grid hb hs hr tol us vs ws 0 0 1 true true true hdom
  have hdimn : o'.dimension = nc := by
    have := (Obj.dimension_of_shape (o := o') (pre := [b1.numFunctions, b2.numFunctions, nb.numFunctions]) hs').2
    rw [this, hO.rat]; simp
  have hcore : ∀ i1 i2 i3 c, i1 < us.length → i2 < vs.length → i3 < ws.length → c < nc →
      rg.get (((i1 * vs.length + i2) * ws.length + i3) * nc + c) =
        rd.get (((i1 * vs.length + i2) * ws.length + i3) * nc + c) := by
    intro i1 i2 i3 c h1 h2 h3 hc
    have hu := hus _ (getD_mem_of_lt us h1 0)
    have hvv := hvs _ (getD_mem_of_lt vs h2 0)
    have hww := hws _ (getD_mem_of_lt ws h3 0)
    rw [hgetv i1 i2 i3 c h1 h2 h3 hc, hgetd i1 i2 i3 c h1 h2 h3 hc]
    have hcp : ∀ j1 j2 j3, j1 < b1.numFunctions → j2 < b2.numFunctions → j3 < nb.numFunctions →
        o'.cps.get (((j1 * b2.numFunctions + j2) * nb.numFunctions + j3) * nc + c) =
          dmRow b3 j3 (fun i => o.cps.get (((j1 * b2.numFunctions + j2) * b3.numFunctions + i) * nc + c)) := by
      intro j1 j2 j3 hj1 hj2 hj3
      rw [hO.cps, applyAxis_get _ _ 2 (by simp [hs]) (o := b1.numFunctions * b2.numFunctions)
        (n := b3.numFunctions) (inn := nc) (by rw [hs]; exact split3_volume_2 _ _ _ _)
        (a := j1 * b2.numFunctions + j2) (r := j3) (i := c)
        (by
          calc j1 * b2.numFunctions + j2 < j1 * b2.numFunctions + b2.numFunctions := by omega
            _ = (j1 + 1) * b2.numFunctions := by ring
            _ ≤ _ := Nat.mul_le_mul_right _ hj1)
        (by rw [hdir.rows]; exact hj3) hc (by rw [hdir.rows])]
      rfl
    have hLHS : ∑ j1 ∈ Finset.range b1.numFunctions, ∑ j2 ∈ Finset.range b2.numFunctions,
        ∑ j3 ∈ Finset.range nb.numFunctions,
          b1.specRow (us.getD i1 0) j1 * b2.specRow (vs.getD i2 0) j2
            * nb.specRow (ws.getD i3 0) j3 * o'.cps.get (((j1 * b2.numFunctions + j2) * nb.numFunctions + j3) * nc + c) =
        ∑ j1 ∈ Finset.range b1.numFunctions, ∑ j2 ∈ Finset.range b2.numFunctions,
          ∑ j3 ∈ Finset.range nb.numFunctions,
            b1.specRow (us.getD i1 0) j1 * b2.specRow (vs.getD i2 0) j2
              * nb.specRow (ws.getD i3 0) j3
              * (fun j1 j2 j3 => dmRow b3 j3 (fun i => o.cps.get (((j1 * b2.numFunctions + j2) * b3.numFunctions + i) * nc + c))) j1 j2 j3 :=
      Finset.sum_congr rfl (fun j1 hj1 => Finset.sum_congr rfl (fun j2 hj2 =>
        Finset.sum_congr rfl (fun j3 hj3 => by
          rw [hcp j1 j2 j3 (Finset.mem_range.mp hj1) (Finset.mem_range.mp hj2) (Finset.mem_range.mp hj3)])))
    have hRHS : ∑ j1 ∈ Finset.range b1.numFunctions, ∑ j2 ∈ Finset.range b2.numFunctions,
        ∑ j3 ∈ Finset.range b3.numFunctions,
          b1.drowVal tol (us.getD i1 0) 0 true j1 * b2.drowVal tol (vs.getD i2 0) 0 true j2
            * b3.drowVal tol (ws.getD i3 0) 1 true j3 * o.cps.get (((j1 * b2.numFunctions + j2) * b3.numFunctions + j3) * nc + c) =
        ∑ j1 ∈ Finset.range b1.numFunctions, ∑ j2 ∈ Finset.range b2.numFunctions,
          ∑ j3 ∈ Finset.range b3.numFunctions,
            b1.specRow (us.getD i1 0) j1 * b2.specRow (vs.getD i2 0) j2
              * b3.rowSpec (ws.getD i3 0) true 1 j3
              * (fun j1 j2 j3 => o.cps.get (((j1 * b2.numFunctions + j2) * b3.numFunctions + j3) * nc + c)) j1 j2 j3 :=
      Finset.sum_congr rfl (fun j1 hj1 => Finset.sum_congr rfl (fun j2 hj2 =>
        Finset.sum_congr rfl (fun j3 hj3 => by
          rw [Basis.drowVal_eq_rowSpec hv1 htol hu 0 true (Finset.mem_range.mp hj1),
            Basis.drowVal_eq_rowSpec hv2 htol hvv 0 true (Finset.mem_range.mp hj2),
            Basis.drowVal_eq_rowSpec hv3 htol (hdir.admb _ hww) 1 true (Finset.mem_range.mp hj3),
            rowSpec_zero_true hv1, rowSpec_zero_true hv2])))
    rw [hLHS, hRHS, sum3_pull2, sum3_pull2]
    apply Finset.sum_congr rfl
    intro ja _
    apply Finset.sum_congr rfl
    intro jb _
    rw [hdir.ident _ hww]
  refine ⟨⟨rg, rd, hrg, hrd, hcore⟩, ?_⟩
  intro hlen2 hlen3
  obtain ⟨rg', rp, hrg', hrp, -, -, hdiag⟩ :=
    Obj.evaluate3_pointwise_diag hb' hs' (by rw [hO.rat]; simp) tol us vs ws hlen2 hlen3 hdomn
  rw [hrg] at hrg'; injection hrg' with hrg'; subst hrg'
  obtain ⟨rdg, rdp, hrdg, hrdp, hddiag⟩ :=
    derivative3_pointwise_diag hb hs hr tol us vs ws 0 0 1 true true true hlen2 hlen3 hdom
  rw [hrd] at hrdg; injection hrdg with hrdg; subst hrdg
  refine ⟨rp, rdp, hrp, hrdp, fun i c hi hc => ?_⟩
  have h1 := hdiag i c hi (by rw [hdimn]; exact hc)
  rw [hdimn] at h1
  rw [h1, hddiag i c hi hc]
  exact hcore i i i c hi (by omega) (by omega) hc

end Obj

end Splipy
