import Splipy.Lemmas.C10Basic
import Splipy.Lemmas.C08Knots
import Splipy.Lemmas.C10Cummax
import Mathlib.Tactic.NormNum
import Mathlib.Tactic.IntervalCases

/-!
# C10 helper lemmas: the `BSplineBasis` constructor versus `Basis.Valid`

* `Basis.validB_iff`, `Obj.wfB_iff`: the executable Booleans decide the semantic predicates.
* `Basis.mk?_error_iff`, `Basis.mk?_ok_iff`, `Basis.mk?_cases`: the acceptance test the constructor
  really performs (`CtorPerMismatch`, `CtorDecreasing`), kept separate from `Basis.Valid`.
* `Basis.mk?_of_valid`: no false rejection — a valid basis is accepted and returned unchanged.
* `Basis.gap_accepted` / `Basis.gap_not_valid` (and `gap2_…`): the known gap — the constructor compares
  only `p + k - 1` spacings of a periodic knot vector, so it accepts knot vectors whose ghost knots do
  not repeat the interior spacing.
-/

set_option linter.unusedSectionVars false

namespace Splipy

namespace Basis

section Bool
variable {K : Type} [Field K] [LinearOrder K]

/-- The executable Boolean decides the semantic predicate. -/
theorem validB_iff (b : Basis K) : b.validB = true ↔ b.Valid := by
  unfold Basis.validB
  simp only [Bool.and_eq_true, Bool.or_eq_true, decide_eq_true_eq, List.all_eq_true, List.mem_range]
  constructor
  · rintro ⟨⟨⟨⟨⟨⟨h1, h2⟩, h3⟩, h4⟩, h5⟩, h6⟩, h7⟩
    refine ⟨h1, h2, fun i hi => h3 i (by omega), h4, h5, h6, fun hp i hi => ?_⟩
    rcases h7 with h7 | h7
    · omega
    · exact h7 i (by omega)
  · intro hv
    refine ⟨⟨⟨⟨⟨⟨hv.order_pos, hv.size_ge⟩, fun i hi => hv.sorted i (by omega)⟩, hv.periodic_ge⟩,
      hv.periodic_le⟩, hv.start_lt_stop⟩, ?_⟩
    by_cases hp : b.periodic < 0
    · exact Or.inl hp
    · refine Or.inr (fun i hi => hv.ghosts (by omega) i ?_)
      have h1 := hv.size_ge
      have h2 := hv.order_pos
      have : b.numFunctions ≤ b.knots.size := by unfold Basis.numFunctions; omega
      omega

/-! ## the acceptance test of the constructor -/

/-- python indexing incl. negative indices, as in `Basis.mk?` -/
def pyKnot (knots : Array K) (i : Int) : K :=
  knots.getD (if i < 0 then (knots.size : Int) + i else i).toNat 0

/-- some spacing decreases by more than `tol` -/
def CtorDecreasing (knots : Array K) (tol : K) : Prop :=
  ∃ i, i < knots.size - 1 ∧ knots.getD (i+1) 0 - knots.getD i 0 < -tol

/-- a periodic vector with fewer than the `p + k + 1` entries the comparison loop reads
    (`if n < p + k + 1: raise ValueError` — before the fix of finding `constructor-indexerror-short-periodic`
    the loop ran off the list: `IndexError`) -/
def CtorShortPeriodic (p : ℕ) (knots : Array K) (k : Int) : Prop :=
  0 ≤ k ∧ (knots.size : Int) < (p : Int) + k + 1

instance (p : ℕ) (knots : Array K) (k : Int) : Decidable (CtorShortPeriodic p knots k) := by
  unfold CtorShortPeriodic; infer_instance

/-- one of the `p+k-1` compared spacings of a periodic vector mismatches by more than `tol` -/
def CtorPerMismatch (p : ℕ) (knots : Array K) (k : Int) (tol : K) : Prop :=
  0 ≤ k ∧ ∃ i : ℕ, i < ((p:Int) + k - 1).toNat ∧
    |(pyKnot knots ((i:Int)+1) - pyKnot knots i)
      - (pyKnot knots (-(p:Int) - k + i) - pyKnot knots (-(p:Int) - k - 1 + i))| > tol

/-- The periodic test of `mk?` is literally `CtorPerMismatch`. -/
theorem ctorPerMismatch_iff (p : ℕ) (knots : Array K) (k : Int) (tol : K) :
    (k ≥ 0 ∧ (List.range ((p:Int) + k - 1).toNat).any (fun i =>
        let i : Int := i
        decide (|(pyKnot knots (i+1) - pyKnot knots i)
          - (pyKnot knots (-(p:Int) - k + i) - pyKnot knots (-(p:Int) - k - 1 + i))| > tol)) = true)
      ↔ CtorPerMismatch p knots k tol := by
  unfold CtorPerMismatch
  simp only [List.any_eq_true, List.mem_range, decide_eq_true_eq]

/-- The monotonicity test of `mk?` is literally `CtorDecreasing`. -/
theorem ctorDecreasing_iff (knots : Array K) (tol : K) :
    ((List.range (knots.size - 1)).any
        (fun i => decide (knots.getD (i+1) 0 - knots.getD i 0 < -tol)) = true)
      ↔ CtorDecreasing knots tol := by
  unfold CtorDecreasing
  simp only [List.any_eq_true, List.mem_range, decide_eq_true_eq]

/-- `CtorPerMismatch` with natural-number indices (the negative python indices resolved), for a
    knot vector with at least `p + k + 1` entries. -/
theorem ctorPerMismatch_nat (p : ℕ) (knots : Array K) (k : ℕ) (tol : K) (n : ℕ)
    (hn : knots.size = n) (hsz : p + k + 1 ≤ n) :
    CtorPerMismatch p knots (k : Int) tol ↔
      ∃ i : ℕ, i < p + k - 1 ∧
        |(knots.getD (i+1) 0 - knots.getD i 0)
          - (knots.getD (n - p - k + i) 0 - knots.getD (n - p - k - 1 + i) 0)| > tol := by
  have key : ∀ i : ℕ, i < p + k - 1 →
      (pyKnot knots ((i:Int)+1) - pyKnot knots i)
        - (pyKnot knots (-(p:Int) - k + i) - pyKnot knots (-(p:Int) - k - 1 + i))
      = (knots.getD (i+1) 0 - knots.getD i 0)
          - (knots.getD (n - p - k + i) 0 - knots.getD (n - p - k - 1 + i) 0) := by
    intro i hi
    have e1 : pyKnot knots ((i:Int)+1) = knots.getD (i+1) 0 := by
      unfold pyKnot; rw [if_neg (by omega)]; congr 1
    have e2 : pyKnot knots (i:Int) = knots.getD i 0 := by
      unfold pyKnot; rw [if_neg (by omega)]; congr 1
    have e3 : pyKnot knots (-(p:Int) - k + i) = knots.getD (n - p - k + i) 0 := by
      unfold pyKnot; rw [if_pos (by omega)]; congr 1; omega
    have e4 : pyKnot knots (-(p:Int) - k - 1 + i) = knots.getD (n - p - k - 1 + i) 0 := by
      unfold pyKnot; rw [if_pos (by omega)]; congr 1; omega
    rw [e1, e2, e3, e4]
  unfold CtorPerMismatch
  constructor
  · rintro ⟨_, i, hi, h⟩
    have hi' : i < p + k - 1 := by omega
    exact ⟨i, hi', by rw [← key i hi']; exact h⟩
  · rintro ⟨i, hi, h⟩
    exact ⟨by omega, i, by omega, by rw [key i hi]; exact h⟩

/-- `mk?` as a chain of the five tests. -/
theorem mk?_eq (p : ℕ) (knots : Array K) (periodic : Int) (tol : K)
    [Decidable (CtorPerMismatch p knots (max periodic (-1)) tol)]
    [Decidable (CtorDecreasing knots tol)] :
    Basis.mk? p knots periodic tol =
      if p < 1 then .error .value
      else if knots.size < 2 * p then .error .value
      else if CtorShortPeriodic p knots (max periodic (-1)) then .error .value
      else if CtorPerMismatch p knots (max periodic (-1)) tol then .error .value
      else if CtorDecreasing knots tol then .error .value
      else .ok { order := p, knots := cummax knots, periodic := max periodic (-1) } := by
  unfold Basis.mk?
  simp only []
  by_cases h1 : p < 1
  · rw [if_pos h1, if_pos h1]
  rw [if_neg h1, if_neg h1]
  by_cases h2 : knots.size < 2 * p
  · rw [if_pos h2, if_pos h2]
  rw [if_neg h2, if_neg h2]
  by_cases h2s : CtorShortPeriodic p knots (max periodic (-1))
  · rw [if_pos h2s]; exact if_pos h2s
  rw [if_neg h2s]
  refine (if_neg h2s).trans ?_
  by_cases h3 : CtorPerMismatch p knots (max periodic (-1)) tol
  · rw [if_pos h3]
    exact if_pos ((ctorPerMismatch_iff p knots _ tol).2 h3)
  rw [if_neg h3]
  refine (if_neg (fun h => h3 ((ctorPerMismatch_iff p knots _ tol).1 h))).trans ?_
  by_cases h4 : CtorDecreasing knots tol
  · rw [if_pos ((ctorDecreasing_iff knots tol).2 h4), if_pos h4]
  rw [if_neg (fun h => h4 ((ctorDecreasing_iff knots tol).1 h)), if_neg h4]

/-- **What the constructor rejects** (always with `ValueError`). -/
theorem mk?_error_iff (p : ℕ) (knots : Array K) (periodic : Int) (tol : K) :
    Basis.mk? p knots periodic tol = .error .value ↔
      p < 1 ∨ knots.size < 2 * p ∨ CtorShortPeriodic p knots (max periodic (-1))
        ∨ CtorPerMismatch p knots (max periodic (-1)) tol ∨ CtorDecreasing knots tol := by
  classical
  rw [mk?_eq]
  split_ifs with h1 h2 h2s h3 h4
  · exact ⟨fun _ => Or.inl h1, fun _ => rfl⟩
  · exact ⟨fun _ => Or.inr (Or.inl h2), fun _ => rfl⟩
  · exact ⟨fun _ => Or.inr (Or.inr (Or.inl h2s)), fun _ => rfl⟩
  · exact ⟨fun _ => Or.inr (Or.inr (Or.inr (Or.inl h3))), fun _ => rfl⟩
  · exact ⟨fun _ => Or.inr (Or.inr (Or.inr (Or.inr h4))), fun _ => rfl⟩
  · constructor
    · intro h; cases h
    · rintro (h | h | h | h | h) <;> contradiction

/-- **What the constructor accepts**, and what it then returns. -/
theorem mk?_ok_iff (p : ℕ) (knots : Array K) (periodic : Int) (tol : K) :
    Basis.mk? p knots periodic tol
        = .ok { order := p, knots := cummax knots, periodic := max periodic (-1) } ↔
      ¬ (p < 1 ∨ knots.size < 2 * p ∨ CtorShortPeriodic p knots (max periodic (-1))
        ∨ CtorPerMismatch p knots (max periodic (-1)) tol ∨ CtorDecreasing knots tol) := by
  classical
  rw [mk?_eq]
  split_ifs with h1 h2 h2s h3 h4
  · exact ⟨fun h => (by cases h), fun h => absurd (Or.inl h1) h⟩
  · exact ⟨fun h => (by cases h), fun h => absurd (Or.inr (Or.inl h2)) h⟩
  · exact ⟨fun h => (by cases h), fun h => absurd (Or.inr (Or.inr (Or.inl h2s))) h⟩
  · exact ⟨fun h => (by cases h), fun h => absurd (Or.inr (Or.inr (Or.inr (Or.inl h3)))) h⟩
  · exact ⟨fun h => (by cases h), fun h => absurd (Or.inr (Or.inr (Or.inr (Or.inr h4)))) h⟩
  · refine ⟨fun _ => ?_, fun _ => rfl⟩
    rintro (h | h | h | h | h) <;> contradiction

/-- The constructor never does anything else. -/
theorem mk?_cases (p : ℕ) (knots : Array K) (periodic : Int) (tol : K) :
    Basis.mk? p knots periodic tol = .error .value ∨
      Basis.mk? p knots periodic tol
        = .ok { order := p, knots := cummax knots, periodic := max periodic (-1) } := by
  by_cases h : p < 1 ∨ knots.size < 2 * p ∨ CtorShortPeriodic p knots (max periodic (-1))
      ∨ CtorPerMismatch p knots (max periodic (-1)) tol ∨ CtorDecreasing knots tol
  · exact Or.inl ((mk?_error_iff p knots periodic tol).2 h)
  · exact Or.inr ((mk?_ok_iff p knots periodic tol).2 h)

/-- **Accepted ⇒ exactly sorted**: whatever the constructor accepts, the basis it returns stores the running
    maximum of the given knots, which is non-decreasing (adjacent form, as in `Basis.Valid.sorted`) — also for
    vectors with decreases inside the tolerance, which the non-decreasing test lets through. -/
theorem mk?_ok_sorted (p : ℕ) (knots : Array K) (periodic : Int) (tol : K) (b : Basis K)
    (h : Basis.mk? p knots periodic tol = .ok b) :
    b.knots = cummax knots ∧ b.knots.size = knots.size ∧
      (∀ i j, i ≤ j → j < b.knots.size → b.knots.getD i 0 ≤ b.knots.getD j 0) ∧
      (∀ i, i + 1 < b.knots.size → b.kn i ≤ b.kn (i + 1)) := by
  rcases mk?_cases p knots periodic tol with he | hok
  · rw [he] at h; cases h
  · rw [hok] at h
    injection h with h
    subst h
    refine ⟨rfl, size_cummax knots, fun i j hij hj => cummax_sorted knots i j hij (by simpa using hj), ?_⟩
    intro i hi
    simp only [size_cummax] at hi
    have e1 : ({ order := p, knots := cummax knots, periodic := max periodic (-1) } : Basis K).kn (i + 1)
        = (cummax knots).getD (i + 1) 0 := by
      unfold Basis.kn; simp [Array.getD, hi]
    have e0 : ({ order := p, knots := cummax knots, periodic := max periodic (-1) } : Basis K).kn i
        = (cummax knots).getD i 0 := by
      unfold Basis.kn; simp [Array.getD, show i < knots.size by omega]
    rw [e1, e0]
    exact cummax_sorted knots i (i + 1) (by omega) hi

end Bool

/-! ## no false rejection -/

section Field
variable {K : Type} [Field K] [LinearOrder K] [IsStrictOrderedRing K]

/-- **No false rejection**: a valid basis passes the constructor (any tolerance `≥ 0`) and comes
    back unchanged. -/
theorem mk?_of_valid {b : Basis K} (hv : b.Valid) (tol : K) (htol : 0 ≤ tol) :
    Basis.mk? b.order b.knots b.periodic tol = .ok b := by
  by_cases hper : 0 ≤ b.periodic
  · exact mk?_of_valid_periodic hv hper tol htol
  · have hge := hv.periodic_ge
    have hm : b.periodic = -1 := by omega
    have hsort : ∀ i, i + 1 < b.knots.size → b.knots.getD i 0 ≤ b.knots.getD (i + 1) 0 := by
      intro i hi
      have e1 : b.knots.getD (i + 1) 0 = b.kn (i + 1) := by
        rw [Basis.kn_of_lt b hi]; simp [Array.getD, hi]
      have e0 : b.knots.getD i 0 = b.kn i := by
        rw [Basis.kn_of_lt b (show i < b.knots.size by omega)]
        simp [Array.getD, show i < b.knots.size by omega]
      rw [e1, e0]
      exact hv.kn_mono (show i ≤ i + 1 by omega)
    have hb : b = { order := b.order, knots := cummax b.knots, periodic := max b.periodic (-1) } := by
      rw [cummax_of_sorted _ hsort]
      cases b with
      | mk o k p =>
        simp only at hm
        subst hm
        rfl
    conv_rhs => rw [hb]
    rw [mk?_ok_iff]
    rintro (h | h | h | h | h)
    · have := hv.order_pos; omega
    · have := hv.size_ge; omega
    · have h0 := h.1
      rw [hm] at h0
      exact absurd h0 (by decide)
    · have h0 := h.1
      rw [hm] at h0
      exact absurd h0 (by decide)
    · obtain ⟨i, hi, h⟩ := h
      have e1 : b.knots.getD (i + 1) 0 = b.kn (i + 1) := by
        rw [Basis.kn_of_lt b (show i + 1 < b.knots.size by omega)]
        simp [Array.getD, show i + 1 < b.knots.size by omega]
      have e0 : b.knots.getD i 0 = b.kn i := by
        rw [Basis.kn_of_lt b (show i < b.knots.size by omega)]
        simp [Array.getD, show i < b.knots.size by omega]
      rw [e1, e0] at h
      have := hv.kn_mono (show i ≤ i + 1 by omega)
      linarith

end Field

/-! ## the known gap: accepted but not valid -/

/-- Uniform knots, order 3, continuity 0: the two compared spacings agree, but the period
    `end - start = 2` is not the shift `n = 3` knots realise (`3`). -/
def gapBasis : Basis ℚ := ⟨3, #[-1, 0, 1, 2, 3, 4, 5], 0⟩

theorem gap_accepted :
    Basis.mk? 3 #[-1, 0, 1, 2, 3, 4, 5] 0 (1/10000000000 : ℚ) = .ok gapBasis := by
  have hb : gapBasis = { order := 3, knots := cummax #[-1, 0, 1, 2, 3, 4, 5], periodic := max 0 (-1) } := by
    rw [cummax_of_pairwise [-1, 0, 1, 2, 3, 4, 5] (by decide)]; rfl
  rw [hb, mk?_ok_iff]
  rintro (h | h | h | h | h)
  · omega
  · have : (#[-1, 0, 1, 2, 3, 4, 5] : Array ℚ).size = 7 := rfl
    omega
  · have : (#[-1, 0, 1, 2, 3, 4, 5] : Array ℚ).size = 7 := rfl
    have h2 := h.2
    rw [this] at h2
    norm_num at h2
  · rw [show max (0 : Int) (-1) = ((0 : ℕ) : Int) from rfl,
      ctorPerMismatch_nat 3 _ 0 _ 7 rfl (by decide)] at h
    obtain ⟨i, hi, h⟩ := h
    have hi' : i < 2 := hi
    interval_cases i <;> norm_num at h
  · obtain ⟨i, hi, h⟩ := h
    have hi' : i < 6 := hi
    interval_cases i <;> norm_num at h

theorem gap_not_valid : ¬ gapBasis.Valid := by
  intro hv
  have h := hv.ghosts (by decide) 0 (by decide)
  norm_num [Basis.kn, Basis.start, Basis.stop, Basis.numFunctions, gapBasis] at h

theorem gap_validB : gapBasis.validB = false := by
  rw [← Bool.not_eq_true, validB_iff]
  exact gap_not_valid

/-- The valid periodic vector `[-1,0,1,2,3]` (order 2, continuity 0) with only its LAST ghost knot
    moved: the single compared spacing does not see it. -/
def gapBasis2 : Basis ℚ := ⟨2, #[-1, 0, 1, 2, 7/2], 0⟩

theorem gap2_accepted :
    Basis.mk? 2 #[-1, 0, 1, 2, 7/2] 0 (1/10000000000 : ℚ) = .ok gapBasis2 := by
  have hb : gapBasis2 = { order := 2, knots := cummax #[-1, 0, 1, 2, 7/2], periodic := max 0 (-1) } := by
    rw [cummax_of_pairwise [-1, 0, 1, 2, 7/2] (by norm_num)]; rfl
  rw [hb, mk?_ok_iff]
  rintro (h | h | h | h | h)
  · omega
  · have : (#[-1, 0, 1, 2, 7/2] : Array ℚ).size = 5 := rfl
    omega
  · have : (#[-1, 0, 1, 2, 7/2] : Array ℚ).size = 5 := rfl
    have h2 := h.2
    rw [this] at h2
    norm_num at h2
  · rw [show max (0 : Int) (-1) = ((0 : ℕ) : Int) from rfl,
      ctorPerMismatch_nat 2 _ 0 _ 5 rfl (by decide)] at h
    obtain ⟨i, hi, h⟩ := h
    have hi' : i < 1 := hi
    interval_cases i
    norm_num at h
  · obtain ⟨i, hi, h⟩ := h
    have hi' : i < 4 := hi
    interval_cases i <;> norm_num at h

theorem gap2_not_valid : ¬ gapBasis2.Valid := by
  intro hv
  have h := hv.ghosts (by decide) 2 (by decide)
  norm_num [Basis.kn, Basis.start, Basis.stop, Basis.numFunctions, gapBasis2] at h

theorem gap2_validB : gapBasis2.validB = false := by
  rw [← Bool.not_eq_true, validB_iff]
  exact gap2_not_valid

end Basis

namespace Obj

variable {K : Type} [Field K] [LinearOrder K]

/-- The executable Boolean decides structural well-formedness. -/
theorem wfB_iff (o : Obj K) : o.wfB = true ↔ o.WellFormed := by
  unfold Obj.wfB
  simp only [Bool.and_eq_true, Bool.or_eq_true, Bool.not_eq_true', decide_eq_true_eq,
    List.all_eq_true, List.mem_range, Basis.validB_iff]
  constructor
  · rintro ⟨⟨⟨⟨⟨h1, h2⟩, h3⟩, h4⟩, h5⟩, h6⟩
    refine ⟨h1, h2, h3, h4, h5, fun hr => ?_⟩
    rcases h6 with h6 | h6
    · rw [hr] at h6; cases h6
    · exact h6
  · intro h
    refine ⟨⟨⟨⟨⟨h.bases_size, h.shape⟩, h.data_size⟩, h.dim_pos⟩, h.valid⟩, ?_⟩
    cases hr : o.rational
    · exact Or.inl rfl
    · exact Or.inr (h.weights hr)

end Obj

end Splipy
