import Splipy.Lemmas.C19G2

/-! Spline records written by somebody else: any spelling of the numbers (`3` or `3.0`), any
value in the unused `ncps`/`dim` fields. -/

namespace Splipy.FileIO

variable {K : Type}

/-- `toks` is one line (no line end inside) that `map(float, line.split())` turns into `xs`. -/
def FloatLine [IntCast K] (toks : List (Token K)) (xs : List K) : Prop :=
  (∀ t ∈ toks, t.isNl = false) ∧ toks.mapM Token.toFloat? = some xs

/-- A basis block of a foreign file: the (unused) count field, the basis it describes and the
    spelling of its knot line. -/
structure ForeignBasis (K : Type) where
  ncpsField : Int
  basis : IOBasis K
  knotToks : List (Token K)

def ForeignBasis.toks (fb : ForeignBasis K) : List (Token K) :=
  [.int fb.ncpsField, .int fb.basis.order, .nl] ++ fb.knotToks ++ [.nl]

/-- A control point line: its spelling and its numbers. -/
def foreignRowToks (r : List (Token K) × List K) : List (Token K) := r.1 ++ [.nl]

section Read
variable [Field K] [LinearOrder K]

theorem readBasis_foreign (tol : K) (fb : ForeignBasis K) (hb : fb.basis.WF tol)
    (hk : FloatLine fb.knotToks fb.basis.knots) (rest : List (Token K)) :
    readBasis tol (fb.toks ++ rest) = .ok (fb.basis, rest) := by
  obtain ⟨h1, h2, h3, h4⟩ := hb
  have e1 : fb.toks ++ rest =
      [Token.int fb.ncpsField, Token.int fb.basis.order] ++
        Token.nl :: (fb.knotToks ++ Token.nl :: rest) := by
    simp [ForeignBasis.toks]
  rw [e1]
  unfold readBasis
  rw [nextLine_append _ _ (by intro t ht; simp at ht; rcases ht with rfl | rfl <;> rfl)]
  simp only [List.mapM_cons, List.mapM_nil, Token.toInt?, Option.pure_def, Option.bind_eq_bind,
    Option.bind_some]
  rw [nextLine_append _ _ hk.1]
  simp only [hk.2]
  have c1 : ¬ ((fb.basis.order : Int) < 1) := by omega
  have c2 : ¬ ((fb.basis.knots.length : Int) < 2 * (fb.basis.order : Int)) := by omega
  simp only [mkBasis, c1, c2, h3, if_false, Bool.not_true, Bool.false_eq_true, Int.toNat_natCast]
  cases hfb : fb.basis
  simp_all

theorem readBases_foreign (tol : K) : ∀ (fbs : List (ForeignBasis K)),
    (∀ fb ∈ fbs, fb.basis.WF tol ∧ FloatLine fb.knotToks fb.basis.knots) →
    ∀ rest : List (Token K),
      readBases tol fbs.length (fbs.flatMap ForeignBasis.toks ++ rest) =
        .ok (fbs.map ForeignBasis.basis, rest)
  | [], _, rest => by simp [readBases]
  | fb :: fbs, h, rest => by
    have hb := h fb (by simp)
    have ih := readBases_foreign tol fbs (fun b' hb' => h b' (by simp [hb'])) rest
    simp only [List.flatMap_cons, List.append_assoc, List.length_cons, readBases,
      readBasis_foreign tol fb hb.1 hb.2, ih, List.map_cons]

omit [LinearOrder K] in
theorem readRows_foreign : ∀ (rows : List (List (Token K) × List K)),
    (∀ r ∈ rows, FloatLine r.1 r.2) → ∀ rest : List (Token K),
    readRows rows.length (rows.flatMap foreignRowToks ++ rest) = .ok (rows.map Prod.snd, rest)
  | [], _, rest => by simp [readRows]
  | r :: rows, h, rest => by
    have hr := h r (by simp)
    have ih := readRows_foreign rows (fun r' hr' => h r' (by simp [hr'])) rest
    have e : (r :: rows).flatMap foreignRowToks ++ rest =
        r.1 ++ Token.nl :: (rows.flatMap foreignRowToks ++ rest) := by
      simp [foreignRowToks]
    rw [e]
    simp only [List.length_cons, readRows, nextLine_append _ _ hr.1, hr.2, ih, List.map_cons]

/-- `G2.splines` on a foreign record body. -/
theorem g2Splines_foreign (tol : K) (dimTok : Token K) (rat : Int) (fbs : List (ForeignBasis K))
    (rows : List (List (Token K) × List K)) (k : ℕ)
    (hd : dimTok.isNl = false)
    (hb : ∀ fb ∈ fbs, fb.basis.WF tol ∧ FloatLine fb.knotToks fb.basis.knots)
    (hr : ∀ r ∈ rows, FloatLine r.1 r.2 ∧ r.2.length = k)
    (hn : rows.length = ((fbs.map ForeignBasis.basis).map IOBasis.numFunctions).prod)
    (rest : List (Token K)) :
    g2Splines tol fbs.length
      (dimTok :: [Token.int rat] ++ Token.nl ::
        (fbs.flatMap ForeignBasis.toks ++ (rows.flatMap foreignRowToks ++ rest)))
      = .ok ({ bases := fbs.map ForeignBasis.basis,
               shape := (fbs.map ForeignBasis.basis).map IOBasis.numFunctions,
               ncomp := k,
               cps := unflattenF ((fbs.map ForeignBasis.basis).map IOBasis.numFunctions)
                        (rows.map Prod.snd),
               rational := rat != 0 }, rest) := by
  unfold g2Splines
  rw [nextNonBlank_append _ _ _ hd (by intro t ht; simp at ht; subst ht; rfl)]
  simp only [Token.toInt?]
  rw [readBases_foreign tol fbs hb]
  simp only []
  rw [← hn, readRows_foreign rows (fun r h => (hr r h).1)]
  have hpos : 1 ≤ rows.length := by
    rw [hn]
    apply prod_numFunctions_pos (tol := tol)
    intro b hb'
    obtain ⟨fb, hfb, rfl⟩ := List.mem_map.mp hb'
    exact (hb fb hfb).1
  cases hrows : rows with
  | nil => rw [hrows] at hpos; simp at hpos
  | cons r0 rs =>
    rw [hrows] at hr
    have h0 : r0.2.length = k := (hr r0 (by simp)).2
    have hall : ((r0 :: rs).map Prod.snd).all (fun r => r.length == r0.2.length) = true := by
      rw [List.all_eq_true]
      intro r hr'
      obtain ⟨r', hr'', rfl⟩ := List.mem_map.mp hr'
      simp [(hr r' hr'').2, h0]
    simp only [List.map_cons] at hall ⊢
    rw [h0] at hall
    simp only [reshapeF_eq_unflattenF, h0, hall, if_true]

/-- `G2.read` on one foreign spline record. -/
theorem g2ReadSpline_foreign (tol : K) (dimTok : Token K) (rat : Int) (fbs : List (ForeignBasis K))
    (rows : List (List (Token K) × List K)) (k : ℕ)
    (hp : fbs.length = 1 ∨ fbs.length = 2 ∨ fbs.length = 3)
    (hd : dimTok.isNl = false)
    (hb : ∀ fb ∈ fbs, fb.basis.WF tol ∧ FloatLine fb.knotToks fb.basis.knots)
    (hr : ∀ r ∈ rows, FloatLine r.1 r.2 ∧ r.2.length = k)
    (hn : rows.length = ((fbs.map ForeignBasis.basis).map IOBasis.numFunctions).prod)
    (rest : List (Token K)) :
    g2ReadSpline tol
      (Token.int (g2TypeCode fbs.length) :: [Token.int 1, Token.int 0, Token.int 0] ++ Token.nl ::
        (dimTok :: [Token.int rat] ++ Token.nl ::
          (fbs.flatMap ForeignBasis.toks ++ (rows.flatMap foreignRowToks ++ rest))))
      = .ok ({ bases := fbs.map ForeignBasis.basis,
               shape := (fbs.map ForeignBasis.basis).map IOBasis.numFunctions,
               ncomp := k,
               cps := unflattenF ((fbs.map ForeignBasis.basis).map IOBasis.numFunctions)
                        (rows.map Prod.snd),
               rational := rat != 0 }, rest) := by
  have hs := g2Splines_foreign tol dimTok rat fbs rows k hd hb hr hn rest
  unfold g2ReadSpline
  rw [nextNonBlank_append _ _ _ rfl (by intro t ht; simp at ht; rcases ht with rfl | rfl | rfl <;> rfl)]
  simp only [List.mapM_cons, List.mapM_nil, Token.toInt?, Option.pure_def, Option.bind_eq_bind,
    Option.bind_some]
  rcases hp with h | h | h <;>
    · simp only [h, g2TypeCode] at hs ⊢
      simpa using hs

end Read

end Splipy.FileIO
