import Splipy.Lemmas.C13Eval

/-!
# C13: model equalities of the curve factories (what the driver functions return)
-/

namespace Splipy.Fac

variable {K : Type} [Field K] [LinearOrder K] [IsStrictOrderedRing K]

omit [IsStrictOrderedRing K] in
theorem is3_circleNetP2 (w : K) : Is3 (circleNetP2 w) (circleNetP2 w).length := by
  intro j hj
  simp [circleNetP2] at hj
  interval_cases j <;> exact ⟨_, _, _, rfl⟩

omit [IsStrictOrderedRing K] in
theorem is3_circleNetP4 (s2 : K) : Is3 (circleNetP4 s2) (circleNetP4 s2).length := by
  intro j hj
  simp [circleNetP4] at hj
  interval_cases j <;> exact ⟨_, _, _, rfl⟩

omit [IsStrictOrderedRing K] in
theorem is3_arcNet (r cd sd : K) (n : ℕ) : Is3 (arcNet r cd sd n) (arcNet r cd sd n).length := by
  intro j hj
  rw [arcNet_length] at hj
  refine ⟨arcX r cd sd j, arcY r cd sd j, arcW cd j, ?_⟩
  rw [List.getD_eq_getElem?_getD, arcNet_getElem? r cd sd n j hj]
  rfl

omit [IsStrictOrderedRing K] in
theorem circle_p4C1_eq (k : Consts K) (r : K) (hr : 0 < r) (center normal xaxis : List K) (a : NAux K) (lam : K) :
    circle k r center normal "p4C1" xaxis a lam =
      place ((curveOf { order := 5, knots := (circleKnotsP4 k.pi).toArray, periodic := 1 }
                (circleNetP4 k.s2) true 2).scale [r]) center normal xaxis a lam := by
  simp [circle, unitCircle, not_le.mpr hr, bind, Except.bind, pure, Except.pure]

theorem circleDefault_p2C0_eq (k : Consts K) :
    circleDefault k 1 "p2C0" = .ok (curveOf { order := 3, knots := (circleKnotsP2 k.pi).toArray, periodic := 0 }
                (circleNetP2 k.w) true 2) := by
  have h1 : ¬ (1 : K) ≤ 0 := not_le.mpr one_pos
  have h2 : (0 : K) ≤ 100000000⁻¹ + 100000⁻¹ := by positivity
  simp [circleDefault, circle, unitCircle, place, flipAndMove, rotateLocalXAxis, localXVec, aux0, allcloseEz, allcloseZero,
    close1, Fac.Obj.rotateZ, Fac.Obj.scale, Fac.Obj.mapPts, Fac.Obj.padScale, curveOf, circleNetP2, scalePt,
    bind, Except.bind, pure, Except.pure, h1, h2]

theorem circleDefault_p4C1_eq (k : Consts K) :
    circleDefault k 1 "p4C1" = .ok (curveOf { order := 5, knots := (circleKnotsP4 k.pi).toArray, periodic := 1 }
                (circleNetP4 k.s2) true 2) := by
  have h1 : ¬ (1 : K) ≤ 0 := not_le.mpr one_pos
  have h2 : (0 : K) ≤ 100000000⁻¹ + 100000⁻¹ := by positivity
  simp [circleDefault, circle, unitCircle, place, flipAndMove, rotateLocalXAxis, localXVec, aux0, allcloseEz, allcloseZero,
    close1, Fac.Obj.rotateZ, Fac.Obj.scale, Fac.Obj.mapPts, Fac.Obj.padScale, curveOf, circleNetP4, scalePt,
    bind, Except.bind, pure, Except.pure, h1, h2]

/-- `circle_segment(2π, …)` is `circle(r, center, normal, xaxis=xaxis)`. -/
theorem circleSegment_two_pi (k : Consts K) (r : K) (center normal xaxis : List K) (arc : ArcAux K) (a : NAux K)
    (lam : K) (hpi : 0 ≤ k.pi) (hr : 0 < r) :
    circleSegment k (2 * k.pi) r center normal xaxis arc a lam = circle k r center normal "p2C0" xaxis a lam := by
  have h1 : ¬ k.pi < |k.pi| := by rw [abs_of_nonneg hpi]; exact lt_irrefl _
  simp [circleSegment, h1, not_le.mpr hr]

/-- `(cos, sin)(j·π/2)`: `(1,0), (0,1), (−1,0), (0,−1)`. -/
def quarterDir (j : ℕ) : K × K := match j with | 0 => (1, 0) | 1 => (0, 1) | 2 => (-1, 0) | _ => (0, -1)

/-- quarter points of the unit circles: at `t = j·π/2` (right-continuous) the homogeneous point is
    `(cos, sin, 1)(jπ/2) = (1,0,1), (0,1,1), (−1,0,1), (0,−1,1)`. -/
theorem circle_quarter_points (pi : K) (hpi : 0 < pi) (j : ℕ) (hj : j < 4) :
    (∀ w : K,
      let τ := ({ order := 3, knots := (circleKnotsP2 pi).toArray, periodic := 0 } : Basis K).kn
      splineVal .right τ 2 9 (netComp (circleNetP2 w) 0) ((j : K) * (pi / 2)) = (quarterDir (K := K) j).1 ∧
      splineVal .right τ 2 9 (netComp (circleNetP2 w) 1) ((j : K) * (pi / 2)) = (quarterDir (K := K) j).2 ∧
      splineVal .right τ 2 9 (netComp (circleNetP2 w) 2) ((j : K) * (pi / 2)) = 1) ∧
    (∀ s2 : K,
      let τ := ({ order := 5, knots := (circleKnotsP4 pi).toArray, periodic := 1 } : Basis K).kn
      splineVal .right τ 4 14 (netComp (circleNetP4 s2) 0) ((j : K) * (pi / 2)) = (quarterDir (K := K) j).1 ∧
      splineVal .right τ 4 14 (netComp (circleNetP4 s2) 1) ((j : K) * (pi / 2)) = (quarterDir (K := K) j).2 ∧
      splineVal .right τ 4 14 (netComp (circleNetP4 s2) 2) ((j : K) * (pi / 2)) = 1) := by
  have hh : (0 : K) < pi / 2 := by positivity
  have ht : Side.right.mem ((j : K) * (pi / 2)) ((j : K) * (pi / 2) + pi / 2) ((j : K) * (pi / 2)) :=
    ⟨le_refl _, by linarith⟩
  constructor
  · intro w τ
    have hτ := p2Knot_mono (pi / 2) hh
    have hk : ∀ c, splineVal .right τ 2 9 c ((j : K) * (pi / 2))
        = splineVal .right (p2Knot (pi / 2)) 2 9 c ((j : K) * (pi / 2)) := fun c =>
      splineVal_congr_knots .right _ _ 2 9 c _ (fun k hk => kn_circleP2 pi k (by omega))
    have hv : ∀ c, splineVal .right (p2Knot (pi / 2)) 2 9 c ((j : K) * (pi / 2)) = c (2 * j) := by
      intro c
      have := splineVal_bezier2 .right (p2Knot (pi / 2)) hτ (2*j) 9 c ((j : K) * (pi / 2)) ((j : K) * (pi / 2) + pi / 2)
        ((j : K) * (pi / 2)) (by linarith)
        (by interval_cases j <;> simp [p2Knot] <;> ring) (by interval_cases j <;> simp [p2Knot] <;> ring)
        (by interval_cases j <;> simp [p2Knot] <;> ring) (by interval_cases j <;> simp [p2Knot] <;> ring)
        ht (by omega)
      rw [this]; simp [bern2]
    rw [hk, hk, hk, hv, hv, hv]
    interval_cases j <;> simp [netComp, circleNetP2, quarterDir]
  · intro s2 τ
    have hτ := p4Knot_mono (pi / 2) hh
    have hk : ∀ c, splineVal .right τ 4 14 c ((j : K) * (pi / 2))
        = splineVal .right (p4Knot (pi / 2)) 4 14 c ((j : K) * (pi / 2)) := fun c =>
      splineVal_congr_knots .right _ _ 4 14 c _ (fun k hk => kn_circleP4 pi k (by omega))
    have hv : ∀ c, splineVal .right (p4Knot (pi / 2)) 4 14 c ((j : K) * (pi / 2)) = (c (3 * j) + c (3 * j + 1)) / 2 := by
      intro c
      have := splineVal_triple4 .right (p4Knot (pi / 2)) hτ (3*j) 14 c ((j : K) * (pi / 2)) (pi / 2) ((j : K) * (pi / 2)) hh
        (by interval_cases j <;> simp [p4Knot] <;> ring) (by interval_cases j <;> simp [p4Knot] <;> ring)
        (by interval_cases j <;> simp [p4Knot] <;> ring) (by interval_cases j <;> simp [p4Knot] <;> ring)
        (by interval_cases j <;> simp [p4Knot] <;> ring) (by interval_cases j <;> simp [p4Knot] <;> ring)
        (by interval_cases j <;> simp [p4Knot] <;> ring) (by interval_cases j <;> simp [p4Knot] <;> ring)
        ht (by omega)
      rw [this]; simp [bern4]
    rw [hk, hk, hk, hv, hv, hv]
    interval_cases j <;> simp [netComp, circleNetP4, quarterDir] <;> ring


omit [IsStrictOrderedRing K] in
theorem is3_arcNet_rev (r cd sd : K) (n : ℕ) :
    Is3 (arcNet r cd sd n).reverse (arcNet r cd sd n).reverse.length := by
  intro j hj
  rw [List.length_reverse, arcNet_length] at hj
  have h := arcNet_getElem? r cd sd n (2 * n - j) (by omega)
  refine ⟨arcX r cd sd (2 * n - j), arcY r cd sd (2 * n - j), arcW cd (2 * n - j), ?_⟩
  rw [List.getD_eq_getElem?_getD, List.getElem?_reverse (by rw [arcNet_length]; exact hj), arcNet_length]
  have : 2 * n + 1 - 1 - j = 2 * n - j := by omega
  rw [this, h]; rfl


end Splipy.Fac
