import Splipy.Lemmas.C13Eval

/-!
# C13: model equalities of the curve factories (what the driver functions return)
-/

namespace Splipy.Fac

variable {K : Type} [Field K] [LinearOrder K] [IsStrictOrderedRing K]

omit [IsStrictOrderedRing K] in
theorem is3_circleNetP2 (w : K) : Is3 (circleNetP2 w) (circleNetP2 w).length := by
  intro j hj
  simp [circleNetP2] at hj
  interval_cases j <;> exact ⟨_, _, _, rfl⟩

omit [IsStrictOrderedRing K] in
theorem is3_circleNetP4 (s2 : K) : Is3 (circleNetP4 s2) (circleNetP4 s2).length := by
  intro j hj
  simp [circleNetP4] at hj
  interval_cases j <;> exact ⟨_, _, _, rfl⟩

omit [IsStrictOrderedRing K] in
theorem is3_arcNet (r cd sd : K) (n : ℕ) : Is3 (arcNet r cd sd n) (arcNet r cd sd n).length := by
  intro j hj
  rw [arcNet_length] at hj
  refine ⟨arcX r cd sd j, arcY r cd sd j, arcW cd j, ?_⟩
  rw [List.getD_eq_getElem?_getD, arcNet_getElem? r cd sd n j hj]
  rfl

omit [IsStrictOrderedRing K] in
theorem circle_p4C1_eq (k : Consts K) (r : K) (hr : 0 < r) (center normal xaxis : List K) (a : NAux K) (lam : K) :
    circle k r center normal "p4C1" xaxis a lam =
      place ((curveOf { order := 5, knots := (circleKnotsP4 k.pi).toArray, periodic := 1 }
                (circleNetP4 k.s2) true 2).scale [r]) center normal xaxis a lam := by
  simp [circle, unitCircle, not_le.mpr hr, bind, Except.bind, pure, Except.pure]

theorem circleDefault_p2C0_eq (k : Consts K) :
    circleDefault k 1 "p2C0" = .ok (curveOf { order := 3, knots := (circleKnotsP2 k.pi).toArray, periodic := 0 }
                (circleNetP2 k.w) true 2) := by
  have h1 : ¬ (1 : K) ≤ 0 := not_le.mpr one_pos
  have h2 : (0 : K) ≤ 100000000⁻¹ + 100000⁻¹ := by positivity
  simp [circleDefault, circle, unitCircle, place, flipAndMove, rotateLocalXAxis, localXVec, aux0, allcloseEz, allcloseZero,
    close1, Fac.Obj.rotateZ, Fac.Obj.scale, Fac.Obj.mapPts, Fac.Obj.padScale, curveOf, circleNetP2, scalePt,
    bind, Except.bind, pure, Except.pure, h1, h2]

theorem circleDefault_p4C1_eq (k : Consts K) :
    circleDefault k 1 "p4C1" = .ok (curveOf { order := 5, knots := (circleKnotsP4 k.pi).toArray, periodic := 1 }
                (circleNetP4 k.s2) true 2) := by
  have h1 : ¬ (1 : K) ≤ 0 := not_le.mpr one_pos
  have h2 : (0 : K) ≤ 100000000⁻¹ + 100000⁻¹ := by positivity
  simp [circleDefault, circle, unitCircle, place, flipAndMove, rotateLocalXAxis, localXVec, aux0, allcloseEz, allcloseZero,
    close1, Fac.Obj.rotateZ, Fac.Obj.scale, Fac.Obj.mapPts, Fac.Obj.padScale, curveOf, circleNetP4, scalePt,
    bind, Except.bind, pure, Except.pure, h1, h2]

/-- `circle_segment(2π, …)` is `circle(r, center, normal, xaxis=xaxis)`. -/
theorem circleSegment_two_pi (k : Consts K) (r : K) (center normal xaxis : List K) (arc : ArcAux K) (a : NAux K)
    (lam : K) (hpi : 0 ≤ k.pi) (hr : 0 < r) :
    circleSegment k (2 * k.pi) r center normal xaxis arc a lam = circle k r center normal "p2C0" xaxis a lam := by
  have h1 : ¬ k.pi < |k.pi| := by rw [abs_of_nonneg hpi]; exact lt_irrefl _
  simp [circleSegment, h1, not_le.mpr hr]

end Splipy.Fac
