import Splipy.Model.Numbering
import Splipy.Lemmas.C17Array

/-!
# C18 — cell numbers: `generate_cell_numbers` enumerates all knot-span cells exactly once
-/

namespace Splipy.MP.C18L

theorem arangeArr_data (start : ℕ) (shape : List ℕ) :
    (arangeArr start shape).data.toList = (List.range' start (shapeSize shape)).map (fun (n : ℕ) => (n : ℤ)) := by
  simp [arangeArr]

theorem arangeArr_shape (start : ℕ) (shape : List ℕ) : (arangeArr start shape).shape = shape := rfl

theorem arangeArr_size (start : ℕ) (shape : List ℕ) :
    (arangeArr start shape).data.size = shapeSize shape := by
  simp [arangeArr]

/-- total number of cells of a list of cell shapes -/
def totalCells (shapes : List (List ℕ)) : ℕ := (shapes.map shapeSize).sum

theorem cellArrays_snd (shapes : List (List ℕ)) (start : ℕ) :
    (cellArrays shapes start).2 = start + totalCells shapes := by
  induction shapes generalizing start with
  | nil => simp [cellArrays, totalCells]
  | cons s ss ih =>
    simp only [cellArrays, totalCells, List.map_cons, List.sum_cons] at *
    rw [ih]; omega

theorem cellArrays_length (shapes : List (List ℕ)) (start : ℕ) :
    (cellArrays shapes start).1.length = shapes.length := by
  induction shapes generalizing start with
  | nil => simp [cellArrays]
  | cons s ss ih => simp [cellArrays, ih]

theorem cellArrays_shapes (shapes : List (List ℕ)) (start : ℕ) :
    (cellArrays shapes start).1.map (·.shape) = shapes := by
  induction shapes generalizing start with
  | nil => simp [cellArrays]
  | cons s ss ih => simp [cellArrays, ih, arangeArr_shape]

theorem cellArrays_sizes (shapes : List (List ℕ)) (start : ℕ) :
    ∀ a ∈ (cellArrays shapes start).1, a.data.size = shapeSize a.shape := by
  induction shapes generalizing start with
  | nil => simp [cellArrays]
  | cons s ss ih =>
    intro a ha
    simp only [cellArrays, List.mem_cons] at ha
    rcases ha with rfl | ha
    · exact arangeArr_size _ _
    · exact ih _ a ha

/-- the numbers of all cells of all patches, patch by patch in C order, are
    `start, start+1, …, start + (number of cells) - 1`. -/
theorem cellArrays_flatten (shapes : List (List ℕ)) (start : ℕ) :
    (cellArrays shapes start).1.flatMap (·.data.toList) =
      (List.range' start (totalCells shapes)).map (fun (n : ℕ) => (n : ℤ)) := by
  induction shapes generalizing start with
  | nil => simp [cellArrays, totalCells]
  | cons s ss ih =>
    simp only [cellArrays, List.flatMap_cons, arangeArr_data, ih, totalCells, List.map_cons,
      List.sum_cons]
    rw [← List.map_append]
    congr 1
    rw [List.range'_append_1]

/-- the entry of the array of patch `k` at the cell multi-index `idx`: offset of the patch plus
    the C-order rank of the cell. -/
theorem arangeArr_get (start : ℕ) {shape idx : List ℕ} (h : InRange idx shape) :
    (arangeArr start shape).get idx = ((start + ravel shape idx : ℕ) : ℤ) := by
  have hlt := ravel_lt h
  simp only [NdArr.get, arangeArr]
  rw [Array.getD_eq_getD_getElem?]
  simp [hlt]

end Splipy.MP.C18L
