import Splipy.Model.Numbering
import Splipy.Lemmas.C17Array
import Splipy.Lemmas.C17Equiv

/-!
# C18 — the numbering algorithm on plans: fresh numbers, transport of entries, frames
-/

set_option linter.unusedSectionVars false

namespace Splipy.MP.C18L

variable {α β : Type}

/-! ## arrays -/


theorem ndOfFn_shape (s : List ℕ) (g : List ℕ → α) : (NdArr.ofFn s g).shape = s := rfl

theorem ndOfFn_wf (s : List ℕ) (g : List ℕ → α) : (NdArr.ofFn s g).SizeOK := by
  simp [NdArr.SizeOK, NdArr.ofFn]

theorem ndOfFn_size (s : List ℕ) (g : List ℕ → α) : (NdArr.ofFn s g).data.size = shapeSize s := by
  simp [NdArr.ofFn]

theorem ndOfFn_getD [Inhabited α] (s : List ℕ) (g : List ℕ → α) {q : ℕ} (hq : q < shapeSize s) :
    (NdArr.ofFn s g).data.getD q default = g (unravel s q) := by
  simp [NdArr.ofFn, Array.getD, hq]

theorem ndMem_ofFn (s : List ℕ) (g : List ℕ → α) {x : α} (hx : x ∈ (NdArr.ofFn s g).data.toList) :
    ∃ i, x = g i := by
  simp only [NdArr.ofFn, Array.mem_toList_iff, Array.mem_ofFn] at hx
  obtain ⟨i, hi⟩ := hx
  exact ⟨_, hi.symm⟩

theorem ndGet_mem [Inhabited α] (a : NdArr α) (idx : List ℕ) :
    a.get idx = default ∨ a.get idx ∈ a.data.toList := by
  unfold NdArr.get
  by_cases h : ravel a.shape idx < a.data.size
  · right
    rw [Array.getD_eq_getD_getElem?, Array.getElem?_eq_getElem h]
    simp
  · left
    rw [Array.getD_eq_getD_getElem?, Array.getElem?_eq_none (by omega)]
    rfl

/-- for a well-formed array, the entry at the multi-index of the flat position `q` is `data[q]` -/
theorem ndGet_unravel [Inhabited α] (a : NdArr α) {q : ℕ} (hq : q < shapeSize a.shape) :
    a.get (unravel a.shape q) = a.data.getD q default := by
  unfold NdArr.get
  rw [ravel_unravel hq]

/-! ## entries moved by views -/

theorem apply_entries [Inhabited α] (r : Reindex) (a : NdArr α) {x : α}
    (hx : x ∈ (r.apply a).data.toList) : x = default ∨ x ∈ a.data.toList := by
  obtain ⟨i, rfl⟩ := ndMem_ofFn _ _ hx
  exact ndGet_mem a _

theorem resolveView_entries [Inhabited α] (A : Array (NdArr α)) (v : CpView) {x : α}
    (hx : x ∈ (resolveView A v).data.toList) : x = default ∨ x ∈ (A.getD v.top default).data.toList := by
  unfold resolveView at hx
  generalize A.getD v.top default = base at hx ⊢
  generalize v.path = path at hx
  induction path generalizing base with
  | nil => exact Or.inr hx
  | cons s ss ih =>
    rw [List.foldl_cons] at hx
    rcases ih _ hx with h | h
    · exact Or.inl h
    · exact apply_entries _ _ h

theorem setSect_entries [Inhabited α] (a vals : NdArr α) (sec : Sec) {x : α}
    (hx : x ∈ (a.setSect sec vals).data.toList) :
    x = default ∨ x ∈ vals.data.toList ∨ x ∈ a.data.toList := by
  obtain ⟨i, rfl⟩ := ndMem_ofFn _ _ hx
  split
  · rcases ndGet_mem vals (projectSection sec i) with h | h
    · exact Or.inl h
    · exact Or.inr (Or.inl h)
  · rcases ndGet_mem a i with h | h
    · exact Or.inl h
    · exact Or.inr (Or.inr h)

theorem getD_setIfInBounds (A : Array (NdArr α)) (k j : ℕ) (v : NdArr α) :
    (A.setIfInBounds k v).getD j default = if j = k ∧ k < A.size then v else A.getD j default := by
  simp only [Array.getD_eq_getD_getElem?, Array.getElem?_setIfInBounds]
  by_cases hjk : k = j
  · subst hjk
    by_cases hk : k < A.size
    · simp [hk]
    · simp [hk]
  · have : ¬ (j = k ∧ k < A.size) := fun h => hjk h.1.symm
    simp [hjk, this]

/-- all entries of all arrays -/
def AllEntries (A : Array (NdArr α)) (x : α) : Prop := ∃ j, x ∈ (A.getD j default).data.toList

/-- what `readFace` returns on success -/
theorem readFace_ok [Inhabited α] {k : ℕ} {A B : Array (NdArr α)} {f : FaceLink} (h : readFace k A f = .ok B) :
    (f.owned = true ∧ B = A) ∨
    (f.owned = false ∧ ∃ ori v, f.ori = .ok ori ∧ f.src = some v ∧
      (ori.mapArray (resolveView A v)).shape = sectionShape f.sec (A.getD k default).shape ∧
      B = A.setIfInBounds k ((A.getD k default).setSect f.sec (ori.mapArray (resolveView A v)))) := by
  unfold readFace at h
  split at h
  · rename_i ho
    left; exact ⟨ho, by cases h; rfl⟩
  · rename_i ho
    right
    refine ⟨by simpa using ho, ?_⟩
    split at h
    · cases h
    · rename_i ori hori
      split at h
      · cases h
      · rename_i v hv
        simp only at h
        split at h
        · cases h
        · rename_i hshape
          simp only [Except.ok.injEq] at h
          exact ⟨ori, v, hori, hv, by simpa using hshape, h.symm⟩

theorem readFace_size [Inhabited α] {k : ℕ} {A B : Array (NdArr α)} {f : FaceLink} (h : readFace k A f = .ok B) :
    B.size = A.size := by
  rcases readFace_ok h with ⟨_, rfl⟩ | ⟨_, ori, v, _, _, _, rfl⟩
  · rfl
  · simp

/-- `readFace` only moves entries around (or reads the default outside an array) -/
theorem readFace_entries [Inhabited α] {k : ℕ} {A B : Array (NdArr α)} {f : FaceLink} (h : readFace k A f = .ok B)
    {x : α} (hx : AllEntries B x) : x = default ∨ AllEntries A x := by
  rcases readFace_ok h with ⟨_, rfl⟩ | ⟨_, ori, v, _, _, _, rfl⟩
  · exact Or.inr hx
  · obtain ⟨j, hj⟩ := hx
    rw [getD_setIfInBounds] at hj
    split at hj
    · rcases setSect_entries _ _ _ hj with h1 | h1 | h1
      · exact Or.inl h1
      · rcases apply_entries _ _ h1 with h2 | h2
        · exact Or.inl h2
        · rcases resolveView_entries _ _ h2 with h3 | h3
          · exact Or.inl h3
          · exact Or.inr ⟨_, h3⟩
      · exact Or.inr ⟨_, h1⟩
    · exact Or.inr ⟨j, hj⟩

theorem foldlM_entries [Inhabited α] {γ : Type} (step : Array (NdArr α) → γ → Except NErr (Array (NdArr α)))
    (hstep : ∀ A B c, step A c = .ok B → ∀ x, AllEntries B x → x = default ∨ AllEntries A x) :
    ∀ (l : List γ) (A B : Array (NdArr α)), l.foldlM step A = .ok B →
      ∀ x, AllEntries B x → x = default ∨ AllEntries A x
  | [], A, B, h, x, hx => by
    simp only [List.foldlM_nil, pure, Except.pure, Except.ok.injEq] at h
    subst h; exact Or.inr hx
  | c :: l, A, B, h, x, hx => by
    rw [List.foldlM_cons] at h
    simp only [bind, Except.bind] at h
    split at h
    · cases h
    · rename_i A' hA'
      rcases foldlM_entries step hstep l A' B h x hx with h1 | h1
      · exact Or.inl h1
      · exact hstep A A' c hA' x h1

theorem readOneG_entries [Inhabited α] {k : ℕ} {p : PatchPlan} {A B : Array (NdArr α)} (h : readOneG k p A = .ok B)
    {x : α} (hx : AllEntries B x) : x = default ∨ AllEntries A x :=
  foldlM_entries (readFace k) (fun _ _ _ h _ hx => readFace_entries h hx) p.faces A B h x hx

theorem readAllG_entries [Inhabited α] {plans : List PatchPlan} {A B : Array (NdArr α)} (h : readAllG plans A = .ok B)
    {x : α} (hx : AllEntries B x) : x = default ∨ AllEntries A x :=
  foldlM_entries (fun arrs (pk : PatchPlan × ℕ) => readOneG pk.2 pk.1 arrs)
    (fun _ _ _ h _ hx => readOneG_entries h hx) plans.zipIdx A B h x hx

/-! ## naturality: the read phase commutes with mapping the entries -/

section Naturality
variable [Inhabited α] [Inhabited β] (f : α → β) (hf : f default = default)
include hf

theorem ndGet_map (a : NdArr α) (idx : List ℕ) : (a.map f).get idx = f (a.get idx) := by
  unfold NdArr.get NdArr.map
  simp only [Array.getD_eq_getD_getElem?, Array.getElem?_map]
  cases a.data[ravel a.shape idx]? with
  | none => simpa using hf.symm
  | some v => rfl

omit hf [Inhabited α] [Inhabited β] in
theorem ndOfFn_map (s : List ℕ) (g : List ℕ → α) : (NdArr.ofFn s g).map f = NdArr.ofFn s (fun i => f (g i)) := by
  simp only [NdArr.ofFn, NdArr.map, Array.map_ofFn]
  rfl

theorem apply_map (r : Reindex) (a : NdArr α) : r.apply (a.map f) = (r.apply a).map f := by
  unfold Reindex.apply
  rw [ndOfFn_map]
  have hs : (a.map f).shape = a.shape := rfl
  rw [hs]
  congr 1
  funext i
  exact ndGet_map f hf a _

omit hf [Inhabited α] in
theorem default_map : (default : NdArr α).map f = (default : NdArr β) := by
  show NdArr.mk _ (Array.map f #[]) = NdArr.mk _ #[]
  simp
  rfl

theorem getD_map_arrays (A : Array (NdArr α)) (j : ℕ) :
    (A.map (NdArr.map f)).getD j default = (A.getD j default).map f := by
  simp only [Array.getD_eq_getD_getElem?, Array.getElem?_map]
  cases A[j]? with
  | none => exact (default_map f).symm
  | some v => rfl

theorem resolveView_map (A : Array (NdArr α)) (v : CpView) :
    resolveView (A.map (NdArr.map f)) v = (resolveView A v).map f := by
  unfold resolveView
  rw [getD_map_arrays f hf]
  generalize A.getD v.top default = base
  generalize v.path = path
  induction path generalizing base with
  | nil => rfl
  | cons s ss ih =>
    simp only [List.foldl_cons]
    have : (base.map f).sect s = (base.sect s).map f := apply_map f hf _ _
    rw [this, ih]

theorem setSect_map (a vals : NdArr α) (sec : Sec) :
    (a.map f).setSect sec (vals.map f) = (a.setSect sec vals).map f := by
  unfold NdArr.setSect
  rw [ndOfFn_map]
  have hs : (a.map f).shape = a.shape := rfl
  rw [hs]
  congr 1
  funext i
  split
  · exact ndGet_map f hf _ _
  · exact ndGet_map f hf _ _

theorem readFace_map (k : ℕ) (A : Array (NdArr α)) (fl : FaceLink) :
    readFace k (A.map (NdArr.map f)) fl = (readFace k A fl).map (fun B => B.map (NdArr.map f)) := by
  unfold readFace
  split
  · rfl
  · split
    · rfl
    · split
      · rfl
      · rename_i ori _ _ v _
        simp only
        rw [resolveView_map f hf, getD_map_arrays f hf]
        have h1 : (ori.mapArray ((resolveView A v).map f)) = (ori.mapArray (resolveView A v)).map f :=
          apply_map f hf _ _
        rw [h1]
        have h2 : ((ori.mapArray (resolveView A v)).map f).shape = (ori.mapArray (resolveView A v)).shape := rfl
        have h3 : ((A.getD k default).map f).shape = (A.getD k default).shape := rfl
        rw [h2, h3]
        split
        · rfl
        · simp only [Except.map]
          congr 1
          rw [setSect_map f hf]
          simp [Array.map_setIfInBounds]

omit hf [Inhabited α] [Inhabited β] in
theorem foldlM_map {γ σ τ : Type} (φ : σ → τ) (step : σ → γ → Except NErr σ) (step' : τ → γ → Except NErr τ)
    (hstep : ∀ A c, step' (φ A) c = (step A c).map φ) :
    ∀ (l : List γ) (A : σ), l.foldlM step' (φ A) = (l.foldlM step A).map φ
  | [], A => rfl
  | c :: l, A => by
    rw [List.foldlM_cons, List.foldlM_cons, hstep]
    cases h : step A c with
    | error e => rfl
    | ok A' =>
      simp only [Except.map, bind, Except.bind]
      exact foldlM_map φ step step' hstep l A'

theorem readOneG_map (k : ℕ) (p : PatchPlan) (A : Array (NdArr α)) :
    readOneG k p (A.map (NdArr.map f)) = (readOneG k p A).map (fun B => B.map (NdArr.map f)) :=
  foldlM_map _ (readFace k) (readFace k) (fun A c => readFace_map f hf k A c) p.faces A

theorem readAllG_map (plans : List PatchPlan) (A : Array (NdArr α)) :
    readAllG plans (A.map (NdArr.map f)) = (readAllG plans A).map (fun B => B.map (NdArr.map f)) :=
  foldlM_map _ _ _ (fun A (c : PatchPlan × ℕ) => readOneG_map f hf c.2 c.1 A) plans.zipIdx A

end Naturality

/-! ## fresh numbers of the first loop -/

theorem fillFresh_length : ∀ (l : List ℤ) (c : ℕ), (fillFresh l c).length = l.length
  | [], _ => rfl
  | x :: xs, c => by
    simp only [fillFresh]
    split <;> simp [fillFresh_length xs]

theorem fillFresh_filter : ∀ (l : List ℤ) (c : ℕ),
    (fillFresh l c).filter (· ≠ -1) = (List.range' c (countOwned l)).map (fun (n : ℕ) => (n : ℤ))
  | [], _ => rfl
  | x :: xs, c => by
    simp only [fillFresh, countOwned]
    split
    · rename_i hx
      subst hx
      have ih := fillFresh_filter xs c
      simp only [countOwned] at ih
      simpa using ih
    · rename_i hx
      have ih := fillFresh_filter xs (c + 1)
      simp only [countOwned] at ih
      have hc : ((c : ℕ) : ℤ) ≠ -1 := by omega
      simp only [List.filter_cons, hc, hx, ne_eq, not_false_eq_true, decide_true, if_true, List.length_cons, List.range'_succ, List.map_cons]
      congr 1

/-- flagged positions stay `-1`, the others get a number `≥ c` -/
theorem fillFresh_getElem? : ∀ (l : List ℤ) (c q : ℕ),
    ((fillFresh l c)[q]? = some (-1) ↔ l[q]? = some (-1))
  | [], _, _ => by simp [fillFresh]
  | x :: xs, c, 0 => by
    simp only [fillFresh]
    split
    · rename_i hx; simp [hx]
    · rename_i hx
      have hc : ((c : ℕ) : ℤ) ≠ -1 := by omega
      simp [hx, hc]
  | x :: xs, c, q + 1 => by
    simp only [fillFresh]
    split
    · simpa using fillFresh_getElem? xs c q
    · simpa using fillFresh_getElem? xs (c + 1) q

/-- all numbers of a list of arrays, array by array -/
def allData (arrs : List (NdArr α)) : List α := arrs.flatMap (·.data.toList)

theorem genOne_data (start : ℕ) (p : PatchPlan) :
    (genOne start p).1.data.toList = fillFresh (flagArray p).data.toList start ∧
    (genOne start p).2 = start + countOwned (flagArray p).data.toList ∧
    (genOne start p).1.shape = (flagArray p).shape := by
  simp [genOne]

theorem generateAll_fresh : ∀ (plans : List PatchPlan) (s : ℕ),
    s ≤ (generateAll plans s).2 ∧
    (allData (generateAll plans s).1).filter (· ≠ -1) =
      (List.range' s ((generateAll plans s).2 - s)).map (fun (n : ℕ) => (n : ℤ))
  | [], s => by simp [generateAll, allData]
  | p :: ps, s => by
    obtain ⟨h1, h2, _⟩ := genOne_data s p
    obtain ⟨ih1, ih2⟩ := generateAll_fresh ps (genOne s p).2
    simp only [generateAll, allData, List.flatMap_cons, List.filter_append] at ih2 ⊢
    refine ⟨by omega, ?_⟩
    rw [ih2, h1, fillFresh_filter, ← List.map_append]
    congr 1
    rw [h2] at ih1 ⊢
    have : (generateAll ps (s + countOwned (flagArray p).data.toList)).2 - s =
        countOwned (flagArray p).data.toList +
          ((generateAll ps (s + countOwned (flagArray p).data.toList)).2 - (s + countOwned (flagArray p).data.toList)) := by
      omega
    rw [this, List.range'_append_1]

theorem generateAll_length : ∀ (plans : List PatchPlan) (s : ℕ), (generateAll plans s).1.length = plans.length
  | [], _ => rfl
  | p :: ps, s => by simp [generateAll, generateAll_length ps]

/-! ## the assertions only filter -/

theorem readOne_ok {k : ℕ} {p : PatchPlan} {A B : Array (NdArr ℤ)} (h : readOne k p A = .ok B) :
    readOneG k p A = .ok B ∧ ∀ x ∈ (B.getD k default).data.toList, x ≠ -1 := by
  unfold readOne at h
  split at h
  · cases h
  · rename_i B' hB'
    split at h
    · cases h
    · rename_i hany
      simp only [Except.ok.injEq] at h
      subst h
      refine ⟨hB', ?_⟩
      intro x hx hx1
      apply hany
      rw [Array.any_eq_true']
      exact ⟨x, by simpa using hx, by simp [hx1]⟩

theorem readAll_ok : ∀ (l : List (PatchPlan × ℕ)) (A B : Array (NdArr ℤ)),
    l.foldlM (fun arrs (pk : PatchPlan × ℕ) => readOne pk.2 pk.1 arrs) A = .ok B →
    l.foldlM (fun arrs (pk : PatchPlan × ℕ) => readOneG pk.2 pk.1 arrs) A = .ok B
  | [], A, B, h => h
  | c :: l, A, B, h => by
    rw [List.foldlM_cons] at h ⊢
    simp only [bind, Except.bind] at h ⊢
    split at h
    · cases h
    · rename_i A' hA'
      rw [(readOne_ok hA').1]
      exact readAll_ok l A' B h

end Splipy.MP.C18L
