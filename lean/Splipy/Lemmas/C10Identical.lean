import Splipy.Model.History
import Splipy.Lemmas.C10Affine
import Splipy.Lemmas.C10PerOps
import Splipy.Lemmas.C10Raise
import Splipy.Lemmas.C10PerInsert
import Splipy.Lemmas.C10Reparam
import Splipy.Lemmas.C12Stages

/-!
# C10 — `SplineObject.make_splines_identical(a, b, direction)` keeps BOTH objects well formed

`Obj.makeIdentical` (`Model/Identical.lean`) is a pure composition:
`make_splines_compatible` (`force_rational`, `set_dimension`), then per direction
`reparam(direction=i)` → `lower_periodic` → `raise_order(p - p_j, direction=i)` → two passes of
`insert_knot`.  Every called operation has its own preservation lemma; this file composes them.

* `Obj.makeCompatible_wf` — no guard;
* `Obj.stageReparam_wf`, `Obj.stagePeriodic_wf`, `Obj.stageOrder_wf`, `Obj.stageMerge_wf` — each under the
  guard of the operation it calls, stated on the input pair of the stage;
* `Obj.identicalDir_wf`, `Obj.makeIdenticalDir_wf`, `Obj.identicalLoop_wf` — the compositions;
* `Obj.IdenticalGuard`, `Obj.makeIdentical_wf_partial` — the guard quantifies over the intermediate
  states (it mirrors the recursion of `identicalDir` / `identicalLoop`);
* `History.exec_identical_wf` — the pool instruction;
* §5: the same without the periodic guards (`lower_periodic` and periodic `insert_knot` need none):
  `stagePeriodic_wf_all`, `MergeGuardAll`, `stageMerge_wf_all`, `IdenticalGuardAll`,
  `makeIdentical_wf_all_partial`, `History.exec_identical_wf_all`, `IdenticalGuard.all` (old ⇒ new).
-/

set_option linter.unusedSectionVars false
set_option linter.unusedSimpArgs false

namespace Splipy

variable {K : Type} [Field K] [LinearOrder K] [IsStrictOrderedRing K] [FloorRing K]

namespace Obj

/-! ## 1. `make_splines_compatible` -/

theorem WellFormed.forceRational {o : Obj K} (h : o.WellFormed) : o.forceRational.WellFormed :=
  AffOp.inplace_wf h .forceRational trivial rfl

theorem WellFormed.setDimensionTo {o : Obj K} (h : o.WellFormed) (n : ℕ) (hn : 0 < n) :
    (o.setDimensionTo n).WellFormed := by
  unfold Obj.setDimensionTo
  split_ifs
  · exact h
  · exact AffOp.inplace_wf h (.setDimension n) hn rfl

/-- **`make_splines_compatible` keeps both objects well formed** (no guard) and does not touch the
    bases. -/
theorem makeCompatible_wf {s1 s2 : Obj K} (h1 : s1.WellFormed) (h2 : s2.WellFormed) :
    (makeCompatible s1 s2).1.WellFormed ∧ (makeCompatible s1 s2).2.WellFormed ∧
      (makeCompatible s1 s2).1.bases = s1.bases ∧ (makeCompatible s1 s2).2.bases = s2.bases := by
  refine ⟨?_, ?_, (C12.makeCompatible_bases s1 s2).1, (C12.makeCompatible_bases s1 s2).2⟩
  all_goals
    set p : Obj K × Obj K :=
      if s1.rational then (s1, s2.forceRational)
      else if s2.rational then (s1.forceRational, s2) else (s1, s2) with hp
    have hP : p.1.WellFormed ∧ p.2.WellFormed := by
      by_cases hr1 : s1.rational = true
      · have : p = (s1, s2.forceRational) := by rw [hp, if_pos hr1]
        rw [this]; exact ⟨h1, h2.forceRational⟩
      · by_cases hr2 : s2.rational = true
        · have : p = (s1.forceRational, s2) := by rw [hp, if_neg hr1, if_pos hr2]
          rw [this]; exact ⟨h1.forceRational, h2⟩
        · have : p = (s1, s2) := by rw [hp, if_neg hr1, if_neg hr2]
          rw [this]; exact ⟨h1, h2⟩
    have hmc : makeCompatible s1 s2 =
        if p.1.dimension > p.2.dimension then (p.1, p.2.setDimensionTo p.1.dimension)
        else (p.1.setDimensionTo p.2.dimension, p.2) := rfl
    rw [hmc]
    by_cases hgt : p.1.dimension > p.2.dimension
    · rw [if_pos hgt]
      first
        | exact hP.1
        | exact hP.2.setDimensionTo _ hP.1.dim_pos
    · rw [if_neg hgt]
      first
        | exact hP.2
        | exact hP.1.setDimensionTo _ hP.2.dim_pos

theorem makeCompatible_size (s1 s2 : Obj K) :
    (makeCompatible s1 s2).1.bases.size = s1.bases.size ∧ (makeCompatible s1 s2).2.bases.size = s2.bases.size := by
  rw [(C12.makeCompatible_bases s1 s2).1, (C12.makeCompatible_bases s1 s2).2]
  exact ⟨rfl, rfl⟩

/-! ## 2. The four stages -/

/-- `reparam(direction=d)` to an interval `s < e`. -/
theorem WellFormed.reparamDir {o o' : Obj K} (h : o.WellFormed) (d : ℕ) (hd : d < o.bases.size) {s e : K}
    (hse : s < e) (hs : o.reparamDir d s e = .ok o') : o'.WellFormed ∧ o'.bases.size = o.bases.size := by
  rw [C06.reparamDir_ok o d hse] at hs
  have : C06.reparamObj o d s e = o' := Except.ok.inj hs
  rw [← this]
  unfold C06.reparamObj
  exact ⟨h.set_basis d _ (C06.reparamOk_valid (h.valid d hd) hse)
    (fun _ => C06.reparamOk_numFunctions _ s e), by simp⟩

/-- **Stage 1** (`reparam(direction=i)` on both): no guard; the direction exists in both objects. -/
theorem stageReparam_wf {s a : Obj K × Obj K} {i : ℕ} (h1 : s.1.WellFormed) (h2 : s.2.WellFormed)
    (hs : stageReparam s i = .ok a) :
    a.1.WellFormed ∧ a.2.WellFormed ∧ a.1.bases.size = s.1.bases.size ∧ a.2.bases.size = s.2.bases.size
      ∧ i < s.1.bases.size ∧ i < s.2.bases.size := by
  obtain ⟨hi1, hi2, e1, e2⟩ := C12.stageReparam_ok hs
  obtain ⟨w1, z1⟩ := h1.reparamDir i hi1 zero_lt_one e1
  obtain ⟨w2, z2⟩ := h2.reparamDir i hi2 zero_lt_one e2
  exact ⟨w1, w2, z1, z2, hi1, hi2⟩

/-- Guard of `lower_periodic` along direction `i` (`Obj.WellFormed.lowerPeriodic`): `n ≥ p + k` and a
    seam knot with its declared multiplicity. -/
def LowerOK (o : Obj K) (i : ℕ) : Prop :=
  (o.basis i).order + (o.basis i).periodic.toNat ≤ (o.basis i).numFunctions ∧
    (o.basis i).start < (o.basis i).kn (o.basis i).order

/-- Guard of stage 2: the object whose periodicity is lowered (if any) satisfies `LowerOK`. -/
def PerGuard (a : Obj K × Obj K) (i : ℕ) : Prop :=
  ((a.1.basis i).periodic < (a.2.basis i).periodic → LowerOK a.2 i) ∧
  ((a.2.basis i).periodic < (a.1.basis i).periodic → LowerOK a.1 i)

theorem WellFormed.lowerPeriodic_to {o o' : Obj K} (h : o.WellFormed) (i : ℕ) (hi : i < o.bases.size)
    (t : Int) (ht : -1 ≤ t) (hlt : t < (o.basis i).periodic) (hg : LowerOK o i)
    (hs : o.lowerPeriodic t i = .ok o') : o'.WellFormed ∧ o'.bases.size = o.bases.size := by
  obtain ⟨hg1, hg2⟩ := hg
  have hk : (o.basis i).periodic = (((o.basis i).periodic.toNat : ℕ) : Int) := by omega
  obtain ⟨w, z, _⟩ := h.lowerPeriodic i hi (o.basis i).periodic.toNat hk hg1 hg2 t ht (by omega) hs
  exact ⟨w, z⟩

/-- **Stage 2** (`lower_periodic` of the object with the higher periodicity). -/
theorem stagePeriodic_wf {a b : Obj K × Obj K} {i : ℕ} (h1 : a.1.WellFormed) (h2 : a.2.WellFormed)
    (hi1 : i < a.1.bases.size) (hi2 : i < a.2.bases.size) (hg : PerGuard a i)
    (hs : stagePeriodic a i = .ok b) :
    b.1.WellFormed ∧ b.2.WellFormed ∧ b.1.bases.size = a.1.bases.size ∧ b.2.bases.size = a.2.bases.size := by
  rcases C12.stagePeriodic_ok hs with ⟨_, e⟩ | ⟨hlt, e1, e2⟩ | ⟨hlt, e1, e2⟩
  · rw [e]; exact ⟨h1, h2, rfl, rfl⟩
  · obtain ⟨w, z⟩ := h2.lowerPeriodic_to i hi2 _ (h1.valid i hi1).periodic_ge hlt (hg.1 hlt) e2
    rw [e1]; exact ⟨h1, w, rfl, z⟩
  · obtain ⟨w, z⟩ := h1.lowerPeriodic_to i hi1 _ (h2.valid i hi2).periodic_ge hlt (hg.2 hlt) e2
    rw [e1]; exact ⟨w, h2, z, rfl⟩

/-- Guard of stage 3: `History.RaiseGuard` of both `raise_order(p - p_j, direction=i)` calls. -/
def OrderGuard (tol : K) (b : Obj K × Obj K) (i : ℕ) : Prop :=
  History.RaiseGuard tol b.1
      [((max (b.1.basis i).order (b.2.basis i).order : ℕ) : Int) - (b.1.basis i).order] (some (i : Int)) ∧
  History.RaiseGuard tol b.2
      [((max (b.1.basis i).order (b.2.basis i).order : ℕ) : Int) - (b.2.basis i).order] (some (i : Int))

/-- `raise_order(a, direction=i)` as dispatched on the class of the receiver. -/
theorem WellFormed.raiseOrderDispatch {o o' : Obj K} (h : o.WellFormed) (tol : K) (htol : 0 < tol)
    (a : Int) (i : ℕ) (hi : i < o.bases.size) (hg : History.RaiseGuard tol o [a] (some (i : Int)))
    {r : Ret} (hs : o.raiseOrderDispatch tol (o.bases.size == 1) [a] (some (i : Int)) = .ok (r, o')) :
    o'.WellFormed ∧ o'.bases.size = o.bases.size := by
  have hstep : History.stepOut tol o (.raiseOrder [a] (some (i : Int))) = .ok { recv := o', news := [] } := by
    simp only [History.stepOut, hs]
    rfl
  have hw := (History.stepOut_raiseOrder_wf_partial h tol htol [a] (some (i : Int)) hg hstep).1
  have hother := C12.raiseOrderDispatch_other (tol := tol) (isCurve := (o.bases.size == 1)) (o := o) (o' := o')
    (a := a) (i := i) (r := r)
    (fun hb => by
      have : o.bases.size = 1 := by simpa using hb
      exact ⟨this, by omega⟩)
    (fun _ => h.bases_size) hs
  exact ⟨hw, hother.size⟩

/-- **Stage 3** (`raise_order(p - p_j, direction=i)` on both; `curve_j` = "object `j` is a `Curve`"). -/
theorem stageOrder_wf {tol : K} (htol : 0 < tol) {c1 c2 : Bool} {b c : Obj K × Obj K} {i : ℕ}
    (h1 : b.1.WellFormed) (h2 : b.2.WellFormed) (hi1 : i < b.1.bases.size) (hi2 : i < b.2.bases.size)
    (hc1 : c1 = (b.1.bases.size == 1)) (hc2 : c2 = (b.2.bases.size == 1)) (hg : OrderGuard tol b i)
    (hs : stageOrder tol c1 c2 b i = .ok c) :
    c.1.WellFormed ∧ c.2.WellFormed ∧ c.1.bases.size = b.1.bases.size ∧ c.2.bases.size = b.2.bases.size := by
  obtain ⟨r1, r2, e1, e2⟩ := C12.stageOrder_ok hs
  rw [hc1] at e1
  rw [hc2] at e2
  obtain ⟨w1, z1⟩ := h1.raiseOrderDispatch tol htol _ i hi1 hg.1 e1
  obtain ⟨w2, z2⟩ := h2.raiseOrderDispatch tol htol _ i hi2 hg.2 e2
  exact ⟨w1, w2, z1, z2⟩

/-- Guard of stage 4: the values of the first pass may be inserted into object 2 and — for every
    outcome `s2'` of that insertion — the values of the second pass into object 1 (`Obj.KnotsOK`). -/
def MergeGuard (tol : K) (p : ℕ) (c : Obj K × Obj K) (i : ℕ) : Prop :=
  ∀ ins2, firstInserts tol p c i = .ok ins2 →
    KnotsOK (c.2.basis i) ins2 ∧
    ∀ s2', c.2.insertKnots ins2 i = .ok s2' → ∀ ins1, secondInserts tol p c s2' i = .ok ins1 →
      KnotsOK (c.1.basis i) ins1

/-- **Stage 4** (the two mutual `insert_knot` passes). -/
theorem stageMerge_wf {tol : K} {p : ℕ} {c r : Obj K × Obj K} {i : ℕ}
    (h1 : c.1.WellFormed) (h2 : c.2.WellFormed) (hi1 : i < c.1.bases.size) (hi2 : i < c.2.bases.size)
    (hg : MergeGuard tol p c i) (hs : stageMerge tol p c i = .ok r) :
    r.1.WellFormed ∧ r.2.WellFormed ∧ r.1.bases.size = c.1.bases.size ∧ r.2.bases.size = c.2.bases.size := by
  obtain ⟨ins2, ins1, e1, e2, e3, e4⟩ := C12.stageMerge_ok hs
  obtain ⟨k2, hrest⟩ := hg ins2 e1
  have k1 := hrest r.2 e2 ins1 e3
  obtain ⟨w2, z2, _⟩ := h2.insertKnots_any i hi2 ins2 k2 e2
  obtain ⟨w1, z1, _⟩ := h1.insertKnots_any i hi1 ins1 k1 e4
  exact ⟨w1, w2, z1, z2⟩

/-! ## 3. One direction, the loop, the whole call -/

/-- Guard of the body of `make_splines_identical` for one checked direction `i` (input: the pair
    after `make_splines_compatible`): the guard of each stage on the state that stage receives. -/
def DirGuard (tol : K) (c1 c2 : Bool) (s : Obj K × Obj K) (i : ℕ) : Prop :=
  ∀ a, stageReparam s i = .ok a →
    PerGuard a i ∧
    ∀ b, stagePeriodic a i = .ok b →
      OrderGuard tol b i ∧
      ∀ c, stageOrder tol c1 c2 b i = .ok c →
        MergeGuard tol (max (b.1.basis i).order (b.2.basis i).order) c i

theorem identicalDir_wf {tol : K} (htol : 0 < tol) {c1 c2 : Bool} {s r : Obj K × Obj K} {i : ℕ}
    (h1 : s.1.WellFormed) (h2 : s.2.WellFormed)
    (hc1 : c1 = (s.1.bases.size == 1)) (hc2 : c2 = (s.2.bases.size == 1)) (hg : DirGuard tol c1 c2 s i)
    (hs : identicalDir tol c1 c2 s i = .ok r) :
    r.1.WellFormed ∧ r.2.WellFormed ∧ r.1.bases.size = s.1.bases.size ∧ r.2.bases.size = s.2.bases.size := by
  obtain ⟨a, b, c, ea, eb, ec, er⟩ := C12.identicalDir_ok hs
  obtain ⟨gP, hg⟩ := hg a ea
  obtain ⟨gO, hg⟩ := hg b eb
  have gM := hg c ec
  obtain ⟨wa1, wa2, za1, za2, hi1, hi2⟩ := stageReparam_wf h1 h2 ea
  obtain ⟨wb1, wb2, zb1, zb2⟩ := stagePeriodic_wf wa1 wa2 (by omega) (by omega) gP eb
  obtain ⟨wc1, wc2, zc1, zc2⟩ := stageOrder_wf htol wb1 wb2 (by omega) (by omega)
    (by rw [hc1, zb1, za1]) (by rw [hc2, zb2, za2]) gO ec
  obtain ⟨wr1, wr2, zr1, zr2⟩ := stageMerge_wf wc1 wc2 (by omega) (by omega) gM er
  exact ⟨wr1, wr2, by omega, by omega⟩

/-- Guard of `make_splines_identical(a, b, direction=d)` with a direction given. -/
def DirTokGuard (tol : K) (c1 c2 : Bool) (s : Obj K × Obj K) (d : DirTok) : Prop :=
  ∀ i, Splipy.checkDirection d (makeCompatible s.1 s.2).1.pardimB = .ok i →
    DirGuard tol c1 c2 (makeCompatible s.1 s.2) i

theorem makeIdenticalDir_wf {tol : K} (htol : 0 < tol) {c1 c2 : Bool} {s r : Obj K × Obj K} {d : DirTok}
    (h1 : s.1.WellFormed) (h2 : s.2.WellFormed)
    (hc1 : c1 = (s.1.bases.size == 1)) (hc2 : c2 = (s.2.bases.size == 1)) (hg : DirTokGuard tol c1 c2 s d)
    (hs : makeIdenticalDir tol c1 c2 s d = .ok r) :
    r.1.WellFormed ∧ r.2.WellFormed ∧ r.1.bases.size = s.1.bases.size ∧ r.2.bases.size = s.2.bases.size := by
  obtain ⟨w1, w2, _, _⟩ := makeCompatible_wf h1 h2
  obtain ⟨z1, z2⟩ := makeCompatible_size s.1 s.2
  unfold makeIdenticalDir at hs
  simp only [] at hs
  cases hd : Splipy.checkDirection d (makeCompatible s.1 s.2).1.pardimB with
  | error e => rw [hd] at hs; cases hs
  | ok i =>
    rw [hd] at hs
    obtain ⟨wr1, wr2, zr1, zr2⟩ := identicalDir_wf htol w1 w2 (by rw [hc1, z1]) (by rw [hc2, z2]) (hg i hd) hs
    exact ⟨wr1, wr2, by omega, by omega⟩

/-- Guard of the loop over all directions: mirrors the recursion of `identicalLoop`. -/
def LoopGuard (tol : K) (c1 c2 : Bool) : List ℕ → Obj K × Obj K → Prop
  | [], _ => True
  | i :: is, s =>
    DirTokGuard tol c1 c2 s (.int i) ∧
    ∀ s', makeIdenticalDir tol c1 c2 s (.int i) = .ok s' → LoopGuard tol c1 c2 is s'

theorem identicalLoop_wf {tol : K} (htol : 0 < tol) {c1 c2 : Bool} (is : List ℕ) :
    ∀ {s r : Obj K × Obj K}, s.1.WellFormed → s.2.WellFormed →
      c1 = (s.1.bases.size == 1) → c2 = (s.2.bases.size == 1) → LoopGuard tol c1 c2 is s →
      identicalLoop tol c1 c2 is s = .ok r →
      r.1.WellFormed ∧ r.2.WellFormed ∧ r.1.bases.size = s.1.bases.size ∧ r.2.bases.size = s.2.bases.size := by
  induction is with
  | nil =>
    intro s r h1 h2 _ _ _ hs
    unfold identicalLoop at hs
    have : s = r := Except.ok.inj hs
    rw [← this]; exact ⟨h1, h2, rfl, rfl⟩
  | cons i is ih =>
    intro s r h1 h2 hc1 hc2 hg hs
    unfold identicalLoop at hs
    obtain ⟨g1, g2⟩ := hg
    cases hm : makeIdenticalDir tol c1 c2 s (.int i) with
    | error e => rw [hm] at hs; cases hs
    | ok s' =>
      rw [hm] at hs
      obtain ⟨w1, w2, z1, z2⟩ := makeIdenticalDir_wf htol h1 h2 hc1 hc2 g1 hm
      obtain ⟨wr1, wr2, zr1, zr2⟩ := ih w1 w2 (by rw [hc1, z1]) (by rw [hc2, z2]) (g2 s' hm) hs
      exact ⟨wr1, wr2, by omega, by omega⟩

/-- **Guard of `make_splines_identical(s1, s2, direction)`** (`curve_j` = `s_j` has one basis).  It
    quantifies over the intermediate states: for a given direction, `DirTokGuard` (the guards of
    `lower_periodic`, `raise_order`, `insert_knot` on the states these calls receive); for
    `direction=None`, `LoopGuard` nests this along the loop over all directions. -/
def IdenticalGuard (tol : K) (s1 s2 : Obj K) (direction : Option DirTok) : Prop :=
  match direction with
  | some d => DirTokGuard tol (s1.bases.size == 1) (s2.bases.size == 1) (s1, s2) d
  | none =>
    LoopGuard tol (s1.bases.size == 1) (s2.bases.size == 1)
      (List.range (makeCompatible s1 s2).1.pardimB) (makeCompatible s1 s2)

/-- **`make_splines_identical` keeps both objects well formed** (and their numbers of bases), under
    the guards of the operations it calls. -/
theorem makeIdentical_wf_partial {s1 s2 r1 r2 : Obj K} (h1 : s1.WellFormed) (h2 : s2.WellFormed) (tol : K)
    (htol : 0 < tol) (direction : Option DirTok) (hg : IdenticalGuard tol s1 s2 direction)
    (hs : Obj.makeIdentical tol (s1.bases.size == 1) (s2.bases.size == 1) s1 s2 direction = .ok (r1, r2)) :
    r1.WellFormed ∧ r2.WellFormed ∧ r1.bases.size = s1.bases.size ∧ r2.bases.size = s2.bases.size := by
  cases direction with
  | some d =>
    exact makeIdenticalDir_wf (s := (s1, s2)) (r := (r1, r2)) htol h1 h2 rfl rfl hg hs
  | none =>
    obtain ⟨w1, w2, _, _⟩ := makeCompatible_wf h1 h2
    obtain ⟨z1, z2⟩ := makeCompatible_size s1 s2
    obtain ⟨wr1, wr2, zr1, zr2⟩ := identicalLoop_wf (r := (r1, r2)) htol _ w1 w2 (by rw [z1]) (by rw [z2]) hg hs
    exact ⟨wr1, wr2, zr1.trans z1, zr2.trans z2⟩

/-! ## 5. The same without the periodic guards

`lower_periodic` (`WellFormed.lowerPeriodic_any`) and `insert_knot` along a periodic direction
(`WellFormed.insertKnots_all`) need no hypothesis any more: what remains is `OrderGuard` (the two
`RaiseGuard`s) and, along a NON-periodic direction, that the merged values lie in `[start, end)`
(`OpenKnotsOK`). -/

/-- Every successful `lower_periodic` keeps the object well formed and its number of bases. -/
theorem WellFormed.lowerPeriodic_size {o o' : Obj K} (h : o.WellFormed) (i : ℕ) (hi : i < o.bases.size)
    (t : Int) (hs : o.lowerPeriodic t i = .ok o') : o'.WellFormed ∧ o'.bases.size = o.bases.size :=
  ⟨h.lowerPeriodic_any i hi t hs, (C12.lowerPeriodic_onlyDir hs).size⟩

/-- **Stage 2, no guard.** -/
theorem stagePeriodic_wf_all {a b : Obj K × Obj K} {i : ℕ} (h1 : a.1.WellFormed) (h2 : a.2.WellFormed)
    (hi1 : i < a.1.bases.size) (hi2 : i < a.2.bases.size) (hs : stagePeriodic a i = .ok b) :
    b.1.WellFormed ∧ b.2.WellFormed ∧ b.1.bases.size = a.1.bases.size ∧ b.2.bases.size = a.2.bases.size := by
  rcases C12.stagePeriodic_ok hs with ⟨_, e⟩ | ⟨_, e1, e2⟩ | ⟨_, e1, e2⟩
  · rw [e]; exact ⟨h1, h2, rfl, rfl⟩
  · obtain ⟨w, z⟩ := h2.lowerPeriodic_size i hi2 _ e2
    rw [e1]; exact ⟨h1, w, rfl, z⟩
  · obtain ⟨w, z⟩ := h1.lowerPeriodic_size i hi1 _ e2
    rw [e1]; exact ⟨w, h2, z, rfl⟩

/-- The old condition on inserted values implies the new one. -/
theorem KnotsOK.openKnotsOK {b : Basis K} {xs : List K} (h : KnotsOK b xs) : OpenKnotsOK b xs := by
  intro hper
  rcases h with ⟨_, hxs⟩ | ⟨k, hk, _, _⟩
  · exact hxs
  · exfalso; rw [hper] at hk; omega

/-- Guard of stage 4 without periodic conditions: along a non-periodic direction the values of the
    first pass lie in `[start, end)` of object 2 and — for every outcome `s2'` of that insertion — the
    values of the second pass in `[start, end)` of object 1 (`Obj.OpenKnotsOK`; nothing is asked along a
    periodic direction). -/
def MergeGuardAll (tol : K) (p : ℕ) (c : Obj K × Obj K) (i : ℕ) : Prop :=
  ∀ ins2, firstInserts tol p c i = .ok ins2 →
    OpenKnotsOK (c.2.basis i) ins2 ∧
    ∀ s2', c.2.insertKnots ins2 i = .ok s2' → ∀ ins1, secondInserts tol p c s2' i = .ok ins1 →
      OpenKnotsOK (c.1.basis i) ins1

theorem MergeGuard.all {tol : K} {p : ℕ} {c : Obj K × Obj K} {i : ℕ} (h : MergeGuard tol p c i) :
    MergeGuardAll tol p c i := by
  intro ins2 e1
  obtain ⟨k2, hrest⟩ := h ins2 e1
  exact ⟨k2.openKnotsOK, fun s2' e2 ins1 e3 => (hrest s2' e2 ins1 e3).openKnotsOK⟩

/-- **Stage 4 under `MergeGuardAll`.** -/
theorem stageMerge_wf_all {tol : K} {p : ℕ} {c r : Obj K × Obj K} {i : ℕ}
    (h1 : c.1.WellFormed) (h2 : c.2.WellFormed) (hi1 : i < c.1.bases.size) (hi2 : i < c.2.bases.size)
    (hg : MergeGuardAll tol p c i) (hs : stageMerge tol p c i = .ok r) :
    r.1.WellFormed ∧ r.2.WellFormed ∧ r.1.bases.size = c.1.bases.size ∧ r.2.bases.size = c.2.bases.size := by
  obtain ⟨ins2, ins1, e1, e2, e3, e4⟩ := C12.stageMerge_ok hs
  obtain ⟨k2, hrest⟩ := hg ins2 e1
  have k1 := hrest r.2 e2 ins1 e3
  obtain ⟨w2, z2, _⟩ := h2.insertKnots_all i hi2 ins2 k2 e2
  obtain ⟨w1, z1, _⟩ := h1.insertKnots_all i hi1 ins1 k1 e4
  exact ⟨w1, w2, z1, z2⟩

/-- Guard of one checked direction without periodic conditions: `OrderGuard` on the state stage 3
    receives, `MergeGuardAll` on the state stage 4 receives. -/
def DirGuardAll (tol : K) (c1 c2 : Bool) (s : Obj K × Obj K) (i : ℕ) : Prop :=
  ∀ a, stageReparam s i = .ok a →
    ∀ b, stagePeriodic a i = .ok b →
      OrderGuard tol b i ∧
      ∀ c, stageOrder tol c1 c2 b i = .ok c →
        MergeGuardAll tol (max (b.1.basis i).order (b.2.basis i).order) c i

theorem DirGuard.all {tol : K} {c1 c2 : Bool} {s : Obj K × Obj K} {i : ℕ} (h : DirGuard tol c1 c2 s i) :
    DirGuardAll tol c1 c2 s i := by
  intro a ea b eb
  obtain ⟨gO, hg⟩ := (h a ea).2 b eb
  exact ⟨gO, fun c ec => (hg c ec).all⟩

theorem identicalDir_wf_all {tol : K} (htol : 0 < tol) {c1 c2 : Bool} {s r : Obj K × Obj K} {i : ℕ}
    (h1 : s.1.WellFormed) (h2 : s.2.WellFormed)
    (hc1 : c1 = (s.1.bases.size == 1)) (hc2 : c2 = (s.2.bases.size == 1)) (hg : DirGuardAll tol c1 c2 s i)
    (hs : identicalDir tol c1 c2 s i = .ok r) :
    r.1.WellFormed ∧ r.2.WellFormed ∧ r.1.bases.size = s.1.bases.size ∧ r.2.bases.size = s.2.bases.size := by
  obtain ⟨a, b, c, ea, eb, ec, er⟩ := C12.identicalDir_ok hs
  obtain ⟨gO, hg⟩ := hg a ea b eb
  have gM := hg c ec
  obtain ⟨wa1, wa2, za1, za2, hi1, hi2⟩ := stageReparam_wf h1 h2 ea
  obtain ⟨wb1, wb2, zb1, zb2⟩ := stagePeriodic_wf_all wa1 wa2 (by omega) (by omega) eb
  obtain ⟨wc1, wc2, zc1, zc2⟩ := stageOrder_wf htol wb1 wb2 (by omega) (by omega)
    (by rw [hc1, zb1, za1]) (by rw [hc2, zb2, za2]) gO ec
  obtain ⟨wr1, wr2, zr1, zr2⟩ := stageMerge_wf_all wc1 wc2 (by omega) (by omega) gM er
  exact ⟨wr1, wr2, by omega, by omega⟩

def DirTokGuardAll (tol : K) (c1 c2 : Bool) (s : Obj K × Obj K) (d : DirTok) : Prop :=
  ∀ i, Splipy.checkDirection d (makeCompatible s.1 s.2).1.pardimB = .ok i →
    DirGuardAll tol c1 c2 (makeCompatible s.1 s.2) i

theorem DirTokGuard.all {tol : K} {c1 c2 : Bool} {s : Obj K × Obj K} {d : DirTok}
    (h : DirTokGuard tol c1 c2 s d) : DirTokGuardAll tol c1 c2 s d :=
  fun i hi => (h i hi).all

theorem makeIdenticalDir_wf_all {tol : K} (htol : 0 < tol) {c1 c2 : Bool} {s r : Obj K × Obj K} {d : DirTok}
    (h1 : s.1.WellFormed) (h2 : s.2.WellFormed)
    (hc1 : c1 = (s.1.bases.size == 1)) (hc2 : c2 = (s.2.bases.size == 1)) (hg : DirTokGuardAll tol c1 c2 s d)
    (hs : makeIdenticalDir tol c1 c2 s d = .ok r) :
    r.1.WellFormed ∧ r.2.WellFormed ∧ r.1.bases.size = s.1.bases.size ∧ r.2.bases.size = s.2.bases.size := by
  obtain ⟨w1, w2, _, _⟩ := makeCompatible_wf h1 h2
  obtain ⟨z1, z2⟩ := makeCompatible_size s.1 s.2
  unfold makeIdenticalDir at hs
  simp only [] at hs
  cases hd : Splipy.checkDirection d (makeCompatible s.1 s.2).1.pardimB with
  | error e => rw [hd] at hs; cases hs
  | ok i =>
    rw [hd] at hs
    obtain ⟨wr1, wr2, zr1, zr2⟩ :=
      identicalDir_wf_all htol w1 w2 (by rw [hc1, z1]) (by rw [hc2, z2]) (hg i hd) hs
    exact ⟨wr1, wr2, by omega, by omega⟩

/-- Guard of the loop over all directions (no periodic conditions): mirrors `identicalLoop`. -/
def LoopGuardAll (tol : K) (c1 c2 : Bool) : List ℕ → Obj K × Obj K → Prop
  | [], _ => True
  | i :: is, s =>
    DirTokGuardAll tol c1 c2 s (.int i) ∧
    ∀ s', makeIdenticalDir tol c1 c2 s (.int i) = .ok s' → LoopGuardAll tol c1 c2 is s'

theorem LoopGuard.all {tol : K} {c1 c2 : Bool} (is : List ℕ) :
    ∀ {s : Obj K × Obj K}, LoopGuard tol c1 c2 is s → LoopGuardAll tol c1 c2 is s := by
  induction is with
  | nil => intro s _; trivial
  | cons i is ih =>
    intro s h
    exact ⟨h.1.all, fun s' hs' => ih (h.2 s' hs')⟩

theorem identicalLoop_wf_all {tol : K} (htol : 0 < tol) {c1 c2 : Bool} (is : List ℕ) :
    ∀ {s r : Obj K × Obj K}, s.1.WellFormed → s.2.WellFormed →
      c1 = (s.1.bases.size == 1) → c2 = (s.2.bases.size == 1) → LoopGuardAll tol c1 c2 is s →
      identicalLoop tol c1 c2 is s = .ok r →
      r.1.WellFormed ∧ r.2.WellFormed ∧ r.1.bases.size = s.1.bases.size ∧ r.2.bases.size = s.2.bases.size := by
  induction is with
  | nil =>
    intro s r h1 h2 _ _ _ hs
    unfold identicalLoop at hs
    have : s = r := Except.ok.inj hs
    rw [← this]; exact ⟨h1, h2, rfl, rfl⟩
  | cons i is ih =>
    intro s r h1 h2 hc1 hc2 hg hs
    unfold identicalLoop at hs
    obtain ⟨g1, g2⟩ := hg
    cases hm : makeIdenticalDir tol c1 c2 s (.int i) with
    | error e => rw [hm] at hs; cases hs
    | ok s' =>
      rw [hm] at hs
      obtain ⟨w1, w2, z1, z2⟩ := makeIdenticalDir_wf_all htol h1 h2 hc1 hc2 g1 hm
      obtain ⟨wr1, wr2, zr1, zr2⟩ := ih w1 w2 (by rw [hc1, z1]) (by rw [hc2, z2]) (g2 s' hm) hs
      exact ⟨wr1, wr2, by omega, by omega⟩

/-- **Guard of `make_splines_identical(s1, s2, direction)` without periodic conditions**: only the
    guards of `raise_order` (`OrderGuard`) and, along non-periodic directions, of `insert_knot`
    (`MergeGuardAll`), on the states these calls receive. -/
def IdenticalGuardAll (tol : K) (s1 s2 : Obj K) (direction : Option DirTok) : Prop :=
  match direction with
  | some d => DirTokGuardAll tol (s1.bases.size == 1) (s2.bases.size == 1) (s1, s2) d
  | none =>
    LoopGuardAll tol (s1.bases.size == 1) (s2.bases.size == 1)
      (List.range (makeCompatible s1 s2).1.pardimB) (makeCompatible s1 s2)

/-- The old guard is stronger. -/
theorem IdenticalGuard.all {tol : K} {s1 s2 : Obj K} {direction : Option DirTok}
    (h : IdenticalGuard tol s1 s2 direction) : IdenticalGuardAll tol s1 s2 direction := by
  cases direction with
  | some d => exact DirTokGuard.all h
  | none => exact LoopGuard.all _ h

/-- **`make_splines_identical` keeps both objects well formed** (and their numbers of bases), under
    the guards of `raise_order` and of non-periodic `insert_knot` only. -/
theorem makeIdentical_wf_all_partial {s1 s2 r1 r2 : Obj K} (h1 : s1.WellFormed) (h2 : s2.WellFormed) (tol : K)
    (htol : 0 < tol) (direction : Option DirTok) (hg : IdenticalGuardAll tol s1 s2 direction)
    (hs : Obj.makeIdentical tol (s1.bases.size == 1) (s2.bases.size == 1) s1 s2 direction = .ok (r1, r2)) :
    r1.WellFormed ∧ r2.WellFormed ∧ r1.bases.size = s1.bases.size ∧ r2.bases.size = s2.bases.size := by
  cases direction with
  | some d =>
    exact makeIdenticalDir_wf_all (s := (s1, s2)) (r := (r1, r2)) htol h1 h2 rfl rfl hg hs
  | none =>
    obtain ⟨w1, w2, _, _⟩ := makeCompatible_wf h1 h2
    obtain ⟨z1, z2⟩ := makeCompatible_size s1 s2
    obtain ⟨wr1, wr2, zr1, zr2⟩ :=
      identicalLoop_wf_all (r := (r1, r2)) htol _ w1 w2 (by rw [z1]) (by rw [z2]) hg hs
    exact ⟨wr1, wr2, zr1.trans z1, zr2.trans z2⟩

end Obj

/-! ## 4. The pool instruction -/

namespace History

theorem exec_identical_wf {pool pool' : List (Obj K)} (hpool : ∀ o ∈ pool, o.WellFormed) (tol : K)
    (htol : 0 < tol) (i j : ℕ) (direction : Option ℕ)
    (hg : ∀ a b, pool[i]? = some a → pool[j]? = some b →
      Obj.IdenticalGuard tol a b (direction.map (fun d => DirTok.int d)))
    (hs : exec tol pool (.identical i j direction) = .ok pool') : ∀ o ∈ pool', o.WellFormed := by
  unfold exec at hs
  simp only [] at hs
  cases hi : pool[i]? with
  | none => rw [hi] at hs; cases hs
  | some a =>
    cases hj : pool[j]? with
    | none => rw [hi, hj] at hs; cases hs
    | some b =>
      rw [hi, hj] at hs
      simp only [] at hs
      by_cases hij : i = j
      · rw [if_pos hij] at hs; cases hs
      · rw [if_neg hij] at hs
        cases hm : Obj.makeIdentical tol (a.bases.size == 1) (b.bases.size == 1) a b
            (direction.map (fun d => DirTok.int d)) with
        | error e => rw [hm] at hs; cases hs
        | ok r =>
          rw [hm] at hs
          have hp : (pool.set i r.1).set j r.2 = pool' := Except.ok.inj hs
          have ha : a.WellFormed := hpool a (List.mem_of_getElem? hi)
          have hb : b.WellFormed := hpool b (List.mem_of_getElem? hj)
          obtain ⟨w1, w2, _, _⟩ := Obj.makeIdentical_wf_partial (r1 := r.1) (r2 := r.2) ha hb tol htol _
            (hg a b hi hj) hm
          intro o ho
          rw [← hp] at ho
          rcases List.mem_or_eq_of_mem_set ho with ho | rfl
          · rcases List.mem_or_eq_of_mem_set ho with ho | rfl
            · exact hpool o ho
            · exact w1
          · exact w2

/-- The pool instruction under the guard without periodic conditions. -/
theorem exec_identical_wf_all {pool pool' : List (Obj K)} (hpool : ∀ o ∈ pool, o.WellFormed) (tol : K)
    (htol : 0 < tol) (i j : ℕ) (direction : Option ℕ)
    (hg : ∀ a b, pool[i]? = some a → pool[j]? = some b →
      Obj.IdenticalGuardAll tol a b (direction.map (fun d => DirTok.int d)))
    (hs : exec tol pool (.identical i j direction) = .ok pool') : ∀ o ∈ pool', o.WellFormed := by
  unfold exec at hs
  simp only [] at hs
  cases hi : pool[i]? with
  | none => rw [hi] at hs; cases hs
  | some a =>
    cases hj : pool[j]? with
    | none => rw [hi, hj] at hs; cases hs
    | some b =>
      rw [hi, hj] at hs
      simp only [] at hs
      by_cases hij : i = j
      · rw [if_pos hij] at hs; cases hs
      · rw [if_neg hij] at hs
        cases hm : Obj.makeIdentical tol (a.bases.size == 1) (b.bases.size == 1) a b
            (direction.map (fun d => DirTok.int d)) with
        | error e => rw [hm] at hs; cases hs
        | ok r =>
          rw [hm] at hs
          have hp : (pool.set i r.1).set j r.2 = pool' := Except.ok.inj hs
          have ha : a.WellFormed := hpool a (List.mem_of_getElem? hi)
          have hb : b.WellFormed := hpool b (List.mem_of_getElem? hj)
          obtain ⟨w1, w2, _, _⟩ := Obj.makeIdentical_wf_all_partial (r1 := r.1) (r2 := r.2) ha hb tol htol _
            (hg a b hi hj) hm
          intro o ho
          rw [← hp] at ho
          rcases List.mem_or_eq_of_mem_set ho with ho | rfl
          · rcases List.mem_or_eq_of_mem_set ho with ho | rfl
            · exact hpool o ho
            · exact w1
          · exact w2

end History

end Splipy
