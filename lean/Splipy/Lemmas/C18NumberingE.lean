import Splipy.Lemmas.C18NumberingD

/-!
# C18 — the numbering is correct for face-linked histories (assembly)
-/

set_option linter.unusedSectionVars false

namespace Splipy.MP.C18L

variable {γ : Type} [Inhabited γ]

theorem mem_toList_getD {α : Type} [Inhabited α] {arr : Array α} {x : α} (h : x ∈ arr.toList) :
    ∃ q, q < arr.size ∧ arr.getD q default = x := by
  obtain ⟨q, hq, hx⟩ := List.getElem_of_mem h
  refine ⟨q, by simpa using hq, ?_⟩
  have hq' : q < arr.size := by simpa using hq
  simp only [Array.getD, hq', dite_true]
  simpa using hx

theorem getD_mem_toList {α : Type} [Inhabited α] {arr : Array α} {q : ℕ} (h : q < arr.size) :
    arr.getD q default ∈ arr.toList := by
  simp only [Array.getD, h, dite_true]
  simp

/-- everything the proof needs about one run -/
structure RunFacts (plans : List PatchPlan) (P : List (NdArr γ)) (N : Array (NdArr ℤ)) (ncps : ℕ) where
  Z : Array (NdArr (ℤ × γ))
  hN : ∀ k q, numAt N k q = ((Z.getD k default).data.getD q default).1
  hP : ∀ k q, ptAt P k q = ((Z.getD k default).data.getD q default).2
  size : ∀ k p, plans[k]? = some p → (Z.getD k default).data.size = shapeSize p.shape
  /-- unflagged positions carry a fresh number of the first loop -/
  fresh : ∀ k p q, plans[k]? = some p → q < shapeSize p.shape → ¬ Flagged p q →
    ∃ m : ℕ, m < ncps ∧ numAt N k q = m
  /-- flagged positions are copies of an earlier patch -/
  copy : ∀ k p q, plans[k]? = some p → q < shapeSize p.shape → Flagged p q →
    ∃ k0 q0, k0 < k ∧ ValidPos plans k0 q0 ∧
      (Z.getD k default).data.getD q default = (Z.getD k0 default).data.getD q0 default
  /-- every fresh number sits at an unflagged position -/
  onto : ∀ m : ℕ, m < ncps → ∃ k q, ValidPos plans k q ∧ numAt N k q = m
  /-- a number determines its point -/
  det : ∀ k k' q q', ValidPos plans k q → ValidPos plans k' q' → numAt N k q = numAt N k' q' →
    numAt N k q ≠ -1 → ptAt P k q = ptAt P k' q'

theorem runFacts (plans : List PatchPlan) (P : List (NdArr γ))
    (hcompat : Compat (generateAll plans 0).1 P)
    (hG1 : readAllG plans P.toArray = .ok P.toArray)
    (hpts : ∀ p ∈ allData P, p ≠ default) (hord : WellOrdered plans)
    (N : Array (NdArr ℤ)) (ncps : ℕ) (hnum : numberPlans plans = .ok (N, ncps)) :
    Nonempty (RunFacts plans P N ncps) := by
  obtain ⟨Z, hrun, hZN, hZP⟩ := paired_run plans P hcompat hG1 N ncps hnum
  obtain ⟨-, hncps⟩ := numberPlans_ok hnum
  have hfresh := (generateAll_fresh plans 0).2
  rw [Nat.sub_zero, ← hncps, ← List.range_eq_range'] at hfresh
  set Z0 := (List.zipWith zipNd (generateAll plans 0).1 P).toArray with hZ0
  have hsh0 : Shaped plans Z0 := by
    intro k p hp
    obtain ⟨c, h1, h2, -⟩ := Z0_spec plans P hcompat k p hp
    exact ⟨h1, h2⟩
  rw [readAllG_eq_runFrom] at hrun
  obtain ⟨hshZ, -, hspec⟩ := runFrom_spec plans hord plans 0 Z0 Z (fun i p h => by simpa using h) hrun hsh0
  have hN : ∀ k q, numAt N k q = ((Z.getD k default).data.getD q default).1 := numAt_of_pairs Z N hZN
  have hP : ∀ k q, ptAt P k q = ((Z.getD k default).data.getD q default).2 := ptAt_of_pairs Z P hZP
  have hsize : ∀ k p, plans[k]? = some p → (Z.getD k default).data.size = shapeSize p.shape := by
    intro k p hp
    obtain ⟨h1, h2⟩ := hshZ k p hp
    rw [h2, h1]
  have hklt : ∀ k p, plans[k]? = some p → k < 0 + plans.length := by
    intro k p hp
    have := (List.getElem?_eq_some_iff.1 hp).1
    omega
  -- points are not junk
  have hptmem : ∀ k p q, plans[k]? = some p → q < shapeSize p.shape → ptAt P k q ≠ default := by
    intro k p q hp hq
    obtain ⟨c, hc⟩ := generateAll_getElem? plans 0 k p hp
    obtain ⟨pk, hpk, -, hsz⟩ := compat_getElem? hcompat k _ hc
    have hq2 : q < pk.data.size := by rw [← hsz, genOne_size]; exact hq
    apply hpts
    have : ptAt P k q = pk.data.getD q default := by
      simp [ptAt, Array.getD_eq_getD_getElem?, hpk]
    rw [this]
    exact List.mem_flatMap.2 ⟨pk, List.mem_of_getElem? hpk, getD_mem_toList hq2⟩
  -- unflagged positions
  have hunfl : ∀ k p q, plans[k]? = some p → q < shapeSize p.shape → ¬ Flagged p q →
      ∃ c, (generateAll plans 0).1[k]? = some (genOne c p).1 ∧
        (Z.getD k default).data.getD q default = ((genOne c p).1.data.getD q default, ptAt P k q) ∧
        (genOne c p).1.data.getD q default ≠ -1 := by
    intro k p q hp hq hnf
    obtain ⟨c, hc⟩ := generateAll_getElem? plans 0 k p hp
    obtain ⟨c', -, -, h3⟩ := Z0_spec plans P hcompat k p hp
    obtain ⟨c2, hc2⟩ := generateAll_getElem? plans 0 k p hp
    -- the constant of `Z0_spec` is the one of `generateAll_getElem?` up to the array it names
    have key := ((hspec k p (Nat.zero_le _) (hklt k p hp) hp q hq).1 hnf)
    refine ⟨c, hc, ?_, (genOne_getD c p q hq).2 hnf⟩
    rw [key]
    -- both descriptions of `Z0[k]`
    obtain ⟨pk, hpk, -, hsz⟩ := compat_getElem? hcompat k _ hc
    have hz : Z0.getD k default = zipNd (genOne c p).1 pk := by
      simp [hZ0, Array.getD_eq_getD_getElem?, List.getElem?_zipWith, hc, hpk]
    rw [hz]
    have hq1 : q < (genOne c p).1.data.size := by rw [genOne_size]; exact hq
    have hq2 : q < pk.data.size := by omega
    have hpt : ptAt P k q = pk.data[q] := by
      simp [ptAt, Array.getD_eq_getD_getElem?, hpk, hq2]
    rw [hpt]
    simp [zipNd, Array.getD_eq_getD_getElem?, hq1, hq2]
  have hfreshnum : ∀ k p q, plans[k]? = some p → q < shapeSize p.shape → ¬ Flagged p q →
      ∃ m : ℕ, m < ncps ∧ numAt N k q = m := by
    intro k p q hp hq hnf
    obtain ⟨c, hc, hz, hne⟩ := hunfl k p q hp hq hnf
    have hmem : (genOne c p).1.data.getD q default ∈ allData (generateAll plans 0).1 :=
      List.mem_flatMap.2 ⟨_, List.mem_of_getElem? hc, getD_mem_toList (by rw [genOne_size]; exact hq)⟩
    have : (genOne c p).1.data.getD q default ∈ (allData (generateAll plans 0).1).filter (· ≠ -1) :=
      List.mem_filter.2 ⟨hmem, by simpa using hne⟩
    rw [hfresh] at this
    obtain ⟨m, hm, hmv⟩ := List.mem_map.1 this
    exact ⟨m, List.mem_range.1 hm, by rw [hN, hz]; exact hmv.symm⟩
  refine ⟨{ Z := Z, hN := hN, hP := hP, size := hsize, fresh := hfreshnum, copy := ?_, onto := ?_, det := ?_ }⟩
  · intro k p q hp hq hfl
    rcases (hspec k p (Nat.zero_le _) (hklt k p hp) hp q hq).2 hfl with h1 | ⟨k0, hk0, h1⟩
    · exfalso
      apply hptmem k p q hp hq
      rw [hP, h1]; rfl
    · have hk0len : k0 < plans.length := by
        have := (List.getElem?_eq_some_iff.1 hp).1
        omega
      obtain ⟨q0, hq0, hx⟩ := mem_toList_getD h1
      refine ⟨k0, q0, hk0, ⟨plans[k0], by simp [hk0len], ?_⟩, hx.symm⟩
      rw [← hsize k0 plans[k0] (by simp [hk0len])]
      exact hq0
  · intro m hm
    have hmem : (m : ℤ) ∈ (allData (generateAll plans 0).1).filter (· ≠ -1) := by
      rw [hfresh]; exact List.mem_map_of_mem (List.mem_range.2 hm)
    obtain ⟨hmem1, -⟩ := List.mem_filter.1 hmem
    obtain ⟨arr, harr, hin⟩ := List.mem_flatMap.1 hmem1
    obtain ⟨k, hk, hkarr⟩ := List.getElem_of_mem harr
    have hklen : k < plans.length := by rw [generateAll_length] at hk; exact hk
    have hp : plans[k]? = some plans[k] := by simp [hklen]
    obtain ⟨c, hc⟩ := generateAll_getElem? plans 0 k plans[k] hp
    have harr' : arr = (genOne c plans[k]).1 := by
      have : (generateAll plans 0).1[k]? = some arr := by simp [hk, hkarr]
      rw [this] at hc
      exact Option.some.inj hc
    subst harr'
    obtain ⟨q, hq, hx⟩ := mem_toList_getD hin
    rw [genOne_size] at hq
    have hnf : ¬ Flagged plans[k] q := by
      intro hf
      have := (genOne_getD c plans[k] q hq).1 hf
      rw [hx] at this
      omega
    obtain ⟨c', hc', hz, -⟩ := hunfl k plans[k] q hp hq hnf
    have hcc : (genOne c' plans[k]).1 = (genOne c plans[k]).1 := by
      rw [hc] at hc'; exact (Option.some.inj hc').symm
    refine ⟨k, q, ⟨plans[k], hp, hq⟩, ?_⟩
    rw [hN, hz, hcc]
    exact hx
  · intro k k' q q' ⟨p, hp, hq⟩ ⟨p', hp', hq'⟩ heq hne
    obtain ⟨Z', hZ'N, hZ'P, hdet⟩ := number_determines_point plans P hcompat hG1 hpts N ncps hnum
    have hN' := numAt_of_pairs Z' N hZ'N
    have hP' := ptAt_of_pairs Z' P hZ'P
    have hsz : ∀ k p, plans[k]? = some p → (Z'.getD k default).data.size = shapeSize p.shape := by
      intro k p hp
      have h1 : ((Z'.map (NdArr.map Prod.fst)).getD k default).data.size = (Z'.getD k default).data.size := by
        rw [getD_map_arrays Prod.fst rfl]; simp [NdArr.map]
      have h2 : ((Z.map (NdArr.map Prod.fst)).getD k default).data.size = (Z.getD k default).data.size := by
        rw [getD_map_arrays Prod.fst rfl]; simp [NdArr.map]
      rw [← h1, hZ'N, ← hZN, h2]
      exact hsize k p hp
    rw [hP', hP']
    refine hdet _ _ ⟨k, getD_mem_toList (by rw [hsz k p hp]; exact hq)⟩
      ⟨k', getD_mem_toList (by rw [hsz k' p' hp']; exact hq')⟩ ?_ ?_
    · rw [← hN', ← hN']; exact heq
    · rw [← hN']; exact hne

end Splipy.MP.C18L

namespace Splipy.MP.C18L

variable {γ : Type} [Inhabited γ]

/-- every number is one of `0 … ncps-1` -/
theorem RunFacts.range {plans : List PatchPlan} {P : List (NdArr γ)} {N : Array (NdArr ℤ)} {ncps : ℕ}
    (F : RunFacts plans P N ncps) : ∀ k q, ValidPos plans k q → ∃ m : ℕ, m < ncps ∧ numAt N k q = m := by
  intro k
  induction k using Nat.strong_induction_on with
  | _ k ih =>
    intro q ⟨p, hp, hq⟩
    by_cases hf : Flagged p q
    · obtain ⟨k0, q0, hk0, hv0, hz⟩ := F.copy k p q hp hq hf
      obtain ⟨m, hm, hmv⟩ := ih k0 hk0 q0 hv0
      exact ⟨m, hm, by rw [F.hN, hz, ← F.hN]; exact hmv⟩
    · exact F.fresh k p q hp hq hf

/-- **same point ⇒ same number** under the star hypothesis -/
theorem RunFacts.same_point {plans : List PatchPlan} {P : List (NdArr γ)} {N : Array (NdArr ℤ)} {ncps : ℕ}
    (F : RunFacts plans P N ncps)
    (hstar : ∀ k k' q q', ValidPos plans k q → ValidPos plans k' q' → k' < k → ptAt P k q = ptAt P k' q' →
      ∃ p, plans[k]? = some p ∧ Flagged p q)
    (hinj : ∀ k q q', ValidPos plans k q → ValidPos plans k q' → ptAt P k q = ptAt P k q' → q = q') :
    ∀ k k' q q', ValidPos plans k q → ValidPos plans k' q' → ptAt P k q = ptAt P k' q' →
      numAt N k q = numAt N k' q' := by
  -- S(m): the claim for k, k' < m
  have S : ∀ m k k' q q', k < m → k' < m → ValidPos plans k q → ValidPos plans k' q' →
      ptAt P k q = ptAt P k' q' → numAt N k q = numAt N k' q' := by
    intro m
    induction m with
    | zero => intro k k' q q' hk; omega
    | succ m ih =>
      -- the case where the larger index is `m`
      have step : ∀ k' q q', k' ≤ m → ValidPos plans m q → ValidPos plans k' q' →
          ptAt P m q = ptAt P k' q' → numAt N m q = numAt N k' q' := by
        intro k' q q' hk' hv hv' hpt
        rcases Nat.lt_or_eq_of_le hk' with hlt | heq
        · obtain ⟨p, hp, hf⟩ := hstar m k' q q' hv hv' hlt hpt
          obtain ⟨p2, hp2, hq2⟩ := hv
          rw [hp] at hp2; cases hp2
          obtain ⟨k0, q0, hk0, hv0, hz⟩ := F.copy m p q hp hq2 hf
          have h1 : numAt N m q = numAt N k0 q0 := by rw [F.hN, hz, ← F.hN]
          have h2 : ptAt P k0 q0 = ptAt P k' q' := by rw [← hpt, F.hP, F.hP, hz]
          rw [h1]
          exact ih k0 k' q0 q' hk0 hlt hv0 hv' h2
        · subst heq
          rw [hinj k' q q' hv hv' hpt]
      intro k k' q q' hk hk' hv hv' hpt
      rcases Nat.lt_or_eq_of_le (Nat.lt_succ_iff.1 hk) with hk1 | hk1
      · rcases Nat.lt_or_eq_of_le (Nat.lt_succ_iff.1 hk') with hk2 | hk2
        · exact ih k k' q q' hk1 hk2 hv hv' hpt
        · subst hk2
          exact (step k q' q (by omega) hv' hv hpt.symm).symm
      · subst hk1
        exact step k' q q' (by omega) hv hv' hpt
  intro k k' q q' hv hv' hpt
  exact S (max k k' + 1) k k' q q' (by omega) (by omega) hv hv' hpt

end Splipy.MP.C18L
