import Splipy.Lemmas.C17Equiv

/-! Lemmas for C17: `map_array` by a well-formed orientation permutes the entries of an array
(hence preserves sums over the net), and commutes with entrywise maps. -/

namespace Splipy.MP

/-- flat source offset of the flat offset `k` of a view -/
def flatIdx (r : Reindex) (s : List ℕ) (k : ℕ) : ℕ := ravel s (r.index s (unravel (r.shape s) k))

theorem apply_data_getD {α : Type} [Inhabited α] (r : Reindex) (X : NdArr α) (k : ℕ)
    (hk : k < shapeSize (r.shape X.shape)) :
    (r.apply X).data.getD k default = X.data.getD (flatIdx r X.shape k) default := by
  simp [Reindex.apply, NdArr.ofFn, NdArr.get, flatIdx, Array.getD_eq_getD_getElem?, hk]

theorem apply_data_size {α : Type} [Inhabited α] (r : Reindex) (X : NdArr α) :
    (r.apply X).data.size = shapeSize (r.shape X.shape) := by
  simp [Reindex.apply, NdArr.ofFn]

theorem apply_shape {α : Type} [Inhabited α] (r : Reindex) (X : NdArr α) :
    (r.apply X).shape = r.shape X.shape := rfl

theorem flatIdx_lt (r : Reindex) (s : List ℕ) (hc : r.Consistent s.length = true)
    (hpos : ∀ n ∈ s, 0 < n) (k : ℕ) (hk : k < shapeSize (r.shape s)) : flatIdx r s k < shapeSize s :=
  ravel_lt (Reindex.index_inRange r s _ hc hpos (unravel_inRange hk))

/-- entrywise maps commute with views -/
theorem apply_map {α β : Type} [Inhabited α] [Inhabited β] (r : Reindex) (X : NdArr α) (f : α → β)
    (hc : r.Consistent X.shape.length = true) (hpos : ∀ n ∈ X.shape, 0 < n)
    (hsz : X.data.size = shapeSize X.shape) :
    r.apply (X.map f) = (r.apply X).map f := by
  have hshape : (X.map f).shape = X.shape := rfl
  cases h1 : r.apply (X.map f) with
  | mk s1 d1 =>
    cases h2 : (r.apply X).map f with
    | mk s2 d2 =>
      have hs1 : s1 = r.shape X.shape := by
        have := congrArg NdArr.shape h1; simpa [apply_shape, hshape] using this.symm
      have hs2 : s2 = r.shape X.shape := by
        have := congrArg NdArr.shape h2; simpa [NdArr.map, apply_shape] using this.symm
      have hd1 : d1 = (r.apply (X.map f)).data := by rw [h1]
      have hd2 : d2 = ((r.apply X).map f).data := by rw [h2]
      subst hs1 hs2
      congr 1
      rw [hd1, hd2]
      apply Array.ext
      · simp [NdArr.map, apply_data_size]
      · intro k hk1 hk2
        have hk : k < shapeSize (r.shape X.shape) := by
          rw [apply_data_size, hshape] at hk1; exact hk1
        have hlt := flatIdx_lt r X.shape hc hpos k hk
        have e1 := apply_data_getD r (X.map f) k (by rw [hshape]; exact hk)
        have e2 := apply_data_getD r X k hk
        rw [Array.getD_eq_getD_getElem?, Array.getElem?_eq_getElem hk1, Option.getD_some] at e1
        rw [e1, hshape]
        simp only [NdArr.map, Array.getElem_map]
        have hk3 : k < (r.apply X).data.size := by rw [apply_data_size]; exact hk
        rw [Array.getD_eq_getD_getElem?, Array.getElem?_eq_getElem hk3, Option.getD_some] at e2
        rw [e2]
        have hlt' : flatIdx r X.shape k < X.data.size := by rw [hsz]; exact hlt
        simp [Array.getD_eq_getD_getElem?, hlt']

/-! ### inverse orientation undoes `map_array` -/

theorem inv_mapShape {o : Orientation} {n : ℕ} (ho : o.WF n) (s : List ℕ) (hs : s.length = n) :
    o.inv.mapShape (o.mapShape s) = s := by
  have hinv := Orientation.inv_wf ho
  have hci : o.inv.toReindex.Consistent o.toReindex.axes.length = true := by
    show o.inv.toReindex.Consistent o.perm.length = true
    rw [ho.isPerm.length]; exact Orientation.toReindex_consistent hinv
  have := Reindex.comp_shape o.inv.toReindex o.toReindex s hci
  rw [← Orientation.toReindex_mul hinv ho, Orientation.inv_mul ho] at this
  have h2 : (Orientation.identity n).mapShape s = s := identity_shape _ _ hs
  unfold Orientation.mapShape at h2 ⊢
  rw [← this, h2]

theorem mapShape_inv {o : Orientation} {n : ℕ} (ho : o.WF n) (s : List ℕ) (hs : s.length = n) :
    o.mapShape (o.inv.mapShape s) = s := by
  have hinv := Orientation.inv_wf ho
  have hci : o.toReindex.Consistent o.inv.toReindex.axes.length = true := by
    show o.toReindex.Consistent o.inv.perm.length = true
    rw [hinv.isPerm.length]; exact Orientation.toReindex_consistent ho
  have := Reindex.comp_shape o.toReindex o.inv.toReindex s hci
  rw [← Orientation.toReindex_mul ho hinv, Orientation.mul_inv ho] at this
  have h2 : (Orientation.identity n).mapShape s = s := identity_shape _ _ hs
  unfold Orientation.mapShape at h2 ⊢
  rw [← this, h2]

theorem mapShape_length {o : Orientation} {n : ℕ} (ho : o.WF n) (s : List ℕ) :
    (o.mapShape s).length = n := by
  show (o.perm.map _).length = n
  rw [List.length_map]; exact ho.isPerm.length

theorem mapShape_pos {o : Orientation} {n : ℕ} (ho : o.WF n) (s : List ℕ) (hs : s.length = n)
    (hpos : ∀ m ∈ s, 0 < m) : ∀ m ∈ o.mapShape s, 0 < m :=
  Reindex.shape_pos o.toReindex s (by rw [hs]; exact Orientation.toReindex_consistent ho) hpos

theorem inv_mapArray {α : Type} [Inhabited α] {o : Orientation} {n : ℕ} (ho : o.WF n) (X : NdArr α)
    (hs : X.shape.length = n) (hpos : ∀ m ∈ X.shape, 0 < m) (hsz : X.data.size = shapeSize X.shape) :
    o.inv.mapArray (o.mapArray X) = X := by
  rw [← Orientation.mapArray_mul (Orientation.inv_wf ho) ho X hs hpos, Orientation.inv_mul ho,
    identity_mapArray n X hs hsz]

theorem mapArray_inv {α : Type} [Inhabited α] {o : Orientation} {n : ℕ} (ho : o.WF n) (X : NdArr α)
    (hs : X.shape.length = n) (hpos : ∀ m ∈ X.shape, 0 < m) (hsz : X.data.size = shapeSize X.shape) :
    o.mapArray (o.inv.mapArray X) = X := by
  rw [← Orientation.mapArray_mul ho (Orientation.inv_wf ho) X hs hpos, Orientation.mul_inv ho,
    identity_mapArray n X hs hsz]

/-! ### `map_array` permutes the entries -/

/-- the array of flat offsets -/
def iota (s : List ℕ) : NdArr ℕ := ⟨s, Array.range (shapeSize s)⟩

theorem iota_getD (s : List ℕ) (j : ℕ) (hj : j < shapeSize s) : (iota s).data.getD j default = j := by
  simp [iota, Array.getD_eq_getD_getElem?, hj]

theorem mapArray_getD {α : Type} [Inhabited α] (o : Orientation) (X : NdArr α) (k : ℕ)
    (hk : k < shapeSize (o.mapShape X.shape)) :
    (o.mapArray X).data.getD k default = X.data.getD (flatIdx o.toReindex X.shape k) default :=
  apply_data_getD o.toReindex X k hk

theorem flat_inverse {o : Orientation} {n : ℕ} (ho : o.WF n) (s : List ℕ) (hs : s.length = n)
    (hpos : ∀ m ∈ s, 0 < m) :
    (∀ k, k < shapeSize (o.mapShape s) → flatIdx o.toReindex s k < shapeSize s) ∧
    (∀ j, j < shapeSize s → flatIdx o.inv.toReindex (o.mapShape s) j < shapeSize (o.mapShape s)) ∧
    (∀ j, j < shapeSize s →
      flatIdx o.toReindex s (flatIdx o.inv.toReindex (o.mapShape s) j) = j) ∧
    (∀ k, k < shapeSize (o.mapShape s) →
      flatIdx o.inv.toReindex (o.mapShape s) (flatIdx o.toReindex s k) = k) := by
  have hinv := Orientation.inv_wf ho
  have hs' := mapShape_length ho s
  have hpos' := mapShape_pos ho s hs hpos
  have hinvsh := inv_mapShape ho s hs
  have hA : ∀ k, k < shapeSize (o.mapShape s) → flatIdx o.toReindex s k < shapeSize s := fun k hk =>
    flatIdx_lt o.toReindex s (by rw [hs]; exact Orientation.toReindex_consistent ho) hpos k hk
  have hB : ∀ j, j < shapeSize s →
      flatIdx o.inv.toReindex (o.mapShape s) j < shapeSize (o.mapShape s) := fun j hj =>
    flatIdx_lt o.inv.toReindex (o.mapShape s) (by rw [hs']; exact Orientation.toReindex_consistent hinv)
      hpos' j (by
        show j < shapeSize (o.inv.mapShape (o.mapShape s))
        rw [hinvsh]; exact hj)
  refine ⟨hA, hB, ?_, ?_⟩
  · intro j hj
    have h1 := inv_mapArray ho (iota s) hs hpos (by simp [iota])
    have h2 := congrArg (fun A : NdArr ℕ => A.data.getD j default) h1
    rw [iota_getD s j hj, mapArray_getD o.inv (o.mapArray (iota s)) j (by
      show j < shapeSize (o.inv.mapShape (o.mapShape s))
      rw [hinvsh]; exact hj)] at h2
    have hsh : (o.mapArray (iota s)).shape = o.mapShape s := rfl
    rw [hsh, mapArray_getD o (iota s) _ (hB j hj)] at h2
    have hsh0 : (iota s).shape = s := rfl
    rw [hsh0, iota_getD s _ (hA _ (hB j hj))] at h2
    exact h2
  · intro k hk
    have h1 := mapArray_inv ho (iota (o.mapShape s)) hs' hpos' (by simp [iota])
    have h2 := congrArg (fun A : NdArr ℕ => A.data.getD k default) h1
    have hsh : (o.inv.mapArray (iota (o.mapShape s))).shape = s := hinvsh
    rw [iota_getD _ k hk, mapArray_getD o (o.inv.mapArray (iota (o.mapShape s))) k (by
      rw [hsh]; exact hk), hsh] at h2
    rw [mapArray_getD o.inv (iota (o.mapShape s)) _ (by
      show flatIdx o.toReindex s k < shapeSize (o.inv.mapShape (o.mapShape s))
      rw [hinvsh]; exact hA k hk)] at h2
    have hsh2 : (iota (o.mapShape s)).shape = o.mapShape s := rfl
    rw [hsh2, iota_getD _ _ (hB _ (hA k hk))] at h2
    exact h2

theorem nodup_lt_length_le {l : List ℕ} {N : ℕ} (hn : l.Nodup) (hlt : ∀ x ∈ l, x < N) : l.length ≤ N := by
  have hsub : l ⊆ List.range N := fun x hx => List.mem_range.2 (hlt x hx)
  have := (List.subperm_of_subset hn hsub).length_le
  simpa using this

/-- **`map_array` by a well-formed orientation is a permutation of the entries.** -/
theorem mapArray_data_perm {α : Type} [Inhabited α] {o : Orientation} {n : ℕ} (ho : o.WF n)
    (X : NdArr α) (hs : X.shape.length = n) (hpos : ∀ m ∈ X.shape, 0 < m)
    (hsz : X.data.size = shapeSize X.shape) :
    (o.mapArray X).data.toList.Perm X.data.toList := by
  obtain ⟨hA, hB, hAB, hBA⟩ := flat_inverse ho X.shape hs hpos
  set N := shapeSize X.shape with hN
  set N' := shapeSize (o.mapShape X.shape) with hN'
  set π := flatIdx o.toReindex X.shape with hπ
  set σ := flatIdx o.inv.toReindex (o.mapShape X.shape) with hσ
  have hL1 : ((List.range N').map π).Nodup := by
    apply List.Nodup.map_on _ List.nodup_range
    intro a ha b hb hab
    have ha' := List.mem_range.1 ha
    have hb' := List.mem_range.1 hb
    rw [← hBA a ha', ← hBA b hb', hab]
  have hL2 : ((List.range N).map σ).Nodup := by
    apply List.Nodup.map_on _ List.nodup_range
    intro a ha b hb hab
    have ha' := List.mem_range.1 ha
    have hb' := List.mem_range.1 hb
    rw [← hAB a ha', ← hAB b hb', hab]
  have hle1 : N' ≤ N := by
    have := nodup_lt_length_le hL1 (N := N) (by
      intro x hx; simp only [List.mem_map, List.mem_range] at hx
      obtain ⟨k, hk, rfl⟩ := hx; exact hA k hk)
    simpa using this
  have hle2 : N ≤ N' := by
    have := nodup_lt_length_le hL2 (N := N') (by
      intro x hx; simp only [List.mem_map, List.mem_range] at hx
      obtain ⟨k, hk, rfl⟩ := hx; exact hB k hk)
    simpa using this
  have hNN : N' = N := le_antisymm hle1 hle2
  have hperm : IsPerm ((List.range N').map π) N := IsPerm.of_nodup hL1 (by simp [hNN]) (by
    intro x hx; simp only [List.mem_map, List.mem_range] at hx
    obtain ⟨k, hk, rfl⟩ := hx; exact hA k hk)
  have e1 : (o.mapArray X).data.toList = ((List.range N').map π).map (fun j => X.data.getD j default) := by
    apply List.ext_getElem
    · simp [Orientation.mapArray, apply_data_size, hN']
      rfl
    · intro k h1 h2
      have hk : k < N' := by simpa using h2
      have := mapArray_getD o X k hk
      rw [Array.getD_eq_getD_getElem?, Array.getElem?_eq_getElem (by simpa using h1), Option.getD_some] at this
      simp only [Array.getElem_toList, List.getElem_map, List.getElem_range]
      exact this
  have e2 : X.data.toList = (List.range N).map (fun j => X.data.getD j default) := by
    apply List.ext_getElem
    · simp [hN, hsz]
    · intro k h1 h2
      have hk : k < X.data.size := by simpa using h1
      simp [Array.getD_eq_getD_getElem?, hk]
  rw [e1]
  conv_rhs => rw [e2]
  exact hperm.perm.map _

end Splipy.MP
