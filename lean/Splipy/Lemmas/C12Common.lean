import Splipy.Lemmas.C12Compat
import Splipy.Lemmas.C12Merge
import Splipy.Lemmas.C12Union
import Splipy.Lemmas.C12Stages
import Splipy.Lemmas.C12Curve
import Splipy.Lemmas.C12Raise
import Splipy.Lemmas.C12Direction
import Splipy.Lemmas.C05RaisesTo
import Splipy.Lemmas.C12Periodic
import Splipy.Lemmas.C12All
import Splipy.Lemmas.C12Core
import Splipy.Lemmas.C12Entries

/-!
# C12 — the clamped theorems over an explicit common entry list `L`

`Properties/C12.lean` states the clamped theorems with hypotheses on the two input bases only
(`ClampedCont`, `PairSeparated`); `C12.exists_common_entries` produces the common entry list `L`, and the
statements of this file — the same theorems with `L` explicit — do the work.

* `CommonForm δ b₁ b₂ L`, `unionBasis p₁ p₂ L` — the vocabulary of the conclusions;
* `open_curves_entries`, `open_surfaces_entries`, `open_volumes_entries` — one direction;
* `open_surfaces_all_entries`, `open_volumes_all_entries` — `direction=None`, two / three rounds;
* `grevilleOK_of_clampedCont` — the side condition `GrevilleOK` from a decidable hypothesis.
-/

open Splipy Splipy.Obj Splipy.C12

namespace Splipy

set_option linter.unusedSectionVars false

variable {K : Type} [Field K] [LinearOrder K] [IsStrictOrderedRing K] [FloorRing K]

namespace C12

/-- **Common-entry form of two bases** over the entry list `L` (value, multiplicity in basis 1,
    multiplicity in basis 2; `0` = absent): after `reparam()` to `[0,1]` basis `j` is the clamped basis of
    its order with the distinct interior knots `L.map (·.1)` and multiplicities `m_j`; the distinct values
    (with `0` and `1`) are increasing and more than `δ` apart; both are continuous (`m_j ≤ p_j - 1`). -/
def CommonForm (δ : K) (b1 b2 : Basis K) (L : List (K × ℕ × ℕ)) : Prop :=
  C06.reparamOk b1 0 1 = openBasis b1.order (clampedU 0 1 (L.map (·.1))) (clampedM b1.order (L.map (·.2.1)))
  ∧ C06.reparamOk b2 0 1 = openBasis b2.order (clampedU 0 1 (L.map (·.1))) (clampedM b2.order (L.map (·.2.2)))
  ∧ Separated δ (clampedU 0 1 (L.map (·.1)))
  ∧ ∀ e ∈ L, e.2.1 ≤ b1.order - 1 ∧ e.2.2 ≤ b2.order - 1

/-- **The union basis** of two bases of orders `p₁`, `p₂` in common-entry form over `L`: order
    `p = max p₁ p₂`, clamped on `[0,1]`, each entry with multiplicity
    `max (m₁ + (p - p₁)) (m₂ + (p - p₂))` where `m_j + (p - p_j)` is read as `0` for an absent knot
    (`raise_order` keeps the continuity `p_j - 1 - m_j`; the larger count is the smaller continuity). -/
def unionBasis (p1 p2 : ℕ) (L : List (K × ℕ × ℕ)) : Basis K :=
  openBasis (max p1 p2) (clampedU 0 1 (L.map (·.1)))
    (clampedM (max p1 p2) (L.map (fun e =>
      max (raisedMult (max p1 p2 - p1) e.2.1) (raisedMult (max p1 p2 - p2) e.2.2))))

/-- `C12.common_entries` in this vocabulary: the computed list `commonEntries b₁ b₂` is a common-entry form. -/
theorem commonForm_entries (δ : K) (hδ : 0 ≤ δ) (b1 b2 : Basis K) (hv1 : b1.Valid) (hv2 : b2.Valid)
    (hc1 : ClampedCont b1) (hc2 : ClampedCont b2)
    (hsep : PairSeparated δ (C06.reparamOk b1 0 1).knots.toList (C06.reparamOk b2 0 1).knots.toList) :
    CommonForm δ b1 b2 (commonEntries b1 b2) := by
  unfold CommonForm
  exact common_entries δ hδ b1 b2 hv1 hv2 hc1 hc2 hsep

/-- A valid clamped continuous basis whose own knots are pairwise equal or more than
    `2·(p-1)·tol` apart (in its own parametrisation) is `GrevilleOK`. -/
theorem grevilleOK_of_clampedCont (tol : K) (htol : 0 < tol) (b : Basis K) (hv : b.Valid) (hc : ClampedCont b)
    (hsep : PairSeparated (2 * ((b.order - 1 : ℕ) : K) * tol) b.knots.toList []) : GrevilleOK tol b := by
  have hδ : (0 : K) ≤ 2 * ((b.order - 1 : ℕ) : K) * tol := by positivity
  have hsep' : PairSeparated (2 * ((b.order - 1 : ℕ) : K) * tol) b.knots.toList b.knots.toList := by
    intro x hx y hy
    refine hsep x ?_ y ?_
    · rcases List.mem_append.mp hx with h | h <;> exact List.mem_append_left _ h
    · rcases List.mem_append.mp hy with h | h <;> exact List.mem_append_left _ h
  obtain ⟨L, hb, hS, hm⟩ : ∃ L : List (K × ℕ × ℕ),
      b = openBasis b.order (clampedU b.start b.stop (L.map (·.1))) (clampedM b.order (L.map (·.2.1)))
      ∧ Separated (2 * ((b.order - 1 : ℕ) : K) * tol) (clampedU b.start b.stop (L.map (·.1)))
      ∧ ∀ e ∈ L, e.2.1 ≤ b.order - 1 ∧ e.2.2 ≤ b.order - 1 := by
    have h := common_entries_core _ hδ b.start b.stop hv.start_lt_stop b b
      (valid_pairwise hv) (valid_pairwise hv) hc hc rfl rfl rfl rfl hsep'
    exact ⟨_, h.1, h.2.2.1, h.2.2.2⟩
  have hG := grevilleOK_common tol htol b.order hc.order_ge b.start b.stop L (·.1) (·.2.1)
    (fun e he => (hm e he).1) hS
  rw [← hb] at hG
  exact hG

theorem bases_toList_three {o : Obj K} (hw : C06.WF o 3) : o.bases.toList = [o.basis 0, o.basis 1, o.basis 2] := by
  have hs := hw.size
  apply List.ext_getElem
  · simp [hs]
  · intro n h1 h2
    have hn : n = 0 ∨ n = 1 ∨ n = 2 := by simp at h2; omega
    rcases hn with rfl | rfl | rfl <;> simp [Obj.basis, Array.getD, hs]

/-! ## One direction, `L` explicit -/

theorem open_curves_entries (tol : K) (htol : 0 < tol) (c1 c2 : Bool) (p1 p2 : ℕ) (hp1 : 2 ≤ p1)
    (hp2 : 2 ≤ p2) (x0 xl : K) (L : List (K × ℕ × ℕ)) (hm : ∀ e ∈ L, e.2.1 ≤ p1 - 1 ∧ e.2.2 ≤ p2 - 1)
    (hgap : Separated (2 * ((max p1 p2 - 1 : ℕ) : K) * tol) (clampedU x0 xl (L.map (·.1))))
    (s : Obj K × Obj K) (hw1 : C06.WF s.1 1) (hw2 : C06.WF s.2 1)
    (hb1 : C06.reparamOk (s.1.basis 0) 0 1
      = openBasis p1 (clampedU x0 xl (L.map (·.1))) (clampedM p1 (L.map (·.2.1))))
    (hb2 : C06.reparamOk (s.2.basis 0) 0 1
      = openBasis p2 (clampedU x0 xl (L.map (·.1))) (clampedM p2 (L.map (·.2.2)))) :
    ∃ r, identicalDir tol c1 c2 s 0 = .ok r
      ∧ r.1.basis 0 = openBasis (max p1 p2) (clampedU x0 xl (L.map (·.1)))
          (clampedM (max p1 p2) (L.map (fun e =>
            max (raisedMult (max p1 p2 - p1) e.2.1) (raisedMult (max p1 p2 - p2) e.2.2))))
      ∧ r.2.basis 0 = r.1.basis 0
      ∧ Rescaled 1 0 (s.1.basis 0).start (s.1.basis 0).stop s.1 r.1
      ∧ Rescaled 1 0 (s.2.basis 0).start (s.2.basis 0).stop s.2 r.2 :=
  core_open_curves tol htol c1 c2 p1 p2 hp1 hp2 x0 xl L hm hgap s _ hw1 hw2
    (stageReparam_succeeds hw1 hw2 (0 : Fin 1) (by decide))
    ((reparamObj_basis hw1 (0 : Fin 1)).trans hb1) ((reparamObj_basis hw2 (0 : Fin 1)).trans hb2)

theorem open_surfaces_entries (tol : K) (htol : 0 < tol) (p1 p2 : ℕ) (hp1 : 2 ≤ p1) (hp2 : 2 ≤ p2) (x0 xl : K)
    (L : List (K × ℕ × ℕ)) (hm : ∀ e ∈ L, e.2.1 ≤ p1 - 1 ∧ e.2.2 ≤ p2 - 1)
    (hgap : Separated (2 * ((max p1 p2 - 1 : ℕ) : K) * tol) (clampedU x0 xl (L.map (·.1))))
    (i : Fin 2) (s : Obj K × Obj K) (hw1 : C06.WF s.1 2) (hw2 : C06.WF s.2 2)
    (hb1 : C06.reparamOk (s.1.basis i) 0 1
      = openBasis p1 (clampedU x0 xl (L.map (·.1))) (clampedM p1 (L.map (·.2.1))))
    (hb2 : C06.reparamOk (s.2.basis i) 0 1
      = openBasis p2 (clampedU x0 xl (L.map (·.1))) (clampedM p2 (L.map (·.2.2))))
    (hother₁ : p1 < max p1 p2 → ∀ k : Fin 2, k ≠ i → GrevilleOK tol (s.1.basis k))
    (hother₂ : p2 < max p1 p2 → ∀ k : Fin 2, k ≠ i → GrevilleOK tol (s.2.basis k))
    (hguard₁ : p1 < max p1 p2 → Obj.raiseGuard tol (C06.reparamObj s.1 i 0 1).bases.toList = .ok true)
    (hguard₂ : p2 < max p1 p2 → Obj.raiseGuard tol (C06.reparamObj s.2 i 0 1).bases.toList = .ok true) :
    ∃ r, identicalDir tol false false s i = .ok r
      ∧ r.1.basis i = openBasis (max p1 p2) (clampedU x0 xl (L.map (·.1)))
          (clampedM (max p1 p2) (L.map (fun e =>
            max (raisedMult (max p1 p2 - p1) e.2.1) (raisedMult (max p1 p2 - p2) e.2.2))))
      ∧ r.2.basis i = r.1.basis i
      ∧ (∀ k : Fin 2, k ≠ i → r.1.basis k = s.1.basis k ∧ r.2.basis k = s.2.basis k)
      ∧ Rescaled 2 i (s.1.basis i).start (s.1.basis i).stop s.1 r.1
      ∧ Rescaled 2 i (s.2.basis i).start (s.2.basis i).stop s.2 r.2
      ∧ C06.WF r.1 2 ∧ C06.WF r.2 2 :=
  core_open_surfaces tol htol p1 p2 hp1 hp2 x0 xl L hm hgap i s _ hw1 hw2
    (stageReparam_succeeds hw1 hw2 i (by have := i.isLt; omega))
    ((reparamObj_basis hw1 i).trans hb1) ((reparamObj_basis hw2 i).trans hb2)
    (fun h k hk => by
      show GrevilleOK tol ((C06.reparamObj s.1 i 0 1).basis k)
      rw [reparamObj_basis_ne s.1 i k (fun e => hk (Fin.ext e))]; exact hother₁ h k hk)
    (fun h k hk => by
      show GrevilleOK tol ((C06.reparamObj s.2 i 0 1).basis k)
      rw [reparamObj_basis_ne s.2 i k (fun e => hk (Fin.ext e))]; exact hother₂ h k hk)
    hguard₁ hguard₂

theorem open_volumes_entries (tol : K) (htol : 0 < tol) (p1 p2 : ℕ) (hp1 : 2 ≤ p1) (hp2 : 2 ≤ p2) (x0 xl : K)
    (L : List (K × ℕ × ℕ)) (hm : ∀ e ∈ L, e.2.1 ≤ p1 - 1 ∧ e.2.2 ≤ p2 - 1)
    (hgap : Separated (2 * ((max p1 p2 - 1 : ℕ) : K) * tol) (clampedU x0 xl (L.map (·.1))))
    (i : Fin 3) (s : Obj K × Obj K) (hw1 : C06.WF s.1 3) (hw2 : C06.WF s.2 3)
    (hb1 : C06.reparamOk (s.1.basis i) 0 1
      = openBasis p1 (clampedU x0 xl (L.map (·.1))) (clampedM p1 (L.map (·.2.1))))
    (hb2 : C06.reparamOk (s.2.basis i) 0 1
      = openBasis p2 (clampedU x0 xl (L.map (·.1))) (clampedM p2 (L.map (·.2.2))))
    (hother₁ : p1 < max p1 p2 → ∀ k : Fin 3, k ≠ i → GrevilleOK tol (s.1.basis k))
    (hother₂ : p2 < max p1 p2 → ∀ k : Fin 3, k ≠ i → GrevilleOK tol (s.2.basis k))
    (hguard₁ : p1 < max p1 p2 → Obj.raiseGuard tol (C06.reparamObj s.1 i 0 1).bases.toList = .ok true)
    (hguard₂ : p2 < max p1 p2 → Obj.raiseGuard tol (C06.reparamObj s.2 i 0 1).bases.toList = .ok true) :
    ∃ r, identicalDir tol false false s i = .ok r
      ∧ r.1.basis i = openBasis (max p1 p2) (clampedU x0 xl (L.map (·.1)))
          (clampedM (max p1 p2) (L.map (fun e =>
            max (raisedMult (max p1 p2 - p1) e.2.1) (raisedMult (max p1 p2 - p2) e.2.2))))
      ∧ r.2.basis i = r.1.basis i
      ∧ (∀ k : Fin 3, k ≠ i → r.1.basis k = s.1.basis k ∧ r.2.basis k = s.2.basis k)
      ∧ Rescaled 3 i (s.1.basis i).start (s.1.basis i).stop s.1 r.1
      ∧ Rescaled 3 i (s.2.basis i).start (s.2.basis i).stop s.2 r.2
      ∧ C06.WF r.1 3 ∧ C06.WF r.2 3 :=
  core_open_volumes tol htol p1 p2 hp1 hp2 x0 xl L hm hgap i s _ hw1 hw2
    (stageReparam_succeeds hw1 hw2 i (by have := i.isLt; omega))
    ((reparamObj_basis hw1 i).trans hb1) ((reparamObj_basis hw2 i).trans hb2)
    (fun h k hk => by
      show GrevilleOK tol ((C06.reparamObj s.1 i 0 1).basis k)
      rw [reparamObj_basis_ne s.1 i k (fun e => hk (Fin.ext e))]; exact hother₁ h k hk)
    (fun h k hk => by
      show GrevilleOK tol ((C06.reparamObj s.2 i 0 1).basis k)
      rw [reparamObj_basis_ne s.2 i k (fun e => hk (Fin.ext e))]; exact hother₂ h k hk)
    hguard₁ hguard₂

/-! ## `direction=None`, `L` explicit -/

theorem open_surfaces_all_entries (tol : K) (htol : 0 < tol) (p1 p2 : Fin 2 → ℕ)
    (hp1 : ∀ i, 2 ≤ p1 i) (hp2 : ∀ i, 2 ≤ p2 i) (x0 xl : Fin 2 → K) (L : Fin 2 → List (K × ℕ × ℕ))
    (hm : ∀ i, ∀ e ∈ L i, e.2.1 ≤ p1 i - 1 ∧ e.2.2 ≤ p2 i - 1)
    (hgap : ∀ i, Separated (2 * ((max (p1 i) (p2 i) - 1 : ℕ) : K) * tol)
      (clampedU (x0 i) (xl i) ((L i).map (·.1))))
    (o1 o2 : Obj K) (h1 : o1.WF) (h2 : o2.WF) (hw1 : C06.WF o1 2) (hw2 : C06.WF o2 2)
    (hb1 : ∀ i : Fin 2, C06.reparamOk (o1.basis i) 0 1
      = openBasis (p1 i) (clampedU (x0 i) (xl i) ((L i).map (·.1))) (clampedM (p1 i) ((L i).map (·.2.1))))
    (hb2 : ∀ i : Fin 2, C06.reparamOk (o2.basis i) 0 1
      = openBasis (p2 i) (clampedU (x0 i) (xl i) ((L i).map (·.1))) (clampedM (p2 i) ((L i).map (·.2.2))))
    (hG1 : p1 0 < max (p1 0) (p2 0) → GrevilleOK tol (o1.basis 1))
    (hG2 : p2 0 < max (p1 0) (p2 0) → GrevilleOK tol (o2.basis 1)) :
    ∃ r, makeIdentical tol false false o1 o2 none = .ok r
      ∧ C06.WF r.1 2 ∧ C06.WF r.2 2
      ∧ (∀ i : Fin 2,
          r.1.basis i = openBasis (max (p1 i) (p2 i)) (clampedU (x0 i) (xl i) ((L i).map (·.1)))
            (clampedM (max (p1 i) (p2 i)) ((L i).map (fun e =>
              max (raisedMult (max (p1 i) (p2 i) - p1 i) e.2.1) (raisedMult (max (p1 i) (p2 i) - p2 i) e.2.2))))
          ∧ r.2.basis i = r.1.basis i)
      ∧ (r.1.rational = (makeCompatible o1 o2).1.rational ∧ r.2.rational = (makeCompatible o1 o2).2.rational
          ∧ r.1.ncomp = (makeCompatible o1 o2).1.ncomp ∧ r.2.ncomp = (makeCompatible o1 o2).2.ncomp)
      ∧ (∀ comp, comp < (makeCompatible o1 o2).1.ncomp → ∀ (s : Fin 2 → Side) (u : Fin 2 → K),
          (C06.toTP r.1 2 comp).eval s
              (fun d => (u d - (o1.basis d).start) / ((o1.basis d).stop - (o1.basis d).start))
            = (C06.toTP (makeCompatible o1 o2).1 2 comp).eval s u)
      ∧ (∀ comp, comp < (makeCompatible o1 o2).2.ncomp → ∀ (s : Fin 2 → Side) (u : Fin 2 → K),
          (C06.toTP r.2 2 comp).eval s
              (fun d => (u d - (o2.basis d).start) / ((o2.basis d).stop - (o2.basis d).start))
            = (C06.toTP (makeCompatible o1 o2).2 2 comp).eval s u) := by
  set c := makeCompatible o1 o2 with hcdef
  obtain ⟨hwc1, hwc2⟩ := makeCompatible_wf06 hw1 hw2
  obtain ⟨hcb1, hcb2⟩ := makeCompatible_bases o1 o2
  obtain ⟨_, _, hd1, hd2, hrr1, hrr2⟩ := makeCompatible_spec h1 h2
  have hbas1 : ∀ k, c.1.basis k = o1.basis k := fun k => by unfold Obj.basis; rw [hcb1]
  have hbas2 : ∀ k, c.2.basis k = o2.basis k := fun k => by unfold Obj.basis; rw [hcb2]
  have hnb1 : ∀ i : Fin 2, C06.reparamOk (c.1.basis i) 0 1
      = openBasis (p1 i) (clampedU (x0 i) (xl i) ((L i).map (·.1))) (clampedM (p1 i) ((L i).map (·.2.1))) :=
    fun i => by rw [hbas1]; exact hb1 i
  have hnb2 : ∀ i : Fin 2, C06.reparamOk (c.2.basis i) 0 1
      = openBasis (p2 i) (clampedU (x0 i) (xl i) ((L i).map (·.1))) (clampedM (p2 i) ((L i).map (·.2.2))) :=
    fun i => by rw [hbas2]; exact hb2 i
  have hcr : c.1.rational = c.2.rational := hrr1.trans hrr2.symm
  have hcd : c.1.dimension = c.2.dimension := hd1.trans hd2.symm
  have hfac : ∀ i : Fin 2, tol ≤ 2 * ((max (p1 i) (p2 i) - 1 : ℕ) : K) * tol := by
    intro i
    have h1 : (1 : K) ≤ ((max (p1 i) (p2 i) - 1 : ℕ) : K) := by
      have : 1 ≤ max (p1 i) (p2 i) - 1 := by have := le_max_left (p1 i) (p2 i); have := hp1 i; omega
      exact_mod_cast this
    nlinarith
  have hsep : ∀ i : Fin 2, Separated tol (clampedU (x0 i) (xl i) ((L i).map (·.1))) :=
    fun i => separated_mono (hfac i) (hgap i)
  have hsize : ∀ o : Obj K, C06.WF o 2 → o.bases.size = o.pardim := by
    intro o hw
    unfold Obj.pardim
    rw [hw.size, hw.shape, C06.midx_length]
  have hne01 : ∀ k : Fin 2, k ≠ 0 → k = 1 := by intro k hk; fin_cases k <;> simp_all
  have hne10 : ∀ k : Fin 2, k ≠ 1 → k = 0 := by intro k hk; fin_cases k <;> simp_all
  -- the guard for an object whose re-parametrised FIRST basis is clamped in common-entry form
  have hguard_of : ∀ (o : Obj K) (i : Fin 2), C06.WF o 2 → ∀ (p : ℕ) (f : K × ℕ × ℕ → ℕ), 1 ≤ p →
      (C06.reparamObj o i 0 1).basis 0
        = openBasis p (clampedU (x0 0) (xl 0) ((L 0).map (·.1))) (clampedM p ((L 0).map f)) →
      Obj.raiseGuard tol (C06.reparamObj o i 0 1).bases.toList = .ok true := by
    intro o i hw p f hp hb
    have hw' := (C06.wf_reparamObj hw i (zero_lt_one : (0 : K) < 1)).1
    rw [bases_toList_two hw', hb]
    exact raiseGuard_common tol htol p hp _ _ _ _ _ (hsep 0) _
  -- ROUND 0
  obtain ⟨r0, hrun0, hr0b, hr0e, hr0o, hres01, hres02, hwr01, hwr02⟩ :=
    open_surfaces_entries tol htol (p1 0) (p2 0) (hp1 0) (hp2 0) (x0 0) (xl 0) (L 0) (hm 0) (hgap 0) 0 c
      hwc1 hwc2 (hnb1 0) (hnb2 0)
      (fun h k hk => by rw [hne01 k hk, hbas1]; exact hG1 h)
      (fun h k hk => by rw [hne01 k hk, hbas2]; exact hG2 h)
      (fun _ => hguard_of c.1 0 hwc1 (p1 0) (·.2.1) (by have := hp1 0; omega)
        ((reparamObj_basis hwc1 (0 : Fin 2)).trans (hnb1 0)))
      (fun _ => hguard_of c.2 0 hwc2 (p2 0) (·.2.2) (by have := hp2 0; omega)
        ((reparamObj_basis hwc2 (0 : Fin 2)).trans (hnb2 0)))
  obtain ⟨ob01, ob02⟩ := identicalDir_other (s := c) (fun h => by cases h) (fun _ => hsize _ hwc1)
    (fun h => by cases h) (fun _ => hsize _ hwc2) hrun0
  have hr0r : r0.1.rational = r0.2.rational := by rw [ob01.rational, ob02.rational]; exact hcr
  have hr0d : r0.1.dimension = r0.2.dimension := by
    rw [dimension_eq_of hres01.ncomp ob01.rational, dimension_eq_of hres02.ncomp ob02.rational]; exact hcd
  -- ROUND 1
  have hB0le : ∀ e ∈ L 0, max (raisedMult (max (p1 0) (p2 0) - p1 0) e.2.1)
      (raisedMult (max (p1 0) (p2 0) - p2 0) e.2.2) ≤ max (p1 0) (p2 0) - 1 := by
    intro e he
    have := hm 0 e he
    have h1 := le_max_left (p1 0) (p2 0)
    have h2 := le_max_right (p1 0) (p2 0)
    have := hp1 0
    have := hp2 0
    unfold raisedMult
    refine max_le ?_ ?_ <;> split_ifs <;> omega
  have hp0 : 2 ≤ max (p1 0) (p2 0) := le_trans (hp1 0) (le_max_left _ _)
  have hG0 : GrevilleOK tol (r0.1.basis ((0 : Fin 2) : ℕ)) := by
    rw [hr0b]
    exact grevilleOK_common tol htol _ hp0 _ _ _ _ _ hB0le (hgap 0)
  have hr01 : ∀ j : Fin 2, j ≠ 0 → r0.1.basis j = c.1.basis j ∧ r0.2.basis j = c.2.basis j := hr0o
  obtain ⟨r1, hrun1, hr1b, hr1e, hr1o, hres11, hres12, hwr11, hwr12⟩ :=
    open_surfaces_entries tol htol (p1 1) (p2 1) (hp1 1) (hp2 1) (x0 1) (xl 1) (L 1) (hm 1) (hgap 1) 1 r0
      hwr01 hwr02
      ((congrArg (fun b => C06.reparamOk b 0 1) (hr01 1 (by decide)).1).trans (hnb1 1))
      ((congrArg (fun b => C06.reparamOk b 0 1) (hr01 1 (by decide)).2).trans (hnb2 1))
      (fun _ k hk => by rw [hne10 k hk]; exact hG0)
      (fun _ k hk => by rw [hne10 k hk]; exact hr0e ▸ hG0)
      (fun _ => hguard_of r0.1 1 hwr01 (max (p1 0) (p2 0)) _ (by omega)
        ((reparamObj_basis_ne r0.1 1 0 (by decide)).trans hr0b))
      (fun _ => hguard_of r0.2 1 hwr02 (max (p1 0) (p2 0)) _ (by omega)
        ((reparamObj_basis_ne r0.2 1 0 (by decide)).trans (hr0e.trans hr0b)))
  obtain ⟨ob11, ob12⟩ := identicalDir_other (s := r0) (fun h => by cases h) (fun _ => hsize _ hwr01)
    (fun h => by cases h) (fun _ => hsize _ hwr02) hrun1
  -- the loop
  have hloop : makeIdentical tol false false o1 o2 none = .ok r1 := by
    show identicalLoop tol false false (List.range c.1.pardimB) c = .ok r1
    have hpb : c.1.pardimB = 2 := by unfold Obj.pardimB; exact hwc1.size
    rw [hpb]
    show identicalLoop tol false false [0, 1] c = .ok r1
    unfold identicalLoop
    have e0 := makeIdenticalDir_eq tol false false hwc1 hcr hcd (0 : Fin 2) (by decide)
    have e0' : makeIdenticalDir tol false false c (.int ((0 : ℕ) : Int)) = .ok r0 := e0.trans hrun0
    simp only [e0']
    unfold identicalLoop
    have e1 := makeIdenticalDir_eq tol false false hwr01 hr0r hr0d (1 : Fin 2) (by decide)
    have e1' : makeIdenticalDir tol false false r0 (.int ((1 : ℕ) : Int)) = .ok r1 := e1.trans hrun1
    simp only [e1']
    rfl
  refine ⟨r1, hloop, hwr11, hwr12, ?_, ⟨?_, ?_, ?_, ?_⟩, ?_, ?_⟩
  · intro i
    fin_cases i
    · exact ⟨((hr1o 0 (by decide)).1).trans hr0b, ((hr1o 0 (by decide)).2).trans (hr0e.trans ((hr1o 0 (by decide)).1).symm)⟩
    · exact ⟨hr1b, hr1e⟩
  · rw [ob11.rational, ob01.rational]
  · rw [ob12.rational, ob02.rational]
  · rw [hres11.ncomp, hres01.ncomp]
  · rw [hres12.ncomp, hres02.ncomp]
  · intro comp hc s u
    refine Eq.trans ?_ (hres01.eval comp hc s u)
    refine Eq.trans ?_ (hres11.eval comp (by rw [hres01.ncomp]; exact hc) s _)
    congr 1
    funext d
    have e1 : r0.1.basis 1 = o1.basis 1 := ((hr01 1 (by decide)).1).trans (hbas1 1)
    fin_cases d
    · simp [Function.update, hbas1]
    · simp [Function.update, e1]
  · intro comp hc s u
    refine Eq.trans ?_ (hres02.eval comp hc s u)
    refine Eq.trans ?_ (hres12.eval comp (by rw [hres02.ncomp]; exact hc) s _)
    congr 1
    funext d
    have e1 : r0.2.basis 1 = o2.basis 1 := ((hr01 1 (by decide)).2).trans (hbas2 1)
    fin_cases d
    · simp [Function.update, hbas2]
    · simp [Function.update, e1]

/-- `direction=None` on two clamped VOLUMES, three rounds (`L` explicit). -/
theorem open_volumes_all_entries (tol : K) (htol : 0 < tol) (p1 p2 : Fin 3 → ℕ)
    (hp1 : ∀ i, 2 ≤ p1 i) (hp2 : ∀ i, 2 ≤ p2 i) (x0 xl : Fin 3 → K) (L : Fin 3 → List (K × ℕ × ℕ))
    (hm : ∀ i, ∀ e ∈ L i, e.2.1 ≤ p1 i - 1 ∧ e.2.2 ≤ p2 i - 1)
    (hgap : ∀ i, Separated (2 * ((max (p1 i) (p2 i) - 1 : ℕ) : K) * tol)
      (clampedU (x0 i) (xl i) ((L i).map (·.1))))
    (o1 o2 : Obj K) (h1 : o1.WF) (h2 : o2.WF) (hw1 : C06.WF o1 3) (hw2 : C06.WF o2 3)
    (hb1 : ∀ i : Fin 3, C06.reparamOk (o1.basis i) 0 1
      = openBasis (p1 i) (clampedU (x0 i) (xl i) ((L i).map (·.1))) (clampedM (p1 i) ((L i).map (·.2.1))))
    (hb2 : ∀ i : Fin 3, C06.reparamOk (o2.basis i) 0 1
      = openBasis (p2 i) (clampedU (x0 i) (xl i) ((L i).map (·.1))) (clampedM (p2 i) ((L i).map (·.2.2))))
    (hG1 : ∀ i k : Fin 3, i < k → p1 i < max (p1 i) (p2 i) → GrevilleOK tol (o1.basis k))
    (hG2 : ∀ i k : Fin 3, i < k → p2 i < max (p1 i) (p2 i) → GrevilleOK tol (o2.basis k)) :
    ∃ r, makeIdentical tol false false o1 o2 none = .ok r
      ∧ C06.WF r.1 3 ∧ C06.WF r.2 3
      ∧ (∀ i : Fin 3,
          r.1.basis i = openBasis (max (p1 i) (p2 i)) (clampedU (x0 i) (xl i) ((L i).map (·.1)))
            (clampedM (max (p1 i) (p2 i)) ((L i).map (fun e =>
              max (raisedMult (max (p1 i) (p2 i) - p1 i) e.2.1) (raisedMult (max (p1 i) (p2 i) - p2 i) e.2.2))))
          ∧ r.2.basis i = r.1.basis i)
      ∧ (r.1.rational = (makeCompatible o1 o2).1.rational ∧ r.2.rational = (makeCompatible o1 o2).2.rational
          ∧ r.1.ncomp = (makeCompatible o1 o2).1.ncomp ∧ r.2.ncomp = (makeCompatible o1 o2).2.ncomp)
      ∧ (∀ comp, comp < (makeCompatible o1 o2).1.ncomp → ∀ (s : Fin 3 → Side) (u : Fin 3 → K),
          (C06.toTP r.1 3 comp).eval s
              (fun d => (u d - (o1.basis d).start) / ((o1.basis d).stop - (o1.basis d).start))
            = (C06.toTP (makeCompatible o1 o2).1 3 comp).eval s u)
      ∧ (∀ comp, comp < (makeCompatible o1 o2).2.ncomp → ∀ (s : Fin 3 → Side) (u : Fin 3 → K),
          (C06.toTP r.2 3 comp).eval s
              (fun d => (u d - (o2.basis d).start) / ((o2.basis d).stop - (o2.basis d).start))
            = (C06.toTP (makeCompatible o1 o2).2 3 comp).eval s u) := by
  set c := makeCompatible o1 o2 with hcdef
  obtain ⟨hwc1, hwc2⟩ := makeCompatible_wf06 hw1 hw2
  obtain ⟨hcb1, hcb2⟩ := makeCompatible_bases o1 o2
  obtain ⟨_, _, hd1, hd2, hrr1, hrr2⟩ := makeCompatible_spec h1 h2
  have hbas1 : ∀ k, c.1.basis k = o1.basis k := fun k => by unfold Obj.basis; rw [hcb1]
  have hbas2 : ∀ k, c.2.basis k = o2.basis k := fun k => by unfold Obj.basis; rw [hcb2]
  have hnb1 : ∀ i : Fin 3, C06.reparamOk (c.1.basis i) 0 1
      = openBasis (p1 i) (clampedU (x0 i) (xl i) ((L i).map (·.1))) (clampedM (p1 i) ((L i).map (·.2.1))) :=
    fun i => by rw [hbas1]; exact hb1 i
  have hnb2 : ∀ i : Fin 3, C06.reparamOk (c.2.basis i) 0 1
      = openBasis (p2 i) (clampedU (x0 i) (xl i) ((L i).map (·.1))) (clampedM (p2 i) ((L i).map (·.2.2))) :=
    fun i => by rw [hbas2]; exact hb2 i
  have hcr : c.1.rational = c.2.rational := hrr1.trans hrr2.symm
  have hcd : c.1.dimension = c.2.dimension := hd1.trans hd2.symm
  have hfac : ∀ i : Fin 3, tol ≤ 2 * ((max (p1 i) (p2 i) - 1 : ℕ) : K) * tol := by
    intro i
    have h1 : (1 : K) ≤ ((max (p1 i) (p2 i) - 1 : ℕ) : K) := by
      have : 1 ≤ max (p1 i) (p2 i) - 1 := by have := le_max_left (p1 i) (p2 i); have := hp1 i; omega
      exact_mod_cast this
    nlinarith
  have hsep : ∀ i : Fin 3, Separated tol (clampedU (x0 i) (xl i) ((L i).map (·.1))) :=
    fun i => separated_mono (hfac i) (hgap i)
  have hsize : ∀ o : Obj K, C06.WF o 3 → o.bases.size = o.pardim := by
    intro o hw
    unfold Obj.pardim
    rw [hw.size, hw.shape, C06.midx_length]
  have hk0 : ∀ k : Fin 3, k ≠ 0 → k = 1 ∨ k = 2 := by decide
  have hk1 : ∀ k : Fin 3, k ≠ 1 → k = 0 ∨ k = 2 := by decide
  have hk2 : ∀ k : Fin 3, k ≠ 2 → k = 0 ∨ k = 1 := by decide
  -- the guard for an object whose re-parametrised FIRST basis is clamped in common-entry form
  have hguard_of : ∀ (o : Obj K) (i : Fin 3), C06.WF o 3 → ∀ (p : ℕ) (f : K × ℕ × ℕ → ℕ), 1 ≤ p →
      (C06.reparamObj o i 0 1).basis 0
        = openBasis p (clampedU (x0 0) (xl 0) ((L 0).map (·.1))) (clampedM p ((L 0).map f)) →
      Obj.raiseGuard tol (C06.reparamObj o i 0 1).bases.toList = .ok true := by
    intro o i hw p f hp hb
    have hw' := (C06.wf_reparamObj hw i (zero_lt_one : (0 : K) < 1)).1
    rw [bases_toList_three hw', hb]
    exact raiseGuard_common tol htol p hp _ _ _ _ _ (hsep 0) _
  -- the union bases are `GrevilleOK`
  have hBle : ∀ i : Fin 3, ∀ e ∈ L i, max (raisedMult (max (p1 i) (p2 i) - p1 i) e.2.1)
      (raisedMult (max (p1 i) (p2 i) - p2 i) e.2.2) ≤ max (p1 i) (p2 i) - 1 := by
    intro i e he
    have := hm i e he
    have h1 := le_max_left (p1 i) (p2 i)
    have h2 := le_max_right (p1 i) (p2 i)
    have := hp1 i
    have := hp2 i
    unfold raisedMult
    refine max_le ?_ ?_ <;> split_ifs <;> omega
  have hpm : ∀ i : Fin 3, 2 ≤ max (p1 i) (p2 i) := fun i => le_trans (hp1 i) (le_max_left _ _)
  have hGU : ∀ i : Fin 3, GrevilleOK tol (openBasis (max (p1 i) (p2 i)) (clampedU (x0 i) (xl i) ((L i).map (·.1)))
      (clampedM (max (p1 i) (p2 i)) ((L i).map (fun e =>
        max (raisedMult (max (p1 i) (p2 i) - p1 i) e.2.1) (raisedMult (max (p1 i) (p2 i) - p2 i) e.2.2))))) :=
    fun i => grevilleOK_common tol htol _ (hpm i) _ _ _ _ _ (hBle i) (hgap i)
  -- ROUND 0
  obtain ⟨r0, hrun0, hr0b, hr0e, hr0o, hres01, hres02, hwr01, hwr02⟩ :=
    open_volumes_entries tol htol (p1 0) (p2 0) (hp1 0) (hp2 0) (x0 0) (xl 0) (L 0) (hm 0) (hgap 0) 0 c
      hwc1 hwc2 (hnb1 0) (hnb2 0)
      (fun h k hk => by
        rw [hbas1]
        rcases hk0 k hk with rfl | rfl
        · exact hG1 0 1 (by decide) h
        · exact hG1 0 2 (by decide) h)
      (fun h k hk => by
        rw [hbas2]
        rcases hk0 k hk with rfl | rfl
        · exact hG2 0 1 (by decide) h
        · exact hG2 0 2 (by decide) h)
      (fun _ => hguard_of c.1 0 hwc1 (p1 0) (·.2.1) (by have := hp1 0; omega)
        ((reparamObj_basis hwc1 (0 : Fin 3)).trans (hnb1 0)))
      (fun _ => hguard_of c.2 0 hwc2 (p2 0) (·.2.2) (by have := hp2 0; omega)
        ((reparamObj_basis hwc2 (0 : Fin 3)).trans (hnb2 0)))
  obtain ⟨ob01, ob02⟩ := identicalDir_other (s := c) (fun h => by cases h) (fun _ => hsize _ hwc1)
    (fun h => by cases h) (fun _ => hsize _ hwc2) hrun0
  have hr0r : r0.1.rational = r0.2.rational := by rw [ob01.rational, ob02.rational]; exact hcr
  have hr0d : r0.1.dimension = r0.2.dimension := by
    rw [dimension_eq_of hres01.ncomp ob01.rational, dimension_eq_of hres02.ncomp ob02.rational]; exact hcd
  have hr0o' : ∀ j : Fin 3, j ≠ 0 → r0.1.basis j = c.1.basis j ∧ r0.2.basis j = c.2.basis j := hr0o
  have hr0b' : r0.1.basis ((0 : Fin 3) : ℕ) = _ := hr0b
  have hr0e' : r0.2.basis ((0 : Fin 3) : ℕ) = r0.1.basis ((0 : Fin 3) : ℕ) := hr0e
  -- ROUND 1
  obtain ⟨r1, hrun1, hr1b, hr1e, hr1o, hres11, hres12, hwr11, hwr12⟩ :=
    open_volumes_entries tol htol (p1 1) (p2 1) (hp1 1) (hp2 1) (x0 1) (xl 1) (L 1) (hm 1) (hgap 1) 1 r0
      hwr01 hwr02
      ((congrArg (fun b => C06.reparamOk b 0 1) (hr0o' 1 (by decide)).1).trans (hnb1 1))
      ((congrArg (fun b => C06.reparamOk b 0 1) (hr0o' 1 (by decide)).2).trans (hnb2 1))
      (fun h k hk => by
        rcases hk1 k hk with rfl | rfl
        · rw [hr0b']; exact hGU 0
        · rw [(hr0o' 2 (by decide)).1, hbas1]; exact hG1 1 2 (by decide) h)
      (fun h k hk => by
        rcases hk1 k hk with rfl | rfl
        · rw [hr0e', hr0b']; exact hGU 0
        · rw [(hr0o' 2 (by decide)).2, hbas2]; exact hG2 1 2 (by decide) h)
      (fun _ => hguard_of r0.1 1 hwr01 (max (p1 0) (p2 0)) _ (by have := hpm 0; omega)
        ((reparamObj_basis_ne r0.1 1 0 (by decide)).trans hr0b))
      (fun _ => hguard_of r0.2 1 hwr02 (max (p1 0) (p2 0)) _ (by have := hpm 0; omega)
        ((reparamObj_basis_ne r0.2 1 0 (by decide)).trans (hr0e.trans hr0b)))
  obtain ⟨ob11, ob12⟩ := identicalDir_other (s := r0) (fun h => by cases h) (fun _ => hsize _ hwr01)
    (fun h => by cases h) (fun _ => hsize _ hwr02) hrun1
  have hr1r : r1.1.rational = r1.2.rational := by rw [ob11.rational, ob12.rational]; exact hr0r
  have hr1d : r1.1.dimension = r1.2.dimension := by
    rw [dimension_eq_of hres11.ncomp ob11.rational, dimension_eq_of hres12.ncomp ob12.rational]; exact hr0d
  have hr1o' : ∀ j : Fin 3, j ≠ 1 → r1.1.basis j = r0.1.basis j ∧ r1.2.basis j = r0.2.basis j := hr1o
  have hr1b' : r1.1.basis ((1 : Fin 3) : ℕ) = _ := hr1b
  have hr1e' : r1.2.basis ((1 : Fin 3) : ℕ) = r1.1.basis ((1 : Fin 3) : ℕ) := hr1e
  have hr10a : r1.1.basis ((0 : Fin 3) : ℕ) = _ := ((hr1o' 0 (by decide)).1).trans hr0b'
  have hr10b : r1.2.basis ((0 : Fin 3) : ℕ) = _ := ((hr1o' 0 (by decide)).2).trans (hr0e'.trans hr0b')
  -- ROUND 2
  obtain ⟨r2, hrun2, hr2b, hr2e, hr2o, hres21, hres22, hwr21, hwr22⟩ :=
    open_volumes_entries tol htol (p1 2) (p2 2) (hp1 2) (hp2 2) (x0 2) (xl 2) (L 2) (hm 2) (hgap 2) 2 r1
      hwr11 hwr12
      ((congrArg (fun b => C06.reparamOk b 0 1)
        (((hr1o' 2 (by decide)).1).trans (hr0o' 2 (by decide)).1)).trans (hnb1 2))
      ((congrArg (fun b => C06.reparamOk b 0 1)
        (((hr1o' 2 (by decide)).2).trans (hr0o' 2 (by decide)).2)).trans (hnb2 2))
      (fun _ k hk => by
        rcases hk2 k hk with rfl | rfl
        · rw [hr10a]; exact hGU 0
        · rw [hr1b']; exact hGU 1)
      (fun _ k hk => by
        rcases hk2 k hk with rfl | rfl
        · rw [hr10b]; exact hGU 0
        · rw [hr1e', hr1b']; exact hGU 1)
      (fun _ => hguard_of r1.1 2 hwr11 (max (p1 0) (p2 0)) _ (by have := hpm 0; omega)
        ((reparamObj_basis_ne r1.1 2 0 (by decide)).trans hr10a))
      (fun _ => hguard_of r1.2 2 hwr12 (max (p1 0) (p2 0)) _ (by have := hpm 0; omega)
        ((reparamObj_basis_ne r1.2 2 0 (by decide)).trans hr10b))
  obtain ⟨ob21, ob22⟩ := identicalDir_other (s := r1) (fun h => by cases h) (fun _ => hsize _ hwr11)
    (fun h => by cases h) (fun _ => hsize _ hwr12) hrun2
  have hr2o' : ∀ j : Fin 3, j ≠ 2 → r2.1.basis j = r1.1.basis j ∧ r2.2.basis j = r1.2.basis j := hr2o
  -- the loop
  have hloop : makeIdentical tol false false o1 o2 none = .ok r2 := by
    show identicalLoop tol false false (List.range c.1.pardimB) c = .ok r2
    have hpb : c.1.pardimB = 3 := by unfold Obj.pardimB; exact hwc1.size
    rw [hpb]
    show identicalLoop tol false false [0, 1, 2] c = .ok r2
    unfold identicalLoop
    have e0 := makeIdenticalDir_eq tol false false hwc1 hcr hcd (0 : Fin 3) (by decide)
    have e0' : makeIdenticalDir tol false false c (.int ((0 : ℕ) : Int)) = .ok r0 := e0.trans hrun0
    simp only [e0']
    unfold identicalLoop
    have e1 := makeIdenticalDir_eq tol false false hwr01 hr0r hr0d (1 : Fin 3) (by decide)
    have e1' : makeIdenticalDir tol false false r0 (.int ((1 : ℕ) : Int)) = .ok r1 := e1.trans hrun1
    simp only [e1']
    unfold identicalLoop
    have e2 := makeIdenticalDir_eq tol false false hwr11 hr1r hr1d (2 : Fin 3) (by decide)
    have e2' : makeIdenticalDir tol false false r1 (.int ((2 : ℕ) : Int)) = .ok r2 := e2.trans hrun2
    simp only [e2']
    rfl
  refine ⟨r2, hloop, hwr21, hwr22, ?_, ⟨?_, ?_, ?_, ?_⟩, ?_, ?_⟩
  · intro i
    fin_cases i
    · exact ⟨((hr2o' 0 (by decide)).1).trans hr10a,
        ((hr2o' 0 (by decide)).2).trans (hr10b.trans (((hr2o' 0 (by decide)).1).trans hr10a).symm)⟩
    · exact ⟨((hr2o' 1 (by decide)).1).trans hr1b',
        ((hr2o' 1 (by decide)).2).trans (hr1e'.trans ((hr2o' 1 (by decide)).1).symm)⟩
    · exact ⟨hr2b, hr2e⟩
  · rw [ob21.rational, ob11.rational, ob01.rational]
  · rw [ob22.rational, ob12.rational, ob02.rational]
  · rw [hres21.ncomp, hres11.ncomp, hres01.ncomp]
  · rw [hres22.ncomp, hres12.ncomp, hres02.ncomp]
  · intro comp hc s u
    refine Eq.trans ?_ (hres01.eval comp hc s u)
    refine Eq.trans ?_ (hres11.eval comp (by rw [hres01.ncomp]; exact hc) s _)
    refine Eq.trans ?_ (hres21.eval comp (by rw [hres11.ncomp, hres01.ncomp]; exact hc) s _)
    congr 1
    funext d
    have e1 : r0.1.basis 1 = o1.basis 1 := ((hr0o' 1 (by decide)).1).trans (hbas1 1)
    have e2 : r1.1.basis 2 = o1.basis 2 :=
      (((hr1o' 2 (by decide)).1).trans (hr0o' 2 (by decide)).1).trans (hbas1 2)
    fin_cases d
    · simp [Function.update, hbas1]
    · simp [Function.update, e1]
    · simp [Function.update, e2]
  · intro comp hc s u
    refine Eq.trans ?_ (hres02.eval comp hc s u)
    refine Eq.trans ?_ (hres12.eval comp (by rw [hres02.ncomp]; exact hc) s _)
    refine Eq.trans ?_ (hres22.eval comp (by rw [hres12.ncomp, hres02.ncomp]; exact hc) s _)
    congr 1
    funext d
    have e1 : r0.2.basis 1 = o2.basis 1 := ((hr0o' 1 (by decide)).2).trans (hbas2 1)
    have e2 : r1.2.basis 2 = o2.basis 2 :=
      (((hr1o' 2 (by decide)).2).trans (hr0o' 2 (by decide)).2).trans (hbas2 2)
    fin_cases d
    · simp [Function.update, hbas2]
    · simp [Function.update, e1]
    · simp [Function.update, e2]

end C12

end Splipy
