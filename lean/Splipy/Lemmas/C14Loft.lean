import Splipy.Lemmas.C14Through
import Splipy.Lemmas.C14Grid
import Splipy.Lemmas.C14Unique
set_option linter.unusedSectionVars false

/-!
# C14: lofting curve sections — the loft passes through every section
-/

namespace Splipy
open Finset Tensor

namespace Tensor
variable {K : Type} [Field K]

/-- Entry `[i, k]` of a 2-d array with `C` columns. -/
def entry2 (t : Tensor K) (C i k : ℕ) : K := t.get (i * C + k)

theorem split3_2_0 (A C : ℕ) : split3 [A, C] 0 = (1, A, C) := by simp [split3, prod]

theorem at3_2_0 (t : Tensor K) {A C : ℕ} (hs : t.shape = [A, C]) (i k : ℕ) :
    t.at3 0 0 i k = t.entry2 C i k := by
  unfold at3 entry2; rw [hs, split3_2_0]; simp

end Tensor

namespace Interp
variable {K : Type} [Field K]

/-- `np.tensordot(M, t, axes=(1,0))` (= `M @ t`) on an `A × C` array. -/
theorem tensordot2 (M : Mat K) (t R : Tensor K) {A C : ℕ} (hs : t.shape = [A, C])
    (h : tensordot M t 0 = .ok R) :
    R.shape = [M.size, C] ∧
    ∀ r < M.size, ∀ k < C, R.entry2 C r k = ∑ i ∈ range A, M.get r i * t.entry2 C i k := by
  unfold tensordot at h
  split at h
  · exact absurd h (by simp)
  · have hR : R = moveFront (applyAxis M t 0) 0 := by cases h; rfl
    have hsh : (applyAxis M t 0).shape = [M.size, C] := by rw [shape_applyAxis_c14, hs]; rfl
    refine ⟨by rw [hR, shape_moveFront, hsh]; rfl, fun r hr k hk => ?_⟩
    have hg := get_moveFront (applyAxis M t 0) 0 0 r k (by rw [hsh, split3_2_0]; exact Nat.zero_lt_one)
      (by rw [hsh]; exact hr) (by rw [hsh, split3_2_0]; exact hk)
    rw [hsh, split3_2_0] at hg
    simp only [Nat.mul_one, Nat.add_zero] at hg
    rw [hR]
    show (moveFront (applyAxis M t 0) 0).get (r * C + k) = _
    rw [hg, at3_applyAxis_c14 M t 0 0 r k (by rw [hs]; simp) (by rw [hs, split3_2_0]; exact Nat.zero_lt_one) hr
      (by rw [hs, split3_2_0]; exact hk)]
    have : t.shape.getD 0 1 = A := by rw [hs]; rfl
    rw [this]
    exact sum_congr rfl (fun i _ => by rw [at3_2_0 t hs]; rfl)

/-- A successful `mapM` in the exception monad: same length, element-wise results. -/
theorem mapM_ok {α β : Type} (f : α → PyM β) : ∀ (l : List α) (r : List β), l.mapM f = .ok r →
    r.length = l.length ∧ ∀ i, i < l.length → ∀ (da : α) (db : β), f (l.getD i da) = .ok (r.getD i db) := by
  intro l
  induction l with
  | nil =>
    intro r h
    simp only [List.mapM_nil, pure, Except.pure] at h
    cases h
    exact ⟨rfl, fun i hi => absurd hi (by simp)⟩
  | cons a l ih =>
    intro r h
    simp only [List.mapM_cons, bind, Except.bind, pure, Except.pure] at h
    split at h
    · exact absurd h (by simp)
    · rename_i y hy
      split at h
      · exact absurd h (by simp)
      · rename_i ys hys
        cases h
        obtain ⟨h1, h2⟩ := ih ys hys
        refine ⟨by simp [h1], fun i hi da db => ?_⟩
        cases i with
        | zero => simpa using hy
        | succ i => simpa using h2 i (by simpa using hi) da db

/-- Entries of `x[:, r, :] = pts[r]` for 2-d sections of shape `m × nc`. -/
theorem stackAxis_entry (pts : List (Tensor K)) (m nc : ℕ) (hne : pts ≠ [])
    (hsh : ∀ p ∈ pts, p.shape = [m, nc]) :
    (stackAxis pts 1).shape = [m, pts.length, nc] ∧
    ∀ a < m, ∀ r < pts.length, ∀ c < nc,
      (stackAxis pts 1).entry3 pts.length nc a r c = (pts.getD r default).entry2 nc a c := by
  cases pts with
  | nil => exact absurd rfl hne
  | cons p ps =>
    have hp : p.shape = [m, nc] := hsh p (by simp)
    rcases p with ⟨psh, pdat⟩
    simp only at hp
    subst hp
    unfold stackAxis
    simp only [List.headD_cons]
    refine ⟨by simp, fun a ha r hr c hc => ?_⟩
    have hlt := Tensor.flat_lt_c14 ha hr hc
    unfold Tensor.entry3 Tensor.entry2 Tensor.get
    simp only [Array.getD_eq_getD_getElem?, Array.getElem?_ofFn]
    rw [dif_pos (by simpa [Tensor.prod] using hlt)]
    simp only [List.drop, Tensor.prod, List.foldl, Nat.one_mul, Option.getD_some,
      Tensor.decode_inner_c14 hc, Tensor.decode_mid_c14 hr hc, Tensor.decode_outer_c14 hr hc]

end Interp
end Splipy

namespace Splipy
open Finset Tensor
namespace Interp
variable {K : Type} [Field K] [LinearOrder K] [FloorRing K]

theorem greville_size (b : Basis K) (g : Array K) (h : b.greville = .ok g) : g.size = b.numFunctions := by
  unfold Basis.greville at h
  simp only at h
  split at h
  · exact absurd h (by simp)
  · cases h; simp

/-- Core of the loft theorem for curve sections, after the monadic plumbing has been unfolded. -/
theorem loft_curves_aux (b1 bL : Basis K) (tol : K) (secs pts : List (Tensor K)) (g1 v : List K)
    (m nc : ℕ) (iu iL : Mat K) (x cp0 cp : Tensor K)
    (hm : 0 < m) (hg1 : g1.length = m) (hn : 0 < secs.length) (hv : v.length = secs.length)
    (hsecs : ∀ s ∈ secs, s.shape = [m, nc])
    (hiu : invC (colloc b1 tol g1 0) = .ok iu) (hiL : invC (colloc bL tol v 0) = .ok iL)
    (hpts : secs.mapM (fun s => chain [colloc b1 tol g1 0] s 1) = .ok pts)
    (hx : x = stackAxis pts 1)
    (hcp0 : chain [iL, iu] x 2 = .ok cp0)
    (hcp : throughConstructor cp0 2 = .ok cp) :
    cp.shape = [m, secs.length, nc] ∧
    ∀ i < secs.length, ∀ a < m, ∀ c < nc,
      ∑ j ∈ range secs.length, (colloc bL tol v 0).get i j * cp.entry3 secs.length nc a j c
        = (secs.getD i default).entry2 nc a c := by
  set Nu := colloc b1 tol g1 0 with hNu
  set NL := colloc bL tol v 0 with hNL
  set n := secs.length with hnd
  have hNuS : Nu.size = m := by rw [hNu, size_colloc, hg1]
  have hNLS : NL.size = n := by rw [hNL, size_colloc, hv]
  obtain ⟨hiuS, _⟩ := invC_shape hiu (by rw [hNuS]; exact hm)
  obtain ⟨hiLS, _⟩ := invC_shape hiL (by rw [hNLS]; exact hn)
  rw [hNuS] at hiuS
  rw [hNLS] at hiLS
  -- the interpolation points of every section
  obtain ⟨hplen, hpel⟩ := mapM_ok _ secs pts hpts
  have hpt : ∀ i < n, (pts.getD i default).shape = [m, nc] ∧
      ∀ r < m, ∀ k < nc, (pts.getD i default).entry2 nc r k
        = ∑ a ∈ range m, Nu.get r a * (secs.getD i default).entry2 nc a k := by
    intro i hi
    have h1 := hpel i hi default default
    unfold chain at h1
    simp only [List.foldlM, bind, Except.bind, pure, Except.pure, Nat.sub_self] at h1
    split at h1
    · exact absurd h1 (by simp)
    · rename_i R hR
      have : R = pts.getD i default := by cases h1; rfl
      rw [this] at hR
      have hsi : (secs.getD i default).shape = [m, nc] := by
        apply hsecs
        rw [List.getD_eq_getElem?_getD, List.getElem?_eq_getElem hi]
        exact List.getElem_mem _
      obtain ⟨t1, t2⟩ := tensordot2 Nu _ _ hsi hR
      rw [hNuS] at t1 t2
      exact ⟨t1, t2⟩
  have hptsne : pts ≠ [] := by
    intro h0; rw [h0] at hplen; simp at hplen; omega
  have hpsh : ∀ p ∈ pts, p.shape = [m, nc] := by
    intro p hp
    obtain ⟨i, hi, rfl⟩ := List.getElem_of_mem hp
    have := (hpt i (by rw [hnd, ← hplen]; exact hi)).1
    rw [List.getD_eq_getElem?_getD, List.getElem?_eq_getElem hi] at this
    exact this
  obtain ⟨hxsh, hxent⟩ := stackAxis_entry pts m nc hptsne hpsh
  rw [← hx, hplen] at hxsh hxent
  obtain ⟨_, _, hc0sh, _, hc0ent⟩ := chain2 iL iu x cp0 hxsh hcp0
  rw [hiuS, hiLS] at hc0sh hc0ent
  obtain ⟨r, hr, rsh, _, rent⟩ := throughConstructor3 cp0 hc0sh
  have : r = cp := by rw [hr] at hcp; cases hcp; rfl
  subst this
  refine ⟨rsh, fun i hi a ha c hc => ?_⟩
  -- left inverse of the square collocation matrix in the section direction
  have hLu := left_inv_of_right_inv_c14 m (fun p q => Nu.get p q) (fun p q => iu.get p q)
    (fun p hp q hq => by
      have := invC_entries hiu p q (by rw [hNuS]; exact hp) (by rw [hNuS]; exact hq)
      rw [hNuS] at this; exact this)
  have hRL : ∀ q < n, ∑ r ∈ range n, NL.get i r * iL.get r q = if i = q then 1 else 0 := by
    intro q hq
    have := invC_entries hiL i q (by rw [hNLS]; exact hi) (by rw [hNLS]; exact hq)
    rw [hNLS] at this; exact this
  have e1 : ∀ j ∈ range n, NL.get i j * r.entry3 n nc a j c
      = NL.get i j * ∑ a' ∈ range m, iu.get a a' * ∑ i' ∈ range n, iL.get j i' * x.entry3 n nc a' i' c := by
    intro j hj
    rw [rent a ha j (mem_range.mp hj) c hc, hc0ent a ha j (mem_range.mp hj) c hc]
  rw [sum_congr rfl e1, sum_swap_c14]
  have e2 : ∀ a' ∈ range m, iu.get a a' *
        ∑ j ∈ range n, NL.get i j * ∑ i' ∈ range n, iL.get j i' * x.entry3 n nc a' i' c
      = iu.get a a' * ∑ a'' ∈ range m, Nu.get a' a'' * (secs.getD i default).entry2 nc a'' c := by
    intro a' ha'
    congr 1
    rw [sum_cancel_c14 n i hi (fun p q => NL.get p q) (fun p q => iL.get p q)
      (fun i' => x.entry3 n nc a' i' c) hRL]
    rw [hxent a' (mem_range.mp ha') i hi c hc, (hpt i hi).2 a' (mem_range.mp ha') c hc]
  rw [sum_congr rfl e2]
  exact sum_cancel_c14 m a ha (fun p q => iu.get p q) (fun p q => Nu.get p q)
    (fun a'' => (secs.getD i default).entry2 nc a'' c) (fun q hq => hLu a ha q hq)

end Interp
end Splipy

namespace Splipy
open Finset Tensor
namespace Interp

section stack3
variable {K : Type} [Field K]

/-- Entries of `x[:, :, r, :] = pts[r]` for 3-d sections of shape `m1 × m2 × nc`. -/
theorem stackAxis_entry3 (pts : List (Tensor K)) (m1 m2 nc : ℕ) (hne : pts ≠ [])
    (hsh : ∀ p ∈ pts, p.shape = [m1, m2, nc]) :
    (stackAxis pts 2).shape = [m1, m2, pts.length, nc] ∧
    ∀ a < m1, ∀ b < m2, ∀ r < pts.length, ∀ c < nc,
      (stackAxis pts 2).entry4 m2 pts.length nc a b r c = (pts.getD r default).entry3 m2 nc a b c := by
  cases pts with
  | nil => exact absurd rfl hne
  | cons p ps =>
    have hp : p.shape = [m1, m2, nc] := hsh p (by simp)
    rcases p with ⟨psh, pdat⟩
    simp only at hp
    subst hp
    unfold stackAxis
    simp only [List.headD_cons]
    refine ⟨by simp, fun a ha b hb r hr c hc => ?_⟩
    have hab : a * m2 + b < m1 * m2 := flat2_lt ha hb
    have hlt := Tensor.flat_lt_c14 hab hr hc
    unfold Tensor.entry4 Tensor.entry3 Tensor.get
    simp only [Array.getD_eq_getD_getElem?, Array.getElem?_ofFn]
    rw [dif_pos (by simpa [Tensor.prod] using hlt)]
    simp only [List.drop, List.take, Tensor.prod, List.foldl, Nat.one_mul, Option.getD_some,
      Tensor.decode_inner_c14 hc, Tensor.decode_mid_c14 hr hc, Tensor.decode_outer_c14 hr hc]

end stack3

variable {K : Type} [Field K] [LinearOrder K] [FloorRing K]

/-- Core of the loft theorem for SURFACE sections (volume loft). -/
theorem loft_surfaces_aux (b1 b2 bL : Basis K) (tol : K) (secs pts : List (Tensor K)) (g1 g2 v : List K)
    (m1 m2 nc : ℕ) (i1 i2 iL : Mat K) (x cp0 cp : Tensor K)
    (hm1 : 0 < m1) (hm2 : 0 < m2) (hg1 : g1.length = m1) (hg2 : g2.length = m2)
    (hn : 0 < secs.length) (hv : v.length = secs.length)
    (hsecs : ∀ s ∈ secs, s.shape = [m1, m2, nc])
    (hi1 : invC (colloc b1 tol g1 0) = .ok i1) (hi2 : invC (colloc b2 tol g2 0) = .ok i2)
    (hiL : invC (colloc bL tol v 0) = .ok iL)
    (hpts : secs.mapM (fun s => chain [colloc b2 tol g2 0, colloc b1 tol g1 0] s 2) = .ok pts)
    (hx : x = stackAxis pts 2)
    (hcp0 : chain [iL, i2, i1] x 3 = .ok cp0)
    (hcp : throughConstructor cp0 3 = .ok cp) :
    cp.shape = [m1, m2, secs.length, nc] ∧
    ∀ i < secs.length, ∀ a < m1, ∀ b < m2, ∀ c < nc,
      ∑ j ∈ range secs.length, (colloc bL tol v 0).get i j * cp.entry4 m2 secs.length nc a b j c
        = (secs.getD i default).entry3 m2 nc a b c := by
  set N1 := colloc b1 tol g1 0 with hN1
  set N2 := colloc b2 tol g2 0 with hN2
  set NL := colloc bL tol v 0 with hNL
  set n := secs.length with hnd
  have hN1S : N1.size = m1 := by rw [hN1, size_colloc, hg1]
  have hN2S : N2.size = m2 := by rw [hN2, size_colloc, hg2]
  have hNLS : NL.size = n := by rw [hNL, size_colloc, hv]
  obtain ⟨hi1S, _⟩ := invC_shape hi1 (by rw [hN1S]; exact hm1)
  obtain ⟨hi2S, _⟩ := invC_shape hi2 (by rw [hN2S]; exact hm2)
  obtain ⟨hiLS, _⟩ := invC_shape hiL (by rw [hNLS]; exact hn)
  rw [hN1S] at hi1S
  rw [hN2S] at hi2S
  rw [hNLS] at hiLS
  obtain ⟨hplen, hpel⟩ := mapM_ok _ secs pts hpts
  have hpt : ∀ i < n, (pts.getD i default).shape = [m1, m2, nc] ∧
      ∀ a < m1, ∀ b < m2, ∀ k < nc, (pts.getD i default).entry3 m2 nc a b k
        = ∑ a' ∈ range m1, N1.get a a' * ∑ b' ∈ range m2, N2.get b b' * (secs.getD i default).entry3 m2 nc a' b' k := by
    intro i hi
    have h1 := hpel i hi default default
    have hsi : (secs.getD i default).shape = [m1, m2, nc] := by
      apply hsecs
      rw [List.getD_eq_getElem?_getD, List.getElem?_eq_getElem hi]
      exact List.getElem_mem _
    obtain ⟨_, _, t1, _, t2⟩ := chain2 N2 N1 _ _ hsi h1
    rw [hN1S, hN2S] at t1 t2
    exact ⟨t1, t2⟩
  have hptsne : pts ≠ [] := by
    intro h0; rw [h0] at hplen; simp at hplen; omega
  have hpsh : ∀ p ∈ pts, p.shape = [m1, m2, nc] := by
    intro p hp
    obtain ⟨i, hi, rfl⟩ := List.getElem_of_mem hp
    have := (hpt i (by rw [hnd, ← hplen]; exact hi)).1
    rw [List.getD_eq_getElem?_getD, List.getElem?_eq_getElem hi] at this
    exact this
  obtain ⟨hxsh, hxent⟩ := stackAxis_entry3 pts m1 m2 nc hptsne hpsh
  rw [← hx, hplen] at hxsh hxent
  obtain ⟨_, _, _, hc0sh, _, hc0ent⟩ := chain3 iL i2 i1 x cp0 hxsh hcp0
  rw [hi1S, hi2S, hiLS] at hc0sh hc0ent
  obtain ⟨r, hr, rsh, _, rent⟩ := throughConstructor4 cp0 hc0sh
  have : r = cp := by rw [hr] at hcp; cases hcp; rfl
  subst this
  refine ⟨rsh, fun i hi a ha b hb c hc => ?_⟩
  have hL1 := left_inv_of_right_inv_c14 m1 (fun p q => N1.get p q) (fun p q => i1.get p q)
    (fun p hp q hq => by
      have := invC_entries hi1 p q (by rw [hN1S]; exact hp) (by rw [hN1S]; exact hq)
      rw [hN1S] at this; exact this)
  have hL2 := left_inv_of_right_inv_c14 m2 (fun p q => N2.get p q) (fun p q => i2.get p q)
    (fun p hp q hq => by
      have := invC_entries hi2 p q (by rw [hN2S]; exact hp) (by rw [hN2S]; exact hq)
      rw [hN2S] at this; exact this)
  have hRL : ∀ q < n, ∑ r ∈ range n, NL.get i r * iL.get r q = if i = q then 1 else 0 := by
    intro q hq
    have := invC_entries hiL i q (by rw [hNLS]; exact hi) (by rw [hNLS]; exact hq)
    rw [hNLS] at this; exact this
  -- move the lofting contraction inside and cancel it
  have e1 : ∀ j ∈ range n, NL.get i j * r.entry4 m2 n nc a b j c
      = NL.get i j * ∑ a' ∈ range m1, i1.get a a' * ∑ b' ∈ range m2, i2.get b b' *
          ∑ k ∈ range n, iL.get j k * x.entry4 m2 n nc a' b' k c := by
    intro j hj
    rw [rent a ha b hb j (mem_range.mp hj) c hc, hc0ent a ha b hb j (mem_range.mp hj) c hc]
  rw [sum_congr rfl e1, sum_swap_c14]
  have e2 : ∀ a' ∈ range m1, i1.get a a' * ∑ j ∈ range n, NL.get i j * ∑ b' ∈ range m2, i2.get b b' *
        ∑ k ∈ range n, iL.get j k * x.entry4 m2 n nc a' b' k c
      = i1.get a a' * ∑ a'' ∈ range m1, N1.get a' a'' *
          ∑ b' ∈ range m2, i2.get b b' * ∑ b'' ∈ range m2, N2.get b' b'' * (secs.getD i default).entry3 m2 nc a'' b'' c := by
    intro a' ha'
    have ha'' := mem_range.mp ha'
    congr 1
    rw [sum_swap_c14]
    have e3 : ∀ b' ∈ range m2, i2.get b b' * ∑ j ∈ range n, NL.get i j * ∑ k ∈ range n, iL.get j k * x.entry4 m2 n nc a' b' k c
        = i2.get b b' * ∑ a'' ∈ range m1, N1.get a' a'' * ∑ b'' ∈ range m2, N2.get b' b'' *
            (secs.getD i default).entry3 m2 nc a'' b'' c := by
      intro b' hb'
      congr 1
      rw [sum_cancel_c14 n i hi (fun p q => NL.get p q) (fun p q => iL.get p q)
        (fun k => x.entry4 m2 n nc a' b' k c) hRL]
      rw [hxent a' ha'' b' (mem_range.mp hb') i hi c hc, (hpt i hi).2 a' ha'' b' (mem_range.mp hb') c hc]
    rw [sum_congr rfl e3, sum_swap_c14]
  rw [sum_congr rfl e2]
  rw [sum_cancel_c14 m1 a ha (fun p q => i1.get p q) (fun p q => N1.get p q)
    (fun a'' => ∑ b' ∈ range m2, i2.get b b' * ∑ b'' ∈ range m2, N2.get b' b'' * (secs.getD i default).entry3 m2 nc a'' b'' c)
    (fun q hq => hL1 a ha q hq)]
  exact sum_cancel_c14 m2 b hb (fun p q => i2.get p q) (fun p q => N2.get p q)
    (fun b'' => (secs.getD i default).entry3 m2 nc a b'' c) (fun q hq => hL2 b hb q hq)

end Interp
end Splipy
