import Splipy.Lemmas.QuotientRule
import Splipy.Lemmas.C03DerivSpline

/-!
# C03 – the rational derivative paths of the model are the proved closed forms, point by point

`Obj.derivativeGeneric` (rational, total order ≤ 1), `Obj.curveDerivativeRational` (d = 2, 3) and
`Obj.surfaceDerivativeRational` (total order 2, 3) build their result arrays with `Array.ofFn`; here
each entry is identified with `RatDeriv.first / curveD2 / curveD3 / surfD` applied to the entries of the
homogeneous jets (contractions of the control net with basis-derivative matrices).
-/

namespace Splipy

variable {K : Type} [Field K] [LinearOrder K] [FloorRing K]

omit [LinearOrder K] [FloorRing K] in
theorem Tensor.get_ofFn (shape : List ℕ) (n : ℕ) (f : Fin n → K) (i : ℕ) (h : i < n) :
    (Tensor.mk shape (Array.ofFn f)).get i = f ⟨i, h⟩ := by
  unfold Tensor.get
  simp only
  rw [getD_ofFn, dif_pos h]

theorem idx_div (pI dim c : ℕ) (hc : c < dim) : (pI * dim + c) / dim = pI := by
  rw [Nat.mul_comm, Nat.add_comm, Nat.add_mul_div_left _ _ (by omega), Nat.div_eq_of_lt hc, Nat.zero_add]

theorem idx_mod (pI dim c : ℕ) (hc : c < dim) : (pI * dim + c) % dim = c := by
  rw [Nat.mul_comm, Nat.add_comm, Nat.add_mul_mod_self_left, Nat.mod_eq_of_lt hc]

namespace Obj

/-- The homogeneous jet `evaluate(dNs, self.controlpoints, tensor)` of `SplineObject.derivative`
    (the local function `mk` of `derivativeGeneric`). -/
def homJet (o : Obj K) (tol : K) (ps : List (List K)) (ds : List ℕ) (ab : List Bool) (tensor : Bool) :
    Tensor K :=
  let Ns := (List.zip (List.zip o.bases.toList ps) (List.zip ds ab)).map
              (fun ((b, p), (d, a)) => basisMat b tol p d a)
  if tensor then contractGrid Ns o.cps else contractPointwise Ns o.cps (ps.headD []).length

/-- Non-rational objects: the generic derivative IS the contraction of the control net with the
    per-direction `Basis.evaluate(·, d_k, side_k)` matrices. -/
theorem derivativeGeneric_nonrational (o : Obj K) (tol : K) (params : List (List K)) (derivs : List ℕ)
    (above : List Bool) (tensor : Bool) (r : Tensor K) (hr : o.rational = false)
    (h : o.derivativeGeneric tol params derivs above tensor = .ok r) :
    ∃ ps, o.validateDomain tol params = .ok ps ∧ r = o.homJet tol ps derivs above tensor := by
  unfold derivativeGeneric at h
  split at h
  · exact absurd h (by simp)
  · split at h
    · exact absurd h (by simp)
    · rename_i ps hps
      refine ⟨ps, hps, ?_⟩
      simp only [hr] at h
      injection h with h
      rw [← h]
      rfl

/-- A rational object refuses total order `> 1` (or fails earlier): the generic method never
    returns numbers for it. -/
theorem derivativeGeneric_rational_refuses (o : Obj K) (tol : K) (params : List (List K))
    (derivs : List ℕ) (above : List Bool) (tensor : Bool) (hr : o.rational = true)
    (hd : 1 < derivs.sum) (r : Tensor K) :
    o.derivativeGeneric tol params derivs above tensor ≠ .ok r := by
  intro h
  unfold derivativeGeneric at h
  split at h
  · exact absurd h (by simp)
  · split at h
    · exact absurd h (by simp)
    · simp only [hr, if_true, hd] at h
      exact absurd h (by simp)

/-- … and when nothing earlier fails the refusal is a `RuntimeError`. -/
theorem derivativeGeneric_rational_runtime (o : Obj K) (tol : K) (params : List (List K))
    (derivs : List ℕ) (above : List Bool) (tensor : Bool) (hr : o.rational = true)
    (hd : 1 < derivs.sum) (ps : List (List K)) (hps : o.validateDomain tol params = .ok ps)
    (ht : tensor = true ∨ (params.map List.length).eraseDups.length = 1) :
    o.derivativeGeneric tol params derivs above tensor = .error .runtime := by
  unfold derivativeGeneric
  have h1 : ¬ ((!tensor) = true ∧ (params.map List.length).eraseDups.length ≠ 1) := by
    rcases ht with h | h
    · simp [h]
    · simp [h]
  rw [if_neg h1]
  simp only [hps, hr, if_true, hd]

/-- Rational objects, total order 0: every entry is the homogeneous jet (from the requested sides)
    divided by its weight — the evaluated point. -/
theorem derivativeGeneric_rational_zero_get (o : Obj K) (tol : K) (params : List (List K)) (derivs : List ℕ)
    (above : List Bool) (tensor : Bool) (r : Tensor K) (hr : o.rational = true) (h0 : derivs.sum = 0)
    (h : o.derivativeGeneric tol params derivs above tensor = .ok r) :
    ∃ ps, o.validateDomain tol params = .ok ps ∧
      ∀ pI c, c < o.dimension →
        pI < (o.homJet tol ps derivs above tensor).size / o.ncomp →
        r.get (pI * o.dimension + c) =
          (o.homJet tol ps derivs above tensor).get (pI * o.ncomp + c) /
            (o.homJet tol ps derivs above tensor).get (pI * o.ncomp + o.dimension) := by
  unfold derivativeGeneric at h
  split at h
  · exact absurd h (by simp)
  · split at h
    · exact absurd h (by simp)
    · rename_i ps hps
      have hn : ¬ derivs.sum > 1 := by omega
      simp only [hr, if_true, hn, if_false, h0] at h
      refine ⟨ps, hps, ?_⟩
      intro pI c hc hpI
      injection h with h
      rw [← h]
      have hlt : pI * o.dimension + c <
          (o.homJet tol ps derivs above tensor).size / o.ncomp * o.dimension := by
        calc pI * o.dimension + c < pI * o.dimension + o.dimension := by omega
          _ = (pI + 1) * o.dimension := by ring
          _ ≤ _ := Nat.mul_le_mul_right _ hpI
      rw [Tensor.get_ofFn _ _ _ _ (by exact hlt)]
      simp only [idx_div pI o.dimension c hc, idx_mod pI o.dimension c hc]
      rfl

/-- Rational objects, total order 1: every entry is the first-order quotient rule applied to the
    entries of the two homogeneous jets, BOTH taken from the requested sides. -/
theorem derivativeGeneric_rational_get (o : Obj K) (tol : K) (params : List (List K)) (derivs : List ℕ)
    (above : List Bool) (tensor : Bool) (r : Tensor K) (hr : o.rational = true) (h1 : derivs.sum ≠ 0)
    (h : o.derivativeGeneric tol params derivs above tensor = .ok r) :
    derivs.sum = 1 ∧ ∃ ps, o.validateDomain tol params = .ok ps ∧
      ∀ pI c, c < o.dimension →
        pI < (o.homJet tol ps derivs above tensor).size / o.ncomp →
        r.get (pI * o.dimension + c) =
          RatDeriv.first
            ((o.homJet tol ps (above.map fun _ => 0) above tensor).get (pI * o.ncomp + c))
            ((o.homJet tol ps derivs above tensor).get (pI * o.ncomp + c))
            ((o.homJet tol ps (above.map fun _ => 0) above tensor).get (pI * o.ncomp + o.dimension))
            ((o.homJet tol ps derivs above tensor).get (pI * o.ncomp + o.dimension)) := by
  unfold derivativeGeneric at h
  split at h
  · exact absurd h (by simp)
  · split at h
    · exact absurd h (by simp)
    · rename_i ps hps
      by_cases hsum : derivs.sum > 1
      · simp only [hr, if_true, hsum] at h
        exact absurd h (by simp)
      · simp only [hr, if_true, hsum, if_false, h1] at h
        refine ⟨by omega, ps, hps, ?_⟩
        intro pI c hc hpI
        injection h with h
        rw [← h]
        have hlt : pI * o.dimension + c <
            (o.homJet tol ps derivs above tensor).size / o.ncomp * o.dimension := by
          calc pI * o.dimension + c < pI * o.dimension + o.dimension := by omega
            _ = (pI + 1) * o.dimension := by ring
            _ ≤ _ := Nat.mul_le_mul_right _ hpI
        rw [Tensor.get_ofFn _ _ _ _ (by exact hlt)]
        simp only [idx_div pI o.dimension c hc, idx_mod pI o.dimension c hc]
        rfl

/-- Homogeneous jet of a curve: `self.bases[0].evaluate(t, k, from_right) @ self.controlpoints`. -/
def curveJet (o : Obj K) (tol : K) (ts : List K) (k : ℕ) (fr : Bool) : Tensor K :=
  Tensor.applyAxis (basisMat (o.basis 0) tol ts k fr) o.cps 0

/-- `Curve.derivative`, rational, `d = 2`: entry = `RatDeriv.curveD2` of the jets. -/
theorem curveDerivativeRational_get_two (o : Obj K) (tol : K) (ts : List K) (above : Bool)
    (pI c : ℕ) (hc : c < o.dimension) (hpI : pI < ts.length) :
    (o.curveDerivativeRational tol ts 2 above).get (pI * o.dimension + c) =
      RatDeriv.curveD2
        ((o.curveJet tol ts 0 above).get (pI * o.ncomp + c))
        ((o.curveJet tol ts 1 above).get (pI * o.ncomp + c))
        ((o.curveJet tol ts 2 above).get (pI * o.ncomp + c))
        ((o.curveJet tol ts 0 above).get (pI * o.ncomp + o.dimension))
        ((o.curveJet tol ts 1 above).get (pI * o.ncomp + o.dimension))
        ((o.curveJet tol ts 2 above).get (pI * o.ncomp + o.dimension)) := by
  unfold curveDerivativeRational
  have hlt : pI * o.dimension + c < ts.length * o.dimension := by
    calc pI * o.dimension + c < pI * o.dimension + o.dimension := by omega
      _ = (pI + 1) * o.dimension := by ring
      _ ≤ _ := Nat.mul_le_mul_right _ hpI
  simp only
  rw [Tensor.get_ofFn _ _ _ _ hlt]
  simp only [idx_div pI o.dimension c hc, idx_mod pI o.dimension c hc, if_true]
  rfl

/-- `Curve.derivative`, rational, `d = 3`: entry = `RatDeriv.curveD3` of the jets. -/
theorem curveDerivativeRational_get_three (o : Obj K) (tol : K) (ts : List K) (above : Bool)
    (pI c : ℕ) (hc : c < o.dimension) (hpI : pI < ts.length) :
    (o.curveDerivativeRational tol ts 3 above).get (pI * o.dimension + c) =
      RatDeriv.curveD3
        ((o.curveJet tol ts 0 above).get (pI * o.ncomp + c))
        ((o.curveJet tol ts 1 above).get (pI * o.ncomp + c))
        ((o.curveJet tol ts 2 above).get (pI * o.ncomp + c))
        ((o.curveJet tol ts 3 above).get (pI * o.ncomp + c))
        ((o.curveJet tol ts 0 above).get (pI * o.ncomp + o.dimension))
        ((o.curveJet tol ts 1 above).get (pI * o.ncomp + o.dimension))
        ((o.curveJet tol ts 2 above).get (pI * o.ncomp + o.dimension))
        ((o.curveJet tol ts 3 above).get (pI * o.ncomp + o.dimension)) := by
  unfold curveDerivativeRational
  have hlt : pI * o.dimension + c < ts.length * o.dimension := by
    calc pI * o.dimension + c < pI * o.dimension + o.dimension := by omega
      _ = (pI + 1) * o.dimension := by ring
      _ ≤ _ := Nat.mul_le_mul_right _ hpI
  simp only
  rw [Tensor.get_ofFn _ _ _ _ hlt]
  simp only [idx_div pI o.dimension c hc, idx_mod pI o.dimension c hc]
  rw [if_neg (by decide)]
  rfl

/-- Homogeneous jet of a surface on the tensor grid: `evaluate([dNus[a], dNvs[c]], self.controlpoints, True)`. -/
def surfJet (o : Obj K) (tol : K) (us vs : List K) (frU frV : Bool) (a c : ℕ) : Tensor K :=
  contractGrid [basisMat (o.basis 0) tol us a frU, basisMat (o.basis 1) tol vs c frV] o.cps

/-- All ten partial derivatives (total order ≤ 3) of homogeneous component `cc` at grid point `pI`. -/
def surfJetAt (o : Obj K) (tol : K) (us vs : List K) (frU frV : Bool) (pI cc : ℕ) : RatDeriv.SurfJet K :=
  let g (a c : ℕ) := (o.surfJet tol us vs frU frV a c).get (pI * o.ncomp + cc)
  { f00 := g 0 0, f10 := g 1 0, f01 := g 0 1, f11 := g 1 1, f20 := g 2 0, f02 := g 0 2,
    f21 := g 2 1, f12 := g 1 2, f30 := g 3 0, f03 := g 0 3 }

/-- The closed forms of total order 2 do not read the third-order entries of the jets. -/
theorem surfD_order_two_congr (n n' W W' : RatDeriv.SurfJet K) (du dv : ℕ) (h2 : du + dv = 2)
    (hn : n.f00 = n'.f00 ∧ n.f10 = n'.f10 ∧ n.f01 = n'.f01 ∧ n.f11 = n'.f11 ∧ n.f20 = n'.f20 ∧ n.f02 = n'.f02)
    (hW : W.f00 = W'.f00 ∧ W.f10 = W'.f10 ∧ W.f01 = W'.f01 ∧ W.f11 = W'.f11 ∧ W.f20 = W'.f20 ∧ W.f02 = W'.f02) :
    RatDeriv.surfD n W du dv = RatDeriv.surfD n' W' du dv := by
  obtain ⟨a0, a1, a2, a3, a4, a5⟩ := hn
  obtain ⟨b0, b1, b2, b3, b4, b5⟩ := hW
  have hcases : (du = 1 ∧ dv = 1) ∨ (du = 2 ∧ dv = 0) ∨ (du = 0 ∧ dv = 2) := by omega
  rcases hcases with ⟨rfl, rfl⟩ | ⟨rfl, rfl⟩ | ⟨rfl, rfl⟩ <;>
    simp only [RatDeriv.surfD, RatDeriv.surfD11, RatDeriv.surfD20, RatDeriv.surfD02, RatDeriv.Surf.dH1dv,
      RatDeriv.Surf.H1, RatDeriv.Surf.G1, RatDeriv.Surf.dH1du, RatDeriv.Surf.G2, RatDeriv.Surf.dH2dv,
      RatDeriv.Surf.H2, a0, a1, a2, a3, a4, a5, b0, b1, b2, b3, b4, b5]

/-- `Surface.derivative`, rational, total order 2 or 3, tensor grid: the call succeeds and
    every entry is `RatDeriv.surfD` of the jets of numerator component and weight. -/
theorem surfaceDerivativeRational_get (o : Obj K) (tol : K) (us vs : List K) (du dv : ℕ) (frU frV : Bool)
    (h2 : 2 ≤ du + dv) (h3 : du + dv ≤ 3) :
    ∃ r, o.surfaceDerivativeRational tol us vs du dv frU frV true = .ok r ∧
      ∀ pI c, c < o.dimension → pI < us.length * vs.length →
        RatDeriv.surfD (o.surfJetAt tol us vs frU frV pI c) (o.surfJetAt tol us vs frU frV pI o.dimension) du dv
          = some (r.get (pI * o.dimension + c)) := by
  unfold surfaceDerivativeRational
  simp only [Bool.not_true, Bool.false_eq_true, if_false]
  refine ⟨_, rfl, ?_⟩
  intro pI c hc hpI
  have hlt : pI * o.dimension + c < us.length * vs.length * o.dimension := by
    calc pI * o.dimension + c < pI * o.dimension + o.dimension := by omega
      _ = (pI + 1) * o.dimension := by ring
      _ ≤ _ := Nat.mul_le_mul_right _ hpI
  rw [Tensor.get_ofFn _ _ _ _ (by exact hlt)]
  simp only [idx_div pI o.dimension c hc, idx_mod pI o.dimension c hc, if_true]
  have hsome : ∀ (n W : RatDeriv.SurfJet K), ∃ y, RatDeriv.surfD n W du dv = some y := by
    intro n W
    have := (RatDeriv.surfD_isSome_iff (n := n) (W := W) du dv).mpr ⟨by omega, h3⟩
    exact Option.isSome_iff_exists.mp this
  obtain ⟨y, hy⟩ := hsome (o.surfJetAt tol us vs frU frV pI c) (o.surfJetAt tol us vs frU frV pI o.dimension)
  rw [hy]
  congr 1
  by_cases h : du + dv > 2
  · simp only [h, if_true]
    split
    · rename_i y' heq
      exact Option.some.inj (hy.symm.trans heq)
    · rename_i heq
      exact absurd (hy.symm.trans heq) (by simp)
  · have h2' : du + dv = 2 := by omega
    simp only [h, if_false]
    split
    · rename_i y' heq
      refine Option.some.inj (hy.symm.trans (Eq.trans ?_ heq))
      symm
      apply surfD_order_two_congr _ _ _ _ du dv h2' <;> exact ⟨rfl, rfl, rfl, rfl, rfl, rfl⟩
    · rename_i heq
      refine absurd (hy.symm.trans (Eq.trans ?_ heq)) (by simp)
      symm
      apply surfD_order_two_congr _ _ _ _ du dv h2' <;> exact ⟨rfl, rfl, rfl, rfl, rfl, rfl⟩

end Obj

end Splipy
