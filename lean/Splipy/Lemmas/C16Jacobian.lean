import Splipy.Lemmas.C16Poly
import Splipy.Lemmas.C16Bridge
import Splipy.Lemmas.C16Invariance
import Splipy.Lemmas.Deriv

/-!
# C16: on a knot-span box the Jacobian determinant of a non-rational volume is a tensor polynomial
-/

namespace Splipy

open Polynomial Measure

variable {K : Type} [Field K] [LinearOrder K] [IsStrictOrderedRing K] [FloorRing K]

/-- On the knot span `μ` (from the right, `μ+1 ≤ nAll` so that the point is not the domain end) the
row value `rowSpec` of a valid non-periodic basis is `eval` of the `d`-fold derivative of the
polynomial piece. -/
theorem Basis.rowSpec_eq_eval {b : Basis K} (hv : b.Valid) (hper : b.periodic = -1) (μ : ℕ)
    (hμ : μ + 1 ≤ b.nAll) (u : K) (h : Side.right.mem (b.kn μ) (b.kn (μ+1)) u) (d j : ℕ) :
    b.rowSpec u true d j = ((derivative^[d]) (Bpoly b.kn μ (b.order - 1) j)).eval u := by
  have hmono := hv.kn_mono
  have hne : u ≠ b.stop := by
    have : b.kn (μ+1) ≤ b.stop := hmono hμ
    exact ne_of_lt (lt_of_lt_of_le h.2 this)
  unfold Basis.rowSpec
  rw [if_pos (by rw [hper]; decide), if_neg (by simp)]
  have hs : effSide b u true = .right := by
    unfold effSide
    rw [if_neg hne]
    rfl
  rw [hs]
  exact dB_eq_eval_iterate_derivative .right b.kn hmono μ (b.order - 1) j d u h

/-- Index triples of the control net of a volume. -/
def idx3 (n1 n2 n3 : ℕ) : Finset ((ℕ × ℕ) × ℕ) :=
  (Finset.range n1 ×ˢ Finset.range n2) ×ˢ Finset.range n3

namespace Obj

/-- The control point with index triple `j`, as a vector. -/
def cp3 (o : Obj K) (n2 n3 : ℕ) (j : (ℕ × ℕ) × ℕ) : Fin 3 → K :=
  fun c => o.cps.get (((j.1.1 * n2 + j.1.2) * n3 + j.2) * 3 + c.val)

omit [LinearOrder K] [IsStrictOrderedRing K] [FloorRing K] in
theorem jac3_ofFn (f g h : Fin 3 → K) :
    jac3 (Array.ofFn (n := 3) f) (Array.ofFn (n := 3) g) (Array.ofFn (n := 3) h)
      = Affine.det3 (Affine.rows3 f g h) := by
  simp [jac3, Affine.det3, Affine.rows3, Array.getD]
  ring

/-- `specD3` in vector form: a linear combination of the control points. -/
theorem specD3_vec (o : Obj K) (b1 b2 b3 : Basis K) (u v w : K) (d1 d2 d3 : ℕ) :
    o.specD3 b1 b2 b3 3 u v w d1 d2 d3
      = Array.ofFn (n := 3) (Affine.comb (idx3 b1.numFunctions b2.numFunctions b3.numFunctions)
          (fun j => b1.rowSpec u true d1 j.1.1 * b2.rowSpec v true d2 j.1.2 * b3.rowSpec w true d3 j.2)
          (o.cp3 b2.numFunctions b3.numFunctions)) := by
  unfold specD3 Affine.comb idx3 cp3
  congr 1
  funext c
  rw [Finset.sum_product, Finset.sum_product]

/-- The three univariate polynomial factors of one term of the Jacobian determinant on the
knot-span box `(μ1, μ2, μ3)`, for the index triples `c = (j, j', j'')`. -/
noncomputable def jacP (o : Obj K) (b1 b2 b3 : Basis K) (μ1 : ℕ) (c : (((ℕ × ℕ) × ℕ) × ((ℕ × ℕ) × ℕ)) × ((ℕ × ℕ) × ℕ)) :
    K[X] :=
  C (Affine.det3 (Affine.rows3 (o.cp3 b2.numFunctions b3.numFunctions c.1.1)
      (o.cp3 b2.numFunctions b3.numFunctions c.1.2) (o.cp3 b2.numFunctions b3.numFunctions c.2)))
    * (derivative (Bpoly b1.kn μ1 (b1.order - 1) c.1.1.1.1) * Bpoly b1.kn μ1 (b1.order - 1) c.1.2.1.1
        * Bpoly b1.kn μ1 (b1.order - 1) c.2.1.1)

noncomputable def jacR (b2 : Basis K) (μ2 : ℕ) (c : (((ℕ × ℕ) × ℕ) × ((ℕ × ℕ) × ℕ)) × ((ℕ × ℕ) × ℕ)) :
    K[X] :=
  Bpoly b2.kn μ2 (b2.order - 1) c.1.1.1.2 * derivative (Bpoly b2.kn μ2 (b2.order - 1) c.1.2.1.2)
    * Bpoly b2.kn μ2 (b2.order - 1) c.2.1.2

noncomputable def jacT (b3 : Basis K) (μ3 : ℕ) (c : (((ℕ × ℕ) × ℕ) × ((ℕ × ℕ) × ℕ)) × ((ℕ × ℕ) × ℕ)) :
    K[X] :=
  Bpoly b3.kn μ3 (b3.order - 1) c.1.1.2 * Bpoly b3.kn μ3 (b3.order - 1) c.1.2.2
    * derivative (Bpoly b3.kn μ3 (b3.order - 1) c.2.2)

/-- **The Jacobian determinant of a non-rational volume is a tensor polynomial on every knot-span
box**: for `(u,v,w)` in the spans `(μ1,μ2,μ3)` (from the right, not at the domain ends),
`det[∂_u x; ∂_v x; ∂_w x](u,v,w) = Σ_c P_c(u)·R_c(v)·T_c(w)` with the polynomials `jacP/jacR/jacT`
(products of three B-spline pieces of the direction, one of them differentiated, times the
determinant of three control points). -/
theorem jac3_eq_tensor (o : Obj K) {b1 b2 b3 : Basis K} (hv1 : b1.Valid) (hv2 : b2.Valid)
    (hv3 : b3.Valid) (hp1 : b1.periodic = -1) (hp2 : b2.periodic = -1) (hp3 : b3.periodic = -1)
    (μ1 μ2 μ3 : ℕ) (hμ1 : μ1 + 1 ≤ b1.nAll) (hμ2 : μ2 + 1 ≤ b2.nAll) (hμ3 : μ3 + 1 ≤ b3.nAll)
    (u v w : K) (hu : Side.right.mem (b1.kn μ1) (b1.kn (μ1+1)) u)
    (hvv : Side.right.mem (b2.kn μ2) (b2.kn (μ2+1)) v)
    (hw : Side.right.mem (b3.kn μ3) (b3.kn (μ3+1)) w) :
    jac3 (o.specD3 b1 b2 b3 3 u v w 1 0 0) (o.specD3 b1 b2 b3 3 u v w 0 1 0)
        (o.specD3 b1 b2 b3 3 u v w 0 0 1)
      = ∑ c ∈ (idx3 b1.numFunctions b2.numFunctions b3.numFunctions
            ×ˢ idx3 b1.numFunctions b2.numFunctions b3.numFunctions)
            ×ˢ idx3 b1.numFunctions b2.numFunctions b3.numFunctions,
          (o.jacP b1 b2 b3 μ1 c).eval u * (jacR b2 μ2 c).eval v * (jacT b3 μ3 c).eval w := by
  rw [specD3_vec, specD3_vec, specD3_vec, jac3_ofFn, det3_comb]
  rw [Finset.sum_product, Finset.sum_product]
  apply Finset.sum_congr rfl
  intro j _
  apply Finset.sum_congr rfl
  intro j' _
  apply Finset.sum_congr rfl
  intro j'' _
  simp only [b1.rowSpec_eq_eval hv1 hp1 μ1 hμ1 u hu, b2.rowSpec_eq_eval hv2 hp2 μ2 hμ2 v hvv,
    b3.rowSpec_eq_eval hv3 hp3 μ3 hμ3 w hw, Function.iterate_zero, Function.iterate_one, id_eq]
  unfold jacP jacR jacT
  simp only [eval_mul, eval_C]
  ring

end Obj

end Splipy
