import Splipy.Lemmas.C12Union
import Splipy.Lemmas.C06Knots
import Splipy.Lemmas.Elevation

/-!
# C12 — every pair of clamped knot vectors with separated knots has a common-entry form

* `PairSeparated δ l₁ l₂` — the decidable predicate on the PAIR of (normalised) knot lists: any two knots,
  within one vector or across the two, are equal or more than `δ` apart;
* `Basis.ClampedCont b` — decidable: non-periodic, `p` copies of `start`, interior knots strictly inside
  the domain each with multiplicity `≤ p - 1`, `p` copies of `end`;
* `mergeE` — merge of two run-length encoded knot lists into one list of entries
  (value, multiplicity in list 1, multiplicity in list 2), `0` where absent;
* `exists_common_entries` — the normalised bases `C06.reparamOk b_j 0 1` of two valid `ClampedCont` bases
  whose normalised knots are `PairSeparated` ARE `openBasis p_j (clampedU 0 1 …) (clampedM p_j …)` over
  one common entry list `L`, with `Separated δ` distinct values and multiplicities `≤ p_j - 1`.
-/

namespace Splipy

set_option linter.unusedSectionVars false

variable {K : Type} [Field K] [LinearOrder K] [IsStrictOrderedRing K] [FloorRing K]

namespace C12

/-- Any two knots of the two lists (same list or not) are equal or more than `δ` apart. -/
def PairSeparated (δ : K) (l1 l2 : List K) : Prop :=
  ∀ x ∈ l1 ++ l2, ∀ y ∈ l1 ++ l2, x = y ∨ x + δ < y ∨ y + δ < x

instance (δ : K) (l1 l2 : List K) : Decidable (PairSeparated δ l1 l2) := by
  unfold PairSeparated; infer_instance

/-- Merge of two run-length encoded (strictly increasing) knot lists. -/
def mergeE : List (K × ℕ) → List (K × ℕ) → List (K × ℕ × ℕ)
  | [], ys => ys.map (fun y => (y.1, 0, y.2))
  | x :: xs, [] => (x :: xs).map (fun x => (x.1, x.2, 0))
  | x :: xs, y :: ys =>
    if x.1 < y.1 then (x.1, x.2, 0) :: mergeE xs (y :: ys)
    else if y.1 < x.1 then (y.1, 0, y.2) :: mergeE (x :: xs) ys
    else (x.1, x.2, y.2) :: mergeE xs ys
termination_by xs ys => xs.length + ys.length

theorem expand_of_zero {α : Type} (L : List α) (v : α → K) (g : α → ℕ) (h : ∀ e ∈ L, g e = 0) :
    expand (L.map v) (L.map g) = [] := by
  induction L with
  | nil => rfl
  | cons y L ih =>
    simp only [List.map_cons, expand_cons, h y List.mem_cons_self, List.replicate_zero, List.nil_append]
    exact ih (fun e he => h e (List.mem_cons_of_mem _ he))

/-- The entries of list 1 with their multiplicities are what list 1 expands to. -/
theorem expand_mergeE_left : ∀ (A B : List (K × ℕ)),
    expand ((mergeE A B).map (·.1)) ((mergeE A B).map (·.2.1)) = expand (A.map (·.1)) (A.map (·.2)) := by
  intro A B
  induction A, B using mergeE.induct with
  | case1 ys =>
    unfold mergeE
    rw [List.map_map, List.map_map]
    exact (expand_of_zero ys _ _ (fun _ _ => rfl)).trans rfl
  | case2 x xs =>
    unfold mergeE
    rw [List.map_map, List.map_map]
    rfl
  | case3 x xs y ys h ih =>
    unfold mergeE
    simp only [h, if_true, List.map_cons, expand_cons, ih]
  | case4 x xs y ys h1 h2 ih =>
    unfold mergeE
    simp only [h1, h2, if_true, if_false, List.map_cons, expand_cons, List.replicate_zero, List.nil_append, ih]
  | case5 x xs y ys h1 h2 ih =>
    unfold mergeE
    simp only [h1, h2, if_false, List.map_cons, expand_cons, ih]

theorem expand_mergeE_right : ∀ (A B : List (K × ℕ)),
    expand ((mergeE A B).map (·.1)) ((mergeE A B).map (·.2.2)) = expand (B.map (·.1)) (B.map (·.2)) := by
  intro A B
  induction A, B using mergeE.induct with
  | case1 ys =>
    unfold mergeE
    rw [List.map_map, List.map_map]
    rfl
  | case2 x xs =>
    unfold mergeE
    rw [List.map_map, List.map_map]
    exact (expand_of_zero (x :: xs) _ _ (fun _ _ => rfl)).trans rfl
  | case3 x xs y ys h ih =>
    unfold mergeE
    simp only [h, if_true, List.map_cons, expand_cons, List.replicate_zero, List.nil_append, ih]
  | case4 x xs y ys h1 h2 ih =>
    unfold mergeE
    simp only [h1, h2, if_true, if_false, List.map_cons, expand_cons, ih]
  | case5 x xs y ys h1 h2 ih =>
    unfold mergeE
    simp only [h1, h2, if_false, List.map_cons, expand_cons, ih]
    have hxy : x.1 = y.1 := le_antisymm (not_lt.mp h2) (not_lt.mp h1)
    rw [hxy]

/-- Every merged entry comes from one of the two lists. -/
theorem mem_mergeE : ∀ (A B : List (K × ℕ)) (e : K × ℕ × ℕ), e ∈ mergeE A B →
    (e.1 ∈ A.map (·.1) ∨ e.1 ∈ B.map (·.1))
    ∧ (e.2.1 = 0 ∨ (e.1, e.2.1) ∈ A) ∧ (e.2.2 = 0 ∨ (e.1, e.2.2) ∈ B) := by
  intro A B
  induction A, B using mergeE.induct with
  | case1 ys =>
    intro e he
    unfold mergeE at he
    obtain ⟨y, hy, rfl⟩ := List.mem_map.mp he
    exact ⟨Or.inr (List.mem_map_of_mem hy), Or.inl rfl, Or.inr hy⟩
  | case2 x xs =>
    intro e he
    unfold mergeE at he
    obtain ⟨a, ha, rfl⟩ := List.mem_map.mp he
    exact ⟨Or.inl (List.mem_map_of_mem ha), Or.inr ha, Or.inl rfl⟩
  | case3 x xs y ys h ih =>
    intro e he
    unfold mergeE at he
    simp only [h, if_true, List.mem_cons] at he
    rcases he with rfl | he
    · exact ⟨Or.inl (by simp), Or.inr (by simp), Or.inl rfl⟩
    · obtain ⟨h1, h2, h3⟩ := ih e he
      refine ⟨?_, ?_, h3⟩
      · rcases h1 with h1 | h1
        · exact Or.inl (List.mem_cons_of_mem _ h1)
        · exact Or.inr h1
      · rcases h2 with h2 | h2
        · exact Or.inl h2
        · exact Or.inr (List.mem_cons_of_mem _ h2)
  | case4 x xs y ys h1' h2' ih =>
    intro e he
    unfold mergeE at he
    simp only [h1', h2', if_true, if_false, List.mem_cons] at he
    rcases he with rfl | he
    · exact ⟨Or.inr (by simp), Or.inl rfl, Or.inr (by simp)⟩
    · obtain ⟨h1, h2, h3⟩ := ih e he
      refine ⟨?_, h2, ?_⟩
      · rcases h1 with h1 | h1
        · exact Or.inl h1
        · exact Or.inr (List.mem_cons_of_mem _ h1)
      · rcases h3 with h3 | h3
        · exact Or.inl h3
        · exact Or.inr (List.mem_cons_of_mem _ h3)
  | case5 x xs y ys h1' h2' ih =>
    intro e he
    unfold mergeE at he
    simp only [h1', h2', if_false, List.mem_cons] at he
    have hxy : x.1 = y.1 := le_antisymm (not_lt.mp h2') (not_lt.mp h1')
    rcases he with rfl | he
    · refine ⟨Or.inl (by simp), Or.inr (by simp), Or.inr ?_⟩
      show (x.1, y.2) ∈ y :: ys
      rw [hxy]; simp
    · obtain ⟨h1, h2, h3⟩ := ih e he
      refine ⟨?_, ?_, ?_⟩
      · rcases h1 with h1 | h1
        · exact Or.inl (List.mem_cons_of_mem _ h1)
        · exact Or.inr (List.mem_cons_of_mem _ h1)
      · rcases h2 with h2 | h2
        · exact Or.inl h2
        · exact Or.inr (List.mem_cons_of_mem _ h2)
      · rcases h3 with h3 | h3
        · exact Or.inl h3
        · exact Or.inr (List.mem_cons_of_mem _ h3)

/-- Merging strictly increasing lists gives a strictly increasing list of values. -/
theorem mergeE_sorted : ∀ (A B : List (K × ℕ)), (A.map (·.1)).Pairwise (· < ·) → (B.map (·.1)).Pairwise (· < ·) →
    ((mergeE A B).map (·.1)).Pairwise (· < ·) := by
  intro A B
  induction A, B using mergeE.induct with
  | case1 ys =>
    intro _ hB
    unfold mergeE
    rw [List.map_map]
    exact hB
  | case2 x xs =>
    intro hA _
    unfold mergeE
    rw [List.map_map]
    exact hA
  | case3 x xs y ys h ih =>
    intro hA hB
    unfold mergeE
    simp only [h, if_true, List.map_cons]
    have hA' : (∀ z ∈ xs.map (·.1), x.1 < z) ∧ (xs.map (·.1)).Pairwise (· < ·) := List.pairwise_cons.mp hA
    have hB' : (∀ z ∈ ys.map (·.1), y.1 < z) ∧ (ys.map (·.1)).Pairwise (· < ·) := List.pairwise_cons.mp hB
    refine List.pairwise_cons.mpr ⟨?_, ih hA'.2 hB⟩
    intro z hz
    obtain ⟨e, he, rfl⟩ := List.mem_map.mp hz
    rcases (mem_mergeE xs (y :: ys) e he).1 with h1 | h1
    · exact hA'.1 _ h1
    · have h1' : e.1 ∈ y.1 :: ys.map (·.1) := h1
      rcases List.mem_cons.mp h1' with h2 | h2
      · rw [h2]; exact h
      · exact lt_trans h (hB'.1 _ h2)
  | case4 x xs y ys h1' h2' ih =>
    intro hA hB
    unfold mergeE
    simp only [h1', h2', if_true, if_false, List.map_cons]
    have hA' : (∀ z ∈ xs.map (·.1), x.1 < z) ∧ (xs.map (·.1)).Pairwise (· < ·) := List.pairwise_cons.mp hA
    have hB' : (∀ z ∈ ys.map (·.1), y.1 < z) ∧ (ys.map (·.1)).Pairwise (· < ·) := List.pairwise_cons.mp hB
    refine List.pairwise_cons.mpr ⟨?_, ih hA hB'.2⟩
    intro z hz
    obtain ⟨e, he, rfl⟩ := List.mem_map.mp hz
    rcases (mem_mergeE (x :: xs) ys e he).1 with h1 | h1
    · have h1'' : e.1 ∈ x.1 :: xs.map (·.1) := h1
      rcases List.mem_cons.mp h1'' with h2 | h2
      · rw [h2]; exact h2'
      · exact lt_trans h2' (hA'.1 _ h2)
    · exact hB'.1 _ h1
  | case5 x xs y ys h1' h2' ih =>
    intro hA hB
    unfold mergeE
    simp only [h1', h2', if_false, List.map_cons]
    have hxy : x.1 = y.1 := le_antisymm (not_lt.mp h2') (not_lt.mp h1')
    have hA' : (∀ z ∈ xs.map (·.1), x.1 < z) ∧ (xs.map (·.1)).Pairwise (· < ·) := List.pairwise_cons.mp hA
    have hB' : (∀ z ∈ ys.map (·.1), y.1 < z) ∧ (ys.map (·.1)).Pairwise (· < ·) := List.pairwise_cons.mp hB
    refine List.pairwise_cons.mpr ⟨?_, ih hA'.2 hB'.2⟩
    intro z hz
    obtain ⟨e, he, rfl⟩ := List.mem_map.mp hz
    rcases (mem_mergeE xs ys e he).1 with h1 | h1
    · exact hA'.1 _ h1
    · rw [hxy]; exact hB'.1 _ h1

/-! ## Run-length decoding of one clamped continuous basis -/

theorem le_count_expand : ∀ (A : List (K × ℕ)), ∀ a ∈ A,
    a.2 ≤ (expand (A.map (·.1)) (A.map (·.2))).count a.1 := by
  intro A
  induction A with
  | nil => intro a ha; simp at ha
  | cons x xs ih =>
    intro a ha
    rw [List.map_cons, List.map_cons, expand_cons, List.count_append]
    rcases List.mem_cons.mp ha with h | h
    · subst h
      rw [List.count_replicate_self]
      exact Nat.le_add_right _ _
    · exact le_trans (ih a h) (Nat.le_add_left _ _)

/-- Run-length encoding (exact equality of neighbours). -/
def rle : List K → List (K × ℕ)
  | [] => []
  | x :: xs =>
    match rle xs with
    | [] => [(x, 1)]
    | (y, k) :: t => if x = y then (y, k + 1) :: t else (x, 1) :: (y, k) :: t

theorem rle_cons (x : K) (xs : List K) :
    rle (x :: xs) = match rle xs with
      | [] => [(x, 1)]
      | (y, k) :: t => if x = y then (y, k + 1) :: t else (x, 1) :: (y, k) :: t := rfl

theorem expand_rle : ∀ l : List K, expand ((rle l).map (·.1)) ((rle l).map (·.2)) = l := by
  intro l
  induction l with
  | nil => rfl
  | cons x xs ih =>
    rw [rle_cons]
    cases h : rle xs with
    | nil =>
      rw [h] at ih
      have hxs : xs = [] := ih.symm
      subst hxs
      rfl
    | cons yk t =>
      obtain ⟨y, k⟩ := yk
      rw [h] at ih
      simp only [List.map_cons, expand_cons] at ih
      by_cases hxy : x = y
      · simp only [hxy, if_true, List.map_cons, expand_cons]
        rw [List.replicate_succ, List.cons_append, ih]
      · simp only [hxy, if_false, List.map_cons, expand_cons]
        rw [ih]; rfl

theorem rle_pos : ∀ (l : List K), ∀ a ∈ rle l, 1 ≤ a.2 := by
  intro l
  induction l with
  | nil => intro a ha; simp [rle] at ha
  | cons x xs ih =>
    intro a ha
    rw [rle_cons] at ha
    cases h : rle xs with
    | nil =>
      rw [h] at ha
      simp only [List.mem_singleton] at ha
      rw [ha]
    | cons yk t =>
      obtain ⟨y, k⟩ := yk
      rw [h] at ha ih
      by_cases hxy : x = y
      · simp only [hxy, if_true] at ha
        rcases List.mem_cons.mp ha with h1 | h1
        · rw [h1]; exact Nat.le_add_left _ _
        · exact ih a (List.mem_cons_of_mem _ h1)
      · simp only [hxy, if_false] at ha
        rcases List.mem_cons.mp ha with h1 | h1
        · rw [h1]
        · exact ih a h1

theorem rle_mem : ∀ (l : List K), ∀ a ∈ rle l, a.1 ∈ l := by
  intro l a ha
  have h1 := rle_pos l a ha
  have h2 := le_count_expand (rle l) a ha
  rw [expand_rle] at h2
  exact List.count_pos_iff.mp (by omega)

theorem rle_sorted : ∀ (l : List K), l.Pairwise (· ≤ ·) → ((rle l).map (·.1)).Pairwise (· < ·) := by
  intro l
  induction l with
  | nil => intro _; exact List.Pairwise.nil
  | cons x xs ih =>
    intro hl
    obtain ⟨hx, hxs⟩ := List.pairwise_cons.mp hl
    have ih' := ih hxs
    have hmem := rle_mem xs
    rw [rle_cons]
    cases h : rle xs with
    | nil => simp
    | cons yk t =>
      obtain ⟨y, k⟩ := yk
      rw [h] at ih' hmem
      by_cases hxy : x = y
      · simp only [hxy, if_true]
        exact ih'
      · simp only [hxy, if_false]
        have ih'' : (y :: t.map (·.1)).Pairwise (· < ·) := ih'
        have hxy' : x < y := lt_of_le_of_ne (hx y (hmem (y, k) List.mem_cons_self)) hxy
        show (x :: y :: t.map (·.1)).Pairwise (· < ·)
        refine List.pairwise_cons.mpr ⟨?_, ih''⟩
        intro z hz
        rcases List.mem_cons.mp hz with h1 | h1
        · rw [h1]; exact hxy'
        · exact lt_trans hxy' ((List.pairwise_cons.mp ih'').1 z h1)

/-- The interior knots (between the first and the last `order` knots). -/
def midKnots (b : Basis K) : List K := (b.knots.toList.drop b.order).take (b.knots.size - 2 * b.order)

/-- **Clamped and continuous**, a decidable predicate on one basis: non-periodic, order `≥ 2`, the knot
    vector is `order` copies of `start`, then interior knots strictly inside the domain each occurring at
    most `order - 1` times (the basis is continuous), then `order` copies of `end`. -/
structure ClampedCont (b : Basis K) : Prop where
  per : b.periodic = -1
  order_ge : 2 ≤ b.order
  knots : b.knots.toList = List.replicate b.order b.start ++ (midKnots b ++ List.replicate b.order b.stop)
  inside : ∀ x ∈ midKnots b, b.start < x ∧ x < b.stop
  cont : ∀ x ∈ midKnots b, (midKnots b).count x ≤ b.order - 1

instance (b : Basis K) : Decidable (ClampedCont b) :=
  decidable_of_iff (b.periodic = -1 ∧ 2 ≤ b.order
      ∧ b.knots.toList = List.replicate b.order b.start ++ (midKnots b ++ List.replicate b.order b.stop)
      ∧ (∀ x ∈ midKnots b, b.start < x ∧ x < b.stop)
      ∧ (∀ x ∈ midKnots b, (midKnots b).count x ≤ b.order - 1))
    ⟨fun h => ⟨h.1, h.2.1, h.2.2.1, h.2.2.2.1, h.2.2.2.2⟩, fun h => ⟨h.per, h.order_ge, h.knots, h.inside, h.cont⟩⟩

theorem mid_sub_knots {b : Basis K} (hc : ClampedCont b) : ∀ x ∈ midKnots b, x ∈ b.knots.toList := by
  intro x hx
  rw [hc.knots]
  exact List.mem_append_right _ (List.mem_append_left _ hx)

theorem start_mem_knots {b : Basis K} (hc : ClampedCont b) : b.start ∈ b.knots.toList := by
  rw [hc.knots]
  refine List.mem_append_left _ (List.mem_replicate.mpr ⟨?_, rfl⟩)
  have := hc.order_ge; omega

theorem stop_mem_knots {b : Basis K} (hc : ClampedCont b) : b.stop ∈ b.knots.toList := by
  rw [hc.knots]
  refine List.mem_append_right _ (List.mem_append_right _ (List.mem_replicate.mpr ⟨?_, rfl⟩))
  have := hc.order_ge; omega

/-- Run-length form of the interior knots of a clamped continuous basis (sorted knots). -/
theorem runs_of_clamped (B : Basis K) (hs : B.knots.toList.Pairwise (· ≤ ·)) (hc : ClampedCont B) :
    midKnots B = expand ((rle (midKnots B)).map (·.1)) ((rle (midKnots B)).map (·.2))
      ∧ ((rle (midKnots B)).map (·.1)).Pairwise (· < ·)
      ∧ ∀ a ∈ rle (midKnots B), a.1 ∈ midKnots B ∧ a.2 ≤ B.order - 1 := by
  have hs' : (List.replicate B.order B.start ++ (midKnots B ++ List.replicate B.order B.stop)).Pairwise (· ≤ ·) := by
    rw [← hc.knots]; exact hs
  have hM : (midKnots B).Pairwise (· ≤ ·) := (List.pairwise_append.mp (List.pairwise_append.mp hs').2.1).1
  refine ⟨(expand_rle _).symm, rle_sorted _ hM, ?_⟩
  intro a ha
  have hmem := rle_mem _ a ha
  refine ⟨hmem, le_trans ?_ (hc.cont _ hmem)⟩
  have := le_count_expand _ a ha
  rwa [expand_rle] at this

theorem basis_eq_open (B : Basis K) (hc : ClampedCont B) (vals : List K) (ms : List ℕ)
    (hlen : vals.length = ms.length) (hM : midKnots B = expand vals ms) :
    B = openBasis B.order (clampedU B.start B.stop vals) (clampedM B.order ms) := by
  have hk : B.knots = (expand (clampedU B.start B.stop vals) (clampedM B.order ms)).toArray := by
    apply Array.ext'
    rw [expand_clamped _ _ _ _ _ hlen, ← hM, List.append_assoc]
    exact hc.knots
  have hp := hc.per
  cases B with
  | mk order knots periodic =>
    have hp' : periodic = -1 := hp
    subst hp'
    unfold openBasis
    congr 1

theorem pairwise_separated_of_lt (δ : K) (S : List K) (l : List K) (hl : l.Pairwise (· < ·))
    (hmem : ∀ x ∈ l, x ∈ S) (hsep : ∀ x ∈ S, ∀ y ∈ S, x = y ∨ x + δ < y ∨ y + δ < x) (hδ : 0 ≤ δ) :
    Separated δ l := by
  unfold Separated
  refine List.Pairwise.imp_of_mem ?_ hl
  intro a b ha hb hab
  rcases hsep a (hmem a ha) b (hmem b hb) with h | h | h
  · exfalso; rw [h] at hab; exact lt_irrefl _ hab
  · exact h
  · exfalso; linarith

/-- **Two clamped continuous bases on the same interval with pairwise separated knots have a common-entry
    form.** -/
theorem common_entries_core (δ : K) (hδ : 0 ≤ δ) (x0 xl : K) (hx : x0 < xl) (B1 B2 : Basis K)
    (hs1 : B1.knots.toList.Pairwise (· ≤ ·)) (hs2 : B2.knots.toList.Pairwise (· ≤ ·))
    (hc1 : ClampedCont B1) (hc2 : ClampedCont B2)
    (h1s : B1.start = x0) (h1e : B1.stop = xl) (h2s : B2.start = x0) (h2e : B2.stop = xl)
    (hsep : PairSeparated δ B1.knots.toList B2.knots.toList) :
    let L := mergeE (rle (midKnots B1)) (rle (midKnots B2))
    B1 = openBasis B1.order (clampedU x0 xl (L.map (·.1))) (clampedM B1.order (L.map (·.2.1)))
      ∧ B2 = openBasis B2.order (clampedU x0 xl (L.map (·.1))) (clampedM B2.order (L.map (·.2.2)))
      ∧ Separated δ (clampedU x0 xl (L.map (·.1)))
      ∧ ∀ e ∈ L, e.2.1 ≤ B1.order - 1 ∧ e.2.2 ≤ B2.order - 1 := by
  intro L
  obtain ⟨hM1, hA1s, hA1b⟩ := runs_of_clamped B1 hs1 hc1
  obtain ⟨hM2, hA2s, hA2b⟩ := runs_of_clamped B2 hs2 hc2
  set A1 := rle (midKnots B1) with hA1
  set A2 := rle (midKnots B2) with hA2
  show _ = openBasis B1.order (clampedU x0 xl ((mergeE A1 A2).map (·.1))) (clampedM B1.order ((mergeE A1 A2).map (·.2.1)))
      ∧ _ = openBasis B2.order (clampedU x0 xl ((mergeE A1 A2).map (·.1))) (clampedM B2.order ((mergeE A1 A2).map (·.2.2)))
      ∧ Separated δ (clampedU x0 xl ((mergeE A1 A2).map (·.1)))
      ∧ ∀ e ∈ mergeE A1 A2, e.2.1 ≤ B1.order - 1 ∧ e.2.2 ≤ B2.order - 1
  refine ⟨?_, ?_, ?_, ?_⟩
  · have := basis_eq_open B1 hc1 ((mergeE A1 A2).map (·.1)) ((mergeE A1 A2).map (·.2.1)) (by simp)
      (by rw [expand_mergeE_left]; exact hM1)
    rwa [h1s, h1e] at this
  · have := basis_eq_open B2 hc2 ((mergeE A1 A2).map (·.1)) ((mergeE A1 A2).map (·.2.2)) (by simp)
      (by rw [expand_mergeE_right]; exact hM2)
    rwa [h2s, h2e] at this
  · have hvals : ∀ z ∈ (mergeE A1 A2).map (·.1), z ∈ midKnots B1 ∨ z ∈ midKnots B2 := by
      intro z hz
      obtain ⟨e, he, rfl⟩ := List.mem_map.mp hz
      rcases (mem_mergeE A1 A2 e he).1 with h | h
      · obtain ⟨a, ha, hae⟩ := List.mem_map.mp h
        exact Or.inl (hae ▸ (hA1b a ha).1)
      · obtain ⟨a, ha, hae⟩ := List.mem_map.mp h
        exact Or.inr (hae ▸ (hA2b a ha).1)
    have hin : ∀ z ∈ (mergeE A1 A2).map (·.1), x0 < z ∧ z < xl := by
      intro z hz
      rcases hvals z hz with h | h
      · have := hc1.inside z h; rw [h1s, h1e] at this; exact this
      · have := hc2.inside z h; rw [h2s, h2e] at this; exact this
    refine pairwise_separated_of_lt δ (B1.knots.toList ++ B2.knots.toList) _ ?_ ?_ hsep hδ
    · unfold clampedU
      refine List.pairwise_cons.mpr ⟨?_, List.pairwise_append.mpr ⟨mergeE_sorted A1 A2 hA1s hA2s, List.pairwise_singleton _ _, ?_⟩⟩
      · intro y hy
        rcases List.mem_append.mp hy with h | h
        · exact (hin y h).1
        · rw [List.mem_singleton.mp h]; exact hx
      · intro a ha b hb
        rw [List.mem_singleton.mp hb]; exact (hin a ha).2
    · intro z hz
      unfold clampedU at hz
      rcases List.mem_cons.mp hz with h | h
      · rw [h, ← h1s]; exact List.mem_append_left _ (start_mem_knots hc1)
      · rcases List.mem_append.mp h with h | h
        · rcases hvals z h with h' | h'
          · exact List.mem_append_left _ (mid_sub_knots hc1 z h')
          · exact List.mem_append_right _ (mid_sub_knots hc2 z h')
        · rw [List.mem_singleton.mp h, ← h1e]; exact List.mem_append_left _ (stop_mem_knots hc1)
  · intro e he
    obtain ⟨_, h1, h2⟩ := mem_mergeE A1 A2 e he
    refine ⟨?_, ?_⟩
    · rcases h1 with h | h
      · rw [h]; exact Nat.zero_le _
      · exact (hA1b _ h).2
    · rcases h2 with h | h
      · rw [h]; exact Nat.zero_le _
      · exact (hA2b _ h).2

/-! ## Normalisation to `[0,1]` -/

theorem reparamOk_toList {b : Basis K} (hv : b.Valid) (s e : K) :
    (C06.reparamOk b s e).knots.toList
      = b.knots.toList.map (fun x => s + (x - b.start) * (e - s) / (b.stop - b.start)) := by
  apply List.ext_getElem
  · simp [C06.reparamOk_size]
  · intro i h1 h2
    have hi : i < b.knots.size := by simpa using h2
    have hi' : i < (C06.reparamOk b s e).knots.size := by rw [C06.reparamOk_size]; exact hi
    have := C06.reparamOk_kn b (C06.valid_size_pos hv) s e i
    rw [C06.kn_of_lt _ hi', C06.kn_of_lt _ hi] at this
    simp only [List.getElem_map, Array.getElem_toList]
    exact this

/-- `ClampedCont` is invariant under the normalisation to `[0,1]`. -/
theorem clampedCont_reparam {b : Basis K} (hv : b.Valid) (hc : ClampedCont b) :
    ClampedCont (C06.reparamOk b 0 1) := by
  have hd : 0 < b.stop - b.start := sub_pos.mpr hv.start_lt_stop
  set ψ : K → K := fun x => 0 + (x - b.start) * (1 - 0) / (b.stop - b.start) with hψ
  have hmono : StrictMono ψ := by
    intro x y hxy
    simp only [hψ, zero_add, sub_zero, mul_one]
    exact (div_lt_div_iff_of_pos_right hd).mpr (by linarith)
  have hl : (C06.reparamOk b 0 1).knots.toList = b.knots.toList.map ψ := reparamOk_toList hv 0 1
  have h0 : (C06.reparamOk b 0 1).start = 0 := C06.reparamOk_start hv 0 1
  have h1 : (C06.reparamOk b 0 1).stop = 1 := C06.reparamOk_stop hv 0 1
  have hψ0 : ψ b.start = 0 := by simp [hψ]
  have hψ1 : ψ b.stop = 1 := by
    simp only [hψ, zero_add, sub_zero, mul_one]
    exact div_self (ne_of_gt hd)
  have hmid : midKnots (C06.reparamOk b 0 1) = (midKnots b).map ψ := by
    unfold midKnots
    rw [hl, C06.reparamOk_size, C06.reparamOk_order, List.map_take, List.map_drop]
  refine ⟨hc.per, hc.order_ge, ?_, ?_, ?_⟩
  · rw [hmid, h0, h1, hl, C06.reparamOk_order]
    conv_lhs => rw [hc.knots]
    rw [List.map_append, List.map_append, List.map_replicate, List.map_replicate, hψ0, hψ1]
  · intro x hx
    rw [hmid] at hx
    obtain ⟨y, hy, rfl⟩ := List.mem_map.mp hx
    have := hc.inside y hy
    rw [h0, h1, ← hψ0, ← hψ1]
    exact ⟨hmono this.1, hmono this.2⟩
  · intro x hx
    rw [hmid] at hx ⊢
    obtain ⟨y, hy, rfl⟩ := List.mem_map.mp hx
    rw [List.count_map_of_injective _ _ hmono.injective]
    exact hc.cont y hy

/-- **The common entry list of two bases**, computable: run-length encode the interior knots of the two
    normalised knot vectors (`reparam()` to `[0,1]`) and merge them: one entry
    (value, multiplicity in basis 1, multiplicity in basis 2) per distinct interior knot, `0` where absent. -/
def commonEntries (b1 b2 : Basis K) : List (K × ℕ × ℕ) :=
  mergeE (rle (midKnots (C06.reparamOk b1 0 1))) (rle (midKnots (C06.reparamOk b2 0 1)))

/-- **The common-entry form, with the entry list computed.**  ANY two valid clamped continuous bases
    (orders `≥ 2`, any domains) whose normalised knots — the knot vectors after `reparam()` to `[0,1]` —
    are pairwise equal or more than `δ` apart have normalised bases
    `openBasis p_j (clampedU 0 1 U) (clampedM p_j (L.map m_j))` over the ONE list `L = commonEntries b₁ b₂`:
    the merged distinct interior knots, `Separated δ` with the two ends, multiplicities `≤ p_j - 1`. -/
theorem common_entries (δ : K) (hδ : 0 ≤ δ) (b1 b2 : Basis K) (hv1 : b1.Valid) (hv2 : b2.Valid)
    (hc1 : ClampedCont b1) (hc2 : ClampedCont b2)
    (hsep : PairSeparated δ (C06.reparamOk b1 0 1).knots.toList (C06.reparamOk b2 0 1).knots.toList) :
    C06.reparamOk b1 0 1
        = openBasis b1.order (clampedU 0 1 ((commonEntries b1 b2).map (·.1)))
            (clampedM b1.order ((commonEntries b1 b2).map (·.2.1)))
      ∧ C06.reparamOk b2 0 1
        = openBasis b2.order (clampedU 0 1 ((commonEntries b1 b2).map (·.1)))
            (clampedM b2.order ((commonEntries b1 b2).map (·.2.2)))
      ∧ Separated δ (clampedU 0 1 ((commonEntries b1 b2).map (·.1)))
      ∧ ∀ e ∈ commonEntries b1 b2, e.2.1 ≤ b1.order - 1 ∧ e.2.2 ≤ b2.order - 1 :=
  common_entries_core δ hδ 0 1 zero_lt_one (C06.reparamOk b1 0 1) (C06.reparamOk b2 0 1)
    (valid_pairwise (C06.reparamOk_valid hv1 zero_lt_one)) (valid_pairwise (C06.reparamOk_valid hv2 zero_lt_one))
    (clampedCont_reparam hv1 hc1) (clampedCont_reparam hv2 hc2)
    (C06.reparamOk_start hv1 0 1) (C06.reparamOk_stop hv1 0 1)
    (C06.reparamOk_start hv2 0 1) (C06.reparamOk_stop hv2 0 1) hsep

/-- … in particular such a list exists. -/
theorem exists_common_entries (δ : K) (hδ : 0 ≤ δ) (b1 b2 : Basis K) (hv1 : b1.Valid) (hv2 : b2.Valid)
    (hc1 : ClampedCont b1) (hc2 : ClampedCont b2)
    (hsep : PairSeparated δ (C06.reparamOk b1 0 1).knots.toList (C06.reparamOk b2 0 1).knots.toList) :
    ∃ L : List (K × ℕ × ℕ),
      C06.reparamOk b1 0 1
        = openBasis b1.order (clampedU 0 1 (L.map (·.1))) (clampedM b1.order (L.map (·.2.1)))
      ∧ C06.reparamOk b2 0 1
        = openBasis b2.order (clampedU 0 1 (L.map (·.1))) (clampedM b2.order (L.map (·.2.2)))
      ∧ Separated δ (clampedU 0 1 (L.map (·.1)))
      ∧ ∀ e ∈ L, e.2.1 ≤ b1.order - 1 ∧ e.2.2 ≤ b2.order - 1 :=
  ⟨commonEntries b1 b2, common_entries δ hδ b1 b2 hv1 hv2 hc1 hc2 hsep⟩

end C12

end Splipy
