import Splipy.Lemmas.Integral
import Splipy.Lemmas.Smooth
import Splipy.Lemmas.LinearPrecision

/-!
# C16: the antiderivative `BSplineBasis.integrate` uses

`BSplineBasis.integrate(t0, t1)` evaluates the B-splines of one degree higher (`q+1`, order `p+1`)
on the knot vector `τ` extended by one knot at each end and returns, for the function number `i`
of the extended numbering,

  `intF · τ q N i t1 − intF · τ q N i t0`,   `intF s τ q N i t = (τ (i+q+1) − τ i)/(q+1) · Σ_{i ≤ j < N} B_{j,q+1}(t)`

(`N` = number of functions of the extended basis).  This file shows, over any ordered field:

* `intF_eq_eval`        – on the knot span `μ`, `intF` is `eval` of the polynomial `intFpoly τ μ q i`;
* `derivative_intFpoly` – whose formal derivative is the polynomial piece `Bpoly τ μ q i` of `B_{i,q}`
                          (from L8, `Lemmas/Integral.lean`);
* `eval_sub_eq_of_derivative_eq` – antiderivative differences do not depend on the antiderivative;
* `intF_left_eq_right`  – `intF` is continuous across every knot of multiplicity `≤ q+1`
                          (so the per-span differences telescope over several spans);
* `sum_intF`            – `Σ_i intF_i(t) = t − const` (linear precision), hence the integrals of all
                          basis functions over `[t0,t1]` add up to `t1 − t0`.
-/

namespace Splipy

open Polynomial

variable {K : Type} [Field K] [LinearOrder K]

/-- The function the code uses as antiderivative of `B · τ q i`: `τ` is the extended knot sequence,
`N` the number of degree-`q+1` functions on it. -/
def intF (s : Side) (τ : ℕ → K) (q N i : ℕ) (t : K) : K :=
  (τ (i+q+1) - τ i) / ((q:K)+1) * ∑ j ∈ Finset.Ico i N, B s τ (q+1) j t

/-- The polynomial piece of `intF · τ q N i` on the knot span number `μ` (any `N > μ`). -/
noncomputable def intFpoly (τ : ℕ → K) (μ q i : ℕ) : K[X] :=
  C ((τ (i+q+1) - τ i) / ((q:K)+1)) * ∑ j ∈ Finset.Icc i μ, Bpoly τ μ (q+1) j

/-- On the span `μ` the code's function is `eval` of `intFpoly`. -/
theorem intF_eq_eval (s : Side) (τ : ℕ → K) (hτ : Monotone τ) (μ q N i : ℕ) (hN : μ < N) (t : K)
    (h : s.mem (τ μ) (τ (μ+1)) t) :
    intF s τ q N i t = (intFpoly τ μ q i).eval t := by
  unfold intF intFpoly
  rw [eval_mul, eval_C, eval_finsetSum]
  congr 1
  have h1 : ∑ j ∈ Finset.Icc i μ, (Bpoly τ μ (q+1) j).eval t
      = ∑ j ∈ Finset.Icc i μ, B s τ (q+1) j t :=
    Finset.sum_congr rfl (fun j _ => (B_eq_eval_Bpoly s τ hτ μ (q+1) j t h).symm)
  rw [h1]
  symm
  apply Finset.sum_subset
  · intro j hj
    rw [Finset.mem_Icc] at hj
    exact Finset.mem_Ico.mpr ⟨hj.1, by omega⟩
  · intro j hj hnj
    rw [Finset.mem_Ico] at hj
    rw [Finset.mem_Icc] at hnj
    exact B_eq_zero_of_mem_of_gt s τ hτ (q+1) j μ t h (by omega)

variable [IsStrictOrderedRing K]

/-- **The integral identity** (antiderivative form): on every non-empty knot span the formal
derivative of the polynomial the code evaluates is the polynomial piece of `B · τ q i`. -/
theorem derivative_intFpoly (τ : ℕ → K) (hτ : Monotone τ) (μ : ℕ) (hμ : τ μ < τ (μ+1)) (q i : ℕ) :
    derivative (intFpoly τ μ q i) = Bpoly τ μ q i := by
  unfold intFpoly
  rw [derivative_C_mul]
  rcases eq_or_lt_of_le (hτ (show i ≤ i+q+1 by omega)) with hz | hz
  · rw [Bpoly_eq_zero_of_knots_eq τ hτ μ hμ q i hz.symm, ← hz, sub_self, zero_div, C_0, zero_mul]
  · exact (Bpoly_eq_C_mul_derivative_tail_sum τ hτ μ hμ q i hz).symm

/-- Differences of antiderivatives do not depend on the antiderivative (characteristic zero). -/
theorem eval_sub_eq_of_derivative_eq (P Q : K[X]) (h : derivative P = derivative Q) (a b : K) :
    P.eval b - P.eval a = Q.eval b - Q.eval a := by
  have hd : derivative (P - Q) = 0 := by rw [derivative_sub, h, sub_self]
  have hc : P - Q = C ((P - Q).coeff 0) :=
    eq_C_of_natDegree_eq_zero (Polynomial.derivative_eq_zero.mp hd)
  have hP : P = Q + C ((P - Q).coeff 0) := by
    rw [← hc]; ring
  rw [hP]
  simp only [eval_add, eval_C]
  ring

/-- **`integrate` on one span**: for `t0`, `t1` in (the closure of) one non-empty knot span — each
with the side that makes it a member — the number the code returns, `intF(t1) − intF(t0)`, is
`P(t1) − P(t0)` for EVERY antiderivative `P` of the polynomial piece of `B · τ q i`,
i.e. the integral of that piece over `[t0,t1]`. -/
theorem intF_sub_eq_antiderivative (τ : ℕ → K) (hτ : Monotone τ) (μ q N i : ℕ) (hN : μ < N)
    (s0 s1 : Side) (t0 t1 : K) (h0 : s0.mem (τ μ) (τ (μ+1)) t0) (h1 : s1.mem (τ μ) (τ (μ+1)) t1)
    (P : K[X]) (hP : derivative P = Bpoly τ μ q i) :
    intF s1 τ q N i t1 - intF s0 τ q N i t0 = P.eval t1 - P.eval t0 := by
  have hμ : τ μ < τ (μ+1) := by
    cases s0
    · exact lt_of_le_of_lt h0.1 h0.2
    · exact lt_of_lt_of_le h0.1 h0.2
  rw [intF_eq_eval s1 τ hτ μ q N i hN t1 h1, intF_eq_eval s0 τ hτ μ q N i hN t0 h0]
  exact eval_sub_eq_of_derivative_eq _ _ (by rw [derivative_intFpoly τ hτ μ hμ q i, hP]) t0 t1

omit [IsStrictOrderedRing K] in
/-- `intF` is continuous at every `ξ` occurring at most `q+1` times in `τ` (every interior knot
of the extended vector: the original basis of degree `q` has interior multiplicities `≤ q+1`). -/
theorem intF_left_eq_right (τ : ℕ → K) (hτ : Monotone τ) (ξ : K) (q N i : ℕ)
    (hm : ∀ j, τ j = ξ → τ (j+(q+1)) ≠ ξ) :
    intF .left τ q N i ξ = intF .right τ q N i ξ := by
  unfold intF
  congr 1
  exact Finset.sum_congr rfl (fun j _ => B_left_eq_right τ hτ ξ (q+1) (q+1) j le_rfl hm)

/-- **`intF` is continuous at EVERY interior point of the domain, whatever the knot multiplicity.**
(`μL`, `μR`: the spans containing `ξ` from the left / from the right, both inside the domain
`q+1 ≤ μ < N` of the extended basis.)  Where a degree-`q+1` B-spline of the tail sum jumps (a knot of
multiplicity `> q+1`) either the factor `τ (i+q+1) − τ i` vanishes, or the jumps cancel by the
partition of unity. -/
theorem intF_left_eq_right_of_domain (τ : ℕ → K) (hτ : Monotone τ) (ξ : K) (q N i μL μR : ℕ)
    (hL : Side.left.mem (τ μL) (τ (μL+1)) ξ) (hR : Side.right.mem (τ μR) (τ (μR+1)) ξ)
    (hqL : q + 1 ≤ μL) (hNL : μL < N) (hqR : q + 1 ≤ μR) (hNR : μR < N) :
    intF .left τ q N i ξ = intF .right τ q N i ξ := by
  unfold intF
  rcases eq_or_lt_of_le (hτ (show i ≤ i+q+1 by omega)) with hz | hz
  · rw [← hz, sub_self, zero_div, zero_mul, zero_mul]
  · congr 1
    rcases lt_or_ge (τ i) ξ with hlt | hge
    · -- the complement `Σ_{j<i}` is continuous, and both full sums are 1
      rcases Nat.lt_or_ge N i with hNi | hNi
      · rw [Finset.Ico_eq_empty (by omega), Finset.sum_empty, Finset.sum_empty]
      · have h1 := B_sum_range_eq_one .left τ hτ (q+1) μL N hqL hNL ξ hL
        have h2 := B_sum_range_eq_one .right τ hτ (q+1) μR N hqR hNR ξ hR
        rw [Finset.range_eq_Ico, ← Finset.sum_Ico_consecutive _ (Nat.zero_le i) hNi] at h1 h2
        have h3 : ∑ j ∈ Finset.Ico 0 i, B .left τ (q+1) j ξ = ∑ j ∈ Finset.Ico 0 i, B .right τ (q+1) j ξ := by
          apply Finset.sum_congr rfl
          intro j hj
          rw [Finset.mem_Ico] at hj
          apply B_left_eq_right_of_local τ hτ ξ (q+1) j
          · intro h
            exact absurd (h ▸ hτ (show j ≤ i by omega)) (not_le.mpr hlt)
          · intro h
            exact absurd (h ▸ hτ (show j + 1 ≤ i by omega)) (not_le.mpr hlt)
        linarith
    · apply Finset.sum_congr rfl
      intro j hj
      rw [Finset.mem_Ico] at hj
      apply B_left_eq_right_of_local τ hτ ξ (q+1) j
      · intro _ h2
        have : τ (i+q+1) ≤ τ (j+(q+1)) := hτ (by omega)
        exact absurd (lt_of_lt_of_le hz this) (by rw [h2]; exact not_lt.mpr hge)
      · intro _ h2
        have : τ (i+q+1) ≤ τ (j+(q+1)+1) := hτ (by omega)
        exact absurd (lt_of_lt_of_le hz this) (by rw [h2]; exact not_lt.mpr hge)

/-! ## The integrals of all basis functions add up to the length of the interval -/

omit [LinearOrder K] [IsStrictOrderedRing K] in
/-- `Σ_{i ≤ j} (τ (i+P) − τ i) = (τ (j+1) + … + τ (j+P)) − (τ 0 + … + τ (P−1))`. -/
theorem sum_knot_diff (τ : ℕ → K) (P j : ℕ) :
    ∑ i ∈ Finset.range (j+1), (τ (i+P) - τ i)
      = grevilleSum τ P j - ∑ k ∈ Finset.range P, τ k := by
  induction j with
  | zero =>
    rw [Finset.sum_range_one, zero_add]
    unfold grevilleSum
    induction P with
    | zero => simp
    | succ P ih =>
      rw [Finset.sum_range_succ, Finset.sum_range_succ]
      have e : 0 + 1 + P = P + 1 := by omega
      rw [e]
      linear_combination ih
  | succ j ih =>
    rw [Finset.sum_range_succ, ih]
    have h1 : grevilleSum τ (P+1) j = grevilleSum τ P j + τ (j+P+1) := grevilleSum_succ τ P j
    have h2 : grevilleSum τ (P+1) j = τ (j+1) + grevilleSum τ P (j+1) := grevilleSum_succ' τ P j
    have e : j + 1 + P = j + P + 1 := by omega
    rw [e]
    linear_combination h2 - h1

/-- `Σ_{i<N} intF_i(t) = t − (τ 0 + … + τ q)/(q+1)` on every span `μ` with `q+1 ≤ μ < N`
(partition of unity and linear precision of the degree-`q+1` B-splines). -/
theorem sum_intF (s : Side) (τ : ℕ → K) (hτ : Monotone τ) (μ q N : ℕ) (hq : q + 1 ≤ μ) (hN : μ < N)
    (t : K) (h : s.mem (τ μ) (τ (μ+1)) t) :
    ∑ i ∈ Finset.range N, intF s τ q N i t
      = t - (∑ k ∈ Finset.range (q+1), τ k) / ((q:K)+1) := by
  have hq0 : ((q:K)+1) ≠ 0 := by
    have : (0:K) ≤ (q:K) := Nat.cast_nonneg q
    exact ne_of_gt (by linarith)
  have hpu := B_sum_range_eq_one s τ hτ (q+1) μ N hq hN t h
  have hlp := grevilleSum_mul_B_sum_range s τ hτ (q+1) μ N hq hN t h
  have hswap : ∑ i ∈ Finset.range N, (τ (i+(q+1)) - τ i) * ∑ j ∈ Finset.Ico i N, B s τ (q+1) j t
      = ∑ j ∈ Finset.range N, (∑ i ∈ Finset.range (j+1), (τ (i+(q+1)) - τ i)) * B s τ (q+1) j t := by
    simp only [Finset.range_eq_Ico, Finset.mul_sum, Finset.sum_mul]
    rw [Finset.sum_Ico_Ico_comm]
  have hmain : ∑ i ∈ Finset.range N, (τ (i+(q+1)) - τ i) * ∑ j ∈ Finset.Ico i N, B s τ (q+1) j t
      = ((q:K)+1) * t - ∑ k ∈ Finset.range (q+1), τ k := by
    rw [hswap]
    simp_rw [sum_knot_diff τ (q+1), sub_mul]
    rw [Finset.sum_sub_distrib, ← Finset.mul_sum, hpu, mul_one, hlp]
    push_cast
    ring
  have hform : ∑ i ∈ Finset.range N, intF s τ q N i t
      = (∑ i ∈ Finset.range N, (τ (i+(q+1)) - τ i) * ∑ j ∈ Finset.Ico i N, B s τ (q+1) j t)
          / ((q:K)+1) := by
    rw [div_eq_mul_inv, Finset.sum_mul]
    apply Finset.sum_congr rfl
    intro i _
    unfold intF
    have e : i + q + 1 = i + (q+1) := by omega
    rw [e]
    ring
  rw [hform, hmain]
  field_simp

omit [IsStrictOrderedRing K] in
/-- The entry the code drops (`N = N[1:]`, extended index `0`) is zero whenever both evaluation
points lie in the domain (partition of unity): nothing is lost. -/
theorem intF_zero_sub (s0 s1 : Side) (τ : ℕ → K) (hτ : Monotone τ) (μ0 μ1 q N : ℕ)
    (hq0 : q + 1 ≤ μ0) (hN0 : μ0 < N) (hq1 : q + 1 ≤ μ1) (hN1 : μ1 < N) (t0 t1 : K)
    (h0 : s0.mem (τ μ0) (τ (μ0+1)) t0) (h1 : s1.mem (τ μ1) (τ (μ1+1)) t1) :
    intF s1 τ q N 0 t1 - intF s0 τ q N 0 t0 = 0 := by
  unfold intF
  rw [← Finset.range_eq_Ico, B_sum_range_eq_one s1 τ hτ (q+1) μ1 N hq1 hN1 t1 h1,
    B_sum_range_eq_one s0 τ hτ (q+1) μ0 N hq0 hN0 t0 h0]
  ring

/-- **The basis integrals add up to `t1 − t0`** (`t0`, `t1` anywhere in the domain, in possibly
different spans): `Σ_{1 ≤ i < N} (intF_i(t1) − intF_i(t0)) = t1 − t0` — the sum of the list
`integrate(t0,t1)` returns for a non-periodic basis (and, the periodic collapse being a
re-grouping of the same terms, for a periodic one). -/
theorem sum_intF_sub (s0 s1 : Side) (τ : ℕ → K) (hτ : Monotone τ) (μ0 μ1 q N : ℕ)
    (hq0 : q + 1 ≤ μ0) (hN0 : μ0 < N) (hq1 : q + 1 ≤ μ1) (hN1 : μ1 < N) (t0 t1 : K)
    (h0 : s0.mem (τ μ0) (τ (μ0+1)) t0) (h1 : s1.mem (τ μ1) (τ (μ1+1)) t1) :
    ∑ i ∈ Finset.Ico 1 N, (intF s1 τ q N i t1 - intF s0 τ q N i t0) = t1 - t0 := by
  have hN : 0 < N := by omega
  have hall : ∑ i ∈ Finset.range N, (intF s1 τ q N i t1 - intF s0 τ q N i t0) = t1 - t0 := by
    rw [Finset.sum_sub_distrib, sum_intF s1 τ hτ μ1 q N hq1 hN1 t1 h1,
      sum_intF s0 τ hτ μ0 q N hq0 hN0 t0 h0]
    ring
  rw [Finset.range_eq_Ico, Finset.sum_eq_sum_Ico_succ_bot hN] at hall
  rw [intF_zero_sub s0 s1 τ hτ μ0 μ1 q N hq0 hN0 hq1 hN1 t0 t1 h0 h1, zero_add] at hall
  exact hall

end Splipy
