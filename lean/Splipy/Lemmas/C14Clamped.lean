import Splipy.Lemmas.C14Energy
set_option linter.unusedSectionVars false
set_option linter.unusedSimpArgs false

/-!
# C14: `cubic_curve(…, TANGENT)` and `(…, TANGENTNATURAL)` are solvable on every strictly increasing
parameter sequence (energy argument with a first-derivative end condition)
-/

namespace Splipy
open Finset
namespace Interp
variable {K : Type} [Field K] [LinearOrder K] [IsStrictOrderedRing K] [FloorRing K]

omit [IsStrictOrderedRing K] in
theorem cubicKnots_clamped (bd : ℕ) (h1 : bd ≠ bFREE) (h2 : bd ≠ bHERMITE) (h3 : bd ≠ bPERIODIC)
    (a d : K) (mid : List K) :
    cubicKnots bd (a :: (mid ++ [d])) = .ok ([a, a, a] ++ (a :: (mid ++ [d])) ++ [d, d, d]) := by
  have e0 : pyGet (a :: (mid ++ [d])) 0 = .ok a := pyGet_nat _ 0 (by simp)
  have e9 : pyGet (a :: (mid ++ [d])) (-1) = .ok d := by
    have := pyGet_neg (a :: (mid ++ [d])) 1 (by omega) (by simp)
    simpa using this
  unfold cubicKnots
  simp only [e0, e9, bind, Except.bind, pure, Except.pure, h1, h2, h3, if_false]
  simp [List.replicate]

omit [IsStrictOrderedRing K] in
theorem colloc_two (b : Basis K) (tol u v : K) (e : ℕ) :
    colloc b tol [u, v] e = #[b.evaluate tol u e true, b.evaluate tol v e true] := by
  simp [colloc, Obj.basisMat]

omit [IsStrictOrderedRing K] in
theorem colloc_one (b : Basis K) (tol u : K) (e : ℕ) :
    colloc b tol [u] e = #[b.evaluate tol u e true] := by
  simp [colloc, Obj.basisMat]

/-- **`cubic_curve(x, TANGENT, t, tangents)` succeeds** for every strictly increasing `t` (gaps ≥ tol)
and any two prescribed end tangents. -/
theorem cubicCurve_TANGENT_ok (a d : K) (mid : List K) (tol rt atl : K) (htol : 0 < tol)
    (hgap : ∀ i j, i < j → j < mid.length + 2 →
      (a :: (mid ++ [d])).getD i 0 + tol ≤ (a :: (mid ++ [d])).getD j 0)
    (x : Mat K) (m : ℕ) (hxs : x.size = mid.length + 2 ∧ ∀ i, i < mid.length + 2 → (x.getD i #[]).size = m)
    (g : Mat K) (hg : g.size = 2 ∧ ∀ i, i < 2 → (g.getD i #[]).size = m) :
    ∃ cp, cubicCurve bTANGENT tol rt atl x (a :: (mid ++ [d])) (some g) = .ok (natBasis a d mid, cp) ∧
      cp.size = mid.length + 4 ∧ ∀ i, i < mid.length + 4 → (cp.getD i #[]).size = m := by
  apply cubicCurve_clamped_ok bTANGENT 1 1 (by decide) (by omega) (by omega) a d mid tol rt atl htol hgap
    (clamped_unique a d mid tol htol hgap 1 1 (Or.inl rfl) (Or.inl rfl)) x m hxs (some g) g
    (cubicKnots_clamped bTANGENT (by decide) (by decide) (by decide) a d mid) _ hg
  unfold cubicExtra
  have hall : ∀ (i : ℕ) (hi : i < g.size), g[i].size = m := by
    intro i hi
    have := hg.2 i (by rw [← hg.1]; exact hi)
    have e : g[i] = g.getD i #[] := by simp [Array.getD, hi]
    rw [e, this]
  have hh : (a :: (mid ++ [d])).headD 0 = a := rfl
  have hl : (a :: (mid ++ [d])).getLastD 0 = d := by simp [List.getLastD]
  simp only [bFREE, bPERIODIC, bTANGENT, bHERMITE, bTANGENTNATURAL, bNATURAL, bind, Except.bind, pure,
    Except.pure, hh, hl, colloc_two]
  simp [hall]

/-- **`cubic_curve(x, TANGENTNATURAL, t, tangent)` succeeds** for every strictly increasing `t`. -/
theorem cubicCurve_TANGENTNATURAL_ok (a d : K) (mid : List K) (tol rt atl : K) (htol : 0 < tol)
    (hgap : ∀ i j, i < j → j < mid.length + 2 →
      (a :: (mid ++ [d])).getD i 0 + tol ≤ (a :: (mid ++ [d])).getD j 0)
    (x : Mat K) (m : ℕ) (hxs : x.size = mid.length + 2 ∧ ∀ i, i < mid.length + 2 → (x.getD i #[]).size = m)
    (g : Mat K) (hg : g.size = 1 ∧ ∀ i, i < 1 → (g.getD i #[]).size = m) :
    ∃ cp, cubicCurve bTANGENTNATURAL tol rt atl x (a :: (mid ++ [d])) (some g) = .ok (natBasis a d mid, cp) ∧
      cp.size = mid.length + 4 ∧ ∀ i, i < mid.length + 4 → (cp.getD i #[]).size = m := by
  have heR : (g ++ Array.replicate 1 (Array.replicate m (0 : K))).size = 2 ∧
      ∀ i, i < 2 → ((g ++ Array.replicate 1 (Array.replicate m (0 : K))).getD i #[]).size = m := by
    refine ⟨by rw [Array.size_append, hg.1]; simp, fun i hi => ?_⟩
    interval_cases i
    · have : (g ++ Array.replicate 1 (Array.replicate m (0 : K))).getD 0 #[] = g.getD 0 #[] := by
        simp [Array.getD, hg.1, Array.getElem_push]
      rw [this]; exact hg.2 0 (by omega)
    · have : (g ++ Array.replicate 1 (Array.replicate m (0 : K))).getD 1 #[] = Array.replicate m 0 := by
        simp [Array.getD, hg.1, Array.getElem_push]
      rw [this]; simp
  apply cubicCurve_clamped_ok bTANGENTNATURAL 1 2 (by decide) (by omega) (by omega) a d mid tol rt atl htol hgap
    (clamped_unique a d mid tol htol hgap 1 2 (Or.inl rfl) (Or.inr rfl)) x m hxs (some g) _
    (cubicKnots_clamped bTANGENTNATURAL (by decide) (by decide) (by decide) a d mid) _ heR
  unfold cubicExtra
  have hall : ∀ (i : ℕ) (hi : i < g.size), g[i].size = m := by
    intro i hi
    have := hg.2 i (by rw [← hg.1]; exact hi)
    have e : g[i] = g.getD i #[] := by simp [Array.getD, hi]
    rw [e, this]
  have hh : (a :: (mid ++ [d])).headD 0 = a := rfl
  have hl : (a :: (mid ++ [d])).getLastD 0 = d := by simp [List.getLastD]
  simp only [bFREE, bPERIODIC, bTANGENT, bHERMITE, bTANGENTNATURAL, bNATURAL, bind, Except.bind, pure,
    Except.pure, hh, hl, colloc_one]
  simp [hall]

end Interp
end Splipy
