import Splipy.Lemmas.C09Ops

/-!
# C09: semantics of one operation / a sequence of operations as a homogeneous-affine map

`AffOp.sem dim op` is the map `p ↦ L p + t` on (zero-padded) points of space that `op` stands for
when applied to an object of dimension `dim`; `AffOp.inplace_acts` shows that the model realises
it on every control point with the weight untouched, `AffOp.run_acts` extends this to sequences.
-/

set_option linter.unusedSectionVars false

namespace Splipy
open C09 Obj

namespace AffOp
variable {K : Type} [Field K] [LinearOrder K]

/-- Per-axis scaling by the factors `scale(*args)` reads. -/
def scaleSem (dim : ℕ) (args : List (ScaleArg K)) : HomAffine K :=
  match Obj.scaleNums dim args with
  | .ok nums => ⟨linDiag dim (fun i => (Obj.scalePad nums).getD i 1), 0⟩
  | .error _ => HomAffine.id

/-- The affine map of space an operation stands for (object of dimension `dim`). -/
def sem (dim : ℕ) : AffOp K → HomAffine K
  | translate x | iadd x | add x | radd x => ⟨LinearMap.id, fun i => x.getD i 0⟩
  | isub x | sub x => ⟨LinearMap.id, fun i => - x.getD i 0⟩
  | scale args => scaleSem dim args
  | imul a | mul a | rmul a => scaleSem dim [a]
  | itruediv a | div a =>
      match recip a with
      | .ok r => scaleSem dim [r]
      | .error _ => HomAffine.id
  | rotate ch sh n u =>
      ⟨linMat (rotateDim dim n) (if rotateDim dim n = 2 then rot2Mat ch sh else rot3Mat ch sh u), 0⟩
  | mirror n => ⟨linMat 3 (mirrorMat n), 0⟩
  | project keep => ⟨linKeep dim (fun i => keep.getD i false), 0⟩
  | setDimension n => ⟨linTrunc n, 0⟩
  | forceRational => HomAffine.id

/-- Dimension after the operation. -/
def newDim (dim : ℕ) : AffOp K → ℕ
  | translate x | iadd x | add x | radd x | isub x | sub x => max dim x.length
  | rotate _ _ n _ => rotateDim dim n
  | setDimension n => n
  | _ => dim

/-- Rationality after the operation. -/
def newRational (rat : Bool) : AffOp K → Bool
  | forceRational => true
  | _ => rat

/-- `set_dimension(0)` on a non-rational object produces an array with a zero-length last axis,
    which the `Tensor` model does not represent; it is outside the property (dimension 2–3). -/
def Admissible : AffOp K → Prop
  | setDimension n => 0 < n
  | _ => True

theorem getD_map_neg (x : List K) (i : ℕ) : (x.map (- ·)).getD i 0 = - x.getD i 0 := by
  simp only [List.getD_eq_getElem?_getD, List.getElem?_map]
  cases x[i]? <;> simp

theorem translateChecked_acts {o o' : Obj K} (h : o.WF) (x : List K)
    (hs : o.translateChecked x = .ok o') :
    Acts o o' ⟨LinearMap.id, fun i => x.getD i 0⟩ ∧ o'.dimension = max o.dimension x.length
      ∧ o'.rational = o.rational := by
  unfold translateChecked at hs
  split_ifs at hs
  injection hs with hs; subst hs
  exact ⟨translate_acts h x, translate_dimension h x, translate_rational o x⟩

theorem scaleArgs_acts {o o' : Obj K} (h : o.WF) (args : List (ScaleArg K))
    (hs : o.scaleArgs args = .ok o') :
    Acts o o' (scaleSem o.dimension args) ∧ o'.dimension = o.dimension
      ∧ o'.rational = o.rational := by
  unfold scaleArgs at hs
  unfold scaleSem
  cases hn : Obj.scaleNums o.dimension args with
  | error e => rw [hn] at hs; cases hs
  | ok nums =>
    rw [hn] at hs
    exact scale_acts h nums hs

/-- **Every operation acts on every control point by its affine map, weights untouched.** -/
theorem inplace_acts {o o' : Obj K} (h : o.WF) (op : AffOp K) (hadm : op.Admissible)
    (hs : op.inplace o = .ok o') :
    Acts o o' (op.sem o.dimension) ∧ o'.dimension = op.newDim o.dimension
      ∧ o'.rational = op.newRational o.rational := by
  cases op with
  | translate x => exact translateChecked_acts h x hs
  | iadd x => exact translateChecked_acts h x hs
  | add x => exact translateChecked_acts h x hs
  | radd x => exact translateChecked_acts h x hs
  | isub x =>
    obtain ⟨h1, h2, h3⟩ := translateChecked_acts h _ hs
    refine ⟨h1.congr (fun _ _ => rfl) (by funext i; exact getD_map_neg x i), ?_, h3⟩
    rw [h2, List.length_map]; rfl
  | sub x =>
    obtain ⟨h1, h2, h3⟩ := translateChecked_acts h _ hs
    refine ⟨h1.congr (fun _ _ => rfl) (by funext i; exact getD_map_neg x i), ?_, h3⟩
    rw [h2, List.length_map]; rfl
  | scale args => exact scaleArgs_acts h args hs
  | imul a => exact scaleArgs_acts h [a] hs
  | mul a => exact scaleArgs_acts h [a] hs
  | rmul a => exact scaleArgs_acts h [a] hs
  | itruediv a =>
    simp only [inplace] at hs
    simp only [sem]
    cases hr : recip a with
    | error e => rw [hr] at hs; cases hs
    | ok r => rw [hr] at hs; exact scaleArgs_acts h [r] hs
  | div a =>
    simp only [inplace] at hs
    simp only [sem]
    cases hr : recip a with
    | error e => rw [hr] at hs; cases hs
    | ok r => rw [hr] at hs; exact scaleArgs_acts h [r] hs
  | rotate ch sh n u =>
    obtain ⟨h1, h2, h3⟩ := rotate_acts h ch sh n u hs
    refine ⟨?_, h2, h3⟩
    simp only [sem]
    rcases h1 with ⟨hd, hA⟩ | ⟨hd, hA⟩
    · rw [hd, if_pos rfl]; exact hA
    · rw [hd, if_neg (by omega)]; exact hA
  | mirror n =>
    obtain ⟨_, h1, h2, h3⟩ := mirror_acts h n hs
    refine ⟨h1, ?_, h3⟩
    rw [h2]; simp only [newDim]; omega
  | project keep =>
    simp only [inplace, projectChecked] at hs
    split_ifs at hs
    injection hs with hs; subst hs
    exact ⟨projectPlane_acts h keep, projectPlane_dimension o keep, rfl⟩
  | setDimension n =>
    simp only [inplace] at hs
    injection hs with hs; subst hs
    exact ⟨setDimension_acts h n (Or.inl hadm), setDimension_dimension h n, rfl⟩
  | forceRational =>
    simp only [inplace] at hs
    injection hs with hs; subst hs
    exact ⟨forceRational_acts h, forceRational_dimension o, forceRational_rational o⟩

/-- Composite map of a sequence (each op sees the dimension left by its predecessors). -/
def semList (dim : ℕ) : List (AffOp K) → HomAffine K
  | [] => HomAffine.id
  | op :: rest => (semList (op.newDim dim) rest).comp (op.sem dim)

def newDimList (dim : ℕ) : List (AffOp K) → ℕ
  | [] => dim
  | op :: rest => newDimList (op.newDim dim) rest

def newRationalList (rat : Bool) : List (AffOp K) → Bool
  | [] => rat
  | op :: rest => newRationalList (op.newRational rat) rest

/-- **Sequences of operations act by the composite affine map** (induction over the list). -/
theorem run_acts (ops : List (AffOp K)) {o o' : Obj K} (h : o.WF)
    (hadm : ∀ op ∈ ops, op.Admissible) (hs : AffOp.run o ops = .ok o') :
    Acts o o' (semList o.dimension ops) ∧ o'.dimension = newDimList o.dimension ops
      ∧ o'.rational = newRationalList o.rational ops := by
  induction ops generalizing o with
  | nil =>
    simp only [run, List.foldlM_nil] at hs
    injection hs with hs; subst hs
    exact ⟨Acts.refl h, rfl, rfl⟩
  | cons op rest ih =>
    simp only [run, List.foldlM_cons] at hs
    cases h1 : op.inplace o with
    | error e => rw [h1] at hs; cases hs
    | ok o1 =>
      rw [h1] at hs
      obtain ⟨hA, hd, hr⟩ := inplace_acts h op (hadm op (List.mem_cons_self ..)) h1
      obtain ⟨hB, hd', hr'⟩ := ih hA.wf (fun op' hop' => hadm op' (List.mem_cons_of_mem _ hop')) hs
      rw [hd] at hB hd'
      rw [hr] at hr'
      exact ⟨hA.trans hB, hd', hr'⟩

end AffOp
end Splipy
