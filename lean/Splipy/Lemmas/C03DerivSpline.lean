import Splipy.Lemmas.C10Cummax
import Splipy.Lemmas.Basic
import Splipy.Model.DerivSpline

/-!
# C03 – the derivative spline

Spec level: `Σ_i c_i · dB(q+1, i, e+1) = Σ_j Q_j · dB'(q, j, e)` on the knots `τ' j = τ (j+1)` with
`Q_j = (q+1)(c_{j+1} − c_j)/(τ_{j+q+2} − τ_{j+1})` — summation by parts of the `dB` recursion; the two
boundary terms vanish at clamped ends (zero denominators) and inside the domain (local support).

Model level: the rows of `Obj.derivativeMatrix` compute exactly these difference quotients
(`(i+1) % n` for periodic directions), and the new basis lives on `knots[1:-1]`.
-/

namespace Splipy

variable {K : Type} [Field K] [LinearOrder K]

/-- Summation by parts. -/
theorem sum_by_parts (c g : ℕ → K) (N : ℕ) :
    (Finset.range (N+1)).sum (fun i => c i * (g i - g (i+1))) =
      c 0 * g 0 - c N * g (N+1) + (Finset.range N).sum (fun j => (c (j+1) - c j) * g (j+1)) := by
  induction N with
  | zero => simp; ring
  | succ N ih =>
    rw [Finset.sum_range_succ, ih, Finset.sum_range_succ (fun j => (c (j+1) - c j) * g (j+1))]
    ring

/-- The shifted knot sequence `τ[1:]`. -/
def shiftKnots (τ : ℕ → K) : ℕ → K := fun j => τ (j+1)

theorem dB_shift (s : Side) (τ : ℕ → K) (q j e : ℕ) (t : K) :
    dB s τ q (j+1) e t = dB s (shiftKnots τ) q j e t := by
  apply dB_congr_knots
  intro k _
  unfold shiftKnots
  congr 1
  omega

/-- Control points of the derivative spline: `(q+1)(c_{j+1} − c_j)/(τ_{j+q+2} − τ_{j+1})`
    (`p·(P_{i+1} − P_i)/(k[i+p+1] − k[i+1])` with `p = q+1` in the code's notation). -/
def dsplineCoef (τ : ℕ → K) (q : ℕ) (c : ℕ → K) (j : ℕ) : K :=
  ((q : K) + 1) * (c (j+1) - c j) / (τ (j+q+2) - τ (j+1))

/-- **Derivative spline identity** (general form): the `(e+1)`-th derivative of the degree-`q+1` spline
    with coefficients `c` on `τ` is the `e`-th derivative of the degree-`q` spline with the difference
    coefficients on `τ[1:]`, provided the two boundary terms vanish (denominator or function zero). -/
theorem splineDeriv_succ_eq (s : Side) (τ : ℕ → K) (q N e : ℕ) (c : ℕ → K) (t : K)
    (h0 : τ (q+1) = τ 0 ∨ dB s τ q 0 e t = 0)
    (hN : τ (N+1+q+1) = τ (N+1) ∨ dB s τ q (N+1) e t = 0) :
    splineDeriv s τ (q+1) (N+1) c (e+1) t =
      splineDeriv s (shiftKnots τ) q N (dsplineCoef τ q c) e t := by
  unfold splineDeriv
  set g : ℕ → K := fun i => dB s τ q i e t / (τ (i+q+1) - τ i) with hg
  have e1 : ∀ i, c i * dB s τ (q+1) i (e+1) t = ((q:K)+1) * (c i * (g i - g (i+1))) := by
    intro i
    rw [dB_succ_succ, hg]
    have : i + 1 + q + 1 = i + q + 2 := by omega
    simp only [this]
    ring
  rw [Finset.sum_congr rfl (fun i _ => e1 i), ← Finset.mul_sum, sum_by_parts]
  have g0 : g 0 = 0 := by
    rw [hg]; simp only [Nat.zero_add]
    rcases h0 with h | h
    · rw [h, sub_self, div_zero]
    · rw [h, zero_div]
  have gN : g (N+1) = 0 := by
    rw [hg]; simp only
    rcases hN with h | h
    · rw [h, sub_self, div_zero]
    · rw [h, zero_div]
  rw [g0, gN, mul_zero, mul_zero, sub_zero, zero_add, Finset.mul_sum]
  apply Finset.sum_congr rfl
  intro j _
  rw [hg]; simp only
  rw [dB_shift, dsplineCoef]
  have : j + 1 + q + 1 = j + q + 2 := by omega
  rw [this]
  ring

/-- First derivative = value of the derivative spline. -/
theorem splineDeriv_one_eq_splineVal (s : Side) (τ : ℕ → K) (q N : ℕ) (c : ℕ → K) (t : K)
    (h0 : τ (q+1) = τ 0 ∨ B s τ q 0 t = 0)
    (hN : τ (N+1+q+1) = τ (N+1) ∨ B s τ q (N+1) t = 0) :
    splineDeriv s τ (q+1) (N+1) c 1 t =
      splineVal s (shiftKnots τ) q N (dsplineCoef τ q c) t := by
  rw [splineDeriv_succ_eq s τ q N 0 c t (by simpa [dB_zero] using h0) (by simpa [dB_zero] using hN)]
  unfold splineDeriv splineVal
  simp only [dB_zero]

/-- Clamped ends (`τ_0 = τ_{q+1}`, `τ_{N+1} = τ_{N+q+2}`): no condition on `t` at all. -/
theorem splineDeriv_one_eq_splineVal_clamped (s : Side) (τ : ℕ → K) (q N : ℕ) (c : ℕ → K) (t : K)
    (h0 : τ (q+1) = τ 0) (hN : τ (N+1+q+1) = τ (N+1)) :
    splineDeriv s τ (q+1) (N+1) c 1 t =
      splineVal s (shiftKnots τ) q N (dsplineCoef τ q c) t :=
  splineDeriv_one_eq_splineVal s τ q N c t (Or.inl h0) (Or.inl hN)

variable [IsStrictOrderedRing K]

/-- Any (open, non-open or periodic-unwrapped) knot vector: inside the domain `[τ_{q+1}, τ_{N+1}]`
    (half-open on the side not selected) both boundary functions vanish by local support. -/
theorem splineDeriv_one_eq_splineVal_domain (s : Side) (τ : ℕ → K) (hτ : Monotone τ) (q N : ℕ)
    (c : ℕ → K) (t : K)
    (ht : match s with
          | .right => τ (q+1) ≤ t ∧ t < τ (N+1)
          | .left => τ (q+1) < t ∧ t ≤ τ (N+1)) :
    splineDeriv s τ (q+1) (N+1) c 1 t =
      splineVal s (shiftKnots τ) q N (dsplineCoef τ q c) t := by
  apply splineDeriv_one_eq_splineVal
  · right
    cases s
    · exact B_support_right τ hτ q 0 t (Or.inr (by simpa using ht.1))
    · exact B_support_left τ hτ q 0 t (Or.inr (by simpa using ht.1))
  · right
    cases s
    · exact B_support_right τ hτ q (N+1) t (Or.inl ht.2)
    · exact B_support_left τ hτ q (N+1) t (Or.inl ht.2)

end Splipy

namespace Splipy

variable {K : Type} [Field K] [LinearOrder K]

/-! ## Periodic directions: wrapped control points -/

theorem knots_periodic_mul (τ : ℕ → K) (n M : ℕ) (T : K)
    (hper : ∀ i, i + n ≤ M → τ (i + n) = τ i + T) (m i : ℕ) (h : i + m * n ≤ M) :
    τ (i + m * n) = τ i + m * T := by
  induction m with
  | zero => simp
  | succ m ih =>
    have e : i + (m + 1) * n = (i + m * n) + n := by ring
    rw [e, hper _ (by rw [← e]; exact h), ih (by nlinarith)]
    push_cast
    ring

/-- Control points of the derivative spline of a periodic direction with `n` control points:
    `C[i,i] = -p/(k[i+p+1]-k[i+1])`, `C[i,(i+1) % n] = +p/(…)`. -/
def dsplineCoefPeriodic (τ : ℕ → K) (q n : ℕ) (P : ℕ → K) (i : ℕ) : K :=
  ((q : K) + 1) * (P ((i + 1) % n) - P i) / (τ (i+q+2) - τ (i+1))

theorem dsplineCoef_wrap (τ : ℕ → K) (q n M : ℕ) (T : K) (P : ℕ → K)
    (hper : ∀ i, i + n ≤ M → τ (i + n) = τ i + T) (j : ℕ) (hj : j + q + 2 ≤ M) :
    dsplineCoef τ q (fun i => P (i % n)) j = dsplineCoefPeriodic τ q n P (j % n) := by
  unfold dsplineCoef dsplineCoefPeriodic
  have hdecomp : j = j % n + (j / n) * n := by
    have := Nat.mod_add_div j n
    rw [Nat.mul_comm] at this
    omega
  have e1 : τ (j + q + 2) = τ (j % n + q + 2) + (j / n : ℕ) * T := by
    have : j + q + 2 = (j % n + q + 2) + (j / n) * n := by omega
    rw [this]
    exact knots_periodic_mul τ n M T hper (j / n) _ (by omega)
  have e2 : τ (j + 1) = τ (j % n + 1) + (j / n : ℕ) * T := by
    have : j + 1 = (j % n + 1) + (j / n) * n := by omega
    rw [this]
    exact knots_periodic_mul τ n M T hper (j / n) _ (by omega)
  have e3 : (j + 1) % n = (j % n + 1) % n := by
    rw [Nat.add_mod, Nat.add_mod (j % n) 1 n, Nat.mod_mod]
  simp only [e1, e2, e3, Nat.mod_mod]
  congr 1
  ring

variable [IsStrictOrderedRing K]

/-- **Derivative spline, periodic variant.**  The spline with wrapped coefficients `P (i % n)` over the
    `N+1` unwrapped functions: its derivative is the spline on `τ[1:]` whose unwrapped coefficients are
    the wrapped difference quotients `Q (j % n)`, `Q i = (q+1)(P ((i+1) % n) − P i)/(τ_{i+q+2} − τ_{i+1})`. -/
theorem splineDeriv_one_eq_splineVal_periodic (s : Side) (τ : ℕ → K) (hτ : Monotone τ) (q N n : ℕ)
    (T : K) (P : ℕ → K) (t : K)
    (hper : ∀ i, i + n ≤ N + q + 2 → τ (i + n) = τ i + T)
    (ht : match s with
          | .right => τ (q+1) ≤ t ∧ t < τ (N+1)
          | .left => τ (q+1) < t ∧ t ≤ τ (N+1)) :
    splineDeriv s τ (q+1) (N+1) (fun i => P (i % n)) 1 t =
      splineVal s (shiftKnots τ) q N (fun j => dsplineCoefPeriodic τ q n P (j % n)) t := by
  rw [splineDeriv_one_eq_splineVal_domain s τ hτ q N _ t ht]
  unfold splineVal
  apply Finset.sum_congr rfl
  intro j hj
  rw [Finset.mem_range] at hj
  rw [dsplineCoef_wrap τ q n (N + q + 2) T P hper j (by omega)]

end Splipy

/-! ## Model level: `get_derivative_spline` -/

namespace Splipy

variable {K : Type} [Field K] [LinearOrder K]

omit [LinearOrder K] in
theorem foldl_add_eq_sum (f : ℕ → K) (n : ℕ) :
    (List.range n).foldl (fun acc i => acc + f i) 0 = (Finset.range n).sum f := by
  induction n with
  | zero => simp
  | succ n ih => rw [List.range_succ, List.foldl_append, ih, Finset.sum_range_succ]; simp

theorem getD_ofFn {α : Type} (n : ℕ) (f : Fin n → α) (i : ℕ) (d : α) :
    (Array.ofFn f).getD i d = if h : i < n then f ⟨i, h⟩ else d := by
  unfold Array.getD
  simp

/-- `p / (k[i+p+1] - k[i+1])` with `p = order - 1`. -/
def Obj.dsCoef (b : Basis K) (i : ℕ) : K :=
  ((b.order - 1 : ℕ) : K) / (b.kn (i + (b.order - 1) + 1) - b.kn (i + 1))

theorem derivativeMatrix_entry (b : Basis K) (n j i : ℕ) (hper : b.periodic < 0)
    (hj : j + 1 < n) (hi : i < n) :
    ((Obj.derivativeMatrix b n).getD j #[]).getD i 0 =
      if i = j then -(Obj.dsCoef b j) else if i = j + 1 then Obj.dsCoef b j else 0 := by
  unfold Obj.derivativeMatrix Obj.dsCoef
  have h1 : j < n - 1 := by omega
  simp only [hper, if_true]
  rw [getD_ofFn, dif_pos h1]
  simp only []
  rw [getD_ofFn, dif_pos hi]

theorem derivativeMatrix_entry_periodic (b : Basis K) (n j i : ℕ) (hper : ¬ b.periodic < 0)
    (hj : j < n) (hi : i < n) :
    ((Obj.derivativeMatrix b n).getD j #[]).getD i 0 =
      if i = (j + 1) % n then Obj.dsCoef b j else if i = j then -(Obj.dsCoef b j) else 0 := by
  unfold Obj.derivativeMatrix Obj.dsCoef
  simp only [hper, if_false]
  rw [getD_ofFn, dif_pos hj]
  simp only []
  rw [getD_ofFn, dif_pos hi]

/-- Row `j` of the difference matrix applied to a vector: `p (v_{j+1} − v_j)/(k[j+p+1] − k[j+1])`
    (the sum is the one `Tensor.applyAxis` computes along the differentiated axis). -/
theorem derivativeMatrix_row (b : Basis K) (n j : ℕ) (hper : b.periodic < 0) (hj : j + 1 < n)
    (v : ℕ → K) :
    (List.range n).foldl (fun acc i => acc + ((Obj.derivativeMatrix b n).getD j #[]).getD i 0 * v i) 0
      = Obj.dsCoef b j * (v (j + 1) - v j) := by
  rw [foldl_add_eq_sum]
  have : ∀ i ∈ Finset.range n, ((Obj.derivativeMatrix b n).getD j #[]).getD i 0 * v i =
      (if i = j then -(Obj.dsCoef b j) * v j else 0) + (if i = j + 1 then Obj.dsCoef b j * v (j+1) else 0) := by
    intro i hi
    rw [Finset.mem_range] at hi
    rw [derivativeMatrix_entry b n j i hper hj hi]
    by_cases h1 : i = j
    · subst h1; simp
    · by_cases h2 : i = j + 1
      · subst h2; simp
      · simp [h1, h2]
  rw [Finset.sum_congr rfl this, Finset.sum_add_distrib, Finset.sum_ite_eq', Finset.sum_ite_eq']
  have m1 : j ∈ Finset.range n := Finset.mem_range.mpr (by omega)
  have m2 : j + 1 ∈ Finset.range n := Finset.mem_range.mpr hj
  rw [if_pos m1, if_pos m2]
  ring

/-- Periodic direction with at least two control points: `p (v_{(j+1) % n} − v_j)/(k[j+p+1] − k[j+1])`. -/
theorem derivativeMatrix_row_periodic (b : Basis K) (n j : ℕ) (hper : ¬ b.periodic < 0) (hj : j < n)
    (hn : 2 ≤ n) (v : ℕ → K) :
    (List.range n).foldl (fun acc i => acc + ((Obj.derivativeMatrix b n).getD j #[]).getD i 0 * v i) 0
      = Obj.dsCoef b j * (v ((j + 1) % n) - v j) := by
  rw [foldl_add_eq_sum]
  have hne : (j + 1) % n ≠ j := by
    by_cases h : j + 1 < n
    · rw [Nat.mod_eq_of_lt h]; omega
    · have : j + 1 = n := by omega
      rw [this, Nat.mod_self]; omega
  have : ∀ i ∈ Finset.range n, ((Obj.derivativeMatrix b n).getD j #[]).getD i 0 * v i =
      (if i = j then -(Obj.dsCoef b j) * v j else 0)
        + (if i = (j + 1) % n then Obj.dsCoef b j * v ((j+1) % n) else 0) := by
    intro i hi
    rw [Finset.mem_range] at hi
    rw [derivativeMatrix_entry_periodic b n j i hper hj hi]
    by_cases h2 : i = (j + 1) % n
    · have h1 : i ≠ j := by rw [h2]; exact hne
      rw [if_pos h2, if_neg h1, if_pos h2, h2]; ring
    · by_cases h1 : i = j
      · subst h1; simp [h2]
      · simp [h1, h2]
  rw [Finset.sum_congr rfl this, Finset.sum_add_distrib, Finset.sum_ite_eq', Finset.sum_ite_eq']
  have m1 : j ∈ Finset.range n := Finset.mem_range.mpr hj
  have m2 : (j + 1) % n ∈ Finset.range n := Finset.mem_range.mpr (Nat.mod_lt _ (by omega))
  rw [if_pos m1, if_pos m2]
  ring

/-- The knots of the derivative basis are `knots[1:-1]`. -/
theorem extract_kn (b nb : Basis K) (h : nb.knots = b.knots.extract 1 (b.knots.size - 1)) (j : ℕ)
    (hj : j + 2 < b.knots.size) : nb.kn j = b.kn (j + 1) := by
  unfold Basis.kn
  rw [h]
  have hs : (b.knots.extract 1 (b.knots.size - 1)).size = b.knots.size - 2 := by
    simp; omega
  unfold Array.getD
  rw [dif_pos (by rw [hs]; omega), dif_pos (by omega)]
  simp
  congr 1
  omega

variable [FloorRing K]

/-- What a successful `get_derivative_spline(dir)` returns. -/
theorem getDerivativeSpline_ok (o o' : Obj K) (tol : K) (dir : ℕ)
    (h : o.getDerivativeSpline tol dir = .ok o') :
    o.rational = false ∧ dir < o.pardim ∧ o'.rational = false ∧
    o'.cps = Tensor.applyAxis (Obj.derivativeMatrix (o.basis dir) (o.cps.shape.getD dir 0)) o.cps dir ∧
    ∃ nb : Basis K, o'.bases = o.bases.set! dir nb ∧ nb.order = (o.basis dir).order - 1 ∧
      nb.knots = Basis.cummax ((o.basis dir).knots.extract 1 ((o.basis dir).knots.size - 1)) ∧
      nb.periodic = max ((o.basis dir).periodic - 1) (-1) := by
  unfold Obj.getDerivativeSpline at h
  split at h
  · exact absurd h (by simp)
  · rename_i hr
    split at h
    · exact absurd h (by simp)
    · rename_i hd
      dsimp only at h
      split at h
      · exact absurd h (by simp)
      · rename_i nb hmk
        injection h with h
        subst h
        have hr' : o.rational = false := by simpa using hr
        refine ⟨hr', by omega, hr', rfl, nb, rfl, ?_⟩
        unfold Basis.mk? at hmk
        simp only at hmk
        split at hmk
        · exact absurd hmk (by simp)
        · split at hmk
          · exact absurd hmk (by simp)
          · split at hmk
            · exact absurd hmk (by simp)
            · split at hmk
              · exact absurd hmk (by simp)
              · split at hmk
                · exact absurd hmk (by simp)
                · injection hmk with hmk
                  subst hmk
                  exact ⟨rfl, rfl, rfl⟩

/-- `getDerivativeSpline_ok` for a direction with sorted knots (every valid basis): the running maximum the
    constructor applies is the identity, the new knots are exactly `knots[1:-1]`. -/
theorem getDerivativeSpline_ok_sorted (o o' : Obj K) (tol : K) (dir : ℕ)
    (h : o.getDerivativeSpline tol dir = .ok o')
    (hsort : ∀ i, i + 1 < (o.basis dir).knots.size → (o.basis dir).kn i ≤ (o.basis dir).kn (i + 1)) :
    o.rational = false ∧ dir < o.pardim ∧ o'.rational = false ∧
    o'.cps = Tensor.applyAxis (Obj.derivativeMatrix (o.basis dir) (o.cps.shape.getD dir 0)) o.cps dir ∧
    ∃ nb : Basis K, o'.bases = o.bases.set! dir nb ∧ nb.order = (o.basis dir).order - 1 ∧
      nb.knots = (o.basis dir).knots.extract 1 ((o.basis dir).knots.size - 1) ∧
      nb.periodic = max ((o.basis dir).periodic - 1) (-1) := by
  obtain ⟨h1, h2, h3, h4, nb, h5, h6, h7, h8⟩ := getDerivativeSpline_ok o o' tol dir h
  refine ⟨h1, h2, h3, h4, nb, h5, h6, ?_, h8⟩
  rw [h7, Basis.cummax_extract_of_sorted _ _ _ (Basis.sorted_getD_of_kn _ hsort)]

end Splipy
