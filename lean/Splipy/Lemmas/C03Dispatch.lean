import Splipy.Model.DerivSpline

/-!
# C03 – the decision-table language for the derivative dispatch

`harness/translate/deriv_dispatch.py` translates the Python AST of `Curve.derivative` and
`Surface.derivative` into a `Dispatch.Table` (written to `Splipy/Generated/C03.lean` on every run).
This file gives the table language its meaning (`Table.outcome`: Python semantics of
`is_singleton`, `d[0]`, `ensure_listlike`, `<`/`>`/`==` on ints, `== (a,b)` against a tuple literal,
short-circuit `or`/`and`, last-assignment-wins for the branch bodies) and states what the property
demands of a dispatch (`expected`, `soundOn`, `sidesOn`).
-/

namespace Splipy.Dispatch

/-- Integer-valued sub-expressions of the guards. -/
inductive IExpr where
  | dInt            -- the variable itself, used as a number (`d < 2`)
  | dSum            -- `np.sum(derivs)` / `sum(derivs)`
  | lit (n : ℕ)
  deriving DecidableEq, Repr, Inhabited

inductive Cond where
  | tt
  | notRational                 -- `not self.rational`
  | isRational                  -- `self.rational`
  | lt (a b : IExpr)
  | gt (a b : IExpr)
  | le (a b : IExpr)
  | ge (a b : IExpr)
  | eqI (a b : IExpr)
  | eqTuple (lit : List ℕ)      -- `derivs == (a, b)`
  | eqList (lit : List ℕ)       -- `derivs == [a, b]`
  | or (a b : Cond)
  | and (a b : Cond)
  | not (a : Cond)
  deriving DecidableEq, Repr, Inhabited

/-- Statements that re-bind the `d` variable before the guard. -/
inductive Norm where
  | indexZeroUnlessSingleton    -- `if not is_singleton(d): d = d[0]`
  | ensureListlike (dups : ℕ)   -- `derivs = ensure_listlike(d, self.pardim)`
  | toTuple                     -- `derivs = tuple(derivs)`
  | toList                      -- `derivs = list(derivs)`
  deriving DecidableEq, Repr, Inhabited

/-- The `from_right` argument of a `basis.evaluate` call inside the closed-form section. -/
inductive SideExpr where
  | default                     -- argument omitted (`from_right=True`)
  | raw                         -- the `above` variable itself (Cython `bint`: truthiness)
  | normIdx (k : ℕ)             -- `above[k]` after `above = ensure_listlike(above, pardim)`
  | rawIdx (k : ℕ)              -- `above[k]` without normalisation
  | selfOrIdx (k : ℕ)           -- `above` after `if not is_singleton(above): above = above[k]`
  deriving DecidableEq, Repr, Inhabited

structure Table where
  pardim : ℕ
  norm : List Norm
  /-- `if <guard>: return super().derivative(…, d=<variable>, above=above, tensor=tensor)` -/
  genericGuard : Cond
  /-- every `result[…, i] = <expr>` in program order with its full path condition and the
      multi-index named by the literal of its guard -/
  branches : List (Cond × List ℕ)
  /-- (parametric direction, derivative order or `none` for "all orders", side) of every basis evaluation -/
  jetSides : List (ℕ × Option ℕ × SideExpr)
  deriving Repr, Inhabited

def applyNorm (d : DSpec) : Norm → Option DSpec
  | .indexZeroUnlessSingleton => if d.isSingleton then some d else d.head?.map DSpec.int
  | .ensureListlike k => some (d.ensureListlike k)
  | .toTuple => match d with
      | .int _ => none            -- `tuple(3)` is a TypeError
      | .tup l => some (.tup l)
      | .lst l => some (.tup l)
  | .toList => match d with
      | .int _ => none
      | .tup l => some (.lst l)
      | .lst l => some (.lst l)

def IExpr.eval (d : DSpec) : IExpr → Option ℕ
  | .dInt => match d with
      | .int n => some n
      | _ => none               -- `[2] < 2` is a TypeError
  | .dSum => some d.items.sum
  | .lit n => some n

def cmp2 (d : DSpec) (a b : IExpr) (f : ℕ → ℕ → Bool) : Option Bool :=
  match a.eval d, b.eval d with
  | some x, some y => some (f x y)
  | _, _ => none

/-- Python evaluation of a guard (`none` = the comparison raises). -/
def Cond.eval (rational : Bool) (d : DSpec) : Cond → Option Bool
  | .tt => some true
  | .notRational => some (!rational)
  | .isRational => some rational
  | .lt a b => cmp2 d a b (fun x y => decide (x < y))
  | .gt a b => cmp2 d a b (fun x y => decide (x > y))
  | .le a b => cmp2 d a b (fun x y => decide (x ≤ y))
  | .ge a b => cmp2 d a b (fun x y => decide (x ≥ y))
  | .eqI a b => match d, a, b with
      -- `d == 2` with a non-int `d` is simply False
      | .int _, _, _ => cmp2 d a b (fun x y => x == y)
      | _, .dInt, _ => some false
      | _, _, .dInt => some false
      | _, _, _ => cmp2 d a b (fun x y => x == y)
  | .eqTuple lit => some (d.eqTuple lit)
  | .eqList lit => some (match d with | .lst l => l == lit | _ => false)
  | .or a b => match a.eval rational d with
      | none => none
      | some true => some true
      | some false => b.eval rational d
  | .and a b => match a.eval rational d with
      | none => none
      | some false => some false
      | some true => b.eval rational d
  | .not a => (a.eval rational d).map (!·)

/-- The path a call takes according to the table. -/
def Table.outcome (T : Table) (rational : Bool) (d : DSpec) : Outcome :=
  match T.norm.foldlM applyNorm d with
  | none => .raises .index      -- `d[0]` on an empty sequence (IndexError) / `tuple(int)` (TypeError)
  | some cur =>
    match T.genericGuard.eval rational cur with
    | none => .raises .type
    | some true => .generic (cur.ensureListlike T.pardim).items
    | some false =>
      T.branches.foldl (fun acc cb =>
        match acc with
        | .raises e => .raises e
        | _ => match cb.1.eval rational cur with
          | none => .raises .type
          | some true => .closed cb.2
          | some false => acc) .zeros

def SideExpr.eval (pd : ℕ) (a : ASpec) : SideExpr → Option Bool
  | .default => some true
  | .raw => some a.truthy
  | .normIdx k => (a.norm pd)[k]?
  | .rawIdx k => match a with
      | .bool _ => none         -- `True[0]` is a TypeError
      | .seq l => l[k]?
  | .selfOrIdx k => match a with
      | .bool b => some b
      | .seq l => l[k]?

/-! ## What the property demands -/

/-- The multi-index a spelling of `d` denotes for an object of parametric dimension `pd`
    (an int is replicated, as `SplineObject.derivative` does; sequences must have length `pd`). -/
def meaning (pd : ℕ) : DSpec → Option (List ℕ)
  | .int n => some (List.replicate pd n)
  | .tup l => if l.length = pd then some l else none
  | .lst l => if l.length = pd then some l else none

/-- The path that is proved correct for a multi-index: the closed form written for it when the
    object is rational and the total order is 2 or 3, otherwise the generic method (which handles total
    order ≤ 1 by the first-order quotient rule and refuses higher rational orders with RuntimeError). -/
def expected (rational : Bool) (idx : List ℕ) : Outcome :=
  if rational && decide (2 ≤ idx.sum) && decide (idx.sum ≤ 3) then .closed idx else .generic idx

def soundAt (f : Bool → DSpec → Outcome) (pd : ℕ) (r : Bool) (d : DSpec) : Bool :=
  match meaning pd d with
  | none => true
  | some idx => f r d == expected r idx

/-- Soundness of a dispatch function on a finite list of spellings. -/
def soundOn (f : Bool → DSpec → Outcome) (pd : ℕ) (ds : List DSpec) : Bool :=
  ds.all (fun d => soundAt f pd true d && soundAt f pd false d)

/-- The inputs on which a dispatch is NOT sound (for the report of a failed obligation). -/
def unsound (f : Bool → DSpec → Outcome) (pd : ℕ) (ds : List DSpec) : List (Bool × DSpec × Outcome) :=
  ([true, false].flatMap (fun r => ds.map (fun d => (r, d)))).filterMap (fun (r, d) =>
    if soundAt f pd r d then none else some (r, d, f r d))

theorem soundOn_spec {f : Bool → DSpec → Outcome} {pd : ℕ} {ds : List DSpec} (h : soundOn f pd ds = true)
    {d : DSpec} (hd : d ∈ ds) {idx : List ℕ} (hm : meaning pd d = some idx) (r : Bool) :
    f r d = expected r idx := by
  unfold soundOn at h
  rw [List.all_eq_true] at h
  have h1 := h d hd
  rw [Bool.and_eq_true] at h1
  unfold soundAt at h1
  rw [hm] at h1
  cases r
  · exact eq_of_beq h1.2
  · exact eq_of_beq h1.1

/-- Every basis evaluation of the closed-form section uses, in parametric direction `dir`, the
    side `ensure_listlike(above, pardim)[dir]` (what the generic method does). -/
def sidesOn (T : Table) (as : List ASpec) : Bool :=
  as.all (fun a => T.jetSides.all (fun (dir, _, se) => se.eval T.pardim a == (a.norm T.pardim)[dir]?))

def badSides (T : Table) (as : List ASpec) : List (ASpec × ℕ × Option ℕ × SideExpr) :=
  as.flatMap (fun a => T.jetSides.filterMap (fun (dir, ord, se) =>
    if se.eval T.pardim a == (a.norm T.pardim)[dir]? then none else some (a, dir, ord, se)))

/-! ## Finite domains for the generated obligations -/

def seqs (pd N : ℕ) : List (List ℕ) :=
  match pd with
  | 0 => [[]]
  | pd + 1 => (List.range (N + 1)).flatMap (fun a => (seqs pd N).map (fun l => a :: l))

def ints (N : ℕ) : List DSpec := (List.range (N + 1)).map DSpec.int
def tuples (pd N : ℕ) : List DSpec := (seqs pd N).map DSpec.tup
def lists (pd N : ℕ) : List DSpec := (seqs pd N).map DSpec.lst

def boolSeqs : ℕ → List (List Bool)
  | 0 => [[]]
  | pd + 1 => [true, false].flatMap (fun a => (boolSeqs pd).map (fun l => a :: l))

def aboveBools : List ASpec := [.bool true, .bool false]
def aboveSeqs (pd : ℕ) : List ASpec := (boolSeqs pd).map ASpec.seq

/-- spellings outside the documented ones on which the generated tables are also compared with the model -/
def oddCurve : List DSpec := [.tup [], .lst [], .tup [2, 7], .lst [3, 0], .tup [1, 1, 1]]
def oddSurface : List DSpec := [.tup [], .lst [], .tup [2], .lst [1], .tup [1, 1, 0], .lst [2, 0, 1]]

/-- two dispatch functions take the same decisions on a list of spellings -/
def agree (f g : Bool → DSpec → Outcome) (ds : List DSpec) : Bool :=
  ds.all (fun d => f true d == g true d && f false d == g false d)

def disagree (f g : Bool → DSpec → Outcome) (ds : List DSpec) : List (Bool × DSpec × Outcome × Outcome) :=
  ([true, false].flatMap (fun r => ds.map (fun d => (r, d)))).filterMap (fun (r, d) =>
    if f r d == g r d then none else some (r, d, f r d, g r d))

end Splipy.Dispatch

namespace Splipy

/-! ## Normalising `above` twice is normalising it once -/

theorem padLast_idem {α : Type} (l : List α) (d : ℕ) :
    padLast ((padLast l d).getD []) d = some ((padLast l d).getD []) ∨ (padLast l d = none ∧ 0 < d) := by
  unfold padLast
  by_cases h : d ≤ l.length
  · left; simp [h]
  · simp only [h, if_false]
    cases hl : l.getLast? with
    | none => right; exact ⟨rfl, by omega⟩
    | some a =>
      left
      simp only [Option.getD_some]
      have : d ≤ (l ++ List.replicate (d - l.length) a).length := by
        rw [List.length_append, List.length_replicate]; omega
      rw [if_pos this]

theorem ASpec.norm_idem (a : ASpec) (pd : ℕ) : (ASpec.seq (a.norm pd)).norm pd = a.norm pd := by
  cases a with
  | bool b => simp [ASpec.norm, padLast]
  | seq l =>
    simp only [ASpec.norm]
    rcases padLast_idem l pd with h | ⟨h, hp⟩
    · rw [h]; rfl
    · rw [h]
      simp only [Option.getD_none]
      unfold padLast
      have : ¬ pd ≤ ([] : List Bool).length := by simp; omega
      rw [if_neg this]
      rfl

/-- The dispatch of `Surface.derivative` BEFORE commit cd5762c (`derivs = ensure_listlike(d, pardim)` without
    `tuple(…)`): kept to document the shape of the repaired defect — a list never equals a tuple literal. -/
def surfaceOutcomeUnfixed (rational : Bool) (d : DSpec) : Outcome :=
  let derivs := d.ensureListlike 2
  let s := derivs.items.sum
  if !rational || s < 2 || s > 3 then .generic (derivs.ensureListlike 2).items
  else
    match [[1,1],[2,0],[0,2],[3,0],[0,3],[2,1],[1,2]].find? (fun lit => derivs.eqTuple lit) with
    | some lit => .closed lit
    | none => .zeros

end Splipy
