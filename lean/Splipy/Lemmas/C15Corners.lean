import Splipy.Lemmas.C15Vol

/-!
# `corners(order='F')` of a volume and the trilinear corner volume
-/

set_option linter.unusedSectionVars false

namespace Splipy
namespace C15

open C06 C12 Obj Basis Finset Tensor Sections

variable {K : Type} [Field K] [LinearOrder K] [IsStrictOrderedRing K] [FloorRing K]

/-- End index of a direction with `n` control points. -/
def endIdx (n : ℕ) (e : Bool) : ℕ := if e then n - 1 else 0

/-- Python selector of an end. -/
def endSel (e : Bool) : Sel := some (if e then -1 else 0)

/-- **One corner of a volume by `section(·,·,·)`**: the model returns the bare point, an array of exactly
    `ncomp` numbers, the corner control point. -/
theorem corner_point {o : Obj K} (hw : C06.WF o 3) (ea eb ec : Bool) :
    ∃ a : Array K, o.sectionSel [endSel ea, endSel eb, endSel ec] true = .ok (.point a) ∧ a.size = o.ncomp
      ∧ ∀ c, c < o.ncomp → a.getD c 0
          = o.cps.get (((endIdx (o.basis 0).numFunctions ea * (o.basis 1).numFunctions
              + endIdx (o.basis 1).numFunctions eb) * (o.basis 2).numFunctions
              + endIdx (o.basis 2).numFunctions ec) * o.ncomp + c) := by
  set n0 := (o.basis 0).numFunctions with hn0
  set n1 := (o.basis 1).numFunctions with hn1
  set n2 := (o.basis 2).numFunctions with hn2
  set nc := o.ncomp with hnc
  have hss : o.cps.shape = [n0, n1, n2, nc] := volume_shape hw
  have p0 : 1 ≤ n0 := valid_numFunctions_pos (hw.valid 0)
  have p1 : 1 ≤ n1 := valid_numFunctions_pos (hw.valid 1)
  have p2 : 1 ≤ n2 := valid_numFunctions_pos (hw.valid 2)
  let D0 : Dir K := ⟨(o.basis 0).kn, (o.basis 0).order - 1, n0⟩
  let D1 : Dir K := ⟨(o.basis 1).kn, (o.basis 1).order - 1, n1⟩
  let D2 : Dir K := ⟨(o.basis 2).kn, (o.basis 2).order - 1, n2⟩
  let bs : Bool → BSel := fun e => if e then .hi else .lo
  let ds : List (Dir K × BSel) := [(D0, bs ea), (D1, bs eb), (D2, bs ec)]
  have hsel : selOf ds = [endSel ea, endSel eb, endSel ec] := by
    cases ea <;> cases eb <;> cases ec <;> rfl
  have hdims : dimsOf ds = [n0, n1, n2] := by cases ea <;> cases eb <;> cases ec <;> rfl
  have hidx : idxOf ds = [some (endIdx n0 ea), some (endIdx n1 eb), some (endIdx n2 ec)] := by
    cases ea <;> cases eb <;> cases ec <;> rfl
  have hfix : FixedPos ds := by
    cases ea <;> cases eb <;> cases ec <;> exact ⟨p0, p1, p2, trivial⟩
  obtain ⟨g1, g2, g3⟩ := sectionSel_boundary_slice o ds nc (by rw [hss, hdims]; rfl) hfix true
  have hfree : freeDims (idxOf ds) (dimsOf ds) = [] := by rw [hidx, hdims]; rfl
  have hbl : o.bases.toList = [o.basis 0, o.basis 1, o.basis 2] := bases_of_size_three hw.size
  have hfb : Obj.freeBases o.bases.toList (selOf ds) = [] := by
    rw [hbl, hsel]; rfl
  rw [hfb, hsel] at g3
  simp only [List.isEmpty_nil, Bool.not_true, Bool.false_eq_true, or_self, if_false] at g3
  refine ⟨_, g3, ?_, ?_⟩
  · -- data size
    rw [hidx]
    show (((o.cps.takeAxis 2 (endIdx n2 ec)).takeAxis 1 (endIdx n1 eb)).takeAxis 0 (endIdx n0 ea)).data.size = nc
    have s1 : (o.cps.takeAxis 2 (endIdx n2 ec)).shape = [n0, n1] ++ [nc] :=
      takeAxis_shape o.cps [n0, n1] [nc] n2 _ (by rw [hss]; rfl)
    have s2 : ((o.cps.takeAxis 2 (endIdx n2 ec)).takeAxis 1 (endIdx n1 eb)).shape = [n0] ++ [nc] :=
      takeAxis_shape _ [n0] [nc] n1 _ (by rw [s1]; rfl)
    have := takeAxis_data_size ((o.cps.takeAxis 2 (endIdx n2 ec)).takeAxis 1 (endIdx n1 eb)) [] [nc] n0
      (endIdx n0 ea) (by rw [s2]; rfl)
    simpa [Tensor.prod] using this
  · intro c hc
    have e := g2 [] c (by rw [hfree]; exact List.Forall₂.nil) hc
    rw [hfree] at g1
    have hsh : (Obj.sliceSec o.cps (idxOf ds)).shape = [nc] := g1
    have e1 : (Obj.sliceSec o.cps (idxOf ds)).getIdx ([] ++ [c]) = (Obj.sliceSec o.cps (idxOf ds)).get c := by
      unfold Tensor.getIdx
      rw [hsh]
      simp [Tensor.ravel, Tensor.prod]
    rw [e1] at e
    show (Obj.sliceSec o.cps (idxOf ds)).get c = _
    rw [e]
    have e2 : secNet ds (fun full => o.cps.getIdx (full ++ [c])) []
        = o.cps.getIdx ([endIdx n0 ea, endIdx n1 eb, endIdx n2 ec] ++ [c]) := by
      cases ea <;> cases eb <;> cases ec <;> rfl
    rw [e2]
    unfold Tensor.getIdx
    rw [hss]
    simp [Tensor.ravel, Tensor.prod]
    ring_nf

/-! ## Concatenation of equally long rows -/

theorem foldl_append_rows (nc : ℕ) : ∀ (L : List (Array K)) (init : Array K), (∀ a ∈ L, a.size = nc) →
    (L.foldl (· ++ ·) init).size = init.size + L.length * nc
      ∧ (∀ k, k < init.size → (L.foldl (· ++ ·) init).getD k 0 = init.getD k 0)
      ∧ ∀ r c, r < L.length → c < nc →
          (L.foldl (· ++ ·) init).getD (init.size + r * nc + c) 0 = (L.getD r #[]).getD c 0
  | [], init, _ => by
    refine ⟨by simp, fun _ _ => rfl, fun r c hr _ => by simp at hr⟩
  | a :: L, init, h => by
    have ha : a.size = nc := h a List.mem_cons_self
    obtain ⟨i1, i2, i3⟩ := foldl_append_rows nc L (init ++ a) (fun b hb => h b (List.mem_cons_of_mem _ hb))
    rw [List.foldl_cons]
    refine ⟨?_, ?_, ?_⟩
    · rw [i1, Array.size_append, ha, List.length_cons]; ring
    · intro k hk
      rw [i2 k (by rw [Array.size_append]; omega)]
      simp [Array.getD_eq_getD_getElem?, Array.getElem?_append, hk]
    · intro r c hr hc
      cases r with
      | zero =>
        rw [Nat.zero_mul, Nat.add_zero, i2 _ (by rw [Array.size_append, ha]; omega)]
        simp [Array.getD_eq_getD_getElem?, Array.getElem?_append]
      | succ r =>
        have := i3 r c (by simpa using hr) hc
        rw [Array.size_append, ha] at this
        have e : init.size + (r + 1) * nc + c = init.size + nc + r * nc + c := by ring
        rw [e, this]
        simp

theorem extract_row (A : Array K) (nc r c : ℕ) (hsz : (r + 1) * nc ≤ A.size) (hc : c < nc) :
    (A.extract (r * nc) (r * nc + nc)).size = nc ∧ (A.extract (r * nc) (r * nc + nc)).getD c 0 = A.getD (r * nc + c) 0 := by
  have e : (r + 1) * nc = r * nc + nc := by ring
  constructor
  · rw [Array.size_extract]; omega
  · simp only [Array.getD_eq_getD_getElem?, Array.getElem?_extract]
    rw [if_pos (by omega)]

/-! ## `corners(order='F')` -/

/-- Corner number `r` (`order='F'`, `r = 4·i₀ + 2·i₁ + i₂`) of a volume. -/
def cornerIdx (n0 n1 n2 nc r : ℕ) (c : ℕ) : ℕ :=
  ((endIdx n0 (r / 4 % 2 = 1) * n1 + endIdx n1 (r / 2 % 2 = 1)) * n2 + endIdx n2 (r % 2 = 1)) * nc + c

set_option maxHeartbeats 400000 in
/-- **`corners(order='F')` of a volume of the model**: succeeds with an `8 × ncomp` array whose row `r`
    is the corner control point `(i₀, i₁, i₂)`, `r = 4·i₀ + 2·i₁ + i₂`. -/
theorem corners_F {o : Obj K} (hw : C06.WF o 3) :
    ∃ cs : Tensor K, o.corners true = .ok cs ∧ cs.data.size = 8 * o.ncomp
      ∧ ∀ r c, r < 8 → c < o.ncomp → cs.data.getD (r * o.ncomp + c) 0
          = o.cps.get (cornerIdx (o.basis 0).numFunctions (o.basis 1).numFunctions (o.basis 2).numFunctions
              o.ncomp r c) := by
  have hsec : Sections.sections 3 0 = [[some 0, some 0, some 0], [some (-1), some 0, some 0],
      [some 0, some (-1), some 0], [some (-1), some (-1), some 0], [some 0, some 0, some (-1)],
      [some (-1), some 0, some (-1)], [some 0, some (-1), some (-1)], [some (-1), some (-1), some (-1)]] := by
    decide
  obtain ⟨a0, h0, z0, v0⟩ := corner_point hw false false false
  obtain ⟨a1, h1, z1, v1⟩ := corner_point hw false false true
  obtain ⟨a2, h2, z2, v2⟩ := corner_point hw false true false
  obtain ⟨a3, h3, z3, v3⟩ := corner_point hw false true true
  obtain ⟨a4, h4, z4, v4⟩ := corner_point hw true false false
  obtain ⟨a5, h5, z5, v5⟩ := corner_point hw true false true
  obtain ⟨a6, h6, z6, v6⟩ := corner_point hw true true false
  obtain ⟨a7, h7, z7, v7⟩ := corner_point hw true true true
  simp only [endSel, Bool.false_eq_true, if_false, if_true] at h0 h1 h2 h3 h4 h5 h6 h7
  have hcall : o.corners true = .ok (Tensor.mk [2 ^ o.pardim, o.ncomp]
      ([a0, a1, a2, a3, a4, a5, a6, a7].foldl (· ++ ·) #[])) := by
    unfold Obj.corners
    rw [wf_pardim hw, hsec]
    simp only [List.mapM_cons, List.mapM_nil, if_true, List.reverse_cons, List.reverse_nil, List.nil_append,
      List.cons_append, h0, h1, h2, h3, h4, h5, h6, h7, bind, Except.bind, pure, Except.pure]
  have hall : ∀ a ∈ [a0, a1, a2, a3, a4, a5, a6, a7], a.size = o.ncomp := by
    intro a ha
    simp only [List.mem_cons, List.not_mem_nil, or_false] at ha
    rcases ha with rfl | rfl | rfl | rfl | rfl | rfl | rfl | rfl <;> assumption
  obtain ⟨f1, _, f3⟩ := foldl_append_rows o.ncomp [a0, a1, a2, a3, a4, a5, a6, a7] #[] hall
  refine ⟨_, hcall, by simpa using f1, ?_⟩
  intro r c hr hc
  have := f3 r c (by simpa using hr) hc
  simp only [Array.size_empty, Nat.zero_add] at this
  show ([a0, a1, a2, a3, a4, a5, a6, a7].foldl (· ++ ·) #[]).getD (r * o.ncomp + c) 0 = _
  rw [this]
  unfold cornerIdx
  interval_cases r
  · simpa [endIdx] using v0 c hc
  · simpa [endIdx] using v1 c hc
  · simpa [endIdx] using v2 c hc
  · simpa [endIdx] using v3 c hc
  · simpa [endIdx] using v4 c hc
  · simpa [endIdx] using v5 c hc
  · simpa [endIdx] using v6 c hc
  · simpa [endIdx] using v7 c hc

/-! ## The trilinear corner volume `Volume(controlpoints=rows)` -/

theorem unravel_step (n : ℕ) (rest : List ℕ) (i r : ℕ) (hr : r < Tensor.prod rest) :
    Tensor.unravel (n :: rest) (i * Tensor.prod rest + r) = i :: Tensor.unravel rest r := by
  have hpos : 0 < Tensor.prod rest := by omega
  simp only [Tensor.unravel]
  have e : i * Tensor.prod rest + r = Tensor.prod rest * i + r := by ring
  rw [e, Nat.mul_add_div hpos, Nat.div_eq_of_lt hr, Nat.mul_add_mod, Nat.mod_eq_of_lt hr, Nat.add_zero]

theorem unravel4 (n0 n1 n2 n3 i j k l : ℕ) (hj : j < n1) (hk : k < n2) (hl : l < n3) :
    Tensor.unravel [n0, n1, n2, n3] (((i * n1 + j) * n2 + k) * n3 + l) = [i, j, k, l] := by
  have p3 : Tensor.prod [n3] = n3 := by simp [Tensor.prod]
  have p2 : Tensor.prod [n2, n3] = n2 * n3 := by simp [Tensor.prod]
  have p1 : Tensor.prod [n1, n2, n3] = n1 * n2 * n3 := by simp [Tensor.prod]
  have hkl : k * n3 + l < n2 * n3 := by
    calc k * n3 + l < k * n3 + n3 := by omega
      _ = (k + 1) * n3 := by ring
      _ ≤ n2 * n3 := Nat.mul_le_mul_right _ hk
  have hjkl : j * (n2 * n3) + (k * n3 + l) < n1 * n2 * n3 := by
    calc j * (n2 * n3) + (k * n3 + l) < j * (n2 * n3) + n2 * n3 := by omega
      _ = (j + 1) * (n2 * n3) := by ring
      _ ≤ n1 * (n2 * n3) := Nat.mul_le_mul_right _ hj
      _ = n1 * n2 * n3 := by ring
  have e0 : ((i * n1 + j) * n2 + k) * n3 + l = i * Tensor.prod [n1, n2, n3] + (j * Tensor.prod [n2, n3]
      + (k * Tensor.prod [n3] + l)) := by rw [p1, p2, p3]; ring
  rw [e0, unravel_step n0 [n1, n2, n3] i _ (by rw [p1, p2, p3]; exact hjkl),
    unravel_step n1 [n2, n3] j _ (by rw [p2, p3]; exact hkl), unravel_step n2 [n3] k l (by rw [p3]; exact hl)]
  have : l = l * Tensor.prod ([] : List ℕ) + 0 := by simp [Tensor.prod]
  rw [this, unravel_step n3 [] l 0 (by simp [Tensor.prod])]
  simp [Tensor.unravel, Tensor.prod]

/-- `Volume(controlpoints=rows, rational=rat)` from eight rows of equal length: trilinear, entry
    `[j₀, j₁, j₂]` is row `j₀ + 2 j₁ + 4 j₂` (`order='F'` reshape). -/
theorem fromCorners3_ok (rows : List (Array K)) (d : ℕ) (hlen : rows.length = 8) (hsz : ∀ r ∈ rows, r.size = d)
    (rat : Bool) :
    ∃ s4 : Obj K, Obj.fromCorners 3 rows rat = .ok s4 ∧ s4.bases = #[linearBasis, linearBasis, linearBasis]
      ∧ s4.cps.shape = [2, 2, 2, d] ∧ s4.rational = rat
      ∧ ∀ j0 j1 j2 k, j0 < 2 → j1 < 2 → j2 < 2 → k < d →
          s4.cps.get (((j0 * 2 + j1) * 2 + j2) * d + k) = (rows.getD (j0 + 2 * j1 + 4 * j2) #[]).getD k 0 := by
  have hhead : (rows.headD #[]).size = d := by
    match rows, hlen with
    | r :: _, _ => exact hsz r List.mem_cons_self
  unfold Obj.fromCorners
  simp only []
  rw [if_neg (by
    simp only [List.any_eq_true, decide_eq_true_eq, not_exists, not_and, not_not]
    intro r hr
    rw [hsz r hr, hhead])]
  rw [hhead]
  refine ⟨_, rfl, rfl, by simp [Tensor.tabulate], rfl, ?_⟩
  intro j0 j1 j2 k h0 h1 h2 hk
  have hlt : ((j0 * 2 + j1) * 2 + j2) * d + k < Tensor.prod (List.replicate 3 2 ++ [d]) := by
    have : Tensor.prod (List.replicate 3 2 ++ [d]) = 8 * d := by simp [Tensor.prod, List.replicate]
    rw [this]
    interval_cases j0 <;> interval_cases j1 <;> interval_cases j2 <;> omega
  unfold Tensor.get Tensor.tabulate
  simp only []
  rw [Tensor.getD_ofFn _ hlt]
  simp only []
  have hu : Tensor.unravel (List.replicate 3 2 ++ [d]) (((j0 * 2 + j1) * 2 + j2) * d + k) = [j0, j1, j2, k] :=
    unravel4 2 2 2 d j0 j1 j2 k h1 h2 hk
  rw [hu]
  interval_cases j0 <;> interval_cases j1 <;> interval_cases j2 <;> simp [List.range_succ]

end C15
end Splipy
