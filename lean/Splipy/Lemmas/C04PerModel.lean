import Splipy.Lemmas.C04PerMain

/-!
# C04 helper lemmas, part 13: the model's periodic `insertKnot` preserves the periodic spline
-/

namespace Splipy
namespace C04

set_option linter.unusedSectionVars false

variable {K : Type} [Field K] [LinearOrder K] [IsStrictOrderedRing K] [FloorRing K]

theorem wsum_congr_knots (s : Side) (τ τ' : ℕ → K) (q nAll n : ℕ) (c : ℕ → K) (d : ℕ) (t : K)
    (h : ∀ j, j ≤ nAll + q → τ j = τ' j) : wsum s τ q nAll n c d t = wsum s τ' q nAll n c d t := by
  unfold wsum
  apply Finset.sum_congr rfl
  intro i hi
  have hi' := Finset.mem_range.1 hi
  rw [dB_congr_knots s τ τ' q i i d t (fun j hj => h (i + j) (by omega))]

/-- **Periodic insertion, geometric half.**  Under the hypotheses of `insertKnot_periodic`, for every
coefficient vector `c`, side `s`, derivative order `d` and parameter `t` of the domain (one-sided
`Side.mem`), the periodic spline (sum over all wrapped images, `wsum`) on the new basis with
coefficients `C·c` equals the periodic spline on the old basis with coefficients `c`. -/
theorem insertKnot_periodic_geom_le (b : Basis K) (hv : b.Valid) (k : ℕ) (hk : b.periodic = (k : Int))
    (hguard : b.order + k ≤ b.numFunctions) (x : K) (hx : b.start ≤ x ∧ x ≤ b.stop) :
    ∃ b' C, b.insertKnot x = .ok (b', C) ∧ b'.Valid ∧ b'.order = b.order ∧
      b'.periodic = b.periodic ∧ b'.knots.size = b.knots.size + 1 ∧
      b'.numFunctions = b.numFunctions + 1 ∧ b'.start = b.start ∧ b'.stop = b.stop ∧
      (∀ j, b.order + k < j → j < b.numFunctions + 1 →
        b'.kn j = insertSeq b.kn (b.insertMu x) x j) ∧
      Shape (b.numFunctions + 1) b.numFunctions C ∧
      ∀ (c : ℕ → K) (s : Side) (d : ℕ) (t : K), s.mem b.start b.stop t →
        wsum s b'.kn (b.order - 1) (b.nAll + 1) (b.numFunctions + 1) (mulVec C b.numFunctions c) d t
          = wsum s b.kn (b.order - 1) b.nAll b.numFunctions c d t := by
  obtain ⟨b', C, h1, h2, h3, h4, h5, h6, h7, h8, h9, h10, hkn, hC⟩ :=
    insertKnot_periodic_le b hv k hk hguard x hx
  refine ⟨b', C, h1, h2, h3, h4, h5, h6, h7, h8, h9, h10, fun c s d t ht => ?_⟩
  subst hC
  have hmono : Monotone b.kn := kn_mono hv.sorted
  have hp := hv.order_pos
  have hsz := hv.size_ge
  have hpk : k + 2 ≤ b.order := by
    rcases hv.periodic_le with h | h
    · rw [hk] at h; omega
    · rw [hk] at h; omega
  have hn := numFunctions_periodic b k hk
  have hnAll : b.nAll = b.numFunctions + k + 1 := by unfold Basis.nAll; omega
  obtain ⟨hm1, hm2, hm3⟩ := bisectRight_spec b.kn hmono x b.knots.size
  have hm1b : b.bisectR x ≤ b.knots.size := hm1
  have hm2b : ∀ i, i < b.bisectR x → b.kn i ≤ x := hm2
  have hm3b : ∀ i, b.bisectR x ≤ i → i < b.knots.size → x < b.kn i := hm3
  have hpm0 : b.order ≤ b.bisectR x := by
    by_contra hlt
    have := hm3b (b.order - 1) (by omega) (by omega)
    exact absurd hx.1 (not_le.2 this)
  have hmudef : b.insertMu x = min (b.bisectR x) (b.knots.size - b.order) := by
    unfold Basis.insertMu; rw [if_pos (by rw [hk]; omega)]
  have hpm : b.order ≤ b.insertMu x := by rw [hmudef]; omega
  have hmu2 : b.insertMu x ≤ b.numFunctions + k + 1 := by rw [hmudef]; omega
  have hxx : b.kn (b.insertMu x - 1) ≤ x ∧ x ≤ b.kn (b.insertMu x) := by
    by_cases hc : b.bisectR x ≤ b.knots.size - b.order
    · have e : b.insertMu x = b.bisectR x := by rw [hmudef]; exact Nat.min_eq_left hc
      rw [e]
      exact ⟨hm2b _ (by omega), le_of_lt (hm3b _ le_rfl (by omega))⟩
    · have e : b.insertMu x = b.knots.size - b.order := by rw [hmudef]; exact Nat.min_eq_right (by omega)
      rw [e]
      exact ⟨hm2b _ (by omega), hx.2⟩
  have hT : ∀ i, i ≤ b.order + k → b.kn (i + b.numFunctions) = b.kn i + (b.stop - b.start) := by
    intro i hi
    exact hv.ghosts (by rw [hk]; omega) i (by omega)
  -- coefficients: array matrix = functional matrix
  have hc : ∀ r, r < b.numFunctions + 1 →
      mulVec (matC b.kn x b.numFunctions b.order (b.insertMu x)) b.numFunctions c r
        = mulVecF (matF b.kn x b.numFunctions b.order (b.insertMu x)) b.numFunctions c r := by
    intro r hr
    unfold mulVec mulVecF
    apply Finset.sum_congr rfl
    intro j hj
    rw [(rel_matC b.kn x b.numFunctions b.order (b.insertMu x) (by omega)).2 r j hr
      (Finset.mem_range.1 hj)]
  rw [wsum_congr s _ _ _ (b.numFunctions + 1) (by omega) _ _ d t hc,
    wsum_congr_knots s b'.kn _ (b.order - 1) (b.nAll + 1) (b.numFunctions + 1) _ d t
      (fun j hj => hkn j (by unfold Basis.nAll at hj; omega)),
    hnAll]
  have ht' : s.mem (b.kn (b.order - 1)) (b.kn (b.numFunctions + k + 1)) t := by
    have e : b.stop = b.kn (b.numFunctions + k + 1) := by
      change b.kn (b.knots.size - b.order) = _
      rw [show b.knots.size - b.order = b.numFunctions + k + 1 by omega]
    rw [← e]; exact ht
  exact wsum_insert_periodic b.kn x (b.stop - b.start) b.numFunctions b.order k (b.insertMu x) s hmono
    (b.order - 1) (by omega) hpk hguard hT hpm hmu2 hxx c d t ht'

/-- `insertKnot_periodic_geom_le` for `x < end`, in terms of `bisect_right`. -/
theorem insertKnot_periodic_geom (b : Basis K) (hv : b.Valid) (k : ℕ) (hk : b.periodic = (k : Int))
    (hguard : b.order + k ≤ b.numFunctions) (x : K) (hx : b.start ≤ x ∧ x < b.stop) :
    ∃ b' C, b.insertKnot x = .ok (b', C) ∧ b'.Valid ∧ b'.order = b.order ∧
      b'.periodic = b.periodic ∧ b'.knots.size = b.knots.size + 1 ∧
      b'.numFunctions = b.numFunctions + 1 ∧ b'.start = b.start ∧ b'.stop = b.stop ∧
      (∀ j, b.order + k < j → j < b.numFunctions + 1 →
        b'.kn j = insertSeq b.kn (b.bisectR x) x j) ∧
      Shape (b.numFunctions + 1) b.numFunctions C ∧
      ∀ (c : ℕ → K) (s : Side) (d : ℕ) (t : K), s.mem b.start b.stop t →
        wsum s b'.kn (b.order - 1) (b.nAll + 1) (b.numFunctions + 1) (mulVec C b.numFunctions c) d t
          = wsum s b.kn (b.order - 1) b.nAll b.numFunctions c d t := by
  have := insertKnot_periodic_geom_le b hv k hk hguard x ⟨hx.1, le_of_lt hx.2⟩
  rwa [insertMu_of_lt_stop b hv x hx.2] at this

end C04
end Splipy
