import Splipy.Lemmas.C09

/-!
# C09: what the model operations do to every control point

`affineCp_acts`, `setDimension_acts`, `forceRational_acts`, `projectPlane_acts` and from them
`translate_acts`, `scale_acts`, `rotate_acts`, `mirror_acts`.
-/

set_option linter.unusedSectionVars false

namespace Splipy
namespace Obj
variable {K : Type} [Field K]
open C09

theorem getD_ofFn {n : ℕ} (g : Fin n → K) (c : ℕ) (hc : c < n) :
    (Array.ofFn g).getD c 0 = g ⟨c, hc⟩ := by
  simp [Array.getD_eq_getD_getElem?, hc]

theorem WF.dim_le {o : Obj K} (_h : o.WF) : o.dimension ≤ o.ncomp := by
  unfold dimension; omega

theorem WF.dim_lt_of_rational {o : Obj K} (h : o.WF) (hr : o.rational = true) :
    o.dimension < o.ncomp := by
  have := h.ncomp_pos
  unfold dimension; rw [if_pos hr]; omega

theorem WF.dim_add_of_rational {o : Obj K} (h : o.WF) (hr : o.rational = true) :
    o.dimension + 1 = o.ncomp := by
  have := h.ncomp_pos
  unfold dimension; rw [if_pos hr]; omega

theorem WF.dim_eq_of_not_rational {o : Obj K} (hr : o.rational = false) :
    o.dimension = o.ncomp := by
  unfold dimension; simp [hr]

/-! ### `affineCp` -/

/-- The row function of `affineCp`. -/
def affineRow (dim nc : ℕ) (rat : Bool) (M : ℕ → ℕ → K) (tr : ℕ → K) (row : Array K) : Array K :=
  let w : K := if rat then row.getD dim 0 else 1
  Array.ofFn (n := nc) (fun i =>
    if i.val < dim then
      (List.range dim).foldl (fun acc j => acc + row.getD j 0 * M j i.val) 0 + tr i.val * w
    else row.getD i.val 0)

theorem affineCp_eq (o : Obj K) (M : ℕ → ℕ → K) (tr : ℕ → K) :
    o.affineCp M tr = o.mapCps o.ncomp o.rational (affineRow o.dimension o.ncomp o.rational M tr) := rfl

theorem affineRow_getD (dim nc : ℕ) (rat : Bool) (M : ℕ → ℕ → K) (tr : ℕ → K) (row : Array K)
    (i : ℕ) (hi : i < nc) :
    (affineRow dim nc rat M tr row).getD i 0 =
      if i < dim then (∑ j ∈ Finset.range dim, row.getD j 0 * M j i)
          + tr i * (if rat then row.getD dim 0 else 1)
      else row.getD i 0 := by
  unfold affineRow
  simp only []
  rw [getD_ofFn _ _ hi]
  simp only [foldl_add_eq_sum]

@[simp] theorem affineCp_dimension (o : Obj K) (M : ℕ → ℕ → K) (tr : ℕ → K) :
    (o.affineCp M tr).dimension = o.dimension := by
  rw [affineCp_eq]; unfold dimension; rw [mapCps_ncomp, mapCps_rational]

@[simp] theorem affineCp_rational (o : Obj K) (M : ℕ → ℕ → K) (tr : ℕ → K) :
    (o.affineCp M tr).rational = o.rational := rfl

/-- Component form of `affineCp` on one control point. -/
theorem affineCp_cp {o : Obj K} (h : o.WF) (M : ℕ → ℕ → K) (tr : ℕ → K) (pI i : ℕ)
    (hp : pI < o.npts) (hi : i < o.ncomp) :
    (o.affineCp M tr).cp pI i =
      if i < o.dimension then (∑ j ∈ Finset.range o.dimension, o.cp pI j * M j i)
          + tr i * o.cpWt pI
      else o.cp pI i := by
  rw [affineCp_eq, mapCps_cp h _ _ _ _ _ hp hi, affineRow_getD _ _ _ _ _ _ _ hi]
  have hle := h.dim_le
  by_cases hd : i < o.dimension
  · rw [if_pos hd, if_pos hd]
    congr 1
    · exact Finset.sum_congr rfl (fun j hj => by
        rw [h.row_getD pI j (by have := Finset.mem_range.mp hj; omega)])
    · unfold cpWt
      by_cases hr : o.rational = true
      · rw [if_pos hr, if_pos hr, h.row_getD pI _ (h.dim_lt_of_rational hr)]
      · rw [if_neg hr, if_neg hr]
  · rw [if_neg hd, if_neg hd]
    exact h.row_getD pI i hi

/-- **`affineCp` is the homogeneous-affine action of its matrix and translation vector.** -/
theorem affineCp_acts {o : Obj K} (h : o.WF) (M : ℕ → ℕ → K) (tr : ℕ → K) :
    Acts o (o.affineCp M tr)
      ⟨linMat o.dimension M, fun i => if i < o.dimension then tr i else 0⟩ where
  bases := rfl
  npts := by rw [affineCp_eq]; exact mapCps_npts h _ _ _ h.ncomp_pos
  wf := by rw [affineCp_eq]; exact mapCps_WF h _ _ _ h.ncomp_pos
  phys := by
    intro pI hp
    funext i
    simp only [Pi.add_apply, Pi.smul_apply, smul_eq_mul, linMat_apply]
    unfold cpPhys
    rw [affineCp_dimension]
    split_ifs with hi
    · rw [affineCp_cp h M tr pI i hp (by have := h.dim_le; omega), if_pos hi]
      congr 1
      · exact Finset.sum_congr rfl (fun j hj => by rw [if_pos (Finset.mem_range.mp hj)])
      · ring
    · simp
  wt := by
    intro pI hp
    unfold cpWt
    rw [affineCp_rational, affineCp_dimension]
    by_cases hr : o.rational = true
    · rw [if_pos hr, if_pos hr, affineCp_cp h M tr pI _ hp (h.dim_lt_of_rational hr), if_neg (by omega)]
    · rw [if_neg hr, if_neg hr]

/-! ### `setDimension` -/

/-- The row function of `setDimension`. -/
def setDimRow (dim newDim newNc : ℕ) (row : Array K) : Array K :=
  Array.ofFn (n := newNc) (fun c =>
    if c.val < newDim then (if c.val < dim then row.getD c.val 0 else 0) else row.getD dim 0)

theorem setDimension_eq (o : Obj K) (n : ℕ) :
    o.setDimension n = o.mapCps (n + (o.ncomp - o.dimension)) o.rational
      (setDimRow o.dimension n (n + (o.ncomp - o.dimension))) := rfl

@[simp] theorem setDimension_rational (o : Obj K) (n : ℕ) :
    (o.setDimension n).rational = o.rational := rfl

theorem setDimension_ncomp {o : Obj K} (h : o.WF) (n : ℕ) :
    (o.setDimension n).ncomp = n + (if o.rational then 1 else 0) := by
  rw [setDimension_eq, mapCps_ncomp]
  by_cases hr : o.rational = true
  · have := h.dim_add_of_rational hr
    rw [if_pos hr]; omega
  · have := WF.dim_eq_of_not_rational (o := o) (by simpa using hr)
    rw [if_neg hr]; omega

/-- `set_dimension(n)` sets the dimension to `n`. -/
theorem setDimension_dimension {o : Obj K} (h : o.WF) (n : ℕ) : (o.setDimension n).dimension = n := by
  unfold dimension
  rw [setDimension_ncomp h, setDimension_rational]
  omega

theorem setDimension_cp {o : Obj K} (h : o.WF) (n pI c : ℕ) (hp : pI < o.npts)
    (hc : c < n + (if o.rational then 1 else 0)) :
    (o.setDimension n).cp pI c =
      if c < n then (if c < o.dimension then o.cp pI c else 0) else o.cp pI o.dimension := by
  have hnc : n + (o.ncomp - o.dimension) = n + (if o.rational then 1 else 0) := by
    rw [← setDimension_ncomp h, setDimension_eq, mapCps_ncomp]
  rw [setDimension_eq, mapCps_cp h _ _ _ _ _ hp (by rw [hnc]; exact hc)]
  unfold setDimRow
  rw [getD_ofFn _ _ (by rw [hnc]; exact hc)]
  simp only []
  have hle := h.dim_le
  by_cases h1 : c < n
  · rw [if_pos h1, if_pos h1]
    by_cases h2 : c < o.dimension
    · rw [if_pos h2, if_pos h2, h.row_getD pI c (by omega)]
    · rw [if_neg h2, if_neg h2]
  · rw [if_neg h1, if_neg h1]
    by_cases hr : o.rational = true
    · exact h.row_getD pI _ (h.dim_lt_of_rational hr)
    · rw [if_neg hr] at hc; omega

/-- **`set_dimension` pads zeros before the weight / drops the last physical coordinates**: on the
    zero-padded physical coordinates it is truncation at `n`; the weight is untouched. -/
theorem setDimension_acts {o : Obj K} (h : o.WF) (n : ℕ) (hn : 0 < n ∨ o.rational = true) :
    Acts o (o.setDimension n) ⟨linTrunc n, 0⟩ := by
  have hpos : 0 < n + (o.ncomp - o.dimension) := by
    rcases hn with hn | hr
    · omega
    · have := h.dim_add_of_rational hr; omega
  refine ⟨rfl, ?_, ?_, ?_, ?_⟩
  · rw [setDimension_eq]; exact mapCps_npts h _ _ _ hpos
  · rw [setDimension_eq]; exact mapCps_WF h _ _ _ hpos
  · intro pI hp
    funext i
    simp only [Pi.add_apply, Pi.smul_apply, smul_eq_mul, linTrunc_apply, Pi.zero_apply, mul_zero,
      add_zero]
    unfold cpPhys
    rw [setDimension_dimension h]
    by_cases hi : i < n
    · rw [if_pos hi, if_pos hi, setDimension_cp h n pI i hp (by omega), if_pos hi]
    · rw [if_neg hi, if_neg hi]
  · intro pI hp
    unfold cpWt
    rw [setDimension_rational, setDimension_dimension h]
    by_cases hr : o.rational = true
    · rw [if_pos hr, if_pos hr, setDimension_cp h n pI n hp (by rw [if_pos hr]; omega),
        if_neg (by omega)]
    · rw [if_neg hr, if_neg hr]

/-! ### `forceRational` -/

theorem forceRational_of_rational (o : Obj K) (hr : o.rational = true) : o.forceRational = o := by
  unfold forceRational; rw [if_pos hr]

theorem forceRational_eq (o : Obj K) (hr : o.rational = false) :
    o.forceRational = o.mapCps (o.ncomp + 1) true (fun row => row.push 1) := by
  unfold forceRational; rw [if_neg (by simp [hr])]; rfl

theorem forceRational_rational (o : Obj K) : o.forceRational.rational = true := by
  by_cases hr : o.rational = true
  · rw [forceRational_of_rational o hr, hr]
  · rw [forceRational_eq o (by simpa using hr)]; rfl

theorem forceRational_dimension (o : Obj K) : o.forceRational.dimension = o.dimension := by
  by_cases hr : o.rational = true
  · rw [forceRational_of_rational o hr]
  · have hr' : o.rational = false := by simpa using hr
    rw [forceRational_eq o hr']
    unfold dimension
    rw [mapCps_ncomp, mapCps_rational, hr']
    simp

theorem getD_push (row : Array K) (x : K) (c : ℕ) :
    (row.push x).getD c 0 = if c < row.size then row.getD c 0 else if c = row.size then x else 0 := by
  simp only [Array.getD_eq_getD_getElem?, Array.getElem?_push]
  by_cases h1 : c = row.size
  · subst h1; simp
  · rw [if_neg h1]
    by_cases h2 : c < row.size
    · rw [if_pos h2]
    · rw [if_neg h2, if_neg h1, Array.getElem?_eq_none (by omega)]; rfl

/-- **`force_rational` appends the weight 1** and changes nothing else. -/
theorem forceRational_acts {o : Obj K} (h : o.WF) : Acts o o.forceRational HomAffine.id := by
  by_cases hr : o.rational = true
  · rw [forceRational_of_rational o hr]; exact Acts.refl h
  · have hr' : o.rational = false := by simpa using hr
    have hdim := WF.dim_eq_of_not_rational hr'
    have hcp : ∀ pI < o.npts, ∀ c, c < o.ncomp + 1 →
        (o.forceRational).cp pI c = if c < o.ncomp then o.cp pI c else 1 := by
      intro pI hp c hc
      rw [forceRational_eq o hr', mapCps_cp h _ _ _ _ _ hp hc, getD_push, h.row_size pI hp]
      by_cases h1 : c < o.ncomp
      · rw [if_pos h1, if_pos h1, h.row_getD pI c h1]
      · rw [if_neg h1, if_neg h1, if_pos (by omega)]
    refine ⟨by rw [forceRational_eq o hr']; rfl, ?_, ?_, ?_, ?_⟩
    · rw [forceRational_eq o hr']; exact mapCps_npts h _ _ _ (by omega)
    · rw [forceRational_eq o hr']; exact mapCps_WF h _ _ _ (by omega)
    · intro pI hp
      funext i
      simp only [HomAffine.id, LinearMap.id_apply, Pi.add_apply, Pi.zero_apply, smul_zero, add_zero]
      unfold cpPhys
      rw [forceRational_dimension]
      by_cases hi : i < o.dimension
      · rw [if_pos hi, if_pos hi, hcp pI hp i (by omega), if_pos (by omega)]
      · rw [if_neg hi, if_neg hi]
    · intro pI hp
      unfold cpWt
      rw [forceRational_rational, forceRational_dimension, if_pos rfl, if_neg hr,
        hcp pI hp _ (by omega), if_neg (by omega)]

/-! ### `projectPlane` -/

theorem projectPlane_eq (o : Obj K) (keep : List Bool) :
    o.projectPlane keep = o.mapCps o.ncomp o.rational (fun row =>
      Array.ofFn (n := row.size) (fun i =>
        if i.val < o.dimension ∧ !(keep.getD i.val false) then 0 else row.getD i.val 0)) := rfl

@[simp] theorem projectPlane_rational (o : Obj K) (keep : List Bool) :
    (o.projectPlane keep).rational = o.rational := rfl

@[simp] theorem projectPlane_dimension (o : Obj K) (keep : List Bool) :
    (o.projectPlane keep).dimension = o.dimension := by
  rw [projectPlane_eq]; unfold dimension; rw [mapCps_ncomp, mapCps_rational]

theorem projectPlane_cp {o : Obj K} (h : o.WF) (keep : List Bool) (pI c : ℕ) (hp : pI < o.npts)
    (hc : c < o.ncomp) :
    (o.projectPlane keep).cp pI c =
      if c < o.dimension ∧ keep.getD c false = false then 0 else o.cp pI c := by
  rw [projectPlane_eq, mapCps_cp h _ _ _ _ _ hp hc]
  have hsz := h.row_size pI hp
  rw [getD_ofFn _ _ (by rw [hsz]; exact hc)]
  simp only [Bool.not_eq_true']
  rw [h.row_getD pI c hc]

/-- **`project` zeroes the coordinates not named in the plane** (a linear map), weights
    untouched. -/
theorem projectPlane_acts {o : Obj K} (h : o.WF) (keep : List Bool) :
    Acts o (o.projectPlane keep) ⟨linKeep o.dimension (fun i => keep.getD i false), 0⟩ := by
  have hle := h.dim_le
  refine ⟨rfl, ?_, ?_, ?_, ?_⟩
  · rw [projectPlane_eq]; exact mapCps_npts h _ _ _ h.ncomp_pos
  · rw [projectPlane_eq]; exact mapCps_WF h _ _ _ h.ncomp_pos
  · intro pI hp
    funext i
    simp only [Pi.add_apply, Pi.smul_apply, smul_eq_mul, linKeep_apply, Pi.zero_apply, mul_zero,
      add_zero]
    unfold cpPhys
    rw [projectPlane_dimension]
    by_cases hi : i < o.dimension
    · rw [if_pos hi, if_pos hi, projectPlane_cp h keep pI i hp (by omega)]
    · rw [if_neg hi, if_neg hi, if_neg (by tauto)]
  · intro pI hp
    unfold cpWt
    rw [projectPlane_rational, projectPlane_dimension]
    by_cases hr : o.rational = true
    · rw [if_pos hr, if_pos hr, projectPlane_cp h keep pI _ hp (h.dim_lt_of_rational hr),
        if_neg (by omega)]
    · rw [if_neg hr, if_neg hr]

/-! ### `translate` -/

theorem getD_eq_zero_of_le (x : List K) (i : ℕ) (hi : x.length ≤ i) : x.getD i 0 = 0 := by
  simp [List.getD_eq_getElem?_getD, List.getElem?_eq_none hi]

theorem translate_eq (o : Obj K) (x : List K) :
    o.translate x = (if x.length > o.dimension then o.setDimension x.length else o).affineCp
      (fun j i => if i = j then 1 else 0) (fun i => x.getD i 0) := rfl

/-- **`translate(x)`** – including the promotion to `len(x)` dimensions – adds `x · weight` to the
    (zero-padded) homogeneous control point. -/
theorem translate_acts {o : Obj K} (h : o.WF) (x : List K) :
    Acts o (o.translate x) ⟨LinearMap.id, fun i => x.getD i 0⟩ := by
  rw [translate_eq]
  by_cases hx : x.length > o.dimension
  · rw [if_pos hx]
    have h1 := setDimension_acts h x.length (Or.inl (by omega))
    have h2 := affineCp_acts h1.wf (fun j i => if i = j then (1 : K) else 0) (fun i => x.getD i 0)
    rw [setDimension_dimension h] at h2
    refine (h1.trans h2).congr ?_ ?_
    · intro p hp
      simp only [HomAffine.comp, LinearMap.comp_apply, LinearMap.id_apply]
      rw [linMat_one, linTrunc_of_support (le_refl _) (p := linTrunc x.length p)
        (fun i hi => by rw [linTrunc_apply, if_neg (by omega)]),
        linTrunc_of_support (by omega) hp]
    · simp only [HomAffine.comp, map_zero, zero_add]
      funext i
      split_ifs with hi
      · rfl
      · exact (getD_eq_zero_of_le x i (by omega)).symm
  · rw [if_neg hx]
    refine (affineCp_acts h _ _).congr ?_ ?_
    · intro p hp
      simp only [LinearMap.id_apply]
      rw [linMat_one, linTrunc_of_support (le_refl _) hp]
    · funext i
      simp only []
      split_ifs with hi
      · rfl
      · exact (getD_eq_zero_of_le x i (by omega)).symm

theorem translate_dimension {o : Obj K} (h : o.WF) (x : List K) :
    (o.translate x).dimension = max o.dimension x.length := by
  rw [translate_eq, affineCp_dimension]
  by_cases hx : x.length > o.dimension
  · rw [if_pos hx, setDimension_dimension h]; omega
  · rw [if_neg hx]; omega

theorem translate_rational (o : Obj K) (x : List K) : (o.translate x).rational = o.rational := by
  rw [translate_eq, affineCp_rational]
  split_ifs <;> rfl

/-! ### `scale` -/

/-- `ensure_listlike(s, dups=3)` as written in `Obj.scale`. -/
def scalePad (s : List K) : List K :=
  if s.isEmpty then [] else s ++ List.replicate (3 - s.length) (s.getLastD 1)

theorem scale_eq (o : Obj K) (s : List K) :
    o.scale s = if (scalePad s).length < o.dimension then .error .index else
      .ok (o.affineCp (fun j i => if i = j then (scalePad s).getD i 1 else 0) (fun _ => 0)) := rfl

/-- **`scale`** multiplies coordinate `i` by the `i`-th entry of the padded factor list. -/
theorem scale_acts {o o' : Obj K} (h : o.WF) (s : List K) (hs : o.scale s = .ok o') :
    Acts o o' ⟨linDiag o.dimension (fun i => (scalePad s).getD i 1), 0⟩
      ∧ o'.dimension = o.dimension ∧ o'.rational = o.rational := by
  rw [scale_eq] at hs
  split_ifs at hs
  injection hs with hs
  subst hs
  refine ⟨(affineCp_acts h _ _).congr ?_ ?_, affineCp_dimension _ _ _, rfl⟩
  · intro p _
    simp only []
    rw [linMat_diag]
  · funext i; simp

/-! ### `mirror` -/

theorem mirror_eq (o : Obj K) (nrm : List K) :
    o.mirror nrm = if o.dimension ≠ 3 then .error .runtime else
      .ok (o.affineCp (fun j i => (if i = j then 1 else 0) - 2 * nrm.getD j 0 * nrm.getD i 0)
        (fun _ => 0)) := rfl

/-- The matrix `I - 2 n nᵀ` of `mirror`. -/
def mirrorMat (nrm : List K) : ℕ → ℕ → K :=
  fun j i => (if i = j then 1 else 0) - 2 * nrm.getD j 0 * nrm.getD i 0

/-- **`mirror`** is defined for 3-D objects only and right-multiplies by `I - 2 n nᵀ`. -/
theorem mirror_acts {o o' : Obj K} (h : o.WF) (nrm : List K) (hs : o.mirror nrm = .ok o') :
    o.dimension = 3 ∧ Acts o o' ⟨linMat 3 (mirrorMat nrm), 0⟩
      ∧ o'.dimension = 3 ∧ o'.rational = o.rational := by
  rw [mirror_eq] at hs
  split_ifs at hs with hd
  have hd3 : o.dimension = 3 := by simpa using hd
  injection hs with hs
  subst hs
  refine ⟨hd3, ?_, by rw [affineCp_dimension, hd3], rfl⟩
  have := affineCp_acts h (mirrorMat nrm) (fun _ => 0)
  rw [hd3] at this
  refine this.congr (fun _ _ => rfl) ?_
  funext i; simp

theorem mirror_error {o : Obj K} (nrm : List K) (hd : o.dimension ≠ 3) :
    o.mirror nrm = .error .runtime := by
  rw [mirror_eq, if_pos hd]

/-! ### `rotate` -/

/-- `R` of the `dim == 2` branch: `[[cos,-sin],[sin,cos]].T` with `cos = ch² - sh²`,
    `sin = 2 ch sh`. -/
def rot2Mat (ch sh : K) : ℕ → ℕ → K := fun j i =>
  match j, i with
  | 0, 0 => ch * ch - sh * sh | 0, 1 => 2 * ch * sh | 1, 0 => -(2 * ch * sh) | 1, 1 => ch * ch - sh * sh
  | _, _ => 0

/-- `R = rotation_matrix(theta, normal)` of the `dim == 3` branch. -/
def rot3Mat (ch sh : K) (axisUnit : List K) : ℕ → ℕ → K :=
  let a := ch
  let b := -(axisUnit.getD 0 0) * sh
  let c := -(axisUnit.getD 1 0) * sh
  let d := -(axisUnit.getD 2 0) * sh
  fun j i =>
    match j, i with
    | 0, 0 => a*a+b*b-c*c-d*d | 0, 1 => 2*(b*c-a*d) | 0, 2 => 2*(b*d+a*c)
    | 1, 0 => 2*(b*c+a*d) | 1, 1 => a*a+c*c-b*b-d*d | 1, 2 => 2*(c*d-a*b)
    | 2, 0 => 2*(b*d-a*c) | 2, 1 => 2*(c*d+a*b) | 2, 2 => a*a+d*d-b*b-c*c
    | _, _ => 0

section rotate
variable [LinearOrder K]

/-- The test `normal[0] == 0 and normal[1] == 0` (rotation axis is `±e_z`). -/
def axisIsZ (normal : List K) : Prop := normal.getD 0 0 = 0 ∧ normal.getD 1 0 = 0

instance (normal : List K) : Decidable (axisIsZ normal) := by unfold axisIsZ; infer_instance

/-- The object actually rotated: promoted to 3-D unless the axis is `±e_z`. -/
def rotatePromoted (o : Obj K) (normal : List K) : Obj K :=
  if ¬ axisIsZ normal then o.setDimension 3 else o

theorem rotate_eq (o : Obj K) (ch sh : K) (normal axisUnit : List K) :
    o.rotate ch sh normal axisUnit =
      if (rotatePromoted o normal).dimension = 2 then
        .ok ((rotatePromoted o normal).affineCp (rot2Mat ch sh) (fun _ => 0))
      else if (rotatePromoted o normal).dimension = 3 then
        .ok ((rotatePromoted o normal).affineCp (rot3Mat ch sh axisUnit) (fun _ => 0))
      else .error .runtime := rfl

/-- Dimension in which `rotate` works. -/
def rotateDim (dim : ℕ) (normal : List K) : ℕ := if axisIsZ normal then dim else 3

theorem rotatePromoted_dimension {o : Obj K} (h : o.WF) (normal : List K) :
    (rotatePromoted o normal).dimension = rotateDim o.dimension normal := by
  unfold rotatePromoted rotateDim
  by_cases hz : axisIsZ normal
  · rw [if_neg (not_not.mpr hz), if_pos hz]
  · rw [if_pos hz, if_neg hz, setDimension_dimension h]

theorem rotatePromoted_acts {o : Obj K} (h : o.WF) (normal : List K) :
    Acts o (rotatePromoted o normal) ⟨linTrunc (rotateDim o.dimension normal), 0⟩ := by
  unfold rotatePromoted rotateDim
  by_cases hz : axisIsZ normal
  · rw [if_neg (not_not.mpr hz), if_pos hz]
    refine (Acts.refl h).congr ?_ rfl
    intro p hp
    simp only [HomAffine.id, LinearMap.id_apply]
    rw [linTrunc_of_support (le_refl _) hp]
  · rw [if_pos hz, if_neg hz]
    exact setDimension_acts h 3 (Or.inl (by omega))

/-- **`rotate`**: 2-D objects about `±e_z` use the plane rotation matrix, everything else is
    promoted to 3-D and right-multiplied by `rotation_matrix(theta, normal)`; other dimensions
    raise `RuntimeError`. -/
theorem rotate_acts {o o' : Obj K} (h : o.WF) (ch sh : K) (normal axisUnit : List K)
    (hs : o.rotate ch sh normal axisUnit = .ok o') :
    (rotateDim o.dimension normal = 2 ∧ Acts o o' ⟨linMat 2 (rot2Mat ch sh), 0⟩
        ∨ rotateDim o.dimension normal = 3 ∧ Acts o o' ⟨linMat 3 (rot3Mat ch sh axisUnit), 0⟩)
      ∧ o'.dimension = rotateDim o.dimension normal ∧ o'.rational = o.rational := by
  have hd := rotatePromoted_dimension h normal
  have hA := rotatePromoted_acts h normal
  have hrat : (rotatePromoted o normal).rational = o.rational := by
    unfold rotatePromoted; split_ifs <;> rfl
  rw [rotate_eq] at hs
  have key : ∀ (M : ℕ → ℕ → K),
      Acts o ((rotatePromoted o normal).affineCp M (fun _ => 0))
        ⟨linMat (rotateDim o.dimension normal) M, 0⟩ := by
    intro M
    have h2 := affineCp_acts hA.wf M (fun _ => 0)
    rw [hd] at h2
    refine (hA.trans h2).congr ?_ ?_
    · intro p _
      simp only [HomAffine.comp, LinearMap.comp_apply]
      rw [linMat_trunc]
    · simp only [HomAffine.comp, map_zero, zero_add]
      funext i; simp
  split_ifs at hs with h2 h3
  · injection hs with hs; subst hs
    rw [hd] at h2
    refine ⟨Or.inl ⟨h2, ?_⟩, by rw [affineCp_dimension, hd], by rw [affineCp_rational, hrat]⟩
    have := key (rot2Mat ch sh); rwa [h2] at this
  · injection hs with hs; subst hs
    rw [hd] at h3
    refine ⟨Or.inr ⟨h3, ?_⟩, by rw [affineCp_dimension, hd], by rw [affineCp_rational, hrat]⟩
    have := key (rot3Mat ch sh axisUnit); rwa [h3] at this

theorem rotate_error {o : Obj K} (h : o.WF) (ch sh : K) (normal axisUnit : List K)
    (h2 : rotateDim o.dimension normal ≠ 2) (h3 : rotateDim o.dimension normal ≠ 3) :
    o.rotate ch sh normal axisUnit = .error .runtime := by
  rw [rotate_eq, rotatePromoted_dimension h, if_neg h2, if_neg h3]

end rotate

end Obj
end Splipy
