import Splipy.Lemmas.C04Tensor
import Splipy.Model.Refine
import Mathlib.Tactic.FieldSimp
import Mathlib.Tactic.Positivity

/-!
# C04 helper lemmas, part 6: the values chosen by `refine`
-/

namespace Splipy
namespace C04

set_option linter.unusedSectionVars false

variable {K : Type} [Field K] [LinearOrder K] [IsStrictOrderedRing K]

/-- `np.linspace(k0,k1,n+2)[1:-1]` lies strictly inside `(k0,k1)`. -/
theorem linspaceInterior_mem (k0 k1 : K) (n : ℕ) (h : k0 < k1) (v : K)
    (hv : v ∈ linspaceInterior k0 k1 n) : k0 < v ∧ v < k1 := by
  simp only [linspaceInterior, List.mem_map, List.mem_range] at hv
  obtain ⟨j, hj, rfl⟩ := hv
  have hd : 0 < k1 - k0 := sub_pos.2 h
  have hn : (0 : K) < (n : K) + 1 := by positivity
  have hj1 : (0 : K) < (j : K) + 1 := by positivity
  have hjn : (j : K) + 1 < (n : K) + 1 := by
    have : (j : K) < (n : K) := by exact_mod_cast hj
    linarith
  have hq : 0 < (k1 - k0) / ((n : K) + 1) := div_pos hd hn
  constructor
  · have : 0 < ((j : K) + 1) * ((k1 - k0) / ((n : K) + 1)) := mul_pos hj1 hq
    linarith
  · have h1 : ((j : K) + 1) * ((k1 - k0) / ((n : K) + 1)) < ((n : K) + 1) * ((k1 - k0) / ((n : K) + 1)) :=
      mul_lt_mul_of_pos_right hjn hq
    have h2 : ((n : K) + 1) * ((k1 - k0) / ((n : K) + 1)) = k1 - k0 := by
      field_simp
    linarith

/-- Consecutive pairs of a strictly increasing list: ordered, and inside `[head, last]`. -/
theorem zip_tail_mem (l : List K) (hl : l.Pairwise (· < ·)) (a e : K)
    (hb : ∀ v ∈ l, a ≤ v ∧ v ≤ e) (k0 k1 : K) (h : (k0, k1) ∈ List.zip l l.tail) :
    k0 < k1 ∧ a ≤ k0 ∧ k1 ≤ e := by
  induction l with
  | nil => simp at h
  | cons x l ih =>
    cases l with
    | nil => simp at h
    | cons y l =>
      simp only [List.tail_cons, List.zip_cons_cons, List.mem_cons] at h
      rcases h with h | h
      · obtain ⟨rfl, rfl⟩ := Prod.mk.inj h
        have hxy : k0 < k1 := (List.pairwise_cons.1 hl).1 _ List.mem_cons_self
        exact ⟨hxy, (hb _ List.mem_cons_self).1, (hb _ (List.mem_cons_of_mem _ List.mem_cons_self)).2⟩
      · exact ih (List.pairwise_cons.1 hl).2 (fun v hv => hb v (List.mem_cons_of_mem _ hv)) h

/-- All values `refine(n)` inserts lie in `[a, e)` when the span list is strictly increasing inside
    `[a, e]` — more precisely each lies strictly inside one of the spans. -/
theorem refineValues_mem (spans : List K) (hl : spans.Pairwise (· < ·)) (a e : K)
    (hb : ∀ v ∈ spans, a ≤ v ∧ v ≤ e) (n : ℕ) (v : K) (hv : v ∈ refineValues spans n) :
    (∃ k0 k1, (k0, k1) ∈ List.zip spans spans.tail ∧ k0 < v ∧ v < k1) ∧ a < v ∧ v < e := by
  unfold refineValues at hv
  rw [List.mem_flatMap] at hv
  obtain ⟨⟨k0, k1⟩, hk, hv⟩ := hv
  obtain ⟨h01, ha, he⟩ := zip_tail_mem spans hl a e hb k0 k1 hk
  obtain ⟨h1, h2⟩ := linspaceInterior_mem k0 k1 n h01 v hv
  exact ⟨⟨k0, k1, hk, h1, h2⟩, lt_of_le_of_lt ha h1, lt_of_lt_of_le h2 he⟩


/-! ### `knot_spans()` is strictly increasing and stays inside the domain -/

/-- the accumulation step of `knot_spans` -/
def spanStep (tol : K) (acc : Array K) (k : K) : Array K :=
  if |k - acc.getD (acc.size - 1) 0| > tol then acc.push k else acc

theorem spanFold (tol : K) (htol : 0 ≤ tol) (ks : List K) :
    ∀ (acc : Array K), ks.Pairwise (· ≤ ·) → acc.toList.Pairwise (· < ·) → 0 < acc.size →
      (∀ a ∈ acc.toList, a ≤ acc.getD (acc.size - 1) 0) →
      (∀ a ∈ acc.toList, ∀ k ∈ ks, a ≤ k) →
      ((ks.foldl (spanStep tol) acc).toList.Pairwise (· < ·)) ∧
      (∀ v ∈ (ks.foldl (spanStep tol) acc).toList, v ∈ acc.toList ∨ v ∈ ks) := by
  induction ks with
  | nil => intro acc _ h _ _ _; exact ⟨h, fun v hv => Or.inl hv⟩
  | cons k ks ih =>
    intro acc hks hacc hne hlast hle
    simp only [List.foldl_cons]
    have hks' := (List.pairwise_cons.1 hks)
    by_cases hc : |k - acc.getD (acc.size - 1) 0| > tol
    · have hstep : spanStep tol acc k = acc.push k := by unfold spanStep; rw [if_pos hc]
      rw [hstep]
      have hlastmem : acc.getD (acc.size - 1) 0 ∈ acc.toList := by
        rw [Array.getD_eq_getD_getElem?, Array.getElem?_eq_getElem (by omega)]
        simp
      have hlk : acc.getD (acc.size - 1) 0 < k := by
        have h1 : acc.getD (acc.size - 1) 0 ≤ k := hle _ hlastmem k List.mem_cons_self
        rcases lt_or_eq_of_le h1 with h | h
        · exact h
        · exfalso
          rw [h, sub_self, abs_zero] at hc
          exact absurd hc (not_lt.2 htol)
      have hnewlast : (acc.push k).getD ((acc.push k).size - 1) 0 = k := by
        simp [Array.getD_eq_getD_getElem?]
      obtain ⟨r1, r2⟩ := ih (acc.push k) hks'.2
        (by
          rw [Array.toList_push, List.pairwise_append]
          refine ⟨hacc, List.pairwise_singleton _ _, fun a ha b hb => ?_⟩
          rw [List.mem_singleton] at hb
          rw [hb]
          exact lt_of_le_of_lt (hlast a ha) hlk)
        (by simp)
        (by
          intro a ha
          rw [hnewlast]
          rw [Array.toList_push, List.mem_append, List.mem_singleton] at ha
          rcases ha with ha | ha
          · exact hle a ha k List.mem_cons_self
          · exact le_of_eq ha)
        (by
          intro a ha k' hk'
          rw [Array.toList_push, List.mem_append, List.mem_singleton] at ha
          rcases ha with ha | ha
          · exact hle a ha k' (List.mem_cons_of_mem _ hk')
          · rw [ha]; exact hks'.1 k' hk')
      refine ⟨r1, fun v hv => ?_⟩
      rcases r2 v hv with h | h
      · rw [Array.toList_push, List.mem_append, List.mem_singleton] at h
        rcases h with h | h
        · exact Or.inl h
        · exact Or.inr (by rw [h]; exact List.mem_cons_self)
      · exact Or.inr (List.mem_cons_of_mem _ h)
    · have hstep : spanStep tol acc k = acc := by unfold spanStep; rw [if_neg hc]
      rw [hstep]
      obtain ⟨r1, r2⟩ := ih acc hks'.2 hacc hne hlast
        (fun a ha k' hk' => hle a ha k' (List.mem_cons_of_mem _ hk'))
      refine ⟨r1, fun v hv => ?_⟩
      rcases r2 v hv with h | h
      · exact Or.inl h
      · exact Or.inr (List.mem_cons_of_mem _ h)

theorem extract_toList (b : Basis K) (lo hi : ℕ) (hhi : hi ≤ b.knots.size) :
    (b.knots.extract lo hi).toList = (List.range (hi - lo)).map (fun j => b.kn (lo + j)) := by
  apply List.ext_getElem
  · simp
    omega
  · intro i h1 h2
    rw [Array.getElem_toList, Array.getElem_extract, List.getElem_map, List.getElem_range]
    have : i < hi - lo := by simpa using h2
    rw [kn_of_lt b (by omega)]

/-- `knot_spans()` of a valid basis (any non-negative tolerance): strictly increasing, inside
    `[start, end]`. -/
theorem knotSpans_spec (b : Basis K) (hv : b.Valid) (tol : K) (htol : 0 ≤ tol) :
    (b.knotSpans tol false).toList.Pairwise (· < ·) ∧
    ∀ v ∈ (b.knotSpans tol false).toList, b.start ≤ v ∧ v ≤ b.stop := by
  have hmono : Monotone b.kn := kn_mono hv.sorted
  have hp := hv.order_pos
  have hsz := hv.size_ge
  have hstartstop : b.start ≤ b.stop := le_of_lt hv.start_lt_stop
  -- the list that is scanned
  obtain ⟨ks, hks, hsorted, hrange⟩ : ∃ ks : List K,
      b.knotSpans tol false = ks.foldl (spanStep tol) #[b.kn (b.order - 1)] ∧
      ks.Pairwise (· ≤ ·) ∧ ∀ k ∈ ks, b.start ≤ k ∧ k ≤ b.stop := by
    by_cases h1 : b.order = 1
    · refine ⟨[], ?_, List.Pairwise.nil, fun k hk => by simp at hk⟩
      unfold Basis.knotSpans
      simp [h1]
    · refine ⟨(b.knots.extract (b.order - 1) (b.knots.size - b.order + 1)).toList, ?_, ?_, ?_⟩
      · unfold Basis.knotSpans
        simp only [if_neg h1]
        rfl
      · rw [extract_toList b _ _ (by omega), List.pairwise_map]
        exact List.Pairwise.imp (fun {i j} (h : i < j) => hmono (by omega)) List.pairwise_lt_range
      · intro k hk
        rw [extract_toList b _ _ (by omega), List.mem_map] at hk
        obtain ⟨j, hj, rfl⟩ := hk
        rw [List.mem_range] at hj
        exact ⟨hmono (by omega), hmono (by omega)⟩
  rw [hks]
  obtain ⟨r1, r2⟩ := spanFold tol htol ks #[b.kn (b.order - 1)] hsorted
    (by simp) (by simp) (by simp [Array.getD_eq_getD_getElem?])
    (by
      intro a ha k hk
      simp only [List.mem_singleton] at ha
      rw [ha]
      exact (hrange k hk).1)
  refine ⟨r1, fun v hv' => ?_⟩
  rcases r2 v hv' with h | h
  · simp only [List.mem_singleton] at h
    rw [h]
    exact ⟨le_refl _, hstartstop⟩
  · exact hrange v h

end C04
end Splipy
