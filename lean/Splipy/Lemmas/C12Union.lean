import Splipy.Lemmas.C12Merge
import Splipy.Lemmas.C04Seq
import Splipy.Lemmas.C04Tensor
import Mathlib.Data.List.Sort

/-!
# C12 — after the two passes both knot vectors are the union with multiplicity `max(m₁,m₂)`

Two clamped (open) bases of the same order `p` are written over a COMMON list of interior entries
`L : List (K × ℕ × ℕ)` = (value, multiplicity in basis 1, multiplicity in basis 2), multiplicity `0`
meaning "absent"; the end knots `x0 < xl` have multiplicity `p` in both.  Under the separation
hypothesis (`Separated tol` of the distinct values: neighbours more than `tol` apart) the executable
`Basis.mergeKnots` — the knot half of the two insertion passes of `make_splines_identical` —
returns twice the clamped basis with multiplicities `max(m₁,m₂)`.
-/

namespace Splipy

set_option linter.unusedSectionVars false

variable {K : Type} [Field K] [LinearOrder K] [IsStrictOrderedRing K] [FloorRing K]

namespace C12

/-! ## `expand` over a list of entries -/

section expandL
variable {α : Type}

theorem expand_eq_flatMap (L : List α) (v : α → K) (f : α → ℕ) :
    expand (L.map v) (L.map f) = L.flatMap (fun e => List.replicate (f e) (v e)) := by
  induction L with
  | nil => rfl
  | cons e L ih => simp only [List.map_cons, expand_cons, List.flatMap_cons, ih]

/-- Entries of multiplicity `0` do not contribute. -/
theorem expand_filter (L : List α) (v : α → K) (f : α → ℕ) :
    expand (L.map v) (L.map f)
      = expand ((L.filter (fun e => decide (1 ≤ f e))).map v) ((L.filter (fun e => decide (1 ≤ f e))).map f) := by
  induction L with
  | nil => rfl
  | cons e L ih =>
    by_cases h : 1 ≤ f e
    · rw [List.filter_cons_of_pos (by simpa using h)]
      simp only [List.map_cons, expand_cons, ih]
    · rw [List.filter_cons_of_neg (by simpa using h)]
      have h0 : f e = 0 := by omega
      simp only [List.map_cons, expand_cons, h0, List.replicate_zero, List.nil_append, ih]

theorem flatMap_filter_replicate (L : List α) (v : α → K) (g c : α → ℕ) (h : ∀ e ∈ L, g e = 0 → c e = 0) :
    (L.filter (fun e => decide (1 ≤ g e))).flatMap (fun e => List.replicate (c e) (v e))
      = L.flatMap (fun e => List.replicate (c e) (v e)) := by
  induction L with
  | nil => rfl
  | cons e L ih =>
    have ih' := ih (fun e' he' => h e' (List.mem_cons_of_mem _ he'))
    by_cases hg : 1 ≤ g e
    · rw [List.filter_cons_of_pos (by simpa using hg)]
      simp only [List.flatMap_cons, ih']
    · rw [List.filter_cons_of_neg (by simpa using hg)]
      have : c e = 0 := h e List.mem_cons_self (by omega)
      simp only [List.flatMap_cons, this, List.replicate_zero, List.nil_append, ih']

theorem expand_add_perm (L : List α) (v : α → K) (f g : α → ℕ) :
    (expand (L.map v) (L.map f) ++ expand (L.map v) (L.map g)).Perm
      (expand (L.map v) (L.map (fun e => f e + g e))) := by
  induction L with
  | nil => simp
  | cons e L ih =>
    simp only [List.map_cons, expand_cons, List.replicate_add]
    -- (A ++ X) ++ (B ++ Y) ~ (A ++ B) ++ Z   with  X ++ Y ~ Z
    have h1 : (List.replicate (f e) (v e) ++ expand (L.map v) (L.map f)
        ++ (List.replicate (g e) (v e) ++ expand (L.map v) (L.map g))).Perm
        (List.replicate (f e) (v e) ++ List.replicate (g e) (v e)
          ++ (expand (L.map v) (L.map f) ++ expand (L.map v) (L.map g))) := by
      simp only [List.append_assoc]
      refine List.Perm.append_left _ ?_
      rw [← List.append_assoc, ← List.append_assoc]
      exact List.Perm.append_right _ List.perm_append_comm
    exact h1.trans (List.Perm.append_left _ ih)

end expandL

/-! ## Clamped bases with possibly absent interior values are valid -/

theorem separated_ends (tol : K) (x0 xl : K) (umid : List K) (hsep : Separated tol (clampedU x0 xl umid)) :
    x0 + tol < xl ∧ (∀ y ∈ umid, x0 + tol < y ∧ y + tol < xl) := by
  unfold clampedU at hsep
  have h1 := List.pairwise_cons.mp hsep
  have h2 : Separated tol ((x0 :: umid) ++ [xl]) := by simpa using hsep
  have h3 := (List.pairwise_append.mp h2).2.2
  exact ⟨h1.1 xl (by simp), fun y hy => ⟨h1.1 y (by simp [hy]), h3 y (by simp [hy]) xl (by simp)⟩⟩

theorem clamped_valid (tol : K) (htol : 0 < tol) (p : ℕ) (hp : 1 ≤ p) (x0 xl : K) (umid : List K)
    (mmid : List ℕ) (hlen : umid.length = mmid.length) (hsep : Separated tol (clampedU x0 xl umid)) :
    (openBasis p (clampedU x0 xl umid) (clampedM p mmid)).Valid := by
  have hsorted : (expand (clampedU x0 xl umid) (clampedM p mmid)).Pairwise (· ≤ ·) :=
    expand_sorted tol (le_of_lt htol) _ _ hsep
  have hsz : (openBasis p (clampedU x0 xl umid) (clampedM p mmid)).knots.size
      = p + (expand umid mmid).length + p := by
    show (expand _ _).toArray.size = _
    rw [expand_clamped p x0 xl umid mmid hlen]; simp; omega
  refine ⟨hp, ?_, ?_, by show (-1 : Int) ≤ -1; exact le_rfl, Or.inr rfl, ?_, ?_⟩
  · rw [hsz]; show 2 * p ≤ _; omega
  · intro i _
    exact kn_mono_of_sorted _ _ rfl hsorted (Nat.le_succ i)
  · rw [clamped_start p hp, clamped_stop p hp x0 xl umid mmid hlen]
    have := (separated_ends tol x0 xl umid hsep).1
    linarith
  · intro h
    exact absurd h (by show ¬ (0 : Int) ≤ -1; decide)

/-! ## `knot_spans()` of a clamped basis: the values actually present -/

theorem drop_take_clamped (p : ℕ) (hp : 1 ≤ p) (x0 xl : K) (mid : List K) :
    ((List.replicate p x0 ++ mid ++ List.replicate p xl).drop (p - 1)).take (mid.length + 2)
      = x0 :: (mid ++ [xl]) := by
  obtain ⟨q, rfl⟩ : ∃ q, p = q + 1 := ⟨p - 1, by omega⟩
  have e1 : List.replicate (q + 1) x0 ++ mid ++ List.replicate (q + 1) xl
      = List.replicate q x0 ++ ((x0 :: (mid ++ [xl])) ++ List.replicate q xl) := by
    rw [List.replicate_succ', List.replicate_succ]
    simp
  rw [e1, Nat.add_sub_cancel]
  rw [List.drop_left' (by simp), List.take_left' (by simp)]

theorem knotSpans_clamped {α : Type} (tol : K) (htol : 0 < tol) (p : ℕ) (hp : 2 ≤ p) (x0 xl : K)
    (L : List α) (v : α → K) (f : α → ℕ) (hsep : Separated tol (clampedU x0 xl (L.map v))) :
    (openBasis p (clampedU x0 xl (L.map v)) (clampedM p (L.map f))).knotSpans tol false
      = (x0 :: ((L.filter (fun e => decide (1 ≤ f e))).map v ++ [xl])).toArray := by
  have h0 : 0 ≤ tol := le_of_lt htol
  have hlen : (L.map v).length = (L.map f).length := by simp
  set B := openBasis p (clampedU x0 xl (L.map v)) (clampedM p (L.map f)) with hB
  have hk : B.knots = (List.replicate p x0 ++ expand (L.map v) (L.map f) ++ List.replicate p xl).toArray := by
    show (expand _ _).toArray = _
    rw [expand_clamped p x0 xl _ _ hlen]
  have hstart : B.kn (p - 1) = x0 := clamped_start p (by omega) x0 xl (L.map v) (L.map f)
  have hsize : B.knots.size = p + (expand (L.map v) (L.map f)).length + p := by
    rw [hk]; simp; omega
  -- the slice knots[p-1 : -p+1]
  have hks : (B.knots.extract (p - 1) (B.knots.size - p + 1)).toList
      = x0 :: (expand (L.map v) (L.map f) ++ [xl]) := by
    rw [Array.toList_extract, List.extract_eq_take_drop, hsize, hk]
    have : p + (expand (L.map v) (L.map f)).length + p - p + 1 - (p - 1)
        = (expand (L.map v) (L.map f)).length + 2 := by omega
    rw [this]
    exact drop_take_clamped p (by omega) x0 xl _
  -- filtered form
  obtain ⟨L', hL'⟩ : ∃ L', L' = L.filter (fun e => decide (1 ≤ f e)) := ⟨_, rfl⟩
  rw [← hL']
  have hpos : ∀ j ∈ L'.map f ++ [1], 1 ≤ j := by
    intro j hj
    rcases List.mem_append.mp hj with h | h
    · obtain ⟨e, he, rfl⟩ := List.mem_map.mp h
      rw [hL'] at he
      have := (List.mem_filter.mp he).2
      simpa using this
    · simp at h; omega
  have hsub : (x0 :: (L'.map v ++ [xl])).Sublist (clampedU x0 xl (L.map v)) := by
    unfold clampedU
    rw [hL']
    exact List.Sublist.cons_cons _ (List.Sublist.append_right ((List.filter_sublist).map v) _)
  have hsep' : Separated tol (x0 :: (L'.map v ++ [xl])) := List.Pairwise.sublist hsub hsep
  have hmid : expand (L.map v) (L.map f) ++ [xl] = expand (L'.map v ++ [xl]) (L'.map f ++ [1]) := by
    rw [expand_append _ _ _ _ (by simp), expand_filter L v f, hL']
    simp
  unfold Basis.knotSpans
  have ho : B.order = p := rfl
  have hp1 : ¬ (p = 1) := by omega
  simp only [Bool.false_eq_true, if_false, ho, hp1]
  show List.foldl (spanStep tol) #[B.kn (p - 1)] _ = _
  rw [hstart, hks, hmid]
  have := spans_fold tol h0 (L'.map v ++ [xl]) (L'.map f ++ [1]) #[] x0 1 (by simp) hsep' hpos
  simp only [List.replicate_one, List.singleton_append] at this
  show List.foldl (spanStep tol) (#[].push x0) _ = _
  rw [this]
  simp

/-! ## Inserting the collected values: the multiplicities add up -/

theorem insertAll_eq_map (xs : List K) : ∀ (bc : Basis K × Mat K),
    Obj.insertAll bc.1 xs = (xs.foldlM C04.stepIns bc).map Prod.fst := by
  induction xs with
  | nil => intro bc; rfl
  | cons x xs ih =>
    intro bc
    unfold Obj.insertAll
    rw [List.foldlM_cons, List.foldlM_cons]
    cases hins : bc.1.insertKnot x with
    | error e =>
      have : C04.stepIns bc x = .error e := by unfold C04.stepIns; simp only [hins]; rfl
      rw [this]; rfl
    | ok r =>
      have : C04.stepIns bc x = .ok (r.1, Mat.mul r.2 bc.2) := by
        unfold C04.stepIns; simp only [hins]; rfl
      rw [this]
      exact ih (r.1, Mat.mul r.2 bc.2)

theorem insertAll_of_insertMany {b b' : Basis K} {C0 C : Mat K} {xs : List K}
    (h : C04.insertMany b C0 xs = .ok (b', C)) : Obj.insertAll b xs = .ok b' := by
  have := insertAll_eq_map xs (b, C0)
  unfold C04.insertMany at h
  rw [this, h]; rfl

/-- The basis of direction `dir` after `Obj.insertKnots` is `insertAll` of the old one. -/
theorem insertAll_of_insertKnots {o o' : Obj K} {xs : List K} {dir : ℕ} (hdir : dir < o.bases.size)
    (h : o.insertKnots xs dir = .ok o') : Obj.insertAll (o.basis dir) xs = .ok (o'.basis dir) := by
  rw [C04.insertKnots_eq] at h
  cases hm : C04.insertMany (o.basis dir) (Mat.identity (o.cps.shape.getD dir 0)) xs with
  | error e => rw [hm] at h; cases h
  | ok bc =>
    rw [hm] at h
    have h' : ({ o with bases := o.bases.set! dir bc.1, cps := Tensor.applyAxis bc.2 o.cps dir } : Obj K) = o' := by
      injection h
    rw [← h', C04.basis_set o dir hdir]
    exact insertAll_of_insertMany (C := bc.2) (by rw [hm])

theorem valid_pairwise {b : Basis K} (hv : b.Valid) : b.knots.toList.Pairwise (· ≤ ·) := by
  rw [List.pairwise_iff_getElem]
  intro i j hi hj hij
  have hm := C04.kn_mono hv.sorted (le_of_lt hij)
  have hi' : i < b.knots.size := by simpa using hi
  have hj' : j < b.knots.size := by simpa using hj
  have ei : b.kn i = b.knots.toList[i] := by simp [Basis.kn, Array.getD, hi']
  have ej : b.kn j = b.knots.toList[j] := by simp [Basis.kn, Array.getD, hj']
  rw [← ei, ← ej]; exact hm

/-- **Insertion adds multiplicities.**  Inserting `g e` copies of every interior value into the clamped
    basis with multiplicities `f` gives the clamped basis with multiplicities `f + g`. -/
theorem insertAll_clamped {α : Type} (tol : K) (htol : 0 < tol) (p : ℕ) (hp : 1 ≤ p) (x0 xl : K)
    (L : List α) (v : α → K) (f g : α → ℕ) (hsep : Separated tol (clampedU x0 xl (L.map v))) :
    Obj.insertAll (openBasis p (clampedU x0 xl (L.map v)) (clampedM p (L.map f)))
        (expand (L.map v) (L.map g))
      = .ok (openBasis p (clampedU x0 xl (L.map v)) (clampedM p (L.map (fun e => f e + g e)))) := by
  have hlen : ∀ h : α → ℕ, (L.map v).length = (L.map h).length := fun h => by simp
  set b := openBasis p (clampedU x0 xl (L.map v)) (clampedM p (L.map f)) with hb
  have hv : b.Valid := clamped_valid tol htol p hp x0 xl _ _ (hlen f) hsep
  have hstart : b.start = x0 := clamped_start p hp x0 xl _ _
  have hstop : b.stop = xl := clamped_stop p hp x0 xl _ _ (hlen f)
  have hends := separated_ends tol x0 xl (L.map v) hsep
  have hxs : ∀ x ∈ expand (L.map v) (L.map g), b.start ≤ x ∧ x < b.stop := by
    intro x hx
    have := hends.2 x (mem_expand _ _ x hx)
    rw [hstart, hstop]
    constructor <;> linarith
  obtain ⟨b', C, hm, hr, hperm⟩ := C04.insertMany_open b hv rfl _ hxs
  rw [insertAll_of_insertMany hm]
  congr 1
  -- b' = target: same order / periodic, knot list = the unique sorted permutation
  have hsT : (expand (clampedU x0 xl (L.map v)) (clampedM p (L.map (fun e => f e + g e)))).Pairwise (· ≤ ·) :=
    expand_sorted tol (le_of_lt htol) _ _ hsep
  have hpermT : b'.knots.toList.Perm
      (expand (clampedU x0 xl (L.map v)) (clampedM p (L.map (fun e => f e + g e)))) := by
    refine hperm.trans ?_
    show (expand (L.map v) (L.map g) ++ (expand (clampedU x0 xl (L.map v)) (clampedM p (L.map f))).toArray.toList).Perm _
    rw [List.toList_toArray, expand_clamped p x0 xl _ _ (hlen f), expand_clamped p x0 xl _ _ (hlen _)]
    -- G ++ (A ++ F ++ Z) ~ A ++ (F ++ G) ++ Z
    have h1 : (expand (L.map v) (L.map g) ++ (List.replicate p x0 ++ expand (L.map v) (L.map f) ++ List.replicate p xl)).Perm
        (List.replicate p x0 ++ (expand (L.map v) (L.map f) ++ expand (L.map v) (L.map g)) ++ List.replicate p xl) := by
      rw [List.append_assoc (List.replicate p x0), List.append_assoc (List.replicate p x0)]
      refine List.perm_append_comm.trans ?_
      rw [List.append_assoc]
      refine List.Perm.append_left _ ?_
      rw [List.append_assoc, List.append_assoc]
      refine List.Perm.append_left _ ?_
      exact List.perm_append_comm
    refine h1.trans ?_
    exact List.Perm.append_right _ (List.Perm.append_left _ (expand_add_perm L v f g))
  have hknots : b'.knots.toList = expand (clampedU x0 xl (L.map v)) (clampedM p (L.map (fun e => f e + g e))) :=
    List.Perm.eq_of_pairwise' (valid_pairwise hr.valid) hsT hpermT
  have hk : b'.knots = (expand (clampedU x0 xl (L.map v)) (clampedM p (L.map (fun e => f e + g e)))).toArray := by
    rw [← hknots]
  have ho : b'.order = p := hr.order_eq
  have hpe : b'.periodic = -1 := hr.periodic_eq
  cases b' with
  | mk o k pe =>
    simp only at hk ho hpe
    subst hk ho hpe
    rfl

/-! ## The two passes on clamped bases -/

/-- `continuity` at the value of an entry of the common list. -/
theorem continuity_entry {α : Type} (tol : K) (htol : 0 < tol) (B : Basis K) (F : List α) (v : α → K)
    (f : α → ℕ) (hsep : Separated tol (F.map v)) (hk : B.knots = (expand (F.map v) (F.map f)).toArray)
    (hper : B.periodic = -1) (hin : ∀ e ∈ F, B.start ≤ v e ∧ v e ≤ B.stop) (e : α) (he : e ∈ F) :
    B.continuity tol (v e) = .ok (cont B.order (f e)) := by
  obtain ⟨i, hi, rfl⟩ := List.getElem_of_mem he
  have hi1 : i < (F.map v).length := by simpa using hi
  have hi2 : i < (F.map f).length := by simpa using hi
  have := continuity_expand0 tol htol B (F.map v) (F.map f) (by simp) hsep hk hper i hi1 hi2
    (by rw [List.getElem_map]; exact hin _ (List.getElem_mem hi))
  rw [List.getElem_map, List.getElem_map] at this
  exact this

/-- One pass over a list of entries whose continuities are known. -/
theorem mergeInserts_entries {α : Type} (tol : K) (p : ℕ) (bA bB : Basis K) (into2 : Bool)
    (v : α → K) (fa fb : α → ℕ) : ∀ E : List α,
    (∀ e ∈ E, bA.continuity tol (v e) = .ok (cont p (fa e)) ∧ bB.continuity tol (v e) = .ok (cont p (fb e))) →
    Obj.mergeInserts tol p bA bB into2 (E.map v) = .ok (E.flatMap (fun e => List.replicate
      (if into2 then max (fa e) (fb e) - fb e else max (fb e) (fa e) - fa e) (v e))) := by
  intro E
  induction E with
  | nil => intro _; rfl
  | cons e E ih =>
    intro h
    obtain ⟨h1, h2⟩ := h e List.mem_cons_self
    have hrest := ih (fun e' he' => h e' (List.mem_cons_of_mem _ he'))
    simp only [List.map_cons, Obj.mergeInserts, h1, h2, hrest, List.flatMap_cons]
    cases into2
    · simp only [Bool.false_eq_true, if_false, mergeCount_cont]
    · simp only [if_true, mergeCount_cont]

/-- **The two passes make both knot vectors the union with multiplicity `max(m₁,m₂)`.**
    `L` lists the interior values with their multiplicities in basis 1 and basis 2 (`0` = absent). -/
theorem mergeKnots_clamped (tol : K) (htol : 0 < tol) (p : ℕ) (hp : 2 ≤ p) (x0 xl : K)
    (L : List (K × ℕ × ℕ)) (hsep : Separated tol (clampedU x0 xl (L.map (·.1)))) :
    let U := clampedU x0 xl (L.map (·.1))
    let b1 := openBasis p U (clampedM p (L.map (·.2.1)))
    let b2 := openBasis p U (clampedM p (L.map (·.2.2)))
    let b := openBasis p U (clampedM p (L.map (fun e => max e.2.1 e.2.2)))
    Obj.mergeInserts tol p b1 b2 true (b1.knotSpans tol false).toList
        = .ok (expand (L.map (·.1)) (L.map (fun e => max e.2.1 e.2.2 - e.2.2)))
    ∧ Obj.insertAll b2 (expand (L.map (·.1)) (L.map (fun e => max e.2.1 e.2.2 - e.2.2))) = .ok b
    ∧ Obj.mergeInserts tol p b1 b false (b2.knotSpans tol false).toList
        = .ok (expand (L.map (·.1)) (L.map (fun e => max e.2.1 e.2.2 - e.2.1)))
    ∧ Obj.insertAll b1 (expand (L.map (·.1)) (L.map (fun e => max e.2.1 e.2.2 - e.2.1))) = .ok b
    ∧ Obj.mergeKnots tol p b1 b2 = .ok (b, b) := by
  intro U b1 b2 b
  have hp1 : 1 ≤ p := by omega
  have h0 : 0 ≤ tol := le_of_lt htol
  -- the full entry list, ends included
  set F : List (K × ℕ × ℕ) := (x0, p, p) :: (L ++ [(xl, p, p)]) with hF
  have hFv : F.map (·.1) = U := by simp [hF, U, clampedU]
  have hFm : ∀ g : K × ℕ × ℕ → ℕ, g (x0, p, p) = p → g (xl, p, p) = p → F.map g = clampedM p (L.map g) := by
    intro g h1 h2; simp [hF, clampedM, h1, h2]
  have hlen : ∀ g : K × ℕ × ℕ → ℕ, (L.map (·.1)).length = (L.map g).length := fun g => by simp
  have hsepF : Separated tol (F.map (·.1)) := by rw [hFv]; exact hsep
  have hrange := clamped_range tol h0 x0 xl (L.map (·.1)) hsep
  -- continuity of the three bases at every entry
  have hcont : ∀ (g : K × ℕ × ℕ → ℕ), g (x0, p, p) = p → g (xl, p, p) = p → ∀ e ∈ F,
      (openBasis p U (clampedM p (L.map g))).continuity tol e.1 = .ok (cont p (g e)) := by
    intro g h1 h2 e he
    have := continuity_entry tol htol (openBasis p U (clampedM p (L.map g))) F (·.1) g hsepF
      (by show (expand U (clampedM p (L.map g))).toArray = _; rw [hFv, hFm g h1 h2]) rfl
      (by
        intro e' he'
        rw [clamped_start p hp1, clamped_stop p hp1 x0 xl _ _ (hlen g)]
        exact hrange _ (by show e'.1 ∈ U; rw [← hFv]; exact List.mem_map_of_mem he')) e he
    exact this
  have hmax : max p p = p := max_self p
  have hc1 := hcont (·.2.1) rfl rfl
  have hc2 := hcont (·.2.2) rfl rfl
  have hcm := hcont (fun e => max e.2.1 e.2.2) hmax hmax
  -- sub-lists visited by the passes
  have hsubF : ∀ g : K × ℕ × ℕ → ℕ, ∀ e ∈ (x0, p, p) :: ((L.filter (fun e => decide (1 ≤ g e))) ++ [(xl, p, p)]), e ∈ F := by
    intro g e he
    rw [hF]
    rcases List.mem_cons.mp he with h | h
    · rw [h]; exact List.mem_cons_self
    · rcases List.mem_append.mp h with h | h
      · exact List.mem_cons_of_mem _ (List.mem_append_left _ (List.mem_filter.mp h).1)
      · exact List.mem_cons_of_mem _ (List.mem_append_right _ h)
  have hspans : ∀ g : K × ℕ × ℕ → ℕ,
      ((openBasis p U (clampedM p (L.map g))).knotSpans tol false).toList
        = ((x0, p, p) :: ((L.filter (fun e => decide (1 ≤ g e))) ++ [(xl, p, p)])).map (·.1) := by
    intro g
    rw [knotSpans_clamped tol htol p hp x0 xl L (·.1) g hsep]
    simp
  -- pass 1
  have hpass1 : Obj.mergeInserts tol p b1 b2 true (b1.knotSpans tol false).toList
      = .ok (expand (L.map (·.1)) (L.map (fun e => max e.2.1 e.2.2 - e.2.2))) := by
    rw [hspans (·.2.1)]
    rw [mergeInserts_entries tol p b1 b2 true (·.1) (·.2.1) (·.2.2) _
      (fun e he => ⟨hc1 e (hsubF _ e he), hc2 e (hsubF _ e he)⟩)]
    congr 1
    simp only [if_true, List.flatMap_cons, List.flatMap_append, List.flatMap_nil, max_self, Nat.sub_self,
      List.replicate_zero, List.nil_append, List.append_nil]
    rw [flatMap_filter_replicate L (·.1) (·.2.1) (fun e => max e.2.1 e.2.2 - e.2.2)
      (fun e _ h => by simp only [h]; omega), expand_eq_flatMap]
  -- pass 2
  have hpass2 : Obj.mergeInserts tol p b1 b false (b2.knotSpans tol false).toList
      = .ok (expand (L.map (·.1)) (L.map (fun e => max e.2.1 e.2.2 - e.2.1))) := by
    rw [hspans (·.2.2)]
    rw [mergeInserts_entries tol p b1 b false (·.1) (·.2.1) (fun e => max e.2.1 e.2.2) _
      (fun e he => ⟨hc1 e (hsubF _ e he), hcm e (hsubF _ e he)⟩)]
    congr 1
    simp only [Bool.false_eq_true, if_false, List.flatMap_cons, List.flatMap_append, List.flatMap_nil, max_self,
      Nat.sub_self, List.replicate_zero, List.nil_append, List.append_nil]
    rw [flatMap_filter_replicate L (·.1) (·.2.2) (fun e => max (max e.2.1 e.2.2) e.2.1 - e.2.1)
      (fun e _ h => by simp only [h]; omega), expand_eq_flatMap]
    congr 1
    funext e
    congr 1
    have := le_max_left e.2.1 e.2.2
    omega
  -- insertions
  have hins2 : Obj.insertAll b2 (expand (L.map (·.1)) (L.map (fun e => max e.2.1 e.2.2 - e.2.2))) = .ok b := by
    have := insertAll_clamped tol htol p hp1 x0 xl L (·.1) (·.2.2) (fun e => max e.2.1 e.2.2 - e.2.2) hsep
    rw [this]
    have e : (fun e : K × ℕ × ℕ => e.2.2 + (max e.2.1 e.2.2 - e.2.2)) = (fun e => max e.2.1 e.2.2) := by
      funext e; have := le_max_right e.2.1 e.2.2; omega
    rw [e]
  have hins1 : Obj.insertAll b1 (expand (L.map (·.1)) (L.map (fun e => max e.2.1 e.2.2 - e.2.1))) = .ok b := by
    have := insertAll_clamped tol htol p hp1 x0 xl L (·.1) (·.2.1) (fun e => max e.2.1 e.2.2 - e.2.1) hsep
    rw [this]
    have e : (fun e : K × ℕ × ℕ => e.2.1 + (max e.2.1 e.2.2 - e.2.1)) = (fun e => max e.2.1 e.2.2) := by
      funext e; have := le_max_left e.2.1 e.2.2; omega
    rw [e]
  refine ⟨hpass1, hins2, hpass2, hins1, ?_⟩
  unfold Obj.mergeKnots
  simp only [hpass1, hins2, hpass2, hins1]

end C12

end Splipy
