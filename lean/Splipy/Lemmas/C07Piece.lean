import Splipy.Lemmas.C10Cummax
import Splipy.Lemmas.C07Split
import Splipy.Lemmas.EvalRow
import Splipy.Model.Split

/-!
# Lemmas for property C07, model level: the knot slices built by `split`

`Basis.piece b lo hi` is the basis `BSplineBasis(p, b.knots[lo : hi+p])` that `split` constructs for
the control points `lo .. hi-1` (`mk?` returns exactly this record when it does not raise).
-/

namespace Splipy

set_option linter.unusedSectionVars false
set_option linter.unusedVariables false

variable {K : Type} [Field K] [LinearOrder K] [IsStrictOrderedRing K]

/-- `BSplineBasis(p, b.knots[lo : hi+p])`. -/
def Basis.piece (b : Basis K) (lo hi : ℕ) : Basis K :=
  { order := b.order, knots := b.knots.extract lo (hi + b.order), periodic := -1 }

theorem Basis.piece_size (b : Basis K) (lo hi : ℕ) (h : hi + b.order ≤ b.knots.size) :
    (b.piece lo hi).knots.size = hi + b.order - lo := by
  simp [Basis.piece, Array.size_extract, Nat.min_eq_left h]

theorem Basis.piece_kn (b : Basis K) (lo hi j : ℕ) (h : hi + b.order ≤ b.knots.size)
    (hj : lo + j < hi + b.order) : (b.piece lo hi).kn j = b.kn (lo + j) := by
  have hs := b.piece_size lo hi h
  have hj' : j < (b.piece lo hi).knots.size := by omega
  rw [Basis.kn_of_lt _ hj', Basis.kn_of_lt _ (show lo + j < b.knots.size by omega)]
  simp [Basis.piece]

theorem Basis.piece_order (b : Basis K) (lo hi : ℕ) : (b.piece lo hi).order = b.order := rfl

theorem Basis.piece_periodic (b : Basis K) (lo hi : ℕ) : (b.piece lo hi).periodic = -1 := rfl

theorem Basis.piece_numFunctions (b : Basis K) (lo hi : ℕ) (h : hi + b.order ≤ b.knots.size)
    (hlo : lo ≤ hi) : (b.piece lo hi).numFunctions = hi - lo := by
  unfold Basis.numFunctions
  rw [b.piece_size lo hi h, b.piece_order, b.piece_periodic]
  simp
  omega

theorem Basis.piece_start (b : Basis K) (lo hi : ℕ) (hp : 1 ≤ b.order)
    (h : hi + b.order ≤ b.knots.size) (hlo : lo ≤ hi) :
    (b.piece lo hi).start = b.kn (lo + b.order - 1) := by
  unfold Basis.start
  rw [b.piece_order, b.piece_kn lo hi _ h (by omega)]
  congr 1; omega

theorem Basis.piece_stop (b : Basis K) (lo hi : ℕ) (hp : 1 ≤ b.order)
    (h : hi + b.order ≤ b.knots.size) (hlo : lo ≤ hi) :
    (b.piece lo hi).stop = b.kn hi := by
  unfold Basis.stop
  rw [b.piece_size lo hi h, b.piece_order, b.piece_kn lo hi _ h (by omega)]
  congr 1; omega

/-- The knot slice of `p` or more functions of a valid basis is a valid non-periodic basis as soon
as its domain is not empty. -/
theorem Basis.piece_valid {b : Basis K} (hv : b.Valid) (lo hi : ℕ) (h1 : lo + b.order ≤ hi)
    (h2 : hi + b.order ≤ b.knots.size) (hlt : b.kn (lo + b.order - 1) < b.kn hi) :
    (b.piece lo hi).Valid where
  order_pos := hv.order_pos
  size_ge := by rw [b.piece_size lo hi h2, b.piece_order]; omega
  sorted := by
    intro i hi'
    rw [b.piece_size lo hi h2] at hi'
    rw [b.piece_kn lo hi i h2 (by omega), b.piece_kn lo hi (i+1) h2 (by omega)]
    exact hv.kn_mono (by omega)
  periodic_ge := by rw [b.piece_periodic]
  periodic_le := Or.inr (b.piece_periodic lo hi)
  start_lt_stop := by
    rw [b.piece_start lo hi hv.order_pos h2 (by omega), b.piece_stop lo hi hv.order_pos h2 (by omega)]
    exact hlt
  ghosts := by
    intro h
    rw [b.piece_periodic] at h
    exact absurd h (by decide)

/-- The piece `[lo, hi)` evaluates (value and all derivatives, both sides) to the whole spline on
its own domain. -/
theorem Basis.piece_splineDeriv {b : Basis K} (hv : b.Valid) (lo hi n : ℕ) (c : ℕ → K)
    (h1 : lo ≤ hi) (h2 : hi + b.order ≤ b.knots.size) (hn : hi ≤ n) (s : Side) (d : ℕ) (t : K)
    (ht : s.mem (b.kn (lo + b.order - 1)) (b.kn hi) t) :
    splineDeriv s (b.piece lo hi).kn (b.order - 1) (hi - lo) (fun j => c (lo + j)) d t
      = splineDeriv s b.kn (b.order - 1) n c d t := by
  have hp := hv.order_pos
  apply splineDeriv_restrict s b.kn (b.piece lo hi).kn hv.kn_mono (b.order - 1) n lo hi c d t h1 hn
  · intro j hj
    exact b.piece_kn lo hi j h2 (by omega)
  · rw [show lo + (b.order - 1) = lo + b.order - 1 by omega]
    exact ht

theorem Basis.piece_splineVal {b : Basis K} (hv : b.Valid) (lo hi n : ℕ) (c : ℕ → K)
    (h1 : lo ≤ hi) (h2 : hi + b.order ≤ b.knots.size) (hn : hi ≤ n) (s : Side) (t : K)
    (ht : s.mem (b.kn (lo + b.order - 1)) (b.kn hi) t) :
    splineVal s (b.piece lo hi).kn (b.order - 1) (hi - lo) (fun j => c (lo + j)) t
      = splineVal s b.kn (b.order - 1) n c t := by
  have hp := hv.order_pos
  apply splineVal_restrict s b.kn (b.piece lo hi).kn hv.kn_mono (b.order - 1) n lo hi c t h1 hn
  · intro j hj
    exact b.piece_kn lo hi j h2 (by omega)
  · rw [show lo + (b.order - 1) = lo + b.order - 1 by omega]
    exact ht

/-- `mk?` accepts the slice and returns exactly `piece` (tolerance `tol ≥ 0`). -/
theorem Basis.mk?_piece {b : Basis K} (hv : b.Valid) (lo hi : ℕ) (tol : K) (htol : 0 ≤ tol)
    (h1 : lo + b.order ≤ hi) (h2 : hi + b.order ≤ b.knots.size) :
    Basis.mk? b.order (b.knots.extract lo (hi + b.order)) (-1) tol = .ok (b.piece lo hi) := by
  have hp := hv.order_pos
  have hs : (b.knots.extract lo (hi + b.order)).size = hi + b.order - lo := b.piece_size lo hi h2
  unfold Basis.mk?
  simp only []
  rw [if_neg (by omega), if_neg (by rw [hs]; omega)]
  have hper : ¬ ((max (-1 : Int) (-1)) ≥ 0) := by decide
  simp only [hper, false_and, if_false]
  have hsort : ∀ i, i + 1 < (b.knots.extract lo (hi + b.order)).size →
      (b.knots.extract lo (hi + b.order)).getD i 0 ≤ (b.knots.extract lo (hi + b.order)).getD (i + 1) 0 := by
    intro i hi'
    rw [hs] at hi'
    have e1 : (b.knots.extract lo (hi + b.order)).getD (i+1) 0 = b.kn (lo + (i+1)) := by
      have := b.piece_kn lo hi (i+1) h2 (by omega)
      rw [← this, Basis.kn_of_lt _ (by rw [b.piece_size lo hi h2]; omega)]
      simp [Basis.piece, Array.getD, hs, show i + 1 < hi + b.order - lo by omega]
    have e0 : (b.knots.extract lo (hi + b.order)).getD i 0 = b.kn (lo + i) := by
      have := b.piece_kn lo hi i h2 (by omega)
      rw [← this, Basis.kn_of_lt _ (by rw [b.piece_size lo hi h2]; omega)]
      simp [Basis.piece, Array.getD, hs, show i < hi + b.order - lo by omega]
    rw [e1, e0]
    exact hv.kn_mono (show lo + i ≤ lo + (i+1) by omega)
  rw [if_neg]
  · rw [Basis.cummax_of_sorted _ hsort]
    rfl
  · simp only [List.any_eq_true, List.mem_range, decide_eq_true_eq, not_exists, not_and, not_lt]
    intro i hi'
    have := hsort i (by omega)
    linarith

end Splipy
