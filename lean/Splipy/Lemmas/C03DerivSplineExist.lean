import Splipy.Lemmas.C10Cummax
import Splipy.Lemmas.C03DerivSplineGen

/-!
# C03 – `get_derivative_spline(dir)` SUCCEEDS on a well-formed non-rational object

The constructor call `BSplineBasis(p-1, knots[1:-1], periodic-1)` passes its validation for a valid clamped
non-periodic basis of order ≥ 2 and for a valid periodic basis with at least two functions, so the model's
`getDerivativeSpline` returns an object `o'` (`IsDerivObj`) whose differentiated direction satisfies `DSplineDir`.
-/

namespace Splipy

set_option linter.unusedSectionVars false
open Tensor

variable {K : Type} [Field K] [LinearOrder K] [IsStrictOrderedRing K] [FloorRing K]

theorem knots_extract_getD (b : Basis K) (j : ℕ) (hj : j + 2 < b.knots.size) :
    (b.knots.extract 1 (b.knots.size - 1)).getD j 0 = b.kn (j + 1) := by
  unfold Basis.kn Array.getD
  have hs : (b.knots.extract 1 (b.knots.size - 1)).size = b.knots.size - 2 := by simp; omega
  rw [dif_pos (by rw [hs]; omega), dif_pos (by omega)]
  simp
  congr 1
  omega

/-- `BSplineBasis(p-1, knots[1:-1], -2 → -1)` succeeds for a valid non-periodic basis of order ≥ 2. -/
theorem mk_deriv_nonperiodic {b : Basis K} (hv : b.Valid) (hper : b.periodic = -1) (hp : 2 ≤ b.order)
    {tol : K} (htol : 0 ≤ tol) :
    ∃ nb, Basis.mk? (b.order - 1) (b.knots.extract 1 (b.knots.size - 1)) (b.periodic - 1) tol = .ok nb ∧
      IsDerivBasis b nb := by
  have hsz := hv.size_ge
  have hs : (b.knots.extract 1 (b.knots.size - 1)).size = b.knots.size - 2 := by simp; omega
  refine ⟨⟨b.order - 1, b.knots.extract 1 (b.knots.size - 1), -1⟩, ?_, ⟨rfl, rfl, rfl⟩⟩
  have hcm : Basis.cummax (b.knots.extract 1 (b.knots.size - 1)) = b.knots.extract 1 (b.knots.size - 1) :=
    Basis.cummax_extract_of_sorted _ _ _ (Basis.sorted_getD_of_kn _ hv.sorted)
  unfold Basis.mk?
  simp only [hs, hper]
  rw [hcm]
  rw [if_neg (by omega), if_neg (by omega)]
  have hmax : max ((-1 : Int) - 1) (-1) = -1 := by decide
  simp only [hmax]
  rw [if_neg (by intro h; exact absurd h.1 (by decide))]
  rw [if_neg (by intro h; exact absurd h.1 (by decide))]
  rw [if_neg]
  intro hany
  rw [List.any_eq_true] at hany
  obtain ⟨i, hi, hlt⟩ := hany
  rw [List.mem_range] at hi
  rw [decide_eq_true_eq, knots_extract_getD b (i+1) (by omega), knots_extract_getD b i (by omega)] at hlt
  have := hv.sorted (i + 1) (by omega)
  linarith

/-- … and for a valid periodic basis with at least two functions (continuity `k`, new continuity `k-1`). -/
theorem mk_deriv_periodic {b : Basis K} (hv : b.Valid) (hper : 0 ≤ b.periodic) (hn : 2 ≤ b.numFunctions)
    {tol : K} (htol : 0 ≤ tol) :
    ∃ nb, Basis.mk? (b.order - 1) (b.knots.extract 1 (b.knots.size - 1)) (b.periodic - 1) tol = .ok nb ∧
      IsDerivBasisP b nb := by
  obtain ⟨k, hk, hkp, hsz⟩ := IsDerivBasisP.sizes hv hper hn
  have hs : (b.knots.extract 1 (b.knots.size - 1)).size = b.knots.size - 2 := by simp; omega
  have hmax : max (b.periodic - 1) (-1) = b.periodic - 1 := by omega
  have hsg := hv.size_ge
  refine ⟨⟨b.order - 1, b.knots.extract 1 (b.knots.size - 1), b.periodic - 1⟩, ?_, ⟨rfl, rfl, rfl⟩⟩
  have hcm : Basis.cummax (b.knots.extract 1 (b.knots.size - 1)) = b.knots.extract 1 (b.knots.size - 1) :=
    Basis.cummax_extract_of_sorted _ _ _ (Basis.sorted_getD_of_kn _ hv.sorted)
  unfold Basis.mk?
  simp only [hs, hmax]
  rw [hcm]
  rw [if_neg (by omega), if_neg (by omega), if_neg (by rintro ⟨h1, h2⟩; omega)]
  have hT : ∀ j, j + b.numFunctions < b.knots.size →
      b.kn (j + b.numFunctions) = b.kn j + (b.stop - b.start) := hv.ghosts hper
  rw [if_neg]
  · rw [if_neg]
    intro hany
    rw [List.any_eq_true] at hany
    obtain ⟨i, hi, hlt⟩ := hany
    rw [List.mem_range] at hi
    rw [decide_eq_true_eq, knots_extract_getD b (i+1) (by omega), knots_extract_getD b i (by omega)] at hlt
    have := hv.sorted (i + 1) (by omega)
    linarith
  · rintro ⟨hge, hany⟩
    rw [List.any_eq_true] at hany
    obtain ⟨i, hi, hgt⟩ := hany
    rw [List.mem_range] at hi
    rw [decide_eq_true_eq] at hgt
    have hk1 : 1 ≤ k := by rw [hk] at hge; omega
    have hi' : i + 3 < b.order + k := by rw [hk] at hi; omega
    -- the four knot indices
    have e1 : (if ((i : Int) + 1) < 0 then ((b.knots.size - 2 : ℕ) : Int) + ((i : Int) + 1) else (i : Int) + 1).toNat
        = i + 1 := by rw [if_neg (by omega)]; omega
    have e2 : (if (i : Int) < 0 then ((b.knots.size - 2 : ℕ) : Int) + (i : Int) else (i : Int)).toNat = i := by
      rw [if_neg (by omega)]; omega
    have e3 : (if (-((b.order - 1 : ℕ) : Int) - (b.periodic - 1) + (i : Int)) < 0
        then ((b.knots.size - 2 : ℕ) : Int) + (-((b.order - 1 : ℕ) : Int) - (b.periodic - 1) + (i : Int))
        else (-((b.order - 1 : ℕ) : Int) - (b.periodic - 1) + (i : Int))).toNat
        = i + 1 + b.numFunctions := by
      rw [hk, if_pos (by omega)]; omega
    have e4 : (if (-((b.order - 1 : ℕ) : Int) - (b.periodic - 1) - 1 + (i : Int)) < 0
        then ((b.knots.size - 2 : ℕ) : Int) + (-((b.order - 1 : ℕ) : Int) - (b.periodic - 1) - 1 + (i : Int))
        else (-((b.order - 1 : ℕ) : Int) - (b.periodic - 1) - 1 + (i : Int))).toNat
        = i + b.numFunctions := by
      rw [hk, if_pos (by omega)]; omega
    simp only [e1, e2, e3, e4] at hgt
    rw [knots_extract_getD b (i+1) (by omega), knots_extract_getD b i (by omega),
      knots_extract_getD b (i + 1 + b.numFunctions) (by omega), knots_extract_getD b (i + b.numFunctions) (by omega)] at hgt
    have g1 := hT (i + 1 + 1) (by omega)
    have g2 := hT (i + 1) (by omega)
    have a1 : i + 1 + b.numFunctions + 1 = i + 1 + 1 + b.numFunctions := by omega
    have a2 : i + b.numFunctions + 1 = i + 1 + b.numFunctions := by omega
    rw [a1, a2, g1, g2] at hgt
    have : b.kn (i + 1 + 1) - b.kn (i + 1) -
        (b.kn (i + 1 + 1) + (b.stop - b.start) - (b.kn (i + 1) + (b.stop - b.start))) = 0 := by ring
    rw [this, abs_zero] at hgt
    exact absurd hgt (not_lt.mpr htol)


/-- A direction the theorems cover: valid clamped non-periodic of order ≥ 2, or periodic with ≥ 2 functions. -/
def Basis.DSplineReady (b : Basis K) : Prop :=
  (b.periodic = -1 ∧ 2 ≤ b.order ∧ b.kn (b.order - 1) = b.kn 0 ∧
      b.kn (b.nAll + b.order - 1) = b.kn b.nAll) ∨
  (0 ≤ b.periodic ∧ 2 ≤ b.numFunctions)

/-- Parameters the theorems cover in the differentiated direction: admissible, and inside the domain when the
direction is `C⁰`-periodic (its derivative spline is then not periodic any more). -/
def Basis.DSplineOk (b : Basis K) (tol u : K) : Prop :=
  b.Admissible tol u ∧ (b.periodic = 0 → b.start ≤ u ∧ u ≤ b.stop)

theorem DSplineDir.mono {b nb : Basis K} {tol : K} {Ok Ok' : K → Prop} (h : DSplineDir b nb tol Ok)
    (hsub : ∀ u, Ok' u → Ok u) : DSplineDir b nb tol Ok' where
  valid := h.valid
  rows := h.rows
  admb := fun u hu => h.admb u (hsub u hu)
  adm := fun u hu => h.adm u (hsub u hu)
  ident := fun u hu => h.ident u (hsub u hu)

/-- **`get_derivative_spline(dir)` succeeds** on a non-rational object whose direction `dir` is ready, and the
result has the structure the object-level theorems use. -/
theorem Obj.exists_derivObj {o : Obj K} {b : Basis K} {dir : ℕ} (hbd : o.basis dir = b)
    (hdir : dir < o.pardim) (hn : o.cps.shape.getD dir 0 = b.numFunctions) (hr : o.rational = false)
    (hv : b.Valid) (hready : b.DSplineReady) {tol : K} (htol : 0 ≤ tol) :
    ∃ o' nb, o.getDerivativeSpline tol dir = .ok o' ∧ IsDerivObj o o' dir b nb ∧
      DSplineDir b nb tol (b.DSplineOk tol) := by
  unfold Obj.getDerivativeSpline
  rw [if_neg (by rw [hr]; decide), if_neg (by omega)]
  simp only [hbd, hn]
  rcases hready with ⟨hper, hp, hc0, hcN⟩ | ⟨hper, hn2⟩
  · obtain ⟨nb, hmk, hD⟩ := mk_deriv_nonperiodic hv hper hp htol
    rw [hmk]
    exact ⟨_, nb, rfl, ⟨hr, rfl, rfl⟩,
      (DSplineDir.of_clamped hD hv hper hp hc0 hcN tol).mono (fun u hu => hu.1)⟩
  · obtain ⟨nb, hmk, hD⟩ := mk_deriv_periodic hv hper hn2 htol
    rw [hmk]
    exact ⟨_, nb, rfl, ⟨hr, rfl, rfl⟩,
      (DSplineDir.of_periodic hD hv hper hn2 tol).mono (fun u hu => hu)⟩

end Splipy
