import Splipy.Lemmas.C15Identical
import Splipy.Model.Sections

/-!
# `make_splines_identical` on objects that already live on `[0,1]` and are already compatible

* `reparam(0,1)` of a basis with `start = 0`, `end = 1` returns the same basis; hence the `reparam`
  stage of `make_splines_identical` is the identity on such a pair;
* `make_splines_compatible` is the identity on two objects of the same rationality and dimension;
* knot multiplicity `0` in the common-entry form (`openBasis … (clampedM p (… 0 …))`) means "absent".
-/

set_option linter.unusedSectionVars false

namespace Splipy
namespace C15

open C06 C12 Obj Basis

variable {K : Type} [Field K] [LinearOrder K] [IsStrictOrderedRing K] [FloorRing K]

/-- `reparam(0, 1)` of a valid basis on `[0,1]` is the basis itself. -/
theorem reparam_unit {b : Basis K} (hv : b.Valid) (h0 : b.start = 0) (h1 : b.stop = 1) :
    b.reparam 0 1 = .ok b := by
  rw [reparam_ok b (by norm_num : (0 : K) < 1)]
  congr 1
  have hsz := valid_size_pos hv
  have hstop : ({ b with knots := b.knots.map (fun x => x - b.start) } : Basis K).stop = 1 := by
    unfold Basis.stop
    rw [kn_map b _ hsz]
    simp only [Array.size_map]
    have : b.kn (b.knots.size - b.order) = 1 := h1
    rw [this, h0]; ring
  unfold reparamOk
  simp only [hstop, h0]
  cases b with
  | mk order knots periodic =>
    simp only [Basis.mk.injEq, true_and, and_true]
    rw [Array.map_map, Array.map_map]
    conv_rhs => rw [← Array.map_id knots]
    congr 1
    funext x
    have h1' : ({ order := order, knots := knots, periodic := periodic } : Basis K).stop = 1 := h1
    simp [h1']

/-- Writing back the basis an object already has does not change it. -/
theorem set_basis_self (o : Obj K) (d : ℕ) (hd : d < o.bases.size) :
    ({ o with bases := o.bases.set! d (o.basis d) } : Obj K) = o := by
  cases o with
  | mk bases cps rational =>
    simp only [Obj.mk.injEq, and_true]
    apply Array.ext
    · simp
    · intro i h1 h2
      simp only [Obj.basis, Array.set!]
      rw [Array.getElem_setIfInBounds]
      split_ifs with h
      · subst h
        have hd' : d < bases.size := hd
        simp [Array.getD_eq_getD_getElem?, hd']
      · rfl

theorem reparamDir_unit (o : Obj K) (d : ℕ) (hd : d < o.bases.size) (hv : (o.basis d).Valid)
    (h0 : (o.basis d).start = 0) (h1 : (o.basis d).stop = 1) : o.reparamDir d 0 1 = .ok o := by
  unfold Obj.reparamDir
  rw [reparam_unit hv h0 h1]
  show Except.ok ({ o with bases := o.bases.set! d (o.basis d) } : Obj K) = _
  rw [set_basis_self o d hd]

/-- The `reparam` stage of `make_splines_identical` is the identity on a pair that already lives on
    `[0,1]` in direction `i`. -/
theorem stageReparam_unit (s : Obj K × Obj K) (i : ℕ) (hi : i ≤ 2) (h1 : i < s.1.bases.size)
    (h2 : i < s.2.bases.size) (hv1 : (s.1.basis i).Valid) (hv2 : (s.2.basis i).Valid)
    (ha1 : (s.1.basis i).start = 0) (hb1 : (s.1.basis i).stop = 1)
    (ha2 : (s.2.basis i).start = 0) (hb2 : (s.2.basis i).stop = 1) :
    stageReparam s i = .ok s := by
  have hcd : ∀ o : Obj K, i < o.bases.size → Splipy.checkDirection (.int i) o.pardimB = .ok i := by
    intro o ho
    have : i < o.pardimB := ho
    unfold Splipy.checkDirection
    interval_cases i
    · simp [this]
    · simp [this]
    · simp [this]
  unfold stageReparam reparamUnitDir
  rw [hcd s.1 h1, hcd s.2 h2]
  simp only [reparamDir_unit s.1 i h1 hv1 ha1 hb1, reparamDir_unit s.2 i h2 hv2 ha2 hb2]

/-- `make_splines_compatible` does nothing to two objects of equal rationality and dimension. -/
theorem makeCompatible_of_eq (s1 s2 : Obj K) (hr : s1.rational = s2.rational)
    (hd : s1.dimension = s2.dimension) : makeCompatible s1 s2 = (s1, s2) := by
  unfold makeCompatible
  by_cases h : s1.rational = true
  · have h2 : s2.rational = true := by rw [← hr]; exact h
    have hf : s2.forceRational = s2 := by unfold Obj.forceRational; simp [h2]
    simp only [h, if_true, hf]
    rw [if_neg (by rw [hd]; exact lt_irrefl _), ← hd, setDimensionTo_self]
  · have h' : s1.rational = false := by simpa using h
    have h2 : s2.rational = false := by rw [← hr]; exact h'
    simp only [h', h2, Bool.false_eq_true, if_false]
    rw [if_neg (by rw [hd]; exact lt_irrefl _), ← hd, setDimensionTo_self]

/-- Zero multiplicities contribute no knots. -/
theorem expand_zeros (u : List K) : expand u (u.map (fun _ => 0)) = [] := by
  induction u with
  | nil => rfl
  | cons x u ih =>
    rw [List.map_cons, expand_cons, ih]
    simp

/-- The clamped basis without interior knots, written over any list of (absent) interior values. -/
theorem openBasis_zeros (p : ℕ) (x0 xl : K) (u : List K) :
    openBasis p (clampedU x0 xl u) (clampedM p (u.map (fun _ => 0)))
      = openBasis p (clampedU x0 xl []) (clampedM p []) := by
  unfold openBasis
  congr 2
  rw [expand_clamped p x0 xl u _ (by simp), expand_clamped p x0 xl [] [] rfl, expand_zeros]
  simp

/-- `BSplineBasis(2)` in the clamped form. -/
theorem linearBasis_eq : (linearBasis : Basis K) = openBasis 2 (clampedU 0 1 []) (clampedM 2 []) := by
  unfold Obj.linearBasis openBasis
  rfl

end C15
end Splipy

namespace Splipy
namespace C15

open C06 C12 Obj Basis

variable {K : Type} [Field K] [LinearOrder K] [IsStrictOrderedRing K] [FloorRing K]

/-- `Rescaled` with `start = 0`, `end = 1` is `SameMap`. -/
theorem rescaled_sameMap_unit {m : ℕ} {d : Fin m} {o o' : Obj K} (h : Rescaled m d 0 1 o o') :
    SameMap m o o' := by
  refine ⟨h.ncomp, fun comp hc s u => ?_⟩
  have := h.eval comp hc s u
  have e : Function.update u d ((u d - 0) / (1 - 0)) = u := by
    funext k
    by_cases hk : k = d
    · subst hk; simp
    · simp [Function.update_of_ne hk]
  rw [e] at this
  exact this

/-- The common-entry list of a direction: values `U`, multiplicities `Ma` in object 1, `Mb` in object 2. -/
def entries (U : List K) (Ma Mb : List ℕ) : List (K × ℕ × ℕ) := List.zip U (List.zip Ma Mb)

theorem entries_fst (U : List K) (Ma Mb : List ℕ) (h1 : Ma.length = U.length) (h2 : Mb.length = U.length) :
    (entries U Ma Mb).map (·.1) = U := by
  unfold entries
  rw [List.map_fst_zip]
  simp [h1, h2]

theorem entries_snd1 (U : List K) (Ma Mb : List ℕ) (h1 : Ma.length = U.length) (h2 : Mb.length = U.length) :
    (entries U Ma Mb).map (·.2.1) = Ma := by
  unfold entries
  have : (List.zip U (List.zip Ma Mb)).map (·.2.1) = ((List.zip U (List.zip Ma Mb)).map (·.2)).map (·.1) := by
    rw [List.map_map]; rfl
  rw [this, List.map_snd_zip (by simp [h1, h2]), List.map_fst_zip (by simp [h1, h2])]

theorem entries_snd2 (U : List K) (Ma Mb : List ℕ) (h1 : Ma.length = U.length) (h2 : Mb.length = U.length) :
    (entries U Ma Mb).map (·.2.2) = Mb := by
  unfold entries
  have : (List.zip U (List.zip Ma Mb)).map (·.2.2) = ((List.zip U (List.zip Ma Mb)).map (·.2)).map (·.2) := by
    rw [List.map_map]; rfl
  rw [this, List.map_snd_zip (by simp [h1, h2]), List.map_snd_zip (by simp [h1, h2])]

/-- Multiplicities of the union after raising orders `p1, p2` to `max p1 p2`. -/
def unionMult (p1 p2 : ℕ) (Ma Mb : List ℕ) : List ℕ :=
  List.zipWith (fun a b => max (raisedMult (max p1 p2 - p1) a) (raisedMult (max p1 p2 - p2) b)) Ma Mb

theorem entries_union (p1 p2 : ℕ) (U : List K) (Ma Mb : List ℕ) (h1 : Ma.length = U.length)
    (h2 : Mb.length = U.length) :
    (entries U Ma Mb).map (fun e => max (raisedMult (max p1 p2 - p1) e.2.1) (raisedMult (max p1 p2 - p2) e.2.2))
      = unionMult p1 p2 Ma Mb := by
  unfold entries unionMult
  induction U generalizing Ma Mb with
  | nil =>
    have : Ma = [] := List.eq_nil_of_length_eq_zero (by simpa using h1)
    subst this; rfl
  | cons x U ih =>
    cases Ma with
    | nil => simp at h1
    | cons a Ma =>
      cases Mb with
      | nil => simp at h2
      | cons b Mb =>
        simp only [List.zip_cons_cons, List.map_cons, List.zipWith_cons_cons]
        rw [ih Ma Mb (by simpa using h1) (by simpa using h2)]

/-- **One direction of `make_splines_identical` for two surfaces that already live on `[0,1]`** in that
    direction, clamped, in common-entry form (`U` = the union of interior knot values, `Ma`/`Mb` the
    multiplicities in the two objects, `0` = absent).  Side conditions as in `C12_open_surfaces`, needed
    only for an object whose order is raised.  Both results are the same maps as the inputs. -/
theorem identicalDir_unit_surface (tol : K) (htol : 0 < tol) (p1 p2 : ℕ) (hp1 : 2 ≤ p1) (hp2 : 2 ≤ p2)
    (U : List K) (Ma Mb : List ℕ) (hla : Ma.length = U.length) (hlb : Mb.length = U.length)
    (hma : ∀ x ∈ Ma, x ≤ p1 - 1) (hmb : ∀ x ∈ Mb, x ≤ p2 - 1)
    (hgap : Splipy.Separated (2 * ((max p1 p2 - 1 : ℕ) : K) * tol) (clampedU 0 1 U))
    (i : Fin 2) (s : Obj K × Obj K) (hw1 : C06.WF s.1 2) (hw2 : C06.WF s.2 2)
    (hb1 : s.1.basis i = openBasis p1 (clampedU 0 1 U) (clampedM p1 Ma))
    (hb2 : s.2.basis i = openBasis p2 (clampedU 0 1 U) (clampedM p2 Mb))
    (hother₁ : p1 < max p1 p2 → ∀ k : Fin 2, k ≠ i → GrevilleOK tol (s.1.basis k))
    (hother₂ : p2 < max p1 p2 → ∀ k : Fin 2, k ≠ i → GrevilleOK tol (s.2.basis k))
    (hguard₁ : p1 < max p1 p2 → Obj.raiseGuard tol s.1.bases.toList = .ok true)
    (hguard₂ : p2 < max p1 p2 → Obj.raiseGuard tol s.2.bases.toList = .ok true) :
    ∃ r, identicalDir tol false false s i = .ok r
      ∧ r.1.basis i = openBasis (max p1 p2) (clampedU 0 1 U) (clampedM (max p1 p2) (unionMult p1 p2 Ma Mb))
      ∧ r.2.basis i = r.1.basis i
      ∧ (∀ k : Fin 2, k ≠ i → r.1.basis k = s.1.basis k ∧ r.2.basis k = s.2.basis k)
      ∧ SameMap 2 s.1 r.1 ∧ SameMap 2 s.2 r.2 ∧ C06.WF r.1 2 ∧ C06.WF r.2 2 := by
  set L := entries U Ma Mb with hL
  have e0 : L.map (·.1) = U := entries_fst U Ma Mb hla hlb
  have e1 : L.map (·.2.1) = Ma := entries_snd1 U Ma Mb hla hlb
  have e2 : L.map (·.2.2) = Mb := entries_snd2 U Ma Mb hla hlb
  have hm : ∀ e ∈ L, e.2.1 ≤ p1 - 1 ∧ e.2.2 ≤ p2 - 1 := by
    intro e he
    exact ⟨hma _ (by rw [← e1]; exact List.mem_map_of_mem he), hmb _ (by rw [← e2]; exact List.mem_map_of_mem he)⟩
  have hfac : tol ≤ 2 * ((max p1 p2 - 1 : ℕ) : K) * tol := by
    have h : (1 : K) ≤ ((max p1 p2 - 1 : ℕ) : K) := by
      have : 1 ≤ max p1 p2 - 1 := by have := le_max_left p1 p2; omega
      exact_mod_cast this
    nlinarith
  have hi2 : (i : ℕ) < 2 := i.isLt
  have hst1 : (s.1.basis i).start = 0 ∧ (s.1.basis i).stop = 1 := by
    rw [hb1]; exact ⟨clamped_start p1 (by omega) 0 1 U Ma, clamped_stop p1 (by omega) 0 1 U Ma hla.symm⟩
  have hst2 : (s.2.basis i).start = 0 ∧ (s.2.basis i).stop = 1 := by
    rw [hb2]; exact ⟨clamped_start p2 (by omega) 0 1 U Mb, clamped_stop p2 (by omega) 0 1 U Mb hlb.symm⟩
  have ha : stageReparam s i = .ok s :=
    stageReparam_unit s i (by omega) (by rw [hw1.size]; exact hi2) (by rw [hw2.size]; exact hi2)
      (hw1.valid i) (hw2.valid i) hst1.1 hst1.2 hst2.1 hst2.2
  have hgap' : Splipy.Separated (2 * ((max p1 p2 - 1 : ℕ) : K) * tol) (clampedU 0 1 (L.map (·.1))) := by
    rw [e0]; exact hgap
  obtain ⟨r, hr, hrb, hrbb, hk, hre1, hre2, hwr1, hwr2⟩ :=
    identicalDir_open_wf (m := 2) tol htol false false p1 p2 hp1 hp2 0 1 L (separated_mono hfac hgap') i
      (by omega) s s hw1 hw2 ha (by rw [e0, e1]; exact hb1) (by rw [e0, e2]; exact hb2)
      (fun h => raisesTo_surface tol htol i p1 (max p1 p2) hp1 (le_max_left _ _) 0 1 L (·.1) (·.2.1)
        (fun e he => (hm e he).1) hgap' s.1 hw1 (by rw [e0, e1]; exact hb1) (hother₁ h) (hguard₁ h))
      (fun h => raisesTo_surface tol htol i p2 (max p1 p2) hp2 (le_max_right _ _) 0 1 L (·.1) (·.2.2)
        (fun e he => (hm e he).2) hgap' s.2 hw2 (by rw [e0, e2]; exact hb2) (hother₂ h) (hguard₂ h))
  rw [hst1.1, hst1.2] at hre1
  rw [hst2.1, hst2.2] at hre2
  refine ⟨r, hr, ?_, hrbb, hk, rescaled_sameMap_unit hre1, rescaled_sameMap_unit hre2, hwr1, hwr2⟩
  rw [hrb, e0, entries_union p1 p2 U Ma Mb hla hlb]

end C15
end Splipy

namespace Splipy
namespace C15

open C06 C12 Obj Basis

variable {K : Type} [Field K] [LinearOrder K] [IsStrictOrderedRing K] [FloorRing K]

theorem wf_pardim {m : ℕ} {o : Obj K} (hw : C06.WF o m) : o.pardim = m := by
  unfold Obj.pardim
  rw [hw.shape, midx_length]
  omega

/-- `identicalDir` keeps rationality and the number of components of both objects of a well-formed
    pair (same rationality / dimension stay the same). -/
theorem identicalDir_keeps {tol : K} {m : ℕ} {s r : Obj K × Obj K} {i : ℕ} (hw1 : C06.WF s.1 m)
    (hw2 : C06.WF s.2 m) (h : identicalDir tol false false s i = .ok r)
    (hs1 : SameMap m s.1 r.1) (hs2 : SameMap m s.2 r.2) (hr : s.1.rational = s.2.rational)
    (hd : s.1.dimension = s.2.dimension) :
    r.1.rational = r.2.rational ∧ r.1.dimension = r.2.dimension ∧ r.1.rational = s.1.rational
      ∧ r.1.ncomp = s.1.ncomp ∧ r.2.ncomp = s.2.ncomp := by
  obtain ⟨o1, o2⟩ := identicalDir_other (fun h => by cases h) (fun _ => by rw [hw1.size, wf_pardim hw1])
    (fun h => by cases h) (fun _ => by rw [hw2.size, wf_pardim hw2]) h
  have e1 : r.1.rational = s.1.rational := o1.rational
  have e2 : r.2.rational = s.2.rational := o2.rational
  refine ⟨by rw [e1, e2, hr], ?_, e1, hs1.ncomp, hs2.ncomp⟩
  unfold Obj.dimension at hd ⊢
  rw [hs1.ncomp, hs2.ncomp, e1, e2]
  exact hd

/-- **`make_splines_identical(s1, s2)` (all directions) for two surfaces on the unit square**, both
    directions clamped in common-entry form (`U i`, `Ma i`, `Mb i`), same rationality and dimension.
    Succeeds; both results have, in each direction, the union basis; both are the same maps as the
    inputs and well formed. -/
theorem makeIdentical_unit_surfaces (tol : K) (htol : 0 < tol) (p1 p2 : Fin 2 → ℕ)
    (hp1 : ∀ i, 2 ≤ p1 i) (hp2 : ∀ i, 2 ≤ p2 i) (U : Fin 2 → List K) (Ma Mb : Fin 2 → List ℕ)
    (hla : ∀ i, (Ma i).length = (U i).length) (hlb : ∀ i, (Mb i).length = (U i).length)
    (hma : ∀ i, ∀ x ∈ Ma i, x ≤ p1 i - 1) (hmb : ∀ i, ∀ x ∈ Mb i, x ≤ p2 i - 1)
    (hgap : ∀ i, Splipy.Separated (2 * ((max (p1 i) (p2 i) - 1 : ℕ) : K) * tol) (clampedU 0 1 (U i)))
    (s1 s2 : Obj K) (hw1 : C06.WF s1 2) (hw2 : C06.WF s2 2) (hr : s1.rational = s2.rational)
    (hd : s1.dimension = s2.dimension)
    (hb1 : ∀ i : Fin 2, s1.basis i = openBasis (p1 i) (clampedU 0 1 (U i)) (clampedM (p1 i) (Ma i)))
    (hb2 : ∀ i : Fin 2, s2.basis i = openBasis (p2 i) (clampedU 0 1 (U i)) (clampedM (p2 i) (Mb i)))
    -- side conditions for the raises (needed only when an order is actually raised)
    (hG1 : ∀ i : Fin 2, p1 i < max (p1 i) (p2 i) → ∀ B : Basis K,
      (B = s1.basis (1 - (i : ℕ)) ∨ B = openBasis (max (p1 0) (p2 0)) (clampedU 0 1 (U 0))
          (clampedM (max (p1 0) (p2 0)) (unionMult (p1 0) (p2 0) (Ma 0) (Mb 0)))) → GrevilleOK tol B)
    (hG2 : ∀ i : Fin 2, p2 i < max (p1 i) (p2 i) → ∀ B : Basis K,
      (B = s2.basis (1 - (i : ℕ)) ∨ B = openBasis (max (p1 0) (p2 0)) (clampedU 0 1 (U 0))
          (clampedM (max (p1 0) (p2 0)) (unionMult (p1 0) (p2 0) (Ma 0) (Mb 0)))) → GrevilleOK tol B)
    (hg1 : ∀ i : Fin 2, p1 i < max (p1 i) (p2 i) → ∀ o : Obj K, (o.basis 0 = s1.basis 0 ∨
        o.basis 0 = openBasis (max (p1 0) (p2 0)) (clampedU 0 1 (U 0))
          (clampedM (max (p1 0) (p2 0)) (unionMult (p1 0) (p2 0) (Ma 0) (Mb 0)))) → o.bases.size = 2 →
        Obj.raiseGuard tol o.bases.toList = .ok true)
    (hg2 : ∀ i : Fin 2, p2 i < max (p1 i) (p2 i) → ∀ o : Obj K, (o.basis 0 = s2.basis 0 ∨
        o.basis 0 = openBasis (max (p1 0) (p2 0)) (clampedU 0 1 (U 0))
          (clampedM (max (p1 0) (p2 0)) (unionMult (p1 0) (p2 0) (Ma 0) (Mb 0)))) → o.bases.size = 2 →
        Obj.raiseGuard tol o.bases.toList = .ok true) :
    ∃ r, makeIdentical tol false false s1 s2 none = .ok r
      ∧ (∀ i : Fin 2, r.1.basis i = openBasis (max (p1 i) (p2 i)) (clampedU 0 1 (U i))
            (clampedM (max (p1 i) (p2 i)) (unionMult (p1 i) (p2 i) (Ma i) (Mb i))))
      ∧ (∀ i : Fin 2, r.2.basis i = r.1.basis i)
      ∧ SameMap 2 s1 r.1 ∧ SameMap 2 s2 r.2 ∧ C06.WF r.1 2 ∧ C06.WF r.2 2
      ∧ r.1.rational = s1.rational ∧ r.2.rational = r.1.rational ∧ r.1.dimension = r.2.dimension := by
  have hcomp : makeCompatible s1 s2 = (s1, s2) := makeCompatible_of_eq s1 s2 hr hd
  -- direction 0
  obtain ⟨r0, hr0, hb0, hbb0, hk0, hs01, hs02, hw01, hw02⟩ :=
    identicalDir_unit_surface tol htol (p1 0) (p2 0) (hp1 0) (hp2 0) (U 0) (Ma 0) (Mb 0) (hla 0) (hlb 0)
      (hma 0) (hmb 0) (hgap 0) 0 (s1, s2) hw1 hw2 (hb1 0) (hb2 0)
      (fun h k hk => hG1 0 h _ (Or.inl (by
        have : k = 1 := by
          rcases k with ⟨k, hk2⟩
          interval_cases k
          · exact absurd rfl hk
          · rfl
        subst this; rfl)))
      (fun h k hk => hG2 0 h _ (Or.inl (by
        have : k = 1 := by
          rcases k with ⟨k, hk2⟩
          interval_cases k
          · exact absurd rfl hk
          · rfl
        subst this; rfl)))
      (fun h => hg1 0 h s1 (Or.inl rfl) hw1.size) (fun h => hg2 0 h s2 (Or.inl rfl) hw2.size)
  obtain ⟨k1, k2, k3, k4, k5⟩ := identicalDir_keeps hw1 hw2 hr0 hs01 hs02 hr hd
  have hcomp0 : makeCompatible r0.1 r0.2 = r0 := makeCompatible_of_eq r0.1 r0.2 k1 k2
  have h1ne : (1 : Fin 2) ≠ 0 := by decide
  -- direction 1
  have hb11 : r0.1.basis (1 : Fin 2) = openBasis (p1 1) (clampedU 0 1 (U 1)) (clampedM (p1 1) (Ma 1)) := by
    rw [(hk0 1 h1ne).1]; exact hb1 1
  have hb12 : r0.2.basis (1 : Fin 2) = openBasis (p2 1) (clampedU 0 1 (U 1)) (clampedM (p2 1) (Mb 1)) := by
    rw [(hk0 1 h1ne).2]; exact hb2 1
  have hb00 : r0.2.basis 0 = openBasis (max (p1 0) (p2 0)) (clampedU 0 1 (U 0))
      (clampedM (max (p1 0) (p2 0)) (unionMult (p1 0) (p2 0) (Ma 0) (Mb 0))) := by
    have := hbb0; rw [hb0] at this; exact this
  obtain ⟨r1, hr1, hb1', hbb1, hk1, hs11, hs12, hw11, hw12⟩ :=
    identicalDir_unit_surface tol htol (p1 1) (p2 1) (hp1 1) (hp2 1) (U 1) (Ma 1) (Mb 1) (hla 1) (hlb 1)
      (hma 1) (hmb 1) (hgap 1) 1 r0 hw01 hw02 hb11 hb12
      (fun h k hk => hG1 1 h _ (Or.inr (by
        have : k = 0 := by
          rcases k with ⟨k, hk2⟩
          interval_cases k
          · rfl
          · exact absurd rfl hk
        subst this; exact hb0)))
      (fun h k hk => hG2 1 h _ (Or.inr (by
        have : k = 0 := by
          rcases k with ⟨k, hk2⟩
          interval_cases k
          · rfl
          · exact absurd rfl hk
        subst this; exact hb00)))
      (fun h => hg1 1 h r0.1 (Or.inr hb0) hw01.size) (fun h => hg2 1 h r0.2 (Or.inr hb00) hw02.size)
  obtain ⟨l1, l2, l3, l4, l5⟩ := identicalDir_keeps hw01 hw02 hr1 hs11 hs12 k1 k2
  have h0ne : (0 : Fin 2) ≠ 1 := by decide
  refine ⟨r1, ?_, ?_, ?_, hs01.trans hs11, hs02.trans hs12, hw11, hw12, l3.trans k3, ?_, l2⟩
  · -- the call
    show identicalLoop tol false false (List.range (makeCompatible s1 s2).1.pardimB) (makeCompatible s1 s2) = _
    rw [hcomp]
    have hp : (s1, s2).1.pardimB = 2 := hw1.size
    rw [hp]
    have hr2 : List.range 2 = [0, 1] := rfl
    rw [hr2]
    have hcd0 : Splipy.checkDirection (.int ((0 : ℕ) : Int)) 2 = .ok 0 := by decide
    have hcd1 : Splipy.checkDirection (.int ((1 : ℕ) : Int)) 2 = .ok 1 := by decide
    have hp0 : r0.1.pardimB = 2 := hw01.size
    have hr0' : identicalDir tol false false (s1, s2) 0 = .ok r0 := hr0
    have hr1' : identicalDir tol false false r0 1 = .ok r1 := hr1
    simp only [identicalLoop, makeIdenticalDir, hcomp, hp, hcd0, hr0', hcomp0, hp0, hcd1, hr1']
  · intro i
    rcases i with ⟨i, hi⟩
    interval_cases i
    · show r1.1.basis (0 : Fin 2) = _
      rw [(hk1 0 h0ne).1]; exact hb0
    · exact hb1'
  · intro i
    rcases i with ⟨i, hi⟩
    interval_cases i
    · show r1.2.basis (0 : Fin 2) = r1.1.basis (0 : Fin 2)
      rw [(hk1 0 h0ne).1, (hk1 0 h0ne).2]; exact hbb0
    · exact hbb1
  · rw [← l1]

end C15
end Splipy
