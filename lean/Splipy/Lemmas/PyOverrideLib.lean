import Splipy.Lemmas.PyObjectLib

/-!
# numpy primitives used by the translated `Curve` / `Surface` overrides (work package t4)

Only what `Lemmas/PyObjectLib.lean` (t3) lacks.  `harness/translate/override_translate.py` compiles
`Curve.evaluate`, `Curve.derivative`, `Surface.derivative`, … into `Splipy/Generated/PyOverride.lean` over the
primitives of t3 and the ones below; `Lemmas/PyOverrideEq.lean` proves the result equal to the hand model.

Reading of the numpy operations (the interface assumptions of t3 apply: arrays are `Tensor`s, views are values,
shape-mismatch errors of arithmetic are not modelled, `x / 0 = 0`):
* `N @ t` for a 2-d `N` (a `Mat`; a `scipy.sparse` matrix is its dense matrix) and a 2-d array `t` is the matrix
  product; other ranks of `t` are outside the model (`.other`);
* `t[:, i]`, `t[:, :, i]` (`getLastND nd`): `IndexError` when `t` has fewer than `nd` axes (numpy: "too many
  indices"), the component `i` of the last axis when it has exactly `nd`, outside the model otherwise;
* `t[i, :]` on a 2-d array: row `i` (`IndexError` out of range);
* `a + b`, `x * a` element-wise (`tAdd`, `tSMul`); `np.zeros(shape)`;
* for `Surface.const_par_curve`: `min(c, k)` with `c` possibly `inf`, int `%`, `M[i, :]`, `tensordot` of a vector,
  the `Curve(..)` constructor (see the docstrings).
-/

namespace Splipy.PyV

open Splipy Splipy.PyO

variable {K : Type} [Field K] [LinearOrder K]

/-- `N @ t` for a 2-d array `t`. -/
def npMatmulMT (N : Mat K) (t : Tensor K) : PyM (Tensor K) :=
  match t.shape with
  | [a, c] => .ok { shape := [N.size, c],
                    data := Array.ofFn (n := N.size * c) (fun k =>
                      (List.range a).foldl
                        (fun acc j => acc + (N.getD (k.val / c) #[]).getD j 0 * t.get (j * c + k.val % c)) 0) }
  | _ => .error .other

/-- Element-wise `a + b` on arrays of the same shape. -/
def tAdd (a b : Tensor K) : Tensor K :=
  { shape := a.shape, data := Array.ofFn (n := a.data.size) (fun k => a.get k.val + b.get k.val) }

/-- `x * a` (a number times an array). -/
def tSMul (x : K) (a : Tensor K) : Tensor K :=
  { shape := a.shape, data := Array.ofFn (n := a.data.size) (fun k => x * a.get k.val) }

/-- `t[:, …, :, i]` with `nd - 1` colons. -/
def getLastND (nd : ℕ) (t : Tensor K) (i : Int) : PyM (Tensor K) :=
  if t.shape.length < nd then .error .index
  else if t.shape.length = nd then getLast t i
  else .error .other

/-- `t[:, …, :, i] = v` with `nd - 1` colons. -/
def setLastND (nd : ℕ) (t : Tensor K) (i : Int) (v : Tensor K) : PyM (Tensor K) :=
  if t.shape.length < nd then .error .index
  else if t.shape.length = nd then setLast t i v
  else .error .other

/-- `t[i, :]` on a 2-d array. -/
def getRow2 (t : Tensor K) (i : Int) : PyM (Tensor K) :=
  match t.shape with
  | [a, c] =>
    (match normIdx a i with
     | none => .error .index
     | some r => .ok { shape := [c], data := Array.ofFn (n := c) (fun k => t.get (r * c + k.val)) })
  | [] => .error .index
  | [_] => .error .index
  | _ => .error .other

/-- `np.zeros(shape)`. -/
def npZeros (shape : List Int) : PyM (Tensor K) :=
  if shape.any (· < 0) then .error .value
  else .ok { shape := shape.map Int.toNat, data := Array.replicate (Tensor.prod (shape.map Int.toNat)) 0 }

/-! ## `Surface.const_par_curve` -/

/-- `min(c, k)` for `c` an int or `np.inf` (`none`): `min(inf, k) = k`. -/
def minOptInt : Option Int → Int → Int
  | none, k => k
  | some c, k => min c k

/-- `a % n` on Python ints (`ZeroDivisionError` for `n = 0`; the result has the sign of `n`). -/
def pyModI (a n : Int) : PyM Int := if n = 0 then .error .zeroDiv else .ok (Int.fmod a n)

/-- `M[i, :]` on a 2-d array: row `i` (`IndexError` out of range). -/
def matRow (M : Mat K) (i : Int) : PyM (List K) :=
  match normIdx M.size i with
  | none => .error .index
  | some r => .ok (M.getD r #[]).toList

/-- `np.tensordot(v, t, axes=(0, axis))` for a 1-d `v`: the axis is contracted away, the other axes keep their
    order.  In (outer, inner) coordinates around `axis` (C order): entry `(a, i)` is `Σ_j v[j] · t[a, j, i]`. -/
def npTensordotVec (v : List K) (t : Tensor K) (axis : Int) : PyM (Tensor K) :=
  match normIdx t.shape.length axis with
  | none => .error .index
  | some ax =>
    .ok { shape := t.shape.eraseIdx ax,
          data := Array.ofFn (n := (Tensor.split3 t.shape ax).1 * (Tensor.split3 t.shape ax).2.2) (fun k =>
            (List.range (Tensor.split3 t.shape ax).2.1).foldl
              (fun acc j => acc + v.getD j 0 *
                t.at3 ax (k.val / (Tensor.split3 t.shape ax).2.2) j (k.val % (Tensor.split3 t.shape ax).2.2)) 0) }

/-- `Curve(basis, cp, rational)` for an existing basis and an array `cp` whose last axis holds the components:
    `SplineObject.__init__` stores `reshape(cp, (n,), order='F', ncomps=cp.shape[-1])`, i.e. the same data with shape
    `(n, ncomps)` — `ValueError` when the number of entries is not `n · ncomps` (`n = basis.num_functions()`);
    `dimension = cp.shape[-1] - rational`.  (The constructor clones the basis: the same value.) -/
def mkCurve (b : Basis K) (cp : Tensor K) (rational : Bool) : PyM (PyObj K) :=
  if cp.data.size = b.numFunctions * lastN cp then
    .ok { bases := #[b], controlpoints := { shape := [b.numFunctions, lastN cp], data := cp.data },
          dimension := (lastN cp : Int) - b2i rational, rational := rational }
  else .error .value

end Splipy.PyV
