import Mathlib.Tactic.Ring
import Mathlib.Tactic.FieldSimp
import Splipy.Model.RationalDeriv

/-!
# L12 – correctness of the rational-derivative closed forms

"`x = n / W` to order 3" is expressed by the Leibniz relations between the jets of the
homogeneous numerator `n`, of the weight `W` (with `W ≠ 0` at the point) and of the quotient `x`:
`n = x * W`, `n' = x' W + x W'`, … .  Under these relations every closed form coded in
`Curve.derivative`, `Surface.derivative` and `SplineObject.derivative` returns the corresponding
entry of the jet of `x`.  All statements hold over an arbitrary field.
-/

namespace Splipy.RatDeriv

variable {K : Type} [Field K]

/-! ## Curves -/

/-- `SplineObject.derivative` (first order quotient rule). -/
theorem first_correct {x0 x1 n0 n1 W W1 : K} (hW : W ≠ 0)
    (h0 : n0 = x0 * W) (h1 : n1 = x1 * W + x0 * W1) :
    first n0 n1 W W1 = x1 := by
  subst h0 h1
  unfold first
  field_simp
  ring

/-- What the generic code returns when asked for derivative order `0` of a rational object:
then `result = non_derivative`, so `n1 = n0` and `Wd = W`, and the quotient rule yields `0`
instead of the point `n0 / W`. -/
theorem first_order_zero {n0 W : K} (hW : W ≠ 0) : first n0 n0 W W = 0 := by
  unfold first
  field_simp
  ring

/-- `Curve.derivative`, `d = 2`. -/
theorem curveD2_correct {x0 x1 x2 n0 n1 n2 W W1 W2 : K} (hW : W ≠ 0)
    (h0 : n0 = x0 * W) (h1 : n1 = x1 * W + x0 * W1)
    (h2 : n2 = x2 * W + 2 * x1 * W1 + x0 * W2) :
    curveD2 n0 n1 n2 W W1 W2 = x2 := by
  subst h0 h1 h2
  unfold curveD2
  field_simp
  ring

/-- `Curve.derivative`, `d = 3`. -/
theorem curveD3_correct {x0 x1 x2 x3 n0 n1 n2 n3 W W1 W2 W3 : K} (hW : W ≠ 0)
    (h0 : n0 = x0 * W) (h1 : n1 = x1 * W + x0 * W1)
    (h2 : n2 = x2 * W + 2 * x1 * W1 + x0 * W2)
    (h3 : n3 = x3 * W + 3 * x2 * W1 + 3 * x1 * W2 + x0 * W3) :
    curveD3 n0 n1 n2 n3 W W1 W2 W3 = x3 := by
  subst h0 h1 h2 h3
  simp only [curveD3]
  field_simp
  ring

/-! ## Surfaces -/

/-- The ten Leibniz relations `n_{ab} = Σ_{i≤a} Σ_{j≤b} C(a,i) C(b,j) x_{ij} W_{a-i,b-j}`,
`a + b ≤ 3`, i.e. "`n = x * W` as jets of order 3". -/
structure SurfLeibniz (n x W : SurfJet K) : Prop where
  h00 : n.f00 = x.f00 * W.f00
  h10 : n.f10 = x.f10 * W.f00 + x.f00 * W.f10
  h01 : n.f01 = x.f01 * W.f00 + x.f00 * W.f01
  h11 : n.f11 = x.f11 * W.f00 + x.f10 * W.f01 + x.f01 * W.f10 + x.f00 * W.f11
  h20 : n.f20 = x.f20 * W.f00 + 2 * x.f10 * W.f10 + x.f00 * W.f20
  h02 : n.f02 = x.f02 * W.f00 + 2 * x.f01 * W.f01 + x.f00 * W.f02
  h21 : n.f21 = x.f21 * W.f00 + x.f20 * W.f01 + 2 * x.f11 * W.f10 + 2 * x.f10 * W.f11
          + x.f01 * W.f20 + x.f00 * W.f21
  h12 : n.f12 = x.f12 * W.f00 + x.f02 * W.f10 + 2 * x.f11 * W.f01 + 2 * x.f01 * W.f11
          + x.f10 * W.f02 + x.f00 * W.f12
  h30 : n.f30 = x.f30 * W.f00 + 3 * x.f20 * W.f10 + 3 * x.f10 * W.f20 + x.f00 * W.f30
  h03 : n.f03 = x.f03 * W.f00 + 3 * x.f02 * W.f01 + 3 * x.f01 * W.f02 + x.f00 * W.f03

open Surf

section
variable {n x W : SurfJet K}

/-- `derivs == (1,0)` closed form (dead code in Python, still correct). -/
theorem surfD_10 (hW : W.f00 ≠ 0)
    (h00 : n.f00 = x.f00 * W.f00)
    (h10 : n.f10 = x.f10 * W.f00 + x.f00 * W.f10) :
    surfD10 n W = x.f10 := by
  simp only [surfD10, H1, h00, h10]
  field_simp
  ring

/-- `derivs == (0,1)` closed form (dead code in Python, still correct). -/
theorem surfD_01 (hW : W.f00 ≠ 0)
    (h00 : n.f00 = x.f00 * W.f00)
    (h01 : n.f01 = x.f01 * W.f00 + x.f00 * W.f01) :
    surfD01 n W = x.f01 := by
  simp only [surfD01, H2, h00, h01]
  field_simp
  ring

/-- `derivs == (1,1)`. -/
theorem surfD_11 (hW : W.f00 ≠ 0)
    (h00 : n.f00 = x.f00 * W.f00)
    (h10 : n.f10 = x.f10 * W.f00 + x.f00 * W.f10)
    (h01 : n.f01 = x.f01 * W.f00 + x.f00 * W.f01)
    (h11 : n.f11 = x.f11 * W.f00 + x.f10 * W.f01 + x.f01 * W.f10 + x.f00 * W.f11) :
    surfD11 n W = x.f11 := by
  simp only [surfD11, dH1dv, H1, h00, h10, h01, h11]
  field_simp
  ring

/-- `derivs == (2,0)`. -/
theorem surfD_20 (hW : W.f00 ≠ 0)
    (h00 : n.f00 = x.f00 * W.f00)
    (h10 : n.f10 = x.f10 * W.f00 + x.f00 * W.f10)
    (h20 : n.f20 = x.f20 * W.f00 + 2 * x.f10 * W.f10 + x.f00 * W.f20) :
    surfD20 n W = x.f20 := by
  simp only [surfD20, G1, dH1du, H1, h00, h10, h20]
  field_simp
  ring

/-- `derivs == (0,2)`. -/
theorem surfD_02 (hW : W.f00 ≠ 0)
    (h00 : n.f00 = x.f00 * W.f00)
    (h01 : n.f01 = x.f01 * W.f00 + x.f00 * W.f01)
    (h02 : n.f02 = x.f02 * W.f00 + 2 * x.f01 * W.f01 + x.f00 * W.f02) :
    surfD02 n W = x.f02 := by
  simp only [surfD02, G2, dH2dv, H2, h00, h01, h02]
  field_simp
  ring

/-- `derivs == (3,0)`. -/
theorem surfD_30 (hW : W.f00 ≠ 0)
    (h00 : n.f00 = x.f00 * W.f00)
    (h10 : n.f10 = x.f10 * W.f00 + x.f00 * W.f10)
    (h20 : n.f20 = x.f20 * W.f00 + 2 * x.f10 * W.f10 + x.f00 * W.f20)
    (h30 : n.f30 = x.f30 * W.f00 + 3 * x.f20 * W.f10 + 3 * x.f10 * W.f20 + x.f00 * W.f30) :
    surfD30 n W = x.f30 := by
  simp only [surfD30, dG1du, d2H1du, G1, dH1du, H1, h00, h10, h20, h30]
  field_simp
  ring

/-- `derivs == (0,3)`. -/
theorem surfD_03 (hW : W.f00 ≠ 0)
    (h00 : n.f00 = x.f00 * W.f00)
    (h01 : n.f01 = x.f01 * W.f00 + x.f00 * W.f01)
    (h02 : n.f02 = x.f02 * W.f00 + 2 * x.f01 * W.f01 + x.f00 * W.f02)
    (h03 : n.f03 = x.f03 * W.f00 + 3 * x.f02 * W.f01 + 3 * x.f01 * W.f02 + x.f00 * W.f03) :
    surfD03 n W = x.f03 := by
  simp only [surfD03, dG2dv, d2H2dv, G2, dH2dv, H2, h00, h01, h02, h03]
  field_simp
  ring

/-- `derivs == (2,1)`. -/
theorem surfD_21 (hW : W.f00 ≠ 0)
    (h00 : n.f00 = x.f00 * W.f00)
    (h10 : n.f10 = x.f10 * W.f00 + x.f00 * W.f10)
    (h01 : n.f01 = x.f01 * W.f00 + x.f00 * W.f01)
    (h11 : n.f11 = x.f11 * W.f00 + x.f10 * W.f01 + x.f01 * W.f10 + x.f00 * W.f11)
    (h20 : n.f20 = x.f20 * W.f00 + 2 * x.f10 * W.f10 + x.f00 * W.f20)
    (h21 : n.f21 = x.f21 * W.f00 + x.f20 * W.f01 + 2 * x.f11 * W.f10 + 2 * x.f10 * W.f11
          + x.f01 * W.f20 + x.f00 * W.f21) :
    surfD21 n W = x.f21 := by
  simp only [surfD21, dG1dv, d2H1duv, G1, dH1du, dH1dv, H1, h00, h10, h01, h11, h20, h21]
  field_simp
  ring

/-- `derivs == (1,2)`. -/
theorem surfD_12 (hW : W.f00 ≠ 0)
    (h00 : n.f00 = x.f00 * W.f00)
    (h10 : n.f10 = x.f10 * W.f00 + x.f00 * W.f10)
    (h01 : n.f01 = x.f01 * W.f00 + x.f00 * W.f01)
    (h11 : n.f11 = x.f11 * W.f00 + x.f10 * W.f01 + x.f01 * W.f10 + x.f00 * W.f11)
    (h02 : n.f02 = x.f02 * W.f00 + 2 * x.f01 * W.f01 + x.f00 * W.f02)
    (h12 : n.f12 = x.f12 * W.f00 + x.f02 * W.f10 + 2 * x.f11 * W.f01 + 2 * x.f01 * W.f11
          + x.f10 * W.f02 + x.f00 * W.f12) :
    surfD12 n W = x.f12 := by
  simp only [surfD12, dG2du, d2H2duv, G2, dH2dv, dH2du, H2, h00, h10, h01, h11, h02, h12]
  field_simp
  ring

/-- Summary: whatever `Surface.derivative` returns for a rational surface (total order 1, 2, 3)
is the corresponding partial derivative of the quotient. -/
theorem surfD_correct (hW : W.f00 ≠ 0) (h : SurfLeibniz n x W) (du dv : ℕ) (y : K)
    (hy : surfD n W du dv = some y) : y = x.get du dv := by
  obtain ⟨h00, h10, h01, h11, h20, h02, h21, h12, h30, h03⟩ := h
  unfold surfD at hy
  split at hy <;> simp only [Option.some.injEq, reduceCtorEq] at hy <;> subst hy <;>
    simp only [SurfJet.get]
  · exact first_correct hW h00 h10
  · exact first_correct hW h00 h01
  · exact surfD_11 hW h00 h10 h01 h11
  · exact surfD_20 hW h00 h10 h20
  · exact surfD_02 hW h00 h01 h02
  · exact surfD_30 hW h00 h10 h20 h30
  · exact surfD_03 hW h00 h01 h02 h03
  · exact surfD_21 hW h00 h10 h01 h11 h20 h21
  · exact surfD_12 hW h00 h10 h01 h11 h02 h12

/-- `surfD` is defined exactly on the nine multi-indices of total order 1, 2, 3. -/
theorem surfD_isSome_iff (du dv : ℕ) :
    (surfD n W du dv).isSome ↔ 1 ≤ du + dv ∧ du + dv ≤ 3 := by
  rcases du with _ | _ | _ | _ | du <;> rcases dv with _ | _ | _ | _ | dv <;>
    simp [surfD] <;> omega

end

end Splipy.RatDeriv
