import Splipy.Lemmas.C04Seq

/-!
# C04 helper lemmas, part 5: `Tensor.applyAxis` acts fibre by fibre

`applyAxis M t axis` (the model of `np.tensordot(C, cps, axes=(1, direction))` + `transpose_fix`)
replaces every 1-D fibre of `t` along `axis` by `M` applied to it.
-/

namespace Splipy
namespace C04

set_option linter.unusedSectionVars false

variable {K : Type} [Field K] [LinearOrder K]

theorem flat_lt {o m inn a r i : ℕ} (ha : a < o) (hr : r < m) (hi : i < inn) :
    (a * m + r) * inn + i < o * m * inn := by
  have h1 : a * m + r + 1 ≤ o * m := by
    calc a * m + r + 1 ≤ a * m + m := by omega
      _ = (a + 1) * m := by ring
      _ ≤ o * m := Nat.mul_le_mul_right m ha
  calc (a * m + r) * inn + i < (a * m + r) * inn + inn := by omega
    _ = (a * m + r + 1) * inn := by ring
    _ ≤ o * m * inn := Nat.mul_le_mul_right inn h1

theorem flat_mod {m inn a r i : ℕ} (hi : i < inn) : ((a * m + r) * inn + i) % inn = i := by
  rw [Nat.mul_add_mod', Nat.mod_eq_of_lt hi]

theorem flat_div {m inn a r i : ℕ} (hi : i < inn) : ((a * m + r) * inn + i) / inn = a * m + r := by
  rw [Nat.add_comm, Nat.add_mul_div_right _ _ (by omega), Nat.div_eq_of_lt hi, Nat.zero_add]

theorem flat_mid {m inn a r i : ℕ} (hr : r < m) (hi : i < inn) :
    (((a * m + r) * inn + i) / inn) % m = r := by
  rw [flat_div hi, Nat.mul_add_mod', Nat.mod_eq_of_lt hr]

theorem flat_outer {m inn a r i : ℕ} (hr : r < m) (hi : i < inn) :
    ((a * m + r) * inn + i) / (inn * m) = a := by
  rw [← Nat.div_div_eq_div_mul, flat_div hi, Nat.add_comm, Nat.add_mul_div_right _ _ (by omega),
    Nat.div_eq_of_lt hr, Nat.zero_add]

/-- Reading a `build3` tensor at (outer `a`, position `r`, inner `i`). -/
theorem at3_build3 (shape : List ℕ) (axis m : ℕ) (f : ℕ → ℕ → ℕ → K) (hax : axis < shape.length)
    (a r i : ℕ) (ha : a < (Tensor.split3 shape axis).1) (hr : r < m)
    (hi : i < (Tensor.split3 shape axis).2.2) :
    (Tensor.build3 shape axis m f).at3 axis a r i = f a r i := by
  unfold Tensor.at3 Tensor.build3
  simp only [Tensor.split3] at ha hi ⊢
  have e1 : (shape.set axis m).getD axis 1 = m := by
    rw [List.getD_eq_getElem?_getD, List.getElem?_set_self hax]; rfl
  have e2 : List.drop (axis + 1) (shape.set axis m) = List.drop (axis + 1) shape :=
    List.drop_set_of_lt (by omega)
  rw [e1, e2]
  unfold Tensor.get
  have hlt := flat_lt (m := m) ha hr hi
  rw [Array.getD_eq_getD_getElem?, Array.getElem?_ofFn, dif_pos hlt]
  simp only [Option.getD_some]
  rw [flat_mod hi, flat_mid hr hi, flat_outer hr hi]

/-- **Fibre lemma.**  Every fibre of `applyAxis M t axis` along `axis` is `M` applied to the old fibre. -/
theorem applyAxis_fibre (M : Mat K) (t : Tensor K) (axis : ℕ) (hax : axis < t.shape.length)
    (a r i : ℕ) (ha : a < (Tensor.split3 t.shape axis).1) (hr : r < M.size)
    (hi : i < (Tensor.split3 t.shape axis).2.2) :
    (Tensor.applyAxis M t axis).at3 axis a r i =
      mulVec M (Tensor.split3 t.shape axis).2.1 (fun j => t.at3 axis a j i) r := by
  unfold Tensor.applyAxis
  simp only []
  rw [at3_build3 t.shape axis M.size _ hax a r i ha hr hi, foldl_add_eq_sum]
  rfl

theorem applyAxis_shape (M : Mat K) (t : Tensor K) (axis : ℕ) :
    (Tensor.applyAxis M t axis).shape = t.shape.set axis M.size := rfl


section object

variable [IsStrictOrderedRing K] [FloorRing K]

/-- Number of fibres before / after the axis, and the fibre length, of a control net. -/
def outerN (o : Obj K) (dir : ℕ) : ℕ := (Tensor.split3 o.cps.shape dir).1
def innerN (o : Obj K) (dir : ℕ) : ℕ := (Tensor.split3 o.cps.shape dir).2.2

/-- The control-net fibre along `dir` through (outer index `a`, inner index `i`). -/
def fibre (o : Obj K) (dir a i : ℕ) : ℕ → K := fun j => o.cps.at3 dir a j i

theorem basis_set (o : Obj K) (dir : ℕ) (hdir : dir < o.bases.size) (b' : Basis K) (cps' : Tensor K) :
    ({ o with bases := o.bases.set! dir b', cps := cps' } : Obj K).basis dir = b' := by
  simp [Obj.basis, Array.set!, Array.getD_eq_getD_getElem?, hdir]

theorem basis_set_ne (o : Obj K) (dir d : ℕ) (hd : d ≠ dir) (b' : Basis K) (cps' : Tensor K) :
    ({ o with bases := o.bases.set! dir b', cps := cps' } : Obj K).basis d = o.basis d := by
  have : ¬ dir = d := fun e => hd e.symm
  simp [Obj.basis, Array.set!, Array.getD_eq_getD_getElem?, this]

/-- `Obj.insertKnots` along a valid non-periodic direction whose control net has the matching
    length: success, refined basis, and every control-net fibre along `dir` is `C` applied to the
    old fibre. -/
theorem insertKnots_fibres (o : Obj K) (dir : ℕ) (hdir : dir < o.bases.size)
    (hax : dir < o.cps.shape.length) (hv : (o.basis dir).Valid) (hper : (o.basis dir).periodic = -1)
    (hshape : o.cps.shape.getD dir 0 = (o.basis dir).numFunctions) (xs : List K)
    (hxs : ∀ x ∈ xs, (o.basis dir).start ≤ x ∧ x < (o.basis dir).stop) :
    ∃ o' C, o.insertKnots xs dir = .ok o' ∧
      Refines (o.basis dir) (o'.basis dir) C xs.length ∧
      (o'.basis dir).knots.toList.Perm (xs ++ (o.basis dir).knots.toList) ∧
      (∀ d, d ≠ dir → o'.basis d = o.basis d) ∧ o'.rational = o.rational ∧
      o'.cps.shape = o.cps.shape.set dir ((o.basis dir).numFunctions + xs.length) ∧
      outerN o' dir = outerN o dir ∧ innerN o' dir = innerN o dir ∧
      ∀ a i r, a < outerN o dir → i < innerN o dir → r < (o.basis dir).numFunctions + xs.length →
        fibre o' dir a i r = mulVec C (o.basis dir).numFunctions (fibre o dir a i) r := by
  obtain ⟨b', C, hm, hr, hperm⟩ := insertMany_open (o.basis dir) hv hper xs hxs
  have hCsize : C.size = (o.basis dir).numFunctions + xs.length := hr.shape.1
  have hmid : (Tensor.split3 o.cps.shape dir).2.1 = (o.basis dir).numFunctions := by
    rw [← hshape]
    simp only [Tensor.split3, List.getD_eq_getElem?_getD, List.getElem?_eq_getElem hax]
    rfl
  refine ⟨{ o with bases := o.bases.set! dir b', cps := Tensor.applyAxis C o.cps dir }, C, ?_, ?_, ?_,
    fun d hd => basis_set_ne o dir d hd _ _, rfl, ?_, ?_, ?_, ?_⟩
  · rw [insertKnots_eq, hshape, hm]; rfl
  · rw [basis_set o dir hdir]; exact hr
  · rw [basis_set o dir hdir]; exact hperm
  · change (Tensor.applyAxis C o.cps dir).shape = _
    rw [applyAxis_shape, hCsize]
  · change (Tensor.split3 (Tensor.applyAxis C o.cps dir).shape dir).1 = _
    rw [applyAxis_shape]
    simp only [Tensor.split3]
    rw [List.take_set_of_le (le_refl _)]
    rfl
  · change (Tensor.split3 (Tensor.applyAxis C o.cps dir).shape dir).2.2 = _
    rw [applyAxis_shape]
    simp only [Tensor.split3]
    rw [List.drop_set_of_lt (by omega)]
    rfl
  · intro a i r ha hi hr'
    change (Tensor.applyAxis C o.cps dir).at3 dir a r i = _
    rw [applyAxis_fibre C o.cps dir hax a r i ha (by omega) hi, hmid]
    rfl

end object

end C04
end Splipy
