import Splipy.Lemmas.C12Fibre
import Splipy.Lemmas.C12Union
import Mathlib.Tactic.IntervalCases
import Mathlib.Tactic.NormNum

/-!
# C12 — one non-periodic direction of a curve / surface / volume, equal orders: complete

For two well-formed objects with `m` parametric directions whose bases in direction `i` (after the
`reparam` stage) are clamped, of the same order, in common-entry form: the remaining stages of
`make_splines_identical(direction=i)` run, only the insertion passes act, both objects get the union
knot vector in direction `i`, the other directions are untouched, and both evaluated maps are kept
(`insertKnots_sameMap`, any pardim; the other directions may be periodic).
-/

namespace Splipy

set_option linter.unusedSectionVars false

variable {K : Type} [Field K] [LinearOrder K] [IsStrictOrderedRing K] [FloorRing K]

namespace C12

open C06

variable {m : ℕ}

/-- `raise_order(0, direction=i)` succeeds and returns the receiver unchanged (`i ≤ 2`, `i < pardim`). -/
theorem raiseOrderDispatch_zero_dir (tol : K) (isCurve : Bool) (o : Obj K) (i : ℕ) (hi : i ≤ 2)
    (hp : i < o.pardim) :
    ∃ r, o.raiseOrderDispatch tol isCurve [0] (some ((i : ℕ) : Int)) = .ok (r, o) := by
  unfold Obj.raiseOrderDispatch
  cases isCurve with
  | true =>
    simp only [if_true]
    unfold Obj.curveRaiseOrder
    simp
  | false =>
    simp only [Bool.false_eq_true, if_false]
    have hcd : Obj.checkDirection ((i : ℕ) : Int) o.pardim = .ok i := by
      unfold Obj.checkDirection
      interval_cases i
      · simp [hp]
      · simp [hp]
      · simp [hp]
    unfold Obj.raiseOrder Obj.normRaises
    simp only [List.length_cons, List.length_nil, if_true, hcd, List.headD_cons]
    have hz : ∀ x ∈ (List.replicate o.pardim (0 : Int)).set i 0, x = 0 := by
      intro x hx
      rcases List.mem_or_eq_of_mem_set hx with h1 | h1
      · exact List.eq_of_mem_replicate h1
      · exact h1
    have h1 : ((List.replicate o.pardim (0 : Int)).set i 0).any (fun r => decide (r < 0)) = false := by
      rw [List.any_eq_false]; intro x hx; rw [hz x hx]; simp
    have h2 : ((List.replicate o.pardim (0 : Int)).set i 0).all (fun r => decide (r = 0)) = true := by
      rw [List.all_eq_true]; intro x hx; simp [hz x hx]
    simp

/-- **One direction, equal orders, any pardim.**  `a` is the pair after `reparam`; in direction `i`
    both bases are the clamped bases of order `p` over the common separated entry list `L`. -/
theorem open_direction_same_order (tol : K) (htol : 0 < tol) (c1 c2 : Bool) (p : ℕ) (hp : 2 ≤ p) (x0 xl : K)
    (L : List (K × ℕ × ℕ)) (hsep : Separated tol (clampedU x0 xl (L.map (·.1))))
    (i : Fin m) (hi : (i : ℕ) ≤ 2)
    (a : Obj K × Obj K) (hw1 : C06.WF a.1 m) (hw2 : C06.WF a.2 m)
    (hb1 : a.1.basis i = openBasis p (clampedU x0 xl (L.map (·.1))) (clampedM p (L.map (·.2.1))))
    (hb2 : a.2.basis i = openBasis p (clampedU x0 xl (L.map (·.1))) (clampedM p (L.map (·.2.2)))) :
    ∃ r, Obj.stagePeriodic a i = .ok a ∧ Obj.stageOrder tol c1 c2 a i = .ok a
      ∧ Obj.stageMerge tol (max (a.1.basis i).order (a.2.basis i).order) a i = .ok r
      ∧ r.1.basis i = openBasis p (clampedU x0 xl (L.map (·.1))) (clampedM p (L.map (fun e => max e.2.1 e.2.2)))
      ∧ r.2.basis i = r.1.basis i
      ∧ SameMap m a.1 r.1 ∧ SameMap m a.2 r.2 ∧ C06.WF r.1 m ∧ C06.WF r.2 m
      ∧ (∀ k : Fin m, k ≠ i → r.1.basis k = a.1.basis k ∧ r.2.basis k = a.2.basis k) := by
  obtain ⟨hpass1, hins2, hpass2, hins1, _⟩ := mergeKnots_clamped tol htol p hp x0 xl L hsep
  simp only [] at hpass1 hins2 hpass2 hins1
  have hp1 : 1 ≤ p := by omega
  have hlen : ∀ g : K × ℕ × ℕ → ℕ, (L.map (·.1)).length = (L.map g).length := fun g => by simp
  have hends := separated_ends tol x0 xl (L.map (·.1)) hsep
  have ho1 : (a.1.basis i).order = p := by rw [hb1]; rfl
  have ho2 : (a.2.basis i).order = p := by rw [hb2]; rfl
  have hper1 : (a.1.basis i).periodic = -1 := by rw [hb1]; rfl
  have hper2 : (a.2.basis i).periodic = -1 := by rw [hb2]; rfl
  have hpd : ∀ o : Obj K, C06.WF o m → (i : ℕ) < o.pardim := by
    intro o hw
    unfold Obj.pardim
    rw [hw.shape, midx_length]
    have := i.isLt
    omega
  have hSP : Obj.stagePeriodic a i = .ok a := by
    unfold Obj.stagePeriodic
    simp [hper1, hper2]
  have hSO : Obj.stageOrder tol c1 c2 a i = .ok a := by
    unfold Obj.stageOrder
    obtain ⟨r1, hr1⟩ := raiseOrderDispatch_zero_dir tol c1 a.1 i hi (hpd _ hw1)
    obtain ⟨r2, hr2⟩ := raiseOrderDispatch_zero_dir tol c2 a.2 i hi (hpd _ hw2)
    simp only [ho1, ho2, max_self, sub_self]
    rw [hr1, hr2]
  have hinterior : ∀ (g : K × ℕ × ℕ → ℕ) (x : K), x ∈ expand (L.map (·.1)) (L.map g) → x0 ≤ x ∧ x < xl := by
    intro g x hx
    have := hends.2 x (mem_expand _ _ x hx)
    constructor <;> linarith
  have hst : ∀ g : K × ℕ × ℕ → ℕ,
      (openBasis p (clampedU x0 xl (L.map (·.1))) (clampedM p (L.map g))).start = x0
      ∧ (openBasis p (clampedU x0 xl (L.map (·.1))) (clampedM p (L.map g))).stop = xl :=
    fun g => ⟨clamped_start p hp1 x0 xl _ _, clamped_stop p hp1 x0 xl _ _ (hlen g)⟩
  have hsz1 : (i : ℕ) < a.1.bases.size := by rw [hw1.size]; exact i.isLt
  have hsz2 : (i : ℕ) < a.2.bases.size := by rw [hw2.size]; exact i.isLt
  have hin2 : ∀ x ∈ expand (L.map (·.1)) (L.map (fun e => max e.2.1 e.2.2 - e.2.2)),
      (a.2.basis i).start ≤ x ∧ x < (a.2.basis i).stop := by
    intro x hx
    rw [hb2, (hst (·.2.2)).1, (hst (·.2.2)).2]
    exact hinterior (fun e => max e.2.1 e.2.2 - e.2.2) x hx
  have hin1 : ∀ x ∈ expand (L.map (·.1)) (L.map (fun e => max e.2.1 e.2.2 - e.2.1)),
      (a.1.basis i).start ≤ x ∧ x < (a.1.basis i).stop := by
    intro x hx
    rw [hb1, (hst (·.2.1)).1, (hst (·.2.1)).2]
    exact hinterior (fun e => max e.2.1 e.2.2 - e.2.1) x hx
  have hax : ∀ o : Obj K, C06.WF o m → (i : ℕ) < o.cps.shape.length := by
    intro o hw; rw [hw.shape, midx_length]; have := i.isLt; omega
  have hsh : ∀ o : Obj K, C06.WF o m → o.cps.shape.getD i 0 = (o.basis i).numFunctions := by
    intro o hw; rw [hw.shape, midx_getD_lt]
  obtain ⟨r2, hr2⟩ : ∃ r2, a.2.insertKnots (expand (L.map (·.1)) (L.map (fun e => max e.2.1 e.2.2 - e.2.2))) i = .ok r2 := by
    obtain ⟨o', _, h1, _⟩ := C04.insertKnots_fibres a.2 i hsz2 (hax _ hw2) (hw2.valid i) hper2 (hsh _ hw2) _ hin2
    exact ⟨o', h1⟩
  have hr2b : r2.basis i = openBasis p (clampedU x0 xl (L.map (·.1))) (clampedM p (L.map (fun e => max e.2.1 e.2.2))) := by
    have := insertAll_of_insertKnots hsz2 hr2
    rw [hb2, hins2] at this
    injection this with this
    exact this.symm
  obtain ⟨r1, hr1⟩ : ∃ r1, a.1.insertKnots (expand (L.map (·.1)) (L.map (fun e => max e.2.1 e.2.2 - e.2.1))) i = .ok r1 := by
    obtain ⟨o', _, h1, _⟩ := C04.insertKnots_fibres a.1 i hsz1 (hax _ hw1) (hw1.valid i) hper1 (hsh _ hw1) _ hin1
    exact ⟨o', h1⟩
  have hr1b : r1.basis i = openBasis p (clampedU x0 xl (L.map (·.1))) (clampedM p (L.map (fun e => max e.2.1 e.2.2))) := by
    have := insertAll_of_insertKnots hsz1 hr1
    rw [hb1, hins1] at this
    injection this with this
    exact this.symm
  have hSM : Obj.stageMerge tol (max (a.1.basis i).order (a.2.basis i).order) a i = .ok (r1, r2) := by
    unfold Obj.stageMerge Obj.firstInserts Obj.secondInserts
    rw [ho1, ho2, max_self]
    have e1 : Obj.mergeInserts tol p (a.1.basis i) (a.2.basis i) true ((a.1.basis i).knotSpans tol false).toList
        = .ok (expand (L.map (·.1)) (L.map (fun e => max e.2.1 e.2.2 - e.2.2))) := by
      rw [hb1, hb2]; exact hpass1
    have e2 : Obj.mergeInserts tol p (a.1.basis i) (r2.basis i) false ((a.2.basis i).knotSpans tol false).toList
        = .ok (expand (L.map (·.1)) (L.map (fun e => max e.2.1 e.2.2 - e.2.1))) := by
      rw [hb1, hr2b, hb2]; exact hpass2
    simp only [e1, hr2, e2, hr1]
  obtain ⟨hs1, hwf1, hk1, _⟩ := insertKnots_sameMap hw1 i hper1 _ hin1 hr1
  obtain ⟨hs2, hwf2, hk2, _⟩ := insertKnots_sameMap hw2 i hper2 _ hin2 hr2
  exact ⟨(r1, r2), hSP, hSO, hSM, hr1b, hr2b.trans hr1b.symm, hs1, hs2, hwf1, hwf2,
    fun k hk => ⟨hk1 k hk, hk2 k hk⟩⟩

/-- Multiplicity after raising the order by `a`: present knots gain `a`, absent ones stay absent. -/
def raisedMult (a m : ℕ) : ℕ := if m = 0 then 0 else m + a

theorem raisedMult_zero (m : ℕ) : raisedMult 0 m = m := by
  unfold raisedMult; split_ifs with h <;> omega

/-- **What `raise_order(p - p_j, direction=i)` has to deliver** on an object whose basis of direction
    `i` is the clamped basis of order `p_j` in common-entry form: the call succeeds, the result is well
    formed, its basis of direction `i` is the clamped basis of order `p` in which every present knot
    gained `p - p_j`, the other bases are unchanged, and the evaluated map is the same.
    For curves this is a theorem (`C12.raisesTo_curve`, property C05 in full); for `m ≥ 2` it is the
    statement C05 does not yet provide (`raise_order` re-interpolates all directions at once). -/
def RaisesTo {α : Type} (tol : K) (isCurve : Bool) (m : ℕ) (i : Fin m) (pj p : ℕ) (x0 xl : K)
    (L : List α) (v : α → K) (f : α → ℕ) (o : Obj K) : Prop :=
  ∃ r o', o.raiseOrderDispatch tol isCurve [((p : ℕ) : Int) - (pj : ℕ)] (some ((i : ℕ) : Int)) = .ok (r, o')
    ∧ C06.WF o' m
    ∧ o'.basis i = openBasis p (clampedU x0 xl (L.map v)) (clampedM p (L.map (fun e => raisedMult (p - pj) (f e))))
    ∧ SameMap m o o' ∧ ∀ k : Fin m, k ≠ i → o'.basis k = o.basis k

/-- Nothing to raise: `RaisesTo` holds with the object itself. -/
theorem raisesTo_same {α : Type} (tol : K) (isCurve : Bool) (i : Fin m) (hi : (i : ℕ) ≤ 2) (p : ℕ) (x0 xl : K)
    (L : List α) (v : α → K) (f : α → ℕ) (o : Obj K) (hw : C06.WF o m)
    (hb : o.basis i = openBasis p (clampedU x0 xl (L.map v)) (clampedM p (L.map f))) :
    RaisesTo tol isCurve m i p p x0 xl L v f o := by
  have hpd : (i : ℕ) < o.pardim := by
    unfold Obj.pardim
    rw [hw.shape, midx_length]
    have := i.isLt
    omega
  obtain ⟨r, hr⟩ := raiseOrderDispatch_zero_dir tol isCurve o i hi hpd
  refine ⟨r, o, by rw [sub_self]; exact hr, hw, ?_, SameMap.refl _ _, fun _ _ => rfl⟩
  rw [hb, Nat.sub_self]
  simp only [raisedMult_zero]

/-- **One non-periodic direction, arbitrary orders, any pardim — relative to `RaisesTo`.**  `a` is the
    pair after `reparam`; in direction `i` the bases are clamped of orders `p₁, p₂ ≥ 2` in common-entry
    form, distinct values more than `tol` apart.  Given `RaisesTo` for the object(s) whose order is
    below `p = max p₁ p₂`, the remaining stages run, both objects get the union knot vector in direction
    `i`, the other directions keep their bases and both evaluated maps are kept. -/
theorem open_direction_any_order (tol : K) (htol : 0 < tol) (c1 c2 : Bool) (p1 p2 : ℕ) (hp1 : 2 ≤ p1)
    (hp2 : 2 ≤ p2) (x0 xl : K) (L : List (K × ℕ × ℕ))
    (hsep : Separated tol (clampedU x0 xl (L.map (·.1))))
    (i : Fin m) (hi : (i : ℕ) ≤ 2)
    (a : Obj K × Obj K) (hw1 : C06.WF a.1 m) (hw2 : C06.WF a.2 m)
    (hb1 : a.1.basis i = openBasis p1 (clampedU x0 xl (L.map (·.1))) (clampedM p1 (L.map (·.2.1))))
    (hb2 : a.2.basis i = openBasis p2 (clampedU x0 xl (L.map (·.1))) (clampedM p2 (L.map (·.2.2))))
    (H_raise₁ : p1 < max p1 p2 → RaisesTo tol c1 m i p1 (max p1 p2) x0 xl L (·.1) (·.2.1) a.1)
    (H_raise₂ : p2 < max p1 p2 → RaisesTo tol c2 m i p2 (max p1 p2) x0 xl L (·.1) (·.2.2) a.2) :
    ∃ c r, Obj.stagePeriodic a i = .ok a ∧ Obj.stageOrder tol c1 c2 a i = .ok c
      ∧ Obj.stageMerge tol (max (a.1.basis i).order (a.2.basis i).order) c i = .ok r
      ∧ r.1.basis i = openBasis (max p1 p2) (clampedU x0 xl (L.map (·.1)))
          (clampedM (max p1 p2) (L.map (fun e =>
            max (raisedMult (max p1 p2 - p1) e.2.1) (raisedMult (max p1 p2 - p2) e.2.2))))
      ∧ r.2.basis i = r.1.basis i
      ∧ SameMap m a.1 r.1 ∧ SameMap m a.2 r.2
      ∧ (∀ k : Fin m, k ≠ i → r.1.basis k = a.1.basis k ∧ r.2.basis k = a.2.basis k)
      ∧ C06.WF r.1 m ∧ C06.WF r.2 m := by
  set p := max p1 p2 with hp
  have hle1 : p1 ≤ p := le_max_left _ _
  have hle2 : p2 ≤ p := le_max_right _ _
  have ho1 : (a.1.basis i).order = p1 := by rw [hb1]; rfl
  have ho2 : (a.2.basis i).order = p2 := by rw [hb2]; rfl
  have hper1 : (a.1.basis i).periodic = -1 := by rw [hb1]; rfl
  have hper2 : (a.2.basis i).periodic = -1 := by rw [hb2]; rfl
  have hSP : Obj.stagePeriodic a i = .ok a := by
    unfold Obj.stagePeriodic
    simp [hper1, hper2]
  have hR1 : RaisesTo tol c1 m i p1 p x0 xl L (·.1) (·.2.1) a.1 := by
    rcases Nat.eq_or_lt_of_le hle1 with h | h
    · rw [← h]; exact raisesTo_same tol c1 i hi p1 x0 xl L _ _ a.1 hw1 hb1
    · exact H_raise₁ h
  have hR2 : RaisesTo tol c2 m i p2 p x0 xl L (·.1) (·.2.2) a.2 := by
    rcases Nat.eq_or_lt_of_le hle2 with h | h
    · rw [← h]; exact raisesTo_same tol c2 i hi p2 x0 xl L _ _ a.2 hw2 hb2
    · exact H_raise₂ h
  obtain ⟨r1, o1, hr1, hwo1, hbo1, hs1, hk1⟩ := hR1
  obtain ⟨r2, o2, hr2, hwo2, hbo2, hs2, hk2⟩ := hR2
  have hSO : Obj.stageOrder tol c1 c2 a i = .ok (o1, o2) := by
    unfold Obj.stageOrder
    simp only [ho1, ho2]
    rw [← hp, hr1, hr2]
  set L2 : List (K × ℕ × ℕ) := L.map (fun e => (e.1, raisedMult (p - p1) e.2.1, raisedMult (p - p2) e.2.2)) with hL2
  have e0 : L2.map (·.1) = L.map (·.1) := by rw [hL2, List.map_map]; rfl
  have e1 : L2.map (·.2.1) = L.map (fun e => raisedMult (p - p1) e.2.1) := by rw [hL2, List.map_map]; rfl
  have e2 : L2.map (·.2.2) = L.map (fun e => raisedMult (p - p2) e.2.2) := by rw [hL2, List.map_map]; rfl
  have e3 : L2.map (fun e => max e.2.1 e.2.2)
      = L.map (fun e => max (raisedMult (p - p1) e.2.1) (raisedMult (p - p2) e.2.2)) := by
    rw [hL2, List.map_map]; rfl
  have hp2' : 2 ≤ p := le_trans hp1 hle1
  have hsep2 : Separated tol (clampedU x0 xl (L2.map (·.1))) := by rw [e0]; exact hsep
  obtain ⟨r, _, _, hSM, hrb1, hrb2, hm1, hm2, hwr1, hwr2, hkr⟩ := open_direction_same_order tol htol c1 c2 p hp2' x0 xl
    L2 hsep2 i hi (o1, o2) hwo1 hwo2 (by rw [e0, e1]; exact hbo1) (by rw [e0, e2]; exact hbo2)
  have hoo1 : ((o1, o2).1.basis i).order = p := by show (o1.basis i).order = p; rw [hbo1]; rfl
  have hoo2 : ((o1, o2).2.basis i).order = p := by show (o2.basis i).order = p; rw [hbo2]; rfl
  rw [hoo1, hoo2, max_self] at hSM
  refine ⟨(o1, o2), r, hSP, hSO, by rw [ho1, ho2]; exact hSM, ?_, hrb2, hs1.trans hm1, hs2.trans hm2, ?_, hwr1, hwr2⟩
  · rw [hrb1, e0, e3]
  · intro k hk
    exact ⟨((hkr k hk).1).trans (hk1 k hk), ((hkr k hk).2).trans (hk2 k hk)⟩

end C12

end Splipy
