import Mathlib.Algebra.BigOperators.Ring.Finset
import Mathlib.Algebra.BigOperators.Group.Finset.Sigma
import Mathlib.Tactic.Ring
import Mathlib.Tactic.Linarith
import Splipy.Model.Order
import Splipy.Lemmas.SolveSound

/-!
# C05, the projection argument

`Mat.invChecked` returns only certified left inverses, so `Ai · (A · x) = x` is a theorem about the
model.  With it the Greville interpolation of `raise_order_implicit` / `lower_order` reproduces any
coefficient vector that represents the same function on the new basis.
-/

namespace Splipy

set_option linter.unusedSectionVars false

variable {K : Type} [Field K] [LinearOrder K]

open Finset in
theorem Mat.dot_eq_sum (n : ℕ) (f : ℕ → K) : Mat.dot n f = ∑ l ∈ Finset.range n, f l := by
  unfold Mat.dot
  induction n with
  | zero => simp
  | succ n ih => rw [List.range_succ, List.foldl_append, ih, Finset.sum_range_succ]; simp

theorem Mat.isLeftInv_spec (Ai A : Mat K) (n : ℕ) (h : Mat.isLeftInv Ai A n = true) :
    Ai.size = n ∧ ∀ i, i < n → ∀ j, j < n →
      ∑ l ∈ Finset.range n, Ai.get i l * A.get l j = if i = j then 1 else 0 := by
  unfold Mat.isLeftInv at h
  rw [Bool.and_eq_true, decide_eq_true_eq, List.all_eq_true] at h
  refine ⟨h.1, fun i hi j hj => ?_⟩
  have h1 := h.2 i (List.mem_range.mpr hi)
  rw [List.all_eq_true] at h1
  have h2 := h1 j (List.mem_range.mpr hj)
  rw [decide_eq_true_eq, Mat.dot_eq_sum] at h2
  exact h2

theorem Mat.invChecked_spec (A Ai : Mat K) (h : Mat.invChecked A = .ok Ai) :
    Ai.size = A.nrows ∧ ∀ i, i < A.nrows → ∀ j, j < A.nrows →
      ∑ l ∈ Finset.range A.nrows, Ai.get i l * A.get l j = if i = j then 1 else 0 := by
  unfold Mat.invChecked at h
  split at h
  · exact absurd h (by simp)
  · rename_i Ai' _
    split at h
    · rename_i hc
      have : Ai' = Ai := by simpa using h
      subst this
      exact Mat.isLeftInv_spec _ A _ hc
    · exact absurd h (by simp)

/-- `Ai · A = I` ⇒ `Ai · (A · x) = x`. -/
theorem leftInv_apply (n : ℕ) (Ai A : ℕ → ℕ → K)
    (h : ∀ i, i < n → ∀ j, j < n → ∑ l ∈ Finset.range n, Ai i l * A l j = if i = j then 1 else 0)
    (x : ℕ → K) (i : ℕ) (hi : i < n) :
    ∑ l ∈ Finset.range n, Ai i l * ∑ k ∈ Finset.range n, A l k * x k = x i := by
  calc ∑ l ∈ Finset.range n, Ai i l * ∑ k ∈ Finset.range n, A l k * x k
      = ∑ l ∈ Finset.range n, ∑ k ∈ Finset.range n, Ai i l * A l k * x k := by
        apply Finset.sum_congr rfl; intro l _; rw [Finset.mul_sum]
        apply Finset.sum_congr rfl; intro k _; ring
    _ = ∑ k ∈ Finset.range n, (∑ l ∈ Finset.range n, Ai i l * A l k) * x k := by
        rw [Finset.sum_comm]; apply Finset.sum_congr rfl; intro k _; rw [Finset.sum_mul]
    _ = ∑ k ∈ Finset.range n, (if i = k then 1 else 0) * x k := by
        apply Finset.sum_congr rfl; intro k hk; rw [h i hi k (Finset.mem_range.mp hk)]
    _ = x i := by
        simp [Finset.sum_ite_eq, hi]

/-- Entry formula of `np.tensordot(M, t, axes=(1, 0))` for a `[n, nc]` array (pardim 1). -/
theorem tensordotFront_get1 (M : Mat K) (t : Tensor K) (n nc : ℕ) (hs : t.shape = [n, nc])
    (r i : ℕ) (hr : r < M.size) (hi : i < nc) :
    (Tensor.tensordotFront M t 1).get (r * nc + i)
      = ∑ j ∈ Finset.range n, M.get r j * t.get (j * nc + i) := by
  obtain ⟨shape, data⟩ := t
  simp only at hs
  subst hs
  unfold Tensor.tensordotFront Tensor.get
  have hprod1 : Tensor.prod (List.take (1 - 1) [n, nc]) = 1 := by simp [Tensor.prod]
  have hprod2 : Tensor.prod (List.drop (1 - 1 + 1) [n, nc]) = nc := by simp [Tensor.prod]
  have hn : [n, nc].getD (1 - 1) 1 = n := by simp
  simp only [hprod1, hprod2, hn]
  have hidx : r * nc + i < M.size * nc := by
    have : (r + 1) * nc ≤ M.size * nc := Nat.mul_le_mul_right nc hr
    rw [Nat.add_mul] at this; omega
  have hcond : r * nc + i < M.size * Tensor.prod (List.take (1 - 1) [n, nc])
      * Tensor.prod (List.drop (1 - 1 + 1) [n, nc]) := by
    rw [hprod1, hprod2, Nat.mul_one]; exact hidx
  rw [Array.getD_eq_getD_getElem?, Array.getElem?_ofFn, dif_pos hcond, Option.getD_some]
  have h1 : (r * nc + i) % nc = i := by rw [Nat.mul_comm, Nat.mul_add_mod]; exact Nat.mod_eq_of_lt hi
  have h2 : (r * nc + i) / nc = r := by
    rw [Nat.mul_comm, Nat.mul_add_div (by omega), Nat.div_eq_of_lt hi, Nat.add_zero]
  rw [Mat.dot_eq_sum]
  simp only [h1, h2, Nat.mod_one, Nat.div_one, Nat.zero_mul, Nat.zero_add]

theorem tensordotFront_shape1 (M : Mat K) (t : Tensor K) (n nc : ℕ) (hs : t.shape = [n, nc]) :
    (Tensor.tensordotFront M t 1).shape = [M.size, nc] := by
  unfold Tensor.tensordotFront
  simp [hs]

/-! ## The Greville interpolation for one parametric direction -/

section Reinterp
variable [FloorRing K]

theorem basisMat_size (b : Basis K) (tol : K) (ps : List K) :
    (Obj.basisMat b tol ps 0 true).size = ps.length := by
  simp [Obj.basisMat]

theorem basisMat_get (b : Basis K) (tol : K) (ps : List K) (l j : ℕ) (hl : l < ps.length) :
    (Obj.basisMat b tol ps 0 true).get l j = (b.evaluate tol ps[l] 0 true).getD j 0 := by
  simp [Obj.basisMat, Mat.get, Array.getD, hl]

/-- **Projection argument.**  If the coefficient net `c'` on the new basis reproduces, at the
    Greville points of the new basis, the values of the old spline, and the model's checked inverse
    of the collocation matrix exists, then `reinterpolate` returns exactly `c'`. -/
theorem reinterpolate_pardim1 (o : Obj K) (tol : K) (bOld bNew : Basis K) (pts : Array K) (n nc : ℕ)
    (Ni : Mat K) (hb : o.bases = #[bOld]) (hs : o.cps.shape = [n, nc])
    (hg : bNew.greville = .ok pts)
    (H_sw : Mat.invChecked (Obj.basisMat bNew tol pts.toList 0 true) = .ok Ni)
    (c' : ℕ → ℕ → K)
    (hinc : ∀ t ∈ pts.toList, ∀ c, c < nc →
      ∑ k ∈ Finset.range pts.size, (bNew.evaluate tol t 0 true).getD k 0 * c' k c
        = ∑ j ∈ Finset.range n, (bOld.evaluate tol t 0 true).getD j 0 * o.cps.get (j * nc + c)) :
    ∃ T, o.reinterpolate tol [bNew] = .ok T ∧ T.shape = [pts.size, nc] ∧
      ∀ i, i < pts.size → ∀ c, c < nc → T.get (i * nc + c) = c' i c := by
  have hpd : o.pardim = 1 := by simp [Obj.pardim, hs]
  set Nold := Obj.basisMat bOld tol pts.toList 0 true with hNold
  set Nnew := Obj.basisMat bNew tol pts.toList 0 true with hNnew
  have hr : o.reinterpolate tol [bNew] = .ok (Tensor.tensordotFront Ni (Tensor.tensordotFront Nold o.cps 1) 1) := by
    unfold Obj.reinterpolate
    simp only [Obj.grevilles, hg, hb, hpd]
    simp only [List.zip_cons_cons, List.zip_nil_right, List.map_cons, List.map_nil, List.reverse_cons,
      List.reverse_nil, List.nil_append, List.foldl_cons, List.foldl_nil, Obj.solveChain]
    rw [← hNnew, H_sw]
  obtain ⟨hNi, hinv⟩ := Mat.invChecked_spec Nnew Ni H_sw
  have hrows : Nnew.nrows = pts.size := by
    simp [Mat.nrows, hNnew, basisMat_size]
  rw [hrows] at hNi hinv
  have hNoldsz : Nold.size = pts.size := by simp [hNold, basisMat_size]
  have hs1 : (Tensor.tensordotFront Nold o.cps 1).shape = [pts.size, nc] := by
    rw [tensordotFront_shape1 Nold o.cps n nc hs, hNoldsz]
  refine ⟨_, hr, ?_, ?_⟩
  · rw [tensordotFront_shape1 Ni _ pts.size nc hs1, hNi]
  · intro i hi c hc
    rw [tensordotFront_get1 Ni _ pts.size nc hs1 i c (by omega) hc]
    have hinner : ∀ l, l < pts.size → (Tensor.tensordotFront Nold o.cps 1).get (l * nc + c)
        = ∑ k ∈ Finset.range pts.size, Nnew.get l k * c' k c := by
      intro l hl
      rw [tensordotFront_get1 Nold o.cps n nc hs l c (by omega) hc]
      have hl' : l < pts.toList.length := by simpa using hl
      have := hinc pts.toList[l] (List.getElem_mem hl') c hc
      have e1 : ∀ k, Nnew.get l k = (bNew.evaluate tol pts.toList[l] 0 true).getD k 0 :=
        fun k => basisMat_get bNew tol pts.toList l k hl'
      have e2 : ∀ j, Nold.get l j = (bOld.evaluate tol pts.toList[l] 0 true).getD j 0 :=
        fun j => basisMat_get bOld tol pts.toList l j hl'
      simp only [e1, e2]
      exact this.symm
    rw [Finset.sum_congr rfl (fun l hl => by rw [hinner l (Finset.mem_range.mp hl)])]
    exact leftInv_apply pts.size (fun a b => Ni.get a b) (fun a b => Nnew.get a b) hinv (fun k => c' k c) i hi

end Reinterp

/-! ## The certificates never fail on well-shaped input (uses `Lemmas/SolveSound.lean`) -/

theorem Mat.isLeftInv_of (Ai A : Mat K) (n : ℕ) (hs : Ai.size = n)
    (h : ∀ i j, i < n → j < n → ∑ l ∈ Finset.range n, Ai.get i l * A.get l j = if i = j then 1 else 0) :
    Mat.isLeftInv Ai A n = true := by
  unfold Mat.isLeftInv
  rw [Bool.and_eq_true, decide_eq_true_eq, List.all_eq_true]
  refine ⟨hs, fun i hi => ?_⟩
  rw [List.all_eq_true]
  intro j hj
  rw [decide_eq_true_eq, Mat.dot_eq_sum]
  exact h i j (List.mem_range.mp hi) (List.mem_range.mp hj)

theorem Mat.isSolution_of (A X B : Mat K) (n m : ℕ) (hs : X.size = n)
    (h : ∀ i j, i < n → j < m → ∑ l ∈ Finset.range n, A.get i l * X.get l j = B.get i j) :
    Mat.isSolution A X B n m = true := by
  unfold Mat.isSolution
  rw [Bool.and_eq_true, decide_eq_true_eq, List.all_eq_true]
  refine ⟨hs, fun i hi => ?_⟩
  rw [List.all_eq_true]
  intro j hj
  rw [decide_eq_true_eq, Mat.dot_eq_sum]
  exact h i j (List.mem_range.mp hi) (List.mem_range.mp hj)

/-- On a well-shaped square matrix the certificate check is redundant: `invChecked = inv`
    (the Gauss–Jordan model is sound, `Mat.inv_left`). -/
theorem Mat.invChecked_eq_inv (A : Mat K) (n : ℕ)
    (hA : A.size = n ∧ ∀ i, i < n → (A.getD i #[]).size = n) :
    Mat.invChecked A = Mat.inv A := by
  unfold Mat.invChecked
  cases h : Mat.inv A with
  | error e => rfl
  | ok Ai =>
    obtain ⟨h1, _, h3⟩ := Mat.inv_left A Ai n hA h
    have hn : A.nrows = n := hA.1
    simp only [hn, Mat.isLeftInv_of Ai A n h1 h3, if_true]

/-- `H_sw` in its two forms are equivalent on well-shaped matrices: a matrix with a left inverse
    is inverted by the model (`Mat.inv_complete`) and the certificate passes. -/
theorem Mat.invChecked_complete (A : Mat K) (n : ℕ)
    (hA : A.size = n ∧ ∀ i, i < n → (A.getD i #[]).size = n) (L : ℕ → ℕ → K)
    (hL : ∀ i j, i < n → j < n → ∑ l ∈ Finset.range n, L i l * A.get l j = if i = j then 1 else 0) :
    ∃ Ai, Mat.invChecked A = .ok Ai := by
  rw [Mat.invChecked_eq_inv A n hA]
  exact Mat.inv_complete A n hA L hL

theorem Mat.solveChecked_eq_solve (A B : Mat K) (n m : ℕ)
    (hA : A.size = n ∧ ∀ i, i < n → (A.getD i #[]).size = n)
    (hB : B.size = n ∧ ∀ i, i < n → (B.getD i #[]).size = m) (hn : 0 < n) :
    Mat.solveChecked A B = Mat.solve A B := by
  unfold Mat.solveChecked
  cases h : Mat.solve A B with
  | error e => rfl
  | ok X =>
    obtain ⟨h1, _, h3⟩ := Mat.solve_sound A B X n m hA hB h
    have hr : A.nrows = n := hA.1
    have hc : B.ncols = m := by unfold Mat.ncols; exact hB.2 0 hn
    simp only [hr, hc, Mat.isSolution_of A X B n m h1 h3, if_true]

theorem Mat.solveChecked_complete (A B : Mat K) (n m : ℕ)
    (hA : A.size = n ∧ ∀ i, i < n → (A.getD i #[]).size = n)
    (hB : B.size = n ∧ ∀ i, i < n → (B.getD i #[]).size = m) (hn : 0 < n) (L : ℕ → ℕ → K)
    (hL : ∀ i j, i < n → j < n → ∑ l ∈ Finset.range n, L i l * A.get l j = if i = j then 1 else 0) :
    ∃ X, Mat.solveChecked A B = .ok X := by
  rw [Mat.solveChecked_eq_solve A B n m hA hB hn]
  exact Mat.solve_complete A B n m hA hB L hL

section Shape
variable [FloorRing K]

theorem evaluate_size_c05 (b : Basis K) (tol t : K) (d : ℕ) (fr : Bool) :
    (b.evaluate tol t d fr).size = b.numFunctions := by
  unfold Basis.evaluate
  simp only
  split
  · simp
  · simp [Row.toDense]

/-- The Greville collocation matrix of the model is a well-shaped square matrix. -/
theorem basisMat_shape (b : Basis K) (tol : K) (ps : List K) (hps : ps.length = b.numFunctions) :
    (Obj.basisMat b tol ps 0 true).size = ps.length ∧
      ∀ i, i < ps.length → ((Obj.basisMat b tol ps 0 true).getD i #[]).size = ps.length := by
  refine ⟨basisMat_size b tol ps, fun i hi => ?_⟩
  have hi' : i < b.numFunctions := by omega
  simp [Obj.basisMat, Array.getD, hps, hi', evaluate_size_c05]

end Shape

end Splipy
