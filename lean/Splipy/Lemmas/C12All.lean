import Splipy.Lemmas.C12Direction
import Splipy.Lemmas.C12Compat
import Splipy.Lemmas.C05RaisesTo

/-!
# C12 — glue for the all-directions theorems

* `stageReparam_succeeds`: the `reparam` stage of well-formed objects succeeds (C06);
* `makeCompatible_wf06`, `makeCompatible_of_eq`: `make_splines_compatible` keeps `C06.WF` and is the
  identity on a pair that is already compatible;
* `makeIdenticalDir_eq`: on a compatible pair `make_splines_identical(direction=i)` is `identicalDir`;
* `grevilleOK_common`, `raiseGuard_common`: the side conditions of a multi-directional `raise_order`
  for a clamped basis in common-entry form.
-/

namespace Splipy

set_option linter.unusedSectionVars false

variable {K : Type} [Field K] [LinearOrder K] [IsStrictOrderedRing K] [FloorRing K]

namespace C12

open C06 Obj

variable {m : ℕ}

theorem reparamObj_basis {o : Obj K} (hw : C06.WF o m) (i : Fin m) :
    (C06.reparamObj o i 0 1).basis i = C06.reparamOk (o.basis i) 0 1 :=
  C06.basis_set_self o o.cps i _ (by rw [hw.size]; exact i.isLt)

theorem reparamObj_basis_ne (o : Obj K) (i k : ℕ) (h : k ≠ i) :
    (C06.reparamObj o i 0 1).basis k = o.basis k :=
  C06.basis_set_ne o o.cps i k _ (fun e => h e.symm)

/-- **The `reparam` stage of two well-formed objects succeeds** (`i ≤ 2`: `check_direction` knows
    three directions). -/
theorem stageReparam_succeeds {s : Obj K × Obj K} (hw1 : C06.WF s.1 m) (hw2 : C06.WF s.2 m) (i : Fin m)
    (hi : (i : ℕ) ≤ 2) :
    Obj.stageReparam s i = .ok (C06.reparamObj s.1 i 0 1, C06.reparamObj s.2 i 0 1) := by
  have h01 : (0 : K) < 1 := zero_lt_one
  have hcd : ∀ o : Obj K, C06.WF o m → Splipy.checkDirection (.int ((i : ℕ) : Int)) o.pardimB = .ok (i : ℕ) := by
    intro o hw
    have hlt : (i : ℕ) < o.pardimB := by unfold Obj.pardimB; rw [hw.size]; exact i.isLt
    unfold Splipy.checkDirection
    have : (i : ℕ) = 0 ∨ (i : ℕ) = 1 ∨ (i : ℕ) = 2 := by omega
    rcases this with h | h | h <;> rw [h] at hlt ⊢ <;> simp [hlt]
  unfold Obj.stageReparam Obj.reparamUnitDir
  rw [hcd _ hw1, hcd _ hw2]
  simp only [C06.reparamDir_ok _ _ h01]

/-- `C06.WF` survives a map over the component axis. -/
theorem wf06_mapCps {o : Obj K} (hw : C06.WF o m) (n : ℕ) (rat : Bool) (f : Array K → Array K) :
    C06.WF (o.mapCps n rat f) m := by
  have hshape : (o.mapCps n rat f).cps.shape = midx (fun d : Fin m => (o.basis d).numFunctions) n := by
    show (o.cps.mapLast n f).shape = _
    rw [Tensor.mapLast_shape, hw.shape]
    simp [midx]
  refine ⟨hw.size, hw.valid, ?_⟩
  rw [hshape, ncomp_of_shape _ _ _ hshape]
  rfl

theorem makeCompatible_wf06 {o1 o2 : Obj K} (hw1 : C06.WF o1 m) (hw2 : C06.WF o2 m) :
    C06.WF (makeCompatible o1 o2).1 m ∧ C06.WF (makeCompatible o1 o2).2 m := by
  have := makeCompatible_ind (fun o o' => C06.WF o m → C06.WF o' m) (fun _ h => h)
    (fun _ _ _ hab hbc h => hbc (hab h))
    (fun o h => by
      by_cases hr : o.rational = true
      · rw [Obj.forceRational_of_rational o hr]; exact h
      · rw [Obj.forceRational_eq o (by simpa using hr)]; exact wf06_mapCps h _ _ _)
    (fun o n h => by
      unfold Obj.setDimensionTo
      split_ifs
      · exact h
      · rw [Obj.setDimension_eq]; exact wf06_mapCps h _ _ _) o1 o2
  exact ⟨this.1 hw1, this.2 hw2⟩

/-- On a pair with equal rationality and dimension `make_splines_compatible` changes nothing. -/
theorem makeCompatible_of_eq (o1 o2 : Obj K) (hr : o1.rational = o2.rational)
    (hd : o1.dimension = o2.dimension) : makeCompatible o1 o2 = (o1, o2) := by
  unfold makeCompatible
  by_cases h1 : o1.rational = true
  · have h2 : o2.rational = true := by rw [← hr]; exact h1
    simp only [h1, if_true, Obj.forceRational_of_rational o2 h2]
    rw [if_neg (by rw [hd]; exact lt_irrefl _), ← hd, setDimensionTo_self]
  · have h1' : o1.rational = false := by simpa using h1
    have h2 : o2.rational = false := by rw [← hr]; exact h1'
    simp only [h1', h2, Bool.false_eq_true, if_false]
    rw [if_neg (by rw [hd]; exact lt_irrefl _), ← hd, setDimensionTo_self]

/-- On a compatible well-formed pair, `make_splines_identical(direction=i)` is `identicalDir`. -/
theorem makeIdenticalDir_eq (tol : K) (c1 c2 : Bool) {s : Obj K × Obj K} (hw1 : C06.WF s.1 m)
    (hr : s.1.rational = s.2.rational) (hd : s.1.dimension = s.2.dimension) (i : Fin m) (hi : (i : ℕ) ≤ 2) :
    makeIdenticalDir tol c1 c2 s (.int ((i : ℕ) : Int)) = identicalDir tol c1 c2 s i := by
  unfold makeIdenticalDir
  rw [makeCompatible_of_eq s.1 s.2 hr hd]
  have hlt : (i : ℕ) < s.1.pardimB := by unfold Obj.pardimB; rw [hw1.size]; exact i.isLt
  have hcd : Splipy.checkDirection (.int ((i : ℕ) : Int)) s.1.pardimB = .ok (i : ℕ) := by
    unfold Splipy.checkDirection
    have : (i : ℕ) = 0 ∨ (i : ℕ) = 1 ∨ (i : ℕ) = 2 := by omega
    rcases this with h | h | h <;> rw [h] at hlt ⊢ <;> simp [hlt]
  simp only [hcd]

theorem dimension_eq_of {o o' : Obj K} (hn : o'.ncomp = o.ncomp) (hr : o'.rational = o.rational) :
    o'.dimension = o.dimension := by
  unfold Obj.dimension; rw [hn, hr]

/-- A clamped basis in common-entry form (absent entries allowed) is `GrevilleOK`. -/
theorem grevilleOK_common {α : Type} (tol : K) (htol : 0 < tol) (p : ℕ) (hp : 2 ≤ p) (x0 xl : K)
    (L : List α) (v : α → K) (f : α → ℕ) (hf : ∀ e ∈ L, f e ≤ p - 1)
    (hgap : Separated (2 * ((p - 1 : ℕ) : K) * tol) (clampedU x0 xl (L.map v))) :
    GrevilleOK tol (openBasis p (clampedU x0 xl (L.map v)) (clampedM p (L.map f))) := by
  obtain ⟨q, rfl⟩ : ∃ q, p = q + 1 := ⟨p - 1, by omega⟩
  rw [openBasis_filter]
  apply grevilleOK_clamped tol htol q (by omega) x0 xl _ _ (by simp)
  · intro j hj
    obtain ⟨e, he, rfl⟩ := List.mem_map.mp hj
    have h1 := List.mem_filter.mp he
    have := hf e h1.1
    exact ⟨by simpa using h1.2, by omega⟩
  · have : q + 1 - 1 = q := by omega
    rw [this] at hgap
    exact separated_filter _ x0 xl L v _ hgap

/-- … and makes the guard of `raise_order` true when it is the first basis. -/
theorem raiseGuard_common {α : Type} (tol : K) (htol : 0 < tol) (p : ℕ) (hp : 1 ≤ p) (x0 xl : K)
    (L : List α) (v : α → K) (f : α → ℕ) (hsep : Separated tol (clampedU x0 xl (L.map v)))
    (rest : List (Basis K)) :
    Obj.raiseGuard tol (openBasis p (clampedU x0 xl (L.map v)) (clampedM p (L.map f)) :: rest) = .ok true := by
  rw [openBasis_filter]
  apply raiseGuard_clamped tol htol p hp x0 xl _ _ (by simp) (separated_filter _ x0 xl L v _ hsep)
  intro j hj
  obtain ⟨e, he, rfl⟩ := List.mem_map.mp hj
  simpa using (List.mem_filter.mp he).2

theorem bases_toList_two {o : Obj K} (hw : C06.WF o 2) : o.bases.toList = [o.basis 0, o.basis 1] := by
  have hs := hw.size
  apply List.ext_getElem
  · simp [hs]
  · intro n h1 h2
    have hn : n = 0 ∨ n = 1 := by simp at h2; omega
    rcases hn with rfl | rfl <;> simp [Obj.basis, Array.getD, hs]

end C12

end Splipy
