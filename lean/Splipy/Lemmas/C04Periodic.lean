import Splipy.Lemmas.C04Basis
import Mathlib.Algebra.Order.Floor.Ring

/-!
# C04 helper lemmas, part 7: the periodic ghost-knot repair

The two repair loops of `insert_knot` copy `p+k+1` knots (shifted by the period) from one end of the
array to the other *in place*.  When the source and target ranges are disjoint (`p+k+1 ≤ n+1`, i.e.
`n ≥ p+k`) the loops are plain shifted copies; otherwise they read entries they have already
overwritten — this is where the small-basis defect of the code lives.
-/

namespace Splipy
namespace C04

set_option linter.unusedSectionVars false

variable {K : Type} [Field K] [LinearOrder K]

theorem getD_set! (a : Array K) (i j : ℕ) (v : K) (hi : i < a.size) :
    (a.set! i v).getD j 0 = if j = i then v else a.getD j 0 := by
  simp only [Array.set!, Array.getD_eq_getD_getElem?, Array.getElem?_setIfInBounds]
  by_cases h : i = j
  · subst h; simp [hi]
  · have : ¬ j = i := fun e => h e.symm
    simp [h, this]

/-- right-side repair: writes at `base+i`, reads at `i`, disjoint when `cnt ≤ base`. -/
theorem fold_copy_right (f : K → K) (base : ℕ) (a0 : Array K) (cnt : ℕ) (hdis : cnt ≤ base)
    (hsz : base + cnt ≤ a0.size) :
    ((List.range cnt).foldl (fun a i => a.set! (base + i) (f (a.getD i 0))) a0).size = a0.size ∧
    ∀ j, ((List.range cnt).foldl (fun a i => a.set! (base + i) (f (a.getD i 0))) a0).getD j 0 =
      if base ≤ j ∧ j < base + cnt then f (a0.getD (j - base) 0) else a0.getD j 0 := by
  induction cnt with
  | zero =>
    refine ⟨rfl, fun j => ?_⟩
    rw [if_neg (by omega)]; rfl
  | succ cnt ih =>
    obtain ⟨ih1, ih2⟩ := ih (by omega) (by omega)
    rw [List.range_succ, List.foldl_append]
    simp only [List.foldl_cons, List.foldl_nil]
    generalize (List.range cnt).foldl _ a0 = A at ih1 ih2 ⊢
    have hsA : (A.set! (base + cnt) (f (A.getD cnt 0))).size = a0.size := by
      rw [Array.set!, Array.size_setIfInBounds, ih1]
    refine ⟨hsA, fun j => ?_⟩
    have hc : A.getD cnt 0 = a0.getD cnt 0 := by rw [ih2 cnt, if_neg (by omega)]
    rw [getD_set! A _ _ _ (by rw [ih1]; omega), ih2 j, hc]
    by_cases h1 : j = base + cnt
    · rw [if_pos h1, if_pos (by omega), h1, Nat.add_sub_cancel_left]
    · rw [if_neg h1]
      by_cases h2 : base ≤ j ∧ j < base + cnt
      · rw [if_pos h2, if_pos (by omega)]
      · rw [if_neg h2, if_neg (by omega)]

/-- left-side repair: writes at `i`, reads at `base+i`, disjoint when `cnt ≤ base`. -/
theorem fold_copy_left (f : K → K) (base : ℕ) (a0 : Array K) (cnt : ℕ) (hdis : cnt ≤ base)
    (hsz : base + cnt ≤ a0.size) :
    ((List.range cnt).foldl (fun a i => a.set! i (f (a.getD (base + i) 0))) a0).size = a0.size ∧
    ∀ j, ((List.range cnt).foldl (fun a i => a.set! i (f (a.getD (base + i) 0))) a0).getD j 0 =
      if j < cnt then f (a0.getD (base + j) 0) else a0.getD j 0 := by
  induction cnt with
  | zero =>
    refine ⟨rfl, fun j => ?_⟩
    rw [if_neg (by omega)]; rfl
  | succ cnt ih =>
    obtain ⟨ih1, ih2⟩ := ih (by omega) (by omega)
    rw [List.range_succ, List.foldl_append]
    simp only [List.foldl_cons, List.foldl_nil]
    generalize (List.range cnt).foldl _ a0 = A at ih1 ih2 ⊢
    have hsA : (A.set! cnt (f (A.getD (base + cnt) 0))).size = a0.size := by
      rw [Array.set!, Array.size_setIfInBounds, ih1]
    refine ⟨hsA, fun j => ?_⟩
    have hc : A.getD (base + cnt) 0 = a0.getD (base + cnt) 0 := by
      rw [ih2 (base + cnt), if_neg (by omega)]
    rw [getD_set! A _ _ _ (by rw [ih1]; omega), ih2 j, hc]
    by_cases h1 : j = cnt
    · rw [if_pos h1, if_pos (by omega), h1]
    · rw [if_neg h1]
      by_cases h2 : j < cnt
      · rw [if_pos h2, if_pos (by omega)]
      · rw [if_neg h2, if_neg (by omega)]

end C04
end Splipy

namespace Splipy
namespace C04

set_option linter.unusedSectionVars false

variable {K : Type} [Field K] [LinearOrder K]

theorem numFunctions_periodic (b : Basis K) (k : ℕ) (hk : b.periodic = (k : Int)) :
    b.numFunctions = b.knots.size - b.order - (k + 1) := by
  unfold Basis.numFunctions
  rw [hk]
  congr 1

/-- The repaired array, entry by entry, when source and target ranges are disjoint
    (`cnt = p+k+1 ≤ base = n+1`). -/
theorem repair_getD (b : Basis K) (k : ℕ) (hk : b.periodic = (k : Int)) (knots1 : Array K) (mu n : ℕ)
    (hm : knots1.size = n + b.order + k + 2) (hguard : b.order + k ≤ n) :
    (repair b knots1 mu).size = knots1.size ∧
    ∀ j, (repair b knots1 mu).getD j 0 =
      if mu ≤ b.order + k then
        (if n + 1 ≤ j ∧ j < n + 1 + (b.order + k + 1) then
          knots1.getD (n + 1) 0 + (knots1.getD (j - (n + 1)) 0 - knots1.getD 0 0)
         else knots1.getD j 0)
      else if n + 1 ≤ mu then
        (if j < b.order + k + 1 then
          knots1.getD (b.order + k) 0 - (knots1.getD (knots1.size - 1) 0 - knots1.getD (n + 1 + j) 0)
         else knots1.getD j 0)
      else knots1.getD j 0 := by
  have hper : b.periodic > -1 := by rw [hk]; omega
  have hr : b.periodic.toNat = k := by rw [hk]; rfl
  have hbase : knots1.size - b.order - k - 1 = n + 1 := by omega
  unfold repair
  rw [if_pos hper]
  simp only [hr, hbase]
  by_cases h1 : mu ≤ b.order + k
  · rw [if_pos h1]
    obtain ⟨e1, e2⟩ := fold_copy_right
      (fun v => knots1.getD (n + 1) 0 + (v - knots1.getD 0 0)) (n + 1) knots1 (b.order + k + 1)
      (by omega) (by omega)
    refine ⟨e1, fun j => ?_⟩
    rw [if_pos h1]
    exact e2 j
  · rw [if_neg h1]
    by_cases h2 : n + 1 ≤ mu
    · rw [if_pos (show mu ≥ n + 1 from h2)]
      obtain ⟨e1, e2⟩ := fold_copy_left
        (fun v => knots1.getD (b.order + k) 0 - (knots1.getD (knots1.size - 1) 0 - v)) (n + 1) knots1
        (b.order + k + 1) (by omega) (by omega)
      refine ⟨e1, fun j => ?_⟩
      rw [if_neg h1, if_pos h2]
      exact e2 j
    · rw [if_neg (show ¬ mu ≥ n + 1 from h2)]
      refine ⟨rfl, fun j => ?_⟩
      rw [if_neg h1, if_neg h2]

end C04
end Splipy

namespace Splipy
namespace C04

set_option linter.unusedSectionVars false

variable {K : Type} [Field K] [LinearOrder K] [IsStrictOrderedRing K]

/-- The repaired knot sequence as a function of the sequence `σ` after `np.insert`
    (`pk = p + k`, disjoint ranges). -/
def repSeq (σ : ℕ → K) (mu n pk : ℕ) : ℕ → K := fun j =>
  if mu ≤ pk then
    (if n + 1 ≤ j ∧ j < n + 1 + (pk + 1) then σ (n + 1) + (σ (j - (n + 1)) - σ 0) else σ j)
  else if n + 1 ≤ mu then
    (if j < pk + 1 then σ pk - (σ (n + pk + 1) - σ (n + 1 + j)) else σ j)
  else σ j

/-- Arithmetic content of the periodic repair: for a monotone `τ` whose ghost knots repeat with
    period `T` over `n` functions, inserting `x` at `μ ∈ [p, n+k+1]` and repairing (with `n ≥ p+k`)
    gives a sorted sequence whose ghost knots repeat with period `T` over `n+1` functions, with the
    same start and end knots, and which is `insertSeq` away from the ghost zones. -/
theorem repSeq_spec (τ : ℕ → K) (hτ : Monotone τ) (T : K) (n p k mu : ℕ) (x : K)
    (hp : k + 2 ≤ p) (hguard : p + k ≤ n)
    (hghost : ∀ i, i ≤ p + k → τ (i + n) = τ i + T)
    (hmu1 : p ≤ mu) (hmu2 : mu ≤ n + k + 1) (hx : τ (mu - 1) ≤ x ∧ x ≤ τ mu) :
    let ρ := repSeq (insertSeq τ mu x) mu n (p + k)
    (∀ i, i ≤ p + k → ρ (i + (n + 1)) = ρ i + T) ∧
    (∀ j, j < n + (p + k) + 1 → ρ j ≤ ρ (j + 1)) ∧
    ρ (p - 1) = τ (p - 1) ∧ ρ (n + k + 2) = τ (n + k + 1) ∧
    (∀ j, p + k < j → j < n + 1 → ρ j = insertSeq τ mu x j) := by
  intro ρ
  obtain ⟨hlo, hhi⟩ := bo_bounds τ hτ mu x hx
  have hσ : Monotone (insertSeq τ mu x) := bo_insertSeq_mono τ hτ mu x hlo hhi
  set σ := insertSeq τ mu x with hσdef
  have hρ : ∀ j, ρ j = repSeq σ mu n (p + k) j := fun j => rfl
  have σlt : ∀ j, j < mu → σ j = τ j := fun j h => bo_ins_lt h
  have σgt : ∀ j, mu < j → σ j = τ (j - 1) := fun j h => bo_ins_gt (k := j - 1) (by omega) (by omega)
  by_cases hB1 : mu ≤ p + k
  · -- right ghost knots rewritten
    have hr : ∀ j, ρ j = if n + 1 ≤ j ∧ j < n + 1 + (p + k + 1)
        then σ (n + 1) + (σ (j - (n + 1)) - σ 0) else σ j := by
      intro j; rw [hρ]; unfold repSeq; rw [if_pos hB1]
    have e0 : σ 0 = τ 0 := σlt 0 (by omega)
    have en : σ (n + 1) = τ 0 + T := by
      rw [σgt _ (by omega), show n + 1 - 1 = 0 + n by omega, hghost 0 (by omega)]
    refine ⟨fun i hi => ?_, fun j hj => ?_, ?_, ?_, fun j h1 h2 => ?_⟩
    · rw [hr, hr, if_pos (by omega), if_neg (by omega), en, e0,
        show i + (n + 1) - (n + 1) = i by omega]
      ring
    · rw [hr, hr]
      by_cases h1 : j + 1 < n + 1
      · rw [if_neg (by omega), if_neg (by omega)]; exact hσ (Nat.le_succ j)
      · by_cases h2 : j + 1 = n + 1
        · rw [if_neg (by omega), if_pos (by omega), show j + 1 - (n + 1) = 0 by omega, sub_self,
            add_zero, ← h2]
          exact hσ (Nat.le_succ j)
        · rw [if_pos (by omega), if_pos (by omega)]
          have := hσ (show j - (n + 1) ≤ j + 1 - (n + 1) by omega)
          linarith
    · rw [hr, if_neg (by omega)]; exact σlt _ (by omega)
    · rw [hr, if_pos (by omega), en, e0, show n + k + 2 - (n + 1) = k + 1 by omega,
        σlt _ (by omega), show n + k + 1 = (k + 1) + n by omega, hghost (k + 1) (by omega)]
      ring
    · rw [hr, if_neg (by omega)]
  · by_cases hB2 : n + 1 ≤ mu
    · -- left ghost knots rewritten
      have hr : ∀ j, ρ j = if j < p + k + 1
          then σ (p + k) - (σ (n + (p + k) + 1) - σ (n + 1 + j)) else σ j := by
        intro j; rw [hρ]; unfold repSeq; rw [if_neg hB1, if_pos hB2]
      have epk : σ (p + k) = τ (p + k) := σlt _ (by omega)
      have elast : σ (n + (p + k) + 1) = τ (p + k) + T := by
        rw [σgt _ (by omega), show n + (p + k) + 1 - 1 = (p + k) + n by omega, hghost _ le_rfl]
      refine ⟨fun i hi => ?_, fun j hj => ?_, ?_, ?_, fun j h1 h2 => ?_⟩
      · rw [hr, hr, if_neg (by omega), if_pos (by omega), epk, elast,
          show n + 1 + i = i + (n + 1) by omega]
        ring
      · rw [hr, hr]
        by_cases h1 : j + 1 < p + k + 1
        · rw [if_pos (by omega), if_pos h1]
          have := hσ (show n + 1 + j ≤ n + 1 + (j + 1) by omega)
          linarith
        · by_cases h2 : j = p + k
          · rw [if_pos (by omega), if_neg (by omega), h2,
              show n + 1 + (p + k) = n + (p + k) + 1 by omega, sub_self, sub_zero]
            exact hσ (Nat.le_succ _)
          · rw [if_neg (by omega), if_neg (by omega)]; exact hσ (Nat.le_succ j)
      · rw [hr, if_pos (by omega), epk, elast, σgt _ (by omega),
          show n + 1 + (p - 1) - 1 = (p - 1) + n by omega, hghost _ (by omega)]
        ring
      · rw [hr, if_neg (by omega), σgt _ (by omega)]
        congr 1
      · rw [hr, if_neg (by omega)]
    · -- nothing rewritten
      have hr : ∀ j, ρ j = σ j := by
        intro j; rw [hρ]; unfold repSeq; rw [if_neg hB1, if_neg hB2]
      refine ⟨fun i hi => ?_, fun j hj => ?_, ?_, ?_, fun j h1 h2 => hr j⟩
      · rw [hr, hr, σgt _ (by omega), σlt _ (by omega), show i + (n + 1) - 1 = i + n by omega,
          hghost i hi]
      · rw [hr, hr]; exact hσ (Nat.le_succ j)
      · rw [hr]; exact σlt _ (by omega)
      · rw [hr, σgt _ (by omega)]; congr 1

end C04
end Splipy

namespace Splipy
namespace C04

set_option linter.unusedSectionVars false

variable {K : Type} [Field K] [LinearOrder K] [IsStrictOrderedRing K] [FloorRing K]

theorem kn_eq_getD (b : Basis K) {j : ℕ} (h : j < b.knots.size) : b.kn j = b.knots.getD j 0 := by
  rw [kn_of_lt b h]
  simp [Array.getD_eq_getD_getElem?, Array.getElem?_eq_getElem h]

/-- **Periodic insertion, knot-vector half.**  Valid periodic basis with `n ≥ p + k`, value
    `start ≤ x < end`: `insert_knot` succeeds, the repaired knot vector is again a valid periodic knot
    vector (sorted, ghost knots repeat with the unchanged period over `n+1` functions, same start and
    end), it is `np.insert(knots, μ, x)` away from the `p+k+1` ghost positions, and `C` is `(n+1) × n`. -/
theorem insertKnot_periodic_le (b : Basis K) (hv : b.Valid) (k : ℕ) (hk : b.periodic = (k : Int))
    (hguard : b.order + k ≤ b.numFunctions) (x : K) (hx : b.start ≤ x ∧ x ≤ b.stop) :
    ∃ b' C, b.insertKnot x = .ok (b', C) ∧ b'.Valid ∧ b'.order = b.order ∧
      b'.periodic = b.periodic ∧ b'.knots.size = b.knots.size + 1 ∧
      b'.numFunctions = b.numFunctions + 1 ∧ b'.start = b.start ∧ b'.stop = b.stop ∧
      (∀ j, b.order + k < j → j < b.numFunctions + 1 →
        b'.kn j = insertSeq b.kn (b.insertMu x) x j) ∧
      Shape (b.numFunctions + 1) b.numFunctions C ∧
      (∀ j, j < b.knots.size + 1 →
        b'.kn j = repSeq (insertSeq b.kn (b.insertMu x) x) (b.insertMu x) b.numFunctions (b.order + k) j) ∧
      C = matC b.kn x b.numFunctions b.order (b.insertMu x) := by
  have hmono : Monotone b.kn := kn_mono hv.sorted
  have hp := hv.order_pos
  have hsz := hv.size_ge
  have hpk : k + 2 ≤ b.order := by
    rcases hv.periodic_le with h | h
    · rw [hk] at h; omega
    · rw [hk] at h; omega
  have hn := numFunctions_periodic b k hk
  set n := b.numFunctions with hndef
  have hsize : b.knots.size = n + b.order + k + 1 := by omega
  obtain ⟨hm1, hm2, hm3⟩ := bisectRight_spec b.kn hmono x b.knots.size
  have hm1b : b.bisectR x ≤ b.knots.size := hm1
  have hm2b : ∀ i, i < b.bisectR x → b.kn i ≤ x := hm2
  have hm3b : ∀ i, b.bisectR x ≤ i → i < b.knots.size → x < b.kn i := hm3
  have hpm0 : b.order ≤ b.bisectR x := by
    by_contra hlt
    have := hm3b (b.order - 1) (by omega) (by omega)
    exact absurd hx.1 (not_le.2 this)
  have hmudef : b.insertMu x = min (b.bisectR x) (b.knots.size - b.order) := by
    unfold Basis.insertMu; rw [if_pos (by rw [hk]; omega)]
  set mu := b.insertMu x with hmu
  have hm1' : mu ≤ b.knots.size := by rw [hmudef]; omega
  have hpm : b.order ≤ mu := by rw [hmudef]; omega
  have hmu2 : mu ≤ n + k + 1 := by rw [hmudef]; omega
  have hxx : b.kn (mu - 1) ≤ x ∧ x ≤ b.kn mu := by
    by_cases hc : b.bisectR x ≤ b.knots.size - b.order
    · have e : mu = b.bisectR x := by rw [hmudef]; exact Nat.min_eq_left hc
      rw [e]
      exact ⟨hm2b _ (by omega), le_of_lt (hm3b _ le_rfl (by omega))⟩
    · have e : mu = b.knots.size - b.order := by rw [hmudef]; exact Nat.min_eq_right (by omega)
      rw [e]
      exact ⟨hm2b _ (by omega), hx.2⟩
  have hT : ∀ i, i ≤ b.order + k → b.kn (i + n) = b.kn i + (b.stop - b.start) := by
    intro i hi
    exact hv.ghosts (by rw [hk]; omega) i (by omega)
  -- the array after np.insert
  set knots1 := Basis.insertAt b.knots mu x with hk1
  have hk1size : knots1.size = n + b.order + k + 2 := by
    rw [hk1, size_insertAt b.knots mu x hm1']; omega
  have hσ' : ∀ j, j < knots1.size → knots1.getD j 0 = insertSeq b.kn mu x j := by
    intro j hj
    have := kn_insertAt b mu x (show mu < b.knots.size by omega) j
    rw [← this, kn_eq_getD _ (by exact hj)]
  obtain ⟨hrs, hrg⟩ := repair_getD b k hk knots1 mu n hk1size hguard
  obtain ⟨hG, hS, hSt, hEn, hM⟩ := repSeq_spec b.kn hmono (b.stop - b.start) n b.order k mu x hpk hguard
    hT hpm hmu2 hxx
  -- entries of the new basis
  have hkn' : ∀ j, j < knots1.size →
      ({ b with knots := repair b knots1 mu } : Basis K).kn j
        = repSeq (insertSeq b.kn mu x) mu n (b.order + k) j := by
    intro j hj
    rw [kn_eq_getD _ (by change j < (repair b knots1 mu).size; rw [hrs]; exact hj), hrg j]
    unfold repSeq
    by_cases h1 : mu ≤ b.order + k
    · rw [if_pos h1, if_pos h1]
      by_cases h2 : n + 1 ≤ j ∧ j < n + 1 + (b.order + k + 1)
      · rw [if_pos h2, if_pos h2, hσ' _ (by omega), hσ' _ (by omega), hσ' _ (by omega)]
      · rw [if_neg h2, if_neg h2, hσ' _ hj]
    · rw [if_neg h1, if_neg h1]
      by_cases h2 : n + 1 ≤ mu
      · rw [if_pos h2, if_pos h2]
        by_cases h3 : j < b.order + k + 1
        · rw [if_pos h3, if_pos h3, hσ' _ (by omega), hσ' _ (by omega), hσ' _ (by omega),
            show knots1.size - 1 = n + (b.order + k) + 1 by omega]
        · rw [if_neg h3, if_neg h3, hσ' _ hj]
      · rw [if_neg h2, if_neg h2, hσ' _ hj]
  have hstart : ({ b with knots := repair b knots1 mu } : Basis K).start = b.start := by
    change ({ b with knots := repair b knots1 mu } : Basis K).kn (b.order - 1) = _
    rw [hkn' _ (by omega), hSt]; rfl
  have hstop : ({ b with knots := repair b knots1 mu } : Basis K).stop = b.stop := by
    change ({ b with knots := repair b knots1 mu } : Basis K).kn
      ((repair b knots1 mu).size - b.order) = _
    rw [hrs, show knots1.size - b.order = n + k + 2 by omega, hkn' _ (by omega), hEn]
    change _ = b.kn (b.knots.size - b.order)
    congr 1
    omega
  have hnum : ({ b with knots := repair b knots1 mu } : Basis K).numFunctions = n + 1 := by
    rw [numFunctions_periodic ({ b with knots := repair b knots1 mu } : Basis K) k hk]
    change (repair b knots1 mu).size - b.order - (k + 1) = _
    rw [hrs]; omega
  refine ⟨{ b with knots := repair b knots1 mu }, matC b.kn x n b.order mu, ?_, ?_, rfl, rfl, ?_,
    hnum, hstart, hstop, ?_, (rel_matC _ _ _ _ _ (by omega)).1,
    fun j hj => hkn' j (by rw [hk1size]; omega), rfl⟩
  · have hw : wrapX b x = .ok x := by
      unfold wrapX
      rw [if_pos (by rw [hk]; omega),
        if_neg (not_or.2 ⟨not_lt.2 hx.1, not_lt.2 hx.2⟩)]
    rw [insertKnot_eq_direct b x (not_coverCond_of_guard b hp k hk hguard), hw]
    have hidx : ¬ idxErr b x mu := by
      unfold idxErr
      omega
    simp only []
    unfold directForm
    rw [← hmu, if_neg (by omega), if_neg (by omega), if_neg hidx]
  · refine ⟨hp, ?_, fun i hi => ?_, by rw [hk]; omega, hv.periodic_le, ?_, fun _ i hi => ?_⟩
    · change 2 * b.order ≤ (repair b knots1 mu).size
      rw [hrs]; omega
    · have hi' : i + 1 < knots1.size := by
        have : i + 1 < (repair b knots1 mu).size := hi
        rwa [hrs] at this
      rw [hkn' _ (by omega), hkn' _ hi']
      exact hS i (by omega)
    · rw [hstart, hstop]; exact hv.start_lt_stop
    · rw [hnum] at hi ⊢
      have hi' : i + (n + 1) < knots1.size := by
        have : i + (n + 1) < (repair b knots1 mu).size := hi
        rwa [hrs] at this
      rw [hstart, hstop, hkn' _ hi', hkn' _ (by omega)]
      exact hG i (by omega)
  · change (repair b knots1 mu).size = _
    rw [hrs, hk1size]; omega
  · intro j h1 h2
    rw [hkn' _ (by omega)]
    exact hM j h1 h2

end C04
end Splipy

namespace Splipy
namespace C04

set_option linter.unusedSectionVars false

variable {K : Type} [Field K] [LinearOrder K] [IsStrictOrderedRing K] [FloorRing K]

/-- `bisect_right` of a value below the end does not pass the end index: the clamp is idle. -/
theorem insertMu_of_lt_stop (b : Basis K) (hv : b.Valid) (x : K) (hx : x < b.stop) :
    b.insertMu x = b.bisectR x := by
  apply insertMu_of_le
  have hmono : Monotone b.kn := kn_mono hv.sorted
  obtain ⟨_, hm2, _⟩ := bisectRight_spec b.kn hmono x b.knots.size
  have hsz := hv.size_ge
  have hp := hv.order_pos
  by_contra hlt
  have h2 : b.kn (b.knots.size - b.order) ≤ x := hm2 _ (by unfold Basis.bisectR at hlt; omega)
  exact absurd hx (not_lt.2 h2)

/-- `insertKnot_periodic_le` for `x < end`, in terms of `bisect_right` (the form used by C07/C08). -/
theorem insertKnot_periodic (b : Basis K) (hv : b.Valid) (k : ℕ) (hk : b.periodic = (k : Int))
    (hguard : b.order + k ≤ b.numFunctions) (x : K) (hx : b.start ≤ x ∧ x < b.stop) :
    ∃ b' C, b.insertKnot x = .ok (b', C) ∧ b'.Valid ∧ b'.order = b.order ∧
      b'.periodic = b.periodic ∧ b'.knots.size = b.knots.size + 1 ∧
      b'.numFunctions = b.numFunctions + 1 ∧ b'.start = b.start ∧ b'.stop = b.stop ∧
      (∀ j, b.order + k < j → j < b.numFunctions + 1 →
        b'.kn j = insertSeq b.kn (b.bisectR x) x j) ∧
      Shape (b.numFunctions + 1) b.numFunctions C ∧
      (∀ j, j < b.knots.size + 1 →
        b'.kn j = repSeq (insertSeq b.kn (b.bisectR x) x) (b.bisectR x) b.numFunctions (b.order + k) j) ∧
      C = matC b.kn x b.numFunctions b.order (b.bisectR x) := by
  have := insertKnot_periodic_le b hv k hk hguard x ⟨hx.1, le_of_lt hx.2⟩
  rwa [insertMu_of_lt_stop b hv x hx.2] at this

/-- Python's `x % y` for `y > 0` lies in `[0, y)`. -/
theorem pmod_mem (x y : K) (hy : 0 < y) : 0 ≤ pmod x y ∧ pmod x y < y := by
  unfold pmod
  have h1 : ((⌊x / y⌋ : ℤ) : K) ≤ x / y := Int.floor_le _
  have h2 : x / y < ((⌊x / y⌋ : ℤ) : K) + 1 := Int.lt_floor_add_one _
  have e : x / y * y = x := div_mul_cancel₀ x (ne_of_gt hy)
  have h1' := mul_le_mul_of_nonneg_right h1 (le_of_lt hy)
  have h2' := mul_lt_mul_of_pos_right h2 hy
  rw [e] at h1' h2'
  constructor
  · linarith
  · linarith

/-- the value `insert_knot` really inserts into a periodic basis -/
def wrapVal (b : Basis K) (x0 : K) : K :=
  if x0 < b.start ∨ x0 > b.stop then pmod (x0 - b.start) (b.stop - b.start) + b.start else x0

theorem wrapVal_mem (b : Basis K) (hlt : b.start < b.stop) (x0 : K) :
    b.start ≤ wrapVal b x0 ∧ wrapVal b x0 ≤ b.stop ∧ (x0 ≠ b.stop → wrapVal b x0 < b.stop) := by
  unfold wrapVal
  by_cases h : x0 < b.start ∨ x0 > b.stop
  · rw [if_pos h]
    obtain ⟨h1, h2⟩ := pmod_mem (x0 - b.start) (b.stop - b.start) (sub_pos.2 hlt)
    exact ⟨by linarith, by linarith, fun _ => by linarith⟩
  · rw [if_neg h]
    rw [not_or, not_lt, not_lt] at h
    exact ⟨h.1, h.2, fun hne => lt_of_le_of_ne h.2 hne⟩

/-- Inserting any real into a periodic basis is inserting its wrapped image. -/
theorem insertKnot_wrap (b : Basis K) (hper : 0 ≤ b.periodic) (hlt : b.start < b.stop) (x0 : K) :
    b.insertKnot x0 = b.insertKnot (wrapVal b x0) := by
  obtain ⟨h1, h2, _⟩ := wrapVal_mem b hlt x0
  have hT : ¬ b.stop - b.start = 0 := ne_of_gt (sub_pos.2 hlt)
  have e1 : wrapX b x0 = .ok (wrapVal b x0) := by
    unfold wrapX wrapVal; rw [if_pos hper]
    by_cases ho : x0 < b.start ∨ x0 > b.stop
    · rw [if_pos ho, if_pos ho, if_neg hT]
    · rw [if_neg ho, if_neg ho]
  have e2 : wrapX b (wrapVal b x0) = .ok (wrapVal b x0) := by
    have : ¬ (wrapVal b x0 < b.start ∨ wrapVal b x0 > b.stop) :=
      not_or.2 ⟨not_lt.2 h1, not_lt.2 h2⟩
    unfold wrapX; rw [if_pos hper, if_neg this]
  unfold Basis.insertKnot
  rw [← wrapX_eq, ← wrapX_eq, e1, e2]

end C04
end Splipy
