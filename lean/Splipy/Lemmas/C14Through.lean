import Splipy.Lemmas.C06Tensor
import Splipy.Lemmas.C14Tensor
set_option linter.unusedSectionVars false
set_option linter.unusedSimpArgs false

/-!
# C14: the transposes between factory and constructor cancel

`cp.transpose(pd-1,…,0,pd).reshape((prod, dim))` in the factories followed by the constructor's
`reshape(cps, shape, order='F')` is the identity on the control net (`Interp.throughConstructor`),
for surfaces (3-d nets) and volumes (4-d nets).  Uses `C06.getIdx_swapAxes`.
-/

namespace Splipy
namespace Interp
open C06 Tensor

variable {K : Type} [Field K]

theorem flat_decode3 (A B C f : ℕ) (hf : f < A * B * C) :
    ∃ i j k, i < A ∧ j < B ∧ k < C ∧ f = (i * B + j) * C + k := by
  have hC : 0 < C := by
    rcases Nat.eq_zero_or_pos C with h | h
    · subst h; simp at hf
    · exact h
  have hB : 0 < B := by
    rcases Nat.eq_zero_or_pos B with h | h
    · subst h; simp at hf
    · exact h
  refine ⟨f / C / B, f / C % B, f % C, ?_, Nat.mod_lt _ hB, Nat.mod_lt _ hC, ?_⟩
  · rw [Nat.div_div_eq_div_mul, Nat.div_lt_iff_lt_mul (Nat.mul_pos hC hB)]
    calc f < A * B * C := hf
      _ = A * (C * B) := by ring
  · have h1 := Nat.div_add_mod (f / C) B
    have h2 := Nat.div_add_mod f C
    rw [Nat.mul_comm (f / C / B) B, h1, Nat.mul_comm (f / C) C, h2]

/-- Two tensors of the same 3-d shape with full data arrays and equal entries are equal. -/
theorem tensor_ext3 (t r : Tensor K) {A B C : ℕ} (ht : t.shape = [A, B, C]) (hr : r.shape = [A, B, C])
    (st : t.data.size = A * B * C) (sr : r.data.size = A * B * C)
    (h : ∀ i < A, ∀ j < B, ∀ k < C, r.entry3 B C i j k = t.entry3 B C i j k) : r = t := by
  obtain ⟨tsh, tdata⟩ := t
  obtain ⟨rsh, rdata⟩ := r
  simp only at ht hr st sr
  subst ht hr
  congr 1
  apply Array.ext (by rw [st, sr])
  intro f h1 h2
  obtain ⟨i, j, k, hi, hj, hk, hf⟩ := flat_decode3 A B C f (by rw [← sr]; exact h1)
  have := h i hi j hj k hk
  unfold Tensor.entry3 Tensor.get at this
  simp only at this
  rw [← hf] at this
  simpa [Array.getD, h1, h2] using this

theorem getIdx3 (t : Tensor K) {A B C : ℕ} (ht : t.shape = [A, B, C]) (i j k : ℕ) :
    getIdx t [i, j, k] = t.entry3 B C i j k := by
  unfold getIdx Tensor.entry3
  rw [ht]
  congr 1
  simp [flatIdx, Tensor.prod]
  ring

theorem shape_swapAxes (t : Tensor K) (a b : ℕ) (hab : a ≠ b) :
    (t.swapAxes a b).shape = (t.shape.set a (t.shape.getD b 1)).set b (t.shape.getD a 1) := by
  unfold Tensor.swapAxes
  rw [if_neg hab]

theorem size_swapAxes (t : Tensor K) (a b : ℕ) (hab : a ≠ b) :
    (t.swapAxes a b).data.size = Tensor.prod ((t.shape.set a (t.shape.getD b 1)).set b (t.shape.getD a 1)) := by
  unfold Tensor.swapAxes
  rw [if_neg hab]
  simp

/-- Surfaces: the factory transpose/reshape followed by the constructor's `order='F'` reshape
returns the control net unchanged (shape and every entry). -/
theorem throughConstructor3 (cp : Tensor K) {A B C : ℕ} (hs : cp.shape = [A, B, C]) :
    ∃ r, throughConstructor cp 2 = .ok r ∧ r.shape = [A, B, C] ∧ r.data.size = A * B * C ∧
      ∀ i < A, ∀ j < B, ∀ k < C, r.entry3 B C i j k = cp.entry3 B C i j k := by
  have hS1 : (cp.swapAxes 0 1).shape = [B, A, C] := by
    rw [shape_swapAxes _ _ _ (by decide), hs]; rfl
  unfold throughConstructor
  simp only [bind, Except.bind, pure, Except.pure, Nat.add_one_sub_one, hs, List.take, List.getLastD,
    Interp.reshape, hS1]
  have e1 : Tensor.prod [Tensor.prod [A, B], C] = Tensor.prod [B, A, C] := by
    simp only [Tensor.prod, List.foldl]; ring
  have e2 : Tensor.prod ([A, B].reverse ++ [C]) = Tensor.prod [Tensor.prod [A, B], C] := by
    simp only [Tensor.prod, List.foldl, List.reverse_cons, List.reverse_nil, List.nil_append, List.cons_append]; ring
  simp only [List.getLast?, List.getLast, Option.getD, e1, e2, ne_eq, not_true_eq_false, if_false]
  set S1 := cp.swapAxes 0 1 with hS1def
  have hback : ({ shape := [A, B].reverse ++ [C], data := S1.data } : Tensor K) = S1 := by
    rcases hS : S1 with ⟨sh, d⟩
    rw [hS] at hS1
    simp only at hS1
    subst hS1
    rfl
  rw [hback]
  refine ⟨_, rfl, ?_, ?_, ?_⟩
  · rw [shape_swapAxes _ _ _ (by decide), hS1]; rfl
  · rw [size_swapAxes _ _ _ (by decide), hS1]; simp [Tensor.prod]
  · intro i hi j hj k hk
    have hsh2 : (S1.swapAxes 0 1).shape = [A, B, C] := by
      rw [shape_swapAxes _ _ _ (by decide), hS1]; rfl
    have r1 : InRange [j, i, k] S1.shape := by
      rw [hS1]; exact List.Forall₂.cons hj (List.Forall₂.cons hi (List.Forall₂.cons hk List.Forall₂.nil))
    have r2 : InRange [i, j, k] cp.shape := by
      rw [hs]; exact List.Forall₂.cons hi (List.Forall₂.cons hj (List.Forall₂.cons hk List.Forall₂.nil))
    have g1 := getIdx_swapAxes S1 0 1 [j, i, k] (by rw [hS1]; simp) (by rw [hS1]; simp) r1
    have g2 := getIdx_swapAxes cp 0 1 [i, j, k] (by rw [hs]; simp) (by rw [hs]; simp) r2
    have s1 : swapL [j, i, k] 0 1 0 = [i, j, k] := by simp [swapL]
    have s2 : swapL [i, j, k] 0 1 0 = [j, i, k] := by simp [swapL]
    rw [s1] at g1
    rw [s2] at g2
    rw [← getIdx3 _ hsh2, ← getIdx3 _ hs, g1, g2]

/-! ### Volumes -/

theorem flat_decode4 (A B C D f : ℕ) (hf : f < A * B * C * D) :
    ∃ i j k l, i < A ∧ j < B ∧ k < C ∧ l < D ∧ f = ((i * B + j) * C + k) * D + l := by
  have hD : 0 < D := by
    rcases Nat.eq_zero_or_pos D with h | h
    · subst h; simp at hf
    · exact h
  have h3 : f / D < A * B * C := by
    rw [Nat.div_lt_iff_lt_mul hD]; exact hf
  obtain ⟨i, j, k, hi, hj, hk, he⟩ := flat_decode3 A B C (f / D) h3
  refine ⟨i, j, k, f % D, hi, hj, hk, Nat.mod_lt _ hD, ?_⟩
  rw [← he, Nat.mul_comm (f / D) D, Nat.div_add_mod]

theorem tensor_ext4 (t r : Tensor K) {A B C D : ℕ} (ht : t.shape = [A, B, C, D]) (hr : r.shape = [A, B, C, D])
    (st : t.data.size = A * B * C * D) (sr : r.data.size = A * B * C * D)
    (h : ∀ i < A, ∀ j < B, ∀ k < C, ∀ l < D, r.entry4 B C D i j k l = t.entry4 B C D i j k l) : r = t := by
  obtain ⟨tsh, tdata⟩ := t
  obtain ⟨rsh, rdata⟩ := r
  simp only at ht hr st sr
  subst ht hr
  congr 1
  apply Array.ext (by rw [st, sr])
  intro f h1 h2
  obtain ⟨i, j, k, l, hi, hj, hk, hl, hf⟩ := flat_decode4 A B C D f (by rw [← sr]; exact h1)
  have := h i hi j hj k hk l hl
  unfold Tensor.entry4 Tensor.get at this
  simp only at this
  rw [← hf] at this
  simpa [Array.getD, h1, h2] using this

theorem getIdx4 (t : Tensor K) {A B C D : ℕ} (ht : t.shape = [A, B, C, D]) (i j k l : ℕ) :
    getIdx t [i, j, k, l] = t.entry4 B C D i j k l := by
  unfold getIdx Tensor.entry4
  rw [ht]
  congr 1
  simp [flatIdx, Tensor.prod]
  ring

/-- Volumes: `cp.transpose(2,1,0,3).reshape(...)` followed by the constructor's `order='F'` reshape
returns the control net unchanged. -/
theorem throughConstructor4 (cp : Tensor K) {A B C D : ℕ} (hs : cp.shape = [A, B, C, D]) :
    ∃ r, throughConstructor cp 3 = .ok r ∧ r.shape = [A, B, C, D] ∧ r.data.size = A * B * C * D ∧
      ∀ i < A, ∀ j < B, ∀ k < C, ∀ l < D, r.entry4 B C D i j k l = cp.entry4 B C D i j k l := by
  have hS1 : (cp.swapAxes 0 2).shape = [C, B, A, D] := by
    rw [shape_swapAxes _ _ _ (by decide), hs]; rfl
  unfold throughConstructor
  simp only [bind, Except.bind, pure, Except.pure, Nat.add_one_sub_one, hs, List.take, List.getLastD,
    Interp.reshape, hS1]
  have e1 : Tensor.prod [Tensor.prod [A, B, C], D] = Tensor.prod [C, B, A, D] := by
    simp only [Tensor.prod, List.foldl]; ring
  have e2 : Tensor.prod ([A, B, C].reverse ++ [D]) = Tensor.prod [Tensor.prod [A, B, C], D] := by
    simp only [Tensor.prod, List.foldl, List.reverse_cons, List.reverse_nil, List.nil_append, List.cons_append]; ring
  simp only [List.getLast?, List.getLast, Option.getD, e1, e2, ne_eq, not_true_eq_false, if_false]
  set S1 := cp.swapAxes 0 2 with hS1def
  have hback : ({ shape := [A, B, C].reverse ++ [D], data := S1.data } : Tensor K) = S1 := by
    rcases hS : S1 with ⟨sh, d⟩
    rw [hS] at hS1
    simp only at hS1
    subst hS1
    rfl
  rw [hback]
  refine ⟨_, rfl, ?_, ?_, ?_⟩
  · rw [shape_swapAxes _ _ _ (by decide), hS1]; rfl
  · rw [size_swapAxes _ _ _ (by decide), hS1]; simp [Tensor.prod]
  · intro i hi j hj k hk l hl
    have hsh2 : (S1.swapAxes 0 2).shape = [A, B, C, D] := by
      rw [shape_swapAxes _ _ _ (by decide), hS1]; rfl
    have r1 : InRange [k, j, i, l] S1.shape := by
      rw [hS1]
      exact List.Forall₂.cons hk (List.Forall₂.cons hj (List.Forall₂.cons hi (List.Forall₂.cons hl List.Forall₂.nil)))
    have r2 : InRange [i, j, k, l] cp.shape := by
      rw [hs]
      exact List.Forall₂.cons hi (List.Forall₂.cons hj (List.Forall₂.cons hk (List.Forall₂.cons hl List.Forall₂.nil)))
    have g1 := getIdx_swapAxes S1 0 2 [k, j, i, l] (by rw [hS1]; simp) (by rw [hS1]; simp) r1
    have g2 := getIdx_swapAxes cp 0 2 [i, j, k, l] (by rw [hs]; simp) (by rw [hs]; simp) r2
    have s1 : swapL [k, j, i, l] 0 2 0 = [i, j, k, l] := by simp [swapL]
    have s2 : swapL [i, j, k, l] 0 2 0 = [k, j, i, l] := by simp [swapL]
    rw [s1] at g1
    rw [s2] at g2
    rw [← getIdx4 _ hsh2, ← getIdx4 _ hs, g1, g2]

end Interp
end Splipy
