import Splipy.Lemmas.C18Ifem
import Splipy.Lemmas.C17Count

/-!
# C18 — `IFEMWriter.connections` on a catalogue satisfying the invariant of C17
-/

namespace Splipy.MP.C18L

theorem tops_idxOf_inj (sm : SplineModel) :
    ∀ a ∈ sm.tops, ∀ b ∈ sm.tops, sm.tops.idxOf a = sm.tops.idxOf b → a = b :=
  fun _ ha _ _ h => (List.idxOf_inj ha).1 h

theorem faceSec_vdirs : ∀ P ∈ [1, 2, 3], ∀ sec ∈ sections P (P - 1), (Orientation.variableDirs sec).length = P - 1 := by
  decide

theorem ifemFormat_some (o : Orientation) (n : ℕ) (ho : o.WF n) (hn : n ≤ 2) : ∃ c, o.ifemFormat = some c := by
  have hl := ho.2
  unfold Orientation.ifemFormat
  match hf : o.flip with
  | [] => exact ⟨_, rfl⟩
  | [f] => exact ⟨_, rfl⟩
  | [_, _] => exact ⟨_, rfl⟩
  | _ :: _ :: _ :: _ => rw [hf] at hl; simp at hl; omega

theorem mapM_total {α β : Type} (f : α → Except NErr β) :
    ∀ (l : List α), (∀ a ∈ l, ∃ b, f a = .ok b) → ∃ bs, l.mapM f = .ok bs
  | [], _ => ⟨[], rfl⟩
  | a :: l, h => by
    obtain ⟨b, hb⟩ := h a (by simp)
    obtain ⟨bs, hbs⟩ := mapM_total f l (fun a' ha' => h a' (List.mem_cons_of_mem _ ha'))
    exact ⟨b :: bs, by rw [List.mapM_cons, hb, hbs]; rfl⟩

section
variable {nc : ℕ} {S : Obj → Prop} (sm : SplineModel) (hI : Inv nc S sm.cat)
include hI

theorem tops_spec : sm.tops.Nodup ∧ ∀ t, t ∈ sm.tops ↔ t < sm.cat.nodes.size ∧ (sm.cat.node t).obj.pardim = sm.pardim :=
  nodesOf_spec hI sm.pardim

theorem higher_mem_tops (sub t : ℕ) (ht : t ∈ ((sm.cat.node sub).higherAt sm.pardim).getD []) : t ∈ sm.tops := by
  by_cases hsub : sub < sm.cat.nodes.size
  · by_contra hnot
    have hz := higher_spec_zero hI (k := sub) (c := t) (d := sm.pardim) hsub
      (fun h => hnot ((tops_spec sm hI).2 t |>.2 h))
    exact absurd (List.count_pos_iff.2 ht) (by omega)
  · -- a node outside the array is the default node: no higher links
    have : sm.cat.node sub = default := by
      unfold Model.node
      rw [Array.getD_eq_getD_getElem?, Array.getElem?_eq_none (by omega)]; rfl
    rw [this] at ht
    have hd : (default : TNode).higher = [] := rfl
    simp [TNode.higherAt, hd] at ht

/-- the `lower_nodes[p-1]` of a top node: one node per codimension-1 section -/
theorem topLower_length (hP : 1 ≤ sm.pardim) {t : ℕ} (ht : t ∈ sm.tops) :
    ((sm.cat.node t).lower.getD (sm.pardim - 1) []).length = sm.faceSecs.length := by
  obtain ⟨hts, hpd⟩ := ((tops_spec sm hI).2 t).1 ht
  have := (hI.lowshape t hts).2 (sm.pardim - 1) (by rw [hpd]; omega)
  rw [hpd] at this
  exact this

theorem topLower_iff (hP : 1 ≤ sm.pardim) {t F j : ℕ} (ht : t ∈ sm.tops) (hF : F < sm.cat.nodes.size)
    (hj : j < sm.faceSecs.length) :
    ((sm.cat.node t).lower.getD (sm.pardim - 1) []).getD j 0 = F ↔
      Equiv (sm.cat.node F).obj ((sm.cat.node t).obj.sect (sm.faceSecs.getD j [])) := by
  obtain ⟨hts, hpd⟩ := ((tops_spec sm hI).2 t).1 ht
  have := lower_eq_iff hI (c := t) (F := F) (i := sm.pardim - 1) (j := j) hts hF (by rw [hpd]; omega)
    (by rw [hpd]; exact hj)
  rw [hpd] at this
  exact this

theorem topLower_lt (hP : 1 ≤ sm.pardim) {t j : ℕ} (ht : t ∈ sm.tops) (hj : j < sm.faceSecs.length) :
    ((sm.cat.node t).lower.getD (sm.pardim - 1) []).getD j 0 < sm.cat.nodes.size ∧
    ((sm.cat.node t).lower.getD (sm.pardim - 1) []).getD j 0 ∈ (sm.cat.node t).lower.flatten := by
  obtain ⟨hts, hpd⟩ := ((tops_spec sm hI).2 t).1 ht
  have hlen := (hI.lowshape t hts).1
  have hi : sm.pardim - 1 < (sm.cat.node t).lower.length := by rw [hlen, hpd]; omega
  have hjl : j < ((sm.cat.node t).lower.getD (sm.pardim - 1) []).length := by
    rw [topLower_length sm hI hP ht]; exact hj
  have hmem : ((sm.cat.node t).lower.getD (sm.pardim - 1) []).getD j 0 ∈ (sm.cat.node t).lower.flatten := by
    rw [List.mem_flatten]
    refine ⟨(sm.cat.node t).lower.getD (sm.pardim - 1) [], ?_, ?_⟩
    · rw [List.getD_eq_getElem _ _ hi]; exact List.getElem_mem _
    · rw [List.getD_eq_getElem _ _ hjl]; exact List.getElem_mem _
  exact ⟨hI.lowlt t hts _ hmem, hmem⟩

theorem faceSec_gu (hP3 : sm.pardim ≤ 3) {t j : ℕ} (ht : t ∈ sm.tops) (hj : j < sm.faceSecs.length) :
    GU nc ((sm.cat.node t).obj.sect (sm.faceSecs.getD j [])) := by
  obtain ⟨hts, hpd⟩ := ((tops_spec sm hI).2 t).1 ht
  have hmem : sm.faceSecs.getD j [] ∈ sections sm.pardim (sm.pardim - 1) := by
    rw [List.getD_eq_getElem _ _ hj]; exact List.getElem_mem _
  exact (hI.gu hts).sect (by rw [hpd]; exact (mem_sections hP3 (by omega) hmem).1)

/-- **membership in the connection list, in terms of the geometry** (`≈` = `Orientation.compute`
    does not raise): `(a, i, b, j)` is yielded iff the `i`-th face of the patch at position `a`
    and the `j`-th face of the patch at position `b` are the same entity, and `a < b`, or `a = b`
    and `i < j`. -/
theorem mem_connPairs_catalogue (hP : 1 ≤ sm.pardim) (hP3 : sm.pardim ≤ 3) (a i b j : ℕ) :
    (a, i, b, j) ∈ connPairs sm.topLowers sm.topNbrs ↔
      a < sm.tops.length ∧ b < sm.tops.length ∧ i < sm.faceSecs.length ∧ j < sm.faceSecs.length ∧
      Equiv ((sm.topObj a).sect (sm.faceSecs.getD i [])) ((sm.topObj b).sect (sm.faceSecs.getD j [])) ∧
      (a < b ∨ (a = b ∧ i < j)) := by
  obtain ⟨hnd, htops⟩ := tops_spec sm hI
  have hlow : ∀ a, a < sm.tops.length →
      sm.topLowers[a]? = some ((sm.cat.node (sm.tops.getD a 0)).lower.getD (sm.pardim - 1) []) := by
    intro a ha
    simp [SplineModel.topLowers, List.getD_eq_getElem?_getD, ha]
  have hmemt : ∀ a, a < sm.tops.length → sm.tops.getD a 0 ∈ sm.tops := by
    intro a ha
    rw [List.getD_eq_getElem _ _ ha]; exact List.getElem_mem _
  rw [mem_connPairs]
  constructor
  · rintro ⟨la, sub, h1, h2, -, hab, h5, hij⟩
    have ha : a < sm.tops.length := by
      have := (List.getElem?_eq_some_iff.1 h1).1
      simpa [SplineModel.topLowers] using this
    have hb : b < sm.tops.length := by
      by_contra hb
      have : sm.topLowers.getD b [] = [] := by
        rw [List.getD_eq_getElem?_getD, List.getElem?_eq_none (by simp [SplineModel.topLowers]; omega)]; rfl
      rw [this] at h5; simp at h5
    rw [hlow a ha] at h1
    cases h1
    have h5' : ((sm.cat.node (sm.tops.getD b 0)).lower.getD (sm.pardim - 1) [])[j]? = some sub := by
      rw [List.getD_eq_getElem?_getD, hlow b hb] at h5; exact h5
    have hi : i < sm.faceSecs.length := by
      rw [← topLower_length sm hI hP (hmemt a ha)]; exact (List.getElem?_eq_some_iff.1 h2).1
    have hj : j < sm.faceSecs.length := by
      rw [← topLower_length sm hI hP (hmemt b hb)]; exact (List.getElem?_eq_some_iff.1 h5').1
    have hsa : ((sm.cat.node (sm.tops.getD a 0)).lower.getD (sm.pardim - 1) []).getD i 0 = sub := by
      rw [List.getD_eq_getElem?_getD, h2]; rfl
    have hsb : ((sm.cat.node (sm.tops.getD b 0)).lower.getD (sm.pardim - 1) []).getD j 0 = sub := by
      rw [List.getD_eq_getElem?_getD, h5']; rfl
    have hsub : sub < sm.cat.nodes.size := hsa ▸ (topLower_lt sm hI hP (hmemt a ha) hi).1
    have e1 := (topLower_iff sm hI hP (hmemt a ha) hsub hi).1 hsa
    have e2 := (topLower_iff sm hI hP (hmemt b hb) hsub hj).1 hsb
    have g0 := hI.gu hsub
    have g1 := faceSec_gu sm hI hP3 (hmemt a ha) hi
    have g2 := faceSec_gu sm hI hP3 (hmemt b hb) hj
    refine ⟨ha, hb, hi, hj, g1.equiv_trans g0 g2 (g0.equiv_symm g1 e1) e2, ?_⟩
    rcases Nat.lt_or_eq_of_le hab with h | h
    · exact Or.inl h
    · exact Or.inr ⟨h, hij h.symm⟩
  · rintro ⟨ha, hb, hi, hj, heq, hord⟩
    set sub := ((sm.cat.node (sm.tops.getD a 0)).lower.getD (sm.pardim - 1) []).getD i 0 with hsubdef
    have hsub := (topLower_lt sm hI hP (hmemt a ha) hi).1
    have e1 := (topLower_iff sm hI hP (hmemt a ha) hsub hi).1 rfl
    have g0 := hI.gu hsub
    have g1 := faceSec_gu sm hI hP3 (hmemt a ha) hi
    have g2 := faceSec_gu sm hI hP3 (hmemt b hb) hj
    have hsb : ((sm.cat.node (sm.tops.getD b 0)).lower.getD (sm.pardim - 1) []).getD j 0 = sub :=
      (topLower_iff sm hI hP (hmemt b hb) hsub hj).2 (g0.equiv_trans g1 g2 e1 heq)
    have hil : i < ((sm.cat.node (sm.tops.getD a 0)).lower.getD (sm.pardim - 1) []).length := by
      rw [topLower_length sm hI hP (hmemt a ha)]; exact hi
    have hjl : j < ((sm.cat.node (sm.tops.getD b 0)).lower.getD (sm.pardim - 1) []).length := by
      rw [topLower_length sm hI hP (hmemt b hb)]; exact hj
    refine ⟨_, sub, hlow a ha, ?_, ?_, by omega, ?_, fun h => by omega⟩
    · rw [List.getElem?_eq_getElem hil, hsubdef, List.getD_eq_getElem _ _ hil]
    · -- `b` is registered as a neighbour of `sub`
      unfold SplineModel.topNbrs
      refine List.mem_map.2 ⟨sm.tops.getD b 0, List.mem_dedup.2 ?_, ?_⟩
      · obtain ⟨hts, hpd⟩ := (htops _).1 (hmemt b hb)
        have hc := higher_spec hI (k := sub) (c := sm.tops.getD b 0) hsub hts
        rw [hpd] at hc
        have hpos : 0 < (sm.cat.node (sm.tops.getD b 0)).lower.flatten.count sub := by
          rw [List.count_pos_iff, ← hsb]
          exact (topLower_lt sm hI hP (hmemt b hb) hj).2
        exact List.count_pos_iff.1 (by omega)
      · rw [List.getD_eq_getElem _ _ hb]
        exact hnd.idxOf_getElem b hb
    · rw [List.getD_eq_getElem?_getD, hlow b hb]
      simp only [Option.getD_some]
      rw [List.getElem?_eq_getElem hjl, ← hsb, List.getD_eq_getElem _ _ hjl]

/-- **`connections()` does not raise** on a catalogue satisfying the invariant (`1 ≤ P ≤ 3`). -/
theorem connections_total (hP : 1 ≤ sm.pardim) (hP3 : sm.pardim ≤ 3) : ∃ cs, sm.connections = .ok cs := by
  unfold SplineModel.connections
  apply mapM_total
  rintro ⟨a, i, b, j⟩ hq
  obtain ⟨ha, hb, hi, hj, ⟨o, ho⟩, -⟩ := (mem_connPairs_catalogue sm hI hP hP3 a i b j).1 hq
  have hs1 : sectionFromIndex sm.pardim (sm.pardim - 1) i = some (sm.faceSecs.getD i []) := by
    unfold sectionFromIndex SplineModel.faceSecs at *
    rw [List.getD_eq_getElem?_getD, List.getElem?_eq_getElem hi]; rfl
  have hs2 : sectionFromIndex sm.pardim (sm.pardim - 1) j = some (sm.faceSecs.getD j []) := by
    unfold sectionFromIndex SplineModel.faceSecs at *
    rw [List.getD_eq_getElem?_getD, List.getElem?_eq_getElem hj]; rfl
  have hwf := (compute_sound _ _ o ho).1
  have hpd : ((sm.topObj a).sect (sm.faceSecs.getD i [])).pardim = sm.pardim - 1 := by
    rw [Obj.sect_pardim]
    have hmem : sm.faceSecs.getD i [] ∈ sections sm.pardim (sm.pardim - 1) := by
      rw [List.getD_eq_getElem _ _ hi]; exact List.getElem_mem _
    have hPm : sm.pardim ∈ [1, 2, 3] := by
      have : sm.pardim = 1 ∨ sm.pardim = 2 ∨ sm.pardim = 3 := by omega
      simpa using this
    exact faceSec_vdirs sm.pardim hPm _ hmem
  rw [hpd] at hwf
  obtain ⟨c, hc⟩ := ifemFormat_some o _ hwf (by omega)
  have ho' : Orientation.compute ((sm.cat.node (sm.tops.getD a 0)).obj.sect (sm.faceSecs.getD i []))
      ((sm.cat.node (sm.tops.getD b 0)).obj.sect (sm.faceSecs.getD j [])) = .ok o := ho
  refine ⟨⟨a + 1, b + 1, i + 1, j + 1, c⟩, ?_⟩
  unfold SplineModel.connOf
  simp only [hs1, hs2, ho', hc]

end

end Splipy.MP.C18L
