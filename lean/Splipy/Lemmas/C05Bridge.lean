import Splipy.Lemmas.C05Clamped
import Splipy.Lemmas.C05Volume
import Splipy.Lemmas.BridgeC05
import Splipy.Lemmas.BridgePointwise
import Splipy.Lemmas.C05PerGeom
import Splipy.Lemmas.C05PerDir

/-!
# C05 ⇒ `evaluate` for surfaces: the re-netted object returns the same tensor

`renet` along a direction gives `Bridge.SameAlong` with the specification rows at every parameter
admissible for the old and the new basis (from `RowsVia` and `Bridge.specRow_eq_evaluate`); two such
steps and `Bridge.transfer_surface_u/v` give equality of the tensors returned by `Obj.evaluate`.
-/

namespace Splipy

set_option linter.unusedSectionVars false

variable {K : Type} [Field K] [LinearOrder K] [IsStrictOrderedRing K] [FloorRing K]

open Finset C06

variable {m : ℕ}

/-- Fibres of the re-netted control array. -/
theorem renet_fibre {o : Obj K} (hw : C06.WF o m) (d : Fin m) (b' : Basis K) (E : ℕ → ℕ → K)
    (a i r : ℕ) (ha : a < C04.outerN o d) (hi : i < C04.innerN o d) (hr : r < b'.numFunctions) :
    C04.fibre (renet o d b' E) d a i r = ∑ j ∈ range (o.basis d).numFunctions, E j r * C04.fibre o d a i j := by
  have hax : (d : ℕ) < o.cps.shape.length := by rw [hw.shape, midx_length]; omega
  show (Tensor.applyAxis (matOfE E (o.basis d).numFunctions b'.numFunctions) o.cps d).at3 d a r i = _
  rw [C04.applyAxis_fibre _ o.cps d hax a r i ha (by rw [matOfE_size]; exact hr) hi]
  unfold C04.mulVec
  have hn : (Tensor.split3 o.cps.shape d).2.1 = (o.basis d).numFunctions := by
    show o.cps.shape.getD d 1 = _
    rw [hw.shape, midx_getD_lt]
  rw [hn]
  apply sum_congr rfl
  intro j hj
  rw [matOfE_entry E _ _ r j hr (mem_range.mp hj)]
  rfl

/-- `renet` through a matrix that reproduces the executable rows is `SameAlong` at every parameter
    admissible for both bases. -/
theorem renet_sameAlong {o : Obj K} (hw : C06.WF o m) (d : Fin m) {tol : K} (htol : 0 < tol) (b' : Basis K)
    (hv' : b'.Valid) (E : ℕ → ℕ → K) (hrows : RowsVia tol (o.basis d) b' (o.basis d).numFunctions E) {u : K}
    (hu : (o.basis d).Admissible tol u) (hu' : b'.Admissible tol u) :
    Bridge.SameAlong o (renet o d b' E) d (o.basis d).numFunctions b'.numFunctions
      ((o.basis d).specRow u) (b'.specRow u) := by
  intro a i ha hi
  have h := hrows (fun j => C04.fibre o d a i j) u
  have l : ∑ r ∈ range b'.numFunctions, b'.specRow u r * C04.fibre (renet o d b' E) d a i r
      = ∑ k ∈ range b'.numFunctions, (b'.evaluate tol u 0 true).getD k 0
          * ∑ j ∈ range (o.basis d).numFunctions, C04.fibre o d a i j * E j k := by
    apply sum_congr rfl
    intro r hr
    rw [Bridge.specRow_eq_evaluate hv' htol hu' (mem_range.mp hr),
      renet_fibre hw d b' E a i r ha hi (mem_range.mp hr)]
    congr 1
    apply sum_congr rfl
    intro j _
    ring
  have r : ∑ j ∈ range (o.basis d).numFunctions, (o.basis d).specRow u j * C04.fibre o d a i j
      = ∑ j ∈ range (o.basis d).numFunctions, ((o.basis d).evaluate tol u 0 true).getD j 0 * C04.fibre o d a i j := by
    apply sum_congr rfl
    intro j hj
    rw [Bridge.specRow_eq_evaluate (hw.valid d) htol hu (mem_range.mp hj)]
  rw [l, r]
  exact h

/-- The same from `RowsOn` (row identity only at parameters admissible for both bases). -/
theorem renet_sameAlong_on {o : Obj K} (hw : C06.WF o m) (d : Fin m) {tol : K} (htol : 0 < tol) (b' : Basis K)
    (hv' : b'.Valid) (E : ℕ → ℕ → K) (hrows : RowsOn tol (o.basis d) b' E) {u : K}
    (hu : (o.basis d).Admissible tol u) (hu' : b'.Admissible tol u) :
    Bridge.SameAlong o (renet o d b' E) d (o.basis d).numFunctions b'.numFunctions
      ((o.basis d).specRow u) (b'.specRow u) := by
  intro a i ha hi
  have h := hrows (fun j => C04.fibre o d a i j) u hu hu'
  have l : ∑ r ∈ range b'.numFunctions, b'.specRow u r * C04.fibre (renet o d b' E) d a i r
      = ∑ k ∈ range b'.numFunctions, (b'.evaluate tol u 0 true).getD k 0
          * ∑ j ∈ range (o.basis d).numFunctions, C04.fibre o d a i j * E j k := by
    apply sum_congr rfl
    intro r hr
    rw [Bridge.specRow_eq_evaluate hv' htol hu' (mem_range.mp hr),
      renet_fibre hw d b' E a i r ha hi (mem_range.mp hr)]
    congr 1
    apply sum_congr rfl
    intro j _
    ring
  have r : ∑ j ∈ range (o.basis d).numFunctions, (o.basis d).specRow u j * C04.fibre o d a i j
      = ∑ j ∈ range (o.basis d).numFunctions, ((o.basis d).evaluate tol u 0 true).getD j 0 * C04.fibre o d a i j := by
    apply sum_congr rfl
    intro j hj
    rw [Bridge.specRow_eq_evaluate (hw.valid d) htol hu (mem_range.mp hj)]
  rw [l, r]
  exact h

/-- "`o'` evaluates like `o`" for surfaces over the bases `(b1, b2)`, `(b1', b2')` (parameter lists of
non-periodic directions non-empty: the real code raises `ValueError` for `[]` there). -/
def SameEvalSurface (tol : K) (b1 b1' b2 b2' : Basis K) (o o' : Obj K) : Prop :=
  ∀ us vs : List K, (∀ u ∈ us, b1.Admissible tol u) → (∀ u ∈ us, b1'.Admissible tol u) →
    (∀ v ∈ vs, b2.Admissible tol v) → (∀ v ∈ vs, b2'.Admissible tol v) →
    (b1.periodic < 0 ∨ b1'.periodic < 0 → us ≠ []) → (b2.periodic < 0 ∨ b2'.periodic < 0 → vs ≠ []) →
    ∃ res, o.evaluate tol [us, vs] true = .ok res ∧ res.shape = [us.length, vs.length, o.dimension] ∧
      o'.evaluate tol [us, vs] true = .ok res ∧
      o'.evaluate tol [us, vs] false = o.evaluate tol [us, vs] false

/-- **Surfaces: `raise_order_implicit` under `DirOK` in both directions returns an object that
    evaluates to the same tensor** at parameters admissible for the old and new bases. -/
theorem raiseImplicit_surface_sameEval (o : Obj K) (tol : K) (htol : 0 < tol) (hw : C06.WF o 2) (au av : ℕ)
    (bu' bv' : Basis K) (Eu Ev : ℕ → ℕ → K) (hu : DirOK tol (o.basis 0) au bu' Eu)
    (hv : DirOK tol (o.basis 1) av bv' Ev) (hnc : o.rational = true → 1 ≤ o.ncomp) :
    ∃ o', o.raiseOrderImplicit tol [au, av] = .ok o'
      ∧ SameEvalSurface tol (o.basis 0) bu' (o.basis 1) bv' o o' := by
  obtain ⟨pu, Niu, hgu, Hu⟩ := hu.hsw
  obtain ⟨pv, Niv, hgv, Hv⟩ := hv.hsw
  have heq := raiseImplicit_surface_eq o tol hw au av bu' bv' hu.raise hv.raise pu pv hgu hgv Niu Niv Hu Hv
    Eu Ev hu.rows hv.rows
  refine ⟨_, heq, ?_⟩
  intro us vs hus hus' hvs hvs' hneU hneV
  have hneU1 : _ → us ≠ [] := fun h => hneU (Or.inl h)
  have hneU2 : _ → us ≠ [] := fun h => hneU (Or.inr h)
  have hneV1 : _ → vs ≠ [] := fun h => hneV (Or.inl h)
  have hneV2 : _ → vs ≠ [] := fun h => hneV (Or.inr h)
  have hb := bases_of_wf2 hw
  have hs := shape_of_wf2 hw
  obtain ⟨_, w1', b1d, b1k, n1', r1'⟩ := renet_dirOK hw (0 : Fin 2) tol au bu' Eu hu
  set o1 := renet o 0 bu' Eu with ho1
  have w1 : C06.WF o1 2 := w1'
  have n1 : o1.ncomp = o.ncomp := n1'
  have r1 : o1.rational = o.rational := r1'
  have hb11 : o1.basis 1 = o.basis 1 := b1k (1 : Fin 2) (by decide)
  have hb10 : o1.basis 0 = bu' := b1d
  have hb1 : o1.bases = #[bu', o.basis 1] := by rw [bases_of_wf2 w1, hb10, hb11]
  have hs1 : o1.cps.shape = [bu'.numFunctions, (o.basis 1).numFunctions, o.ncomp] := by
    rw [shape_of_wf2 w1, hb10, hb11, n1]
  have hv1' : DirOK tol (o1.basis ((1 : Fin 2) : ℕ)) av bv' Ev := by
    show DirOK tol (o1.basis 1) av bv' Ev
    rw [hb11]; exact hv
  obtain ⟨_, w2', b2d', b2k, n2', r2'⟩ := renet_dirOK w1 (1 : Fin 2) tol av bv' Ev hv1'
  set o2 := renet o1 1 bv' Ev with ho2
  have w2 : C06.WF o2 2 := w2'
  have n2 : o2.ncomp = o1.ncomp := n2'
  have r2 : o2.rational = o1.rational := r2'
  have b2d : o2.basis 1 = bv' := b2d'
  have hb20 : o2.basis 0 = bu' := (b2k (0 : Fin 2) (by decide)).trans hb10
  have hb2 : o2.bases = #[bu', bv'] := by rw [bases_of_wf2 w2, hb20, b2d]
  have hs2 : o2.cps.shape = [bu'.numFunctions, bv'.numFunctions, o.ncomp] := by
    rw [shape_of_wf2 w2, hb20, b2d, n2, n1]
  -- step 1: direction 0
  obtain ⟨e1, res, er, esh⟩ := Bridge.transfer_surface_u hb hb1 (hw.valid 0) hu.valid' (hw.valid 1) hs hs1 r1 hnc
    htol rfl hus hus' hvs
    (fun p hp => renet_sameAlong hw (0 : Fin 2) htol bu' hu.valid' Eu hu.rows
      (hus _ (getD_mem_of_lt us hp 0)) (hus' _ (getD_mem_of_lt us hp 0)))
  -- step 2: direction 1
  have hrows1 : RowsVia tol (o1.basis ((1 : Fin 2) : ℕ)) bv' (o1.basis ((1 : Fin 2) : ℕ)).numFunctions Ev := hv1'.rows
  have hvs1 : ∀ v ∈ vs, (o1.basis ((1 : Fin 2) : ℕ)).Admissible tol v := by
    intro v hv0
    show (o1.basis 1).Admissible tol v
    rw [hb11]; exact hvs v hv0
  obtain ⟨e2, _, _, _⟩ := Bridge.transfer_surface_v (b1 := bu') (b2 := o.basis 1) (b2' := bv') hb1 hb2 hu.valid'
    (hw.valid 1) hv.valid' hs1 hs2 r2 (by rw [r1]; exact hnc) htol rfl hus' hvs hvs'
    (fun p hp => by
      have := renet_sameAlong w1 (1 : Fin 2) htol bv' hv.valid' Ev hrows1
        (hvs1 _ (getD_mem_of_lt vs hp 0)) (hvs' _ (getD_mem_of_lt vs hp 0))
      have e : o1.basis ((1 : Fin 2) : ℕ) = o.basis 1 := hb11
      rw [e] at this
      exact this)
  have etot : o2.evaluate tol [us, vs] true = o.evaluate tol [us, vs] true := e2.trans e1
  refine ⟨res, er, esh, etot.trans er, ?_⟩
  exact Bridge.pointwise_surface hb hb2 (hw.valid 0) hu.valid' (hw.valid 1) hv.valid' hs hs2 (r2.trans r1) hnc htol
    rfl rfl hus hus' hvs hvs' etot

/-- **C05 ⇒ evaluate, surfaces on clamped continuous bases — no analytic hypothesis.**  Under the
    hypotheses of `C05_geometry_clamped_surface` the public `raise_order(a_u, a_v)` succeeds, returns the
    receiver, and the result evaluates to the same tensor as the original at every pair of parameter
    lists admissible for the old and new bases (`tensor=True` and `tensor=False`). -/
theorem bridge_C05_clamped_surface (tol : K) (htol : 0 < tol)
    (qu au : ℕ) (hqu : 1 ≤ qu + au) (x0u xlu : K) (umidu : List K) (mmidu : List ℕ)
    (hlenu : umidu.length = mmidu.length) (hmu : ∀ j ∈ mmidu, 1 ≤ j ∧ j ≤ qu)
    (hgapu : Separated (2 * ((qu + au : ℕ) : K) * tol) (clampedU x0u xlu umidu))
    (qv av : ℕ) (hqv : 1 ≤ qv + av) (x0v xlv : K) (umidv : List K) (mmidv : List ℕ)
    (hlenv : umidv.length = mmidv.length) (hmv : ∀ j ∈ mmidv, 1 ≤ j ∧ j ≤ qv)
    (hgapv : Separated (2 * ((qv + av : ℕ) : K) * tol) (clampedU x0v xlv umidv))
    (hnz : au ≠ 0 ∨ av ≠ 0)
    (o : Obj K) (hw : C06.WF o 2)
    (hb0 : o.basis 0 = openBasis (qu+1) (clampedU x0u xlu umidu) (clampedM (qu+1) mmidu))
    (hb1 : o.basis 1 = openBasis (qv+1) (clampedU x0v xlv umidv) (clampedM (qv+1) mmidv))
    (hnc : o.rational = true → 1 ≤ o.ncomp) :
    ∃ o', o.raiseOrder tol [(au : Int), (av : Int)] none = .ok (.self, o')
      ∧ o.raiseOrderImplicit tol [au, av] = .ok o'
      ∧ SameEvalSurface tol
          (openBasis (qu+1) (clampedU x0u xlu umidu) (clampedM (qu+1) mmidu))
          (openBasis (qu+1+au) (clampedU x0u xlu umidu) (clampedM (qu+1+au) (mmidu.map (· + au))))
          (openBasis (qv+1) (clampedU x0v xlv umidv) (clampedM (qv+1) mmidv))
          (openBasis (qv+1+av) (clampedU x0v xlv umidv) (clampedM (qv+1+av) (mmidv.map (· + av)))) o o' := by
  obtain ⟨Eu, _, hdu⟩ := dirOK_clamped tol htol qu au hqu x0u xlu umidu mmidu hlenu hmu hgapu
  obtain ⟨Ev, _, hdv⟩ := dirOK_clamped tol htol qv av hqv x0v xlv umidv mmidv hlenv hmv hgapv
  rw [← hb0] at hdu
  rw [← hb1] at hdv
  obtain ⟨o', himp, hse⟩ := raiseImplicit_surface_sameEval o tol htol hw au av _ _ Eu Ev hdu hdv hnc
  have hpd : o.pardim = 2 := by rw [Obj.pardim, shape_of_wf2 hw]; rfl
  have hfacu : tol ≤ 2 * ((qu + au : ℕ) : K) * tol := by
    have h1 : (1 : K) ≤ ((qu + au : ℕ) : K) := by exact_mod_cast hqu
    nlinarith
  have hguard : Obj.raiseGuard tol o.bases.toList = .ok true := by
    rw [bases_of_wf2 hw, hb0]
    exact raiseGuard_clamped tol htol (qu+1) (by omega) x0u xlu umidu mmidu hlenu
      (separated_mono hfacu hgapu) (fun j hj => (hmu j hj).1) _
  refine ⟨o', ?_, himp, by rw [← hb0, ← hb1]; exact hse⟩
  apply raiseOrder_of_implicit o tol _ none [(au : Int), (av : Int)] o' (by simp [Obj.normRaises]) ?_ ?_ hguard
    (by simpa using himp)
  · intro r hr; simp at hr; rcases hr with rfl | rfl <;> omega
  · rcases hnz with h | h
    · exact ⟨(au : Int), by simp, by omega⟩
    · exact ⟨(av : Int), by simp, by omega⟩

/-- **Surfaces, weak form (periodic directions allowed): `raise_order_implicit` under `DirOKw` in both
    directions returns an object that evaluates to the same tensor** at parameters admissible for the
    old and new bases. -/
theorem raiseImplicit_surface_sameEval_w (o : Obj K) (tol : K) (htol : 0 < tol) (hw : C06.WF o 2) (au av : ℕ)
    (bu' bv' : Basis K) (Eu Ev : ℕ → ℕ → K) (hu : DirOKw tol (o.basis 0) au bu' Eu)
    (hv : DirOKw tol (o.basis 1) av bv' Ev) (hnc : o.rational = true → 1 ≤ o.ncomp) :
    ∃ o', o.raiseOrderImplicit tol [au, av] = .ok o'
      ∧ SameEvalSurface tol (o.basis 0) bu' (o.basis 1) bv' o o' := by
  obtain ⟨pu, Niu, hgu, Hu, pju⟩ := hu.hsw
  obtain ⟨pv, Niv, hgv, Hv, pjv⟩ := hv.hsw
  have heq := raiseImplicit_surface_eq_proj o tol hw au av bu' bv' hu.raise hv.raise pu pv hgu hgv Niu Niv Hu Hv
    Eu Ev pju pjv
  refine ⟨_, heq, ?_⟩
  intro us vs hus hus' hvs hvs' hneU hneV
  have hneU1 : _ → us ≠ [] := fun h => hneU (Or.inl h)
  have hneU2 : _ → us ≠ [] := fun h => hneU (Or.inr h)
  have hneV1 : _ → vs ≠ [] := fun h => hneV (Or.inl h)
  have hneV2 : _ → vs ≠ [] := fun h => hneV (Or.inr h)
  have hb := bases_of_wf2 hw
  have hs := shape_of_wf2 hw
  obtain ⟨w1', b1d, b1k, n1', r1'⟩ := renet_wf hw (0 : Fin 2) bu' hu.valid' Eu
  set o1 := renet o 0 bu' Eu with ho1
  have w1 : C06.WF o1 2 := w1'
  have n1 : o1.ncomp = o.ncomp := n1'
  have r1 : o1.rational = o.rational := r1'
  have hb11 : o1.basis 1 = o.basis 1 := b1k (1 : Fin 2) (by decide)
  have hb10 : o1.basis 0 = bu' := b1d
  have hb1 : o1.bases = #[bu', o.basis 1] := by rw [bases_of_wf2 w1, hb10, hb11]
  have hs1 : o1.cps.shape = [bu'.numFunctions, (o.basis 1).numFunctions, o.ncomp] := by
    rw [shape_of_wf2 w1, hb10, hb11, n1]
  have hv1' : DirOKw tol (o1.basis ((1 : Fin 2) : ℕ)) av bv' Ev := by
    show DirOKw tol (o1.basis 1) av bv' Ev
    rw [hb11]; exact hv
  obtain ⟨w2', b2d', b2k, n2', r2'⟩ := renet_wf w1 (1 : Fin 2) bv' hv.valid' Ev
  set o2 := renet o1 1 bv' Ev with ho2
  have w2 : C06.WF o2 2 := w2'
  have n2 : o2.ncomp = o1.ncomp := n2'
  have r2 : o2.rational = o1.rational := r2'
  have b2d : o2.basis 1 = bv' := b2d'
  have hb20 : o2.basis 0 = bu' := (b2k (0 : Fin 2) (by decide)).trans hb10
  have hb2 : o2.bases = #[bu', bv'] := by rw [bases_of_wf2 w2, hb20, b2d]
  have hs2 : o2.cps.shape = [bu'.numFunctions, bv'.numFunctions, o.ncomp] := by
    rw [shape_of_wf2 w2, hb20, b2d, n2, n1]
  -- step 1: direction 0
  obtain ⟨e1, res, er, esh⟩ := Bridge.transfer_surface_u hb hb1 (hw.valid 0) hu.valid' (hw.valid 1) hs hs1 r1 hnc
    htol rfl hus hus' hvs
    (fun p hp => renet_sameAlong_on hw (0 : Fin 2) htol bu' hu.valid' Eu hu.rows
      (hus _ (getD_mem_of_lt us hp 0)) (hus' _ (getD_mem_of_lt us hp 0)))
  -- step 2: direction 1
  have hrows1 : RowsOn tol (o1.basis ((1 : Fin 2) : ℕ)) bv' Ev := hv1'.rows
  have hvs1 : ∀ v ∈ vs, (o1.basis ((1 : Fin 2) : ℕ)).Admissible tol v := by
    intro v hv0
    show (o1.basis 1).Admissible tol v
    rw [hb11]; exact hvs v hv0
  obtain ⟨e2, _, _, _⟩ := Bridge.transfer_surface_v (b1 := bu') (b2 := o.basis 1) (b2' := bv') hb1 hb2 hu.valid'
    (hw.valid 1) hv.valid' hs1 hs2 r2 (by rw [r1]; exact hnc) htol rfl hus' hvs hvs'
    (fun p hp => by
      have := renet_sameAlong_on w1 (1 : Fin 2) htol bv' hv.valid' Ev hrows1
        (hvs1 _ (getD_mem_of_lt vs hp 0)) (hvs' _ (getD_mem_of_lt vs hp 0))
      have e : o1.basis ((1 : Fin 2) : ℕ) = o.basis 1 := hb11
      rw [e] at this
      exact this)
  have etot : o2.evaluate tol [us, vs] true = o.evaluate tol [us, vs] true := e2.trans e1
  refine ⟨res, er, esh, etot.trans er, ?_⟩
  exact Bridge.pointwise_surface hb hb2 (hw.valid 0) hu.valid' (hw.valid 1) hv.valid' hs hs2 (r2.trans r1) hnc htol
    rfl rfl hus hus' hvs hvs' etot

/-! ## Volumes -/

/-- "`o'` evaluates like `o`" for volumes. -/
def SameEvalVolume (tol : K) (b1 b1' b2 b2' b3 b3' : Basis K) (o o' : Obj K) : Prop :=
  ∀ us vs ws : List K, (∀ u ∈ us, b1.Admissible tol u) → (∀ u ∈ us, b1'.Admissible tol u) →
    (∀ v ∈ vs, b2.Admissible tol v) → (∀ v ∈ vs, b2'.Admissible tol v) →
    (∀ w ∈ ws, b3.Admissible tol w) → (∀ w ∈ ws, b3'.Admissible tol w) →
    (b1.periodic < 0 ∨ b1'.periodic < 0 → us ≠ []) → (b2.periodic < 0 ∨ b2'.periodic < 0 → vs ≠ []) →
    (b3.periodic < 0 ∨ b3'.periodic < 0 → ws ≠ []) →
    ∃ res, o.evaluate tol [us, vs, ws] true = .ok res ∧
      res.shape = [us.length, vs.length, ws.length, o.dimension] ∧
      o'.evaluate tol [us, vs, ws] true = .ok res ∧
      o'.evaluate tol [us, vs, ws] false = o.evaluate tol [us, vs, ws] false

theorem raiseImplicit_volume_sameEval (o : Obj K) (tol : K) (htol : 0 < tol) (hw : C06.WF o 3) (au av aw : ℕ)
    (bu' bv' bw' : Basis K) (Eu Ev Ew : ℕ → ℕ → K) (hu : DirOK tol (o.basis 0) au bu' Eu)
    (hv : DirOK tol (o.basis 1) av bv' Ev) (hw2 : DirOK tol (o.basis 2) aw bw' Ew)
    (hnc : o.rational = true → 1 ≤ o.ncomp) :
    ∃ o', o.raiseOrderImplicit tol [au, av, aw] = .ok o'
      ∧ SameEvalVolume tol (o.basis 0) bu' (o.basis 1) bv' (o.basis 2) bw' o o' := by
  obtain ⟨pu, Niu, hgu, Hu⟩ := hu.hsw
  obtain ⟨pv, Niv, hgv, Hv⟩ := hv.hsw
  obtain ⟨pw, Niw, hgw, Hw⟩ := hw2.hsw
  have heq := raiseImplicit_volume_eq o tol hw au av aw bu' bv' bw' hu.raise hv.raise hw2.raise pu pv pw
    hgu hgv hgw Niu Niv Niw Hu Hv Hw Eu Ev Ew hu.rows hv.rows hw2.rows
  refine ⟨_, heq, ?_⟩
  intro us vs ws hus hus' hvs hvs' hws hws' hneU hneV hneW
  have hneU1 : _ → us ≠ [] := fun h => hneU (Or.inl h)
  have hneU2 : _ → us ≠ [] := fun h => hneU (Or.inr h)
  have hneV1 : _ → vs ≠ [] := fun h => hneV (Or.inl h)
  have hneV2 : _ → vs ≠ [] := fun h => hneV (Or.inr h)
  have hneW1 : _ → ws ≠ [] := fun h => hneW (Or.inl h)
  have hneW2 : _ → ws ≠ [] := fun h => hneW (Or.inr h)
  have hb := bases_of_wf3 hw
  have hs := shape_of_wf3 hw
  -- step 1
  obtain ⟨_, w1', b1d, b1k, n1', r1'⟩ := renet_dirOK hw (0 : Fin 3) tol au bu' Eu hu
  set o1 := renet o 0 bu' Eu with ho1
  have w1 : C06.WF o1 3 := w1'
  have n1 : o1.ncomp = o.ncomp := n1'
  have r1 : o1.rational = o.rational := r1'
  have hb10 : o1.basis 0 = bu' := b1d
  have hb11 : o1.basis 1 = o.basis 1 := b1k (1 : Fin 3) (by decide)
  have hb12 : o1.basis 2 = o.basis 2 := b1k (2 : Fin 3) (by decide)
  have hb1 : o1.bases = #[bu', o.basis 1, o.basis 2] := by rw [bases_of_wf3 w1, hb10, hb11, hb12]
  have hs1 : o1.cps.shape = [bu'.numFunctions, (o.basis 1).numFunctions, (o.basis 2).numFunctions, o.ncomp] := by
    rw [shape_of_wf3 w1, hb10, hb11, hb12, n1]
  -- step 2
  have hv1' : DirOK tol (o1.basis ((1 : Fin 3) : ℕ)) av bv' Ev := by
    show DirOK tol (o1.basis 1) av bv' Ev
    rw [hb11]; exact hv
  obtain ⟨_, w2', b2d', b2k, n2', r2'⟩ := renet_dirOK w1 (1 : Fin 3) tol av bv' Ev hv1'
  set o2 := renet o1 1 bv' Ev with ho2
  have w2 : C06.WF o2 3 := w2'
  have n2 : o2.ncomp = o1.ncomp := n2'
  have r2 : o2.rational = o1.rational := r2'
  have hb21 : o2.basis 1 = bv' := b2d'
  have hb20 : o2.basis 0 = bu' := (b2k (0 : Fin 3) (by decide)).trans hb10
  have hb22 : o2.basis 2 = o.basis 2 := (b2k (2 : Fin 3) (by decide)).trans hb12
  have hb2 : o2.bases = #[bu', bv', o.basis 2] := by rw [bases_of_wf3 w2, hb20, hb21, hb22]
  have hs2 : o2.cps.shape = [bu'.numFunctions, bv'.numFunctions, (o.basis 2).numFunctions, o.ncomp] := by
    rw [shape_of_wf3 w2, hb20, hb21, hb22, n2, n1]
  -- step 3
  have hw2' : DirOK tol (o2.basis ((2 : Fin 3) : ℕ)) aw bw' Ew := by
    show DirOK tol (o2.basis 2) aw bw' Ew
    rw [hb22]; exact hw2
  obtain ⟨_, w3', b3d', b3k, n3', r3'⟩ := renet_dirOK w2 (2 : Fin 3) tol aw bw' Ew hw2'
  set o3 := renet o2 2 bw' Ew with ho3
  have w3 : C06.WF o3 3 := w3'
  have n3 : o3.ncomp = o2.ncomp := n3'
  have r3 : o3.rational = o2.rational := r3'
  have hb32 : o3.basis 2 = bw' := b3d'
  have hb30 : o3.basis 0 = bu' := (b3k (0 : Fin 3) (by decide)).trans hb20
  have hb31 : o3.basis 1 = bv' := (b3k (1 : Fin 3) (by decide)).trans hb21
  have hb3 : o3.bases = #[bu', bv', bw'] := by rw [bases_of_wf3 w3, hb30, hb31, hb32]
  have hs3 : o3.cps.shape = [bu'.numFunctions, bv'.numFunctions, bw'.numFunctions, o.ncomp] := by
    rw [shape_of_wf3 w3, hb30, hb31, hb32, n3, n2, n1]
  -- transfers
  obtain ⟨e1, res, er, esh⟩ := Bridge.transfer_volume_u hb hb1 (hw.valid 0) hu.valid' (hw.valid 1) (hw.valid 2)
    hs hs1 r1 hnc htol rfl hus hus' hvs hws
    (fun p hp => renet_sameAlong hw (0 : Fin 3) htol bu' hu.valid' Eu hu.rows
      (hus _ (getD_mem_of_lt us hp 0)) (hus' _ (getD_mem_of_lt us hp 0)))
  have hrows1 : RowsVia tol (o1.basis ((1 : Fin 3) : ℕ)) bv' (o1.basis ((1 : Fin 3) : ℕ)).numFunctions Ev := hv1'.rows
  have hvs1 : ∀ v ∈ vs, (o1.basis ((1 : Fin 3) : ℕ)).Admissible tol v := by
    intro v hv0
    show (o1.basis 1).Admissible tol v
    rw [hb11]; exact hvs v hv0
  obtain ⟨e2, _, _, _⟩ := Bridge.transfer_volume_v (b1 := bu') (b2 := o.basis 1) (b2' := bv') (b3 := o.basis 2)
    hb1 hb2 hu.valid' (hw.valid 1) hv.valid' (hw.valid 2) hs1 hs2 r2 (by rw [r1]; exact hnc) htol rfl hus' hvs hvs' hws
    (fun p hp => by
      have := renet_sameAlong w1 (1 : Fin 3) htol bv' hv.valid' Ev hrows1
        (hvs1 _ (getD_mem_of_lt vs hp 0)) (hvs' _ (getD_mem_of_lt vs hp 0))
      have e : o1.basis ((1 : Fin 3) : ℕ) = o.basis 1 := hb11
      rw [e] at this
      exact this)
  have hrows2 : RowsVia tol (o2.basis ((2 : Fin 3) : ℕ)) bw' (o2.basis ((2 : Fin 3) : ℕ)).numFunctions Ew := hw2'.rows
  have hws2 : ∀ v ∈ ws, (o2.basis ((2 : Fin 3) : ℕ)).Admissible tol v := by
    intro v hv0
    show (o2.basis 2).Admissible tol v
    rw [hb22]; exact hws v hv0
  obtain ⟨e3, _, _, _⟩ := Bridge.transfer_volume_w (b1 := bu') (b2 := bv') (b3 := o.basis 2) (b3' := bw')
    hb2 hb3 hu.valid' hv.valid' (hw.valid 2) hw2.valid' hs2 hs3 r3 (by rw [r2, r1]; exact hnc) htol rfl hus' hvs' hws hws'
    (fun p hp => by
      have := renet_sameAlong w2 (2 : Fin 3) htol bw' hw2.valid' Ew hrows2
        (hws2 _ (getD_mem_of_lt ws hp 0)) (hws' _ (getD_mem_of_lt ws hp 0))
      have e : o2.basis ((2 : Fin 3) : ℕ) = o.basis 2 := hb22
      rw [e] at this
      exact this)
  have etot : o3.evaluate tol [us, vs, ws] true = o.evaluate tol [us, vs, ws] true := (e3.trans e2).trans e1
  refine ⟨res, er, esh, etot.trans er, ?_⟩
  exact Bridge.pointwise_volume hb hb3 (hw.valid 0) hu.valid' (hw.valid 1) hv.valid' (hw.valid 2) hw2.valid' hs hs3
    ((r3.trans r2).trans r1) hnc htol rfl rfl rfl hus hus' hvs hvs' hws hws' etot

/-- **C05 ⇒ evaluate, volumes on clamped continuous bases — no analytic hypothesis.** -/
theorem bridge_C05_clamped_volume (tol : K) (htol : 0 < tol)
    (qu au : ℕ) (hqu : 1 ≤ qu + au) (x0u xlu : K) (umidu : List K) (mmidu : List ℕ)
    (hlenu : umidu.length = mmidu.length) (hmu : ∀ j ∈ mmidu, 1 ≤ j ∧ j ≤ qu)
    (hgapu : Separated (2 * ((qu + au : ℕ) : K) * tol) (clampedU x0u xlu umidu))
    (qv av : ℕ) (hqv : 1 ≤ qv + av) (x0v xlv : K) (umidv : List K) (mmidv : List ℕ)
    (hlenv : umidv.length = mmidv.length) (hmv : ∀ j ∈ mmidv, 1 ≤ j ∧ j ≤ qv)
    (hgapv : Separated (2 * ((qv + av : ℕ) : K) * tol) (clampedU x0v xlv umidv))
    (qw aw : ℕ) (hqw : 1 ≤ qw + aw) (x0w xlw : K) (umidw : List K) (mmidw : List ℕ)
    (hlenw : umidw.length = mmidw.length) (hmw : ∀ j ∈ mmidw, 1 ≤ j ∧ j ≤ qw)
    (hgapw : Separated (2 * ((qw + aw : ℕ) : K) * tol) (clampedU x0w xlw umidw))
    (hnz : au ≠ 0 ∨ av ≠ 0 ∨ aw ≠ 0)
    (o : Obj K) (hw : C06.WF o 3)
    (hb0 : o.basis 0 = openBasis (qu+1) (clampedU x0u xlu umidu) (clampedM (qu+1) mmidu))
    (hb1 : o.basis 1 = openBasis (qv+1) (clampedU x0v xlv umidv) (clampedM (qv+1) mmidv))
    (hb2 : o.basis 2 = openBasis (qw+1) (clampedU x0w xlw umidw) (clampedM (qw+1) mmidw))
    (hnc : o.rational = true → 1 ≤ o.ncomp) :
    ∃ o', o.raiseOrder tol [(au : Int), (av : Int), (aw : Int)] none = .ok (.self, o')
      ∧ o.raiseOrderImplicit tol [au, av, aw] = .ok o'
      ∧ SameEvalVolume tol
          (openBasis (qu+1) (clampedU x0u xlu umidu) (clampedM (qu+1) mmidu))
          (openBasis (qu+1+au) (clampedU x0u xlu umidu) (clampedM (qu+1+au) (mmidu.map (· + au))))
          (openBasis (qv+1) (clampedU x0v xlv umidv) (clampedM (qv+1) mmidv))
          (openBasis (qv+1+av) (clampedU x0v xlv umidv) (clampedM (qv+1+av) (mmidv.map (· + av))))
          (openBasis (qw+1) (clampedU x0w xlw umidw) (clampedM (qw+1) mmidw))
          (openBasis (qw+1+aw) (clampedU x0w xlw umidw) (clampedM (qw+1+aw) (mmidw.map (· + aw)))) o o' := by
  obtain ⟨Eu, _, hdu⟩ := dirOK_clamped tol htol qu au hqu x0u xlu umidu mmidu hlenu hmu hgapu
  obtain ⟨Ev, _, hdv⟩ := dirOK_clamped tol htol qv av hqv x0v xlv umidv mmidv hlenv hmv hgapv
  obtain ⟨Ew, _, hdw⟩ := dirOK_clamped tol htol qw aw hqw x0w xlw umidw mmidw hlenw hmw hgapw
  rw [← hb0] at hdu
  rw [← hb1] at hdv
  rw [← hb2] at hdw
  obtain ⟨o', himp, hse⟩ := raiseImplicit_volume_sameEval o tol htol hw au av aw _ _ _ Eu Ev Ew hdu hdv hdw hnc
  have hfacu : tol ≤ 2 * ((qu + au : ℕ) : K) * tol := by
    have h1 : (1 : K) ≤ ((qu + au : ℕ) : K) := by exact_mod_cast hqu
    nlinarith
  have hguard : Obj.raiseGuard tol o.bases.toList = .ok true := by
    rw [bases_of_wf3 hw, hb0]
    exact raiseGuard_clamped tol htol (qu+1) (by omega) x0u xlu umidu mmidu hlenu
      (separated_mono hfacu hgapu) (fun j hj => (hmu j hj).1) _
  refine ⟨o', ?_, himp, by rw [← hb0, ← hb1, ← hb2]; exact hse⟩
  apply raiseOrder_of_implicit o tol _ none [(au : Int), (av : Int), (aw : Int)] o' (by simp [Obj.normRaises])
    ?_ ?_ hguard (by simpa using himp)
  · intro r hr; simp at hr; rcases hr with rfl | rfl | rfl <;> omega
  · rcases hnz with h | h | h
    · exact ⟨(au : Int), by simp, by omega⟩
    · exact ⟨(av : Int), by simp, by omega⟩
    · exact ⟨(aw : Int), by simp, by omega⟩

/-- **Volumes, weak form (periodic directions allowed).** -/
theorem raiseImplicit_volume_sameEval_w (o : Obj K) (tol : K) (htol : 0 < tol) (hw : C06.WF o 3) (au av aw : ℕ)
    (bu' bv' bw' : Basis K) (Eu Ev Ew : ℕ → ℕ → K) (hu : DirOKw tol (o.basis 0) au bu' Eu)
    (hv : DirOKw tol (o.basis 1) av bv' Ev) (hw2 : DirOKw tol (o.basis 2) aw bw' Ew)
    (hnc : o.rational = true → 1 ≤ o.ncomp) :
    ∃ o', o.raiseOrderImplicit tol [au, av, aw] = .ok o'
      ∧ SameEvalVolume tol (o.basis 0) bu' (o.basis 1) bv' (o.basis 2) bw' o o' := by
  obtain ⟨pu, Niu, hgu, Hu, pju⟩ := hu.hsw
  obtain ⟨pv, Niv, hgv, Hv, pjv⟩ := hv.hsw
  obtain ⟨pw, Niw, hgw, Hw, pjw⟩ := hw2.hsw
  have heq := raiseImplicit_volume_eq_proj o tol hw au av aw bu' bv' bw' hu.raise hv.raise hw2.raise pu pv pw
    hgu hgv hgw Niu Niv Niw Hu Hv Hw Eu Ev Ew pju pjv pjw
  refine ⟨_, heq, ?_⟩
  intro us vs ws hus hus' hvs hvs' hws hws' hneU hneV hneW
  have hneU1 : _ → us ≠ [] := fun h => hneU (Or.inl h)
  have hneU2 : _ → us ≠ [] := fun h => hneU (Or.inr h)
  have hneV1 : _ → vs ≠ [] := fun h => hneV (Or.inl h)
  have hneV2 : _ → vs ≠ [] := fun h => hneV (Or.inr h)
  have hneW1 : _ → ws ≠ [] := fun h => hneW (Or.inl h)
  have hneW2 : _ → ws ≠ [] := fun h => hneW (Or.inr h)
  have hb := bases_of_wf3 hw
  have hs := shape_of_wf3 hw
  -- step 1
  obtain ⟨w1', b1d, b1k, n1', r1'⟩ := renet_wf hw (0 : Fin 3) bu' hu.valid' Eu
  set o1 := renet o 0 bu' Eu with ho1
  have w1 : C06.WF o1 3 := w1'
  have n1 : o1.ncomp = o.ncomp := n1'
  have r1 : o1.rational = o.rational := r1'
  have hb10 : o1.basis 0 = bu' := b1d
  have hb11 : o1.basis 1 = o.basis 1 := b1k (1 : Fin 3) (by decide)
  have hb12 : o1.basis 2 = o.basis 2 := b1k (2 : Fin 3) (by decide)
  have hb1 : o1.bases = #[bu', o.basis 1, o.basis 2] := by rw [bases_of_wf3 w1, hb10, hb11, hb12]
  have hs1 : o1.cps.shape = [bu'.numFunctions, (o.basis 1).numFunctions, (o.basis 2).numFunctions, o.ncomp] := by
    rw [shape_of_wf3 w1, hb10, hb11, hb12, n1]
  -- step 2
  have hv1' : DirOKw tol (o1.basis ((1 : Fin 3) : ℕ)) av bv' Ev := by
    show DirOKw tol (o1.basis 1) av bv' Ev
    rw [hb11]; exact hv
  obtain ⟨w2', b2d', b2k, n2', r2'⟩ := renet_wf w1 (1 : Fin 3) bv' hv.valid' Ev
  set o2 := renet o1 1 bv' Ev with ho2
  have w2 : C06.WF o2 3 := w2'
  have n2 : o2.ncomp = o1.ncomp := n2'
  have r2 : o2.rational = o1.rational := r2'
  have hb21 : o2.basis 1 = bv' := b2d'
  have hb20 : o2.basis 0 = bu' := (b2k (0 : Fin 3) (by decide)).trans hb10
  have hb22 : o2.basis 2 = o.basis 2 := (b2k (2 : Fin 3) (by decide)).trans hb12
  have hb2 : o2.bases = #[bu', bv', o.basis 2] := by rw [bases_of_wf3 w2, hb20, hb21, hb22]
  have hs2 : o2.cps.shape = [bu'.numFunctions, bv'.numFunctions, (o.basis 2).numFunctions, o.ncomp] := by
    rw [shape_of_wf3 w2, hb20, hb21, hb22, n2, n1]
  -- step 3
  have hw2' : DirOKw tol (o2.basis ((2 : Fin 3) : ℕ)) aw bw' Ew := by
    show DirOKw tol (o2.basis 2) aw bw' Ew
    rw [hb22]; exact hw2
  obtain ⟨w3', b3d', b3k, n3', r3'⟩ := renet_wf w2 (2 : Fin 3) bw' hw2.valid' Ew
  set o3 := renet o2 2 bw' Ew with ho3
  have w3 : C06.WF o3 3 := w3'
  have n3 : o3.ncomp = o2.ncomp := n3'
  have r3 : o3.rational = o2.rational := r3'
  have hb32 : o3.basis 2 = bw' := b3d'
  have hb30 : o3.basis 0 = bu' := (b3k (0 : Fin 3) (by decide)).trans hb20
  have hb31 : o3.basis 1 = bv' := (b3k (1 : Fin 3) (by decide)).trans hb21
  have hb3 : o3.bases = #[bu', bv', bw'] := by rw [bases_of_wf3 w3, hb30, hb31, hb32]
  have hs3 : o3.cps.shape = [bu'.numFunctions, bv'.numFunctions, bw'.numFunctions, o.ncomp] := by
    rw [shape_of_wf3 w3, hb30, hb31, hb32, n3, n2, n1]
  -- transfers
  obtain ⟨e1, res, er, esh⟩ := Bridge.transfer_volume_u hb hb1 (hw.valid 0) hu.valid' (hw.valid 1) (hw.valid 2)
    hs hs1 r1 hnc htol rfl hus hus' hvs hws
    (fun p hp => renet_sameAlong_on hw (0 : Fin 3) htol bu' hu.valid' Eu hu.rows
      (hus _ (getD_mem_of_lt us hp 0)) (hus' _ (getD_mem_of_lt us hp 0)))
  have hrows1 : RowsOn tol (o1.basis ((1 : Fin 3) : ℕ)) bv' Ev := hv1'.rows
  have hvs1 : ∀ v ∈ vs, (o1.basis ((1 : Fin 3) : ℕ)).Admissible tol v := by
    intro v hv0
    show (o1.basis 1).Admissible tol v
    rw [hb11]; exact hvs v hv0
  obtain ⟨e2, _, _, _⟩ := Bridge.transfer_volume_v (b1 := bu') (b2 := o.basis 1) (b2' := bv') (b3 := o.basis 2)
    hb1 hb2 hu.valid' (hw.valid 1) hv.valid' (hw.valid 2) hs1 hs2 r2 (by rw [r1]; exact hnc) htol rfl hus' hvs hvs' hws
    (fun p hp => by
      have := renet_sameAlong_on w1 (1 : Fin 3) htol bv' hv.valid' Ev hrows1
        (hvs1 _ (getD_mem_of_lt vs hp 0)) (hvs' _ (getD_mem_of_lt vs hp 0))
      have e : o1.basis ((1 : Fin 3) : ℕ) = o.basis 1 := hb11
      rw [e] at this
      exact this)
  have hrows2 : RowsOn tol (o2.basis ((2 : Fin 3) : ℕ)) bw' Ew := hw2'.rows
  have hws2 : ∀ v ∈ ws, (o2.basis ((2 : Fin 3) : ℕ)).Admissible tol v := by
    intro v hv0
    show (o2.basis 2).Admissible tol v
    rw [hb22]; exact hws v hv0
  obtain ⟨e3, _, _, _⟩ := Bridge.transfer_volume_w (b1 := bu') (b2 := bv') (b3 := o.basis 2) (b3' := bw')
    hb2 hb3 hu.valid' hv.valid' (hw.valid 2) hw2.valid' hs2 hs3 r3 (by rw [r2, r1]; exact hnc) htol rfl hus' hvs' hws hws'
    (fun p hp => by
      have := renet_sameAlong_on w2 (2 : Fin 3) htol bw' hw2.valid' Ew hrows2
        (hws2 _ (getD_mem_of_lt ws hp 0)) (hws' _ (getD_mem_of_lt ws hp 0))
      have e : o2.basis ((2 : Fin 3) : ℕ) = o.basis 2 := hb22
      rw [e] at this
      exact this)
  have etot : o3.evaluate tol [us, vs, ws] true = o.evaluate tol [us, vs, ws] true := (e3.trans e2).trans e1
  refine ⟨res, er, esh, etot.trans er, ?_⟩
  exact Bridge.pointwise_volume hb hb3 (hw.valid 0) hu.valid' (hw.valid 1) hv.valid' (hw.valid 2) hw2.valid' hs hs3
    ((r3.trans r2).trans r1) hnc htol rfl rfl rfl hus hus' hvs hvs' hws hws' etot


/-! ## Periodic directions of surfaces and volumes -/

/-- The public `raise_order(a_u, a_v)` on a surface whose directions are `DirOKw`. -/
theorem raiseOrder_surface_sameEval_w (o : Obj K) (tol : K) (htol : 0 < tol) (hw : C06.WF o 2) (au av : ℕ)
    (bu' bv' : Basis K) (Eu Ev : ℕ → ℕ → K) (hu : DirOKw tol (o.basis 0) au bu' Eu)
    (hv : DirOKw tol (o.basis 1) av bv' Ev) (hnc : o.rational = true → 1 ≤ o.ncomp)
    (hnz : au ≠ 0 ∨ av ≠ 0) (hguard : Obj.raiseGuard tol o.bases.toList = .ok true) :
    ∃ o', o.raiseOrder tol [(au : Int), (av : Int)] none = .ok (.self, o')
      ∧ o.raiseOrderImplicit tol [au, av] = .ok o'
      ∧ SameEvalSurface tol (o.basis 0) bu' (o.basis 1) bv' o o' := by
  obtain ⟨o', himp, hse⟩ := raiseImplicit_surface_sameEval_w o tol htol hw au av bu' bv' Eu Ev hu hv hnc
  have hpd : o.pardim = 2 := by rw [Obj.pardim, shape_of_wf2 hw]; rfl
  refine ⟨o', ?_, himp, hse⟩
  apply raiseOrder_of_implicit o tol _ none [(au : Int), (av : Int)] o' (by simp [Obj.normRaises]) ?_ ?_ hguard
    (by simpa using himp)
  · intro r hr; simp at hr; rcases hr with rfl | rfl <;> omega
  · rcases hnz with h | h
    · exact ⟨(au : Int), by simp, by omega⟩
    · exact ⟨(av : Int), by simp, by omega⟩

/-- The public `raise_order(a_u, a_v, a_w)` on a volume whose directions are `DirOKw`. -/
theorem raiseOrder_volume_sameEval_w (o : Obj K) (tol : K) (htol : 0 < tol) (hw : C06.WF o 3) (au av aw : ℕ)
    (bu' bv' bw' : Basis K) (Eu Ev Ew : ℕ → ℕ → K) (hu : DirOKw tol (o.basis 0) au bu' Eu)
    (hv : DirOKw tol (o.basis 1) av bv' Ev) (hw2 : DirOKw tol (o.basis 2) aw bw' Ew)
    (hnc : o.rational = true → 1 ≤ o.ncomp)
    (hnz : au ≠ 0 ∨ av ≠ 0 ∨ aw ≠ 0) (hguard : Obj.raiseGuard tol o.bases.toList = .ok true) :
    ∃ o', o.raiseOrder tol [(au : Int), (av : Int), (aw : Int)] none = .ok (.self, o')
      ∧ o.raiseOrderImplicit tol [au, av, aw] = .ok o'
      ∧ SameEvalVolume tol (o.basis 0) bu' (o.basis 1) bv' (o.basis 2) bw' o o' := by
  obtain ⟨o', himp, hse⟩ := raiseImplicit_volume_sameEval_w o tol htol hw au av aw bu' bv' bw' Eu Ev Ew hu hv hw2 hnc
  refine ⟨o', ?_, himp, hse⟩
  apply raiseOrder_of_implicit o tol _ none [(au : Int), (av : Int), (aw : Int)] o' (by simp [Obj.normRaises])
    ?_ ?_ hguard (by simpa using himp)
  · intro r hr; simp at hr; rcases hr with rfl | rfl | rfl <;> omega
  · rcases hnz with h | h | h
    · exact ⟨(au : Int), by simp, by omega⟩
    · exact ⟨(av : Int), by simp, by omega⟩
    · exact ⟨(aw : Int), by simp, by omega⟩

/-- **C05 ⇒ evaluate, a surface periodic in `u` and clamped in `v`** — relative to `H_sw` for the
    periodic direction and admissibility of its Greville points only. -/
theorem bridge_C05_periodic_surface {tol : K} {p k : ℕ} {w0 : K} {wr : List K} {μ0 : ℕ} {μr : List ℕ} {T : K}
    (h : PerData tol p k w0 wr μ0 μr T) (htol : 0 < tol) (au : ℕ)
    (pts : Array K) (hg : (perBasis (p + au) k (w0 :: wr) ((μ0 :: μr).map (· + au)) T).greville = .ok pts)
    (hadm : ∀ t ∈ pts.toList, (perBasis p k (w0 :: wr) (μ0 :: μr) T).Admissible tol t ∧
      (perBasis (p + au) k (w0 :: wr) ((μ0 :: μr).map (· + au)) T).Admissible tol t)
    (Ni : Mat K)
    (H_sw : Mat.invChecked (Obj.basisMat (perBasis (p + au) k (w0 :: wr) ((μ0 :: μr).map (· + au)) T) tol
      pts.toList 0 true) = .ok Ni)
    (qv av : ℕ) (hqv : 1 ≤ qv + av) (x0v xlv : K) (umidv : List K) (mmidv : List ℕ)
    (hlenv : umidv.length = mmidv.length) (hmv : ∀ j ∈ mmidv, 1 ≤ j ∧ j ≤ qv)
    (hgapv : Separated (2 * ((qv + av : ℕ) : K) * tol) (clampedU x0v xlv umidv))
    (hnz : au ≠ 0 ∨ av ≠ 0)
    (o : Obj K) (hw : C06.WF o 2)
    (hb0 : o.basis 0 = perBasis p k (w0 :: wr) (μ0 :: μr) T)
    (hb1 : o.basis 1 = openBasis (qv+1) (clampedU x0v xlv umidv) (clampedM (qv+1) mmidv))
    (hnc : o.rational = true → 1 ≤ o.ncomp) :
    ∃ o', o.raiseOrder tol [(au : Int), (av : Int)] none = .ok (.self, o')
      ∧ o.raiseOrderImplicit tol [au, av] = .ok o'
      ∧ SameEvalSurface tol
          (perBasis p k (w0 :: wr) (μ0 :: μr) T)
          (perBasis (p + au) k (w0 :: wr) ((μ0 :: μr).map (· + au)) T)
          (openBasis (qv+1) (clampedU x0v xlv umidv) (clampedM (qv+1) mmidv))
          (openBasis (qv+1+av) (clampedU x0v xlv umidv) (clampedM (qv+1+av) (mmidv.map (· + av)))) o o' := by
  obtain ⟨Eu, _, hdu⟩ := h.dirOKw htol au pts hg hadm Ni H_sw
  obtain ⟨Ev, _, hdv⟩ := dirOK_clamped tol htol qv av hqv x0v xlv umidv mmidv hlenv hmv hgapv
  rw [← hb0] at hdu
  rw [← hb1] at hdv
  have hguard : Obj.raiseGuard tol o.bases.toList = .ok true := by
    rw [bases_of_wf2 hw, hb0]
    exact raiseGuard_periodic' tol _ (by show (0 : Int) ≤ (k : Int); omega) _
  obtain ⟨o', h1, h2, h3⟩ := raiseOrder_surface_sameEval_w o tol htol hw au av _ _ Eu Ev hdu hdv.weak hnc hnz hguard
  exact ⟨o', h1, h2, by rw [← hb0, ← hb1]; exact h3⟩


/-! ## Periodic curves -/

/-- `ElevatedOn` the parameters admissible for both bases gives `Bridge.SameEvalCurve`. -/
theorem sameEvalCurve_of_elevatedOn {o o' : Obj K} {b b' : Basis K} (hb : o.bases = #[b]) (hv : b.Valid)
    (hv' : b'.Valid) {nc : ℕ} (hs : o.cps.shape = [b.numFunctions, nc])
    (hnc : o.rational = true → 1 ≤ nc) {tol : K} (htol : 0 < tol)
    (hE : ElevatedOn (fun u => b.Admissible tol u ∧ b'.Admissible tol u) tol b b' nc o o') :
    Bridge.SameEvalCurve tol b b' o o' := by
  intro us hus hus' hneU
  have hneU1 : _ → us ≠ [] := fun h => hneU (Or.inl h)
  have hneU2 : _ → us ≠ [] := fun h => hneU (Or.inr h)
  obtain ⟨hb', hrat, hs', hmap, _⟩ := hE
  have hsame : ∀ p, p < us.length → Bridge.SameAlong o o' 0 b.numFunctions b'.numFunctions
      (b.specRow (us.getD p 0)) (b'.specRow (us.getD p 0)) := by
    intro p hp
    set u := us.getD p 0 with hu
    have hu1 := hus u (getD_mem_of_lt us hp 0)
    have hu2 := hus' u (getD_mem_of_lt us hp 0)
    intro a i ha hi
    have ha0 : a = 0 := by
      unfold C04.outerN at ha; rw [hs] at ha
      simp [Tensor.split3, Tensor.prod] at ha
      exact ha
    have hi' : i < nc := by
      unfold C04.innerN at hi; rw [hs] at hi
      simpa [Tensor.split3, Tensor.prod] using hi
    subst ha0
    have h := hmap u ⟨hu1, hu2⟩ i hi'
    have e1 : ∀ j, C04.fibre o 0 0 i j = o.cps.get (j * nc + i) := by
      intro j; simp [C04.fibre, Tensor.at3, Tensor.split3, Tensor.prod, hs]
    have e2 : ∀ j, C04.fibre o' 0 0 i j = o'.cps.get (j * nc + i) := by
      intro j; simp [C04.fibre, Tensor.at3, Tensor.split3, Tensor.prod, hs']
    have l : ∑ j ∈ range b'.numFunctions, b'.specRow u j * C04.fibre o' 0 0 i j
        = ∑ r ∈ range b'.numFunctions, (b'.evaluate tol u 0 true).getD r 0 * o'.cps.get (r * nc + i) :=
      sum_congr rfl (fun j hj => by
        rw [Bridge.specRow_eq_evaluate hv' htol hu2 (mem_range.mp hj), e2 j])
    have r : ∑ j ∈ range b.numFunctions, b.specRow u j * C04.fibre o 0 0 i j
        = ∑ j ∈ range b.numFunctions, (b.evaluate tol u 0 true).getD j 0 * o.cps.get (j * nc + i) :=
      sum_congr rfl (fun j hj => by
        rw [Bridge.specRow_eq_evaluate hv htol hu1 (mem_range.mp hj), e1 j])
    rw [l, r]
    exact h
  obtain ⟨e, res, e1, e2⟩ := Bridge.transfer_curve hb hb' hv hv' hs hs' hrat hnc htol rfl hus hus' hsame
  exact ⟨res, e1, e2, e.trans e1, Bridge.pointwise_curve hb hb' hv hv' hs hs' hrat hnc htol rfl hus hus' e⟩

end Splipy
