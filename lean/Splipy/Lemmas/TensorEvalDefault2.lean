import Splipy.Lemmas.TensorEvalDefault
import Splipy.Lemmas.TensorEvalObj3

/-!
# Default objects are identity maps: rational surfaces, volumes, rational volumes (C02 helpers)
-/

namespace Splipy
set_option linter.unusedSectionVars false
open Tensor
variable {K : Type} [Field K] [LinearOrder K] [IsStrictOrderedRing K] [FloorRing K]

/-! ## Separable triple sums -/

omit [LinearOrder K] [IsStrictOrderedRing K] [FloorRing K] in
theorem sum3_sep (n1 n2 n3 : ℕ) (a b c : ℕ → K) :
    ∑ j1 ∈ Finset.range n1, ∑ j2 ∈ Finset.range n2, ∑ j3 ∈ Finset.range n3, a j1 * b j2 * c j3
      = (∑ j1 ∈ Finset.range n1, a j1) * (∑ j2 ∈ Finset.range n2, b j2)
          * ∑ j3 ∈ Finset.range n3, c j3 := by
  rw [Finset.sum_mul_sum, Finset.sum_mul]
  apply Finset.sum_congr rfl; intro j1 _
  rw [Finset.sum_mul]
  apply Finset.sum_congr rfl; intro j2 _
  rw [Finset.mul_sum]

omit [LinearOrder K] [IsStrictOrderedRing K] [FloorRing K] in
theorem sum3_first (n1 n2 n3 : ℕ) (w1 w2 w3 x : ℕ → K) :
    ∑ j1 ∈ Finset.range n1, ∑ j2 ∈ Finset.range n2, ∑ j3 ∈ Finset.range n3,
        w1 j1 * w2 j2 * w3 j3 * x j1
      = (∑ j1 ∈ Finset.range n1, w1 j1 * x j1) * (∑ j2 ∈ Finset.range n2, w2 j2)
          * ∑ j3 ∈ Finset.range n3, w3 j3 := by
  rw [← sum3_sep]
  apply Finset.sum_congr rfl; intro j1 _
  apply Finset.sum_congr rfl; intro j2 _
  apply Finset.sum_congr rfl; intro j3 _
  ring

omit [LinearOrder K] [IsStrictOrderedRing K] [FloorRing K] in
theorem sum3_second (n1 n2 n3 : ℕ) (w1 w2 w3 x : ℕ → K) :
    ∑ j1 ∈ Finset.range n1, ∑ j2 ∈ Finset.range n2, ∑ j3 ∈ Finset.range n3,
        w1 j1 * w2 j2 * w3 j3 * x j2
      = (∑ j1 ∈ Finset.range n1, w1 j1) * (∑ j2 ∈ Finset.range n2, w2 j2 * x j2)
          * ∑ j3 ∈ Finset.range n3, w3 j3 := by
  rw [← sum3_sep]
  apply Finset.sum_congr rfl; intro j1 _
  apply Finset.sum_congr rfl; intro j2 _
  apply Finset.sum_congr rfl; intro j3 _
  ring

omit [LinearOrder K] [IsStrictOrderedRing K] [FloorRing K] in
theorem sum3_third (n1 n2 n3 : ℕ) (w1 w2 w3 x : ℕ → K) :
    ∑ j1 ∈ Finset.range n1, ∑ j2 ∈ Finset.range n2, ∑ j3 ∈ Finset.range n3,
        w1 j1 * w2 j2 * w3 j3 * x j3
      = (∑ j1 ∈ Finset.range n1, w1 j1) * (∑ j2 ∈ Finset.range n2, w2 j2)
          * ∑ j3 ∈ Finset.range n3, w3 j3 * x j3 := by
  rw [← sum3_sep]
  apply Finset.sum_congr rfl; intro j1 _
  apply Finset.sum_congr rfl; intro j2 _
  apply Finset.sum_congr rfl; intro j3 _
  ring

/-! ## Control nets of the default surface / volume -/

/-- Control points of the default surface: `(ξ¹_{j1}, ξ²_{j2})`, followed by the weight 1 when
rational (`nc = 2` or `3`). -/
theorem Obj.defaultSurface_get' (b1 b2 : Basis K) (rational : Bool) {j1 j2 c : ℕ}
    (h1 : j1 < b1.numFunctions) (h2 : j2 < b2.numFunctions)
    (hc : c < 2 + (if rational then 1 else 0)) :
    (Obj.defaultOf #[b1, b2] [b1.grevArr, b2.grevArr] rational).cps.get
        ((j1 * b2.numFunctions + j2) * (2 + (if rational then 1 else 0)) + c)
      = if c = 0 then grevilleAbscissa b1.kn (b1.order - 1) j1
        else if c = 1 then grevilleAbscissa b2.kn (b2.order - 1) j2 else 1 := by
  have hpr : prod ([b1.grevArr, b2.grevArr].map Array.size)
      = b1.numFunctions * b2.numFunctions := by
    simp [prod, Basis.grevArr_size]
  rw [Obj.defaultOf_get #[b1, b2] [b1.grevArr, b2.grevArr] rational _ (by simp)
    (by rw [hpr]; exact pair_lt h1 h2) hc]
  have e0 : (j1 * b2.numFunctions + j2) / b2.numFunctions % b1.numFunctions = j1 := by
    rw [mul_add_div_lt j1 h2, Nat.mod_eq_of_lt h1]
  have e1 : (j1 * b2.numFunctions + j2) % b2.numFunctions = j2 := mul_add_mod_lt j1 h2
  have esz : (#[b1, b2] : Array (Basis K)).size = 2 := rfl
  rw [esz]
  by_cases c0 : c = 0
  · subst c0
    simp [prod, Basis.grevArr_size, e0, b1.grevArr_getD h1]
  · by_cases c1 : c = 1
    · subst c1
      simp [prod, Basis.grevArr_size, e1, b2.grevArr_getD h2]
    · rw [if_neg (show ¬ c < 2 by omega), if_neg c0, if_neg c1]
      simp only [show ¬ (2 = 1) by decide, if_false]
      rw [if_neg (show ¬ c < 2 by omega)]

theorem Obj.defaultSurface_shape' (b1 b2 : Basis K) (rational : Bool) :
    (Obj.defaultOf #[b1, b2] [b1.grevArr, b2.grevArr] rational).cps.shape
      = [b1.numFunctions, b2.numFunctions, 2 + (if rational then 1 else 0)] := by
  simp [Obj.defaultOf, Basis.grevArr_size]

theorem mapM_greville_three (b1 b2 b3 : Basis K) (hp1 : 2 ≤ b1.order) (hp2 : 2 ≤ b2.order)
    (hp3 : 2 ≤ b3.order) :
    (#[b1, b2, b3] : Array (Basis K)).toList.mapM (fun b => b.greville)
      = .ok [b1.grevArr, b2.grevArr, b3.grevArr] := by
  simp [List.mapM_cons, Basis.greville_eq b1 hp1, Basis.greville_eq b2 hp2,
    Basis.greville_eq b3 hp3, Basis.grevArr]
  rfl

theorem Obj.defaultVolume_shape (b1 b2 b3 : Basis K) (rational : Bool) :
    (Obj.defaultOf #[b1, b2, b3] [b1.grevArr, b2.grevArr, b3.grevArr] rational).cps.shape
      = [b1.numFunctions, b2.numFunctions, b3.numFunctions, 3 + (if rational then 1 else 0)] := by
  simp [Obj.defaultOf, Basis.grevArr_size]

/-- Control points of the default volume: `(ξ¹_{j1}, ξ²_{j2}, ξ³_{j3})`, followed by the weight 1
when rational (`nc = 3` or `4`). -/
theorem Obj.defaultVolume_get (b1 b2 b3 : Basis K) (rational : Bool) {j1 j2 j3 c : ℕ}
    (h1 : j1 < b1.numFunctions) (h2 : j2 < b2.numFunctions) (h3 : j3 < b3.numFunctions)
    (hc : c < 3 + (if rational then 1 else 0)) :
    (Obj.defaultOf #[b1, b2, b3] [b1.grevArr, b2.grevArr, b3.grevArr] rational).cps.get
        (((j1 * b2.numFunctions + j2) * b3.numFunctions + j3)
          * (3 + (if rational then 1 else 0)) + c)
      = if c = 0 then grevilleAbscissa b1.kn (b1.order - 1) j1
        else if c = 1 then grevilleAbscissa b2.kn (b2.order - 1) j2
        else if c = 2 then grevilleAbscissa b3.kn (b3.order - 1) j3 else 1 := by
  have hpr : prod ([b1.grevArr, b2.grevArr, b3.grevArr].map Array.size)
      = b1.numFunctions * b2.numFunctions * b3.numFunctions := by
    simp [prod, Basis.grevArr_size]
  rw [Obj.defaultOf_get #[b1, b2, b3] [b1.grevArr, b2.grevArr, b3.grevArr] rational _ (by simp)
    (by rw [hpr]; exact pair_lt (pair_lt h1 h2) h3) hc]
  have e0 : ((j1 * b2.numFunctions + j2) * b3.numFunctions + j3)
      / (b2.numFunctions * b3.numFunctions) % b1.numFunctions = j1 := by
    rw [Nat.mul_comm b2.numFunctions, ← Nat.div_div_eq_div_mul,
      mul_add_div_lt _ h3, mul_add_div_lt j1 h2, Nat.mod_eq_of_lt h1]
  have e1 : ((j1 * b2.numFunctions + j2) * b3.numFunctions + j3) / b3.numFunctions
      % b2.numFunctions = j2 := by
    rw [mul_add_div_lt _ h3, mul_add_mod_lt j1 h2]
  have e2 : ((j1 * b2.numFunctions + j2) * b3.numFunctions + j3) % b3.numFunctions = j3 :=
    mul_add_mod_lt _ h3
  have esz : (#[b1, b2, b3] : Array (Basis K)).size = 3 := rfl
  rw [esz]
  by_cases c0 : c = 0
  · subst c0
    simp [prod, Basis.grevArr_size, e0, b1.grevArr_getD h1]
  · by_cases c1 : c = 1
    · subst c1
      simp [prod, Basis.grevArr_size, e1, b2.grevArr_getD h2]
    · by_cases c2 : c = 2
      · subst c2
        simp [prod, Basis.grevArr_size, e2, b3.grevArr_getD h3]
      · rw [if_neg (show ¬ c < 3 by omega), if_neg c0, if_neg c1, if_neg c2]
        simp only [show ¬ (3 = 1) by decide, if_false]
        rw [if_neg (show ¬ c < 3 by omega)]

/-! ## Identity maps -/

theorem Basis.admissible_of_exact_mem {b : Basis K} (hper : b.periodic = -1) {tol u : K}
    (h : b.ExactAt tol u ∧ b.start ≤ u ∧ u ≤ b.stop) : b.Admissible tol u :=
  ⟨h.1, fun _ => h.2, fun hh => by rw [hper] at hh; exact absurd hh (by decide)⟩

/-- Default rational surface, non-periodic bases of order ≥ 2: control points
`(ξ¹_{j1}, ξ²_{j2}, 1)`; it evaluates to `(u, v)`. -/
theorem Obj.default_surface_identity_rational (b1 b2 : Basis K) (hv1 : b1.Valid) (hv2 : b2.Valid)
    (hper1 : b1.periodic = -1) (hper2 : b2.periodic = -1) (hp1 : 2 ≤ b1.order)
    (hp2 : 2 ≤ b2.order) {tol : K} (htol : 0 < tol) {us vs : List K}
    (hus : ∀ u ∈ us, b1.ExactAt tol u ∧ b1.start ≤ u ∧ u ≤ b1.stop)
    (hvs : ∀ v ∈ vs, b2.ExactAt tol v ∧ b2.start ≤ v ∧ v ≤ b2.stop)
    (hne1 : us ≠ []) (hne2 : vs ≠ []) :
    ∃ o res, Obj.default #[b1, b2] true = .ok o ∧
      o.bases = #[b1, b2] ∧ o.rational = true ∧
      o.cps.shape = [b1.numFunctions, b2.numFunctions, 3] ∧
      (∀ j1 j2, j1 < b1.numFunctions → j2 < b2.numFunctions →
        o.cps.get ((j1 * b2.numFunctions + j2) * 3 + 0)
          = grevilleAbscissa b1.kn (b1.order - 1) j1 ∧
        o.cps.get ((j1 * b2.numFunctions + j2) * 3 + 1)
          = grevilleAbscissa b2.kn (b2.order - 1) j2 ∧
        o.cps.get ((j1 * b2.numFunctions + j2) * 3 + 2) = 1) ∧
      o.evaluate tol [us, vs] true = .ok res ∧ res.shape = [us.length, vs.length, 2] ∧
      ∀ i1 i2, i1 < us.length → i2 < vs.length →
        res.get ((i1 * vs.length + i2) * 2 + 0) = us.getD i1 0 ∧
        res.get ((i1 * vs.length + i2) * 2 + 1) = vs.getD i2 0 := by
  have hadm1 : ∀ u ∈ us, b1.Admissible tol u := fun u hu =>
    Basis.admissible_of_exact_mem hper1 (hus u hu)
  have hadm2 : ∀ v ∈ vs, b2.Admissible tol v := fun v hv =>
    Basis.admissible_of_exact_mem hper2 (hvs v hv)
  have hshape : (Obj.defaultOf #[b1, b2] [b1.grevArr, b2.grevArr] true).cps.shape
      = [b1.numFunctions, b2.numFunctions, 2 + 1] := Obj.defaultSurface_shape' b1 b2 true
  have hbases : (Obj.defaultOf #[b1, b2] [b1.grevArr, b2.grevArr] true).bases = #[b1, b2] := rfl
  have hrat : (Obj.defaultOf #[b1, b2] [b1.grevArr, b2.grevArr] true).rational = true := rfl
  have hget : ∀ j1 j2 c, j1 < b1.numFunctions → j2 < b2.numFunctions → c < 3 →
      (Obj.defaultOf #[b1, b2] [b1.grevArr, b2.grevArr] true).cps.get
        ((j1 * b2.numFunctions + j2) * (2 + 1) + c)
      = if c = 0 then grevilleAbscissa b1.kn (b1.order - 1) j1
        else if c = 1 then grevilleAbscissa b2.kn (b2.order - 1) j2 else 1 :=
    fun j1 j2 c h1 h2 hc => Obj.defaultSurface_get' b1 b2 true h1 h2 hc
  obtain ⟨res, h1, h2, -, h4⟩ := Obj.evaluate2_spec_rational hbases hv1 hv2 (dim := 2) hshape hrat
    (fun j1 j2 a b => by
      rw [hget j1 j2 2 a b (by decide), if_neg (by decide), if_neg (by decide)]
      exact zero_lt_one) htol hadm1 hadm2 (fun _ => hne1) (fun _ => hne2)
  refine ⟨_, res, Obj.default_eq _ _ _ (mapM_greville_two b1 b2 hp1 hp2), hbases, hrat, hshape,
    ?_, h1, h2, ?_⟩
  · intro j1 j2 a b
    have g0 := hget j1 j2 0 a b (by decide)
    have g1 := hget j1 j2 1 a b (by decide)
    have g2 := hget j1 j2 2 a b (by decide)
    rw [if_pos rfl] at g0
    rw [if_neg (by decide), if_pos rfl] at g1
    rw [if_neg (by decide), if_neg (by decide)] at g2
    exact ⟨g0, g1, g2⟩
  · intro i1 i2 hi1 hi2
    have hu := hus _ (getD_mem_of_lt us hi1 0)
    have hv := hvs _ (getD_mem_of_lt vs hi2 0)
    have hs1 := Basis.specRow_sum hv1 htol (hadm1 _ (getD_mem_of_lt us hi1 0))
    have hs2 := Basis.specRow_sum hv2 htol (hadm2 _ (getD_mem_of_lt vs hi2 0))
    have hsum : ∀ c, c < 3 →
        ∑ j1 ∈ Finset.range b1.numFunctions, ∑ j2 ∈ Finset.range b2.numFunctions,
          b1.specRow (us.getD i1 0) j1 * b2.specRow (vs.getD i2 0) j2
            * (Obj.defaultOf #[b1, b2] [b1.grevArr, b2.grevArr] true).cps.get
                ((j1 * b2.numFunctions + j2) * (2 + 1) + c)
        = ∑ j1 ∈ Finset.range b1.numFunctions, ∑ j2 ∈ Finset.range b2.numFunctions,
          b1.specRow (us.getD i1 0) j1 * b2.specRow (vs.getD i2 0) j2
            * (if c = 0 then grevilleAbscissa b1.kn (b1.order - 1) j1
              else if c = 1 then grevilleAbscissa b2.kn (b2.order - 1) j2 else 1) := by
      intro c hc
      apply Finset.sum_congr rfl; intro j1 hj1
      apply Finset.sum_congr rfl; intro j2 hj2
      rw [hget j1 j2 c (Finset.mem_range.mp hj1) (Finset.mem_range.mp hj2) hc]
    have hden : ∑ j1 ∈ Finset.range b1.numFunctions, ∑ j2 ∈ Finset.range b2.numFunctions,
          b1.specRow (us.getD i1 0) j1 * b2.specRow (vs.getD i2 0) j2
            * (Obj.defaultOf #[b1, b2] [b1.grevArr, b2.grevArr] true).cps.get
                ((j1 * b2.numFunctions + j2) * (2 + 1) + 2) = 1 := by
      rw [hsum 2 (by decide)]
      simp only [show ¬ (2 = 0) by decide, show ¬ (2 = 1) by decide, if_false]
      rw [sum2_left _ _ _ _ (fun _ => (1 : K))]
      simp only [mul_one]
      rw [hs1, hs2, mul_one]
    obtain ⟨-, h5⟩ := h4 i1 i2 hi1 hi2
    constructor
    · rw [h5 0 (by decide), hden, div_one, hsum 0 (by decide)]
      simp only [if_true]
      rw [sum2_left, Basis.specRow_linear_precision hv1 hper1 hp1 hu.2.1 hu.2.2, hs2, mul_one]
    · rw [h5 1 (by decide), hden, div_one, hsum 1 (by decide)]
      simp only [show ¬ (1 = 0) by decide, if_false, if_true]
      rw [sum2_right, Basis.specRow_linear_precision hv2 hper2 hp2 hv.2.1 hv.2.2, hs1, one_mul]


/-- Default non-rational volume, non-periodic bases of order ≥ 2: control points
`(ξ¹_{j1}, ξ²_{j2}, ξ³_{j3})`; it evaluates to `(u, v, w)`. -/
theorem Obj.default_volume_identity (b1 b2 b3 : Basis K) (hv1 : b1.Valid) (hv2 : b2.Valid)
    (hv3 : b3.Valid) (hper1 : b1.periodic = -1) (hper2 : b2.periodic = -1)
    (hper3 : b3.periodic = -1) (hp1 : 2 ≤ b1.order) (hp2 : 2 ≤ b2.order) (hp3 : 2 ≤ b3.order)
    {tol : K} (htol : 0 < tol) {us vs ws : List K}
    (hus : ∀ u ∈ us, b1.ExactAt tol u ∧ b1.start ≤ u ∧ u ≤ b1.stop)
    (hvs : ∀ v ∈ vs, b2.ExactAt tol v ∧ b2.start ≤ v ∧ v ≤ b2.stop)
    (hws : ∀ w ∈ ws, b3.ExactAt tol w ∧ b3.start ≤ w ∧ w ≤ b3.stop)
    (hne1 : us ≠ []) (hne2 : vs ≠ []) (hne3 : ws ≠ []) :
    ∃ o res, Obj.default #[b1, b2, b3] false = .ok o ∧
      o.bases = #[b1, b2, b3] ∧ o.rational = false ∧
      o.cps.shape = [b1.numFunctions, b2.numFunctions, b3.numFunctions, 3] ∧
      (∀ j1 j2 j3, j1 < b1.numFunctions → j2 < b2.numFunctions → j3 < b3.numFunctions →
        o.cps.get (((j1 * b2.numFunctions + j2) * b3.numFunctions + j3) * 3 + 0)
          = grevilleAbscissa b1.kn (b1.order - 1) j1 ∧
        o.cps.get (((j1 * b2.numFunctions + j2) * b3.numFunctions + j3) * 3 + 1)
          = grevilleAbscissa b2.kn (b2.order - 1) j2 ∧
        o.cps.get (((j1 * b2.numFunctions + j2) * b3.numFunctions + j3) * 3 + 2)
          = grevilleAbscissa b3.kn (b3.order - 1) j3) ∧
      o.evaluate tol [us, vs, ws] true = .ok res ∧
      res.shape = [us.length, vs.length, ws.length, 3] ∧
      ∀ i1 i2 i3, i1 < us.length → i2 < vs.length → i3 < ws.length →
        res.get (((i1 * vs.length + i2) * ws.length + i3) * 3 + 0) = us.getD i1 0 ∧
        res.get (((i1 * vs.length + i2) * ws.length + i3) * 3 + 1) = vs.getD i2 0 ∧
        res.get (((i1 * vs.length + i2) * ws.length + i3) * 3 + 2) = ws.getD i3 0 := by
  have hadm1 : ∀ u ∈ us, b1.Admissible tol u := fun u hu =>
    Basis.admissible_of_exact_mem hper1 (hus u hu)
  have hadm2 : ∀ v ∈ vs, b2.Admissible tol v := fun v hv =>
    Basis.admissible_of_exact_mem hper2 (hvs v hv)
  have hadm3 : ∀ w ∈ ws, b3.Admissible tol w := fun w hw =>
    Basis.admissible_of_exact_mem hper3 (hws w hw)
  have hshape : (Obj.defaultOf #[b1, b2, b3] [b1.grevArr, b2.grevArr, b3.grevArr] false).cps.shape
      = [b1.numFunctions, b2.numFunctions, b3.numFunctions, 3] :=
    Obj.defaultVolume_shape b1 b2 b3 false
  have hbases : (Obj.defaultOf #[b1, b2, b3] [b1.grevArr, b2.grevArr, b3.grevArr] false).bases
      = #[b1, b2, b3] := rfl
  have hrat : (Obj.defaultOf #[b1, b2, b3] [b1.grevArr, b2.grevArr, b3.grevArr] false).rational
      = false := rfl
  have hget : ∀ j1 j2 j3 c, j1 < b1.numFunctions → j2 < b2.numFunctions → j3 < b3.numFunctions →
      c < 3 →
      (Obj.defaultOf #[b1, b2, b3] [b1.grevArr, b2.grevArr, b3.grevArr] false).cps.get
        (((j1 * b2.numFunctions + j2) * b3.numFunctions + j3) * 3 + c)
      = if c = 0 then grevilleAbscissa b1.kn (b1.order - 1) j1
        else if c = 1 then grevilleAbscissa b2.kn (b2.order - 1) j2
        else if c = 2 then grevilleAbscissa b3.kn (b3.order - 1) j3 else 1 :=
    fun j1 j2 j3 c h1 h2 h3 hc => Obj.defaultVolume_get b1 b2 b3 false h1 h2 h3 hc
  obtain ⟨res, h1, h2, -, h4⟩ := Obj.evaluate3_spec_nonrational hbases hv1 hv2 hv3 hshape hrat
    htol hadm1 hadm2 hadm3 (fun _ => hne1) (fun _ => hne2) (fun _ => hne3)
  refine ⟨_, res, Obj.default_eq _ _ _ (mapM_greville_three b1 b2 b3 hp1 hp2 hp3), hbases, hrat,
    hshape, ?_, h1, h2, ?_⟩
  · intro j1 j2 j3 a b c
    have g0 := hget j1 j2 j3 0 a b c (by decide)
    have g1 := hget j1 j2 j3 1 a b c (by decide)
    have g2 := hget j1 j2 j3 2 a b c (by decide)
    rw [if_pos rfl] at g0
    rw [if_neg (by decide), if_pos rfl] at g1
    rw [if_neg (by decide), if_neg (by decide), if_pos rfl] at g2
    exact ⟨g0, g1, g2⟩
  · intro i1 i2 i3 hi1 hi2 hi3
    have hu := hus _ (getD_mem_of_lt us hi1 0)
    have hv := hvs _ (getD_mem_of_lt vs hi2 0)
    have hw := hws _ (getD_mem_of_lt ws hi3 0)
    have hs1 := Basis.specRow_sum hv1 htol (hadm1 _ (getD_mem_of_lt us hi1 0))
    have hs2 := Basis.specRow_sum hv2 htol (hadm2 _ (getD_mem_of_lt vs hi2 0))
    have hs3 := Basis.specRow_sum hv3 htol (hadm3 _ (getD_mem_of_lt ws hi3 0))
    have hsum : ∀ c, c < 3 →
        ∑ j1 ∈ Finset.range b1.numFunctions, ∑ j2 ∈ Finset.range b2.numFunctions,
          ∑ j3 ∈ Finset.range b3.numFunctions,
          b1.specRow (us.getD i1 0) j1 * b2.specRow (vs.getD i2 0) j2
            * b3.specRow (ws.getD i3 0) j3
            * (Obj.defaultOf #[b1, b2, b3] [b1.grevArr, b2.grevArr, b3.grevArr] false).cps.get
                (((j1 * b2.numFunctions + j2) * b3.numFunctions + j3) * 3 + c)
        = ∑ j1 ∈ Finset.range b1.numFunctions, ∑ j2 ∈ Finset.range b2.numFunctions,
          ∑ j3 ∈ Finset.range b3.numFunctions,
          b1.specRow (us.getD i1 0) j1 * b2.specRow (vs.getD i2 0) j2
            * b3.specRow (ws.getD i3 0) j3
            * (if c = 0 then grevilleAbscissa b1.kn (b1.order - 1) j1
              else if c = 1 then grevilleAbscissa b2.kn (b2.order - 1) j2
              else if c = 2 then grevilleAbscissa b3.kn (b3.order - 1) j3 else 1) := by
      intro c hc
      apply Finset.sum_congr rfl; intro j1 hj1
      apply Finset.sum_congr rfl; intro j2 hj2
      apply Finset.sum_congr rfl; intro j3 hj3
      rw [hget j1 j2 j3 c (Finset.mem_range.mp hj1) (Finset.mem_range.mp hj2)
        (Finset.mem_range.mp hj3) hc]
    refine ⟨?_, ?_, ?_⟩
    · rw [h4 i1 i2 i3 0 hi1 hi2 hi3 (by decide), hsum 0 (by decide)]
      simp only [if_true]
      rw [sum3_first, Basis.specRow_linear_precision hv1 hper1 hp1 hu.2.1 hu.2.2, hs2, hs3,
        mul_one, mul_one]
    · rw [h4 i1 i2 i3 1 hi1 hi2 hi3 (by decide), hsum 1 (by decide)]
      simp only [show ¬ (1 = 0) by decide, if_false, if_true]
      rw [sum3_second, Basis.specRow_linear_precision hv2 hper2 hp2 hv.2.1 hv.2.2, hs1, hs3,
        one_mul, mul_one]
    · rw [h4 i1 i2 i3 2 hi1 hi2 hi3 (by decide), hsum 2 (by decide)]
      simp only [show ¬ (2 = 0) by decide, show ¬ (2 = 1) by decide, if_false, if_true]
      rw [sum3_third, Basis.specRow_linear_precision hv3 hper3 hp3 hw.2.1 hw.2.2, hs1, hs2,
        one_mul, one_mul]

/-- Default rational volume: control points `(ξ¹_{j1}, ξ²_{j2}, ξ³_{j3}, 1)`; it evaluates to
`(u, v, w)`. -/
theorem Obj.default_volume_identity_rational (b1 b2 b3 : Basis K) (hv1 : b1.Valid)
    (hv2 : b2.Valid) (hv3 : b3.Valid) (hper1 : b1.periodic = -1) (hper2 : b2.periodic = -1)
    (hper3 : b3.periodic = -1) (hp1 : 2 ≤ b1.order) (hp2 : 2 ≤ b2.order) (hp3 : 2 ≤ b3.order)
    {tol : K} (htol : 0 < tol) {us vs ws : List K}
    (hus : ∀ u ∈ us, b1.ExactAt tol u ∧ b1.start ≤ u ∧ u ≤ b1.stop)
    (hvs : ∀ v ∈ vs, b2.ExactAt tol v ∧ b2.start ≤ v ∧ v ≤ b2.stop)
    (hws : ∀ w ∈ ws, b3.ExactAt tol w ∧ b3.start ≤ w ∧ w ≤ b3.stop)
    (hne1 : us ≠ []) (hne2 : vs ≠ []) (hne3 : ws ≠ []) :
    ∃ o res, Obj.default #[b1, b2, b3] true = .ok o ∧
      o.bases = #[b1, b2, b3] ∧ o.rational = true ∧
      o.cps.shape = [b1.numFunctions, b2.numFunctions, b3.numFunctions, 4] ∧
      (∀ j1 j2 j3, j1 < b1.numFunctions → j2 < b2.numFunctions → j3 < b3.numFunctions →
        o.cps.get (((j1 * b2.numFunctions + j2) * b3.numFunctions + j3) * 4 + 0)
          = grevilleAbscissa b1.kn (b1.order - 1) j1 ∧
        o.cps.get (((j1 * b2.numFunctions + j2) * b3.numFunctions + j3) * 4 + 1)
          = grevilleAbscissa b2.kn (b2.order - 1) j2 ∧
        o.cps.get (((j1 * b2.numFunctions + j2) * b3.numFunctions + j3) * 4 + 2)
          = grevilleAbscissa b3.kn (b3.order - 1) j3 ∧
        o.cps.get (((j1 * b2.numFunctions + j2) * b3.numFunctions + j3) * 4 + 3) = 1) ∧
      o.evaluate tol [us, vs, ws] true = .ok res ∧
      res.shape = [us.length, vs.length, ws.length, 3] ∧
      ∀ i1 i2 i3, i1 < us.length → i2 < vs.length → i3 < ws.length →
        res.get (((i1 * vs.length + i2) * ws.length + i3) * 3 + 0) = us.getD i1 0 ∧
        res.get (((i1 * vs.length + i2) * ws.length + i3) * 3 + 1) = vs.getD i2 0 ∧
        res.get (((i1 * vs.length + i2) * ws.length + i3) * 3 + 2) = ws.getD i3 0 := by
  have hadm1 : ∀ u ∈ us, b1.Admissible tol u := fun u hu =>
    Basis.admissible_of_exact_mem hper1 (hus u hu)
  have hadm2 : ∀ v ∈ vs, b2.Admissible tol v := fun v hv =>
    Basis.admissible_of_exact_mem hper2 (hvs v hv)
  have hadm3 : ∀ w ∈ ws, b3.Admissible tol w := fun w hw =>
    Basis.admissible_of_exact_mem hper3 (hws w hw)
  have hshape : (Obj.defaultOf #[b1, b2, b3] [b1.grevArr, b2.grevArr, b3.grevArr] true).cps.shape
      = [b1.numFunctions, b2.numFunctions, b3.numFunctions, 3 + 1] :=
    Obj.defaultVolume_shape b1 b2 b3 true
  have hbases : (Obj.defaultOf #[b1, b2, b3] [b1.grevArr, b2.grevArr, b3.grevArr] true).bases
      = #[b1, b2, b3] := rfl
  have hrat : (Obj.defaultOf #[b1, b2, b3] [b1.grevArr, b2.grevArr, b3.grevArr] true).rational
      = true := rfl
  have hget : ∀ j1 j2 j3 c, j1 < b1.numFunctions → j2 < b2.numFunctions → j3 < b3.numFunctions →
      c < 4 →
      (Obj.defaultOf #[b1, b2, b3] [b1.grevArr, b2.grevArr, b3.grevArr] true).cps.get
        (((j1 * b2.numFunctions + j2) * b3.numFunctions + j3) * (3 + 1) + c)
      = if c = 0 then grevilleAbscissa b1.kn (b1.order - 1) j1
        else if c = 1 then grevilleAbscissa b2.kn (b2.order - 1) j2
        else if c = 2 then grevilleAbscissa b3.kn (b3.order - 1) j3 else 1 :=
    fun j1 j2 j3 c h1 h2 h3 hc => Obj.defaultVolume_get b1 b2 b3 true h1 h2 h3 hc
  obtain ⟨res, h1, h2, -, h4⟩ := Obj.evaluate3_spec_rational hbases hv1 hv2 hv3 (dim := 3) hshape
    hrat
    (fun j1 j2 j3 a b c => by
      rw [hget j1 j2 j3 3 a b c (by decide), if_neg (by decide), if_neg (by decide),
        if_neg (by decide)]
      exact zero_lt_one) htol hadm1 hadm2 hadm3 (fun _ => hne1) (fun _ => hne2) (fun _ => hne3)
  refine ⟨_, res, Obj.default_eq _ _ _ (mapM_greville_three b1 b2 b3 hp1 hp2 hp3), hbases, hrat,
    hshape, ?_, h1, h2, ?_⟩
  · intro j1 j2 j3 a b c
    have g0 := hget j1 j2 j3 0 a b c (by decide)
    have g1 := hget j1 j2 j3 1 a b c (by decide)
    have g2 := hget j1 j2 j3 2 a b c (by decide)
    have g3 := hget j1 j2 j3 3 a b c (by decide)
    rw [if_pos rfl] at g0
    rw [if_neg (by decide), if_pos rfl] at g1
    rw [if_neg (by decide), if_neg (by decide), if_pos rfl] at g2
    rw [if_neg (by decide), if_neg (by decide), if_neg (by decide)] at g3
    exact ⟨g0, g1, g2, g3⟩
  · intro i1 i2 i3 hi1 hi2 hi3
    have hu := hus _ (getD_mem_of_lt us hi1 0)
    have hv := hvs _ (getD_mem_of_lt vs hi2 0)
    have hw := hws _ (getD_mem_of_lt ws hi3 0)
    have hs1 := Basis.specRow_sum hv1 htol (hadm1 _ (getD_mem_of_lt us hi1 0))
    have hs2 := Basis.specRow_sum hv2 htol (hadm2 _ (getD_mem_of_lt vs hi2 0))
    have hs3 := Basis.specRow_sum hv3 htol (hadm3 _ (getD_mem_of_lt ws hi3 0))
    have hsum : ∀ c, c < 4 →
        ∑ j1 ∈ Finset.range b1.numFunctions, ∑ j2 ∈ Finset.range b2.numFunctions,
          ∑ j3 ∈ Finset.range b3.numFunctions,
          b1.specRow (us.getD i1 0) j1 * b2.specRow (vs.getD i2 0) j2
            * b3.specRow (ws.getD i3 0) j3
            * (Obj.defaultOf #[b1, b2, b3] [b1.grevArr, b2.grevArr, b3.grevArr] true).cps.get
                (((j1 * b2.numFunctions + j2) * b3.numFunctions + j3) * (3 + 1) + c)
        = ∑ j1 ∈ Finset.range b1.numFunctions, ∑ j2 ∈ Finset.range b2.numFunctions,
          ∑ j3 ∈ Finset.range b3.numFunctions,
          b1.specRow (us.getD i1 0) j1 * b2.specRow (vs.getD i2 0) j2
            * b3.specRow (ws.getD i3 0) j3
            * (if c = 0 then grevilleAbscissa b1.kn (b1.order - 1) j1
              else if c = 1 then grevilleAbscissa b2.kn (b2.order - 1) j2
              else if c = 2 then grevilleAbscissa b3.kn (b3.order - 1) j3 else 1) := by
      intro c hc
      apply Finset.sum_congr rfl; intro j1 hj1
      apply Finset.sum_congr rfl; intro j2 hj2
      apply Finset.sum_congr rfl; intro j3 hj3
      rw [hget j1 j2 j3 c (Finset.mem_range.mp hj1) (Finset.mem_range.mp hj2)
        (Finset.mem_range.mp hj3) hc]
    have hden : ∑ j1 ∈ Finset.range b1.numFunctions, ∑ j2 ∈ Finset.range b2.numFunctions,
          ∑ j3 ∈ Finset.range b3.numFunctions,
          b1.specRow (us.getD i1 0) j1 * b2.specRow (vs.getD i2 0) j2
            * b3.specRow (ws.getD i3 0) j3
            * (Obj.defaultOf #[b1, b2, b3] [b1.grevArr, b2.grevArr, b3.grevArr] true).cps.get
                (((j1 * b2.numFunctions + j2) * b3.numFunctions + j3) * (3 + 1) + 3) = 1 := by
      rw [hsum 3 (by decide)]
      simp only [show ¬ (3 = 0) by decide, show ¬ (3 = 1) by decide, show ¬ (3 = 2) by decide,
        if_false]
      rw [sum3_first _ _ _ _ _ _ (fun _ => (1 : K))]
      simp only [mul_one]
      rw [hs1, hs2, hs3, mul_one, mul_one]
    obtain ⟨-, h5⟩ := h4 i1 i2 i3 hi1 hi2 hi3
    refine ⟨?_, ?_, ?_⟩
    · rw [h5 0 (by decide), hden, div_one, hsum 0 (by decide)]
      simp only [if_true]
      rw [sum3_first, Basis.specRow_linear_precision hv1 hper1 hp1 hu.2.1 hu.2.2, hs2, hs3,
        mul_one, mul_one]
    · rw [h5 1 (by decide), hden, div_one, hsum 1 (by decide)]
      simp only [show ¬ (1 = 0) by decide, if_false, if_true]
      rw [sum3_second, Basis.specRow_linear_precision hv2 hper2 hp2 hv.2.1 hv.2.2, hs1, hs3,
        one_mul, mul_one]
    · rw [h5 2 (by decide), hden, div_one, hsum 2 (by decide)]
      simp only [show ¬ (2 = 0) by decide, show ¬ (2 = 1) by decide, if_false, if_true]
      rw [sum3_third, Basis.specRow_linear_precision hv3 hper3 hp3 hw.2.1 hw.2.2, hs1, hs2,
        one_mul, one_mul]


end Splipy
