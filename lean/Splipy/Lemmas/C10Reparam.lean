import Splipy.Model.History
import Splipy.Lemmas.C10Tensor
import Splipy.Lemmas.C06Knots

/-!
# C10 — the in-place re-parametrising calls keep an object well formed

`reverse(direction)`, `swap(dir1, dir2)`, `reparam((s, e), direction=d)`, `reparam(*args)` and
`clone()` as dispatched by `History.stepOut`: whenever the call completes without raising, the
receiver is again `Obj.WellFormed` and no new object is created (`clone`: the one new object is
well formed).
-/

set_option linter.unusedSectionVars false
set_option linter.unusedSimpArgs false

namespace Splipy

variable {K : Type} [Field K] [LinearOrder K]

/-! ## `check_direction` on an `int` -/

theorem checkDirection_int_ok {dir n d' : ℕ} (h : checkDirection (.int (dir : Int)) n = .ok d') :
    d' = dir ∧ dir < n := by
  unfold checkDirection at h
  simp only [DirTok.int.injEq, reduceCtorEq, or_false] at h
  split_ifs at h with h1 h2 h3 <;> injection h with h <;> omega

/-! ## small array / list facts -/

namespace C10

theorem array_set_getD (a : Array (Basis K)) (d : ℕ) : a.set! d (a.getD d default) = a := by
  apply Array.ext
  · simp
  · intro i h1 h2
    by_cases h : d = i
    · subst h
      simp [Array.getD_eq_getD_getElem?, h2]
    · simp only [Array.set!_eq_setIfInBounds]
      rw [Array.getElem_setIfInBounds_ne h2 h]

theorem array_set_set (a : Array (Basis K)) (d : ℕ) (x y : Basis K) :
    (a.set! d x).set! d y = a.set! d y := by
  apply Array.ext
  · simp
  · intro i h1 h2
    have h3 : i < a.size := by simpa using h2
    by_cases h : d = i
    · subst h
      simp [h3]
    · simp only [Array.set!_eq_setIfInBounds]
      rw [Array.getElem_setIfInBounds_ne (by simpa using h3) h, Array.getElem_setIfInBounds_ne h3 h,
        Array.getElem_setIfInBounds_ne h3 h]

theorem valid_numFunctions_pos {b : Basis K} (hv : b.Valid) : 0 < b.numFunctions := by
  have h1 := hv.order_pos; have h2 := hv.size_ge; have h3 := hv.periodic_ge; have h4 := hv.periodic_le
  unfold Basis.numFunctions
  omega

end C10

/-! ## index algebra for `swapAxes` -/

namespace C10

open C06

theorem ext_getD {l1 l2 : List ℕ} (hl : l1.length = l2.length)
    (h : ∀ k, k < l1.length → l1.getD k 0 = l2.getD k 0) : l1 = l2 := by
  apply List.ext_getElem hl
  intro k h1 h2
  have := h k h1
  simpa [List.getD_eq_getElem?_getD, h1, h2] using this

/-- Exchanging two positions twice restores the list. -/
theorem swapL_swapL (l : List ℕ) (a b x y : ℕ) (ha : a < l.length) (hb : b < l.length) :
    swapL (swapL l a b x) a b y = l := by
  apply ext_getD
  · rw [swapL_length, swapL_length]
  · intro k _
    rw [getD_swapL _ _ _ _ _ _ (by rw [swapL_length]; exact ha) (by rw [swapL_length]; exact hb),
      getD_swapL _ _ _ _ _ _ ha hb, sw_sw]

theorem swapL_self (l : List ℕ) (a x : ℕ) (ha : a < l.length) : swapL l a a x = l := by
  apply ext_getD
  · rw [swapL_length]
  · intro k _
    rw [getD_swapL _ _ _ _ _ _ ha ha]
    have e : sw a a k = k := by unfold sw; split_ifs <;> omega
    rw [e]

/-- The exchanged positions lie in the front part. -/
theorem swapL_append (l : List ℕ) (z a b x : ℕ) (ha : a < l.length) (hb : b < l.length) :
    swapL (l ++ [z]) a b x = swapL l a b x ++ [z] := by
  unfold swapL
  rw [List.getD_append _ _ _ _ ha, List.getD_append _ _ _ _ hb, List.set_append_left _ _ ha,
    List.set_append_left _ _ (by rw [List.length_set]; exact hb)]

/-- Every flat position below `prod shape` is the position of a multi-index. -/
theorem unravel (shape : List ℕ) : ∀ f, f < Tensor.prod shape →
    ∃ idx, InRange idx shape ∧ flatIdx shape idx = f := by
  induction shape with
  | nil =>
    intro f hf
    rw [prod_nil] at hf
    exact ⟨[], List.Forall₂.nil, by simp; omega⟩
  | cons n shape ih =>
    intro f hf
    rw [prod_cons] at hf
    have hP : 0 < Tensor.prod shape := by
      rcases Nat.eq_zero_or_pos (Tensor.prod shape) with h0 | h0
      · rw [h0, Nat.mul_zero] at hf; exact absurd hf (Nat.not_lt_zero _)
      · exact h0
    obtain ⟨idx, hin, hfl⟩ := ih (f % Tensor.prod shape) (Nat.mod_lt _ hP)
    refine ⟨f / Tensor.prod shape :: idx, List.Forall₂.cons ?_ hin, ?_⟩
    · exact Nat.div_lt_of_lt_mul (by rwa [Nat.mul_comm] at hf)
    · rw [flatIdx_cons, hfl, Nat.mul_comm]
      exact Nat.div_add_mod f _

/-- The last digit of a flat position (`shape` has `m + 1` axes). -/
theorem flatIdx_mod_last (shape idx : List ℕ) (m : ℕ) (hm : shape.length = m + 1) (h : InRange idx shape) :
    flatIdx shape idx % shape.getD m 1 = idx.getD m 0 := by
  have hlt := h.getD_lt m (by omega)
  rw [flatIdx_split shape idx m (by omega) h.length_eq,
    List.drop_eq_nil_of_le (show shape.length ≤ m + 1 by omega)]
  simp only [prod_nil, Nat.mul_one, flatIdx_nil_left, Nat.add_zero]
  rw [Nat.add_comm, Nat.add_mul_mod_self_right, Nat.mod_eq_of_lt hlt]

theorem swapAxes_self (t : Tensor K) (a : ℕ) : t.swapAxes a a = t := by
  unfold Tensor.swapAxes
  rw [if_pos rfl]

theorem swapAxes_shape (t : Tensor K) (a b : ℕ) (hab : a ≠ b) :
    (t.swapAxes a b).shape = swapL t.shape a b 1 := by
  unfold Tensor.swapAxes
  rw [if_neg hab]
  rfl

theorem swapAxes_data_size (t : Tensor K) (a b : ℕ) (hab : a ≠ b) :
    (t.swapAxes a b).data.size = Tensor.prod (t.swapAxes a b).shape := by
  rw [swapAxes_shape t a b hab]
  unfold Tensor.swapAxes
  rw [if_neg hab]
  simp only [Array.size_ofFn]
  rfl

end C10

section SwapT

open C06 C10

/-- Exchanging two parametric axes keeps the weight positions positive (the component axis `m` is not
    touched). -/
theorem C10.swapAxes_tpos (t : Tensor K) (a b m nc dim : ℕ) (hlen : t.shape.length = m + 1)
    (ha : a < m) (hb : b < m) (hsz : t.data.size = Tensor.prod t.shape) (hnc : t.shape.getD m 1 = nc)
    (hpos : TPos t nc dim) : TPos (t.swapAxes a b) nc dim := by
  by_cases hab : a = b
  · subst hab; rw [swapAxes_self]; exact hpos
  · intro f hf hmod
    have ha' : a < t.shape.length := by omega
    have hb' : b < t.shape.length := by omega
    rw [swapAxes_data_size t a b hab, swapAxes_shape t a b hab] at hf
    obtain ⟨jdx, hj, hfl⟩ := unravel _ f hf
    have hjl : jdx.length = t.shape.length := by rw [hj.length_eq, swapL_length]
    have hin : InRange (swapL jdx a b 0) t.shape := by
      have := inRange_swapL jdx (swapL t.shape a b 1) a b (by rw [swapL_length]; exact ha')
        (by rw [swapL_length]; exact hb') hj
      rwa [swapL_swapL _ _ _ _ _ ha' hb'] at this
    have key := getIdx_swapAxes t a b (swapL jdx a b 0) ha' hb' hin
    rw [swapL_swapL _ _ _ _ _ (by omega) (by omega)] at key
    unfold getIdx at key
    rw [swapAxes_shape t a b hab, hfl] at key
    rw [key]
    have hsm : sw a b m = m := by unfold sw; split_ifs <;> omega
    apply hpos
    · rw [hsz]; exact flatIdx_lt hin
    · rw [← hnc, flatIdx_mod_last t.shape _ m hlen hin, getD_swapL _ _ _ _ _ _ (by omega) (by omega), hsm,
        ← flatIdx_mod_last _ jdx m (by rw [swapL_length]; exact hlen) hj, hfl,
        getD_swapL _ _ _ _ _ _ ha' hb', hsm, hnc]
      exact hmod

end SwapT

/-! ## `reverse` -/

namespace Obj

section Reverse

variable [IsStrictOrderedRing K] {o : Obj K}

theorem basis_set_self' (o : Obj K) (cps : Tensor K) (d : ℕ) (b : Basis K) (hd : d < o.bases.size) :
    ({ o with bases := o.bases.set! d b, cps := cps } : Obj K).basis d = b := by
  simp [Obj.basis, Array.getD_eq_getD_getElem?, Array.getElem?_setIfInBounds, hd]

/-- `Obj.reverse` (flip, and roll on a periodic direction) keeps an object well formed. -/
theorem WellFormed.reverse (h : o.WellFormed) (dir : ℕ) (hd : dir < o.bases.size) :
    (o.reverse dir).WellFormed := by
  have hv := h.valid dir hd
  have hvr := C06.reverse_valid hv
  have hn : o.cps.shape.getD dir 1 = (o.basis dir).numFunctions := h.shape_getD dir 1 hd
  have hpos := C10.valid_numFunctions_pos hv
  have h1 : ({ o with bases := o.bases.set! dir (o.basis dir).reverse,
                      cps := o.cps.flipAxis dir } : Obj K).WellFormed := by
    unfold Tensor.flipAxis
    exact h.reindex dir _ _ (o.basis dir).reverse hd hvr
      ((C06.reverse_numFunctions _).trans hn.symm) (fun r hr => by rw [hn] at hr ⊢; omega)
  by_cases hp : (o.basis dir).periodic > -1
  · have hd1 : dir < (o.bases.set! dir (o.basis dir).reverse).size := by
      simpa using hd
    have hb1 := basis_set_self' o (o.cps.flipAxis dir) dir (o.basis dir).reverse hd
    have hm := h1.shape_getD dir 1 hd1
    rw [hb1] at hm
    have hm' : (o.cps.flipAxis dir).shape.getD dir 1 = (o.basis dir).reverse.numFunctions := hm
    have hpos' : 0 < (o.cps.flipAxis dir).shape.getD dir 1 := by
      rw [hm', C06.reverse_numFunctions]; exact hpos
    have h2 := h1.reindex dir ((o.cps.flipAxis dir).shape.getD dir 1)
      (fun r => (r + ((o.cps.flipAxis dir).shape.getD dir 1
          - ((o.basis dir).periodic + 1).toNat % (o.cps.flipAxis dir).shape.getD dir 1))
          % (o.cps.flipAxis dir).shape.getD dir 1)
      (o.basis dir).reverse hd1 hvr hm'.symm
      (fun r _ => by rw [hb1, ← hm']; exact Nat.mod_lt _ hpos')
    have e : o.reverse dir =
        ({ o with bases := (o.bases.set! dir (o.basis dir).reverse).set! dir (o.basis dir).reverse,
                  cps := (o.cps.flipAxis dir).rollAxisPos dir ((o.basis dir).periodic + 1).toNat } : Obj K) := by
      unfold Obj.reverse
      simp only [if_pos hp]
      rw [C10.array_set_set]
    rw [e]
    exact h2
  · have e : o.reverse dir =
        ({ o with bases := o.bases.set! dir (o.basis dir).reverse, cps := o.cps.flipAxis dir } : Obj K) := by
      unfold Obj.reverse
      simp only [if_neg hp]
    rw [e]
    exact h1

end Reverse

/-! ## `reparam` -/

section Reparam

variable [IsStrictOrderedRing K] {o : Obj K}

theorem WellFormed.reparamOne (h : o.WellFormed) (dir : ℕ) (arg : List K) {o' : Obj K}
    (hs : o.reparamOne dir arg = .ok o') : o'.WellFormed ∧ o'.bases.size = o.bases.size := by
  unfold Obj.reparamOne at hs
  split at hs
  · rename_i s e
    rw [C06.reparam_eq] at hs
    by_cases hle : e ≤ s
    · rw [if_pos hle] at hs
      cases hs
    · rw [if_neg hle] at hs
      injection hs with hs
      subst hs
      refine ⟨?_, by simp⟩
      by_cases hd : dir < o.bases.size
      · exact h.set_basis dir _ (C06.reparamOk_valid (h.valid dir hd) (not_le.mp hle))
          (fun _ => C06.reparamOk_numFunctions _ s e)
      · have e0 : o.bases.set! dir (C06.reparamOk (o.basis dir) s e) = o.bases := by
          rw [Array.set!_eq_setIfInBounds]
          exact Array.setIfInBounds_eq_of_size_le (by omega)
        rw [e0]
        exact h
  · cases hs

theorem WellFormed.reparamLoop (args : List (List K)) : ∀ {o : Obj K} (_ : o.WellFormed) (dir : ℕ)
    {o' : Obj K}, o.reparamLoop dir args = (o', none) → o'.WellFormed := by
  induction args with
  | nil =>
    intro o h dir o' hs
    unfold Obj.reparamLoop at hs
    injection hs with hs _
    subst hs; exact h
  | cons arg rest ih =>
    intro o h dir o' hs
    unfold Obj.reparamLoop at hs
    by_cases hle : o.pardimB ≤ dir
    · rw [if_pos hle] at hs
      injection hs with hs _
      subst hs; exact h
    · rw [if_neg hle] at hs
      cases h1 : o.reparamOne dir arg with
      | error e => rw [h1] at hs; simp at hs
      | ok o1 =>
        rw [h1] at hs
        exact ih (h.reparamOne dir arg h1).1 (dir + 1) hs

end Reparam

end Obj

/-! ## `swap` -/

namespace Obj

section Swap

open C06 C10

variable {o : Obj K}

theorem counts_swap (o : Obj K) (a b : ℕ) (ha : a < o.bases.size) (hb : b < o.bases.size) :
    (o.swap a b).counts = swapL o.counts a b 1 := by
  unfold swapL
  rw [counts_getD o a 1 ha, counts_getD o b 1 hb]
  simp only [Obj.counts, Obj.swap, Array.set!_eq_setIfInBounds, Array.toList_setIfInBounds, List.map_set]

theorem basis_swap (o : Obj K) (a b k : ℕ) (ha : a < o.bases.size) (hb : b < o.bases.size) :
    (o.swap a b).basis k = o.basis (sw a b k) := by
  unfold Obj.swap sw
  simp only []
  by_cases hkb : k = b
  · subst hkb
    by_cases hka : k = a
    · subst hka
      simp [Obj.basis, Array.getD_eq_getD_getElem?, Array.getElem?_setIfInBounds, ha]
    · have : a ≠ k := Ne.symm hka
      simp [Obj.basis, Array.getD_eq_getD_getElem?, Array.getElem?_setIfInBounds, ha, hb, hka]
  · have n1 : b ≠ k := Ne.symm hkb
    by_cases hka : k = a
    · subst hka
      simp [Obj.basis, Array.getD_eq_getD_getElem?, Array.getElem?_setIfInBounds, ha, hb, n1]
    · have n2 : a ≠ k := Ne.symm hka
      simp [Obj.basis, Array.getD_eq_getD_getElem?, Array.getElem?_setIfInBounds, n1, n2, hka, hkb]

theorem swap_self (o : Obj K) (a : ℕ) : o.swap a a = o := by
  unfold Obj.swap
  simp only []
  rw [swapAxes_self, array_set_set, show o.basis a = o.bases.getD a Inhabited.default from rfl, array_set_getD]

/-- `Obj.swap` keeps an object well formed. -/
theorem WellFormed.swap (h : o.WellFormed) (a b : ℕ) (ha : a < o.bases.size) (hb : b < o.bases.size) :
    (o.swap a b).WellFormed := by
  by_cases hab : a = b
  · subst hab; rw [swap_self]; exact h
  have hal : a < o.counts.length := by rw [counts_length]; exact ha
  have hbl : b < o.counts.length := by rw [counts_length]; exact hb
  have hsize : (o.swap a b).bases.size = o.bases.size := by
    show ((o.bases.set! a (o.basis b)).set! b (o.basis a)).size = _
    simp
  have hshape : (o.swap a b).cps.shape = (o.swap a b).counts ++ [o.ncomp] := by
    show (o.cps.swapAxes a b).shape = _
    rw [swapAxes_shape _ _ _ hab, h.shape_eq', swapL_append _ _ _ _ _ hal hbl, counts_swap o a b ha hb]
  have hnc : (o.swap a b).ncomp = o.ncomp := ncomp_of_shape hshape
  have hdim : (o.swap a b).dimension = o.dimension := by
    unfold Obj.dimension; rw [hnc]; rfl
  have hspec : (o.swap a b).ncompSpec = o.ncomp := by
    unfold Obj.ncompSpec; rw [hdim]; exact h.ncomp_eq.symm
  have hlast : o.cps.shape.getD o.bases.size 1 = o.ncomp := by
    rw [h.shape_eq', List.getD_append_right _ _ _ _ (by rw [counts_length]), counts_length]
    simp
  apply WellFormed.of_weightsPos
  · rw [hsize, pardim_of_shape hshape, counts_length, hsize]
  · rw [hshape, hspec]
  · exact swapAxes_data_size o.cps a b hab
  · rw [hdim]; exact h.dim_pos
  · intro k hk
    rw [hsize] at hk
    rw [basis_swap o a b k ha hb]
    exact h.valid _ ((sw_lt a b k _ ha hb).mpr hk)
  · intro hr f hf hmod
    rw [hnc, hdim] at hmod
    have hr' : o.rational = true := hr
    exact swapAxes_tpos o.cps a b o.bases.size o.ncomp o.dimension h.shape_length ha hb h.data_size hlast
      (h.tpos hr') f hf hmod

end Swap

end Obj

/-! ## the calls of `History.stepOut` -/

namespace History

open History

theorem ofReStep_ok {s : ReStep K} {out : Out K} (h : ofReStep s = .ok out) :
    s.err = none ∧ out.recv = s.obj ∧ out.news = [] := by
  unfold ofReStep at h
  split at h
  · cases h
  · rename_i he
    injection h with h
    subst h
    exact ⟨he, rfl, rfl⟩

variable [FloorRing K]

/-- `reverse(direction)`. -/
theorem stepOut_reverse_wf [IsStrictOrderedRing K] {o : Obj K} (h : o.WellFormed) (tol : K) (dir : ℕ)
    {out : Out K} (hs : stepOut tol o (.reverse dir) = .ok out) :
    out.recv.WellFormed ∧ out.news = [] := by
  obtain ⟨he, hr, hn⟩ := ofReStep_ok (show ofReStep (o.reverseTok (.int dir)) = .ok out from hs)
  refine ⟨?_, hn⟩
  rw [hr]
  unfold Obj.reverseTok at he ⊢
  cases hc : checkDirection (.int (dir : Int)) o.pardimB with
  | error e => rw [hc] at he; cases he
  | ok d' =>
    obtain ⟨rfl, hlt⟩ := checkDirection_int_ok hc
    exact h.reverse d' hlt

/-- `reparam((s, e), direction=dir)`. -/
theorem stepOut_reparam_wf [IsStrictOrderedRing K] {o : Obj K} (h : o.WellFormed) (tol : K) (dir : ℕ)
    (s e : K) {out : Out K} (hs : stepOut tol o (.reparam dir s e) = .ok out) :
    out.recv.WellFormed ∧ out.news = [] := by
  obtain ⟨he, hr, hn⟩ :=
    ofReStep_ok (show ofReStep (o.reparamDirTok (.int dir) [[s, e]]) = .ok out from hs)
  refine ⟨?_, hn⟩
  rw [hr]
  unfold Obj.reparamDirTok at he ⊢
  cases hc : checkDirection (.int (dir : Int)) o.pardimB with
  | error e => rw [hc] at he; cases he
  | ok d' =>
    rw [hc] at he
    simp only [] at he ⊢
    cases h1 : o.reparamOne d' [s, e] with
    | error e => rw [h1] at he; cases he
    | ok o1 => exact (h.reparamOne d' [s, e] h1).1

/-- `reparam(*args)`. -/
theorem stepOut_reparamAll_wf [IsStrictOrderedRing K] {o : Obj K} (h : o.WellFormed) (tol : K)
    (args : List (List K)) {out : Out K} (hs : stepOut tol o (.reparamAll args) = .ok out) :
    out.recv.WellFormed ∧ out.news = [] := by
  obtain ⟨he, hr, hn⟩ := ofReStep_ok (show ofReStep (o.reparamArgs args) = .ok out from hs)
  refine ⟨?_, hn⟩
  rw [hr]
  have he' : (o.reparamLoop 0 (args ++ List.replicate (o.pardimB - args.length) [0, 1])).2 = none := he
  show (o.reparamLoop 0 (args ++ List.replicate (o.pardimB - args.length) [0, 1])).1.WellFormed
  exact Obj.WellFormed.reparamLoop _ h 0 (Prod.ext rfl he')

/-- `swap(d1, d2)`. -/
theorem stepOut_swap_wf {o : Obj K} (h : o.WellFormed) (tol : K) (d1 d2 : ℕ) {out : Out K}
    (hs : stepOut tol o (.swap d1 d2) = .ok out) : out.recv.WellFormed ∧ out.news = [] := by
  obtain ⟨he, hr, hn⟩ := ofReStep_ok (show ofReStep (o.swapTok (.int d1) (.int d2)) = .ok out from hs)
  refine ⟨?_, hn⟩
  rw [hr]
  unfold Obj.swapTok at he ⊢
  by_cases h1 : o.pardimB = 1
  · rw [if_pos h1]; exact h
  · rw [if_neg h1] at he ⊢
    cases hc1 : checkDirection (.int (d1 : Int)) o.pardimB with
    | error e => rw [hc1] at he; cases he
    | ok a =>
      rw [hc1] at he
      simp only [] at he ⊢
      cases hc2 : checkDirection (.int (d2 : Int)) o.pardimB with
      | error e => rw [hc2] at he; cases he
      | ok b =>
        obtain ⟨rfl, hlt1⟩ := checkDirection_int_ok hc1
        obtain ⟨rfl, hlt2⟩ := checkDirection_int_ok hc2
        exact h.swap a b hlt1 hlt2

/-- `clone()`. -/
theorem stepOut_clone_wf {o : Obj K} (h : o.WellFormed) (tol : K) {out : Out K}
    (hs : stepOut tol o .clone = .ok out) : out.recv.WellFormed ∧ ∀ n ∈ out.news, n.WellFormed := by
  have hs' : (Except.ok { recv := o, news := [o] } : PyM (Out K)) = .ok out := hs
  injection hs' with hs'
  subst hs'
  exact ⟨h, fun n hn => by simp at hn; subst hn; exact h⟩

end History

end Splipy
