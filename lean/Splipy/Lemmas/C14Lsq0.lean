import Mathlib.LinearAlgebra.Matrix.ToLinearEquiv
import Mathlib.LinearAlgebra.Matrix.NonsingularInverse
import Mathlib.Algebra.Order.BigOperators.Ring.Finset
import Mathlib.Algebra.BigOperators.Intervals
import Mathlib.Tactic.Linarith
set_option linter.unusedSectionVars false

/-!
# C14: least squares needs no solvability hypothesis

Sample points containing a nested (Schoenberg–Whitney) subsequence ⇒ the collocation matrix `N` has
full column rank ⇒ `NᵀN` is injective over an ordered field (`xᵀNᵀNx = Σ (Nx)ᵢ²`) ⇒ it has a left
inverse ⇒ the (sound and complete) Gauss–Jordan model solves the normal equations.
-/

namespace Splipy
open Finset

section algebra
variable {K : Type} [Field K] [LinearOrder K] [IsStrictOrderedRing K]

theorem sum_sq_eq_zero_c14 (m : ℕ) (a : ℕ → K) (h : ∑ i ∈ range m, a i ^ 2 = 0) :
    ∀ i < m, a i = 0 := by
  intro i hi
  have := (sum_eq_zero_iff_of_nonneg (fun i _ => sq_nonneg (a i))).mp h i (mem_range.mpr hi)
  exact pow_eq_zero_iff (by decide) |>.mp this

/-- `xᵀ (NᵀN) x = Σ_l (N x)_l²`. -/
theorem gram_quadratic_c14 (m n : ℕ) (N : ℕ → ℕ → K) (x : ℕ → K) :
    ∑ i ∈ range n, x i * ∑ j ∈ range n, (∑ l ∈ range m, N l i * N l j) * x j
      = ∑ l ∈ range m, (∑ j ∈ range n, N l j * x j) ^ 2 := by
  have e : ∀ l ∈ range m, (∑ j ∈ range n, N l j * x j) ^ 2
      = ∑ i ∈ range n, ∑ j ∈ range n, x i * (N l i * N l j) * x j := by
    intro l _
    rw [sq, sum_mul_sum]
    exact sum_congr rfl (fun i _ => sum_congr rfl (fun j _ => by ring))
  rw [sum_congr rfl e, sum_comm]
  apply sum_congr rfl
  intro i _
  rw [mul_sum, sum_comm]
  apply sum_congr rfl
  intro j _
  rw [sum_mul, mul_sum]
  exact sum_congr rfl (fun l _ => by ring)

/-- Full column rank of `N` ⇒ the Gram matrix `NᵀN` is injective. -/
theorem gram_injective_c14 (m n : ℕ) (N : ℕ → ℕ → K)
    (hinj : ∀ x : ℕ → K, (∀ i < m, ∑ j ∈ range n, N i j * x j = 0) → ∀ j < n, x j = 0)
    (x : ℕ → K)
    (h : ∀ i < n, ∑ j ∈ range n, (∑ l ∈ range m, N l i * N l j) * x j = 0) : ∀ j < n, x j = 0 := by
  apply hinj
  apply sum_sq_eq_zero_c14
  rw [← gram_quadratic_c14]
  exact sum_eq_zero (fun i hi => by rw [h i (mem_range.mp hi), mul_zero])

end algebra

section det
variable {K : Type} [Field K]

/-- An injective square entry function has an entrywise left inverse. -/
theorem left_inverse_of_injective_c14 (n : ℕ) (A : ℕ → ℕ → K)
    (hinj : ∀ x : ℕ → K, (∀ i < n, ∑ j ∈ range n, A i j * x j = 0) → ∀ j < n, x j = 0) :
    ∃ L : ℕ → ℕ → K, ∀ i j, i < n → j < n → ∑ l ∈ range n, L i l * A l j = if i = j then 1 else 0 := by
  set Am : Matrix (Fin n) (Fin n) K := Matrix.of fun (i j : Fin n) => A i.val j.val with hAm
  have hdet : Am.det ≠ 0 := by
    intro h0
    obtain ⟨v, hv, hmv⟩ := Matrix.exists_mulVec_eq_zero_iff.2 h0
    apply hv
    have key := hinj (fun j => if h : j < n then v ⟨j, h⟩ else 0) (by
      intro i hi
      have := congrFun hmv ⟨i, hi⟩
      simp only [Matrix.mulVec, dotProduct, hAm, Matrix.of_apply, Pi.zero_apply] at this
      rw [← Fin.sum_univ_eq_sum_range (fun j => A i j * (if h : j < n then v ⟨j, h⟩ else 0)) n]
      refine Eq.trans (sum_congr rfl (fun j _ => ?_)) this
      rw [dif_pos j.isLt])
    funext j
    have := key j.val j.isLt
    simp only [j.isLt, dif_pos] at this
    exact this
  have hinv := Matrix.nonsing_inv_mul Am (isUnit_iff_ne_zero.2 hdet)
  refine ⟨fun i l => if h : i < n ∧ l < n then Am⁻¹ ⟨i, h.1⟩ ⟨l, h.2⟩ else 0, ?_⟩
  intro i j hi hj
  have := congrFun (congrFun hinv ⟨i, hi⟩) ⟨j, hj⟩
  rw [Matrix.mul_apply, Matrix.one_apply] at this
  simp only [Fin.ext_iff] at this
  rw [← this, Finset.sum_range]
  apply sum_congr rfl
  intro l _
  simp only []
  rw [dif_pos ⟨hi, l.isLt⟩]
  rfl

end det
end Splipy

