import Splipy.Lemmas.C17Owner
import Splipy.Lemmas.C17Count

/-!
# The order of `ObjectCatalogue.nodes(d)` (`top_nodes()`): creation order, when no twins are filed
-/

namespace Splipy.MP.Own

open Splipy.MP

/-- the key table of a level: no key maps to the empty list, every listed key is mapped -/
structure LvOK (lv : Level) : Prop where
  ne : ∀ (q v : List ℕ), lv.map[q]? = some v → v ≠ []
  mapped : ∀ q : List ℕ, q ∈ lv.keys.toList → lv.map[q]? ≠ none

theorem LvOK.empty : LvOK ({} : Level) := ⟨fun q v h => by simp at h, fun q h => by simp at h⟩

/-- folding `setdefaultAppend … T` over keys that are unmapped (or already map to copies of `T`) -/
theorem fold_sda (T : ℕ) : ∀ (ks : List (List ℕ)) (lv : Level),
    (∀ p ∈ ks, lv.map[p]? = none ∨ ∃ n, 1 ≤ n ∧ lv.map[p]? = some (List.replicate n T)) →
    let lv' := ks.foldl (fun lv p => lv.setdefaultAppend p T) lv
    (∃ N, lv'.keys.toList = lv.keys.toList ++ N ∧ (∀ p ∈ N, p ∈ ks ∧ lv.map[p]? = none) ∧
      ((∃ p ∈ ks, lv.map[p]? = none) → N ≠ [])) ∧
    (∀ q, q ∉ ks → lv'.map[q]? = lv.map[q]?) ∧
    (∀ p ∈ ks, ∃ n, 1 ≤ n ∧ lv'.map[p]? = some (List.replicate n T))
  | [], lv, _ => by
    refine ⟨⟨[], by simp, by simp, by simp⟩, fun _ _ => rfl, by simp⟩
  | p :: ks, lv, hpre => by
    simp only [List.foldl_cons]
    -- the first step
    have hstep : ∃ lv1, lv1 = lv.setdefaultAppend p T ∧
        (∀ q, q ≠ p → lv1.map[q]? = lv.map[q]?) ∧
        (∃ n, 1 ≤ n ∧ lv1.map[p]? = some (List.replicate n T)) ∧
        (lv.map[p]? = none → lv1.keys.toList = lv.keys.toList ++ [p]) ∧
        (lv.map[p]? ≠ none → lv1.keys.toList = lv.keys.toList) := by
      refine ⟨_, rfl, ?_, ?_, ?_, ?_⟩
      · intro q hq
        unfold Level.setdefaultAppend
        cases hp : lv.map[p]? with
        | none => simp [Std.HashMap.getElem?_insert, Ne.symm hq]
        | some v => simp [Std.HashMap.getElem?_insert, Ne.symm hq]
      · unfold Level.setdefaultAppend
        rcases hpre p (by simp) with h | ⟨n, hn, h⟩
        · rw [h]; exact ⟨1, le_refl _, by simp⟩
        · rw [h]; exact ⟨n + 1, by omega, by simp [List.replicate_succ']⟩
      · intro h
        unfold Level.setdefaultAppend
        rw [h]; simp
      · intro h
        unfold Level.setdefaultAppend
        cases hp : lv.map[p]? with
        | none => exact absurd hp h
        | some v => rfl
    obtain ⟨lv1, hlv1, h1, h2, h3, h4⟩ := hstep
    rw [← hlv1]
    have hpre1 : ∀ p' ∈ ks, lv1.map[p']? = none ∨ ∃ n, 1 ≤ n ∧ lv1.map[p']? = some (List.replicate n T) := by
      intro p' hp'
      by_cases hpp : p' = p
      · subst hpp; exact Or.inr h2
      · rw [h1 p' hpp]; exact hpre p' (List.mem_cons_of_mem _ hp')
    obtain ⟨⟨N, hN1, hN2, hN3⟩, hq, hr⟩ := fold_sda T ks lv1 hpre1
    refine ⟨?_, ?_, ?_⟩
    · by_cases hnone : lv.map[p]? = none
      · refine ⟨p :: N, by rw [hN1, h3 hnone]; simp, ?_, fun _ => by simp⟩
        intro q hq'
        rcases List.mem_cons.1 hq' with rfl | hq''
        · exact ⟨by simp, hnone⟩
        · obtain ⟨a, b⟩ := hN2 q hq''
          have hqp : q ≠ p := by
            intro h; subst h
            obtain ⟨n, _, hn⟩ := h2
            rw [hn] at b; cases b
          exact ⟨List.mem_cons_of_mem _ a, by rw [← h1 q hqp]; exact b⟩
      · refine ⟨N, by rw [hN1, h4 hnone], ?_, ?_⟩
        · intro q hq'
          obtain ⟨a, b⟩ := hN2 q hq'
          have hqp : q ≠ p := by
            intro h; subst h
            obtain ⟨n, _, hn⟩ := h2
            rw [hn] at b; cases b
          exact ⟨List.mem_cons_of_mem _ a, by rw [← h1 q hqp]; exact b⟩
        · rintro ⟨p', hp', hp'n⟩
          rcases List.mem_cons.1 hp' with rfl | hp''
          · exact absurd hp'n hnone
          · have hne : p' ≠ p := by intro h; subst h; exact hnone hp'n
            exact hN3 ⟨p', hp'', by rw [h1 p' hne]; exact hp'n⟩
    · intro q hq'
      have hqp : q ≠ p := fun h => hq' (by rw [h]; simp)
      rw [hq q (fun h => hq' (List.mem_cons_of_mem _ h)), h1 q hqp]
    · intro p' hp'
      by_cases hin : p' ∈ ks
      · exact hr p' hin
      · rcases List.mem_cons.1 hp' with rfl | h
        · rw [hq p' hin]; exact h2
        · exact absurd h hin

theorem LvOK.sda {lv : Level} (h : LvOK lv) (p : List ℕ) (T : ℕ) : LvOK (lv.setdefaultAppend p T) := by
  unfold Level.setdefaultAppend
  cases hp : lv.map[p]? with
  | none =>
    refine ⟨fun q v hq => ?_, fun q hq => ?_⟩
    · simp only [Std.HashMap.getElem?_insert, beq_iff_eq] at hq
      by_cases hpq : p = q
      · simp only [hpq, if_true, Option.some.injEq] at hq; rw [← hq]; simp
      · simp only [hpq, if_false] at hq; exact h.ne q v hq
    · simp only [Array.toList_push, List.mem_append, List.mem_singleton] at hq
      simp only [Std.HashMap.getElem?_insert, beq_iff_eq]
      by_cases hpq : p = q
      · simp [hpq]
      · simp only [hpq, if_false]
        rcases hq with hq | hq
        · exact h.mapped q hq
        · exact absurd hq.symm hpq
  | some v =>
    refine ⟨fun q w hq => ?_, fun q hq => ?_⟩
    · simp only [Std.HashMap.getElem?_insert, beq_iff_eq] at hq
      by_cases hpq : p = q
      · simp only [hpq, if_true, Option.some.injEq] at hq; rw [← hq]; simp
      · simp only [hpq, if_false] at hq; exact h.ne q w hq
    · simp only [Std.HashMap.getElem?_insert, beq_iff_eq]
      by_cases hpq : p = q
      · simp [hpq]
      · simp only [hpq, if_false]; exact h.mapped q hq

theorem LvOK.fold {lv : Level} (h : LvOK lv) (ks : List (List ℕ)) (T : ℕ) :
    LvOK (ks.foldl (fun lv p => lv.setdefaultAppend p T) lv) := by
  induction ks generalizing lv with
  | nil => exact h
  | cons k ks ih => exact ih (h.sda k T)

/-! ### `uniquify` keeps first occurrences -/

/-- the loop of `uniquify` -/
def uStep (acc : List ℕ × Std.HashMap ℕ Unit) (x : ℕ) : List ℕ × Std.HashMap ℕ Unit :=
  if acc.2.contains x then acc else (x :: acc.1, acc.2.insert x ())

def UInv (acc : List ℕ × Std.HashMap ℕ Unit) : Prop := ∀ x, acc.2.contains x = true ↔ x ∈ acc.1

theorem UInv.step {acc : List ℕ × Std.HashMap ℕ Unit} (h : UInv acc) (x : ℕ) : UInv (uStep acc x) := by
  unfold uStep
  by_cases hc : acc.2.contains x = true
  · simp only [hc, if_true]; exact h
  · simp only [hc, Bool.false_eq_true, if_false]
    intro y
    simp only [Std.HashMap.contains_insert, Bool.or_eq_true, beq_iff_eq, List.mem_cons]
    rw [h y]
    constructor
    · rintro (h1 | h1)
      · exact Or.inl h1.symm
      · exact Or.inr h1
    · rintro (h1 | h1)
      · exact Or.inl h1.symm
      · exact Or.inr h1

theorem UInv.fold {acc : List ℕ × Std.HashMap ℕ Unit} (h : UInv acc) (l : List ℕ) : UInv (l.foldl uStep acc) := by
  induction l generalizing acc with
  | nil => exact h
  | cons x xs ih => exact ih (h.step x)

theorem fold_mem (l : List ℕ) : ∀ (acc : List ℕ × Std.HashMap ℕ Unit), UInv acc →
    ∀ x, x ∈ (l.foldl uStep acc).1 ↔ x ∈ acc.1 ∨ x ∈ l := by
  induction l with
  | nil => intro acc _ x; simp
  | cons a as ih =>
    intro acc h x
    simp only [List.foldl_cons]
    rw [ih _ (h.step a)]
    unfold uStep
    by_cases hc : acc.2.contains a = true
    · simp only [hc, if_true, List.mem_cons]
      have := (h a).1 hc
      constructor
      · rintro (h1 | h1)
        · exact Or.inl h1
        · exact Or.inr (Or.inr h1)
      · rintro (h1 | h1 | h1)
        · exact Or.inl h1
        · subst h1; exact Or.inl this
        · exact Or.inr h1
    · simp only [hc, Bool.false_eq_true, if_false, List.mem_cons]
      tauto

/-- appending copies of a new element -/
theorem fold_copies (T : ℕ) : ∀ (n : ℕ) (acc : List ℕ × Std.HashMap ℕ Unit), UInv acc → T ∉ acc.1 →
    ((List.replicate (n + 1) T).foldl uStep acc).1 = T :: acc.1 := by
  intro n
  induction n with
  | zero =>
    intro acc h hT
    have hc : ¬ acc.2.contains T = true := fun hc => hT ((h T).1 hc)
    simp [uStep, hc]
  | succ n ih =>
    intro acc h hT
    rw [List.replicate_succ', List.foldl_append, List.foldl_cons, List.foldl_nil]
    have h1 := ih acc h hT
    have hinv := h.fold (List.replicate (n + 1) T)
    have hc : ((List.replicate (n + 1) T).foldl uStep acc).2.contains T = true :=
      (hinv T).2 (by rw [h1]; simp)
    simp only [uStep, hc, if_true]
    exact h1

theorem uniquify_eq (l : List ℕ) : uniquify l = (l.foldl uStep ([], {})).1.reverse := rfl

theorem UInv.init : UInv ([], ({} : Std.HashMap ℕ Unit)) := fun x => by simp

/-- `uniquify (l ++ [T, …, T]) = uniquify l ++ [T]` for a new element `T` -/
theorem uniquify_append_copies (l : List ℕ) (T n : ℕ) (hT : T ∉ l) :
    uniquify (l ++ List.replicate (n + 1) T) = uniquify l ++ [T] := by
  rw [uniquify_eq, uniquify_eq, List.foldl_append]
  have hinv := UInv.init.fold l
  have hT' : T ∉ (l.foldl uStep ([], {})).1 := by
    rw [fold_mem l _ UInv.init]; simpa using hT
  rw [fold_copies T n _ hinv hT']
  simp

/-! ### `nodes(d)` after `_add` without twins -/

theorem picks_ne_nil {α : Type} : ∀ (l : List α), l ≠ [] → picks l ≠ []
  | [], h => absurd rfl h
  | x :: xs, _ => by simp [picks]

theorem permsAux_ne_nil {α : Type} : ∀ (l : List α), permsAux l.length l ≠ []
  | [] => by simp [permsAux]
  | x :: xs => by
    simp only [List.length_cons, permsAux, picks, List.flatMap_cons]
    intro h
    have := permsAux_ne_nil xs
    simp only [List.append_eq_nil_iff, List.map_eq_nil_iff] at h
    exact this h.1

theorem permKeys_ne_nil (key : List ℕ) : Model.permKeys key ≠ [] := by
  unfold Model.permKeys pyPermutations
  split
  · exact permsAux_ne_nil key
  · intro h
    have hne := permsAux_ne_nil key
    obtain ⟨x, hx⟩ := List.exists_mem_of_ne_nil _ hne
    have : x ∈ (permsAux key.length key).dedup := List.mem_dedup.2 hx
    rw [h] at this; simp at this

theorem all_eq_replicate (T : ℕ) : ∀ (l : List ℕ), (∀ x ∈ l, x = T) → l = List.replicate l.length T
  | [], _ => rfl
  | x :: xs, h => by
    rw [List.length_cons, List.replicate_succ, h x (by simp),
      ← all_eq_replicate T xs (fun y hy => h y (List.mem_cons_of_mem _ hy))]

/-- the level of the new node after `_add` -/
theorem addNode_level (m : Model) (y : Obj) (lower : List (List ℕ)) (hlv : y.pardim < m.levels.size) :
    (m.addNode y lower).1.level y.pardim =
      (Model.permKeys (lower.getLastD [])).foldl (fun lv p => lv.setdefaultAppend p m.nodes.size)
        { m.level y.pardim with count := (m.level y.pardim).count + 1 } ∧
    ∀ e, e ≠ y.pardim → (m.addNode y lower).1.level e = m.level e := by
  obtain ⟨hid, hs⟩ := Model.newNode_full m y lower (m.level y.pardim).count
  have hlvl : ∀ e, (m.newNode y lower (m.level y.pardim).count).1.level e = m.level e :=
    fun e => congrArg (fun l : Array Level => l.getD e {}) hs.levels
  unfold Model.addNode
  dsimp only
  refine ⟨?_, fun e he => ?_⟩
  · rw [Model.level_modifyLevel _ _ _ (by rw [hs.levels]; exact hlv), hlvl, hid]
  · rw [Model.level_modifyLevel_ne _ _ _ _ (Ne.symm he), hlvl]

/-- **`nodes(d)` after `_add`**: when nothing was filed under (a permutation of) the facets of the
    new node, the new node is appended at the end. -/
theorem addNode_nodesOf (m : Model) (y : Obj) (lower : List (List ℕ)) (hlv : y.pardim < m.levels.size)
    (hpd : y.pardim ≠ 0) (hok : LvOK (m.level y.pardim))
    (hnone : ∀ p ∈ Model.permKeys (lower.getLastD []), (m.level y.pardim).map[p]? = none)
    (hT : m.nodes.size ∉ m.nodesOf y.pardim) :
    (m.addNode y lower).1.nodesOf y.pardim = m.nodesOf y.pardim ++ [m.nodes.size] ∧
    LvOK ((m.addNode y lower).1.level y.pardim) := by
  obtain ⟨hlevel, _⟩ := addNode_level m y lower hlv
  set lv := m.level y.pardim with hlvdef
  set lv0 : Level := { lv with count := lv.count + 1 } with hlv0
  have hok0 : LvOK lv0 := ⟨hok.ne, hok.mapped⟩
  obtain ⟨⟨N, hN1, hN2, hN3⟩, hq, hr⟩ := fold_sda m.nodes.size (Model.permKeys (lower.getLastD [])) lv0
    (fun p hp => Or.inl (hnone p hp))
  refine ⟨?_, by rw [hlevel]; exact hok0.fold _ _⟩
  unfold Model.nodesOf
  simp only [hpd, if_false]
  rw [hlevel]
  set lv' := (Model.permKeys (lower.getLastD [])).foldl (fun lv p => lv.setdefaultAppend p m.nodes.size) lv0 with hlv'
  have hN3' : N ≠ [] := by
    obtain ⟨p, hp⟩ := List.exists_mem_of_ne_nil _ (permKeys_ne_nil (lower.getLastD []))
    exact hN3 ⟨p, hp, hnone p hp⟩
  have hkeys : lv'.keys.toList = lv.keys.toList ++ N := hN1
  rw [hkeys, List.flatMap_append]
  have hold : lv.keys.toList.flatMap (fun k => lv'.get k) = lv.keys.toList.flatMap (fun k => lv.get k) := by
    apply List.flatMap_congr
    intro q hq'
    have hqn : q ∉ Model.permKeys (lower.getLastD []) := fun hin => hok.mapped q hq' (hnone q hin)
    unfold Level.get
    rw [hq q hqn]
  have hnew : ∀ x ∈ N.flatMap (fun k => lv'.get k), x = m.nodes.size := by
    intro x hx
    obtain ⟨p, hp, hxp⟩ := List.mem_flatMap.1 hx
    obtain ⟨n, _, hn⟩ := hr p (hN2 p hp).1
    unfold Level.get at hxp
    rw [hn] at hxp
    exact (List.mem_replicate.1 (by simpa using hxp)).2
  have hnewne : N.flatMap (fun k => lv'.get k) ≠ [] := by
    obtain ⟨p, hp⟩ := List.exists_mem_of_ne_nil _ hN3'
    obtain ⟨n, hn1, hn⟩ := hr p (hN2 p hp).1
    intro hnil
    have : m.nodes.size ∈ N.flatMap (fun k => lv'.get k) := by
      refine List.mem_flatMap.2 ⟨p, hp, ?_⟩
      unfold Level.get; rw [hn]
      simp; omega
    rw [hnil] at this; simp at this
  rw [hold, all_eq_replicate _ _ hnew]
  obtain ⟨k, hk⟩ : ∃ k, (N.flatMap (fun k => lv'.get k)).length = k + 1 := by
    cases hl : N.flatMap (fun k => lv'.get k) with
    | nil => exact absurd hl hnewne
    | cons a as => exact ⟨as.length, rfl⟩
  rw [hk]
  have hT' : m.nodes.size ∉ lv.keys.toList.flatMap (fun k => lv.get k) := by
    intro hmem
    apply hT
    unfold Model.nodesOf
    simp only [hpd, if_false]
    exact (uniquify_spec _).2 _ |>.2 hmem
  exact uniquify_append_copies _ _ k hT'

/-! ### the key tables through `lookup` -/

/-- looking up objects of dimension ≤ `D` leaves the key tables of the levels above `D` alone and
    keeps all key tables well formed -/
structure LvFrame (D : ℕ) (m m' : Model) : Prop where
  above : ∀ e, D < e → m'.level e = m.level e
  ok : (∀ e, LvOK (m.level e)) → ∀ e, LvOK (m'.level e)

theorem LvFrame.refl (D : ℕ) (m : Model) : LvFrame D m m := ⟨fun _ _ => rfl, fun h => h⟩

theorem LvFrame.trans {D : ℕ} {a b c : Model} (h1 : LvFrame D a b) (h2 : LvFrame D b c) : LvFrame D a c :=
  ⟨fun e he => (h2.above e he).trans (h1.above e he), fun h => h2.ok (h1.ok h)⟩

theorem LvFrame.mono {D D' : ℕ} {a b : Model} (h : LvFrame D a b) (hD : D ≤ D') : LvFrame D' a b :=
  ⟨fun e he => h.above e (by omega), h.ok⟩

theorem LvFrame.of_levels {m m' : Model} (h : m'.levels = m.levels) (D : ℕ) : LvFrame D m m' := by
  have hl : ∀ e, m'.level e = m.level e := fun e => by simp [Model.level, h]
  exact ⟨fun e _ => hl e, fun hk e => by rw [hl]; exact hk e⟩

theorem level_modifyLevel_cases (m : Model) (d e : ℕ) (f : Level → Level) :
    (m.modifyLevel d f).level e = m.level e ∨ (e = d ∧ (m.modifyLevel d f).level e = f (m.level e)) := by
  by_cases hde : d = e
  · subst hde
    by_cases hd : d < m.levels.size
    · exact Or.inr ⟨rfl, Model.level_modifyLevel m d f hd⟩
    · left
      simp [Model.level, Model.modifyLevel, Array.getD_eq_getD_getElem?, Array.getElem?_modify, hd]
  · exact Or.inl (Model.level_modifyLevel_ne m d e f hde)

theorem lvFrame_bump (m : Model) (D : ℕ) : LvFrame D m (bump m) := by
  refine ⟨fun e he => ?_, fun hk e => ?_⟩
  · exact Model.level_modifyLevel_ne m 0 e _ (by omega)
  · rcases level_modifyLevel_cases m 0 e (fun lv => { lv with count := lv.count + 1 }) with h | ⟨_, h⟩
    · unfold bump; rw [h]; exact hk e
    · unfold bump; rw [h]; exact ⟨(hk e).ne, (hk e).mapped⟩

theorem lvFrame_lookupPoint (m : Model) (y : Obj) (add : Bool) {m' : Model} {id : ℕ} {o : Orientation}
    (h : m.lookupPoint y add = .ok (m', id, o)) (D : ℕ) : LvFrame D m m' := by
  rw [lookupPoint_eq m y add] at h
  cases add with
  | false =>
    simp only [Bool.false_eq_true, if_false] at h
    split at h
    · cases h; exact LvFrame.refl _ _
    · cases h
  | true =>
    simp only [if_true] at h
    split at h
    · cases h; exact lvFrame_bump m D
    · simp only [Except.ok.injEq] at h
      unfold pointNew at h
      simp only [Prod.mk.injEq] at h
      obtain ⟨hm', -, -⟩ := h
      refine (lvFrame_bump m D).trans (LvFrame.of_levels ?_ D)
      rw [← hm']
      exact (Model.newNode_full (bump m) y [] (m.level 0).count).2.levels

theorem lvFrame_addNode (m : Model) (y : Obj) (lower : List (List ℕ)) (hlv : y.pardim < m.levels.size) :
    LvFrame y.pardim m (m.addNode y lower).1 := by
  obtain ⟨h1, h2⟩ := addNode_level m y lower hlv
  refine ⟨fun e he => h2 e (by omega), fun hk e => ?_⟩
  by_cases he : e = y.pardim
  · subst he
    rw [h1]
    have h0 : LvOK ({ m.level y.pardim with count := (m.level y.pardim).count + 1 } : Level) :=
      ⟨(hk _).ne, (hk _).mapped⟩
    exact h0.fold _ _
  · rw [h2 e he]; exact hk e

/-- soundness of a lookup with respect to the key tables -/
def LvAt (nc : ℕ) (S : Obj → Prop) (look : Model → Obj → Except MErr (Model × ℕ × Orientation))
    (add : Bool) (d : ℕ) : Prop :=
  ∀ (m : Model) (y : Obj) (m' : Model) (id : ℕ) (o : Orientation), Inv nc S m → GU nc y →
    y.pardim ≤ d → y.pardim < m.levels.size → (add = true → S y) → look m y = .ok (m', id, o) →
    LvFrame y.pardim m m'

theorem lookupList_lv {nc : ℕ} {S : Obj → Prop}
    {look : Model → Obj → Except MErr (Model × ℕ × Orientation)} {add : Bool} {d L : ℕ}
    (hlook : SoundAt nc S look add d) (hlvat : LvAt nc S look add d) {x : Obj} (hx : GU nc x)
    (hSx : add = true → S x)
    (hsect : ∀ y sec, S y → sec.length = y.pardim → secTgtDim sec < y.pardim → S (y.sect sec))
    (D : ℕ) (secs : List Sec) (hsecs : SecsOK x secs d L) (hdim : ∀ s ∈ secs, (x.sect s).pardim ≤ D) :
    ∀ (m m' : Model) (ids : List ℕ), Inv nc S m → m.levels.size = L →
      Model.lookupList look x secs m = .ok (m', ids) → LvFrame D m m' := by
  induction secs with
  | nil =>
    intro m m' ids _ _ h
    simp only [Model.lookupList, Except.ok.injEq, Prod.mk.injEq] at h
    obtain ⟨rfl, rfl⟩ := h
    exact LvFrame.refl _ _
  | cons s rest ih =>
    intro m m' ids hI hL h
    simp only [Model.lookupList] at h
    obtain ⟨hsl, hsd, hsL, hst⟩ := hsecs s (by simp)
    cases h1 : look m (x.sect s) with
    | error e => rw [h1] at h; simp at h
    | ok r1 =>
      obtain ⟨m1, id, o1⟩ := r1
      rw [h1] at h
      simp only at h
      have hargs : (add = true → S (x.sect s)) := fun ha => hsect x s (hSx ha) hsl hst
      obtain ⟨hI1, hE1, _, _, _⟩ := hlook m (x.sect s) m1 id o1 hI (hx.sect hsl) hsd
        (by rw [hL]; exact hsL) hargs h1
      have hF1 := hlvat m (x.sect s) m1 id o1 hI (hx.sect hsl) hsd (by rw [hL]; exact hsL) hargs h1
      cases h2 : Model.lookupList look x rest m1 with
      | error e => rw [h2] at h; simp at h
      | ok r2 =>
        obtain ⟨m2, ids'⟩ := r2
        rw [h2] at h
        simp only [Except.ok.injEq, Prod.mk.injEq] at h
        obtain ⟨rfl, rfl⟩ := h
        have hF2 := ih (fun t ht => hsecs t (List.mem_cons_of_mem _ ht))
          (fun t ht => hdim t (List.mem_cons_of_mem _ ht)) m1 m2 ids' hI1 (by rw [hE1.lsize]; exact hL) h2
        exact (hF1.mono (hdim s (by simp))).trans hF2

theorem lookupLower_lv {nc : ℕ} {S : Obj → Prop}
    {look : Model → Obj → Except MErr (Model × ℕ × Orientation)} {add : Bool} {d L : ℕ}
    (hlook : SoundAt nc S look add d) (hlvat : LvAt nc S look add d) {x : Obj} (hx : GU nc x)
    (hSx : add = true → S x)
    (hsect : ∀ y sec, S y → sec.length = y.pardim → secTgtDim sec < y.pardim → S (y.sect sec))
    (pd D : ℕ) (dims : List ℕ) (hdims : ∀ i ∈ dims, SecsOK x (sections pd i) d L)
    (hD : ∀ i ∈ dims, ∀ s ∈ sections pd i, (x.sect s).pardim ≤ D) :
    ∀ (m m' : Model) (lower : List (List ℕ)), Inv nc S m → m.levels.size = L →
      Model.lookupLower look x pd dims m = .ok (m', lower) → LvFrame D m m' := by
  induction dims with
  | nil =>
    intro m m' lower _ _ h
    simp only [Model.lookupLower, Except.ok.injEq, Prod.mk.injEq] at h
    obtain ⟨rfl, rfl⟩ := h
    exact LvFrame.refl _ _
  | cons i rest ih =>
    intro m m' lower hI hL h
    simp only [Model.lookupLower] at h
    cases h1 : Model.lookupList look x (sections pd i) m with
    | error e => rw [h1] at h; simp at h
    | ok r1 =>
      obtain ⟨m1, ids⟩ := r1
      rw [h1] at h
      simp only at h
      obtain ⟨hI1, hE1, _, _, _⟩ := lookupList_sound hlook hx hSx hsect _
        (hdims i (by simp)) m m1 ids hI hL h1
      have hF1 := lookupList_lv hlook hlvat hx hSx hsect D _ (hdims i (by simp)) (hD i (by simp)) m m1 ids hI hL h1
      cases h2 : Model.lookupLower look x pd rest m1 with
      | error e => rw [h2] at h; simp at h
      | ok r2 =>
        obtain ⟨m2, lower'⟩ := r2
        rw [h2] at h
        simp only [Except.ok.injEq, Prod.mk.injEq] at h
        obtain ⟨rfl, rfl⟩ := h
        exact hF1.trans (ih (fun t ht => hdims t (List.mem_cons_of_mem _ ht))
          (fun t ht => hD t (List.mem_cons_of_mem _ ht)) m1 m2 lower' hI1 (by rw [hE1.lsize]; exact hL) h2)

theorem lookup_lv {nc : ℕ} {S : Obj → Prop}
    (hsect : ∀ y sec, S y → sec.length = y.pardim → secTgtDim sec < y.pardim → S (y.sect sec))
    (add : Bool) (tw : List ℕ) :
    ∀ fuel, LvAt nc S (fun m y => Model.lookup fuel m y add tw) add fuel := by
  intro fuel
  induction fuel with
  | zero =>
    intro m y m' id o hI hy hd hlv hS h
    beta_reduce at h
    have h0 : y.pardim = 0 := by omega
    rw [Model.lookup_point _ _ _ _ _ h0] at h
    exact lvFrame_lookupPoint m y add h _
  | succ fuel ih =>
    intro m y m' id o hI hy hd hlv hS h
    beta_reduce at h
    by_cases h0 : y.pardim = 0
    · rw [Model.lookup_point _ _ _ _ _ h0] at h
      exact lvFrame_lookupPoint m y add h _
    · simp only [Model.lookup_succ _ _ _ _ _ h0] at h
      cases h1 : Model.lookupLower (fun m' z => Model.lookup fuel m' z add tw) y y.pardim
          (List.range y.pardim) m with
      | error e => rw [h1] at h; simp at h
      | ok r1 =>
        obtain ⟨m1, lower⟩ := r1
        rw [h1] at h
        simp only at h
        have hsound := lookup_sound (nc := nc) hsect add tw fuel
        obtain ⟨hI1, hE1, hlen, hR, _⟩ := lookupLower_sound hsound hy hS hsect y.pardim _
          (dims_ok hy hd hlv) m m1 lower hI rfl h1
        have hF := lookupLower_lv hsound ih hy hS hsect y.pardim (y.pardim - 1) _ (dims_ok hy hd hlv)
          (fun i hi s hs => by
            have hi' := List.mem_range.1 hi
            rw [(sect_pardim_of_mem hy.small (by omega) hs y).2.1]; omega) m m1 lower hI rfl h1
        rcases resolve_cases m1 y lower add tw h with rfl | hadd
        · exact hF.mono (by omega)
        · have hm' : m' = (m1.addNode y lower).1 := by rw [← hadd]
          rw [hm']
          exact (hF.mono (by omega)).trans (lvFrame_addNode m1 y lower (by rw [hE1.lsize]; exact hlv))

/-! ### adding a patch: `top_nodes()` grows at the end -/

theorem resolve_cases_tw (m : Model) (y : Obj) (lower : List (List ℕ)) (add : Bool) (tw : List ℕ)
    (htw : tw.contains y.pardim = true) {m' : Model} {id : ℕ} {o : Orientation}
    (h : m.resolve y lower add tw = .ok (m', id, o)) :
    m' = m ∨ ((m', id, o) = m.addNode y lower ∧ (m.level y.pardim).get (lower.getLastD []) = []) := by
  unfold Model.resolve at h
  simp only at h
  split at h
  · rename_i hc
    split at h
    · cases h
    · right; exact ⟨(Except.ok.inj h).symm, hc⟩
  · split at h
    · left; cases h; rfl
    · rw [if_pos htw] at h; cases h
  · rw [if_pos htw] at h; cases h

/-- **`top_nodes()` after adding a patch that becomes a new node, twins being rejected at its
    level**: the new node is appended; all key tables stay well formed. -/
theorem lookup_patch_tops {nc : ℕ} {S : Obj → Prop}
    (hsect : ∀ y sec, S y → sec.length = y.pardim → secTgtDim sec < y.pardim → S (y.sect sec))
    (tw : List ℕ) (fuel : ℕ) {m : Model} (hI : Inv nc S m) (hlvok : ∀ e, LvOK (m.level e)) {y : Obj}
    (hy : GU nc y) (hpd : 1 ≤ y.pardim) (hd : y.pardim ≤ fuel + 1) (hlv : y.pardim < m.levels.size) (hS : S y)
    (htw : tw.contains y.pardim = true)
    {m' : Model} {id : ℕ} {o : Orientation}
    (h : Model.lookup (fuel + 1) m y true tw = .ok (m', id, o)) (hnew : m.nodes.size ≤ id) :
    m'.nodesOf y.pardim = m.nodesOf y.pardim ++ [id] ∧ (∀ e, LvOK (m'.level e)) := by
  have hall := lookup_lv (nc := nc) hsect true tw (fuel + 1) m y m' id o hI hy hd hlv (fun _ => hS) h
  refine ⟨?_, hall.ok hlvok⟩
  have h0 : y.pardim ≠ 0 := by omega
  simp only [Model.lookup_succ _ _ _ _ _ h0] at h
  cases h1 : Model.lookupLower (fun m' z => Model.lookup fuel m' z true tw) y y.pardim
      (List.range y.pardim) m with
  | error e => rw [h1] at h; simp at h
  | ok r1 =>
    obtain ⟨m1, lower⟩ := r1
    rw [h1] at h
    simp only at h
    have hsound := lookup_sound (nc := nc) hsect true tw fuel
    obtain ⟨hI1, hE1, hlen, hR, _⟩ := lookupLower_sound hsound hy (fun _ => hS) hsect y.pardim _
      (dims_ok hy hd hlv) m m1 lower hI rfl h1
    have hL := lowerOK_of_loop hlen hR
    have hF := lookupLower_lv hsound (lookup_lv (nc := nc) hsect true tw fuel) hy (fun _ => hS) hsect y.pardim
      (y.pardim - 1) _ (dims_ok hy hd hlv)
      (fun i hi s hs => by
        have hi' := List.mem_range.1 hi
        rw [(sect_pardim_of_mem hy.small (by omega) hs y).2.1]; omega) m m1 lower hI rfl h1
    have hlv1 : y.pardim < m1.levels.size := by rw [hE1.lsize]; exact hlv
    obtain ⟨_, _, hrep, _, _⟩ := resolve_sound hI1 hy hpd hlv1 true (fun _ => hS) hL tw h
    have hown := lookup_own (nc := nc) hsect true tw fuel
    have hDs : ∀ i ∈ List.range y.pardim, i ≤ y.pardim - 1 ∧ ∀ s ∈ sections y.pardim i, (y.sect s).pardim = i := by
      intro i hi
      have hi' := List.mem_range.1 hi
      exact ⟨by omega, fun s hs => (sect_pardim_of_mem hy.small (by omega) hs y).2.1⟩
    obtain ⟨hSF, _⟩ := lookupLower_own hsound hown hy (fun _ => hS) hsect y.pardim (y.pardim - 1) _
      (dims_ok hy hd hlv) hDs (List.pairwise_lt_range) m m1 lower hI rfl h1
    rcases resolve_cases_tw m1 y lower true tw htw h with rfl | ⟨hadd, hnoc⟩
    · exfalso
      have hdim : (m'.node id).obj.pardim = y.pardim := hrep.2.pardim_eq
      have := (hSF.fresh id hnew hrep.1).1
      omega
    · have hm' : m' = (m1.addNode y lower).1 := by rw [← hadd]
      have hid : id = m1.nodes.size := by
        have := (Model.addNode_full m1 y lower hlv1).1
        rw [← hadd] at this; exact this
      have hlevP : m1.level y.pardim = m.level y.pardim := hF.above y.pardim (by omega)
      have hnodes1 : m1.nodesOf y.pardim = m.nodesOf y.pardim := by
        unfold Model.nodesOf; simp only [h0, if_false]; rw [hlevP]
      have hok1 := hF.ok hlvok y.pardim
      have hnone : ∀ p ∈ Model.permKeys (lower.getLastD []), (m1.level y.pardim).map[p]? = none := by
        intro p hp
        have hperm := (mem_permKeys _ _).1 hp
        have hget : (m1.level y.pardim).get p = [] := by
          rw [hI1.closed y.pardim p (lower.getLastD []) hperm]; exact hnoc
        unfold Level.get at hget
        cases hmp : (m1.level y.pardim).map[p]? with
        | none => rfl
        | some v =>
          rw [hmp] at hget
          exact absurd (by simpa using hget) (hok1.ne p v hmp)
      have hT : m1.nodes.size ∉ m1.nodesOf y.pardim := by
        intro hmem
        have := ((nodesOf_spec hI1 y.pardim).2 _).1 hmem
        omega
      obtain ⟨hres, _⟩ := addNode_nodesOf m1 y lower hlv1 h0 hok1 hnone hT
      rw [hm', hres, hnodes1, hid]

end Splipy.MP.Own
