import Splipy.Generated.PyOverride
import Splipy.Lemmas.PyObjectEq
import Splipy.Model.DerivSpline
import Splipy.Model.Sections
import Splipy.Lemmas.C04Tensor

/-!
# The translated `Curve` / `Surface` overrides are the hand model (work package t4)

`Splipy/Generated/PyOverride.lean` is rewritten on every check by `harness/translate/override_translate.py` from the
Python AST of `splipy/curve.py` / `splipy/surface.py`; this file proves, for every translated method, a theorem
`PyOverride_<Class>_<method>_eq : Generated.PyOverride.<Class>_<method> (ofObj o) tol … = <hand model> o …` under
explicit guards.  `harness/props/_pyoverride.py` re-checks the file against the fresh definitions and attributes an
error inside a section `### method: <Class>.<method>` (or in a section it depends on) to the obligation of that
method; sections `## …` hold lemmas that do not mention generated code.
-/

set_option linter.unusedSectionVars false
set_option linter.unusedSimpArgs false
set_option linter.unnecessarySeqFocus false
set_option linter.unusedVariables false

namespace Splipy.PyV

open Splipy Splipy.PyO Splipy.Generated Splipy.C06

variable {K : Type} [Field K] [LinearOrder K]

/-! ## element-wise arithmetic on arrays (no generated code) -/

theorem get_of_ge (t : Tensor K) {p : ℕ} (h : t.data.size ≤ p) : t.get p = 0 := by
  unfold Tensor.get
  simp [Array.getD, Nat.not_lt.mpr h]

@[simp] theorem tMul_size (a b : Tensor K) : (tMul a b).data.size = a.data.size := by simp [tMul]
@[simp] theorem tDiv_size (a b : Tensor K) : (tDiv a b).data.size = a.data.size := by simp [tDiv]
@[simp] theorem tSub_size (a b : Tensor K) : (tSub a b).data.size = a.data.size := by simp [tSub]
@[simp] theorem tAdd_size (a b : Tensor K) : (tAdd a b).data.size = a.data.size := by simp [tAdd]
@[simp] theorem tSMul_size (x : K) (a : Tensor K) : (tSMul x a).data.size = a.data.size := by simp [tSMul]

theorem tMul_get (a b : Tensor K) (p : ℕ) : (tMul a b).get p = a.get p * b.get p := by
  unfold tMul
  rw [get_mk_ofFn]
  split_ifs with h
  · rfl
  · rw [get_of_ge a (Nat.not_lt.mp h), zero_mul]

theorem tDiv_get (a b : Tensor K) (p : ℕ) : (tDiv a b).get p = a.get p / b.get p := by
  unfold tDiv
  rw [get_mk_ofFn]
  split_ifs with h
  · rfl
  · rw [get_of_ge a (Nat.not_lt.mp h), zero_div]

theorem tSMul_get (x : K) (a : Tensor K) (p : ℕ) : (tSMul x a).get p = x * a.get p := by
  unfold tSMul
  rw [get_mk_ofFn]
  split_ifs with h
  · rfl
  · rw [get_of_ge a (Nat.not_lt.mp h), mul_zero]

theorem tSub_get (a b : Tensor K) (p : ℕ) (h : b.data.size ≤ a.data.size) :
    (tSub a b).get p = a.get p - b.get p := by
  unfold tSub
  rw [get_mk_ofFn]
  split_ifs with h1
  · rfl
  · rw [get_of_ge a (Nat.not_lt.mp h1), get_of_ge b (by omega), sub_zero]

theorem tAdd_get (a b : Tensor K) (p : ℕ) (h : b.data.size ≤ a.data.size) :
    (tAdd a b).get p = a.get p + b.get p := by
  unfold tAdd
  rw [get_mk_ofFn]
  split_ifs with h1
  · rfl
  · rw [get_of_ge a (Nat.not_lt.mp h1), get_of_ge b (by omega), add_zero]

/-! ## columns of the last axis (no generated code) -/

/-- column `c` of the last axis -/
def colOf (t : Tensor K) (c : ℕ) : Tensor K :=
  { shape := t.shape.dropLast, data := Array.ofFn (n := nPts t) (fun p => t.get (p.val * lastN t + c)) }

@[simp] theorem colOf_size (t : Tensor K) (c : ℕ) : (colOf t c).data.size = nPts t := by simp [colOf]

theorem colOf_get (t : Tensor K) (c : ℕ) {p : ℕ} (hp : p < nPts t) : (colOf t c).get p = t.get (p * lastN t + c) :=
  get_ofFn _ _ hp

theorem getLast_nat (t : Tensor K) {c : ℕ} (hc : c < lastN t) : getLast t (c : Int) = .ok (colOf t c) := by
  simp only [getLast, normIdx_nat hc, colOf]

theorem getLast_neg_one (t : Tensor K) (h : 1 ≤ lastN t) : getLast t (-1) = .ok (colOf t (lastN t - 1)) := by
  simp only [getLast, normIdx_neg_one h, colOf]

theorem getLastND_nat (nd : ℕ) (t : Tensor K) (hnd : t.shape.length = nd) {c : ℕ} (hc : c < lastN t) :
    getLastND nd t (c : Int) = .ok (colOf t c) := by
  unfold getLastND
  rw [if_neg (by omega), if_pos hnd, getLast_nat t hc]

theorem getLastND_neg_one (nd : ℕ) (t : Tensor K) (hnd : t.shape.length = nd) (h : 1 ≤ lastN t) :
    getLastND nd t (-1) = .ok (colOf t (lastN t - 1)) := by
  unfold getLastND
  rw [if_neg (by omega), if_pos hnd, getLast_neg_one t h]

/-- the array whose column `c < m` is `col c` and whose other columns are those of `Z` -/
def fillN (Z : Tensor K) (col : ℕ → Tensor K) (m : ℕ) : Tensor K :=
  { shape := Z.shape,
    data := Array.ofFn (n := nPts Z * lastN Z) (fun k =>
      if k.val % lastN Z < m then (col (k.val % lastN Z)).get (k.val / lastN Z) else Z.get k.val) }

theorem fillN_get (Z : Tensor K) (col : ℕ → Tensor K) (m : ℕ) {k : ℕ} (hk : k < nPts Z * lastN Z) :
    (fillN Z col m).get k = if k % lastN Z < m then (col (k % lastN Z)).get (k / lastN Z) else Z.get k :=
  get_ofFn _ _ hk

theorem fillN_zero (Z : Tensor K) (col : ℕ → Tensor K) (hsz : Z.data.size = nPts Z * lastN Z) : fillN Z col 0 = Z := by
  refine tensor_mk_ext (by rfl) ?_
  apply Array.ext
  · simp [fillN, hsz]
  · intro i h1 h2
    simp [fillN, Tensor.get, Array.getD, h2]

theorem fillN_step (Z : Tensor K) (col : ℕ → Tensor K) (m : ℕ) (hm : m < lastN Z) :
    setLast (fillN Z col m) (m : Int) (col m) = .ok (fillN Z col (m + 1)) := by
  simp only [setLast, show lastN (fillN Z col m) = lastN Z from rfl, show nPts (fillN Z col m) = nPts Z from rfl,
    normIdx_nat hm]
  show Except.ok _ = Except.ok _
  congr 1
  refine tensor_mk_ext (by rfl) ?_
  apply Array.ext
  · simp [fillN, nPts, lastN]
  · intro k h1' h2
    have h1 : k < nPts Z * lastN Z := by
      have := h1'; simp only [Array.size_ofFn] at this; exact this
    simp only [Array.getElem_ofFn]
    have hR : (fillN Z col (m + 1)).data[k]'h2 = (fillN Z col (m + 1)).get k := by
      simp [Tensor.get, Array.getD, h2]
    rw [hR, fillN_get Z col (m + 1) h1]
    by_cases hk : k % lastN Z = m
    · rw [if_pos hk, if_pos (by omega), hk]
    · rw [if_neg hk, fillN_get Z col m h1]
      by_cases hk2 : k % lastN Z < m
      · rw [if_pos hk2, if_pos (by omega)]
      · rw [if_neg hk2, if_neg (by omega)]

/-- **A column-filling loop** `for i in range(dim): result[:, …, i] = col i` (the right-hand side does not read
`result`) produces the array whose column `i` is `col i`. -/
theorem forRange_fill (nd : ℕ) (Z : Tensor K) (col : ℕ → Tensor K) (hnd : Z.shape.length = nd)
    (hsz : Z.data.size = nPts Z * lastN Z) (f : Int → Tensor K → PyM (Tensor K))
    (hf : ∀ (i : ℕ), i < lastN Z → f i (fillN Z col i) = setLastND nd (fillN Z col i) (i : Int) (col i)) :
    forRange 0 (lastN Z : Int) Z f = .ok (fillN Z col (lastN Z)) := by
  have h0 : Z = fillN Z col 0 := (fillN_zero Z col hsz).symm
  conv_lhs => rw [h0]
  exact forRange_iter (lastN Z) f (fun m => fillN Z col m) (fun i hi => by
    rw [hf i hi]
    unfold setLastND
    rw [if_neg (by rw [show (fillN Z col i).shape = Z.shape from rfl]; omega),
      if_pos (by rw [show (fillN Z col i).shape = Z.shape from rfl]; exact hnd)]
    exact fillN_step Z col i hi)

/-! ## `np.zeros`, `N @ t`, rows (no generated code) -/

theorem npZeros_nat (sh : List ℕ) :
    (npZeros (sh.map (fun (n : ℕ) => (n : Int))) : PyM (Tensor K))
      = .ok { shape := sh, data := Array.replicate (Tensor.prod sh) 0 } := by
  unfold npZeros
  have h1 : (sh.map (fun (n : ℕ) => (n : Int))).any (· < 0) = false := by
    simp
  have h2 : (sh.map (fun (n : ℕ) => (n : Int))).map Int.toNat = sh := by
    rw [List.map_map]
    conv_rhs => rw [← List.map_id sh]
    apply List.map_congr_left
    intro a _
    simp
  rw [h1, h2]
  rfl

theorem npMatmulMT_eq (N : Mat K) (t : Tensor K) {a c : ℕ} (hs : t.shape = [a, c]) :
    npMatmulMT N t = .ok (Tensor.applyAxis N t 0) := by
  unfold npMatmulMT
  rw [hs]
  show Except.ok _ = Except.ok _
  congr 1
  apply tensor_ext
  · simp [applyAxis_shape', hs]
  · simp [Tensor.prod]
  · exact applyAxis_size N t 0 (by rw [hs]; simp)
  · intro idx hidx
    simp only at hidx
    obtain ⟨i, k, rfl, hi, hk⟩ := inRange2_inv hidx
    rw [getIdx_applyAxis N t 0 _ (by rw [hs]; simp) (by rw [hs]; exact inRange2 hi hk)]
    rw [getIdx2 _ rfl, get_ofFn _ _ (by nlinarith)]
    simp only [hs, List.getD_cons_zero, List.set_cons_zero]
    have hdm : (i * c + k) / c = i ∧ (i * c + k) % c = k := div_mod_flat hk
    rw [hdm.1, hdm.2]
    apply foldl_range_congr
    intro acc j hj
    rw [getIdx2 t hs]

/-! ## shapes of the jets, squeezing (no generated code) -/

theorem basisMat_size [FloorRing K] (b : Basis K) (tol : K) (ps : List K) (d : ℕ) (fr : Bool) :
    (Obj.basisMat b tol ps d fr).size = ps.length := by simp [Obj.basisMat]

theorem getBasis_zero (bs : Array (Basis K)) (h : 1 ≤ bs.size) : getBasis bs (0 : Int) = .ok (bs.getD 0 default) := by
  have := getBasis_nat bs (k := 0) (by omega)
  simpa using this

theorem getBasis_one (bs : Array (Basis K)) (h : 2 ≤ bs.size) : getBasis bs (1 : Int) = .ok (bs.getD 1 default) := by
  have := getBasis_nat bs (k := 1) (by omega)
  simpa using this

/-- shape facts of a jet `N @ cps` of a curve -/
theorem jet_facts (N : Mat K) (cps : Tensor K) {n nc m : ℕ} (hs : cps.shape = [n, nc]) (hN : N.size = m) :
    (Tensor.applyAxis N cps 0).shape = [m, nc] ∧ lastN (Tensor.applyAxis N cps 0) = nc ∧
      nPts (Tensor.applyAxis N cps 0) = m := by
  have h1 : (Tensor.applyAxis N cps 0).shape = [m, nc] := by rw [applyAxis_shape', hs, hN]; rfl
  refine ⟨h1, ?_, ?_⟩
  · unfold lastN; rw [h1]; rfl
  · unfold nPts; rw [h1]; simp [Tensor.prod]

/-- `np.array(result[0, :]).reshape(dim)` of a one-row array is `result.reshape(dim)`. -/
theorem squeeze_row0 (R : Tensor K) (dim : ℕ) (hsh : R.shape = [1, dim]) (hsz : R.data.size = dim) :
    (do let r ← getRow2 R 0
        npReshape r [(dim : Int)]) = npReshape R [(dim : Int)] := by
  unfold getRow2
  rw [hsh]
  have h0 : normIdx 1 (0 : Int) = some 0 := by simpa using normIdx_nat (n := 1) (k := 0) (by omega)
  simp only [h0, ok_bind]
  unfold npReshape
  have hneg : ([(dim : Int)].any (· < 0)) = false := by simp
  simp only [hneg, Bool.false_eq_true, if_false, List.map_cons, List.map_nil, Int.toNat_natCast, Array.size_ofFn, hsz,
    Tensor.prod, List.foldl_cons, List.foldl_nil, one_mul, if_true]
  congr 2
  apply Array.ext
  · simp [hsz]
  · intro k h1 h2
    simp [Tensor.get, Array.getD, h2]

theorem bases_toList_one (o : Obj K) (hb : o.bases.size = 1) : o.bases.toList = [o.bases.getD 0 default] := by
  have hl : o.bases.toList.length = 1 := by simp [hb]
  match hb' : o.bases.toList, hl with
  | [b], _ =>
    have : o.bases.getD 0 default = b := by
      simp [Array.getD_eq_getD_getElem?, ← Array.getElem?_toList, hb']
    rw [this]

theorem getItem_zero {α : Type} (x : α) (xs : List α) : getItem (x :: xs) (0 : Int) = .ok x := by
  have := getItem_nat (x :: xs) (k := 0) (by simp)
  simpa using this

/-! ### method: Curve.derivative -/

section curve_derivative

variable [FloorRing K]

/-- The closed form for `d = 2` (generated code) is the model's `curveDerivativeRational`. -/
theorem curve_closed_2 (o : Obj K) (tol : K) (t : Param K) (above tensor : Bool)
    {n nc : ℕ} (hs : o.cps.shape = [n, nc]) (hb : 1 ≤ o.bases.size) (hr : o.rational = true) (hnc : 1 ≤ nc) :
    PyOverride.Curve_derivative (ofObj o) tol t (2 : Int) above tensor =
      (let r := o.curveDerivativeRational tol (ensure_listlike t) 2 above
       if is_singleton t then npReshape r [((o.dimension : ℕ) : Int)] else pure r) := by
  unfold PyOverride.Curve_derivative
  have hc : ¬ (((¬ ((ofObj o).rational = true)) ∨ ((2 : Int) < (2 : Int))) ∨ ((2 : Int) > (3 : Int))) := by
    simp [hr]
  rw [if_neg hc]
  simp only [ofObj_bases, ofObj_cps, ofObj_dimension, pure_eq_ok]
  have hz := npZeros_nat (K := K) [(ensure_listlike t).length, o.dimension]
  simp only [List.map_cons, List.map_nil] at hz
  simp only [len, hz, ok_bind, getBasis_zero o.bases hb, basisEvaluate]
  rw [npMatmulMT_eq _ _ hs, npMatmulMT_eq _ _ hs, npMatmulMT_eq _ _ hs]
  simp only [ok_bind, show (2 : Int).toNat = 2 from rfl, show (1 : Int).toNat = 1 from rfl,
    show (0 : Int).toNat = 0 from rfl]
  have hdim : o.dimension + 1 = nc := by
    unfold Obj.dimension Obj.ncomp; rw [hs, hr]; simp; omega
  obtain ⟨s0, l0, p0⟩ := jet_facts (Obj.basisMat (o.bases.getD 0 default) tol (ensure_listlike t) 0 above) o.cps hs
    (basisMat_size _ _ _ _ _)
  obtain ⟨s1, l1, p1⟩ := jet_facts (Obj.basisMat (o.bases.getD 0 default) tol (ensure_listlike t) 1 above) o.cps hs
    (basisMat_size _ _ _ _ _)
  obtain ⟨s2, l2, p2⟩ := jet_facts (Obj.basisMat (o.bases.getD 0 default) tol (ensure_listlike t) 2 above) o.cps hs
    (basisMat_size _ _ _ _ _)
  rw [getLastND_neg_one 2 _ (by rw [s0]; rfl) (by rw [l0]; exact hnc),
    getLastND_neg_one 2 _ (by rw [s1]; rfl) (by rw [l1]; exact hnc),
    getLastND_neg_one 2 _ (by rw [s2]; rfl) (by rw [l2]; exact hnc)]
  simp only [ok_bind, l0, l1, l2]
  unfold Obj.curveDerivativeRational Obj.basis
  simp only []
  generalize hJ0 : Tensor.applyAxis (Obj.basisMat (o.bases.getD 0 default) tol (ensure_listlike t) 0 above) o.cps 0
    = J0 at *
  generalize hJ1 : Tensor.applyAxis (Obj.basisMat (o.bases.getD 0 default) tol (ensure_listlike t) 1 above) o.cps 0
    = J1 at *
  generalize hJ2 : Tensor.applyAxis (Obj.basisMat (o.bases.getD 0 default) tol (ensure_listlike t) 2 above) o.cps 0
    = J2 at *
  generalize hm : (ensure_listlike t).length = m at *
  generalize hZ : ({ shape := [m, o.dimension], data := Array.replicate (Tensor.prod [m, o.dimension]) 0 } : Tensor K)
    = Z
  have hZsh : Z.shape = [m, o.dimension] := by rw [← hZ]
  have hZl : lastN Z = o.dimension := by unfold lastN; rw [hZsh]; rfl
  have hZp : nPts Z = m := by unfold nPts; rw [hZsh]; simp [Tensor.prod]
  have hZs : Z.data.size = nPts Z * lastN Z := by rw [hZp, hZl, ← hZ]; simp [Tensor.prod]
  rw [if_pos trivial, ← hZl]
  rw [forRange_fill 2 Z ?col (by rw [hZsh]; rfl) hZs]
  case hf =>
    intro i hi
    rw [hZl] at hi
    unfold PyOverride.Curve_derivative_loop1
    rw [getLastND_nat 2 J2 (by rw [s2]; rfl) (by omega), getLastND_nat 2 J1 (by rw [s1]; rfl) (by omega),
      getLastND_nat 2 J0 (by rw [s0]; rfl) (by omega)]
    simp only [ok_bind, pure_eq_ok, bind_ok_eta]
    rfl
  rw [hZl]
  simp only [ok_bind, show ¬ ((2 : Int) = 3) by decide, if_false, if_true]
  generalize hF : fillN Z _ o.dimension = F
  generalize hR : (Tensor.mk [m, o.dimension] _ : Tensor K) = R
  have hFR : F = R := by
    rw [← hF, ← hR]
    refine tensor_mk_ext hZsh ?_
    apply Array.ext
    · simp [fillN, hZp, hZl]
    · intro k h1 h2
      have hk : k < m * o.dimension := by simpa using h2
      have hd0 : 0 < o.dimension := by
        rcases Nat.eq_zero_or_pos o.dimension with h | h
        · rw [h] at hk; omega
        · exact h
      have hp : k / o.dimension < m := mod_div_lt hk
      have hc' : k % o.dimension < o.dimension := Nat.mod_lt _ hd0
      have hnc' : o.ncomp = nc := by unfold Obj.ncomp; rw [hs]; rfl
      simp only [fillN, Array.getElem_ofFn, hZl, hc', if_true, tDiv_get, tMul_get, tSMul_get, tSub_get, tMul_size,
        tSub_size, tSMul_size, colOf_size, p0, p1, p2, le_refl, colOf_get, hp, l0, l1, l2, hnc',
        show nc - 1 = o.dimension by omega, RatDeriv.curveD2]
  rw [hFR]
  cases t with
  | scalar x =>
    have hm1 : m = 1 := by rw [← hm]; rfl
    subst hm1
    simp only [is_singleton, if_true, bind_ok_eta]
    exact squeeze_row0 R o.dimension (by rw [← hR]) (by rw [← hR]; simp)
  | list xs => simp only [is_singleton, Bool.false_eq_true, if_false, ok_bind]

/-- The closed form for `d = 3` (generated code) is the model's `curveDerivativeRational`. -/
theorem curve_closed_3 (o : Obj K) (tol : K) (t : Param K) (above tensor : Bool)
    {n nc : ℕ} (hs : o.cps.shape = [n, nc]) (hb : 1 ≤ o.bases.size) (hr : o.rational = true) (hnc : 1 ≤ nc) :
    PyOverride.Curve_derivative (ofObj o) tol t (3 : Int) above tensor =
      (let r := o.curveDerivativeRational tol (ensure_listlike t) 3 above
       if is_singleton t then npReshape r [((o.dimension : ℕ) : Int)] else pure r) := by
  unfold PyOverride.Curve_derivative
  have hc : ¬ (((¬ ((ofObj o).rational = true)) ∨ ((3 : Int) < (2 : Int))) ∨ ((3 : Int) > (3 : Int))) := by
    simp [hr]
  rw [if_neg hc]
  simp only [ofObj_bases, ofObj_cps, ofObj_dimension, pure_eq_ok]
  have hz := npZeros_nat (K := K) [(ensure_listlike t).length, o.dimension]
  simp only [List.map_cons, List.map_nil] at hz
  simp only [show ¬ ((3 : Int) = 2) by decide, if_false]
  simp only [len, hz, ok_bind, getBasis_zero o.bases hb, basisEvaluate]
  rw [npMatmulMT_eq _ _ hs, npMatmulMT_eq _ _ hs, npMatmulMT_eq _ _ hs]
  simp only [ok_bind, show (3 : Int).toNat = 3 from rfl, show (2 : Int).toNat = 2 from rfl,
    show (1 : Int).toNat = 1 from rfl, show (0 : Int).toNat = 0 from rfl, show ¬ ((3 : Int) = 2) by decide, if_false,
    if_true, npMatmulMT_eq _ _ hs]
  have hdim : o.dimension + 1 = nc := by
    unfold Obj.dimension Obj.ncomp; rw [hs, hr]; simp; omega
  obtain ⟨s0, l0, p0⟩ := jet_facts (Obj.basisMat (o.bases.getD 0 default) tol (ensure_listlike t) 0 above) o.cps hs
    (basisMat_size _ _ _ _ _)
  obtain ⟨s1, l1, p1⟩ := jet_facts (Obj.basisMat (o.bases.getD 0 default) tol (ensure_listlike t) 1 above) o.cps hs
    (basisMat_size _ _ _ _ _)
  obtain ⟨s2, l2, p2⟩ := jet_facts (Obj.basisMat (o.bases.getD 0 default) tol (ensure_listlike t) 2 above) o.cps hs
    (basisMat_size _ _ _ _ _)
  obtain ⟨s3, l3, p3⟩ := jet_facts (Obj.basisMat (o.bases.getD 0 default) tol (ensure_listlike t) 3 above) o.cps hs
    (basisMat_size _ _ _ _ _)
  rw [getLastND_neg_one 2 _ (by rw [s0]; rfl) (by rw [l0]; exact hnc),
    getLastND_neg_one 2 _ (by rw [s1]; rfl) (by rw [l1]; exact hnc),
    getLastND_neg_one 2 _ (by rw [s2]; rfl) (by rw [l2]; exact hnc)]
  simp only [ok_bind]
  rw [getLastND_neg_one 2 _ (by rw [s3]; rfl) (by rw [l3]; exact hnc)]
  simp only [ok_bind, l0, l1, l2, l3]
  unfold Obj.curveDerivativeRational Obj.basis
  simp only []
  generalize hJ0 : Tensor.applyAxis (Obj.basisMat (o.bases.getD 0 default) tol (ensure_listlike t) 0 above) o.cps 0
    = J0 at *
  generalize hJ1 : Tensor.applyAxis (Obj.basisMat (o.bases.getD 0 default) tol (ensure_listlike t) 1 above) o.cps 0
    = J1 at *
  generalize hJ2 : Tensor.applyAxis (Obj.basisMat (o.bases.getD 0 default) tol (ensure_listlike t) 2 above) o.cps 0
    = J2 at *
  generalize hJ3 : Tensor.applyAxis (Obj.basisMat (o.bases.getD 0 default) tol (ensure_listlike t) 3 above) o.cps 0
    = J3 at *
  generalize hm : (ensure_listlike t).length = m at *
  generalize hZ : ({ shape := [m, o.dimension], data := Array.replicate (Tensor.prod [m, o.dimension]) 0 } : Tensor K)
    = Z
  have hZsh : Z.shape = [m, o.dimension] := by rw [← hZ]
  have hZl : lastN Z = o.dimension := by unfold lastN; rw [hZsh]; rfl
  have hZp : nPts Z = m := by unfold nPts; rw [hZsh]; simp [Tensor.prod]
  have hZs : Z.data.size = nPts Z * lastN Z := by rw [hZp, hZl, ← hZ]; simp [Tensor.prod]
  rw [← hZl]
  rw [forRange_fill 2 Z ?col (by rw [hZsh]; rfl) hZs]
  case hf =>
    intro i hi
    rw [hZl] at hi
    unfold PyOverride.Curve_derivative_loop2
    rw [getLastND_nat 2 J3 (by rw [s3]; rfl) (by omega), getLastND_nat 2 J2 (by rw [s2]; rfl) (by omega),
      getLastND_nat 2 J1 (by rw [s1]; rfl) (by omega), getLastND_nat 2 J0 (by rw [s0]; rfl) (by omega)]
    simp only [ok_bind, pure_eq_ok, bind_ok_eta]
    rfl
  rw [hZl]
  simp only [ok_bind, show ¬ ((3 : ℕ) = 2) by decide, if_false]
  generalize hF : fillN Z _ o.dimension = F
  generalize hR : (Tensor.mk [m, o.dimension] _ : Tensor K) = R
  have hFR : F = R := by
    rw [← hF, ← hR]
    refine tensor_mk_ext hZsh ?_
    apply Array.ext
    · simp [fillN, hZp, hZl]
    · intro k h1 h2
      have hk : k < m * o.dimension := by simpa using h2
      have hd0 : 0 < o.dimension := by
        rcases Nat.eq_zero_or_pos o.dimension with h | h
        · rw [h] at hk; omega
        · exact h
      have hp : k / o.dimension < m := mod_div_lt hk
      have hc' : k % o.dimension < o.dimension := Nat.mod_lt _ hd0
      have hnc' : o.ncomp = nc := by unfold Obj.ncomp; rw [hs]; rfl
      simp only [fillN, Array.getElem_ofFn, hZl, hc', if_true, tDiv_get, tMul_get, tSMul_get, tSub_get, tAdd_get,
        tMul_size, tSub_size, tAdd_size, tSMul_size, colOf_size, p0, p1, p2, p3, le_refl, colOf_get, hp, l0, l1, l2, l3,
        hnc', show nc - 1 = o.dimension by omega, RatDeriv.curveD3]
  rw [hFR]
  cases t with
  | scalar x =>
    have hm1 : m = 1 := by rw [← hm]; rfl
    subst hm1
    simp only [is_singleton, if_true, bind_ok_eta]
    exact squeeze_row0 R o.dimension (by rw [← hR]) (by rw [← hR]; simp)
  | list xs => simp only [is_singleton, Bool.false_eq_true, if_false, ok_bind]


/-- **`Curve.derivative`, dispatch to the generic path** (`not rational or d < 2 or d > 3`): the call is forwarded
to the translated `SplineObject.derivative` with `d`, `above` as one-element lists. -/
theorem _root_.PyOverride_Curve_derivative_generic_eq (o : Obj K) (tol : K) (t : Param K) (d : Int) (above tensor : Bool)
    (h : ¬ (o.rational = true) ∨ d < 2 ∨ d > 3) :
    PyOverride.Curve_derivative (ofObj o) tol t d above tensor =
      PyObject.derivative (ofObj o) tol [t] (some [d]) (some [above]) (some tensor) := by
  unfold PyOverride.Curve_derivative
  have hc : (((¬ ((ofObj o).rational = true)) ∨ (d < (2 : Int))) ∨ (d > (3 : Int))) := by
    rcases h with h | h | h
    · exact Or.inl (Or.inl h)
    · exact Or.inl (Or.inr h)
    · exact Or.inr h
  rw [if_pos hc]

/-- **`Curve.derivative`, rational closed forms `d = 2, 3`** (generated from `splipy/curve.py`) = the model's
`Obj.curveDerivativeRational` (formulas `RatDeriv.curveD2 / curveD3`), followed by the squeeze of a single point.
Guards: the control net is 2-d (`n × ncomp`), there is a basis, `ncomp ≥ 1`. -/
theorem _root_.PyOverride_Curve_derivative_closed_eq (o : Obj K) (tol : K) (t : Param K) (d : ℕ) (above tensor : Bool)
    {n nc : ℕ} (hs : o.cps.shape = [n, nc]) (hb : 1 ≤ o.bases.size) (hr : o.rational = true) (hnc : 1 ≤ nc)
    (hd : d = 2 ∨ d = 3) :
    PyOverride.Curve_derivative (ofObj o) tol t (d : Int) above tensor =
      (let r := o.curveDerivativeRational tol (ensure_listlike t) d above
       if is_singleton t then npReshape r [((o.dimension : ℕ) : Int)] else pure r) := by
  rcases hd with rfl | rfl
  · exact curve_closed_2 o tol t above tensor hs hb hr hnc
  · exact curve_closed_3 o tol t above tensor hs hb hr hnc

/-- **`Curve.derivative(t, d, above, tensor)`** for an int `d` and a bool `above` = the hand model's
`Obj.curveDerivativeWith curveOutcome` (dispatch + generic path + closed forms), followed by the squeeze of a single
point.  Guards: a curve (2-d control net, exactly one basis), `ncomp ≥ 1`, and — for the generic path only, as in
`PyObject_derivative_eq` — a non-empty parameter list when the basis is not periodic (MODEL/CODE GAP of t3). -/
theorem _root_.PyOverride_Curve_derivative_eq (o : Obj K) (tol : K) (t : Param K) (d : ℕ) (above tensor : Bool)
    {n nc : ℕ} (hs : o.cps.shape = [n, nc]) (hb : o.bases.size = 1) (hnc : 1 ≤ nc)
    (hne : (o.bases.getD 0 default).periodic < 0 → ensure_listlike t ≠ []) :
    PyOverride.Curve_derivative (ofObj o) tol t (d : Int) above tensor = (do
      let r ← o.curveDerivativeWith curveOutcome tol (ensure_listlike t) (.int d) (.bool above) tensor
      if is_singleton t then npReshape r [((o.dimension : ℕ) : Int)] else pure r) := by
  have hnc' : o.ncomp = nc := by unfold Obj.ncomp; rw [hs]; rfl
  have hpd : o.pardim = 1 := by unfold Obj.pardim; rw [hs]; rfl
  by_cases hcl : o.rational = true ∧ (d = 2 ∨ d = 3)
  · obtain ⟨hr, hd⟩ := hcl
    rw [PyOverride_Curve_derivative_closed_eq o tol t d above tensor hs (by omega) hr hnc hd]
    unfold Obj.curveDerivativeWith curveOutcome
    have : (!o.rational || decide (d < 2) || decide (d > 3)) = false := by
      rcases hd with rfl | rfl <;> simp [hr]
    simp only [DSpec.isSingleton, DSpec.items, List.head?_cons, if_true, this, Bool.false_eq_true, if_false,
      ASpec.selfOrHead, pure_eq_ok, ok_bind]
  · have hgen : ¬ (o.rational = true) ∨ (d : Int) < 2 ∨ (d : Int) > 3 := by
      by_cases hr : o.rational = true
      · right
        have : ¬ (d = 2 ∨ d = 3) := fun h => hcl ⟨hr, h⟩
        omega
      · exact Or.inl hr
    rw [PyOverride_Curve_derivative_generic_eq o tol t d above tensor hgen]
    have hl1 : ensure_listlike_dups [(d : Int)] ((o.pardim : ℕ) : Int) = [(d : Int)] := by
      rw [hpd]; simp [ensure_listlike_dups]
    have hl2 : ensure_listlike_dups [above] ((o.pardim : ℕ) : Int) = [above] := by
      rw [hpd]; simp [ensure_listlike_dups]
    rw [PyObject_derivative_eq o tol [t] (some [(d : Int)]) (some [above]) (some tensor) (by rw [hs, hb]; rfl)
      (by omega) (by omega) (by simp [hb])
      (by
        intro x hx
        have h1 : o.bases.toList = [o.bases.getD 0 default] := by
          have hl : o.bases.toList.length = 1 := by simp [hb]
          match hb' : o.bases.toList, hl with
          | [b], _ =>
            have : o.bases.getD 0 default = b := by
              simp [Array.getD_eq_getD_getElem?, ← Array.getElem?_toList, hb']
            rw [this]
        rw [h1] at hx
        simp only [List.map_cons, List.map_nil, List.zip_cons_cons, List.zip_nil_right, List.mem_singleton] at hx
        subst hx
        exact hne)
      (by omega)
      (by simp only [Option.getD_some, hl1]; simp [hb])
      (by simp only [Option.getD_some, hl1]; intro x hx; simp at hx; omega)
      (by simp only [Option.getD_some, hl2]; simp [hb])]
    unfold Obj.curveDerivativeWith curveOutcome
    have : (!o.rational || decide (d < 2) || decide (d > 3)) = true := by
      rcases hgen with h | h | h
      · simp [h]
      · have : d < 2 := by omega
        simp [this]
      · have : d > 3 := by omega
        simp [this]
    simp only [DSpec.isSingleton, DSpec.items, List.head?_cons, if_true, this, DSpec.ensureListlike, List.replicate_one,
      ASpec.norm, Option.getD_some, hl1, hl2, List.map_cons, List.map_nil, Int.toNat_natCast, List.all_cons, List.all_nil,
      Bool.and_true]

end curve_derivative

/-! ### method: Curve.derivative_seq -/

section curve_derivative_seq

variable [FloorRing K]

theorem curve_seq_loop1 : @PyOverride.Curve_derivative_seq_loop1 K _ _ _ = @PyOverride.Curve_derivative_loop1 K _ _ _ := rfl
theorem curve_seq_loop2 : @PyOverride.Curve_derivative_seq_loop2 K _ _ _ = @PyOverride.Curve_derivative_loop2 K _ _ _ := rfl

/-- `Curve.derivative` with `d` and `above` given as sequences (`d = d[0]`, `above = above[0]`): for a non-empty `d`
and a one-element `above` it is the int / bool spelling. -/
theorem curve_seq_reduce (s : PyObj K) (tol : K) (t : Param K) (d0 : Int) (ds : List Int) (a tensor : Bool) :
    PyOverride.Curve_derivative_seq s tol t (d0 :: ds) [a] tensor = PyOverride.Curve_derivative s tol t d0 a tensor := by
  unfold PyOverride.Curve_derivative_seq PyOverride.Curve_derivative
  simp only [getItem_zero, ok_bind, curve_seq_loop1, curve_seq_loop2]

/-- The model's dispatch does not distinguish the two spellings either. -/
theorem curveDerivativeWith_seq (o : Obj K) (tol : K) (ts : List K) (d : ℕ) (ds : List ℕ) (a tensor : Bool) :
    o.curveDerivativeWith curveOutcome tol ts (.lst (d :: ds)) (.seq [a]) tensor
      = o.curveDerivativeWith curveOutcome tol ts (.int d) (.bool a) tensor := rfl

/-- **`Curve.derivative(t, d=[d, ..], above=[a], tensor)`** (sequence spellings) = the hand model's
`Obj.curveDerivativeWith curveOutcome`, followed by the squeeze of a single point; guards as for
`PyOverride_Curve_derivative_eq`. -/
theorem _root_.PyOverride_Curve_derivative_seq_eq (o : Obj K) (tol : K) (t : Param K) (d : ℕ) (ds : List ℕ)
    (a tensor : Bool) {n nc : ℕ} (hs : o.cps.shape = [n, nc]) (hb : o.bases.size = 1) (hnc : 1 ≤ nc)
    (hne : (o.bases.getD 0 default).periodic < 0 → ensure_listlike t ≠ []) :
    PyOverride.Curve_derivative_seq (ofObj o) tol t ((d : Int) :: ds.map (fun (k : ℕ) => (k : Int))) [a] tensor = (do
      let r ← o.curveDerivativeWith curveOutcome tol (ensure_listlike t) (.lst (d :: ds)) (.seq [a]) tensor
      if is_singleton t then npReshape r [((o.dimension : ℕ) : Int)] else pure r) := by
  rw [curve_seq_reduce, PyOverride_Curve_derivative_eq o tol t d a tensor hs hb hnc hne, curveDerivativeWith_seq]

end curve_derivative_seq

/-! ### method: Curve.evaluate -/

section curve_evaluate

variable [FloorRing K]

/-- **`Curve.evaluate(t)`** (the override in `splipy/curve.py`: sparse basis matrix, `N @ controlpoints`, division by
the weight, squeeze) = the hand model's generic `Obj.evaluate` for a curve, followed by the squeeze of a single
point.  Guards: a curve (2-d control net, exactly one basis), `ncomp >= 1`, one positional parameter; a non-empty
parameter list when the basis is not periodic (hypothesis kept for symmetry with t3; not used any more). -/
theorem _root_.PyOverride_Curve_evaluate_eq (o : Obj K) (tol : K) (t : Param K) (tensor : Bool)
    {n nc : ℕ} (hs : o.cps.shape = [n, nc]) (hb : o.bases.size = 1) (hnc : 1 ≤ nc)
    (hne : (o.bases.getD 0 default).periodic < 0 → ensure_listlike t ≠ []) :
    PyOverride.Curve_evaluate (ofObj o) tol [t] tensor = (do
      let r ← o.evaluate tol [ensure_listlike t] true
      if is_singleton t then npReshape r [((o.dimension : ℕ) : Int)] else pure r) := by
  have hbl := bases_toList_one o hb
  have hnc' : o.ncomp = nc := by unfold Obj.ncomp; rw [hs]; rfl
  unfold PyOverride.Curve_evaluate
  simp only [getItem_zero, ok_bind, pure_eq_ok]
  rw [listComp_ok [t] _ ensure_listlike (fun _ _ => rfl), ok_bind]
  simp only [List.map_cons, List.map_nil]
  rw [vd_model o tol _ (by simp [hb]) (by
    intro x hx
    rw [hbl] at hx
    simp only [List.zip_cons_cons, List.zip_nil_right, List.mem_singleton] at hx
    subst hx
    exact hne)]
  unfold Obj.evaluate
  simp only [Bool.not_true, Bool.false_eq_true, false_and, if_false, if_true]
  cases hv : o.validateDomain tol [ensure_listlike t] with
  | error e => rfl
  | ok ps =>
    obtain ⟨p', rfl⟩ : ∃ p', ps = [p'] := by
      simp only [Obj.validateDomain] at hv
      split_ifs at hv
      cases hv
      rw [hbl]
      exact ⟨_, rfl⟩
    simp only [ok_bind, ofObj_bases, ofObj_cps, ofObj_rational, ofObj_dimension, getItem_zero,
      getBasis_zero o.bases (by omega), basisEvaluate, show (0 : Int).toNat = 0 from rfl]
    rw [npMatmulMT_eq _ _ hs, ok_bind, hbl]
    have hcg : Obj.contractGrid (List.map (fun (x : Basis K × List K) => Obj.basisMat x.1 tol x.2 0 true)
        ([o.bases.getD 0 default].zip [p'])) o.cps
        = Tensor.applyAxis (Obj.basisMat (o.bases.getD 0 default) tol p' 0 true) o.cps 0 := by
      simp [Obj.contractGrid]
    rw [hcg]
    obtain ⟨g1, g2, g3⟩ := jet_facts (Obj.basisMat (o.bases.getD 0 default) tol p' 0 true) o.cps hs rfl
    set res := Tensor.applyAxis (Obj.basisMat (o.bases.getD 0 default) tol p' 0 true) o.cps 0 with hres
    have hne' : res.shape ≠ [] := by rw [g1]; simp
    have hsz : res.data.size = nPts res * lastN res := by
      rw [← prod_eq_nPts_mul res hne']
      exact applyAxis_size _ _ 0 (by rw [hs]; simp)
    by_cases hr : o.rational = true
    · simp only [hr, if_true]
      have hdim : o.dimension + 1 = nc := by
        unfold Obj.dimension; rw [if_pos hr, hnc']; omega
      have hlast : lastN res = o.dimension + 1 := by rw [g2, hdim]
      rw [(forRange_eq_foldl o.dimension res _ colDiv (fun st => lastN st = o.dimension + 1) hlast
        (by
          intro i st hi hst
          refine ⟨?_, hst⟩
          unfold PyOverride.Curve_evaluate_loop1
          simp only [pure_eq_ok, bind_ok_eta]
          exact colDiv_pass st i (by omega))).1]
      rw [ok_bind, foldl_colDiv res hsz _ (by omega),
        delete_colDivN res o.dimension hne' hlast, ok_bind]
      split_ifs <;> simp only [bind_ok_eta, ok_bind]
    · simp only [hr, Bool.false_eq_true, if_false, ok_bind]
      split_ifs <;> simp only [bind_ok_eta, ok_bind]

end curve_evaluate

/-! ## the jets of a surface, the model array (no generated code) -/

theorem getItem_one {α : Type} (x y : α) (xs : List α) : getItem (x :: y :: xs) (1 : Int) = .ok y := by
  have := getItem_nat (x :: y :: xs) (k := 1) (by simp)
  simpa using this
theorem getItem_two {α : Type} (x y z : α) (xs : List α) : getItem (x :: y :: z :: xs) (2 : Int) = .ok z := by
  have := getItem_nat (x :: y :: z :: xs) (k := 2) (by simp)
  simpa using this
theorem getItem_three {α : Type} (x y z w : α) (xs : List α) : getItem (x :: y :: z :: w :: xs) (3 : Int) = .ok w := by
  have := getItem_nat (x :: y :: z :: w :: xs) (k := 3) (by simp)
  simpa using this

/-- shape facts of one jet of a surface evaluation -/
def JetOK (J : Tensor K) (m1 m2 nc : ℕ) : Prop := J.shape = [m1, m2, nc] ∧ lastN J = nc ∧ nPts J = m1 * m2

theorem JetOK.len3 {J : Tensor K} {m1 m2 nc : ℕ} (h : JetOK J m1 m2 nc) : J.shape.length = 3 := by rw [h.1]; rfl

/-- The array `Obj.surfaceDerivativeRational` builds from the ten jets `J a b` (`tensor = True`). -/
def surfModel (o : Obj K) (J : ℕ → ℕ → Tensor K) (m1 m2 du dv : ℕ) : Tensor K :=
  let dim := o.dimension
  let nc := o.ncomp
  let tot := du + dv
  let j21 := if tot > 2 then J 2 1 else J 0 0
  let j12 := if tot > 2 then J 1 2 else J 0 0
  let j30 := if tot > 2 then J 3 0 else J 0 0
  let j03 := if tot > 2 then J 0 3 else J 0 0
  { shape := [m1, m2, dim],
    data := Array.ofFn (n := m1 * m2 * dim) (fun idx =>
      let pI := idx.val / dim
      let c := idx.val % dim
      let mkJet (cc : ℕ) : RatDeriv.SurfJet K :=
        let g (t : Tensor K) := t.get (pI * nc + cc)
        { f00 := g (J 0 0), f10 := g (J 1 0), f01 := g (J 0 1), f11 := g (J 1 1), f20 := g (J 2 0), f02 := g (J 0 2),
          f21 := g j21, f12 := g j12, f30 := g j30, f03 := g j03 }
      match RatDeriv.surfD (mkJet c) (mkJet dim) du dv with
      | some y => y
      | none => 0) }

/-- shape facts of a jet `evaluate([Nu, Nv], cps)` of a surface -/
theorem jet2_facts (Nu Nv : Mat K) (cps : Tensor K) {n1 n2 nc m1 m2 : ℕ} (hs : cps.shape = [n1, n2, nc])
    (hNu : Nu.size = m1) (hNv : Nv.size = m2) : JetOK (Obj.contractGrid [Nu, Nv] cps) m1 m2 nc := by
  have h1 : (Obj.contractGrid [Nu, Nv] cps).shape = [m1, m2, nc] := by
    have hr2 : List.range 2 = [0, 1] := rfl
    simp [Obj.contractGrid, hr2, applyAxis_shape', hs, hNu, hNv]
  refine ⟨h1, ?_, ?_⟩
  · unfold lastN; rw [h1]; rfl
  · unfold nPts; rw [h1]; simp [Tensor.prod]

theorem evalfn2 (Nu Nv : Mat K) (cps : Tensor K) (h : cps.shape.length = 3) :
    PyObject.evaluate_fn [Nu, Nv] cps true = .ok (Obj.contractGrid [Nu, Nv] cps) :=
  PyObject_evaluate_fn_tensor_eq [Nu, Nv] cps (by rw [h]; rfl) (by simp)

theorem rangeI_0_3 : rangeI 0 3 = [0, 1, 2] := by decide
theorem rangeI_0_4 : rangeI 0 4 = [0, 1, 2, 3] := by decide


/-! ### method: Surface.derivative -/

section surface_derivative

variable [FloorRing K]

/-- The loop of `Surface.derivative` for `derivs = (1, 1)` fills the result with the model's closed form. -/
theorem surf_loop_11 (o : Obj K) (tol : K) (Nu Nv : ℕ → Mat K) (J : ℕ → ℕ → Tensor K) (m1 m2 nc : ℕ)
    (hdim : o.dimension + 1 = nc) (hnc' : o.ncomp = nc) (hnc : 1 ≤ nc) (hJ : ∀ a b, JetOK (J a b) m1 m2 nc)
    (hE : ∀ a b, PyObject.evaluate_fn [Nu a, Nv b] o.cps true = .ok (J a b))
    (Z : Tensor K) (hZsh : Z.shape = [m1, m2, o.dimension]) (hZs : Z.data.size = nPts Z * lastN Z) :
    forRange 0 (o.dimension : Int) Z
      (PyOverride.Surface_derivative_loop1 (ofObj o) tol true [1, 1] [Nu 0, Nu 1, Nu 2] [Nv 0, Nv 1, Nv 2]
        (J 0 0) (J 1 0) (J 0 1) (J 1 1) (J 2 0) (J 0 2) (colOf (J 0 0) (nc - 1)) (colOf (J 1 0) (nc - 1))
        (colOf (J 0 1) (nc - 1)) (colOf (J 1 1) (nc - 1)) (colOf (J 2 0) (nc - 1)) (colOf (J 0 2) (nc - 1)))
      = .ok (surfModel o J m1 m2 1 1) := by
  have hZl : lastN Z = o.dimension := by unfold lastN; rw [hZsh]; rfl
  have hZp : nPts Z = m1 * m2 := by unfold nPts; rw [hZsh]; simp [Tensor.prod]
  rw [← hZl]
  rw [forRange_fill 3 Z ?col (by rw [hZsh]; rfl) hZs]
  case hf =>
    intro i hi
    rw [hZl] at hi
    have g00 := getLastND_nat 3 (J 0 0) (hJ 0 0).len3 (show i < lastN (J 0 0) by rw [(hJ 0 0).2.1]; omega)
    have g10 := getLastND_nat 3 (J 1 0) (hJ 1 0).len3 (show i < lastN (J 1 0) by rw [(hJ 1 0).2.1]; omega)
    have g01 := getLastND_nat 3 (J 0 1) (hJ 0 1).len3 (show i < lastN (J 0 1) by rw [(hJ 0 1).2.1]; omega)
    have g11 := getLastND_nat 3 (J 1 1) (hJ 1 1).len3 (show i < lastN (J 1 1) by rw [(hJ 1 1).2.1]; omega)
    have g20 := getLastND_nat 3 (J 2 0) (hJ 2 0).len3 (show i < lastN (J 2 0) by rw [(hJ 2 0).2.1]; omega)
    have g02 := getLastND_nat 3 (J 0 2) (hJ 0 2).len3 (show i < lastN (J 0 2) by rw [(hJ 0 2).2.1]; omega)
    have e10 : (([1, 1] : List Int) = [1, 0]) = False := by decide
    have e01 : (([1, 1] : List Int) = [0, 1]) = False := by decide
    have e11 : (([1, 1] : List Int) = [1, 1]) = True := by decide
    have e20 : (([1, 1] : List Int) = [2, 0]) = False := by decide
    have e02 : (([1, 1] : List Int) = [0, 2]) = False := by decide
    have e30 : (([1, 1] : List Int) = [3, 0]) = False := by decide
    have e03 : (([1, 1] : List Int) = [0, 3]) = False := by decide
    have e21 : (([1, 1] : List Int) = [2, 1]) = False := by decide
    have e12 : (([1, 1] : List Int) = [1, 2]) = False := by decide
    unfold PyOverride.Surface_derivative_loop1
    simp only [g00, g10, g01, g11, g20, g02, e10, e01, e11, e20, e02, e30, e03, e21, e12, ok_bind, pure_eq_ok, bind_ok_eta, if_true, if_false, ofObj_cps,
      show pySum ([1, 1] : List Int) = 2 from by decide, show ((2 : Int) > 2) = False from by decide]
    rfl
  rw [hZl]
  congr 1
  generalize hF : fillN Z _ o.dimension = F
  rw [← hF]
  unfold surfModel
  refine tensor_mk_ext hZsh ?_
  apply Array.ext
  · simp [fillN, hZp, hZl]
  · intro k h1 h2
    have hk : k < m1 * m2 * o.dimension := by simpa using h2
    have hd0 : 0 < o.dimension := by
      rcases Nat.eq_zero_or_pos o.dimension with h | h
      · rw [h] at hk; omega
      · exact h
    have hp : k / o.dimension < m1 * m2 := mod_div_lt hk
    have hc' : k % o.dimension < o.dimension := Nat.mod_lt _ hd0
    simp only [fillN, Array.getElem_ofFn, hZl, hc', if_true, tDiv_get, tMul_get, tSMul_get, tSub_get, tAdd_get,
      tMul_size, tSub_size, tAdd_size, tSMul_size, colOf_size, le_refl, colOf_get, hp, hnc',
      (hJ 0 0).2.1, (hJ 0 0).2.2, (hJ 1 0).2.1, (hJ 1 0).2.2, (hJ 0 1).2.1, (hJ 0 1).2.2, (hJ 1 1).2.1, (hJ 1 1).2.2, (hJ 2 0).2.1, (hJ 2 0).2.2, (hJ 0 2).2.1, (hJ 0 2).2.2,
      show nc - 1 = o.dimension by omega, show (2 : ℕ) > 2 ↔ False from by decide, if_true, if_false,
      RatDeriv.surfD, RatDeriv.surfD11, RatDeriv.Surf.H1, RatDeriv.Surf.H2, RatDeriv.Surf.dH1du, RatDeriv.Surf.dH1dv,
      RatDeriv.Surf.dH2du, RatDeriv.Surf.dH2dv, RatDeriv.Surf.G1, RatDeriv.Surf.G2, RatDeriv.Surf.d2H1du,
      RatDeriv.Surf.d2H1duv, RatDeriv.Surf.d2H2dv, RatDeriv.Surf.d2H2duv, RatDeriv.Surf.dG1du, RatDeriv.Surf.dG1dv,
      RatDeriv.Surf.dG2du, RatDeriv.Surf.dG2dv]

/-- The loop of `Surface.derivative` for `derivs = (2, 0)` fills the result with the model's closed form. -/
theorem surf_loop_20 (o : Obj K) (tol : K) (Nu Nv : ℕ → Mat K) (J : ℕ → ℕ → Tensor K) (m1 m2 nc : ℕ)
    (hdim : o.dimension + 1 = nc) (hnc' : o.ncomp = nc) (hnc : 1 ≤ nc) (hJ : ∀ a b, JetOK (J a b) m1 m2 nc)
    (hE : ∀ a b, PyObject.evaluate_fn [Nu a, Nv b] o.cps true = .ok (J a b))
    (Z : Tensor K) (hZsh : Z.shape = [m1, m2, o.dimension]) (hZs : Z.data.size = nPts Z * lastN Z) :
    forRange 0 (o.dimension : Int) Z
      (PyOverride.Surface_derivative_loop1 (ofObj o) tol true [2, 0] [Nu 0, Nu 1, Nu 2] [Nv 0, Nv 1, Nv 2]
        (J 0 0) (J 1 0) (J 0 1) (J 1 1) (J 2 0) (J 0 2) (colOf (J 0 0) (nc - 1)) (colOf (J 1 0) (nc - 1))
        (colOf (J 0 1) (nc - 1)) (colOf (J 1 1) (nc - 1)) (colOf (J 2 0) (nc - 1)) (colOf (J 0 2) (nc - 1)))
      = .ok (surfModel o J m1 m2 2 0) := by
  have hZl : lastN Z = o.dimension := by unfold lastN; rw [hZsh]; rfl
  have hZp : nPts Z = m1 * m2 := by unfold nPts; rw [hZsh]; simp [Tensor.prod]
  rw [← hZl]
  rw [forRange_fill 3 Z ?col (by rw [hZsh]; rfl) hZs]
  case hf =>
    intro i hi
    rw [hZl] at hi
    have g00 := getLastND_nat 3 (J 0 0) (hJ 0 0).len3 (show i < lastN (J 0 0) by rw [(hJ 0 0).2.1]; omega)
    have g10 := getLastND_nat 3 (J 1 0) (hJ 1 0).len3 (show i < lastN (J 1 0) by rw [(hJ 1 0).2.1]; omega)
    have g01 := getLastND_nat 3 (J 0 1) (hJ 0 1).len3 (show i < lastN (J 0 1) by rw [(hJ 0 1).2.1]; omega)
    have g11 := getLastND_nat 3 (J 1 1) (hJ 1 1).len3 (show i < lastN (J 1 1) by rw [(hJ 1 1).2.1]; omega)
    have g20 := getLastND_nat 3 (J 2 0) (hJ 2 0).len3 (show i < lastN (J 2 0) by rw [(hJ 2 0).2.1]; omega)
    have g02 := getLastND_nat 3 (J 0 2) (hJ 0 2).len3 (show i < lastN (J 0 2) by rw [(hJ 0 2).2.1]; omega)
    have e10 : (([2, 0] : List Int) = [1, 0]) = False := by decide
    have e01 : (([2, 0] : List Int) = [0, 1]) = False := by decide
    have e11 : (([2, 0] : List Int) = [1, 1]) = False := by decide
    have e20 : (([2, 0] : List Int) = [2, 0]) = True := by decide
    have e02 : (([2, 0] : List Int) = [0, 2]) = False := by decide
    have e30 : (([2, 0] : List Int) = [3, 0]) = False := by decide
    have e03 : (([2, 0] : List Int) = [0, 3]) = False := by decide
    have e21 : (([2, 0] : List Int) = [2, 1]) = False := by decide
    have e12 : (([2, 0] : List Int) = [1, 2]) = False := by decide
    unfold PyOverride.Surface_derivative_loop1
    simp only [g00, g10, g01, g11, g20, g02, e10, e01, e11, e20, e02, e30, e03, e21, e12, ok_bind, pure_eq_ok, bind_ok_eta, if_true, if_false, ofObj_cps,
      show pySum ([2, 0] : List Int) = 2 from by decide, show ((2 : Int) > 2) = False from by decide]
    rfl
  rw [hZl]
  congr 1
  generalize hF : fillN Z _ o.dimension = F
  rw [← hF]
  unfold surfModel
  refine tensor_mk_ext hZsh ?_
  apply Array.ext
  · simp [fillN, hZp, hZl]
  · intro k h1 h2
    have hk : k < m1 * m2 * o.dimension := by simpa using h2
    have hd0 : 0 < o.dimension := by
      rcases Nat.eq_zero_or_pos o.dimension with h | h
      · rw [h] at hk; omega
      · exact h
    have hp : k / o.dimension < m1 * m2 := mod_div_lt hk
    have hc' : k % o.dimension < o.dimension := Nat.mod_lt _ hd0
    simp only [fillN, Array.getElem_ofFn, hZl, hc', if_true, tDiv_get, tMul_get, tSMul_get, tSub_get, tAdd_get,
      tMul_size, tSub_size, tAdd_size, tSMul_size, colOf_size, le_refl, colOf_get, hp, hnc',
      (hJ 0 0).2.1, (hJ 0 0).2.2, (hJ 1 0).2.1, (hJ 1 0).2.2, (hJ 0 1).2.1, (hJ 0 1).2.2, (hJ 1 1).2.1, (hJ 1 1).2.2, (hJ 2 0).2.1, (hJ 2 0).2.2, (hJ 0 2).2.1, (hJ 0 2).2.2,
      show nc - 1 = o.dimension by omega, show (2 : ℕ) > 2 ↔ False from by decide, if_true, if_false,
      RatDeriv.surfD, RatDeriv.surfD20, RatDeriv.Surf.H1, RatDeriv.Surf.H2, RatDeriv.Surf.dH1du, RatDeriv.Surf.dH1dv,
      RatDeriv.Surf.dH2du, RatDeriv.Surf.dH2dv, RatDeriv.Surf.G1, RatDeriv.Surf.G2, RatDeriv.Surf.d2H1du,
      RatDeriv.Surf.d2H1duv, RatDeriv.Surf.d2H2dv, RatDeriv.Surf.d2H2duv, RatDeriv.Surf.dG1du, RatDeriv.Surf.dG1dv,
      RatDeriv.Surf.dG2du, RatDeriv.Surf.dG2dv]

/-- The loop of `Surface.derivative` for `derivs = (0, 2)` fills the result with the model's closed form. -/
theorem surf_loop_02 (o : Obj K) (tol : K) (Nu Nv : ℕ → Mat K) (J : ℕ → ℕ → Tensor K) (m1 m2 nc : ℕ)
    (hdim : o.dimension + 1 = nc) (hnc' : o.ncomp = nc) (hnc : 1 ≤ nc) (hJ : ∀ a b, JetOK (J a b) m1 m2 nc)
    (hE : ∀ a b, PyObject.evaluate_fn [Nu a, Nv b] o.cps true = .ok (J a b))
    (Z : Tensor K) (hZsh : Z.shape = [m1, m2, o.dimension]) (hZs : Z.data.size = nPts Z * lastN Z) :
    forRange 0 (o.dimension : Int) Z
      (PyOverride.Surface_derivative_loop1 (ofObj o) tol true [0, 2] [Nu 0, Nu 1, Nu 2] [Nv 0, Nv 1, Nv 2]
        (J 0 0) (J 1 0) (J 0 1) (J 1 1) (J 2 0) (J 0 2) (colOf (J 0 0) (nc - 1)) (colOf (J 1 0) (nc - 1))
        (colOf (J 0 1) (nc - 1)) (colOf (J 1 1) (nc - 1)) (colOf (J 2 0) (nc - 1)) (colOf (J 0 2) (nc - 1)))
      = .ok (surfModel o J m1 m2 0 2) := by
  have hZl : lastN Z = o.dimension := by unfold lastN; rw [hZsh]; rfl
  have hZp : nPts Z = m1 * m2 := by unfold nPts; rw [hZsh]; simp [Tensor.prod]
  rw [← hZl]
  rw [forRange_fill 3 Z ?col (by rw [hZsh]; rfl) hZs]
  case hf =>
    intro i hi
    rw [hZl] at hi
    have g00 := getLastND_nat 3 (J 0 0) (hJ 0 0).len3 (show i < lastN (J 0 0) by rw [(hJ 0 0).2.1]; omega)
    have g10 := getLastND_nat 3 (J 1 0) (hJ 1 0).len3 (show i < lastN (J 1 0) by rw [(hJ 1 0).2.1]; omega)
    have g01 := getLastND_nat 3 (J 0 1) (hJ 0 1).len3 (show i < lastN (J 0 1) by rw [(hJ 0 1).2.1]; omega)
    have g11 := getLastND_nat 3 (J 1 1) (hJ 1 1).len3 (show i < lastN (J 1 1) by rw [(hJ 1 1).2.1]; omega)
    have g20 := getLastND_nat 3 (J 2 0) (hJ 2 0).len3 (show i < lastN (J 2 0) by rw [(hJ 2 0).2.1]; omega)
    have g02 := getLastND_nat 3 (J 0 2) (hJ 0 2).len3 (show i < lastN (J 0 2) by rw [(hJ 0 2).2.1]; omega)
    have e10 : (([0, 2] : List Int) = [1, 0]) = False := by decide
    have e01 : (([0, 2] : List Int) = [0, 1]) = False := by decide
    have e11 : (([0, 2] : List Int) = [1, 1]) = False := by decide
    have e20 : (([0, 2] : List Int) = [2, 0]) = False := by decide
    have e02 : (([0, 2] : List Int) = [0, 2]) = True := by decide
    have e30 : (([0, 2] : List Int) = [3, 0]) = False := by decide
    have e03 : (([0, 2] : List Int) = [0, 3]) = False := by decide
    have e21 : (([0, 2] : List Int) = [2, 1]) = False := by decide
    have e12 : (([0, 2] : List Int) = [1, 2]) = False := by decide
    unfold PyOverride.Surface_derivative_loop1
    simp only [g00, g10, g01, g11, g20, g02, e10, e01, e11, e20, e02, e30, e03, e21, e12, ok_bind, pure_eq_ok, bind_ok_eta, if_true, if_false, ofObj_cps,
      show pySum ([0, 2] : List Int) = 2 from by decide, show ((2 : Int) > 2) = False from by decide]
    rfl
  rw [hZl]
  congr 1
  generalize hF : fillN Z _ o.dimension = F
  rw [← hF]
  unfold surfModel
  refine tensor_mk_ext hZsh ?_
  apply Array.ext
  · simp [fillN, hZp, hZl]
  · intro k h1 h2
    have hk : k < m1 * m2 * o.dimension := by simpa using h2
    have hd0 : 0 < o.dimension := by
      rcases Nat.eq_zero_or_pos o.dimension with h | h
      · rw [h] at hk; omega
      · exact h
    have hp : k / o.dimension < m1 * m2 := mod_div_lt hk
    have hc' : k % o.dimension < o.dimension := Nat.mod_lt _ hd0
    simp only [fillN, Array.getElem_ofFn, hZl, hc', if_true, tDiv_get, tMul_get, tSMul_get, tSub_get, tAdd_get,
      tMul_size, tSub_size, tAdd_size, tSMul_size, colOf_size, le_refl, colOf_get, hp, hnc',
      (hJ 0 0).2.1, (hJ 0 0).2.2, (hJ 1 0).2.1, (hJ 1 0).2.2, (hJ 0 1).2.1, (hJ 0 1).2.2, (hJ 1 1).2.1, (hJ 1 1).2.2, (hJ 2 0).2.1, (hJ 2 0).2.2, (hJ 0 2).2.1, (hJ 0 2).2.2,
      show nc - 1 = o.dimension by omega, show (2 : ℕ) > 2 ↔ False from by decide, if_true, if_false,
      RatDeriv.surfD, RatDeriv.surfD02, RatDeriv.Surf.H1, RatDeriv.Surf.H2, RatDeriv.Surf.dH1du, RatDeriv.Surf.dH1dv,
      RatDeriv.Surf.dH2du, RatDeriv.Surf.dH2dv, RatDeriv.Surf.G1, RatDeriv.Surf.G2, RatDeriv.Surf.d2H1du,
      RatDeriv.Surf.d2H1duv, RatDeriv.Surf.d2H2dv, RatDeriv.Surf.d2H2duv, RatDeriv.Surf.dG1du, RatDeriv.Surf.dG1dv,
      RatDeriv.Surf.dG2du, RatDeriv.Surf.dG2dv]

/-- The loop of `Surface.derivative` for `derivs = (3, 0)` fills the result with the model's closed form. -/
theorem surf_loop_30 (o : Obj K) (tol : K) (Nu Nv : ℕ → Mat K) (J : ℕ → ℕ → Tensor K) (m1 m2 nc : ℕ)
    (hdim : o.dimension + 1 = nc) (hnc' : o.ncomp = nc) (hnc : 1 ≤ nc) (hJ : ∀ a b, JetOK (J a b) m1 m2 nc)
    (hE : ∀ a b, PyObject.evaluate_fn [Nu a, Nv b] o.cps true = .ok (J a b))
    (Z : Tensor K) (hZsh : Z.shape = [m1, m2, o.dimension]) (hZs : Z.data.size = nPts Z * lastN Z) :
    forRange 0 (o.dimension : Int) Z
      (PyOverride.Surface_derivative_loop1 (ofObj o) tol true [3, 0] [Nu 0, Nu 1, Nu 2, Nu 3] [Nv 0, Nv 1, Nv 2, Nv 3]
        (J 0 0) (J 1 0) (J 0 1) (J 1 1) (J 2 0) (J 0 2) (colOf (J 0 0) (nc - 1)) (colOf (J 1 0) (nc - 1))
        (colOf (J 0 1) (nc - 1)) (colOf (J 1 1) (nc - 1)) (colOf (J 2 0) (nc - 1)) (colOf (J 0 2) (nc - 1)))
      = .ok (surfModel o J m1 m2 3 0) := by
  have hZl : lastN Z = o.dimension := by unfold lastN; rw [hZsh]; rfl
  have hZp : nPts Z = m1 * m2 := by unfold nPts; rw [hZsh]; simp [Tensor.prod]
  rw [← hZl]
  rw [forRange_fill 3 Z ?col (by rw [hZsh]; rfl) hZs]
  case hf =>
    intro i hi
    rw [hZl] at hi
    have g00 := getLastND_nat 3 (J 0 0) (hJ 0 0).len3 (show i < lastN (J 0 0) by rw [(hJ 0 0).2.1]; omega)
    have g10 := getLastND_nat 3 (J 1 0) (hJ 1 0).len3 (show i < lastN (J 1 0) by rw [(hJ 1 0).2.1]; omega)
    have g01 := getLastND_nat 3 (J 0 1) (hJ 0 1).len3 (show i < lastN (J 0 1) by rw [(hJ 0 1).2.1]; omega)
    have g11 := getLastND_nat 3 (J 1 1) (hJ 1 1).len3 (show i < lastN (J 1 1) by rw [(hJ 1 1).2.1]; omega)
    have g20 := getLastND_nat 3 (J 2 0) (hJ 2 0).len3 (show i < lastN (J 2 0) by rw [(hJ 2 0).2.1]; omega)
    have g02 := getLastND_nat 3 (J 0 2) (hJ 0 2).len3 (show i < lastN (J 0 2) by rw [(hJ 0 2).2.1]; omega)
    have g21 := getLastND_nat 3 (J 2 1) (hJ 2 1).len3 (show i < lastN (J 2 1) by rw [(hJ 2 1).2.1]; omega)
    have g12 := getLastND_nat 3 (J 1 2) (hJ 1 2).len3 (show i < lastN (J 1 2) by rw [(hJ 1 2).2.1]; omega)
    have g30 := getLastND_nat 3 (J 3 0) (hJ 3 0).len3 (show i < lastN (J 3 0) by rw [(hJ 3 0).2.1]; omega)
    have g03 := getLastND_nat 3 (J 0 3) (hJ 0 3).len3 (show i < lastN (J 0 3) by rw [(hJ 0 3).2.1]; omega)
    have e10 : (([3, 0] : List Int) = [1, 0]) = False := by decide
    have e01 : (([3, 0] : List Int) = [0, 1]) = False := by decide
    have e11 : (([3, 0] : List Int) = [1, 1]) = False := by decide
    have e20 : (([3, 0] : List Int) = [2, 0]) = False := by decide
    have e02 : (([3, 0] : List Int) = [0, 2]) = False := by decide
    have e30 : (([3, 0] : List Int) = [3, 0]) = True := by decide
    have e03 : (([3, 0] : List Int) = [0, 3]) = False := by decide
    have e21 : (([3, 0] : List Int) = [2, 1]) = False := by decide
    have e12 : (([3, 0] : List Int) = [1, 2]) = False := by decide
    unfold PyOverride.Surface_derivative_loop1
    simp only [g00, g10, g01, g11, g20, g02, g21, g12, g30, g03, e10, e01, e11, e20, e02, e30, e03, e21, e12, ok_bind, pure_eq_ok, bind_ok_eta, if_true, if_false, ofObj_cps,
      show pySum ([3, 0] : List Int) = 3 from by decide, show ((3 : Int) > 2) = True from by decide, getItem_zero, getItem_one, getItem_two, getItem_three, hE,
      getLastND_neg_one 3 (J 2 1) (hJ 2 1).len3 (by rw [(hJ 2 1).2.1]; exact hnc), (hJ 2 1).2.1,
      getLastND_neg_one 3 (J 1 2) (hJ 1 2).len3 (by rw [(hJ 1 2).2.1]; exact hnc), (hJ 1 2).2.1,
      getLastND_neg_one 3 (J 3 0) (hJ 3 0).len3 (by rw [(hJ 3 0).2.1]; exact hnc), (hJ 3 0).2.1,
      getLastND_neg_one 3 (J 0 3) (hJ 0 3).len3 (by rw [(hJ 0 3).2.1]; exact hnc), (hJ 0 3).2.1]
    rfl
  rw [hZl]
  congr 1
  generalize hF : fillN Z _ o.dimension = F
  rw [← hF]
  unfold surfModel
  refine tensor_mk_ext hZsh ?_
  apply Array.ext
  · simp [fillN, hZp, hZl]
  · intro k h1 h2
    have hk : k < m1 * m2 * o.dimension := by simpa using h2
    have hd0 : 0 < o.dimension := by
      rcases Nat.eq_zero_or_pos o.dimension with h | h
      · rw [h] at hk; omega
      · exact h
    have hp : k / o.dimension < m1 * m2 := mod_div_lt hk
    have hc' : k % o.dimension < o.dimension := Nat.mod_lt _ hd0
    simp only [fillN, Array.getElem_ofFn, hZl, hc', if_true, tDiv_get, tMul_get, tSMul_get, tSub_get, tAdd_get,
      tMul_size, tSub_size, tAdd_size, tSMul_size, colOf_size, le_refl, colOf_get, hp, hnc',
      (hJ 0 0).2.1, (hJ 0 0).2.2, (hJ 1 0).2.1, (hJ 1 0).2.2, (hJ 0 1).2.1, (hJ 0 1).2.2, (hJ 1 1).2.1, (hJ 1 1).2.2, (hJ 2 0).2.1, (hJ 2 0).2.2, (hJ 0 2).2.1, (hJ 0 2).2.2, (hJ 2 1).2.1, (hJ 2 1).2.2, (hJ 1 2).2.1, (hJ 1 2).2.2, (hJ 3 0).2.1, (hJ 3 0).2.2, (hJ 0 3).2.1, (hJ 0 3).2.2,
      show nc - 1 = o.dimension by omega, show (3 : ℕ) > 2 ↔ True from by decide, if_true, if_false,
      RatDeriv.surfD, RatDeriv.surfD30, RatDeriv.Surf.H1, RatDeriv.Surf.H2, RatDeriv.Surf.dH1du, RatDeriv.Surf.dH1dv,
      RatDeriv.Surf.dH2du, RatDeriv.Surf.dH2dv, RatDeriv.Surf.G1, RatDeriv.Surf.G2, RatDeriv.Surf.d2H1du,
      RatDeriv.Surf.d2H1duv, RatDeriv.Surf.d2H2dv, RatDeriv.Surf.d2H2duv, RatDeriv.Surf.dG1du, RatDeriv.Surf.dG1dv,
      RatDeriv.Surf.dG2du, RatDeriv.Surf.dG2dv]

/-- The loop of `Surface.derivative` for `derivs = (0, 3)` fills the result with the model's closed form. -/
theorem surf_loop_03 (o : Obj K) (tol : K) (Nu Nv : ℕ → Mat K) (J : ℕ → ℕ → Tensor K) (m1 m2 nc : ℕ)
    (hdim : o.dimension + 1 = nc) (hnc' : o.ncomp = nc) (hnc : 1 ≤ nc) (hJ : ∀ a b, JetOK (J a b) m1 m2 nc)
    (hE : ∀ a b, PyObject.evaluate_fn [Nu a, Nv b] o.cps true = .ok (J a b))
    (Z : Tensor K) (hZsh : Z.shape = [m1, m2, o.dimension]) (hZs : Z.data.size = nPts Z * lastN Z) :
    forRange 0 (o.dimension : Int) Z
      (PyOverride.Surface_derivative_loop1 (ofObj o) tol true [0, 3] [Nu 0, Nu 1, Nu 2, Nu 3] [Nv 0, Nv 1, Nv 2, Nv 3]
        (J 0 0) (J 1 0) (J 0 1) (J 1 1) (J 2 0) (J 0 2) (colOf (J 0 0) (nc - 1)) (colOf (J 1 0) (nc - 1))
        (colOf (J 0 1) (nc - 1)) (colOf (J 1 1) (nc - 1)) (colOf (J 2 0) (nc - 1)) (colOf (J 0 2) (nc - 1)))
      = .ok (surfModel o J m1 m2 0 3) := by
  have hZl : lastN Z = o.dimension := by unfold lastN; rw [hZsh]; rfl
  have hZp : nPts Z = m1 * m2 := by unfold nPts; rw [hZsh]; simp [Tensor.prod]
  rw [← hZl]
  rw [forRange_fill 3 Z ?col (by rw [hZsh]; rfl) hZs]
  case hf =>
    intro i hi
    rw [hZl] at hi
    have g00 := getLastND_nat 3 (J 0 0) (hJ 0 0).len3 (show i < lastN (J 0 0) by rw [(hJ 0 0).2.1]; omega)
    have g10 := getLastND_nat 3 (J 1 0) (hJ 1 0).len3 (show i < lastN (J 1 0) by rw [(hJ 1 0).2.1]; omega)
    have g01 := getLastND_nat 3 (J 0 1) (hJ 0 1).len3 (show i < lastN (J 0 1) by rw [(hJ 0 1).2.1]; omega)
    have g11 := getLastND_nat 3 (J 1 1) (hJ 1 1).len3 (show i < lastN (J 1 1) by rw [(hJ 1 1).2.1]; omega)
    have g20 := getLastND_nat 3 (J 2 0) (hJ 2 0).len3 (show i < lastN (J 2 0) by rw [(hJ 2 0).2.1]; omega)
    have g02 := getLastND_nat 3 (J 0 2) (hJ 0 2).len3 (show i < lastN (J 0 2) by rw [(hJ 0 2).2.1]; omega)
    have g21 := getLastND_nat 3 (J 2 1) (hJ 2 1).len3 (show i < lastN (J 2 1) by rw [(hJ 2 1).2.1]; omega)
    have g12 := getLastND_nat 3 (J 1 2) (hJ 1 2).len3 (show i < lastN (J 1 2) by rw [(hJ 1 2).2.1]; omega)
    have g30 := getLastND_nat 3 (J 3 0) (hJ 3 0).len3 (show i < lastN (J 3 0) by rw [(hJ 3 0).2.1]; omega)
    have g03 := getLastND_nat 3 (J 0 3) (hJ 0 3).len3 (show i < lastN (J 0 3) by rw [(hJ 0 3).2.1]; omega)
    have e10 : (([0, 3] : List Int) = [1, 0]) = False := by decide
    have e01 : (([0, 3] : List Int) = [0, 1]) = False := by decide
    have e11 : (([0, 3] : List Int) = [1, 1]) = False := by decide
    have e20 : (([0, 3] : List Int) = [2, 0]) = False := by decide
    have e02 : (([0, 3] : List Int) = [0, 2]) = False := by decide
    have e30 : (([0, 3] : List Int) = [3, 0]) = False := by decide
    have e03 : (([0, 3] : List Int) = [0, 3]) = True := by decide
    have e21 : (([0, 3] : List Int) = [2, 1]) = False := by decide
    have e12 : (([0, 3] : List Int) = [1, 2]) = False := by decide
    unfold PyOverride.Surface_derivative_loop1
    simp only [g00, g10, g01, g11, g20, g02, g21, g12, g30, g03, e10, e01, e11, e20, e02, e30, e03, e21, e12, ok_bind, pure_eq_ok, bind_ok_eta, if_true, if_false, ofObj_cps,
      show pySum ([0, 3] : List Int) = 3 from by decide, show ((3 : Int) > 2) = True from by decide, getItem_zero, getItem_one, getItem_two, getItem_three, hE,
      getLastND_neg_one 3 (J 2 1) (hJ 2 1).len3 (by rw [(hJ 2 1).2.1]; exact hnc), (hJ 2 1).2.1,
      getLastND_neg_one 3 (J 1 2) (hJ 1 2).len3 (by rw [(hJ 1 2).2.1]; exact hnc), (hJ 1 2).2.1,
      getLastND_neg_one 3 (J 3 0) (hJ 3 0).len3 (by rw [(hJ 3 0).2.1]; exact hnc), (hJ 3 0).2.1,
      getLastND_neg_one 3 (J 0 3) (hJ 0 3).len3 (by rw [(hJ 0 3).2.1]; exact hnc), (hJ 0 3).2.1]
    rfl
  rw [hZl]
  congr 1
  generalize hF : fillN Z _ o.dimension = F
  rw [← hF]
  unfold surfModel
  refine tensor_mk_ext hZsh ?_
  apply Array.ext
  · simp [fillN, hZp, hZl]
  · intro k h1 h2
    have hk : k < m1 * m2 * o.dimension := by simpa using h2
    have hd0 : 0 < o.dimension := by
      rcases Nat.eq_zero_or_pos o.dimension with h | h
      · rw [h] at hk; omega
      · exact h
    have hp : k / o.dimension < m1 * m2 := mod_div_lt hk
    have hc' : k % o.dimension < o.dimension := Nat.mod_lt _ hd0
    simp only [fillN, Array.getElem_ofFn, hZl, hc', if_true, tDiv_get, tMul_get, tSMul_get, tSub_get, tAdd_get,
      tMul_size, tSub_size, tAdd_size, tSMul_size, colOf_size, le_refl, colOf_get, hp, hnc',
      (hJ 0 0).2.1, (hJ 0 0).2.2, (hJ 1 0).2.1, (hJ 1 0).2.2, (hJ 0 1).2.1, (hJ 0 1).2.2, (hJ 1 1).2.1, (hJ 1 1).2.2, (hJ 2 0).2.1, (hJ 2 0).2.2, (hJ 0 2).2.1, (hJ 0 2).2.2, (hJ 2 1).2.1, (hJ 2 1).2.2, (hJ 1 2).2.1, (hJ 1 2).2.2, (hJ 3 0).2.1, (hJ 3 0).2.2, (hJ 0 3).2.1, (hJ 0 3).2.2,
      show nc - 1 = o.dimension by omega, show (3 : ℕ) > 2 ↔ True from by decide, if_true, if_false,
      RatDeriv.surfD, RatDeriv.surfD03, RatDeriv.Surf.H1, RatDeriv.Surf.H2, RatDeriv.Surf.dH1du, RatDeriv.Surf.dH1dv,
      RatDeriv.Surf.dH2du, RatDeriv.Surf.dH2dv, RatDeriv.Surf.G1, RatDeriv.Surf.G2, RatDeriv.Surf.d2H1du,
      RatDeriv.Surf.d2H1duv, RatDeriv.Surf.d2H2dv, RatDeriv.Surf.d2H2duv, RatDeriv.Surf.dG1du, RatDeriv.Surf.dG1dv,
      RatDeriv.Surf.dG2du, RatDeriv.Surf.dG2dv]

/-- The loop of `Surface.derivative` for `derivs = (2, 1)` fills the result with the model's closed form. -/
theorem surf_loop_21 (o : Obj K) (tol : K) (Nu Nv : ℕ → Mat K) (J : ℕ → ℕ → Tensor K) (m1 m2 nc : ℕ)
    (hdim : o.dimension + 1 = nc) (hnc' : o.ncomp = nc) (hnc : 1 ≤ nc) (hJ : ∀ a b, JetOK (J a b) m1 m2 nc)
    (hE : ∀ a b, PyObject.evaluate_fn [Nu a, Nv b] o.cps true = .ok (J a b))
    (Z : Tensor K) (hZsh : Z.shape = [m1, m2, o.dimension]) (hZs : Z.data.size = nPts Z * lastN Z) :
    forRange 0 (o.dimension : Int) Z
      (PyOverride.Surface_derivative_loop1 (ofObj o) tol true [2, 1] [Nu 0, Nu 1, Nu 2, Nu 3] [Nv 0, Nv 1, Nv 2, Nv 3]
        (J 0 0) (J 1 0) (J 0 1) (J 1 1) (J 2 0) (J 0 2) (colOf (J 0 0) (nc - 1)) (colOf (J 1 0) (nc - 1))
        (colOf (J 0 1) (nc - 1)) (colOf (J 1 1) (nc - 1)) (colOf (J 2 0) (nc - 1)) (colOf (J 0 2) (nc - 1)))
      = .ok (surfModel o J m1 m2 2 1) := by
  have hZl : lastN Z = o.dimension := by unfold lastN; rw [hZsh]; rfl
  have hZp : nPts Z = m1 * m2 := by unfold nPts; rw [hZsh]; simp [Tensor.prod]
  rw [← hZl]
  rw [forRange_fill 3 Z ?col (by rw [hZsh]; rfl) hZs]
  case hf =>
    intro i hi
    rw [hZl] at hi
    have g00 := getLastND_nat 3 (J 0 0) (hJ 0 0).len3 (show i < lastN (J 0 0) by rw [(hJ 0 0).2.1]; omega)
    have g10 := getLastND_nat 3 (J 1 0) (hJ 1 0).len3 (show i < lastN (J 1 0) by rw [(hJ 1 0).2.1]; omega)
    have g01 := getLastND_nat 3 (J 0 1) (hJ 0 1).len3 (show i < lastN (J 0 1) by rw [(hJ 0 1).2.1]; omega)
    have g11 := getLastND_nat 3 (J 1 1) (hJ 1 1).len3 (show i < lastN (J 1 1) by rw [(hJ 1 1).2.1]; omega)
    have g20 := getLastND_nat 3 (J 2 0) (hJ 2 0).len3 (show i < lastN (J 2 0) by rw [(hJ 2 0).2.1]; omega)
    have g02 := getLastND_nat 3 (J 0 2) (hJ 0 2).len3 (show i < lastN (J 0 2) by rw [(hJ 0 2).2.1]; omega)
    have g21 := getLastND_nat 3 (J 2 1) (hJ 2 1).len3 (show i < lastN (J 2 1) by rw [(hJ 2 1).2.1]; omega)
    have g12 := getLastND_nat 3 (J 1 2) (hJ 1 2).len3 (show i < lastN (J 1 2) by rw [(hJ 1 2).2.1]; omega)
    have g30 := getLastND_nat 3 (J 3 0) (hJ 3 0).len3 (show i < lastN (J 3 0) by rw [(hJ 3 0).2.1]; omega)
    have g03 := getLastND_nat 3 (J 0 3) (hJ 0 3).len3 (show i < lastN (J 0 3) by rw [(hJ 0 3).2.1]; omega)
    have e10 : (([2, 1] : List Int) = [1, 0]) = False := by decide
    have e01 : (([2, 1] : List Int) = [0, 1]) = False := by decide
    have e11 : (([2, 1] : List Int) = [1, 1]) = False := by decide
    have e20 : (([2, 1] : List Int) = [2, 0]) = False := by decide
    have e02 : (([2, 1] : List Int) = [0, 2]) = False := by decide
    have e30 : (([2, 1] : List Int) = [3, 0]) = False := by decide
    have e03 : (([2, 1] : List Int) = [0, 3]) = False := by decide
    have e21 : (([2, 1] : List Int) = [2, 1]) = True := by decide
    have e12 : (([2, 1] : List Int) = [1, 2]) = False := by decide
    unfold PyOverride.Surface_derivative_loop1
    simp only [g00, g10, g01, g11, g20, g02, g21, g12, g30, g03, e10, e01, e11, e20, e02, e30, e03, e21, e12, ok_bind, pure_eq_ok, bind_ok_eta, if_true, if_false, ofObj_cps,
      show pySum ([2, 1] : List Int) = 3 from by decide, show ((3 : Int) > 2) = True from by decide, getItem_zero, getItem_one, getItem_two, getItem_three, hE,
      getLastND_neg_one 3 (J 2 1) (hJ 2 1).len3 (by rw [(hJ 2 1).2.1]; exact hnc), (hJ 2 1).2.1,
      getLastND_neg_one 3 (J 1 2) (hJ 1 2).len3 (by rw [(hJ 1 2).2.1]; exact hnc), (hJ 1 2).2.1,
      getLastND_neg_one 3 (J 3 0) (hJ 3 0).len3 (by rw [(hJ 3 0).2.1]; exact hnc), (hJ 3 0).2.1,
      getLastND_neg_one 3 (J 0 3) (hJ 0 3).len3 (by rw [(hJ 0 3).2.1]; exact hnc), (hJ 0 3).2.1]
    rfl
  rw [hZl]
  congr 1
  generalize hF : fillN Z _ o.dimension = F
  rw [← hF]
  unfold surfModel
  refine tensor_mk_ext hZsh ?_
  apply Array.ext
  · simp [fillN, hZp, hZl]
  · intro k h1 h2
    have hk : k < m1 * m2 * o.dimension := by simpa using h2
    have hd0 : 0 < o.dimension := by
      rcases Nat.eq_zero_or_pos o.dimension with h | h
      · rw [h] at hk; omega
      · exact h
    have hp : k / o.dimension < m1 * m2 := mod_div_lt hk
    have hc' : k % o.dimension < o.dimension := Nat.mod_lt _ hd0
    simp only [fillN, Array.getElem_ofFn, hZl, hc', if_true, tDiv_get, tMul_get, tSMul_get, tSub_get, tAdd_get,
      tMul_size, tSub_size, tAdd_size, tSMul_size, colOf_size, le_refl, colOf_get, hp, hnc',
      (hJ 0 0).2.1, (hJ 0 0).2.2, (hJ 1 0).2.1, (hJ 1 0).2.2, (hJ 0 1).2.1, (hJ 0 1).2.2, (hJ 1 1).2.1, (hJ 1 1).2.2, (hJ 2 0).2.1, (hJ 2 0).2.2, (hJ 0 2).2.1, (hJ 0 2).2.2, (hJ 2 1).2.1, (hJ 2 1).2.2, (hJ 1 2).2.1, (hJ 1 2).2.2, (hJ 3 0).2.1, (hJ 3 0).2.2, (hJ 0 3).2.1, (hJ 0 3).2.2,
      show nc - 1 = o.dimension by omega, show (3 : ℕ) > 2 ↔ True from by decide, if_true, if_false,
      RatDeriv.surfD, RatDeriv.surfD21, RatDeriv.Surf.H1, RatDeriv.Surf.H2, RatDeriv.Surf.dH1du, RatDeriv.Surf.dH1dv,
      RatDeriv.Surf.dH2du, RatDeriv.Surf.dH2dv, RatDeriv.Surf.G1, RatDeriv.Surf.G2, RatDeriv.Surf.d2H1du,
      RatDeriv.Surf.d2H1duv, RatDeriv.Surf.d2H2dv, RatDeriv.Surf.d2H2duv, RatDeriv.Surf.dG1du, RatDeriv.Surf.dG1dv,
      RatDeriv.Surf.dG2du, RatDeriv.Surf.dG2dv]

/-- The loop of `Surface.derivative` for `derivs = (1, 2)` fills the result with the model's closed form. -/
theorem surf_loop_12 (o : Obj K) (tol : K) (Nu Nv : ℕ → Mat K) (J : ℕ → ℕ → Tensor K) (m1 m2 nc : ℕ)
    (hdim : o.dimension + 1 = nc) (hnc' : o.ncomp = nc) (hnc : 1 ≤ nc) (hJ : ∀ a b, JetOK (J a b) m1 m2 nc)
    (hE : ∀ a b, PyObject.evaluate_fn [Nu a, Nv b] o.cps true = .ok (J a b))
    (Z : Tensor K) (hZsh : Z.shape = [m1, m2, o.dimension]) (hZs : Z.data.size = nPts Z * lastN Z) :
    forRange 0 (o.dimension : Int) Z
      (PyOverride.Surface_derivative_loop1 (ofObj o) tol true [1, 2] [Nu 0, Nu 1, Nu 2, Nu 3] [Nv 0, Nv 1, Nv 2, Nv 3]
        (J 0 0) (J 1 0) (J 0 1) (J 1 1) (J 2 0) (J 0 2) (colOf (J 0 0) (nc - 1)) (colOf (J 1 0) (nc - 1))
        (colOf (J 0 1) (nc - 1)) (colOf (J 1 1) (nc - 1)) (colOf (J 2 0) (nc - 1)) (colOf (J 0 2) (nc - 1)))
      = .ok (surfModel o J m1 m2 1 2) := by
  have hZl : lastN Z = o.dimension := by unfold lastN; rw [hZsh]; rfl
  have hZp : nPts Z = m1 * m2 := by unfold nPts; rw [hZsh]; simp [Tensor.prod]
  rw [← hZl]
  rw [forRange_fill 3 Z ?col (by rw [hZsh]; rfl) hZs]
  case hf =>
    intro i hi
    rw [hZl] at hi
    have g00 := getLastND_nat 3 (J 0 0) (hJ 0 0).len3 (show i < lastN (J 0 0) by rw [(hJ 0 0).2.1]; omega)
    have g10 := getLastND_nat 3 (J 1 0) (hJ 1 0).len3 (show i < lastN (J 1 0) by rw [(hJ 1 0).2.1]; omega)
    have g01 := getLastND_nat 3 (J 0 1) (hJ 0 1).len3 (show i < lastN (J 0 1) by rw [(hJ 0 1).2.1]; omega)
    have g11 := getLastND_nat 3 (J 1 1) (hJ 1 1).len3 (show i < lastN (J 1 1) by rw [(hJ 1 1).2.1]; omega)
    have g20 := getLastND_nat 3 (J 2 0) (hJ 2 0).len3 (show i < lastN (J 2 0) by rw [(hJ 2 0).2.1]; omega)
    have g02 := getLastND_nat 3 (J 0 2) (hJ 0 2).len3 (show i < lastN (J 0 2) by rw [(hJ 0 2).2.1]; omega)
    have g21 := getLastND_nat 3 (J 2 1) (hJ 2 1).len3 (show i < lastN (J 2 1) by rw [(hJ 2 1).2.1]; omega)
    have g12 := getLastND_nat 3 (J 1 2) (hJ 1 2).len3 (show i < lastN (J 1 2) by rw [(hJ 1 2).2.1]; omega)
    have g30 := getLastND_nat 3 (J 3 0) (hJ 3 0).len3 (show i < lastN (J 3 0) by rw [(hJ 3 0).2.1]; omega)
    have g03 := getLastND_nat 3 (J 0 3) (hJ 0 3).len3 (show i < lastN (J 0 3) by rw [(hJ 0 3).2.1]; omega)
    have e10 : (([1, 2] : List Int) = [1, 0]) = False := by decide
    have e01 : (([1, 2] : List Int) = [0, 1]) = False := by decide
    have e11 : (([1, 2] : List Int) = [1, 1]) = False := by decide
    have e20 : (([1, 2] : List Int) = [2, 0]) = False := by decide
    have e02 : (([1, 2] : List Int) = [0, 2]) = False := by decide
    have e30 : (([1, 2] : List Int) = [3, 0]) = False := by decide
    have e03 : (([1, 2] : List Int) = [0, 3]) = False := by decide
    have e21 : (([1, 2] : List Int) = [2, 1]) = False := by decide
    have e12 : (([1, 2] : List Int) = [1, 2]) = True := by decide
    unfold PyOverride.Surface_derivative_loop1
    simp only [g00, g10, g01, g11, g20, g02, g21, g12, g30, g03, e10, e01, e11, e20, e02, e30, e03, e21, e12, ok_bind, pure_eq_ok, bind_ok_eta, if_true, if_false, ofObj_cps,
      show pySum ([1, 2] : List Int) = 3 from by decide, show ((3 : Int) > 2) = True from by decide, getItem_zero, getItem_one, getItem_two, getItem_three, hE,
      getLastND_neg_one 3 (J 2 1) (hJ 2 1).len3 (by rw [(hJ 2 1).2.1]; exact hnc), (hJ 2 1).2.1,
      getLastND_neg_one 3 (J 1 2) (hJ 1 2).len3 (by rw [(hJ 1 2).2.1]; exact hnc), (hJ 1 2).2.1,
      getLastND_neg_one 3 (J 3 0) (hJ 3 0).len3 (by rw [(hJ 3 0).2.1]; exact hnc), (hJ 3 0).2.1,
      getLastND_neg_one 3 (J 0 3) (hJ 0 3).len3 (by rw [(hJ 0 3).2.1]; exact hnc), (hJ 0 3).2.1]
    rfl
  rw [hZl]
  congr 1
  generalize hF : fillN Z _ o.dimension = F
  rw [← hF]
  unfold surfModel
  refine tensor_mk_ext hZsh ?_
  apply Array.ext
  · simp [fillN, hZp, hZl]
  · intro k h1 h2
    have hk : k < m1 * m2 * o.dimension := by simpa using h2
    have hd0 : 0 < o.dimension := by
      rcases Nat.eq_zero_or_pos o.dimension with h | h
      · rw [h] at hk; omega
      · exact h
    have hp : k / o.dimension < m1 * m2 := mod_div_lt hk
    have hc' : k % o.dimension < o.dimension := Nat.mod_lt _ hd0
    simp only [fillN, Array.getElem_ofFn, hZl, hc', if_true, tDiv_get, tMul_get, tSMul_get, tSub_get, tAdd_get,
      tMul_size, tSub_size, tAdd_size, tSMul_size, colOf_size, le_refl, colOf_get, hp, hnc',
      (hJ 0 0).2.1, (hJ 0 0).2.2, (hJ 1 0).2.1, (hJ 1 0).2.2, (hJ 0 1).2.1, (hJ 0 1).2.2, (hJ 1 1).2.1, (hJ 1 1).2.2, (hJ 2 0).2.1, (hJ 2 0).2.2, (hJ 0 2).2.1, (hJ 0 2).2.2, (hJ 2 1).2.1, (hJ 2 1).2.2, (hJ 1 2).2.1, (hJ 1 2).2.2, (hJ 3 0).2.1, (hJ 3 0).2.2, (hJ 0 3).2.1, (hJ 0 3).2.2,
      show nc - 1 = o.dimension by omega, show (3 : ℕ) > 2 ↔ True from by decide, if_true, if_false,
      RatDeriv.surfD, RatDeriv.surfD12, RatDeriv.Surf.H1, RatDeriv.Surf.H2, RatDeriv.Surf.dH1du, RatDeriv.Surf.dH1dv,
      RatDeriv.Surf.dH2du, RatDeriv.Surf.dH2dv, RatDeriv.Surf.G1, RatDeriv.Surf.G2, RatDeriv.Surf.d2H1du,
      RatDeriv.Surf.d2H1duv, RatDeriv.Surf.d2H2dv, RatDeriv.Surf.d2H2duv, RatDeriv.Surf.dG1du, RatDeriv.Surf.dG1dv,
      RatDeriv.Surf.dG2du, RatDeriv.Surf.dG2dv]

theorem surf_seq_loop1 : @PyOverride.Surface_derivative_seq_loop1 K _ _ _ = @PyOverride.Surface_derivative_loop1 K _ _ _ := rfl

/-- `Surface.derivative` up to its loop, for a multi-index `D` of total order 2: everything except the loop body is
independent of `D`. -/
theorem surf_main_2 (o : Obj K) (tol : K) (u v : Param K) (fu fv : Bool) (D : List Int) (du dv : ℕ)
    {n1 n2 nc : ℕ} (hs : o.cps.shape = [n1, n2, nc]) (hb : 2 ≤ o.bases.size) (hr : o.rational = true) (hnc : 1 ≤ nc)
    (hder : ensure_listlike_dups D 2 = D) (hsum : pySum D = 2)
    (hloop : ∀ (Nu Nv : ℕ → Mat K) (J : ℕ → ℕ → Tensor K) (m1 m2 nc : ℕ),
      o.dimension + 1 = nc → o.ncomp = nc → 1 ≤ nc → (∀ a b, JetOK (J a b) m1 m2 nc) →
      (∀ a b, PyObject.evaluate_fn [Nu a, Nv b] o.cps true = .ok (J a b)) →
      ∀ (Z : Tensor K), Z.shape = [m1, m2, o.dimension] → Z.data.size = nPts Z * lastN Z →
      forRange 0 (o.dimension : Int) Z
        (PyOverride.Surface_derivative_loop1 (ofObj o) tol true D [Nu 0, Nu 1, Nu 2] [Nv 0, Nv 1, Nv 2]
          (J 0 0) (J 1 0) (J 0 1) (J 1 1) (J 2 0) (J 0 2) (colOf (J 0 0) (nc - 1)) (colOf (J 1 0) (nc - 1))
          (colOf (J 0 1) (nc - 1)) (colOf (J 1 1) (nc - 1)) (colOf (J 2 0) (nc - 1)) (colOf (J 0 2) (nc - 1)))
        = .ok (surfModel o J m1 m2 du dv)) :
    PyOverride.Surface_derivative_seq (ofObj o) tol u v D [fu, fv] true = (do
      let r ← (.ok (surfModel o (fun a b => Obj.contractGrid
        [Obj.basisMat (o.bases.getD 0 default) tol (ensure_listlike u) a fu,
         Obj.basisMat (o.bases.getD 1 default) tol (ensure_listlike v) b fv] o.cps)
        (ensure_listlike u).length (ensure_listlike v).length du dv) : PyM (Tensor K))
      if is_singleton u ∧ is_singleton v then npReshape r [((o.dimension : ℕ) : Int)] else pure r) := by
  unfold PyOverride.Surface_derivative_seq
  simp only [pure_eq_ok]
  rw [listComp_ok [u, v] _ is_singleton (fun _ _ => rfl), ok_bind]
  have hpd : PyObject.pardim (ofObj o) tol = .ok (2 : Int) := by
    rw [PyObject_pardim_eq o tol (by rw [hs]; simp)]; unfold Obj.pardim; rw [hs]; rfl
  simp only [hpd, ok_bind]
  have hab : ensure_listlike_dups [fu, fv] (2 : Int) = [fu, fv] := by simp [ensure_listlike_dups]
  simp only [hder, hab, hsum]
  have hc : ¬ (((¬ ((ofObj o).rational = true)) ∨ ((2 : Int) < (2 : Int))) ∨ ((2 : Int) > (3 : Int))) := by
    simp [hr]
  rw [if_neg hc]
  simp only [ofObj_bases, ofObj_cps, ofObj_dimension]
  have hz := npZeros_nat (K := K) [(ensure_listlike u).length, (ensure_listlike v).length, o.dimension]
  simp only [List.map_cons, List.map_nil] at hz
  simp only [len, hz, ok_bind, getBasis_zero o.bases (by omega), getBasis_one o.bases hb, getItem_zero, getItem_one,
    show (2 : Int) + 1 = 3 from rfl, rangeI_0_3, listComp, pure_eq_ok, getItem_two, getItem_three, basisEvaluate,
    show (3 : Int).toNat = 3 from rfl, show (2 : Int).toNat = 2 from rfl,
    show (1 : Int).toNat = 1 from rfl, show (0 : Int).toNat = 0 from rfl]
  simp only [evalfn2 _ _ o.cps (by rw [hs]; rfl), ok_bind]
  have hdim : o.dimension + 1 = nc := by
    unfold Obj.dimension Obj.ncomp; rw [hs, hr]; simp; omega
  have hnc' : o.ncomp = nc := by unfold Obj.ncomp; rw [hs]; rfl
  have hJ : ∀ a b, JetOK (Obj.contractGrid [Obj.basisMat (o.bases.getD 0 default) tol (ensure_listlike u) a fu,
      Obj.basisMat (o.bases.getD 1 default) tol (ensure_listlike v) b fv] o.cps)
        (ensure_listlike u).length (ensure_listlike v).length nc :=
    fun a b => jet2_facts _ _ o.cps hs (basisMat_size _ _ _ _ _) (basisMat_size _ _ _ _ _)
  rw [getLastND_neg_one 3 _ (hJ 0 0).len3 (by rw [(hJ 0 0).2.1]; exact hnc),
    getLastND_neg_one 3 _ (hJ 1 0).len3 (by rw [(hJ 1 0).2.1]; exact hnc),
    getLastND_neg_one 3 _ (hJ 0 1).len3 (by rw [(hJ 0 1).2.1]; exact hnc),
    getLastND_neg_one 3 _ (hJ 1 1).len3 (by rw [(hJ 1 1).2.1]; exact hnc),
    getLastND_neg_one 3 _ (hJ 2 0).len3 (by rw [(hJ 2 0).2.1]; exact hnc),
    getLastND_neg_one 3 _ (hJ 0 2).len3 (by rw [(hJ 0 2).2.1]; exact hnc)]
  simp only [ok_bind, (hJ _ _).2.1]
  have := hloop (fun a => Obj.basisMat (o.bases.getD 0 default) tol (ensure_listlike u) a fu)
    (fun b => Obj.basisMat (o.bases.getD 1 default) tol (ensure_listlike v) b fv)
    (fun a b => Obj.contractGrid [Obj.basisMat (o.bases.getD 0 default) tol (ensure_listlike u) a fu,
      Obj.basisMat (o.bases.getD 1 default) tol (ensure_listlike v) b fv] o.cps)
    (ensure_listlike u).length (ensure_listlike v).length nc hdim hnc' hnc hJ
    (fun a b => evalfn2 _ _ o.cps (by rw [hs]; rfl))
    { shape := [(ensure_listlike u).length, (ensure_listlike v).length, o.dimension],
      data := Array.replicate (Tensor.prod [(ensure_listlike u).length, (ensure_listlike v).length, o.dimension]) 0 }
    rfl (by simp [nPts, lastN, Tensor.prod])
  rw [surf_seq_loop1, this]
  simp only [ok_bind, pyAll, List.map_cons, List.map_nil, List.all_cons, List.all_nil, Bool.and_true, id,
    Bool.and_eq_true]
  split_ifs <;> simp only [bind_ok_eta, ok_bind]

/-- `Surface.derivative` up to its loop, for a multi-index `D` of total order 3: everything except the loop body is
independent of `D`. -/
theorem surf_main_3 (o : Obj K) (tol : K) (u v : Param K) (fu fv : Bool) (D : List Int) (du dv : ℕ)
    {n1 n2 nc : ℕ} (hs : o.cps.shape = [n1, n2, nc]) (hb : 2 ≤ o.bases.size) (hr : o.rational = true) (hnc : 1 ≤ nc)
    (hder : ensure_listlike_dups D 2 = D) (hsum : pySum D = 3)
    (hloop : ∀ (Nu Nv : ℕ → Mat K) (J : ℕ → ℕ → Tensor K) (m1 m2 nc : ℕ),
      o.dimension + 1 = nc → o.ncomp = nc → 1 ≤ nc → (∀ a b, JetOK (J a b) m1 m2 nc) →
      (∀ a b, PyObject.evaluate_fn [Nu a, Nv b] o.cps true = .ok (J a b)) →
      ∀ (Z : Tensor K), Z.shape = [m1, m2, o.dimension] → Z.data.size = nPts Z * lastN Z →
      forRange 0 (o.dimension : Int) Z
        (PyOverride.Surface_derivative_loop1 (ofObj o) tol true D [Nu 0, Nu 1, Nu 2, Nu 3] [Nv 0, Nv 1, Nv 2, Nv 3]
          (J 0 0) (J 1 0) (J 0 1) (J 1 1) (J 2 0) (J 0 2) (colOf (J 0 0) (nc - 1)) (colOf (J 1 0) (nc - 1))
          (colOf (J 0 1) (nc - 1)) (colOf (J 1 1) (nc - 1)) (colOf (J 2 0) (nc - 1)) (colOf (J 0 2) (nc - 1)))
        = .ok (surfModel o J m1 m2 du dv)) :
    PyOverride.Surface_derivative_seq (ofObj o) tol u v D [fu, fv] true = (do
      let r ← (.ok (surfModel o (fun a b => Obj.contractGrid
        [Obj.basisMat (o.bases.getD 0 default) tol (ensure_listlike u) a fu,
         Obj.basisMat (o.bases.getD 1 default) tol (ensure_listlike v) b fv] o.cps)
        (ensure_listlike u).length (ensure_listlike v).length du dv) : PyM (Tensor K))
      if is_singleton u ∧ is_singleton v then npReshape r [((o.dimension : ℕ) : Int)] else pure r) := by
  unfold PyOverride.Surface_derivative_seq
  simp only [pure_eq_ok]
  rw [listComp_ok [u, v] _ is_singleton (fun _ _ => rfl), ok_bind]
  have hpd : PyObject.pardim (ofObj o) tol = .ok (2 : Int) := by
    rw [PyObject_pardim_eq o tol (by rw [hs]; simp)]; unfold Obj.pardim; rw [hs]; rfl
  simp only [hpd, ok_bind]
  have hab : ensure_listlike_dups [fu, fv] (2 : Int) = [fu, fv] := by simp [ensure_listlike_dups]
  simp only [hder, hab, hsum]
  have hc : ¬ (((¬ ((ofObj o).rational = true)) ∨ ((3 : Int) < (2 : Int))) ∨ ((3 : Int) > (3 : Int))) := by
    simp [hr]
  rw [if_neg hc]
  simp only [ofObj_bases, ofObj_cps, ofObj_dimension]
  have hz := npZeros_nat (K := K) [(ensure_listlike u).length, (ensure_listlike v).length, o.dimension]
  simp only [List.map_cons, List.map_nil] at hz
  simp only [len, hz, ok_bind, getBasis_zero o.bases (by omega), getBasis_one o.bases hb, getItem_zero, getItem_one,
    show (3 : Int) + 1 = 4 from rfl, rangeI_0_4, listComp, pure_eq_ok, getItem_two, getItem_three, basisEvaluate,
    show (3 : Int).toNat = 3 from rfl, show (2 : Int).toNat = 2 from rfl,
    show (1 : Int).toNat = 1 from rfl, show (0 : Int).toNat = 0 from rfl]
  simp only [evalfn2 _ _ o.cps (by rw [hs]; rfl), ok_bind]
  have hdim : o.dimension + 1 = nc := by
    unfold Obj.dimension Obj.ncomp; rw [hs, hr]; simp; omega
  have hnc' : o.ncomp = nc := by unfold Obj.ncomp; rw [hs]; rfl
  have hJ : ∀ a b, JetOK (Obj.contractGrid [Obj.basisMat (o.bases.getD 0 default) tol (ensure_listlike u) a fu,
      Obj.basisMat (o.bases.getD 1 default) tol (ensure_listlike v) b fv] o.cps)
        (ensure_listlike u).length (ensure_listlike v).length nc :=
    fun a b => jet2_facts _ _ o.cps hs (basisMat_size _ _ _ _ _) (basisMat_size _ _ _ _ _)
  rw [getLastND_neg_one 3 _ (hJ 0 0).len3 (by rw [(hJ 0 0).2.1]; exact hnc),
    getLastND_neg_one 3 _ (hJ 1 0).len3 (by rw [(hJ 1 0).2.1]; exact hnc),
    getLastND_neg_one 3 _ (hJ 0 1).len3 (by rw [(hJ 0 1).2.1]; exact hnc),
    getLastND_neg_one 3 _ (hJ 1 1).len3 (by rw [(hJ 1 1).2.1]; exact hnc),
    getLastND_neg_one 3 _ (hJ 2 0).len3 (by rw [(hJ 2 0).2.1]; exact hnc),
    getLastND_neg_one 3 _ (hJ 0 2).len3 (by rw [(hJ 0 2).2.1]; exact hnc)]
  simp only [ok_bind, (hJ _ _).2.1]
  have := hloop (fun a => Obj.basisMat (o.bases.getD 0 default) tol (ensure_listlike u) a fu)
    (fun b => Obj.basisMat (o.bases.getD 1 default) tol (ensure_listlike v) b fv)
    (fun a b => Obj.contractGrid [Obj.basisMat (o.bases.getD 0 default) tol (ensure_listlike u) a fu,
      Obj.basisMat (o.bases.getD 1 default) tol (ensure_listlike v) b fv] o.cps)
    (ensure_listlike u).length (ensure_listlike v).length nc hdim hnc' hnc hJ
    (fun a b => evalfn2 _ _ o.cps (by rw [hs]; rfl))
    { shape := [(ensure_listlike u).length, (ensure_listlike v).length, o.dimension],
      data := Array.replicate (Tensor.prod [(ensure_listlike u).length, (ensure_listlike v).length, o.dimension]) 0 }
    rfl (by simp [nPts, lastN, Tensor.prod])
  rw [surf_seq_loop1, this]
  simp only [ok_bind, pyAll, List.map_cons, List.map_nil, List.all_cons, List.all_nil, Bool.and_true, id,
    Bool.and_eq_true]
  split_ifs <;> simp only [bind_ok_eta, ok_bind]

/-- `Obj.surfaceDerivativeRational` on a tensor grid is `surfModel` of its jets. -/
theorem surfaceDerivativeRational_model (o : Obj K) (tol : K) (us vs : List K) (du dv : ℕ) (fu fv : Bool) :
    o.surfaceDerivativeRational tol us vs du dv fu fv true = .ok (surfModel o (fun a b => Obj.contractGrid
      [Obj.basisMat (o.bases.getD 0 default) tol us a fu, Obj.basisMat (o.bases.getD 1 default) tol vs b fv] o.cps)
      us.length vs.length du dv) := by
  unfold Obj.surfaceDerivativeRational surfModel Obj.basis
  simp only [Bool.not_true, Bool.false_eq_true, if_false, if_true]
  rfl

theorem surfaceOutcome_pair_closed (du dv : ℕ)
    (hmem : (du, dv) ∈ [(1, 1), (2, 0), (0, 2), (3, 0), (0, 3), (2, 1), (1, 2)]) :
    surfaceOutcome true (.lst [du, dv]) = .closed [du, dv] := by
  simp only [List.mem_cons, Prod.mk.injEq, List.mem_nil_iff, or_false] at hmem
  rcases hmem with ⟨rfl, rfl⟩ | ⟨rfl, rfl⟩ | ⟨rfl, rfl⟩ | ⟨rfl, rfl⟩ | ⟨rfl, rfl⟩ | ⟨rfl, rfl⟩ | ⟨rfl, rfl⟩ <;> decide

theorem surfaceOutcome_pair_generic (r : Bool) (du dv : ℕ) (h : r = false ∨ du + dv < 2 ∨ du + dv > 3) :
    surfaceOutcome r (.lst [du, dv]) = .generic [du, dv] := by
  have hder : ((DSpec.lst [du, dv]).ensureListlike 2).toTuple = DSpec.tup [du, dv] := by
    simp [DSpec.ensureListlike, padLast, DSpec.toTuple]
  unfold surfaceOutcome
  rw [hder]
  have hs : (DSpec.tup [du, dv]).items.sum = du + dv := by simp [DSpec.items]
  have hg : (!r || decide ((DSpec.tup [du, dv]).items.sum < 2) || decide ((DSpec.tup [du, dv]).items.sum > 3)) = true := by
    rw [hs]
    rcases h with h | h | h
    · simp [h]
    · simp [h]
    · simp [h]
  simp only [hg, if_true]
  simp [DSpec.ensureListlike, DSpec.items]

end surface_derivative

/-! ### method: Surface.derivative_seq -/

section surface_derivative_seq

variable [FloorRing K]

/-- **`Surface.derivative`, rational closed forms, `above` a pair of bools** (one side per direction; the seven
multi-indices of total order 2 and 3; `tensor=True`) = the model's `Obj.surfaceDerivativeRational`, followed by the
squeeze of a single point.  Guards: 3-d control net, two bases, `ncomp ≥ 1`. -/
theorem _root_.PyOverride_Surface_derivative_seq_closed_eq (o : Obj K) (tol : K) (u v : Param K) (fu fv : Bool) (du dv : ℕ)
    {n1 n2 nc : ℕ} (hs : o.cps.shape = [n1, n2, nc]) (hb : 2 ≤ o.bases.size) (hr : o.rational = true) (hnc : 1 ≤ nc)
    (hd : (du, dv) ∈ [(1, 1), (2, 0), (0, 2), (3, 0), (0, 3), (2, 1), (1, 2)]) :
    PyOverride.Surface_derivative_seq (ofObj o) tol u v [(du : Int), (dv : Int)] [fu, fv] true = (do
      let r ← o.surfaceDerivativeRational tol (ensure_listlike u) (ensure_listlike v) du dv fu fv true
      if is_singleton u ∧ is_singleton v then npReshape r [((o.dimension : ℕ) : Int)] else pure r) := by
  rw [surfaceDerivativeRational_model]
  simp only [List.mem_cons, Prod.mk.injEq, List.mem_nil_iff, or_false] at hd
  rcases hd with ⟨rfl, rfl⟩ | ⟨rfl, rfl⟩ | ⟨rfl, rfl⟩ | ⟨rfl, rfl⟩ | ⟨rfl, rfl⟩ | ⟨rfl, rfl⟩ | ⟨rfl, rfl⟩
  · exact surf_main_2 o tol u v fu fv [1, 1] 1 1 hs hb hr hnc (by decide) (by decide) (surf_loop_11 o tol)
  · exact surf_main_2 o tol u v fu fv [2, 0] 2 0 hs hb hr hnc (by decide) (by decide) (surf_loop_20 o tol)
  · exact surf_main_2 o tol u v fu fv [0, 2] 0 2 hs hb hr hnc (by decide) (by decide) (surf_loop_02 o tol)
  · exact surf_main_3 o tol u v fu fv [3, 0] 3 0 hs hb hr hnc (by decide) (by decide) (surf_loop_30 o tol)
  · exact surf_main_3 o tol u v fu fv [0, 3] 0 3 hs hb hr hnc (by decide) (by decide) (surf_loop_03 o tol)
  · exact surf_main_3 o tol u v fu fv [2, 1] 2 1 hs hb hr hnc (by decide) (by decide) (surf_loop_21 o tol)
  · exact surf_main_3 o tol u v fu fv [1, 2] 1 2 hs hb hr hnc (by decide) (by decide) (surf_loop_12 o tol)

/-- **`Surface.derivative`, dispatch to the generic path** (`not rational or sum(derivs) < 2 or sum(derivs) > 3`):
forwarded to the translated `SplineObject.derivative` with `d = derivs`, `above = ensure_listlike(above, 2)`. -/
theorem _root_.PyOverride_Surface_derivative_seq_generic_eq (o : Obj K) (tol : K) (u v : Param K) (D : List Int)
    (A : List Bool) (tensor : Bool) {n1 n2 nc : ℕ} (hs : o.cps.shape = [n1, n2, nc])
    (h : ¬ (o.rational = true) ∨ pySum (ensure_listlike_dups D 2) < 2 ∨ pySum (ensure_listlike_dups D 2) > 3) :
    PyOverride.Surface_derivative_seq (ofObj o) tol u v D A tensor =
      PyObject.derivative (ofObj o) tol [u, v] (some (ensure_listlike_dups D 2)) (some (ensure_listlike_dups A 2))
        (some tensor) := by
  unfold PyOverride.Surface_derivative_seq
  simp only [pure_eq_ok]
  rw [listComp_ok [u, v] _ is_singleton (fun _ _ => rfl), ok_bind]
  have hpd : PyObject.pardim (ofObj o) tol = .ok (2 : Int) := by
    rw [PyObject_pardim_eq o tol (by rw [hs]; simp)]; unfold Obj.pardim; rw [hs]; rfl
  simp only [hpd, ok_bind]
  have hc : (((¬ ((ofObj o).rational = true)) ∨ (pySum (ensure_listlike_dups D 2) < (2 : Int))) ∨
      (pySum (ensure_listlike_dups D 2) > (3 : Int))) := by
    rcases h with h | h | h
    · exact Or.inl (Or.inl h)
    · exact Or.inl (Or.inr h)
    · exact Or.inr h
  rw [if_pos hc]

/-- **`Surface.derivative(u, v, d=(du, dv), above=(fu, fv), tensor=True)`** = the hand model's
`Obj.surfaceDerivativeWith surfaceOutcome` (dispatch + generic path + the seven closed forms), followed by the squeeze
of a single point.  Guards: a surface (3-d control net, exactly two bases), `ncomp ≥ 1`, and — for the generic path
only, as in `PyObject_derivative_eq` — non-empty parameter lists in non-periodic directions (MODEL/CODE GAP of t3). -/
theorem _root_.PyOverride_Surface_derivative_seq_eq (o : Obj K) (tol : K) (u v : Param K) (fu fv : Bool) (du dv : ℕ)
    {n1 n2 nc : ℕ} (hs : o.cps.shape = [n1, n2, nc]) (hb : o.bases.size = 2) (hnc : 1 ≤ nc)
    (hne : ∀ x ∈ List.zip o.bases.toList [ensure_listlike u, ensure_listlike v], x.1.periodic < 0 → x.2 ≠ []) :
    PyOverride.Surface_derivative_seq (ofObj o) tol u v [(du : Int), (dv : Int)] [fu, fv] true = (do
      let r ← o.surfaceDerivativeWith surfaceOutcome tol (ensure_listlike u) (ensure_listlike v) (.lst [du, dv])
        (.seq [fu, fv]) true
      if is_singleton u ∧ is_singleton v then npReshape r [((o.dimension : ℕ) : Int)] else pure r) := by
  have hnc' : o.ncomp = nc := by unfold Obj.ncomp; rw [hs]; rfl
  have hpd : o.pardim = 2 := by unfold Obj.pardim; rw [hs]; rfl
  have hD : ensure_listlike_dups [(du : Int), (dv : Int)] 2 = [(du : Int), (dv : Int)] := by
    simp [ensure_listlike_dups]
  have hA : ensure_listlike_dups [fu, fv] 2 = [fu, fv] := by simp [ensure_listlike_dups]
  have hsumI : pySum [(du : Int), (dv : Int)] = ((du + dv : ℕ) : Int) := by simp [pySum]
  have hnorm : (ASpec.seq [fu, fv]).norm 2 = [fu, fv] := by simp [ASpec.norm, padLast]
  unfold Obj.surfaceDerivativeWith
  rw [hnorm]
  by_cases hcl : o.rational = true ∧ (du + dv = 2 ∨ du + dv = 3)
  · obtain ⟨hr, hd⟩ := hcl
    have hmem : (du, dv) ∈ [(1, 1), (2, 0), (0, 2), (3, 0), (0, 3), (2, 1), (1, 2)] := by
      simp only [List.mem_cons, Prod.mk.injEq, List.mem_nil_iff, or_false]
      omega
    rw [PyOverride_Surface_derivative_seq_closed_eq o tol u v fu fv du dv hs (by omega) hr hnc hmem, hr,
      surfaceOutcome_pair_closed du dv hmem]
    simp only [Bool.not_true, Bool.false_eq_true, false_and, if_false]
  · have hgen' : o.rational = false ∨ du + dv < 2 ∨ du + dv > 3 := by
      by_cases hr : o.rational = true
      · right
        have : ¬ (du + dv = 2 ∨ du + dv = 3) := fun h => hcl ⟨hr, h⟩
        omega
      · left; simpa using hr
    have hgen : ¬ (o.rational = true) ∨ pySum (ensure_listlike_dups [(du : Int), (dv : Int)] 2) < 2 ∨
        pySum (ensure_listlike_dups [(du : Int), (dv : Int)] 2) > 3 := by
      rw [hD, hsumI]
      rcases hgen' with h | h | h
      · left; simp [h]
      · right; left; omega
      · right; right; omega
    rw [PyOverride_Surface_derivative_seq_generic_eq o tol u v _ _ true hs hgen, hD, hA]
    have hl1 : ensure_listlike_dups [(du : Int), (dv : Int)] ((o.pardim : ℕ) : Int) = [(du : Int), (dv : Int)] := by
      rw [hpd]; simp [ensure_listlike_dups]
    have hl2 : ensure_listlike_dups [fu, fv] ((o.pardim : ℕ) : Int) = [fu, fv] := by
      rw [hpd]; simp [ensure_listlike_dups]
    rw [PyObject_derivative_eq o tol [u, v] (some [(du : Int), (dv : Int)]) (some [fu, fv]) (some true)
      (by rw [hs, hb]; rfl) (by omega) (by omega) (by simp [hb])
      (by simpa using hne) (by omega)
      (by simp only [Option.getD_some, hl1]; simp [hb])
      (by simp only [Option.getD_some, hl1]; intro x hx; simp at hx; omega)
      (by simp only [Option.getD_some, hl2]; simp [hb])]
    rw [surfaceOutcome_pair_generic o.rational du dv hgen']
    simp only [Option.getD_some, hl1, hl2, List.map_cons, List.map_nil, Int.toNat_natCast, List.all_cons, List.all_nil,
      Bool.and_true, ASpec.norm, padLast, List.length_cons, List.length_nil, le_refl, if_true, Option.getD_some,
      Bool.and_eq_true]

end surface_derivative_seq

/-! ### method: Surface.derivative -/

section surface_derivative_bool

variable [FloorRing K]

theorem surf_loop1_eq : @PyOverride.Surface_derivative_seq_loop1 K _ _ _ = @PyOverride.Surface_derivative_loop1 K _ _ _ := rfl

/-- **The bool spelling of `above`** (`above = ensure_listlike(above, 2)` turns the bool `a` into `[a, a]`) is the
sequence spelling with `above = (a, a)`. -/
theorem surf_bool_seq (o : Obj K) (tol : K) (u v : Param K) (D : List Int) (a tensor : Bool)
    {n1 n2 nc : ℕ} (hs : o.cps.shape = [n1, n2, nc]) :
    PyOverride.Surface_derivative (ofObj o) tol u v D a tensor
      = PyOverride.Surface_derivative_seq (ofObj o) tol u v D [a, a] tensor := by
  have hpd : PyObject.pardim (ofObj o) tol = .ok (2 : Int) := by
    rw [PyObject_pardim_eq o tol (by rw [hs]; simp)]; unfold Obj.pardim; rw [hs]; rfl
  have h1 : listMul [a] (2 : Int) = [a, a] := by simp [listMul]
  have h2 : ensure_listlike_dups [a, a] (2 : Int) = [a, a] := by simp [ensure_listlike_dups]
  unfold PyOverride.Surface_derivative PyOverride.Surface_derivative_seq
  simp only [hpd, ok_bind, h1, h2, surf_loop1_eq]

/-- **`Surface.derivative`, rational closed forms** (the seven multi-indices of total order 2 and 3; generated from
`splipy/surface.py`, `d` a pair, `above` a bool, `tensor=True`) = the model's `Obj.surfaceDerivativeRational`
(formulas `RatDeriv.surfD11 … surfD12`), followed by the squeeze of a single point.
Guards: the control net is 3-d (`n1 × n2 × ncomp`), there are two bases, `ncomp ≥ 1`. -/
theorem _root_.PyOverride_Surface_derivative_closed_eq (o : Obj K) (tol : K) (u v : Param K) (above : Bool) (du dv : ℕ)
    {n1 n2 nc : ℕ} (hs : o.cps.shape = [n1, n2, nc]) (hb : 2 ≤ o.bases.size) (hr : o.rational = true) (hnc : 1 ≤ nc)
    (hd : (du, dv) ∈ [(1, 1), (2, 0), (0, 2), (3, 0), (0, 3), (2, 1), (1, 2)]) :
    PyOverride.Surface_derivative (ofObj o) tol u v [(du : Int), (dv : Int)] above true = (do
      let r ← o.surfaceDerivativeRational tol (ensure_listlike u) (ensure_listlike v) du dv above above true
      if is_singleton u ∧ is_singleton v then npReshape r [((o.dimension : ℕ) : Int)] else pure r) := by
  rw [surf_bool_seq o tol u v _ above true hs]
  exact PyOverride_Surface_derivative_seq_closed_eq o tol u v above above du dv hs hb hr hnc hd

/-- **`Surface.derivative`, dispatch to the generic path**, bool spelling of `above`. -/
theorem _root_.PyOverride_Surface_derivative_generic_eq (o : Obj K) (tol : K) (u v : Param K) (D : List Int)
    (above tensor : Bool) {n1 n2 nc : ℕ} (hs : o.cps.shape = [n1, n2, nc])
    (h : ¬ (o.rational = true) ∨ pySum (ensure_listlike_dups D 2) < 2 ∨ pySum (ensure_listlike_dups D 2) > 3) :
    PyOverride.Surface_derivative (ofObj o) tol u v D above tensor =
      PyObject.derivative (ofObj o) tol [u, v] (some (ensure_listlike_dups D 2)) (some [above, above]) (some tensor) := by
  rw [surf_bool_seq o tol u v D above tensor hs, PyOverride_Surface_derivative_seq_generic_eq o tol u v D _ tensor hs h]
  simp [ensure_listlike_dups]

/-- **`Surface.derivative(u, v, d=(du, dv), above, tensor=True)`** for a pair `d` and a bool `above` = the hand model's
`Obj.surfaceDerivativeWith surfaceOutcome`, followed by the squeeze of a single point (guards as for the sequence
spelling: `PyOverride_Surface_derivative_seq_eq`). -/
theorem _root_.PyOverride_Surface_derivative_eq (o : Obj K) (tol : K) (u v : Param K) (above : Bool) (du dv : ℕ)
    {n1 n2 nc : ℕ} (hs : o.cps.shape = [n1, n2, nc]) (hb : o.bases.size = 2) (hnc : 1 ≤ nc)
    (hne : ∀ x ∈ List.zip o.bases.toList [ensure_listlike u, ensure_listlike v], x.1.periodic < 0 → x.2 ≠ []) :
    PyOverride.Surface_derivative (ofObj o) tol u v [(du : Int), (dv : Int)] above true = (do
      let r ← o.surfaceDerivativeWith surfaceOutcome tol (ensure_listlike u) (ensure_listlike v) (.lst [du, dv])
        (.bool above) true
      if is_singleton u ∧ is_singleton v then npReshape r [((o.dimension : ℕ) : Int)] else pure r) := by
  rw [surf_bool_seq o tol u v _ above true hs, PyOverride_Surface_derivative_seq_eq o tol u v above above du dv hs hb hnc hne]
  rfl

end surface_derivative_bool


/-! ## `const_par_curve`: the loop, rows of a contracted array (no generated code) -/

section cpc_helpers

variable [FloorRing K]

/-- `Surface.const_par_curve` after `check_direction` (the body of `Model/Sections.lean::Obj.constParCurve`). -/
def cpcBody (o : Obj K) (tol knot : K) (dir : ℕ) : PyM (Obj K) := do
  let cont ← (o.basis dir).continuity tol knot
  let o' ← o.insertKnots (List.replicate (Obj.cpcCount (o.basis dir) cont) knot) dir
  Obj.cpcPick o o' dir knot

theorem constParCurve_eq (o : Obj K) (tol knot : K) (direction : Int ⊕ String) :
    o.constParCurve tol knot direction = (Sections.checkDirection direction 2 >>= cpcBody o tol knot) := rfl

/-- a loop whose body ignores the loop variable only depends on the number of iterations -/
theorem foldlM_const_len {α β σ : Type} (f : σ → PyM σ) (l1 : List α) (l2 : List β) (h : l1.length = l2.length) (s : σ) :
    l1.foldlM (fun s _ => f s) s = l2.foldlM (fun s _ => f s) s := by
  induction l1 generalizing l2 s with
  | nil =>
    cases l2 with
    | nil => rfl
    | cons _ _ => simp at h
  | cons a l1 ih =>
    cases l2 with
    | nil => simp at h
    | cons b l2 =>
      simp only [List.foldlM_cons]
      cases f s with
      | error e => rfl
      | ok s' => exact ih l2 (by simpa using h) s'

/-- Row `i` of `applyAxis C t ax`, i.e. `takeAxis ax i`, is the contraction of `t` with row `i` of `C`. -/
theorem takeAxis_applyAxis (C : Mat K) (t : Tensor K) (ax i : ℕ) (hax : ax < t.shape.length) (hi : i < C.size) :
    (Tensor.applyAxis C t ax).takeAxis ax i =
      { shape := t.shape.eraseIdx ax,
        data := Array.ofFn (n := (Tensor.split3 t.shape ax).1 * (Tensor.split3 t.shape ax).2.2) (fun k =>
          (List.range (Tensor.split3 t.shape ax).2.1).foldl
            (fun acc j => acc + (C.getD i #[]).toList.getD j 0 *
              t.at3 ax (k.val / (Tensor.split3 t.shape ax).2.2) j (k.val % (Tensor.split3 t.shape ax).2.2)) 0) } := by
  have hsp : Tensor.split3 (t.shape.set ax C.size) ax
      = ((Tensor.split3 t.shape ax).1, C.size, (Tensor.split3 t.shape ax).2.2) := by
    simp only [Tensor.split3, List.take_set_of_le (le_refl ax), getD_set_self _ _ _ _ hax,
      List.drop_set_of_lt (Nat.lt_succ_self ax)]
  have hTs : (Tensor.applyAxis C t ax).shape = t.shape.set ax C.size := rfl
  refine tensor_mk_ext ?_ ?_
  · show ((Tensor.applyAxis C t ax).shape.set ax 1).eraseIdx ax = t.shape.eraseIdx ax
    rw [hTs, List.set_set, List.eraseIdx_set_eq]
  · show (Tensor.build3 (Tensor.applyAxis C t ax).shape ax 1
        (fun a r i' => (Tensor.applyAxis C t ax).at3 ax a ((fun _ => i) r) i')).data = _
    unfold Tensor.build3
    rw [hTs, hsp]
    simp only []
    apply Array.ext
    · simp
    · intro k h1 h2
      simp only [Array.size_ofFn] at h2
      simp only [Array.getElem_ofFn, Nat.mul_one, Nat.mod_one]
      have hinn : 0 < (Tensor.split3 t.shape ax).2.2 := by
        rcases Nat.eq_zero_or_pos (Tensor.split3 t.shape ax).2.2 with h | h
        · rw [h] at h2; omega
        · exact h
      have ha : k / (Tensor.split3 t.shape ax).2.2 < (Tensor.split3 t.shape ax).1 := mod_div_lt h2
      have hi' : k % (Tensor.split3 t.shape ax).2.2 < (Tensor.split3 t.shape ax).2.2 := Nat.mod_lt _ hinn
      unfold Tensor.applyAxis
      rw [C04.at3_build3 t.shape ax C.size _ hax _ _ _ ha hi hi']
      simp only [Tensor.split3]
      apply foldl_range_congr
      intro acc j hj
      simp [Array.getD_eq_getD_getElem?, List.getD_eq_getElem?_getD]

/-- one pass of `C = b.insert_knot(knot) @ C` -/
def cpcStep (knot : K) (st : Mat K × Basis K) : PyM (Mat K × Basis K) := do
  let r ← Basis.insertKnot st.2 knot
  pure (npMatmul r.2 st.1, r.1)

/-- The code's loop state `(C, b)` and the model's `(b, C)` evolve in the same way. -/
theorem cpc_loop (knot : K) {β : Type} (F : Mat K × Basis K → PyM β) (G : Basis K × Mat K → PyM β)
    (hFG : ∀ C b, F (C, b) = G (b, C)) (c : ℕ) : ∀ (C : Mat K) (b : Basis K),
    ((List.replicate c ()).foldlM (fun s _ => cpcStep knot s) (C, b) >>= F)
      = ((List.replicate c knot).foldlM (fun (bc : Basis K × Mat K) x => do
            let (b', Ck) ← bc.1.insertKnot x
            pure (b', Mat.mul Ck bc.2)) (b, C) >>= G) := by
  induction c with
  | zero => intro C b; exact hFG C b
  | succ c ih =>
    intro C b
    simp only [List.replicate_succ, List.foldlM_cons, cpcStep]
    cases hk : Basis.insertKnot b knot with
    | error e => rfl
    | ok r =>
      simp only [ok_bind, pure_eq_ok]
      exact ih _ _


end cpc_helpers

/-! ### method: Surface.const_par_curve -/

section surface_cpc

variable [FloorRing K]

/-- **`Surface.const_par_curve(knot, direction)`** (generated from `splipy/surface.py`), direction given as a token:
`check_direction`, then the body of the hand model's `Obj.constParCurve` (`cpcBody`: continuity, `mult` knot
insertions on a clone of the basis, the row `i = max(bisect_left - 1, 0) % n` of the refined net, the `Curve`
constructor).  Guards: see `PyOverride_Surface_const_par_curve_model_eq`. -/
theorem _root_.PyOverride_Surface_const_par_curve_eq (o : Obj K) (tol knot : K) (d : DirTok)
    {n1 n2 nc : ℕ} (hs : o.cps.shape = [n1, n2, nc]) (hb : o.bases.size = 2) (hnc : 1 ≤ nc)
    (hwf0 : (o.basis 0).numFunctions = n1) (hwf1 : (o.basis 1).numFunctions = n2) :
    PyOverride.Surface_const_par_curve (ofObj o) tol knot d =
      (checkDirection d 2 >>= fun dir => (cpcBody o tol knot dir).map ofObj) := by
  unfold PyOverride.Surface_const_par_curve
  have h2 := PyObject_check_direction_eq d 2
  simp only [Nat.cast_ofNat] at h2
  rw [h2]
  cases hc : checkDirection d 2 with
  | error e => rfl
  | ok dir =>
    have hdir : dir < 2 := checkDirection_lt hc
    simp only [map_ok, ok_bind, ofObj_cps, ofObj_bases, ofObj_rational, pure_eq_ok]
    rw [getBasis_nat o.bases (by omega)]
    simp only [ok_bind]
    unfold cpcBody Obj.basis
    cases hcont : Basis.continuity (o.bases.getD dir default) tol knot with
    | error e => rfl
    | ok cont =>
      simp only [ok_bind, slice_dropLast]
      have hsh : getItem (npShape o.cps).dropLast (dir : Int) = .ok ((o.cps.shape.getD dir 0 : ℕ) : Int) := by
        unfold npShape
        rw [hs]
        have : dir = 0 ∨ dir = 1 := by omega
        rcases this with rfl | rfl
        · simpa using getItem_zero (n1 : Int) [(n2 : Int)]
        · simpa using getItem_one (n1 : Int) (n2 : Int) []
      rw [hsh, ok_bind]
      have hid : npIdentity (K := K) ((o.cps.shape.getD dir 0 : ℕ) : Int) = .ok (Mat.identity (o.cps.shape.getD dir 0)) := by
        unfold npIdentity
        simp
      rw [hid, ok_bind]
      have hcount : (minOptInt cont (((o.bases.getD dir default).order : ℕ) - 1 : Int)).toNat
          = Obj.cpcCount (o.bases.getD dir default) cont := by
        unfold Obj.cpcCount minOptInt
        cases cont <;> rfl
      unfold forRange Obj.insertKnots Obj.basis
      have hstep : ∀ (i : Int) st, PyOverride.Surface_const_par_curve_loop1 (ofObj o) tol knot i st = cpcStep knot st :=
        fun _ _ => rfl
      simp only [hstep]
      rw [foldlM_const_len (cpcStep knot) (rangeI 0 _) (List.replicate (Obj.cpcCount (o.bases.getD dir default) cont) ())
        (by rw [rangeI_length, List.length_replicate, ← hcount]; simp)]
      have hR : ∀ (x : PyM (Basis K × Mat K)) (Kf : Basis K × Mat K → PyM (Obj K)),
          Except.map ofObj (x >>= Kf) = (x >>= fun v => Except.map ofObj (Kf v)) := by
        intro x Kf; cases x <;> rfl
      simp only [bind_assoc]
      rw [hR]
      refine cpc_loop knot _ _ (fun C b => ?_) _ _ _
      simp only [pure_eq_ok, ok_bind]
      unfold Obj.cpcPick Obj.basis
      simp only [getD_set!_self o.bases dir (by omega)]
      by_cases hnf : b.numFunctions = 0
      · rw [if_pos hnf]
        unfold pyModI
        rw [if_pos (by rw [hnf]; rfl)]
        rfl
      · rw [if_neg hnf]
        have hmod : pyModI (max (((b.bisectL knot : ℕ) : Int) - 1) 0) ((b.numFunctions : ℕ) : Int)
            = .ok (((b.bisectL knot - 1) % b.numFunctions : ℕ) : Int) := by
          unfold pyModI
          rw [if_neg (by omega)]
          congr 1
          have : max (((b.bisectL knot : ℕ) : Int) - 1) 0 = ((b.bisectL knot - 1 : ℕ) : Int) := by omega
          rw [this, Int.fmod_eq_emod_of_nonneg _ (by omega)]
          rfl
        rw [hmod, ok_bind]
        have hshd : (Tensor.applyAxis C o.cps dir).shape.getD dir 0 = C.size := by
          rw [applyAxis_shape', getD_set_self _ _ _ _ (by rw [hs]; simp; omega)]
        simp only [hshd]
        generalize (b.bisectL knot - 1) % b.numFunctions = i
        by_cases hi : C.size ≤ i
        · rw [if_pos hi]
          unfold matRow
          rw [normIdx_nat_ge hi]
          rfl
        · rw [if_neg hi]
          have hi' : i < C.size := by omega
          unfold matRow
          rw [normIdx_nat hi']
          simp only [ok_bind]
          unfold npTensordotVec
          rw [normIdx_nat (show dir < o.cps.shape.length by rw [hs]; simp; omega)]
          simp only [ok_bind]
          rw [← takeAxis_applyAxis C o.cps dir i (by rw [hs]; simp; omega) hi']
          have h1d : ((1 : Int) - (dir : Int)) = ((1 - dir : ℕ) : Int) := by omega
          rw [h1d, getBasis_nat o.bases (by omega), ok_bind]
          have hdir01 : dir = 0 ∨ dir = 1 := by omega
          have htake := takeAxis_applyAxis C o.cps dir i (by rw [hs]; simp; omega) hi'
          unfold mkCurve
          rcases hdir01 with rfl | rfl
          · have hsz : ((Tensor.applyAxis C o.cps 0).takeAxis 0 i).data.size = n2 * nc := by
              rw [htake]; simp [Tensor.split3, hs, Tensor.prod]
            have hsh2 : ((Tensor.applyAxis C o.cps 0).takeAxis 0 i).shape = [n2, nc] := by
              rw [htake, hs]; rfl
            have hl : lastN ((Tensor.applyAxis C o.cps 0).takeAxis 0 i) = nc := by unfold lastN; rw [hsh2]; rfl
            have hnf' : (o.bases.getD (1 - 0) default).numFunctions = n2 := hwf1
            rw [if_pos (by rw [hsz, hl, hnf'])]
            simp only [Except.map, ofObj, hl, hnf']
            congr 2
            · exact tensor_mk_ext hsh2.symm rfl
            · unfold Obj.dimension Obj.ncomp
              simp only [hsh2, List.getLastD_cons, List.getLastD_nil, b2i]
              cases o.rational <;> simp <;> omega
          · have hsz : ((Tensor.applyAxis C o.cps 1).takeAxis 1 i).data.size = n1 * nc := by
              rw [htake]; simp [Tensor.split3, hs, Tensor.prod]
            have hsh2 : ((Tensor.applyAxis C o.cps 1).takeAxis 1 i).shape = [n1, nc] := by
              rw [htake, hs]; rfl
            have hl : lastN ((Tensor.applyAxis C o.cps 1).takeAxis 1 i) = nc := by unfold lastN; rw [hsh2]; rfl
            have hnf' : (o.bases.getD (1 - 1) default).numFunctions = n1 := hwf0
            rw [if_pos (by rw [hsz, hl, hnf'])]
            simp only [Except.map, ofObj, hl, hnf']
            congr 2
            · exact tensor_mk_ext hsh2.symm rfl
            · unfold Obj.dimension Obj.ncomp
              simp only [hsh2, List.getLastD_cons, List.getLastD_nil, b2i]
              cases o.rational <;> simp <;> omega

/-- a direction argument of the hand model (`Int ⊕ String`) as the token type of the translation -/
def dirTokOf : Int ⊕ String → DirTok
  | .inl i => .int i
  | .inr s => .str s

theorem checkDirection_dirTokOf (x : Int ⊕ String) (pd : ℕ) :
    Sections.checkDirection x pd = checkDirection (dirTokOf x) pd := by
  unfold Sections.checkDirection checkDirection dirTokOf
  cases x with
  | inl i => simp
  | inr s => simp

/-- **`Surface.const_par_curve(knot, direction)`** (generated from `splipy/surface.py`) = the hand model's
`Obj.constParCurve` (`Model/Sections.lean`).  Guards: a surface (3-d control net, exactly two bases), `ncomp ≥ 1`,
and the bases have as many functions as the control net has points in their direction (the `Curve(..)` constructor
reshapes `cp` to `(n, ncomps)` and raises `ValueError` otherwise; the model does not check). -/
theorem _root_.PyOverride_Surface_const_par_curve_model_eq (o : Obj K) (tol knot : K) (x : Int ⊕ String)
    {n1 n2 nc : ℕ} (hs : o.cps.shape = [n1, n2, nc]) (hb : o.bases.size = 2) (hnc : 1 ≤ nc)
    (hwf0 : (o.basis 0).numFunctions = n1) (hwf1 : (o.basis 1).numFunctions = n2) :
    PyOverride.Surface_const_par_curve (ofObj o) tol knot (dirTokOf x) = (o.constParCurve tol knot x).map ofObj := by
  rw [PyOverride_Surface_const_par_curve_eq o tol knot _ hs hb hnc hwf0 hwf1, constParCurve_eq, checkDirection_dirTokOf]
  cases checkDirection (dirTokOf x) 2 <;> rfl

end surface_cpc

end Splipy.PyV
