import Splipy.Lemmas.C12Elev
import Splipy.Lemmas.C12Curve
import Splipy.Lemmas.C12Direction
import Splipy.Properties.C05

/-!
# C12 — `raise_order(a, direction=0)` on a clamped curve keeps the evaluated map (discharging `H_raise`)

Property C05 (`C05_geometry_partial` with `H_incl` from `Lemmas/Elevation.lean` and `H_sw` from
`Lemmas/SchoenbergWhitney.lean`) determines the control net the model's `raise_order` returns: it is
`c' = c · A` for the elevation matrix `A`.  With `C12.elevation_both` the same `A` satisfies the
Cox–de Boor identity at every parameter and both sides, so the result is `SameMap`.
-/

namespace Splipy

set_option linter.unusedSectionVars false

variable {K : Type} [Field K] [LinearOrder K] [IsStrictOrderedRing K] [FloorRing K]

namespace C12

/-- **`raise_order(a ≥ 1, direction=0)` of a curve on a clamped continuous basis** (both the `Curve`
    override and the base-class method): succeeds, the new basis is the one of `C05_knots`, the net has
    the matching shape, rationality is kept, and every column spline is unchanged at every parameter
    from both sides (Cox–de Boor level). -/
theorem raise_curve_spec (tol : K) (htol : 0 < tol) (q a : ℕ) (ha : 1 ≤ a) (x0 xl : K)
    (umid : List K) (mmid : List ℕ) (hlen : umid.length = mmid.length)
    (hm : ∀ j ∈ mmid, 1 ≤ j ∧ j ≤ q)
    (hgap : Separated (2 * ((q + a : ℕ) : K) * tol) (clampedU x0 xl umid))
    (o : Obj K) (nc : ℕ)
    (hb : o.bases = #[openBasis (q+1) (clampedU x0 xl umid) (clampedM (q+1) mmid)])
    (hs : o.cps.shape = [(openBasis (q+1) (clampedU x0 xl umid) (clampedM (q+1) mmid)).numFunctions, nc])
    (isCurve : Bool) :
    let b := openBasis (q+1) (clampedU x0 xl umid) (clampedM (q+1) mmid)
    let b' := openBasis (q+1+a) (clampedU x0 xl umid) (clampedM (q+1+a) (mmid.map (· + a)))
    ∃ r o', o.raiseOrderDispatch tol isCurve [(a : Int)] (some ((0 : ℕ) : Int)) = .ok (r, o')
      ∧ o'.bases = #[b'] ∧ o'.rational = o.rational ∧ o'.cps.shape = [b'.numFunctions, nc]
      ∧ ∀ (s : Side) (t : K) (c : ℕ), c < nc →
          splineVal s b'.kn (q + a) b'.numFunctions (fun k => o'.cps.get (k * nc + c)) t
            = splineVal s b.kn q b.numFunctions (fun j => o.cps.get (j * nc + c)) t := by
  intro b b'
  have hfac : tol ≤ 2 * ((q + a : ℕ) : K) * tol := by
    have h1 : (1 : K) ≤ ((q + a : ℕ) : K) := by exact_mod_cast (by omega : 1 ≤ q + a)
    nlinarith
  have hsep : Separated tol (clampedU x0 xl umid) := separated_mono hfac hgap
  have hm1 : ∀ j ∈ mmid, 1 ≤ j := fun j hj => (hm j hj).1
  have hmq : ∀ j ∈ mmid, j ≤ q := fun j hj => (hm j hj).2
  have hraise : b.raiseOrder tol a = .ok b' :=
    (C05_knots tol htol (q+1) a (by omega) x0 xl umid mmid hlen hsep hm1).1
  obtain ⟨pts, hg⟩ := greville_ok b' (show q + 1 + a ≠ 1 by omega)
  have hP := greville_size b' pts hg
  obtain ⟨A, _, hspec, hmodel⟩ := elevation_both tol htol q a x0 xl umid mmid hlen hsep hm1
  set c' : ℕ → ℕ → K := fun k c => ∑ j ∈ Finset.range b.numFunctions, o.cps.get (j * nc + c) * A j k
    with hc'
  have H_incl : ∀ t, ∀ c, c < nc →
      ∑ k ∈ Finset.range pts.size, (b'.evaluate tol t 0 true).getD k 0 * c' k c
        = ∑ j ∈ Finset.range b.numFunctions, (b.evaluate tol t 0 true).getD j 0 * o.cps.get (j * nc + c) := by
    intro t c _
    rw [hP]
    exact hmodel (fun j => o.cps.get (j * nc + c)) t
  have hgeo := C05_geometry_partial o tol b b' a pts b.numFunctions nc hb hs hraise hg c' H_incl
  have hn0 : 0 < b.numFunctions := by
    rw [numFunctions_clamped (q+1) x0 xl umid mmid hlen]; omega
  have hpts0 : 0 < pts.size := by
    rw [hP, numFunctions_clamped (q+1+a) x0 xl umid _ (by simpa using hlen)]; omega
  obtain ⟨Ni, hNi⟩ := H_sw_clamped_gap tol htol q a (by omega) x0 xl umid mmid hlen hgap hm1 hmq pts hg
  -- the Cox–de Boor statement for any object carrying the net `c'`
  have spec : ∀ o' : Obj K, (∀ i, i < pts.size → ∀ c, c < nc → o'.cps.get (i * nc + c) = c' i c) →
      ∀ (s : Side) (t : K) (c : ℕ), c < nc →
        splineVal s b'.kn (q + a) b'.numFunctions (fun k => o'.cps.get (k * nc + c)) t
          = splineVal s b.kn q b.numFunctions (fun j => o.cps.get (j * nc + c)) t := by
    intro o' hcp s t c hc
    have h := hspec s (fun j => o.cps.get (j * nc + c)) t
    show (Finset.range b'.numFunctions).sum (fun k => o'.cps.get (k * nc + c) * B s b'.kn (q + a) k t)
      = (Finset.range b.numFunctions).sum (fun j => o.cps.get (j * nc + c) * B s b.kn q j t)
    calc (Finset.range b'.numFunctions).sum (fun k => o'.cps.get (k * nc + c) * B s b'.kn (q + a) k t)
        = ∑ k ∈ Finset.range b'.numFunctions, B s b'.kn (q + a) k t * c' k c := by
          apply Finset.sum_congr rfl
          intro k hk
          rw [hcp k (by rw [hP]; exact Finset.mem_range.mp hk) c hc, mul_comm]
      _ = ∑ j ∈ Finset.range b.numFunctions, B s b.kn q j t * o.cps.get (j * nc + c) := h
      _ = _ := Finset.sum_congr rfl (fun j _ => mul_comm _ _)
  cases isCurve with
  | false =>
    obtain ⟨o', ho', h1, h2, h3, h4, _⟩ := hgeo.1 Ni hNi
    refine ⟨.self, o', ?_, h1, h2, by rw [h3, hP], spec o' h4⟩
    unfold Obj.raiseOrderDispatch
    simp only [Bool.false_eq_true, if_false]
    unfold Obj.raiseOrder
    have hpd : o.pardim = 1 := by simp [Obj.pardim, hs]
    have hguard : Obj.raiseGuard tol o.bases.toList = .ok true := by
      rw [hb]; exact raiseGuard_clamped tol htol (q+1) (by omega) x0 xl umid mmid hlen hsep hm1 []
    have ha0 : ¬ (a = 0) := by omega
    simp [Obj.normRaises, Obj.checkDirection, hpd, ha0, hguard, ho']
  | true =>
    obtain ⟨_, hinv⟩ := Mat.invChecked_spec _ Ni hNi
    have hrows : (Obj.basisMat b' tol pts.toList 0 true).nrows = pts.size := by
      simp [Mat.nrows, basisMat_size]
    rw [hrows] at hinv
    obtain ⟨o2, ho2⟩ := curveRaiseOrder_succeeds o tol b b' a ha pts b.numFunctions nc hn0 hb hs hraise hg
      hpts0 (fun i j => Ni.get i j) hinv
    obtain ⟨_, g1, g2, g3, g4, _⟩ := hgeo.2 (fun i j => Ni.get i j) ha hn0 hpts0 hinv .self o2 ho2
    refine ⟨.self, o2, ?_, g1, g2, by rw [g3, hP], spec o2 g4⟩
    unfold Obj.raiseOrderDispatch
    simp only [if_true]
    exact ho2

end C12

end Splipy

namespace Splipy

set_option linter.unusedSectionVars false

variable {K : Type} [Field K] [LinearOrder K] [IsStrictOrderedRing K] [FloorRing K]

namespace C12

/-- A one-basis object with a valid basis and a control array of matching shape is well formed. -/
theorem wf_curve_of {o : Obj K} {b : Basis K} {nc : ℕ} (hb : o.bases = #[b]) (hv : b.Valid)
    (hs : o.cps.shape = [b.numFunctions, nc]) : C06.WF o 1 ∧ o.basis 0 = b ∧ o.ncomp = nc := by
  have hb0 : o.basis 0 = b := by unfold Obj.basis; rw [hb]; rfl
  have hnc : o.ncomp = nc := by unfold Obj.ncomp; rw [hs]; rfl
  refine ⟨⟨by rw [hb]; rfl, ?_, ?_⟩, hb0, hnc⟩
  · intro d
    have hd : (d : ℕ) = 0 := by omega
    rw [hd, hb0]; exact hv
  · rw [hs, hnc]
    simp [C06.midx, hb0]

theorem bases_of_wf_curve {o : Obj K} (hw : C06.WF o 1) : o.bases = #[o.basis 0] := by
  apply Array.ext
  · rw [hw.size]; rfl
  · intro i h1 h2
    have hi : i = 0 := by simp at h2; omega
    subst hi
    simp [Obj.basis, Array.getD, h1]

theorem shape_of_wf_curve {o : Obj K} (hw : C06.WF o 1) :
    o.cps.shape = [(o.basis 0).numFunctions, o.ncomp] := by
  rw [hw.shape]; simp [C06.midx]

/-- The clamped basis over a common entry list only depends on the entries that are present. -/
theorem openBasis_filter {α : Type} (p : ℕ) (x0 xl : K) (L : List α) (v : α → K) (f : α → ℕ) :
    openBasis p (clampedU x0 xl (L.map v)) (clampedM p (L.map f))
      = openBasis p (clampedU x0 xl ((L.filter (fun e => decide (1 ≤ f e))).map v))
          (clampedM p ((L.filter (fun e => decide (1 ≤ f e))).map f)) := by
  unfold openBasis
  rw [expand_clamped p x0 xl _ _ (by simp), expand_clamped p x0 xl _ _ (by simp), expand_filter L v f]

theorem separated_filter {α : Type} (δ : K) (x0 xl : K) (L : List α) (v : α → K) (g : α → Bool)
    (h : Separated δ (clampedU x0 xl (L.map v))) :
    Separated δ (clampedU x0 xl ((L.filter g).map v)) := by
  refine List.Pairwise.sublist ?_ h
  unfold clampedU
  exact List.Sublist.cons_cons _ (List.Sublist.append_right ((List.filter_sublist).map v) _)

/-- **`raise_order` to a common order on a clamped curve in common-entry form**: the call
    `raise_order(p - p_j, direction=0)` succeeds (also for amount `0`), the result is a well-formed
    curve on the clamped basis of order `p` whose present knots gained `p - p_j`, same evaluated map. -/
theorem raise_to_common {α : Type} (tol : K) (htol : 0 < tol) (pj p : ℕ) (hpj : 2 ≤ pj) (hle : pj ≤ p)
    (x0 xl : K) (L : List α) (v : α → K) (f : α → ℕ) (hf : ∀ e ∈ L, f e ≤ pj - 1)
    (hgap : Separated (2 * ((p - 1 : ℕ) : K) * tol) (clampedU x0 xl (L.map v)))
    (o : Obj K) (hw : C06.WF o 1)
    (hb : o.basis 0 = openBasis pj (clampedU x0 xl (L.map v)) (clampedM pj (L.map f))) (isCurve : Bool) :
    ∃ r o', o.raiseOrderDispatch tol isCurve [((p : ℕ) : Int) - (pj : ℕ)] (some ((0 : ℕ) : Int)) = .ok (r, o')
      ∧ C06.WF o' 1
      ∧ o'.basis 0 = openBasis p (clampedU x0 xl (L.map v)) (clampedM p (L.map (fun e => raisedMult (p - pj) (f e))))
      ∧ SameMap 1 o o' := by
  rcases Nat.eq_or_lt_of_le hle with heq | hlt
  · -- nothing to raise
    subst heq
    have hpd : 0 < o.pardim := by unfold Obj.pardim; rw [hw.shape]; simp [C06.midx]
    obtain ⟨r, hr⟩ := raiseOrderDispatch_zero_ok tol isCurve o hpd
    refine ⟨r, o, by rw [sub_self]; exact hr, hw, ?_, SameMap.refl _ _⟩
    rw [hb, Nat.sub_self]
    simp only [raisedMult_zero]
  · -- genuine elevation by a = p - pj ≥ 1
    obtain ⟨q, rfl⟩ : ∃ q, pj = q + 1 := ⟨pj - 1, by omega⟩
    obtain ⟨a, rfl⟩ : ∃ a, p = q + 1 + a := ⟨p - (q + 1), by omega⟩
    have ha : 1 ≤ a := by omega
    set L' := L.filter (fun e => decide (1 ≤ f e)) with hL'
    have hmem : ∀ e ∈ L', e ∈ L ∧ 1 ≤ f e := by
      intro e he
      rw [hL'] at he
      have := List.mem_filter.mp he
      exact ⟨this.1, by simpa using this.2⟩
    have hm : ∀ j ∈ L'.map f, 1 ≤ j ∧ j ≤ q := by
      intro j hj
      obtain ⟨e, he, rfl⟩ := List.mem_map.mp hj
      have h1 := hmem e he
      have h2 := hf e h1.1
      exact ⟨h1.2, by omega⟩
    have hgap' : Separated (2 * ((q + a : ℕ) : K) * tol) (clampedU x0 xl (L'.map v)) := by
      have : q + 1 + a - 1 = q + a := by omega
      rw [this] at hgap
      exact separated_filter _ x0 xl L v _ hgap
    have hb' : o.basis 0 = openBasis (q+1) (clampedU x0 xl (L'.map v)) (clampedM (q+1) (L'.map f)) := by
      rw [hb, openBasis_filter]
    have hbases : o.bases = #[openBasis (q+1) (clampedU x0 xl (L'.map v)) (clampedM (q+1) (L'.map f))] := by
      rw [bases_of_wf_curve hw, hb']
    have hshape : o.cps.shape = [(openBasis (q+1) (clampedU x0 xl (L'.map v)) (clampedM (q+1) (L'.map f))).numFunctions,
        o.ncomp] := by
      rw [shape_of_wf_curve hw, hb']
    obtain ⟨r, o', hcall, h1, _, h3, h4⟩ := raise_curve_spec tol htol q a ha x0 xl (L'.map v) (L'.map f)
      (by simp) hm hgap' o o.ncomp hbases hshape isCurve
    have hfac : tol ≤ 2 * ((q + a : ℕ) : K) * tol := by
      have h1 : (1 : K) ≤ ((q + a : ℕ) : K) := by exact_mod_cast (by omega : 1 ≤ q + a)
      nlinarith
    have hsep' : Separated tol (clampedU x0 xl (L'.map v)) := separated_mono hfac hgap'
    have hvalid' : (openBasis (q+1+a) (clampedU x0 xl (L'.map v))
        (clampedM (q+1+a) ((L'.map f).map (· + a)))).Valid :=
      clamped_valid tol htol (q+1+a) (by omega) x0 xl _ _ (by simp) hsep'
    obtain ⟨hwf', hb0', hnc'⟩ := wf_curve_of h1 hvalid' h3
    have hamount : (((q + 1 + a : ℕ) : Int) - ((q + 1 : ℕ) : Int)) = (a : Int) := by push_cast; ring
    refine ⟨r, o', by rw [hamount]; exact hcall, hwf', ?_, ⟨hnc', fun comp hc s u => ?_⟩⟩
    · -- the basis in common-entry form
      rw [hb0', openBasis_filter (q+1+a) x0 xl L v (fun e => raisedMult (q + 1 + a - (q + 1)) (f e))]
      have hfilt : L.filter (fun e => decide (1 ≤ raisedMult (q + 1 + a - (q + 1)) (f e))) = L' := by
        rw [hL']
        apply List.filter_congr
        intro e _
        unfold raisedMult
        by_cases h0 : f e = 0
        · simp [h0]
        · have : 1 ≤ f e := by omega
          simp [h0, this]
          omega
      rw [hfilt]
      congr 2
      rw [List.map_map]
      apply List.map_congr_left
      intro e he
      have := (hmem e he).2
      unfold raisedMult
      have h0 : ¬ f e = 0 := by omega
      simp only [Function.comp, h0, if_false]
      omega
    · -- the evaluated map
      have hper : (o.basis 0).periodic = -1 := by rw [hb]; rfl
      have hper' : (o'.basis 0).periodic = -1 := by rw [hb0']; rfl
      rw [toTP_eval_curve hwf' hper' comp s u, toTP_eval_curve hw hper comp s u, hnc', hb0', hb']
      have ho1 : (openBasis (q+1+a) (clampedU x0 xl (L'.map v)) (clampedM (q+1+a) ((L'.map f).map (· + a)))).order - 1
          = q + a := by show q + 1 + a - 1 = q + a; omega
      have ho2 : (openBasis (q+1) (clampedU x0 xl (L'.map v)) (clampedM (q+1) (L'.map f))).order - 1 = q := by
        show q + 1 - 1 = q; omega
      rw [ho1, ho2]
      exact h4 (s 0) (u 0) comp hc

end C12

end Splipy

namespace Splipy

set_option linter.unusedSectionVars false

variable {K : Type} [Field K] [LinearOrder K] [IsStrictOrderedRing K] [FloorRing K]

namespace C12

/-- **Two clamped curves of arbitrary orders `p₁, p₂ ≥ 2` after the `reparam` stage**, bases in
    common-entry form (`L` = interior entries: value, multiplicity in curve 1, in curve 2; `0` = absent),
    continuous (`m_j ≤ p_j - 1`), distinct values more than `2·(p-1)·tol` apart, `p = max p₁ p₂`:
    the remaining three stages run; `lower_periodic` has nothing to do, `raise_order` brings both to
    order `p` (present knots gain `p - p_j`), the insertion passes give both the union knot vector;
    both evaluated maps are kept. -/
theorem open_curves_any_order (tol : K) (htol : 0 < tol) (c1 c2 : Bool) (p1 p2 : ℕ) (hp1 : 2 ≤ p1)
    (hp2 : 2 ≤ p2) (x0 xl : K) (L : List (K × ℕ × ℕ))
    (hm : ∀ e ∈ L, e.2.1 ≤ p1 - 1 ∧ e.2.2 ≤ p2 - 1)
    (hgap : Separated (2 * ((max p1 p2 - 1 : ℕ) : K) * tol) (clampedU x0 xl (L.map (·.1))))
    (a : Obj K × Obj K) (hw1 : C06.WF a.1 1) (hw2 : C06.WF a.2 1)
    (hb1 : a.1.basis 0 = openBasis p1 (clampedU x0 xl (L.map (·.1))) (clampedM p1 (L.map (·.2.1))))
    (hb2 : a.2.basis 0 = openBasis p2 (clampedU x0 xl (L.map (·.1))) (clampedM p2 (L.map (·.2.2)))) :
    ∃ c r, Obj.stagePeriodic a 0 = .ok a ∧ Obj.stageOrder tol c1 c2 a 0 = .ok c
      ∧ Obj.stageMerge tol (max (a.1.basis 0).order (a.2.basis 0).order) c 0 = .ok r
      ∧ r.1.basis 0 = openBasis (max p1 p2) (clampedU x0 xl (L.map (·.1)))
          (clampedM (max p1 p2) (L.map (fun e =>
            max (raisedMult (max p1 p2 - p1) e.2.1) (raisedMult (max p1 p2 - p2) e.2.2))))
      ∧ r.2.basis 0 = r.1.basis 0
      ∧ SameMap 1 a.1 r.1 ∧ SameMap 1 a.2 r.2 := by
  set p := max p1 p2 with hp
  have hle1 : p1 ≤ p := le_max_left _ _
  have hle2 : p2 ≤ p := le_max_right _ _
  have ho1 : (a.1.basis 0).order = p1 := by rw [hb1]; rfl
  have ho2 : (a.2.basis 0).order = p2 := by rw [hb2]; rfl
  have hper1 : (a.1.basis 0).periodic = -1 := by rw [hb1]; rfl
  have hper2 : (a.2.basis 0).periodic = -1 := by rw [hb2]; rfl
  have hSP : Obj.stagePeriodic a 0 = .ok a := by
    unfold Obj.stagePeriodic
    simp [hper1, hper2]
  -- raise both to order p
  obtain ⟨r1, o1, hr1, hwo1, hbo1, hs1⟩ := raise_to_common tol htol p1 p hp1 hle1 x0 xl L (·.1) (·.2.1)
    (fun e he => (hm e he).1) hgap a.1 hw1 hb1 c1
  obtain ⟨r2, o2, hr2, hwo2, hbo2, hs2⟩ := raise_to_common tol htol p2 p hp2 hle2 x0 xl L (·.1) (·.2.2)
    (fun e he => (hm e he).2) hgap a.2 hw2 hb2 c2
  have hSO : Obj.stageOrder tol c1 c2 a 0 = .ok (o1, o2) := by
    unfold Obj.stageOrder
    simp only [ho1, ho2]
    rw [← hp, hr1, hr2]
  -- merge
  set L2 : List (K × ℕ × ℕ) := L.map (fun e => (e.1, raisedMult (p - p1) e.2.1, raisedMult (p - p2) e.2.2)) with hL2
  have e0 : L2.map (·.1) = L.map (·.1) := by rw [hL2, List.map_map]; rfl
  have e1 : L2.map (·.2.1) = L.map (fun e => raisedMult (p - p1) e.2.1) := by rw [hL2, List.map_map]; rfl
  have e2 : L2.map (·.2.2) = L.map (fun e => raisedMult (p - p2) e.2.2) := by rw [hL2, List.map_map]; rfl
  have e3 : L2.map (fun e => max e.2.1 e.2.2)
      = L.map (fun e => max (raisedMult (p - p1) e.2.1) (raisedMult (p - p2) e.2.2)) := by
    rw [hL2, List.map_map]; rfl
  have hp2' : 2 ≤ p := le_trans hp1 hle1
  have hfac : tol ≤ 2 * ((p - 1 : ℕ) : K) * tol := by
    have h1 : (1 : K) ≤ ((p - 1 : ℕ) : K) := by exact_mod_cast (by omega : 1 ≤ p - 1)
    nlinarith
  have hsep : Separated tol (clampedU x0 xl (L2.map (·.1))) := by
    rw [e0]; exact separated_mono hfac hgap
  obtain ⟨r, _, _, hSM, hrb1, hrb2, hm1, hm2⟩ := open_curves_same_order tol htol c1 c2 p hp2' x0 xl L2 hsep
    (o1, o2) hwo1 hwo2 (by rw [e0, e1]; exact hbo1) (by rw [e0, e2]; exact hbo2)
  have hoo1 : ((o1, o2).1.basis 0).order = p := by show (o1.basis 0).order = p; rw [hbo1]; rfl
  have hoo2 : ((o1, o2).2.basis 0).order = p := by show (o2.basis 0).order = p; rw [hbo2]; rfl
  rw [hoo1, hoo2, max_self] at hSM
  refine ⟨(o1, o2), r, hSP, hSO, by rw [ho1, ho2]; exact hSM, ?_, ?_, hs1.trans hm1, hs2.trans hm2⟩
  · rw [hrb1, e0, e3]
  · rw [hrb2, hrb1]

end C12

end Splipy

namespace Splipy

set_option linter.unusedSectionVars false

variable {K : Type} [Field K] [LinearOrder K] [IsStrictOrderedRing K] [FloorRing K]

namespace C12

/-- **`RaisesTo` is a theorem for curves** (property C05 in full for clamped continuous bases). -/
theorem raisesTo_curve {α : Type} (tol : K) (htol : 0 < tol) (pj p : ℕ) (hpj : 2 ≤ pj) (hle : pj ≤ p)
    (x0 xl : K) (L : List α) (v : α → K) (f : α → ℕ) (hf : ∀ e ∈ L, f e ≤ pj - 1)
    (hgap : Separated (2 * ((p - 1 : ℕ) : K) * tol) (clampedU x0 xl (L.map v)))
    (o : Obj K) (hw : C06.WF o 1)
    (hb : o.basis 0 = openBasis pj (clampedU x0 xl (L.map v)) (clampedM pj (L.map f))) (isCurve : Bool) :
    RaisesTo tol isCurve 1 0 pj p x0 xl L v f o := by
  obtain ⟨r, o', h1, h2, h3, h4⟩ := raise_to_common tol htol pj p hpj hle x0 xl L v f hf hgap o hw hb isCurve
  exact ⟨r, o', h1, h2, h3, h4, fun k hk => absurd (Subsingleton.elim k 0) hk⟩

end C12

end Splipy
