import Splipy.Lemmas.C07SplitPer
import Splipy.Lemmas.C07Mult
import Splipy.Lemmas.C06Tensor
import Splipy.Lemmas.C19Objects

/-! The seam split inside `G2.write`: from the C07 theorem about `Obj.split` to a well-formed
token-level object. -/

namespace Splipy.C19Seam

set_option linter.unusedSectionVars false
set_option linter.unusedVariables false

open Splipy C04 Splipy.FileIO

variable {K : Type} [Field K] [LinearOrder K] [IsStrictOrderedRing K] [FloorRing K]

/-- A tensor built by `build3` has as many entries as its shape says. -/
theorem build3_data_size (shape : List ℕ) (axis m : ℕ) (f : ℕ → ℕ → ℕ → K) (hax : axis < shape.length) :
    (Tensor.build3 shape axis m f).data.size = Tensor.prod (Tensor.build3 shape axis m f).shape := by
  unfold Tensor.build3
  simp only [Tensor.split3, Array.size_ofFn]
  rw [C06.prod_split (shape.set axis m) axis (by rw [List.length_set]; exact hax)]
  have h1 : (shape.set axis m).take axis = shape.take axis := by
    rw [List.take_set_of_le (le_refl _)]
  have h2 : (shape.set axis m).drop (axis + 1) = shape.drop (axis + 1) := by
    rw [List.drop_set_of_lt (by omega)]
  have h3 : (shape.set axis m).getD axis 1 = m := by
    simp [List.getD_eq_getElem?_getD, List.getElem?_set, hax]
  rw [h1, h2, h3]

/-- Sizes of the object `split` returns for one value of a periodic direction (same hypotheses as
    `C07_split_periodic_partial`, every valid periodic basis): the number of bases is unchanged and the control-point array has
    the length its shape demands. -/
theorem split_periodic_single_sizes (o : Splipy.Obj K) (dir : ℕ) (hdir : dir < o.bases.size)
    (hax : dir < o.cps.shape.length) (hv : (o.basis dir).Valid) (k : ℕ)
    (hk : (o.basis dir).periodic = (k : Int))
    (hshape : o.cps.shape.getD dir 0 = (o.basis dir).numFunctions) {tol x0 : K} (htol : 0 < tol)
    (hx : (o.basis dir).start ≤ x0 ∧ x0 < (o.basis dir).stop)
    (hexR : ∀ i, i < (o.basis dir).knots.size →
      (o.basis dir).kn i ≤ x0 ∨ x0 + tol ≤ (o.basis dir).kn i)
    (hexL : ∀ i, i < (o.basis dir).knots.size →
      (o.basis dir).kn i < x0 - tol ∨ x0 ≤ (o.basis dir).kn i)
    (op : Splipy.Obj K) (hop : o.split tol [x0] dir = .ok (.single op)) :
    op.bases.size = o.bases.size ∧ op.cps.data.size = Tensor.prod op.cps.shape := by
  have hMult := hMult_of_exact_all o dir hdir hv k hk hshape htol hx hexR hexL
  obtain ⟨so, C, m, hso, hR, hother, hrat, hshp, hout, hinn, hfib, hbases⟩ :=
    splitInsert_single_periodic_all o dir hdir hax hv k hk hshape tol x0
  obtain ⟨hM1, hM2⟩ := hMult so hso
  set b := o.basis dir with hb
  set b' := so.basis dir with hb'
  set mu := b'.bisectL x0 with hmudef
  have hv' : b'.Valid := hR.valid
  have hper' : 0 ≤ b'.periodic := by rw [hR.periodic_eq, hk]; omega
  have hktn : b'.periodic.toNat = k := by rw [hR.periodic_eq, hk]; omega
  have hp := hv.order_pos
  have hpk : k + 2 ≤ b.order := by
    rcases hv.periodic_le with h | h
    · rw [hk] at h; omega
    · rw [hk] at h; omega
  have hord : b'.order = b.order := hR.order_eq
  have hn' : b'.numFunctions = b.numFunctions + m := hR.num_eq
  have hsize' := Basis.per_size hv' hper'
  have hnAll' := Basis.per_nAll hv' hper'
  rw [hktn] at hsize' hnAll'
  have hmu_lt : mu + b.order - 1 < b'.nAll := by
    by_contra hc
    have h1 : b'.kn b'.nAll ≤ b'.kn (mu + b.order - 1) := hv'.kn_mono (by omega)
    have h2 : b'.kn b'.nAll = b.stop := by rw [← hR.stop_eq]; rfl
    rw [h2, hM2] at h1
    exact absurd hx.2 (not_lt.2 h1)
  have hmu_le : mu ≤ b'.numFunctions := by omega
  obtain ⟨b1, hroll, _⟩ := Basis.roll_spec hv' hper' mu hmu_le
  have hsplit := split_single_unfold o so tol x0 dir b1 hso (by rw [← hb', hR.periodic_eq, hk]; omega)
    (by rw [← hb', ← hmudef, hktn]; omega) hroll
  rw [hsplit] at hop
  have e : so.openedAt dir mu b1 = op := by
    have := Except.ok.inj hop
    injection this
  subst e
  constructor
  · show (so.bases.set! dir _).size = o.bases.size
    rw [size_set!, hbases, size_set!]
  · show (so.cps.rollAxisNeg dir mu).data.size = Tensor.prod (so.cps.rollAxisNeg dir mu).shape
    unfold Tensor.rollAxisNeg Tensor.reindexAxis
    exact build3_data_size _ _ _ _ (by rw [hshp, List.length_set]; exact hax)

end Splipy.C19Seam

namespace Splipy.C19Seam

set_option linter.unusedSectionVars false
set_option linter.unusedVariables false

open Splipy C04 Splipy.FileIO

variable {K : Type} [Field K] [LinearOrder K] [IsStrictOrderedRing K] [FloorRing K]

/-! ### helpers -/

theorem tprod_eq_prod : ∀ (l : List ℕ), Tensor.prod l = l.prod
  | [] => rfl
  | a :: l => by rw [C06.prod_cons, List.prod_cons, tprod_eq_prod l]

theorem knotsOk_of_sorted (tol : K) (htol : 0 ≤ tol) : ∀ (l : List K),
    (∀ i (hi : i + 1 < l.length), l[i] ≤ l[i + 1]) → knotsOk tol l = true
  | [], _ => rfl
  | [_], _ => rfl
  | a :: b :: rest, h => by
    have hab : a ≤ b := h 0 (by simp)
    have ih := knotsOk_of_sorted tol htol (b :: rest) (fun i hi => h (i + 1) (by simpa using hi))
    simp only [knotsOk, Bool.and_eq_true, Bool.not_eq_true', decide_eq_false_iff_not, not_lt]
    exact ⟨by linarith, ih⟩

/-- `chunksOf n` of a list of `m·n` elements: `m` chunks of `n`. -/
theorem chunksOf_spec {α : Type} (n : ℕ) (hn : 1 ≤ n) : ∀ (m fuel : ℕ) (xs : List α),
    xs.length = m * n → m ≤ fuel →
    (chunksOf n fuel xs).length = m ∧ ∀ c ∈ chunksOf n fuel xs, c.length = n
  | 0, fuel, xs, hx, _ => by
    have : xs = [] := List.length_eq_zero_iff.mp (by simpa using hx)
    subst this
    cases fuel <;> simp [chunksOf]
  | m + 1, fuel, xs, hx, hf => by
    obtain ⟨f, rfl⟩ : ∃ f, fuel = f + 1 := ⟨fuel - 1, by omega⟩
    have hne : xs.isEmpty = false := by
      cases xs with
      | nil => simp at hx; rcases hx with h | h <;> omega
      | cons a l => rfl
    have hlen : (xs.drop n).length = m * n := by
      rw [List.length_drop, hx]; ring_nf; omega
    obtain ⟨ih1, ih2⟩ := chunksOf_spec n hn m f (xs.drop n) hlen (by omega)
    simp only [chunksOf, hne, Bool.false_eq_true, if_false, List.length_cons, ih1, List.mem_cons]
    refine ⟨trivial, ?_⟩
    rintro c (rfl | hc)
    · rw [List.length_take, hx]
      have : n ≤ (m + 1) * n := by nlinarith
      omega
    · exact ih2 c hc

theorem openSeamsFrom_skip (tol : K) (o : Splipy.Obj K) : ∀ n i,
    (∀ d, i ≤ d → d < i + n → ¬ (o.basis d).periodic > -1) → openSeamsFrom tol n i o = .ok o
  | 0, _, _ => rfl
  | n + 1, i, h => by
    simp only [openSeamsFrom, openSeam_nonperiodic tol o i (h i (le_refl _) (by omega))]
    exact openSeamsFrom_skip tol o n (i + 1) (fun d h1 h2 => h d (by omega) (by omega))

theorem openSeamsFrom_add (tol : K) : ∀ (a b i : ℕ) (o : Splipy.Obj K),
    openSeamsFrom tol (a + b) i o =
      match openSeamsFrom tol a i o with
      | .error e => .error e
      | .ok o' => openSeamsFrom tol b (i + a) o'
  | 0, b, i, o => by simp [openSeamsFrom]
  | a + 1, b, i, o => by
    rw [show a + 1 + b = (a + b) + 1 by omega]
    simp only [openSeamsFrom]
    cases openSeam tol o i with
    | error e => rfl
    | ok o1 =>
      simp only []
      rw [openSeamsFrom_add tol a b (i + 1) o1, show i + 1 + a = i + (a + 1) by omega]

/-! ### the seam theorem -/

/-- The token-level image of one basis. -/
def conv (b : Basis K) : IOBasis K := ⟨b.order, b.knots.toList, b.periodic⟩

theorem conv_WF (tol : K) (htol : 0 ≤ tol) (b : Basis K) (hv : b.Valid) (hp : b.periodic = -1) :
    (conv b).WF tol where
  order_pos := hv.order_pos
  enough := by simpa [conv] using hv.size_ge
  sorted := by
    apply knotsOk_of_sorted tol htol
    intro i hi
    have hi' : i + 1 < b.knots.size := by simpa [conv] using hi
    have := hv.sorted i hi'
    rw [Basis.kn_of_lt b (by omega : i < b.knots.size), Basis.kn_of_lt b hi'] at this
    simpa [conv] using this
  nonperiodic := hp

theorem conv_numFunctions (b : Basis K) (hp : b.periodic = -1) :
    (conv b).numFunctions = b.numFunctions := by
  simp [conv, IOBasis.numFunctions, Basis.numFunctions, hp]

theorem basis_eq_getElem (o : Splipy.Obj K) (d : ℕ) (hd : d < o.bases.size) : o.basis d = o.bases[d] := by
  simp [Obj.basis, Array.getD, hd]

/-- A well-formed object with exactly one periodic direction `dir` (continuity `k`), under the
    tolerance separation of `C07_split_periodic_partial` for the split value `start`:
    `sepR`/`sepL` say that no knot other than copies of `start` lies within the tolerance of `start`.
    (No lower bound on the number of functions: bases with `n < p + k` are included.) -/
structure PeriodicWF (tol : K) (o : Splipy.Obj K) (dir k nc : ℕ) : Prop where
  pardim : o.bases.size = 1 ∨ o.bases.size = 2 ∨ o.bases.size = 3
  dir_lt : dir < o.bases.size
  shape : o.cps.shape = o.bases.toList.map Basis.numFunctions ++ [nc]
  ncomp_pos : 1 ≤ nc
  valid : ∀ d, d < o.bases.size → (o.basis d).Valid
  periodic_dir : (o.basis dir).periodic = (k : Int)
  others : ∀ d, d < o.bases.size → d ≠ dir → (o.basis d).periodic = -1
  sepR : ∀ i, i < (o.basis dir).knots.size →
    (o.basis dir).kn i ≤ (o.basis dir).start ∨ (o.basis dir).start + tol ≤ (o.basis dir).kn i
  sepL : ∀ i, i < (o.basis dir).knots.size →
    (o.basis dir).kn i < (o.basis dir).start - tol ∨ (o.basis dir).start ≤ (o.basis dir).kn i

theorem PeriodicWF.hax {tol : K} {o : Splipy.Obj K} {dir k nc : ℕ} (h : PeriodicWF tol o dir k nc) :
    dir < o.cps.shape.length := by
  rw [h.shape]; simp; have := h.dir_lt; omega

theorem PeriodicWF.hshape {tol : K} {o : Splipy.Obj K} {dir k nc : ℕ} (h : PeriodicWF tol o dir k nc) :
    o.cps.shape.getD dir 0 = (o.basis dir).numFunctions := by
  have hd := h.dir_lt
  rw [h.shape, List.getD_eq_getElem?_getD, List.getElem?_append_left (by simpa using hd)]
  simp [hd, basis_eq_getElem o dir hd]

theorem PeriodicWF.pardim_eq {tol : K} {o : Splipy.Obj K} {dir k nc : ℕ} (h : PeriodicWF tol o dir k nc) :
    o.pardim = o.bases.size := by
  unfold Obj.pardim; rw [h.shape]; simp

/-- The writer's seam loop on such an object: it succeeds, returns what `split(start, dir)` returns,
    and the token-level image of the result is a well-formed non-periodic object. -/
theorem seam_open {tol : K} (htol : 0 < tol) {o : Splipy.Obj K} {dir k nc : ℕ}
    (h : PeriodicWF tol o dir k nc) (op : Splipy.Obj K) (m : ℕ)
    (hsplit : o.split tol [(o.basis dir).start] dir = .ok (.single op))
    (hvalid : (op.basis dir).Valid) (hper : (op.basis dir).periodic = -1)
    (hnum : (op.basis dir).numFunctions = (o.basis dir).numFunctions + m)
    (hoth : ∀ d, d ≠ dir → op.basis d = o.basis d)
    (hshp : op.cps.shape = o.cps.shape.set dir ((o.basis dir).numFunctions + m)) :
    openSeams tol o = .ok op ∧ (toFile op).WF tol := by
  have hd := h.dir_lt
  have hx : (o.basis dir).start ≤ (o.basis dir).start ∧ (o.basis dir).start < (o.basis dir).stop :=
    ⟨le_refl _, (h.valid dir hd).start_lt_stop⟩
  obtain ⟨hsz, hdata⟩ := split_periodic_single_sizes o dir hd h.hax (h.valid dir hd) k h.periodic_dir
    h.hshape htol hx h.sepR h.sepL op hsplit
  have hopnp : ∀ d, d < o.bases.size → (op.basis d).periodic = -1 := by
    intro d hdd
    by_cases hdd' : d = dir
    · rw [hdd']; exact hper
    · rw [hoth d hdd']; exact h.others d hdd hdd'
  have hopv : ∀ d, d < o.bases.size → (op.basis d).Valid := by
    intro d hdd
    by_cases hdd' : d = dir
    · rw [hdd']; exact hvalid
    · rw [hoth d hdd']; exact h.valid d hdd
  constructor
  · -- the loop
    unfold openSeams
    rw [h.pardim_eq, show o.bases.size = dir + (1 + (o.bases.size - dir - 1)) by omega,
      openSeamsFrom_add, openSeamsFrom_skip tol o dir 0 (by
        intro d _ hdlt
        rw [h.others d (by omega) (by omega)]; decide)]
    simp only []
    rw [openSeamsFrom_add]
    have hstep : openSeamsFrom tol 1 (0 + dir) o = .ok op := by
      simp only [openSeamsFrom, Nat.zero_add, openSeam]
      rw [if_pos (by rw [h.periodic_dir]; omega), hsplit]
    rw [hstep]
    simp only []
    exact openSeamsFrom_skip tol op _ _ (by
      intro d hd1 hd2
      rw [hopnp d (by omega)]; decide)
  · -- well-formedness of the file image
    set L := o.bases.toList.map Basis.numFunctions with hL
    have hLlen : L.length = o.bases.size := by simp [hL]
    have hshape' : op.cps.shape = L.set dir ((o.basis dir).numFunctions + m) ++ [nc] := by
      rw [hshp, h.shape, List.set_append_left _ _ (by rw [hLlen]; exact hd)]
    have hmem : ∀ b ∈ (toFile op).bases, ∃ d, ∃ hdd : d < op.bases.size, b = conv (op.basis d) := by
      intro b hb
      simp only [toFile, List.mem_map] at hb
      obtain ⟨b0, hb0, rfl⟩ := hb
      obtain ⟨d, hdd, rfl⟩ := List.getElem_of_mem hb0
      have hdd' : d < op.bases.size := by simpa using hdd
      exact ⟨d, hdd', by simp [conv, basis_eq_getElem op d hdd']⟩
    have hncomp : (toFile op).ncomp = nc := by simp [toFile, hshape']
    have hshapeF : (toFile op).shape = L.set dir ((o.basis dir).numFunctions + m) := by
      simp [toFile, hshape']
    have hcount := chunksOf_spec nc h.ncomp_pos (L.set dir ((o.basis dir).numFunctions + m)).prod
      op.cps.data.size op.cps.data.toList (by
        rw [Array.length_toList, hdata, hshape', C06.prod_append, tprod_eq_prod]
        simp [Tensor.prod]) (by
        rw [hdata, hshape', C06.prod_append, tprod_eq_prod]
        have : Tensor.prod [nc] = nc := by simp [Tensor.prod]
        rw [this]
        exact Nat.le_mul_of_pos_right _ h.ncomp_pos)
    refine ⟨by simpa [toFile, hsz] using h.pardim, ?_, ?_, ?_, ?_, by rw [hncomp]; exact h.ncomp_pos⟩
    · intro b hb
      obtain ⟨d, hdd, rfl⟩ := hmem b hb
      exact conv_WF tol htol.le _ (hopv d (by omega)) (hopnp d (by omega))
    · rw [hshapeF]
      apply List.ext_getElem
      · simp [toFile, hsz, hLlen]
      · intro d h1 h2
        have hdd : d < o.bases.size := by simpa [hLlen] using h1
        have hdd' : d < op.bases.size := by omega
        have e1 : ((toFile op).bases.map IOBasis.numFunctions)[d] = (conv (op.basis d)).numFunctions := by
          simp [toFile, conv, basis_eq_getElem op d hdd']
        rw [e1, conv_numFunctions _ (hopnp d hdd), List.getElem_set]
        by_cases hdd'' : dir = d
        · rw [if_pos hdd'', ← hdd'', hnum]
        · rw [if_neg hdd'', hoth d (fun e => hdd'' e.symm)]
          simp [hL, basis_eq_getElem o d hdd]
    · rw [hshapeF]; simpa [toFile, hshape'] using hcount.1
    · intro p hp
      rw [hncomp]
      exact hcount.2 p (by simpa [toFile, hshape'] using hp)

end Splipy.C19Seam
