import Mathlib.Algebra.Order.BigOperators.Group.List
import Mathlib.Algebra.BigOperators.Ring.List
import Mathlib.Algebra.Order.Field.Rat
import Splipy.Lemmas.C17EquivFull
import Splipy.Lemmas.C17Tables

/-! Lemmas for C17: weight normalisation and sections (`pnet` of a section is the re-normalised
section of `pnet`). -/

namespace Splipy.MP

/-- all weights (last components) of a net are positive -/
def WPos (c : NdArr (List ℚ)) : Prop := ∀ k, k < c.data.size → 0 < lastD (c.data.getD k [])

theorem wsum_pos {c : NdArr (List ℚ)} (hne : 0 < c.data.size) (h : WPos c) : 0 < wsum c := by
  rw [wsum_eq]
  apply List.sum_pos
  · intro w hw
    simp only [List.mem_map, Array.mem_toList_iff] at hw
    obtain ⟨p, hp, rfl⟩ := hw
    obtain ⟨k, hk, rfl⟩ := Array.mem_iff_getElem.1 hp
    have := h k hk
    simpa [Array.getD_eq_getD_getElem?, hk] using this
  · intro hnil
    have h0 : c.data.size = 0 := by
      have := congrArg List.length hnil; simpa using this
    omega

/-- re-scaling the weights: `p ↦ p[:-1] ++ [p[-1] / S]` -/
def fS (S : ℚ) (p : List ℚ) : List ℚ := p.dropLast ++ [lastD p / S]

theorem lastD_fS (S : ℚ) (p : List ℚ) : lastD (fS S p) = lastD p / S := by
  simp [fS, lastD]

theorem fS_fS (S S' : ℚ) (p : List ℚ) : fS S' (fS S p) = p.dropLast ++ [lastD p / S / S'] := by
  simp [fS, lastD]

theorem wsum_map_fS (c : NdArr (List ℚ)) (S : ℚ) : wsum (c.map (fS S)) = wsum c / S := by
  rw [wsum_eq, wsum_eq]
  simp only [NdArr.map, Array.toList_map, List.map_map]
  have : (lastD ∘ fS S) = fun p => lastD p * S⁻¹ := by
    funext p; simp [lastD_fS, div_eq_mul_inv]
  rw [this, List.sum_map_mul_right, div_eq_mul_inv]

theorem normWeights_map_fS (c : NdArr (List ℚ)) (S : ℚ) (hS : S ≠ 0) :
    normWeights (c.map (fS S)) = normWeights c := by
  rw [normWeights_eq, normWeights_eq, wsum_map_fS]
  simp only [NdArr.map, Array.map_map, NdArr.mk.injEq, true_and]
  congr 1
  funext p
  show fS (wsum c / S) (fS S p) = p.dropLast ++ [lastD p / wsum c]
  rw [fS_fS]
  congr 2
  by_cases hw : wsum c = 0
  · simp [hw]
  · field_simp

/-- the rational form of the control net of an object -/
def qnet (x : Obj) : NdArr (List ℚ) := if x.rational then x.cps else promoteNet x.cps

theorem pnet_eq (x : Obj) : pnet x = (qnet x).map (fS (wsum (qnet x))) := rfl

theorem qnet_shape (x : Obj) : (qnet x).shape = x.cps.shape := by
  unfold qnet; split <;> rfl

theorem qnet_size (x : Obj) : (qnet x).data.size = x.cps.data.size := by
  unfold qnet; split <;> simp [promoteNet, NdArr.map]

theorem sect_map {α β : Type} [Inhabited α] [Inhabited β] (X : NdArr α) (f : α → β) (sec : Sec)
    (hc : (Sec.toReindex sec).Consistent X.shape.length = true) (hpos : ∀ n ∈ X.shape, 0 < n)
    (hsz : X.data.size = shapeSize X.shape) : (X.map f).sect sec = (X.sect sec).map f :=
  apply_map (Sec.toReindex sec) X f hc hpos hsz

theorem sec_consistent {n : ℕ} (hn : n ≤ 3) {sec : Sec} (hs : sec.length = n) :
    (Sec.toReindex sec).Consistent n = true := by
  have hst := sectionTable hn (Orientation.identity_wf n) hs
  simp only [sectionRow, Bool.and_eq_true, decide_eq_true_eq] at hst
  exact hst.1.1.1.1.1.2

theorem qnet_sect (x : Obj) (sec : Sec) (hn : x.pardim ≤ 3) (hs : sec.length = x.pardim)
    (hg : x.Good) : qnet (x.sect sec) = (qnet x).sect sec := by
  unfold qnet
  rw [Obj.sect]
  simp only
  split
  · rfl
  · have hax : x.cps.shape.length = x.pardim := hg.axes
    exact (sect_map x.cps _ sec (by rw [hax]; exact sec_consistent hn hs) hg.pos hg.size).symm

/-- **`pnet` of a section** = the section of `pnet`, re-normalised -/
theorem pnet_sect (x : Obj) (sec : Sec) (hn : x.pardim ≤ 3) (hs : sec.length = x.pardim)
    (hg : x.Good) (hS : wsum (qnet x) ≠ 0) :
    pnet (x.sect sec) = normWeights ((pnet x).sect sec) := by
  have hcons : (Sec.toReindex sec).Consistent (qnet x).shape.length = true := by
    rw [qnet_shape, show x.cps.shape.length = x.pardim from hg.axes]; exact sec_consistent hn hs
  have hqpos : ∀ n ∈ (qnet x).shape, 0 < n := by rw [qnet_shape]; exact hg.pos
  have hqsz : (qnet x).data.size = shapeSize (qnet x).shape := by
    rw [qnet_size, qnet_shape]; exact hg.size
  rw [pnet_eq x, sect_map (qnet x) _ sec hcons hqpos hqsz, normWeights_map_fS _ _ hS]
  show normWeights (qnet (x.sect sec)) = _
  rw [qnet_sect x sec hn hs hg]

end Splipy.MP
