import Splipy.Lemmas.C14Energy
import Splipy.Lemmas.C14Bezier
set_option linter.unusedSectionVars false
set_option linter.unusedSimpArgs false

/-!
# C14: `cubic_curve(…, HERMITE)` — knot vector, assembled system, solvability

Knot vector `t₀⁴, t₁², …, t_{n−2}², t_{n−1}⁴` (`2n` basis functions); `n` interpolation rows and `n`
derivative rows.  Uniqueness is local: on every span the cubic piece has value and derivative zero at
both ends, hence vanishes.
-/

namespace Splipy
open Finset
namespace Interp
variable {K : Type} [Field K] [LinearOrder K] [IsStrictOrderedRing K]

/-- Every element twice. -/
def dbl : List K → List K
  | [] => []
  | u :: l => u :: u :: dbl l

omit [Field K] [LinearOrder K] [IsStrictOrderedRing K] in
theorem dbl_length (l : List K) : (dbl l).length = 2 * l.length := by
  induction l with
  | nil => rfl
  | cons u l ih => simp [dbl, ih]; omega

omit [LinearOrder K] [IsStrictOrderedRing K] in
theorem dbl_getD (l : List K) (i : ℕ) : (dbl l).getD i 0 = l.getD (i / 2) 0 := by
  induction l generalizing i with
  | nil => simp [dbl]
  | cons u l ih =>
    match i with
    | 0 => simp [dbl]
    | 1 => simp [dbl]
    | i + 2 =>
      have : (i + 2) / 2 = i / 2 + 1 := by omega
      rw [this]
      simp only [dbl, List.getD_cons_succ]
      exact ih i

omit [Field K] [LinearOrder K] [IsStrictOrderedRing K] in
theorem dbl_perm (l : List K) : (l ++ l).Perm (dbl l) := by
  induction l with
  | nil => simp [dbl]
  | cons u l ih =>
    simp only [dbl, List.cons_append]
    refine List.Perm.cons u ?_
    exact (List.perm_middle).trans (List.Perm.cons u ih)

/-- Which data parameter the `i`-th knot of the HERMITE knot vector is (`n` = number of points). -/
def hermIdx (n i : ℕ) : ℕ := if i < 4 then 0 else if i < 2 * n then (i - 2) / 2 else n - 1

/-- The HERMITE knot list. -/
def hermKnots (a d : K) (mid : List K) : List K := [a, a, a, a] ++ dbl mid ++ [d, d, d, d]

/-- The basis `cubic_curve` builds for `HERMITE` from `t = a :: (mid ++ [d])`. -/
def hermBasis (a d : K) (mid : List K) : Basis K :=
  { order := 4, knots := (hermKnots a d mid).toArray, periodic := -1 }

omit [LinearOrder K] [IsStrictOrderedRing K] in
theorem hermKnots_length (a d : K) (mid : List K) : (hermKnots a d mid).length = 2 * mid.length + 8 := by
  unfold hermKnots; simp [dbl_length]

omit [LinearOrder K] [IsStrictOrderedRing K] in
theorem hermBasis_numFunctions (a d : K) (mid : List K) :
    (hermBasis a d mid).numFunctions = 2 * mid.length + 4 := by
  unfold hermBasis Basis.numFunctions
  simp [hermKnots_length]

omit [LinearOrder K] [IsStrictOrderedRing K] in
theorem hermBasis_size (a d : K) (mid : List K) : (hermBasis a d mid).knots.size = 2 * mid.length + 8 := by
  unfold hermBasis; simp [hermKnots_length]

omit [LinearOrder K] [IsStrictOrderedRing K] in
theorem hermKnots_getD (a d : K) (mid : List K) (i : ℕ) (hi : i < 2 * mid.length + 8) :
    (hermKnots a d mid).getD i 0 = (a :: (mid ++ [d])).getD (hermIdx (mid.length + 2) i) 0 := by
  unfold hermKnots hermIdx
  by_cases h4 : i < 4
  · rw [if_pos h4]
    interval_cases i <;> simp
  · rw [if_neg h4]
    obtain ⟨k, rfl⟩ : ∃ k, i = k + 4 := ⟨i - 4, by omega⟩
    by_cases hn : k + 4 < 2 * (mid.length + 2)
    · rw [if_pos hn]
      have hk : k < 2 * mid.length := by omega
      have e : (k + 4 - 2) / 2 = k / 2 + 1 := by omega
      rw [e]
      have h1 : ([a, a, a, a] ++ dbl mid ++ [d, d, d, d]).getD (k + 4) 0 = (dbl mid).getD k 0 := by
        simp [List.getD_eq_getElem?_getD, List.getElem?_append_left, dbl_length, hk]
      rw [h1, dbl_getD]
      have hk2 : k / 2 < mid.length := by omega
      simp [List.getD_eq_getElem?_getD, List.getElem?_append_left, hk2]
    · rw [if_neg hn]
      obtain ⟨r, rfl⟩ : ∃ r, k = 2 * mid.length + r := ⟨k - 2 * mid.length, by omega⟩
      have hr : r < 4 := by omega
      have e2 : (a :: (mid ++ [d])).getD (mid.length + 2 - 1) 0 = d := by
        rw [show mid.length + 2 - 1 = mid.length + 1 by omega]
        simp [List.getD_eq_getElem?_getD, List.getElem?_append_right]
      rw [e2]
      have hl : ([a, a, a, a] ++ dbl mid).length = 2 * mid.length + 4 := by simp [dbl_length]
      rw [List.getD_eq_getElem?_getD, List.getElem?_append_right (by rw [hl]; omega), hl]
      have : 2 * mid.length + r + 4 - (2 * mid.length + 4) = r := by omega
      rw [this]
      interval_cases r <;> simp

omit [LinearOrder K] [IsStrictOrderedRing K] in
theorem hermBasis_kn (a d : K) (mid : List K) (i : ℕ) :
    (hermBasis a d mid).kn i = (a :: (mid ++ [d])).getD (hermIdx (mid.length + 2) i) 0 := by
  have hlast := hermKnots_getD a d mid (2 * mid.length + 7) (by omega)
  have e9 : hermIdx (mid.length + 2) (2 * mid.length + 7) = mid.length + 2 - 1 := by
    unfold hermIdx; rw [if_neg (by omega), if_neg (by omega)]
  unfold Basis.kn hermBasis
  simp only [getD_toArray_c14, List.size_toArray, hermKnots_length]
  rw [show 2 * mid.length + 8 - 1 = 2 * mid.length + 7 by omega, hlast, e9]
  by_cases hi : i < 2 * mid.length + 8
  · rw [← hermKnots_getD a d mid i hi]
    simp only [List.getD_eq_getElem?_getD]
    rw [List.getElem?_eq_getElem (by rw [hermKnots_length]; exact hi)]
    simp
  · rw [List.getD_eq_default _ _ (by rw [hermKnots_length]; omega)]
    congr 1
    unfold hermIdx; rw [if_neg (by omega), if_neg (by omega)]

theorem hermIdx_lt (n i : ℕ) (hn : 2 ≤ n) : hermIdx n i < n := by
  unfold hermIdx; split_ifs <;> omega

theorem hermIdx_mono (n i j : ℕ) (hn : 2 ≤ n) (h : i ≤ j) : hermIdx n i ≤ hermIdx n j := by
  unfold hermIdx; split_ifs <;> omega

section facts
variable (a d : K) (mid : List K) (tol : K)
  (hgap : ∀ i j, i < j → j < mid.length + 2 →
    (a :: (mid ++ [d])).getD i 0 + tol ≤ (a :: (mid ++ [d])).getD j 0)
  (htol : 0 < tol)

include hgap htol

theorem hermBasis_valid : (hermBasis a d mid).Valid where
  order_pos := by unfold hermBasis; simp
  size_ge := by rw [hermBasis_size]; unfold hermBasis; simp
  sorted := by
    intro i _
    rw [hermBasis_kn, hermBasis_kn]
    exact nat_T_mono a d mid tol hgap htol _ _ (hermIdx_mono _ _ _ (by omega) (by omega))
      (hermIdx_lt _ _ (by omega))
  periodic_ge := by unfold hermBasis; simp
  periodic_le := by unfold hermBasis; simp
  start_lt_stop := by
    unfold Basis.start Basis.stop
    rw [hermBasis_kn, hermBasis_kn, hermBasis_size]
    have e1 : hermIdx (mid.length + 2) ((hermBasis a d mid).order - 1) = 0 := by
      unfold hermIdx hermBasis; simp
    have e2 : hermIdx (mid.length + 2) (2 * mid.length + 8 - (hermBasis a d mid).order) = mid.length + 1 := by
      unfold hermIdx hermBasis
      simp only
      rw [if_neg (by omega), if_neg (by omega)]
      omega
    rw [e1, e2]
    exact nat_T_strict a d mid tol hgap htol 0 (mid.length + 1) (by omega) (by omega)
  ghosts := fun h => absurd h (by unfold hermBasis; simp)

theorem herm_exact (l : ℕ) (hl : l < mid.length + 2) :
    (hermBasis a d mid).ExactAt tol ((a :: (mid ++ [d])).getD l 0) := by
  intro i _
  rw [hermBasis_kn]
  have hk := hermIdx_lt (mid.length + 2) i (by omega)
  rcases Nat.lt_trichotomy (hermIdx (mid.length + 2) i) l with h | h | h
  · right
    have := hgap _ _ h hl
    rw [abs_sub_comm, abs_of_nonneg (by linarith)]
    linarith
  · left; rw [h]
  · right
    have := hgap _ _ h hk
    rw [abs_of_nonneg (by linarith)]
    linarith

theorem herm_start : (hermBasis a d mid).start = a := by
  unfold Basis.start
  rw [hermBasis_kn]
  have : hermIdx (mid.length + 2) ((hermBasis a d mid).order - 1) = 0 := by unfold hermIdx hermBasis; simp
  rw [this]; simp

theorem herm_stop : (hermBasis a d mid).stop = d := by
  unfold Basis.stop
  rw [hermBasis_kn, hermBasis_size]
  have : hermIdx (mid.length + 2) (2 * mid.length + 8 - (hermBasis a d mid).order) = mid.length + 1 := by
    unfold hermIdx hermBasis
    simp only
    rw [if_neg (by omega), if_neg (by omega)]
    omega
  rw [this]
  simp [List.getD_eq_getElem?_getD, List.getElem?_append_right]

theorem herm_in_domain (l : ℕ) (hl : l < mid.length + 2) :
    (hermBasis a d mid).start ≤ (a :: (mid ++ [d])).getD l 0 ∧
    (a :: (mid ++ [d])).getD l 0 ≤ (hermBasis a d mid).stop := by
  rw [herm_start a d mid tol hgap htol, herm_stop a d mid tol hgap htol]
  constructor
  · have := nat_T_mono a d mid tol hgap htol 0 l (by omega) hl
    simpa using this
  · have := nat_T_mono a d mid tol hgap htol l (mid.length + 1) (by omega) (by omega)
    have e : (a :: (mid ++ [d])).getD (mid.length + 1) 0 = d := by
      simp [List.getD_eq_getElem?_getD, List.getElem?_append_right]
    rw [e] at this
    exact this

theorem hermKnots_sorted : (hermKnots a d mid).Pairwise (· ≤ ·) := by
  rw [List.pairwise_iff_getElem]
  intro i j hi hj hij
  rw [hermKnots_length] at hi hj
  have e1 := hermKnots_getD a d mid i hi
  have e2 := hermKnots_getD a d mid j hj
  simp only [List.getD_eq_getElem?_getD] at e1 e2
  rw [List.getElem?_eq_getElem (by rw [hermKnots_length]; exact hi)] at e1
  rw [List.getElem?_eq_getElem (by rw [hermKnots_length]; exact hj)] at e2
  simp only [Option.getD_some] at e1 e2
  rw [e1, e2]
  have := nat_T_mono a d mid tol hgap htol _ _ (hermIdx_mono (mid.length + 2) i j (by omega) hij.le)
    (hermIdx_lt _ _ (by omega))
  simpa [List.getD_eq_getElem?_getD] using this

end facts

section knots
variable [FloorRing K]

theorem cubicKnots_HERMITE (a d : K) (mid : List K) (tol : K)
    (hgap : ∀ i j, i < j → j < mid.length + 2 →
      (a :: (mid ++ [d])).getD i 0 + tol ≤ (a :: (mid ++ [d])).getD j 0) (htol : 0 < tol) :
    cubicKnots bHERMITE (a :: (mid ++ [d])) = .ok (hermKnots a d mid) := by
  have e0 : pyGet (a :: (mid ++ [d])) 0 = .ok a := pyGet_nat _ 0 (by simp)
  have e9 : pyGet (a :: (mid ++ [d])) (-1) = .ok d := by
    have := pyGet_neg (a :: (mid ++ [d])) 1 (by omega) (by simp)
    simpa using this
  unfold cubicKnots
  simp only [e0, e9, bind, Except.bind, pure, Except.pure]
  rw [if_neg (by decide), if_pos trivial]
  congr 1
  have hdrop : ((a :: (mid ++ [d])).drop 1).dropLast = mid := by simp
  rw [hdrop]
  obtain ⟨hperm, hsorted⟩ := sortK_spec (List.replicate 3 a ++ (a :: (mid ++ [d])) ++ List.replicate 3 d ++ mid)
  apply List.Perm.eq_of_pairwise (le := (· ≤ ·)) (fun x y _ _ h1 h2 => le_antisymm h1 h2) hsorted
    (hermKnots_sorted a d mid tol hgap htol)
  refine hperm.trans ?_
  unfold hermKnots
  have e1 : List.replicate 3 a ++ (a :: (mid ++ [d])) ++ List.replicate 3 d ++ mid
      = [a, a, a, a] ++ (mid ++ ([d, d, d, d] ++ mid)) := by simp [List.replicate]
  have e2 : [a, a, a, a] ++ dbl mid ++ [d, d, d, d] = [a, a, a, a] ++ (dbl mid ++ [d, d, d, d]) := by simp
  rw [e1, e2]
  refine List.Perm.append_left _ ?_
  have : (mid ++ ([d, d, d, d] ++ mid)).Perm ((mid ++ mid) ++ [d, d, d, d]) := by
    rw [List.append_assoc]
    exact List.Perm.append_left _ List.perm_append_comm
  exact this.trans (List.Perm.append_right _ (dbl_perm mid))

end knots

end Interp
end Splipy

namespace Splipy
open Finset Polynomial

section abstractH
variable {K : Type} [Field K] [LinearOrder K] [IsStrictOrderedRing K]

/-- A cubic with value and first derivative zero at two distinct points is zero. -/
theorem cubic_hermite_zero_c14 (c0 c1 c2 c3 u v : K) (huv : u ≠ v)
    (h0 : c0 + c1 * u + c2 * u ^ 2 + c3 * u ^ 3 = 0) (h1 : c1 + 2 * c2 * u + 3 * c3 * u ^ 2 = 0)
    (h2 : c0 + c1 * v + c2 * v ^ 2 + c3 * v ^ 3 = 0) (h3 : c1 + 2 * c2 * v + 3 * c3 * v ^ 2 = 0) :
    c0 = 0 ∧ c1 = 0 ∧ c2 = 0 ∧ c3 = 0 := by
  have hne : v - u ≠ 0 := sub_ne_zero.mpr (Ne.symm huv)
  have e3 : c3 * (v - u) ^ 3 = 0 := by
    have : c3 * (v - u) ^ 3 = ((c1 + 2 * c2 * v + 3 * c3 * v ^ 2) + (c1 + 2 * c2 * u + 3 * c3 * u ^ 2)) * (v - u)
        - 2 * ((c0 + c1 * v + c2 * v ^ 2 + c3 * v ^ 3) - (c0 + c1 * u + c2 * u ^ 2 + c3 * u ^ 3)) := by ring
    rw [this, h0, h1, h2, h3]; ring
  have z3 : c3 = 0 := by
    rcases mul_eq_zero.mp e3 with h | h
    · exact h
    · exact absurd (pow_eq_zero_iff (by decide) |>.mp h) hne
  subst z3
  have e2 : c2 * (v - u) ^ 2 = 0 := by
    have : c2 * (v - u) ^ 2 = ((c0 + c1 * v + c2 * v ^ 2 + 0 * v ^ 3) - (c0 + c1 * u + c2 * u ^ 2 + 0 * u ^ 3))
        - (c1 + 2 * c2 * u + 3 * 0 * u ^ 2) * (v - u) := by ring
    rw [this, h0, h1, h2]; ring
  have z2 : c2 = 0 := by
    rcases mul_eq_zero.mp e2 with h | h
    · exact h
    · exact absurd (pow_eq_zero_iff (by decide) |>.mp h) hne
  subst z2
  have z1 : c1 = 0 := by linarith
  subst z1
  have z0 : c0 = 0 := by linarith
  exact ⟨z0, rfl, rfl, rfl⟩

/-- If every polynomial piece of a clamped cubic spline vanishes, so do its coefficients. -/
theorem pieces_zero_imp_c14 (τ : ℕ → K) (hτ : Monotone τ) (n : ℕ) (hn : 4 ≤ n)
    (hc0 : τ 0 = τ 3) (hc1 : τ n = τ (n + 3)) (hmult : ∀ i, 1 ≤ i → i < n → τ i < τ (i + 3))
    (Nn : ℕ) (hN : 0 < Nn) (T : ℕ → K) (σ : ℕ → ℕ)
    (hσ0 : ∀ k < Nn, τ (σ k) = T k) (hσ1 : ∀ k < Nn, τ (σ k + 1) = T (k + 1))
    (hTs : ∀ k < Nn, T k < T (k + 1)) (hfirst : τ 3 = T 0) (hlast : τ n = T Nn)
    (y : ℕ → K) (hP : ∀ k < Nn, piece_c14 τ (σ k) n y = 0) : ∀ j < n, y j = 0 := by
  have hG := greville_nestedPts τ hτ 3 n (by omega) (by omega) hc0 hc1 hmult
  apply greville_colloc_injective τ hτ 3 n (by omega) (by omega) hc0 hc1 hmult y
  intro l hl
  have hf : grevilleAbscissa τ 3 0 = T 0 := by rw [hG.first, hfirst]
  have hla : grevilleAbscissa τ 3 (n - 1) = T Nn := by rw [hG.last, hlast]
  by_cases hll : l + 1 = n
  · have hl' : l = n - 1 := by omega
    have hs : grevSide n l = .left := by unfold grevSide; rw [if_pos hll]
    rw [hs, hl', hla]
    have hmem : Side.left.mem (τ (σ (Nn - 1))) (τ (σ (Nn - 1) + 1)) (T Nn) := by
      rw [hσ0 (Nn - 1) (by omega), hσ1 (Nn - 1) (by omega), show Nn - 1 + 1 = Nn by omega]
      have := hTs (Nn - 1) (by omega)
      rw [show Nn - 1 + 1 = Nn by omega] at this
      exact ⟨this, le_refl _⟩
    have := sum_dB_eq_piece_c14 .left τ hτ (σ (Nn - 1)) n 0 y (T Nn) hmem
    simp only [Function.iterate_zero, id_eq] at this
    rw [hP (Nn - 1) (by omega), eval_zero] at this
    rw [← this]
    exact sum_congr rfl (fun j _ => by rw [dB_zero, mul_comm])
  · have hs : grevSide n l = .right := by unfold grevSide; rw [if_neg hll]
    rw [hs]
    have h0 : T 0 ≤ grevilleAbscissa τ 3 l := by
      rw [← hf]
      rcases Nat.eq_zero_or_pos l with h | h
      · rw [h]
      · have := hG.strict 0 (l - 1) (by omega)
        rw [show 0 + (l - 1) + 1 = l by omega] at this
        exact this.le
    have h1 : grevilleAbscissa τ 3 l < T Nn := by
      rw [← hla]
      obtain ⟨e, he⟩ : ∃ e, n - 1 = l + e + 1 := ⟨n - 1 - l - 1, by omega⟩
      have := hG.strict l e (by omega)
      rw [← he] at this
      exact this
    obtain ⟨k, hk, hk1, hk2⟩ := find_span_c14 Nn T _ h0 h1
    have hmem : Side.right.mem (τ (σ k)) (τ (σ k + 1)) (grevilleAbscissa τ 3 l) := by
      rw [hσ0 k hk, hσ1 k hk]
      exact ⟨hk1, hk2⟩
    have := sum_dB_eq_piece_c14 .right τ hτ (σ k) n 0 y _ hmem
    simp only [Function.iterate_zero, id_eq] at this
    rw [hP k hk, eval_zero] at this
    rw [← this]
    exact sum_congr rfl (fun j _ => by rw [dB_zero, mul_comm])

end abstractH
end Splipy

namespace Splipy
open Finset Polynomial
namespace Interp
variable {K : Type} [Field K] [LinearOrder K] [IsStrictOrderedRing K]

/-- **Uniqueness of the cubic Hermite spline** (value and first derivative prescribed at every
parameter) on every strictly increasing parameter sequence — local argument, span by span. -/
theorem hermite_unique (a d : K) (mid : List K) (tol : K) (htol : 0 < tol)
    (hgap : ∀ i j, i < j → j < mid.length + 2 →
      (a :: (mid ++ [d])).getD i 0 + tol ≤ (a :: (mid ++ [d])).getD j 0)
    (y : ℕ → K)
    (H : ∀ e, e ≤ 1 → ∀ i < mid.length + 2, ∑ j ∈ range (2 * mid.length + 4),
      dB (effSide (hermBasis a d mid) ((a :: (mid ++ [d])).getD i 0) true) (hermBasis a d mid).kn 3 j e
        ((a :: (mid ++ [d])).getD i 0) * y j = 0) :
    ∀ j < 2 * mid.length + 4, y j = 0 := by
  set b := hermBasis a d mid with hb
  set τ := b.kn with hτdef
  have hv : b.Valid := hermBasis_valid a d mid tol hgap htol
  have hτ : Monotone τ := hv.kn_mono
  set T : ℕ → K := fun k => (a :: (mid ++ [d])).getD k 0 with hTdef
  have hTs : ∀ i j, i < j → j < mid.length + 2 → T i < T j := nat_T_strict a d mid tol hgap htol
  have hτT : ∀ i, τ i = T (hermIdx (mid.length + 2) i) := fun i => hermBasis_kn a d mid i
  have hτk : ∀ k, k ≤ mid.length + 1 → τ (2 * k + 3) = T k := by
    intro k hk
    rw [hτT]; congr 1; unfold hermIdx; split_ifs <;> omega
  have hτk1 : ∀ k, k ≤ mid.length → τ (2 * k + 3 + 1) = T (k + 1) := by
    intro k hk
    rw [hτT]; congr 1; unfold hermIdx; split_ifs <;> omega
  have hTN : T (mid.length + 1) = d := by
    simp [hTdef, List.getD_eq_getElem?_getD, List.getElem?_append_right]
  have hstop : b.stop = d := herm_stop a d mid tol hgap htol
  have hTinj : ∀ i j, i < mid.length + 2 → j < mid.length + 2 → T i = T j → i = j := by
    intro i j hi hj h
    rcases Nat.lt_trichotomy i j with h1 | h1 | h1
    · exact absurd h (ne_of_lt (hTs i j h1 hj))
    · exact h1
    · exact absurd h.symm (ne_of_lt (hTs j i h1 hi))
  have hside_r : ∀ i, i < mid.length + 1 → effSide b (T i) true = .right := by
    intro i hi
    unfold effSide
    rw [hstop, ← hTN, if_neg (ne_of_lt (hTs i _ hi (by omega)))]; rfl
  have hside_l : effSide b (T (mid.length + 1)) true = .left := by
    unfold effSide; rw [hstop, hTN, if_pos rfl]
  have hdouble : ∀ k, 1 ≤ k → k ≤ mid.length → ∀ i, τ i = T k → τ (i + 2) ≠ T k := by
    intro k h1 h2 i hi
    rw [hτT] at hi ⊢
    have hk := hTinj _ _ (hermIdx_lt _ i (by omega)) (by omega) hi
    have hk' : hermIdx (mid.length + 2) (i + 2) = k + 1 := by
      unfold hermIdx at hk ⊢; split_ifs at hk ⊢ <;> omega
    rw [hk']
    exact ne_of_gt (hTs k (k+1) (by omega) (by omega))
  have hmemR : ∀ k, k ≤ mid.length → Side.right.mem (τ (2 * k + 3)) (τ (2 * k + 3 + 1)) (T k) := by
    intro k hk
    rw [hτk k (by omega), hτk1 k hk]
    exact ⟨le_refl _, hTs k (k+1) (by omega) (by omega)⟩
  have hmemL : ∀ k, k ≤ mid.length → Side.left.mem (τ (2 * k + 3)) (τ (2 * k + 3 + 1)) (T (k + 1)) := by
    intro k hk
    rw [hτk k (by omega), hτk1 k hk]
    exact ⟨hTs k (k+1) (by omega) (by omega), le_refl _⟩
  set P : ℕ → K[X] := fun k => piece_c14 τ (2 * k + 3) (2 * mid.length + 4) y with hP
  have hdeg : ∀ k, (P k).natDegree ≤ 3 := fun k => natDegree_piece_c14 _ _ _ _
  have HR : ∀ e, e ≤ 1 → ∀ i, i ≤ mid.length →
      ∑ j ∈ range (2 * mid.length + 4), dB .right τ 3 j e (T i) * y j = 0 := by
    intro e he i hi
    have := H e he i (by omega)
    rw [hside_r i (by omega)] at this
    exact this
  have HL : ∀ e, e ≤ 1 → ∑ j ∈ range (2 * mid.length + 4), dB .left τ 3 j e (T (mid.length + 1)) * y j = 0 := by
    intro e he
    have := H e he (mid.length + 1) (by omega)
    rw [hside_l] at this
    exact this
  have hLR : ∀ k, 1 ≤ k → k ≤ mid.length → ∀ dd, dd ≤ 1 →
      ∑ j ∈ range (2 * mid.length + 4), dB .left τ 3 j dd (T k) * y j
        = ∑ j ∈ range (2 * mid.length + 4), dB .right τ 3 j dd (T k) * y j := by
    intro k h1 h2 dd hdd
    apply sum_congr rfl
    intro j _
    rw [dB_left_eq_right τ hτ (T k) 2 3 j dd (by omega) (hdouble k h1 h2)]
  -- value/derivative of the piece at the right end of its span
  have HLk : ∀ e, e ≤ 1 → ∀ k, k ≤ mid.length →
      ∑ j ∈ range (2 * mid.length + 4), dB .left τ 3 j e (T (k + 1)) * y j = 0 := by
    intro e he k hk
    by_cases hk1 : k + 1 = mid.length + 1
    · rw [hk1]; exact HL e he
    · rw [hLR (k+1) (by omega) (by omega) e he]; exact HR e he (k+1) (by omega)
  have hPzero : ∀ k, k < mid.length + 1 → P k = 0 := by
    intro k hk
    have ev0 := cubic_evals_c14 (P k) (hdeg k) (T k)
    have ev1 := cubic_evals_c14 (P k) (hdeg k) (T (k + 1))
    have a0 := sum_dB_eq_piece_c14 .right τ hτ (2 * k + 3) (2 * mid.length + 4) 0 y (T k) (hmemR k (by omega))
    have a1 := sum_dB_eq_piece_c14 .right τ hτ (2 * k + 3) (2 * mid.length + 4) 1 y (T k) (hmemR k (by omega))
    have b0 := sum_dB_eq_piece_c14 .left τ hτ (2 * k + 3) (2 * mid.length + 4) 0 y (T (k+1)) (hmemL k (by omega))
    have b1 := sum_dB_eq_piece_c14 .left τ hτ (2 * k + 3) (2 * mid.length + 4) 1 y (T (k+1)) (hmemL k (by omega))
    simp only [Function.iterate_zero, id_eq] at a0 b0
    rw [HR 0 (by omega) k (by omega)] at a0
    rw [HR 1 (by omega) k (by omega)] at a1
    rw [HLk 0 (by omega) k (by omega)] at b0
    rw [HLk 1 (by omega) k (by omega)] at b1
    obtain ⟨z0, z1, z2, z3⟩ := cubic_hermite_zero_c14 ((P k).coeff 0) ((P k).coeff 1) ((P k).coeff 2)
      ((P k).coeff 3) (T k) (T (k + 1)) (ne_of_lt (hTs k (k+1) (by omega) (by omega)))
      (by rw [← ev0.1]; exact a0.symm) (by rw [← ev0.2.1]; exact a1.symm)
      (by rw [← ev1.1]; exact b0.symm) (by rw [← ev1.2.1]; exact b1.symm)
    rw [cubic_form_c14 (P k) (hdeg k), z0, z1, z2, z3]; simp
  have hc0 : τ 0 = τ 3 := by rw [hτT, hτT]; unfold hermIdx; simp
  have hc1 : τ (2 * mid.length + 4) = τ (2 * mid.length + 4 + 3) := by
    rw [hτT, hτT]; congr 1; unfold hermIdx; split_ifs <;> omega
  have hmult : ∀ i, 1 ≤ i → i < 2 * mid.length + 4 → τ i < τ (i + 3) := by
    intro i h1 h2
    rw [hτT, hτT]
    apply hTs _ _ _ (hermIdx_lt _ _ (by omega))
    unfold hermIdx; split_ifs <;> omega
  exact pieces_zero_imp_c14 τ hτ (2 * mid.length + 4) (by omega) hc0 hc1 hmult (mid.length + 1) (by omega) T
    (fun k => 2 * k + 3) (fun k hk => hτk k (by omega)) (fun k hk => hτk1 k (by omega))
    (fun k hk => hTs k (k+1) (by omega) (by omega)) (by have := hτk 0 (by omega); simpa using this)
    (by
      have := hτk (mid.length + 1) (le_refl _)
      rw [show 2 * (mid.length + 1) + 3 = 2 * mid.length + 4 + 1 by omega] at this
      rw [← this, hτT, hτT]; congr 1; unfold hermIdx; split_ifs <;> omega)
    y (fun k hk => hPzero k hk)

end Interp
end Splipy

namespace Splipy
open Finset
namespace Interp
variable {K : Type} [Field K] [LinearOrder K] [IsStrictOrderedRing K] [FloorRing K]

/-- **`cubic_curve(x, HERMITE, t, tangents)` succeeds** for every strictly increasing `t` (gaps ≥ tol),
any `n × m` points and any `n × m` prescribed derivatives; the result is `2n × m`. -/
theorem cubicCurve_HERMITE_ok (a d : K) (mid : List K) (tol rt atl : K) (htol : 0 < tol)
    (hgap : ∀ i j, i < j → j < mid.length + 2 →
      (a :: (mid ++ [d])).getD i 0 + tol ≤ (a :: (mid ++ [d])).getD j 0)
    (x : Mat K) (m : ℕ) (hxs : x.size = mid.length + 2 ∧ ∀ i, i < mid.length + 2 → (x.getD i #[]).size = m)
    (g : Mat K) (hg : g.size = mid.length + 2 ∧ ∀ i, i < mid.length + 2 → (g.getD i #[]).size = m) :
    ∃ cp, cubicCurve bHERMITE tol rt atl x (a :: (mid ++ [d])) (some g) = .ok (hermBasis a d mid, cp) ∧
      cp.size = 2 * mid.length + 4 ∧ ∀ i, i < 2 * mid.length + 4 → (cp.getD i #[]).size = m := by
  set t := a :: (mid ++ [d]) with ht
  set b := hermBasis a d mid with hb
  have hv : b.Valid := hermBasis_valid a d mid tol hgap htol
  have hper : b.periodic = -1 := rfl
  have hnf : b.numFunctions = 2 * mid.length + 4 := hermBasis_numFunctions a d mid
  have htl : t.length = mid.length + 2 := by rw [ht]; simp
  have hne : bHERMITE ≠ bPERIODIC := by decide
  have hclose : cubicClose bHERMITE rt atl x = x := by unfold cubicClose; simp [hne]
  have hmk : Basis.mk? 4 (hermKnots a d mid).toArray (-1) tol = .ok b := Basis.mk?_of_valid hv tol htol.le
  have hx0 : (x.getD 0 #[]).size = m := hxs.2 0 (by omega)
  have hall : ∀ (i : ℕ) (hi : i < g.size), g[i].size = m := by
    intro i hi
    have := hg.2 i (by rw [← hg.1]; exact hi)
    have e : g[i] = g.getD i #[] := by simp [Array.getD, hi]
    rw [e, this]
  have hextra : cubicExtra bHERMITE b tol t m (some g) = .ok (colloc b tol t 1, g) := by
    unfold cubicExtra
    simp only [bFREE, bPERIODIC, bTANGENT, bHERMITE, bTANGENTNATURAL, bNATURAL, bind, Except.bind, pure,
      Except.pure]
    simp [hall]
  have hsys : cubicSystem bHERMITE tol rt atl x t (some g)
      = .ok (b, colloc b tol t 0 ++ colloc b tol t 1, x ++ g) := by
    have hkn : cubicKnots bHERMITE t = .ok (hermKnots a d mid) := cubicKnots_HERMITE a d mid tol hgap htol
    unfold cubicSystem
    simp only [hclose, bind, Except.bind, pure, Except.pure, hne, if_false, hkn, hmk, hx0, hextra]
    rw [if_neg (by rw [htl, hxs.1]; simp)]
  set N := colloc b tol t 0 ++ colloc b tol t 1 with hN
  set rhs := x ++ g with hrhs
  have hNsize : N.size = 2 * mid.length + 4 := by
    rw [hN, Array.size_append, size_colloc, size_colloc, htl]; omega
  have hrow0 : ∀ i < mid.length + 2, ∀ j, N.get i j = (b.evaluate tol (t.getD i 0) 0 true).getD j 0 := by
    intro i hi j
    rw [hN, Mat.get_append_left_c14 _ _ _ _ (by rw [size_colloc, htl]; exact hi),
      get_colloc b tol t 0 i j (by rw [htl]; exact hi)]
  have hrow1 : ∀ i < mid.length + 2, ∀ j,
      N.get (mid.length + 2 + i) j = (b.evaluate tol (t.getD i 0) 1 true).getD j 0 := by
    intro i hi j
    have := Mat.get_append_right_c14 (colloc b tol t 0) (colloc b tol t 1) i j
    rw [size_colloc, htl] at this
    rw [hN, this, get_colloc b tol t 1 i j (by rw [htl]; exact hi)]
  have hshapeN : N.size = 2 * mid.length + 4 ∧
      ∀ i, i < 2 * mid.length + 4 → (N.getD i #[]).size = 2 * mid.length + 4 := by
    refine ⟨hNsize, fun i hi => ?_⟩
    rw [hN]
    by_cases h1 : i < mid.length + 2
    · have : (colloc b tol t 0 ++ colloc b tol t 1).getD i #[] = (colloc b tol t 0).getD i #[] := by
        simp [Array.getD, size_colloc, htl, h1, Array.getElem_append_left, Nat.lt_add_right]
      rw [this, row_colloc b tol t 0 i (by rw [htl]; exact h1), size_evaluate_c14, hnf]
    · obtain ⟨r, rfl⟩ : ∃ r, i = mid.length + 2 + r := ⟨i - (mid.length + 2), by omega⟩
      have hr : r < mid.length + 2 := by omega
      have : (colloc b tol t 0 ++ colloc b tol t 1).getD (mid.length + 2 + r) #[]
          = (colloc b tol t 1).getD r #[] := by
        have hs : (colloc b tol t 0).size = mid.length + 2 := by rw [size_colloc, htl]
        have hs2 : (colloc b tol t 1).size = mid.length + 2 := by rw [size_colloc, htl]
        simp [Array.getD, hs, hs2, hr, Array.getElem_append_right]
      rw [this, row_colloc b tol t 1 r (by rw [htl]; exact hr), size_evaluate_c14, hnf]
  have hshapeR : rhs.size = 2 * mid.length + 4 ∧ ∀ i, i < 2 * mid.length + 4 → (rhs.getD i #[]).size = m := by
    refine ⟨by rw [hrhs, Array.size_append, hxs.1, hg.1]; omega, fun i hi => ?_⟩
    rw [hrhs]
    by_cases h1 : i < mid.length + 2
    · have : (x ++ g).getD i #[] = x.getD i #[] := by
        simp [Array.getD, hxs.1, h1, Array.getElem_append_left, Nat.lt_add_right]
      rw [this]; exact hxs.2 i h1
    · obtain ⟨r, rfl⟩ : ∃ r, i = mid.length + 2 + r := ⟨i - (mid.length + 2), by omega⟩
      have hr : r < mid.length + 2 := by omega
      have : (x ++ g).getD (mid.length + 2 + r) #[] = g.getD r #[] := by
        simp [Array.getD, hxs.1, hg.1, hr, Array.getElem_append_right]
      rw [this]; exact hg.2 r hr
  have hex := herm_exact a d mid tol hgap htol
  have hdom := herm_in_domain a d mid tol hgap htol
  have hinj : ∀ y : ℕ → K, (∀ i < 2 * mid.length + 4, ∑ j ∈ range (2 * mid.length + 4), N.get i j * y j = 0) →
      ∀ j < 2 * mid.length + 4, y j = 0 := by
    intro y hy
    apply hermite_unique a d mid tol htol hgap y
    intro e he i hi
    have hev : ∀ j ∈ range (2 * mid.length + 4),
        dB (effSide b (t.getD i 0) true) b.kn 3 j e (t.getD i 0) = (b.evaluate tol (t.getD i 0) e true).getD j 0 := by
      intro j hj
      rw [C01_value_deriv_open hv hper htol (hex i hi) (hdom i hi).1 (hdom i hi).2 (by simp)
        (by show e < 4; omega) (by rw [hnf]; exact mem_range.mp hj)]
      rfl
    rcases Nat.eq_zero_or_pos e with h0 | h0
    · subst h0
      refine (sum_congr rfl (fun j hj => ?_)).trans (hy i (by omega))
      rw [hrow0 i hi j, hev j hj]
    · have h1 : e = 1 := by omega
      subst h1
      refine (sum_congr rfl (fun j hj => ?_)).trans (hy (mid.length + 2 + i) (by omega))
      rw [hrow1 i hi j, hev j hj]
  obtain ⟨L, hL⟩ := left_inverse_of_injective_c14 (2 * mid.length + 4) (fun i j => N.get i j) hinj
  obtain ⟨cp, hcp⟩ := solveC_complete N rhs (2 * mid.length + 4) m hshapeN hshapeR L hL
  obtain ⟨sh1, sh2⟩ := solveC_shape (2 * mid.length + 4) m hshapeN hshapeR hcp
  refine ⟨cp, ?_, sh1, sh2⟩
  unfold cubicCurve
  simp only [hsys, bind, Except.bind, pure, Except.pure]
  rw [if_neg (by rw [hNsize, hnf, hshapeR.1]; simp), hcp]

end Interp
end Splipy
