import Splipy.Lemmas.C16Spans
import Splipy.Lemmas.C16IntegralReal
import Mathlib.Algebra.Order.Archimedean.Real.Basic

/-!
# C16 over `ℝ`: `Obj.volume` is the sum over the elements of the iterated integrals of `|det J|`
-/

namespace Splipy

open Polynomial MeasureTheory Measure

/-- Two functions that agree on the open interval have the same interval integral. -/
theorem integral_congr_Ioo {f g : ℝ → ℝ} {a b : ℝ} (hab : a ≤ b)
    (h : ∀ x, a < x → x < b → f x = g x) : ∫ x in a..b, f x = ∫ x in a..b, g x := by
  rw [intervalIntegral.integral_of_le hab, intervalIntegral.integral_of_le hab,
    integral_Ioc_eq_integral_Ioo, integral_Ioc_eq_integral_Ioo]
  exact setIntegral_congr_fun measurableSet_Ioo (fun x hx => h x hx.1 hx.2)

/-- Integral of a polynomial by its formal antiderivative. -/
theorem integral_poly (p : ℝ[X]) (a b : ℝ) :
    ∫ x in a..b, p.eval x = (antideriv p).eval b - (antideriv p).eval a := by
  have h := intervalIntegral.integral_eq_sub_of_hasDerivAt
    (fun x _ => (antideriv p).hasDerivAt x)
    ((derivative (antideriv p)).continuous.intervalIntegrable a b)
  rw [derivative_antideriv] at h
  exact h

/-- Iterated integral of a finite sum of products of polynomials over a box. -/
theorem integral_tensor {ι : Type} (s : Finset ι) (P R T : ι → ℝ[X]) (a1 b1 a2 b2 a3 b3 : ℝ) :
    ∫ u in a1..b1, ∫ v in a2..b2, ∫ w in a3..b3,
        ∑ c ∈ s, (P c).eval u * (R c).eval v * (T c).eval w
      = ∑ c ∈ s, ((antideriv (P c)).eval b1 - (antideriv (P c)).eval a1)
          * ((antideriv (R c)).eval b2 - (antideriv (R c)).eval a2)
          * ((antideriv (T c)).eval b3 - (antideriv (T c)).eval a3) := by
  have hw : ∀ u v, ∫ w in a3..b3, ∑ c ∈ s, (P c).eval u * (R c).eval v * (T c).eval w
      = ∑ c ∈ s, (P c).eval u * (R c).eval v
          * ((antideriv (T c)).eval b3 - (antideriv (T c)).eval a3) := by
    intro u v
    rw [intervalIntegral.integral_finsetSum
      (fun c _ => ((T c).continuous.intervalIntegrable a3 b3).const_mul _)]
    apply Finset.sum_congr rfl
    intro c _
    rw [intervalIntegral.integral_const_mul, integral_poly]
  simp_rw [hw]
  have hv : ∀ u, ∫ v in a2..b2, ∑ c ∈ s, (P c).eval u * (R c).eval v
        * ((antideriv (T c)).eval b3 - (antideriv (T c)).eval a3)
      = ∑ c ∈ s, (P c).eval u * ((antideriv (R c)).eval b2 - (antideriv (R c)).eval a2)
          * ((antideriv (T c)).eval b3 - (antideriv (T c)).eval a3) := by
    intro u
    rw [intervalIntegral.integral_finsetSum
      (fun c _ => (((R c).continuous.intervalIntegrable a2 b2).const_mul _).mul_const _)]
    apply Finset.sum_congr rfl
    intro c _
    rw [intervalIntegral.integral_mul_const, intervalIntegral.integral_const_mul, integral_poly]
  simp_rw [hv]
  rw [intervalIntegral.integral_finsetSum
    (fun c _ => (((P c).continuous.intervalIntegrable a1 b1).mul_const _).mul_const _)]
  apply Finset.sum_congr rfl
  intro c _
  rw [intervalIntegral.integral_mul_const, intervalIntegral.integral_mul_const, integral_poly]

namespace Obj

/-- On an element lying in the knot-span box `(μ1,μ2,μ3)` with a Jacobian of constant sign,
`± boxIntegral` is the iterated integral of `|det J|` of the MAP over the element. -/
theorem boxSign_mul_boxIntegral (o : Obj ℝ) {b1 b2 b3 : Basis ℝ} (hv1 : b1.Valid) (hv2 : b2.Valid)
    (hv3 : b3.Valid) (hp1 : b1.periodic = -1) (hp2 : b2.periodic = -1) (hp3 : b3.periodic = -1)
    (μ1 μ2 μ3 : ℕ) (e1 e2 e3 : ℝ × ℝ)
    (h1 : e1.1 < e1.2 ∧ μ1 + 1 ≤ b1.nAll ∧ b1.kn μ1 ≤ e1.1 ∧ e1.2 ≤ b1.kn (μ1 + 1))
    (h2 : e2.1 < e2.2 ∧ μ2 + 1 ≤ b2.nAll ∧ b2.kn μ2 ≤ e2.1 ∧ e2.2 ≤ b2.kn (μ2 + 1))
    (h3 : e3.1 < e3.2 ∧ μ3 + 1 ≤ b3.nAll ∧ b3.kn μ3 ≤ e3.1 ∧ e3.2 ≤ b3.kn (μ3 + 1))
    (hsign : (∀ u v w, e1.1 < u → u < e1.2 → e2.1 < v → v < e2.2 → e3.1 < w → w < e3.2 →
        0 ≤ o.jacSpec b1 b2 b3 u v w) ∨
      (∀ u v w, e1.1 < u → u < e1.2 → e2.1 < v → v < e2.2 → e3.1 < w → w < e3.2 →
        o.jacSpec b1 b2 b3 u v w ≤ 0)) :
    o.boxSign b1 b2 b3 e1 e2 e3 * o.boxIntegral b1 b2 b3 μ1 μ2 μ3 e1 e2 e3
      = ∫ u in e1.1..e1.2, ∫ v in e2.1..e2.2, ∫ w in e3.1..e3.2, |o.jacSpec b1 b2 b3 u v w| := by
  unfold boxIntegral
  rw [← integral_tensor, ← intervalIntegral.integral_const_mul]
  apply integral_congr_Ioo h1.1.le
  intro u hu1 hu2
  rw [← intervalIntegral.integral_const_mul]
  apply integral_congr_Ioo h2.1.le
  intro v hw1 hw2
  rw [← intervalIntegral.integral_const_mul]
  apply integral_congr_Ioo h3.1.le
  intro w hz1 hz2
  have hten := jac3_eq_tensor o hv1 hv2 hv3 hp1 hp2 hp3 μ1 μ2 μ3 h1.2.1 h2.2.1 h3.2.1 u v w
    ⟨le_trans h1.2.2.1 hu1.le, lt_of_lt_of_le hu2 h1.2.2.2⟩
    ⟨le_trans h2.2.2.1 hw1.le, lt_of_lt_of_le hw2 h2.2.2.2⟩
    ⟨le_trans h3.2.2.1 hz1.le, lt_of_lt_of_le hz2 h3.2.2.2⟩
  have hJ : o.jacSpec b1 b2 b3 u v w = _ := hten
  rw [← hJ]
  unfold boxSign
  split_ifs with hpos
  · rw [abs_of_nonneg (hpos u v w hu1 hu2 hw1 hw2 hz1 hz2), one_mul]
  · rcases hsign with h | h
    · exact absurd h hpos
    · rw [abs_of_nonpos (h u v w hu1 hu2 hw1 hw2 hz1 hz2)]
      ring

/-- **`Obj.volume` = Σ over the elements of `∫∫∫ |det J|`** (`K = ℝ`). -/
theorem volume_eq_integral {o : Obj ℝ} {b1 b2 b3 : Basis ℝ} (hb : o.bases = #[b1, b2, b3])
    (hv1 : b1.Valid) (hv2 : b2.Valid) (hv3 : b3.Valid) (hp1 : b1.periodic = -1)
    (hp2 : b2.periodic = -1) (hp3 : b3.periodic = -1)
    (hs : o.cps.shape = [b1.numFunctions, b2.numFunctions, b3.numFunctions, 3])
    (hr : o.rational = false) {tol : ℝ} (htol : 0 < tol)
    (hsep1 : b1.SepStrict tol) (hsep2 : b2.SepStrict tol) (hsep3 : b3.SepStrict tol)
    {x1 wt1 x2 wt2 x3 wt3 : List ℝ} {D1 D2 D3 : ℕ} (hr1 : GaussRule x1 wt1 D1)
    (hr2 : GaussRule x2 wt2 D2) (hr3 : GaussRule x3 wt3 D3)
    (hD1 : (b1.order - 1 - 1) + (b1.order - 1) + (b1.order - 1) ≤ D1)
    (hD2 : (b2.order - 1) + (b2.order - 1 - 1) + (b2.order - 1) ≤ D2)
    (hD3 : (b3.order - 1) + (b3.order - 1) + (b3.order - 1 - 1) ≤ D3)
    (hx1 : ∀ i, i < wt1.length → -1 < x1.getD i 0 ∧ x1.getD i 0 < 1)
    (hx2 : ∀ i, i < wt2.length → -1 < x2.getD i 0 ∧ x2.getD i 0 < 1)
    (hx3 : ∀ i, i < wt3.length → -1 < x3.getD i 0 ∧ x3.getD i 0 < 1)
    (hadm1 : ∀ u ∈ (gaussMap (b1.knotSpans tol false).toList x1 wt1).1, b1.Admissible tol u)
    (hadm2 : ∀ u ∈ (gaussMap (b2.knotSpans tol false).toList x2 wt2).1, b2.Admissible tol u)
    (hadm3 : ∀ u ∈ (gaussMap (b3.knotSpans tol false).toList x3 wt3).1, b3.Admissible tol u)
    (hne1 : (gaussMap (b1.knotSpans tol false).toList x1 wt1).1 ≠ [])
    (hne2 : (gaussMap (b2.knotSpans tol false).toList x2 wt2).1 ≠ [])
    (hne3 : (gaussMap (b3.knotSpans tol false).toList x3 wt3).1 ≠ [])
    (hsign : ∀ e1 ∈ elements (b1.knotSpans tol false).toList,
      ∀ e2 ∈ elements (b2.knotSpans tol false).toList,
      ∀ e3 ∈ elements (b3.knotSpans tol false).toList,
      (∀ u v w, e1.1 < u → u < e1.2 → e2.1 < v → v < e2.2 → e3.1 < w → w < e3.2 →
        0 ≤ o.jacSpec b1 b2 b3 u v w) ∨
      (∀ u v w, e1.1 < u → u < e1.2 → e2.1 < v → v < e2.2 → e3.1 < w → w < e3.2 →
        o.jacSpec b1 b2 b3 u v w ≤ 0)) :
    o.volume tol x1 wt1 x2 wt2 x3 wt3 = .ok
      (((elements (b1.knotSpans tol false).toList).map (fun e1 =>
        ((elements (b2.knotSpans tol false).toList).map (fun e2 =>
          ((elements (b3.knotSpans tol false).toList).map (fun e3 =>
            ∫ u in e1.1..e1.2, ∫ v in e2.1..e2.2, ∫ w in e3.1..e3.2,
              |o.jacSpec b1 b2 b3 u v w|)).sum)).sum)).sum) := by
  have hc1 := b1.spanCover_of_sepStrict hv1 tol htol.le hsep1
  have hc2 := b2.spanCover_of_sepStrict hv2 tol htol.le hsep2
  have hc3 := b3.spanCover_of_sepStrict hv3 tol htol.le hsep3
  rw [volume_exact hb hv1 hv2 hv3 hp1 hp2 hp3 hs hr htol hr1 hr2 hr3 hD1 hD2 hD3 hx1 hx2 hx3
    hc1 hc2 hc3 hadm1 hadm2 hadm3 hne1 hne2 hne3 hsign]
  congr 2
  apply List.map_congr_left
  intro e1 he1
  congr 1
  apply List.map_congr_left
  intro e2 he2
  congr 1
  apply List.map_congr_left
  intro e3 he3
  exact boxSign_mul_boxIntegral o hv1 hv2 hv3 hp1 hp2 hp3 _ _ _ e1 e2 e3
    (b1.spanOf_spec tol hc1 e1 he1) (b2.spanOf_spec tol hc2 e2 he2) (b3.spanOf_spec tol hc3 e3 he3)
    (hsign e1 he1 e2 he2 e3 he3)

end Obj

end Splipy
