import Splipy.Lemmas.C10Insert
import Splipy.Lemmas.C04PerSeq

/-!
# C10 helper lemmas: knot insertion along a PERIODIC direction keeps an object well formed

Under the guard `n ≥ p + k` of C04's periodic theorems (`n` functions, order `p`, continuity `k`) the
matrix `C` returned by `BSplineBasis.insert_knot` for a periodic basis is row stochastic as well.
With `mu = bisect_right(knots, x)` (`p ≤ mu ≤ n + k + 1`):

* `mu ≤ n`: no index of the three loops wraps, the closed form `C04.codeF` applies verbatim;
* `mu = n + 1 + j`, `0 ≤ j ≤ k`: the last loop is empty and the middle loop wraps for its indices
  `n, n+1, …, n+j`; `C10.perF` is the closed form (`C10.matF_wrap`): column `c ≤ j` holds
  `gs (n+c)` on the diagonal and `gd (n+c)` in the row above (row `n` for `c = 0`), overwriting the
  `1` of the first loop.  Every row again holds one pair `gd i`, `gs (i-1)` or a single `1`.

Everything downstream (`insertMany`, `Obj.insertKnots`, the history steps) follows as in the
non-periodic case (`Lemmas/C10Insert.lean`).
-/

set_option linter.unusedSectionVars false

namespace Splipy

variable {K : Type} [Field K] [LinearOrder K] [IsStrictOrderedRing K] [FloorRing K]

namespace C10

/-! ## the wrapping middle loop in closed form -/

/-- The middle loop at the wrapped indices `n+1+t`, `t < j`: column `t+1` gets `gd` in row `t` and
    `gs` in row `t+1`. -/
theorem loop2_wrap_closed (τ : ℕ → K) (x : K) (n p : ℕ) (F : ℕ → ℕ → K) (j : ℕ) (hj : j + 1 ≤ n)
    (r c : ℕ) :
    ((List.range' (n + 1) j).foldl (C04.stepF2 τ x n p) F) r c =
      if 1 ≤ c ∧ c ≤ j ∧ r = c then C04.gs τ x p (n + c)
      else if 1 ≤ c ∧ c ≤ j ∧ r + 1 = c then C04.gd τ x p (n + c) else F r c := by
  induction j with
  | zero =>
    simp only [List.range'_zero, List.foldl_nil]
    split_ifs <;> first | rfl | (exfalso; omega)
  | succ j ih =>
    rw [List.range'_concat, List.foldl_append]
    simp only [List.foldl_cons, List.foldl_nil, C04.stepF2, C04.setF, Nat.one_mul]
    have e1 : (n + 1 + j) % (n + 1) = j := by
      rw [Nat.add_mod_left, Nat.mod_eq_of_lt (by omega)]
    have e2 : (n + 1 + j) % n = j + 1 := by
      rw [show n + 1 + j = n + (j + 1) by omega, Nat.add_mod_left, Nat.mod_eq_of_lt (by omega)]
    have e3 : (n + 1 + j + 1) % (n + 1) = j + 1 := by
      rw [show n + 1 + j + 1 = (n + 1) + (j + 1) by omega, Nat.add_mod_left,
        Nat.mod_eq_of_lt (by omega)]
    rw [e1, e2, e3, ih (by omega)]
    split_ifs <;> first | rfl | (exfalso; omega) | (congr 1; omega)

/-- The middle loop at index `n`: `gd n` at `(n, 0)`, `gs n` at `(0, 0)`. -/
theorem stepF2_at_n (τ : ℕ → K) (x : K) (n p : ℕ) (F : ℕ → ℕ → K) (r c : ℕ) :
    C04.stepF2 τ x n p F n r c =
      if r = 0 ∧ c = 0 then C04.gs τ x p n else if r = n ∧ c = 0 then C04.gd τ x p n else F r c := by
  simp only [C04.stepF2, C04.setF]
  rw [Nat.mod_self, Nat.mod_self, Nat.mod_eq_of_lt (Nat.lt_succ_self n)]

/-- Closed form of the insertion matrix for `mu = n + 1 + j` (the wrapping case). -/
def perF (τ : ℕ → K) (x : K) (n p j : ℕ) : ℕ → ℕ → K := fun r c =>
  if c ≤ j ∧ r = c then C04.gs τ x p (n + c)
  else if c ≤ j ∧ (r + 1 = c ∨ (c = 0 ∧ r = n)) then C04.gd τ x p (n + c)
  else if n + 1 + j - p ≤ c ∧ r = c + 1 then C04.gs τ x p c
  else if n + 1 + j - p ≤ c ∧ r = c then C04.gd τ x p c
  else if r = c ∧ c < n + 1 + j - p then 1 else 0

theorem matF_wrap (τ : ℕ → K) (x : K) (n p j : ℕ) (hjp : j + 2 ≤ p) (hg : p + j ≤ n) (r c : ℕ)
    (hc : c < n) : C04.matF τ x n p (n + 1 + j) r c = perF τ x n p j r c := by
  have hsplit : List.range' (n + 1 + j - p) (n + 1 + j - (n + 1 + j - p))
      = List.range' (n + 1 + j - p) (n - (n + 1 + j - p)) ++ (n :: List.range' (n + 1) j) := by
    rw [show n + 1 + j - (n + 1 + j - p) = (n - (n + 1 + j - p)) + (1 + j) by omega,
      ← List.range'_append_1, show n + 1 + j - p + (n - (n + 1 + j - p)) = n by omega,
      ← List.range'_append_1]
    rfl
  have e0 : n + 1 - (n + 1 + j) = 0 := by omega
  unfold C04.matF
  simp only [e0, List.range'_zero, List.foldl_nil, hsplit, List.foldl_append, List.foldl_cons]
  rw [loop2_wrap_closed τ x n p _ j (by omega), stepF2_at_n,
    C04.loop2_closed τ x n p _ _ _ (by omega), C04.loop1_closed n _ _ (by omega)]
  unfold perF
  split_ifs <;> first | rfl | (exfalso; omega) | (congr 1; omega)

/-! ## the wrapped closed form is row stochastic -/

theorem perF_nonneg (τ : ℕ → K) (hτ : Monotone τ) (x : K) (n p j : ℕ) (hjp : j + 2 ≤ p)
    (hlo : ∀ i, i < n + 1 + j → τ i ≤ x) (hhi : ∀ i, n + 1 + j ≤ i → i ≤ n + p + j → x < τ i)
    (r c : ℕ) (hc : c < n) : 0 ≤ perF τ x n p j r c := by
  unfold perF
  split_ifs with h1 h2 h3 h4 h5
  · exact gs_nonneg τ hτ x p (n + c) (by omega) (le_of_lt (hhi _ (by omega) (by omega)))
  · exact gd_nonneg τ hτ x p (n + c) (by omega) (hlo _ (by omega))
  · exact gs_nonneg τ hτ x p c (by omega) (le_of_lt (hhi _ (by omega) (by omega)))
  · exact gd_nonneg τ hτ x p c (by omega) (hlo _ (by omega))
  · exact zero_le_one
  · exact le_refl _

theorem perF_row_sum (τ : ℕ → K) (x : K) (n p j : ℕ) (hjp : j + 2 ≤ p) (hg : p + j ≤ n)
    (hlo : ∀ i, i < n + 1 + j → τ i ≤ x) (hhi : ∀ i, n + 1 + j ≤ i → i ≤ n + p + j → x < τ i)
    (r : ℕ) (hr : r < n + 1) : (Finset.range n).sum (fun c => perF τ x n p j r c) = 1 := by
  by_cases hA : r < j
  · -- rows `0 … j-1`: `gs (n+r)` and `gd (n+r+1)`
    rw [Finset.sum_eq_add_of_mem r (r + 1) (Finset.mem_range.2 (by omega))
      (Finset.mem_range.2 (by omega)) (by omega) (by
        intro c hc hne
        have hc' := Finset.mem_range.1 hc
        unfold perF
        split_ifs <;> first | rfl | (exfalso; omega))]
    have v1 : perF τ x n p j r r = C04.gs τ x p (n + r + 1 - 1) := by
      unfold perF; rw [if_pos ⟨by omega, rfl⟩]; rfl
    have v2 : perF τ x n p j r (r + 1) = C04.gd τ x p (n + r + 1) := by
      unfold perF
      rw [if_neg (by omega), if_pos ⟨by omega, Or.inl rfl⟩]; rfl
    rw [v1, v2, add_comm]
    exact gd_add_gs τ x p (n + r + 1) (by omega) (hlo _ (by omega)) (hlo _ (by omega))
      (hhi _ (by omega) (by omega))
  by_cases hB : r = j
  · -- row `j`: the single entry `gs (mu-1) = 1`
    rw [Finset.sum_eq_single_of_mem r (Finset.mem_range.2 (by omega)) (by
        intro c hc hne
        have hc' := Finset.mem_range.1 hc
        unfold perF
        split_ifs <;> first | rfl | (exfalso; omega))]
    unfold perF
    rw [if_pos ⟨by omega, rfl⟩]
    unfold C04.gs
    rw [if_pos ⟨hlo _ (by omega), le_of_lt (hhi _ (by omega) (by omega))⟩]
  by_cases hC : r < n + 1 + j - p
  · -- untouched rows
    rw [Finset.sum_eq_single_of_mem r (Finset.mem_range.2 (by omega)) (by
        intro c hc hne
        have hc' := Finset.mem_range.1 hc
        unfold perF
        split_ifs <;> first | rfl | (exfalso; omega))]
    unfold perF
    rw [if_neg (by omega), if_neg (by omega), if_neg (by omega), if_neg (by omega),
      if_pos ⟨rfl, hC⟩]
  by_cases hD : r = n + 1 + j - p
  · -- row `mu - p`: the single entry `gd (mu-p) = 1`
    rw [Finset.sum_eq_single_of_mem r (Finset.mem_range.2 (by omega)) (by
        intro c hc hne
        have hc' := Finset.mem_range.1 hc
        unfold perF
        split_ifs <;> first | rfl | (exfalso; omega))]
    unfold perF
    rw [if_neg (by omega), if_neg (by omega), if_neg (by omega), if_pos ⟨by omega, rfl⟩]
    unfold C04.gd
    rw [if_pos]
    rw [show r + p - 1 = n + j by omega, show r + p = n + j + 1 by omega]
    exact ⟨hlo _ (by omega), le_of_lt (hhi _ (by omega) (by omega))⟩
  by_cases hE : r < n
  · -- rows `mu - p < r < n`: `gd r` and `gs (r-1)`
    rw [Finset.sum_eq_add_of_mem r (r - 1) (Finset.mem_range.2 hE)
      (Finset.mem_range.2 (by omega)) (by omega) (by
        intro c hc hne
        have hc' := Finset.mem_range.1 hc
        unfold perF
        split_ifs <;> first | rfl | (exfalso; omega))]
    have v1 : perF τ x n p j r r = C04.gd τ x p r := by
      unfold perF
      rw [if_neg (by omega), if_neg (by omega), if_neg (by omega), if_pos ⟨by omega, rfl⟩]
    have v2 : perF τ x n p j r (r - 1) = C04.gs τ x p (r - 1) := by
      unfold perF
      rw [if_neg (by omega), if_neg (by omega), if_pos ⟨by omega, by omega⟩]
    rw [v1, v2]
    exact gd_add_gs τ x p r (by omega) (hlo _ (by omega)) (hlo _ (by omega))
      (hhi _ (by omega) (by omega))
  · -- row `n`: `gd n` in column `0`, `gs (n-1)` in column `n-1`
    have hrn : r = n := by omega
    subst hrn
    rw [Finset.sum_eq_add_of_mem 0 (r - 1) (Finset.mem_range.2 (by omega))
      (Finset.mem_range.2 (by omega)) (by omega) (by
        intro c hc hne
        have hc' := Finset.mem_range.1 hc
        unfold perF
        split_ifs <;> first | rfl | (exfalso; omega))]
    have v1 : perF τ x r p j r 0 = C04.gd τ x p r := by
      unfold perF
      rw [if_neg (by omega), if_pos ⟨by omega, Or.inr ⟨rfl, rfl⟩⟩]; rfl
    have v2 : perF τ x r p j r (r - 1) = C04.gs τ x p (r - 1) := by
      unfold perF
      rw [if_neg (by omega), if_neg (by omega), if_pos ⟨by omega, by omega⟩]
    rw [v1, v2]
    exact gd_add_gs τ x p r (by omega) (hlo _ (by omega)) (hlo _ (by omega))
      (hhi _ (by omega) (by omega))

/-- The array matrix in the wrapping case `mu = n + 1 + j` is row stochastic. -/
theorem matC_wrap_stochastic (τ : ℕ → K) (hτ : Monotone τ) (x : K) (n p j : ℕ) (hjp : j + 2 ≤ p)
    (hg : p + j ≤ n) (hlo : ∀ i, i < n + 1 + j → τ i ≤ x)
    (hhi : ∀ i, n + 1 + j ≤ i → i ≤ n + p + j → x < τ i) :
    RowStochastic (n + 1) n (C04.matC τ x n p (n + 1 + j)) := by
  have hrel := C04.rel_matC τ x n p (n + 1 + j) (by omega)
  have hent : ∀ r c, r < n + 1 → c < n →
      C04.entry (C04.matC τ x n p (n + 1 + j)) r c = perF τ x n p j r c := by
    intro r c hr hc
    rw [hrel.2 r c hr hc, matF_wrap τ x n p j hjp hg r c hc]
  refine ⟨hrel.1, fun r c hr hc => ?_, fun r hr => ?_⟩
  · rw [hent r c hr hc]; exact perF_nonneg τ hτ x n p j hjp hlo hhi r c hc
  · rw [Finset.sum_congr rfl (fun c hc => hent r c hr (Finset.mem_range.1 hc))]
    exact perF_row_sum τ x n p j hjp hg hlo hhi r hr

/-- The array matrix in the non-wrapping case `p ≤ mu ≤ n` is row stochastic. -/
theorem matC_open_stochastic (τ : ℕ → K) (hτ : Monotone τ) (x : K) (n p mu : ℕ) (hp : 1 ≤ p)
    (hpm : p ≤ mu) (hmn : mu ≤ n) (hlo : ∀ i, i < mu → τ i ≤ x)
    (hhi : ∀ i, mu ≤ i → i < n + p → x < τ i) :
    RowStochastic (n + 1) n (C04.matC τ x n p mu) := by
  have hrel := C04.rel_matC τ x n p mu (by omega)
  have hxx : τ (mu - 1) ≤ x ∧ x ≤ τ mu := ⟨hlo _ (by omega), le_of_lt (hhi _ le_rfl (by omega))⟩
  have hent : ∀ r c, r < n + 1 → c < n →
      C04.entry (C04.matC τ x n p mu) r c = C04.codeF τ x p mu r c := by
    intro r c hr hc
    rw [hrel.2 r c hr hc, C04.matF_closed τ x n p mu hp hpm hmn hxx r c hc]
  refine ⟨hrel.1, fun r c hr hc => ?_, fun r hr => ?_⟩
  · rw [hent r c hr hc]; exact codeF_nonneg τ hτ x n p mu hp hlo hhi r c hc
  · rw [Finset.sum_congr rfl (fun c hc => hent r c hr (Finset.mem_range.1 hc))]
    exact codeF_row_sum τ x n p mu hp hpm hmn hlo hhi r hr

/-! ## one periodic insertion -/

/-- **One insertion into a periodic basis (`n ≥ p + k`, wrapped value not the domain end) is row
    stochastic.** -/
theorem insertKnot_stochastic_periodic (b : Basis K) (hv : b.Valid) (k : ℕ)
    (hk : b.periodic = (k : Int)) (hguard : b.order + k ≤ b.numFunctions) (x0 : K)
    (hne : C04.wrapVal b x0 ≠ b.stop) {b' : Basis K} {C : Mat K}
    (h : b.insertKnot x0 = .ok (b', C)) : RowStochastic (b.numFunctions + 1) b.numFunctions C := by
  obtain ⟨hw1, hw2, _⟩ := C04.wrapVal_mem b hv.start_lt_stop x0
  have hlt : C04.wrapVal b x0 < b.stop := lt_of_le_of_ne hw2 hne
  rw [C04.insertKnot_wrap b (by rw [hk]; omega) hv.start_lt_stop x0] at h
  generalize C04.wrapVal b x0 = x at hw1 hlt h
  obtain ⟨b1, C1, e1, _, _, _, _, _, _, _, _, _, _, eC⟩ :=
    C04.insertKnot_periodic b hv k hk hguard x ⟨hw1, hlt⟩
  rw [e1] at h
  have hC : C = C04.matC b.kn x b.numFunctions b.order (b.bisectR x) := by
    have := Except.ok.inj h
    rw [← (Prod.mk.inj this).2]; exact eC
  rw [hC]
  have hmono : Monotone b.kn := C04.kn_mono hv.sorted
  have hp := hv.order_pos
  have hsz := hv.size_ge
  have hpk : k + 2 ≤ b.order := by
    rcases hv.periodic_le with h' | h'
    · rw [hk] at h'; omega
    · rw [hk] at h'; omega
  have hn := C04.numFunctions_periodic b k hk
  obtain ⟨hm1, hm2, hm3⟩ := bisectRight_spec b.kn hmono x b.knots.size
  have hm1' : b.bisectR x ≤ b.knots.size := hm1
  have hm2' : ∀ i, i < b.bisectR x → b.kn i ≤ x := hm2
  have hm3' : ∀ i, b.bisectR x ≤ i → i < b.knots.size → x < b.kn i := hm3
  have hsize : b.knots.size = b.numFunctions + b.order + k + 1 := by omega
  have hpm : b.order ≤ b.bisectR x := by
    by_contra hcon
    have := hm3' (b.order - 1) (by omega) (by omega)
    exact absurd hw1 (not_le.2 this)
  have hmu2 : b.bisectR x ≤ b.numFunctions + k + 1 := by
    by_contra hcon
    have h2 : b.kn (b.knots.size - b.order) ≤ x := hm2' _ (by omega)
    exact absurd hlt (not_lt.2 h2)
  by_cases hmn : b.bisectR x ≤ b.numFunctions
  · exact matC_open_stochastic b.kn hmono x b.numFunctions b.order (b.bisectR x) hp hpm hmn hm2'
      (fun i h1 h2 => hm3' i h1 (by omega))
  · obtain ⟨j, hj⟩ : ∃ j, b.bisectR x = b.numFunctions + 1 + j :=
      ⟨b.bisectR x - (b.numFunctions + 1), by omega⟩
    rw [hj] at hm2' hm3' ⊢
    exact matC_wrap_stochastic b.kn hmono x b.numFunctions b.order j (by omega) (by omega) hm2'
      (fun i h1 h2 => hm3' i h1 (by omega))

/-! ## a sequence of periodic insertions -/

theorem insertMany_stochastic_periodic_aux (b0 : Basis K) (hv0 : b0.Valid) (k : ℕ)
    (hk : b0.periodic = (k : Int)) (hguard : b0.order + k ≤ b0.numFunctions) (xs : List K) :
    ∀ (b : Basis K) (Cacc : Mat K) (m : ℕ), C04.PerRefines b0 b Cacc m →
      RowStochastic (b0.numFunctions + m) b0.numFunctions Cacc →
      (∀ x ∈ xs, C04.wrapVal b0 x ≠ b0.stop) →
      ∀ {b' : Basis K} {C : Mat K}, C04.insertMany b Cacc xs = .ok (b', C) →
        RowStochastic (b0.numFunctions + (m + xs.length)) b0.numFunctions C := by
  induction xs with
  | nil =>
    intro b Cacc m _ hst _ b' C h
    have : (b, Cacc) = (b', C) := Except.ok.inj h
    rw [← (Prod.mk.inj this).2]
    simpa using hst
  | cons x xs ih =>
    intro b Cacc m href hst hxs b' C h
    have hx := hxs x List.mem_cons_self
    have hk' : b.periodic = (k : Int) := href.periodic_eq.trans hk
    have hguard' : b.order + k ≤ b.numFunctions := by rw [href.order_eq, href.num_eq]; omega
    have hne' : C04.wrapVal b x ≠ b.stop := by
      rw [C04.wrapVal_congr b0 b href.start_eq href.stop_eq, href.stop_eq]; exact hx
    obtain ⟨b1, C1, hins, hr1⟩ := C04.insertKnot_per_step b href.valid k hk' hguard' x hne'
    have hst1 := insertKnot_stochastic_periodic b href.valid k hk' hguard' x hne' hins
    rw [href.num_eq] at hst1
    have hstep : C04.stepIns (b, Cacc) x = .ok (b1, Mat.mul C1 Cacc) := by
      unfold C04.stepIns
      simp only [hins]
      rfl
    unfold C04.insertMany at h
    rw [List.foldlM_cons, hstep] at h
    have hn0 := C04.numFunctions_pos hv0
    have := ih b1 (Mat.mul C1 Cacc) (m + 1) (C04.perRefines_trans hv0 href hr1)
      (hst1.mul hst (by omega)) (fun y hy => hxs y (List.mem_cons_of_mem _ hy)) h
    have e : m + (x :: xs).length = m + 1 + xs.length := by simp; omega
    rw [e]; exact this

/-- **The accumulated matrix of a sequence of periodic insertions is row stochastic.** -/
theorem insertMany_stochastic_periodic (b : Basis K) (hv : b.Valid) (k : ℕ)
    (hk : b.periodic = (k : Int)) (hguard : b.order + k ≤ b.numFunctions) (xs : List K)
    (hxs : ∀ x ∈ xs, C04.wrapVal b x ≠ b.stop) {b' : Basis K} {C : Mat K}
    (h : C04.insertMany b (Mat.identity b.numFunctions) xs = .ok (b', C)) :
    RowStochastic (b.numFunctions + xs.length) b.numFunctions C := by
  have := insertMany_stochastic_periodic_aux b hv k hk hguard xs b (Mat.identity b.numFunctions) 0
    (C04.perRefines_refl b hv) (by simpa using rowStochastic_identity b.numFunctions) hxs h
  simpa using this

end C10

/-! ## object level -/

namespace Obj

/-- **`SplineObject.insert_knot` along a periodic direction (`n ≥ p + k`) keeps the object well
    formed.** -/
theorem WellFormed.insertKnots_periodic {o o' : Obj K} (h : o.WellFormed) (dir : ℕ)
    (hd : dir < o.bases.size) (k : ℕ) (hk : (o.basis dir).periodic = (k : Int))
    (hguard : (o.basis dir).order + k ≤ (o.basis dir).numFunctions) (xs : List K)
    (hxs : ∀ x ∈ xs, C04.wrapVal (o.basis dir) x ≠ (o.basis dir).stop)
    (hs : o.insertKnots xs dir = .ok o') :
    o'.WellFormed ∧ o'.bases.size = o.bases.size ∧ (∀ d, d ≠ dir → o'.basis d = o.basis d) ∧
      (o'.basis dir).periodic = (k : Int) ∧ (o'.basis dir).order = (o.basis dir).order ∧
      (o'.basis dir).numFunctions = (o.basis dir).numFunctions + xs.length ∧
      (o'.basis dir).start = (o.basis dir).start ∧ (o'.basis dir).stop = (o.basis dir).stop := by
  have hv := h.valid dir hd
  have hshape : o.cps.shape.getD dir 0 = (o.basis dir).numFunctions := h.shape_getD dir 0 hd
  obtain ⟨b', C, hm, href⟩ := C04.insertMany_periodic (o.basis dir) hv k hk hguard xs hxs
  have hst := C10.insertMany_stochastic_periodic (o.basis dir) hv k hk hguard xs hxs hm
  rw [C04.insertKnots_eq, hshape, hm] at hs
  have ho' : o' = { o with bases := o.bases.set! dir b', cps := Tensor.applyAxis C o.cps dir } :=
    (Except.ok.inj hs).symm
  subst ho'
  have hCsize : C.size = (o.basis dir).numFunctions + xs.length := href.shape.1
  have hmid : (Tensor.split3 o.cps.shape dir).2.1 = (o.basis dir).numFunctions := by
    simp only [Tensor.split3]; exact h.shape_getD dir 1 hd
  have hax1 : dir + 1 < o.cps.shape.length := by rw [h.shape_length]; omega
  refine ⟨?_, ?_, fun d hd' => C04.basis_set_ne o dir d hd' _ _, ?_, ?_, ?_, ?_, ?_⟩
  · refine h.build3 dir C.size (fun a r i =>
      (List.range (Tensor.split3 o.cps.shape dir).2.1).foldl
        (fun acc j => acc + (C.getD r #[]).getD j 0 * o.cps.at3 dir a j i) 0) b' hd href.valid
      (by rw [href.num_eq, hCsize]) ?_
    intro hr a r i ha hr' hi him
    have e : (List.range (Tensor.split3 o.cps.shape dir).2.1).foldl
        (fun acc j => acc + (C.getD r #[]).getD j 0 * o.cps.at3 dir a j i) 0
        = C04.mulVec C (o.basis dir).numFunctions (fun j => o.cps.at3 dir a j i) r := by
      rw [C04.foldl_add_eq_sum, hmid]; rfl
    rw [e]
    apply hst.mulVec_pos _ _ r (by omega)
    intro j hj
    exact C10.at3_pos o.cps o.ncomp o.dimension h.data_size (h.tpos hr) dir hax1 (h.last_eq 1) a j i ha
      (by rw [hmid]; exact hj) hi him
  · show (o.bases.set! dir b').size = o.bases.size
    simp
  · rw [C04.basis_set o dir hd]; exact href.periodic_eq.trans hk
  · rw [C04.basis_set o dir hd]; exact href.order_eq
  · rw [C04.basis_set o dir hd]; exact href.num_eq
  · rw [C04.basis_set o dir hd]; exact href.start_eq
  · rw [C04.basis_set o dir hd]; exact href.stop_eq

/-- A direction along which `insert_knot` is covered: non-periodic, or periodic with the guard
    `n ≥ p + k`. -/
def DirOK (b : Basis K) : Prop :=
  b.periodic = -1 ∨ ∃ k : ℕ, b.periodic = (k : Int) ∧ b.order + k ≤ b.numFunctions

/-- The values that may be inserted along a direction: `[start, end)` for a non-periodic one, any
    real whose wrapped image is not the domain end for a periodic one. -/
def KnotsOK (b : Basis K) (xs : List K) : Prop :=
  (b.periodic = -1 ∧ ∀ x ∈ xs, b.start ≤ x ∧ x < b.stop) ∨
  (∃ k : ℕ, b.periodic = (k : Int) ∧ b.order + k ≤ b.numFunctions ∧
    ∀ x ∈ xs, C04.wrapVal b x ≠ b.stop)

/-- Values strictly inside the domain may be inserted along any covered direction. -/
theorem KnotsOK.of_interior {b : Basis K} (hb : DirOK b) (xs : List K)
    (hxs : ∀ x ∈ xs, b.start < x ∧ x < b.stop) : KnotsOK b xs := by
  rcases hb with hb | ⟨k, hk, hg⟩
  · exact Or.inl ⟨hb, fun x hx => ⟨le_of_lt (hxs x hx).1, (hxs x hx).2⟩⟩
  · refine Or.inr ⟨k, hk, hg, fun x hx => ?_⟩
    obtain ⟨h1, h2⟩ := hxs x hx
    have : C04.wrapVal b x = x := by
      unfold C04.wrapVal
      rw [if_neg (not_or.2 ⟨not_lt.2 (le_of_lt h1), not_lt.2 (le_of_lt h2)⟩)]
    rw [this]; exact ne_of_lt h2

/-- Both cases of `insert_knot` at once. -/
theorem WellFormed.insertKnots_any {o o' : Obj K} (h : o.WellFormed) (dir : ℕ)
    (hd : dir < o.bases.size) (xs : List K) (hok : KnotsOK (o.basis dir) xs)
    (hs : o.insertKnots xs dir = .ok o') :
    o'.WellFormed ∧ o'.bases.size = o.bases.size ∧ (∀ d, d ≠ dir → o'.basis d = o.basis d) ∧
      DirOK (o'.basis dir) := by
  rcases hok with ⟨hper, hxs⟩ | ⟨k, hk, hg, hxs⟩
  · obtain ⟨h1, h2, h3, h4, _, _⟩ := h.insertKnots dir hd hper xs hxs hs
    exact ⟨h1, h2, h3, Or.inl h4⟩
  · obtain ⟨h1, h2, h3, h4, h5, h6, _, _⟩ := h.insertKnots_periodic dir hd k hk hg xs hxs hs
    exact ⟨h1, h2, h3, Or.inr ⟨k, h4, by rw [h5, h6]; omega⟩⟩

/-- Invariant of the loop of `refine`: well formed, every direction covered. -/
def GuardWF (o : Obj K) : Prop := o.WellFormed ∧ ∀ d, d < o.bases.size → DirOK (o.basis d)

theorem GuardWF.refineDir {o o' : Obj K} (h : o.GuardWF) (tol : K) (htol : 0 ≤ tol) (n d : ℕ)
    (hs : o.refineDir tol n d = .ok o') : o'.GuardWF := by
  unfold Obj.refineDir at hs
  by_cases hpd : d < o.pardim
  · rw [if_pos hpd] at hs
    simp only [] at hs
    unfold Obj.insertKnotDir at hs
    rw [if_pos hpd] at hs
    have hd : d < o.bases.size := by rw [← h.1.pardim_eq]; exact hpd
    have hv := h.1.valid d hd
    obtain ⟨hs1, hs2⟩ := C04.knotSpans_spec (o.basis d) hv tol htol
    have hmem : ∀ v ∈ refineValues ((o.basis d).knotSpans tol false).toList n,
        (o.basis d).start < v ∧ v < (o.basis d).stop := by
      intro v hv'
      exact (C04.refineValues_mem _ hs1 _ _ hs2 n v hv').2
    obtain ⟨hw, hsz, hoth, hp⟩ :=
      h.1.insertKnots_any d hd _ (KnotsOK.of_interior (h.2 d hd) _ hmem) hs
    refine ⟨hw, fun d' hd' => ?_⟩
    by_cases e : d' = d
    · subst e; exact hp
    · rw [hoth d' e]; exact h.2 d' (by rw [← hsz]; exact hd')
  · rw [if_neg hpd] at hs
    cases hs

theorem GuardWF.refineFold (tol : K) (htol : 0 ≤ tol) (l : List (ℕ × ℕ)) :
    ∀ (o o' : Obj K), o.GuardWF →
      l.foldlM (fun (o : Obj K) (nd : ℕ × ℕ) => o.refineDir tol nd.1 nd.2) o = .ok o' →
      o'.GuardWF := by
  induction l with
  | nil =>
    intro o o' h hs
    have : o = o' := Except.ok.inj hs
    rw [← this]; exact h
  | cons nd l ih =>
    intro o o' h hs
    rw [List.foldlM_cons] at hs
    cases hres : o.refineDir tol nd.1 nd.2 with
    | error e => rw [hres] at hs; cases hs
    | ok o1 =>
      rw [hres] at hs
      exact ih o1 o' (h.refineDir tol htol nd.1 nd.2 hres) hs

end Obj

/-! ## history steps -/

namespace History

/-- `insert_knot` along a periodic direction.  `_partial`: guard `n ≥ p + k`, wrapped values not the
    domain end (the exclusions of `C04_periodic_partial`). -/
theorem stepOut_insertKnot_periodic_wf_partial {o : Obj K} (h : o.WellFormed) (tol : K)
    (knots : List K) (dir : ℕ) (k : ℕ) (hk : (o.basis dir).periodic = (k : Int))
    (hguard : (o.basis dir).order + k ≤ (o.basis dir).numFunctions)
    (hxs : ∀ x ∈ knots, C04.wrapVal (o.basis dir) x ≠ (o.basis dir).stop)
    {out : Out K} (hs : stepOut tol o (.insertKnot knots dir) = .ok out) :
    out.recv.WellFormed ∧ out.news = [] := by
  change inPlace (o.insertKnotDir knots dir) = .ok out at hs
  unfold inPlace Obj.insertKnotDir at hs
  by_cases hpd : dir < o.pardim
  · rw [if_pos hpd] at hs
    have hd : dir < o.bases.size := by rw [← h.pardim_eq]; exact hpd
    cases hres : o.insertKnots knots dir with
    | error e => rw [hres] at hs; cases hs
    | ok o1 =>
      rw [hres] at hs
      have : ({ recv := o1, news := [] } : Out K) = out := Except.ok.inj hs
      rw [← this]
      exact ⟨(h.insertKnots_periodic dir hd k hk hguard knots hxs hres).1, rfl⟩
  · rw [if_neg hpd] at hs
    cases hs

/-- `insert_knot` along any covered direction (non-periodic with values in `[start, end)`, or periodic
    with the guard and wrapped values not the domain end). -/
theorem stepOut_insertKnot_any_wf_partial {o : Obj K} (h : o.WellFormed) (tol : K)
    (knots : List K) (dir : ℕ) (hok : Obj.KnotsOK (o.basis dir) knots)
    {out : Out K} (hs : stepOut tol o (.insertKnot knots dir) = .ok out) :
    out.recv.WellFormed ∧ out.news = [] := by
  rcases hok with ⟨hper, hxs⟩ | ⟨k, hk, hg, hxs⟩
  · exact stepOut_insertKnot_wf h tol knots dir hper hxs hs
  · exact stepOut_insertKnot_periodic_wf_partial h tol knots dir k hk hg hxs hs

/-- `refine` on an object all of whose directions are covered (non-periodic, or periodic with the
    guard `n ≥ p + k`). -/
theorem stepOut_refine_any_wf_partial {o : Obj K} (h : o.WellFormed) (tol : K) (htol : 0 ≤ tol)
    (ns : List ℕ) (direction : Option ℕ)
    (hdirs : ∀ d, d < o.bases.size → Obj.DirOK (o.basis d))
    {out : Out K} (hs : stepOut tol o (.refine ns direction) = .ok out) :
    out.recv.WellFormed ∧ out.news = [] := by
  change inPlace (o.refine tol ns direction) = .ok out at hs
  unfold inPlace at hs
  cases hres : o.refine tol ns direction with
  | error e => rw [hres] at hs; cases hs
  | ok o1 =>
    rw [hres] at hs
    have : ({ recv := o1, news := [] } : Out K) = out := Except.ok.inj hs
    rw [← this]
    obtain ⟨l, hl⟩ := Obj.refine_eq_fold tol ns direction hres
    exact ⟨(Obj.GuardWF.refineFold tol htol l o o1 ⟨h, hdirs⟩ hl).1, rfl⟩

end History

end Splipy
