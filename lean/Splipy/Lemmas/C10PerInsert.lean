import Splipy.Lemmas.C10Insert
import Splipy.Lemmas.C04PerSeq
import Splipy.Lemmas.C04PerKnots

/-!
# C10 helper lemmas: knot insertion along a PERIODIC direction keeps an object well formed

Under the guard `n ≥ p + k` of C04's periodic theorems (`n` functions, order `p`, continuity `k`) the
matrix `C` returned by `BSplineBasis.insert_knot` for a periodic basis is row stochastic as well.
With `mu = bisect_right(knots, x)` (`p ≤ mu ≤ n + k + 1`):

* `mu ≤ n`: no index of the three loops wraps, the closed form `C04.codeF` applies verbatim;
* `mu = n + 1 + j`, `0 ≤ j ≤ k`: the last loop is empty and the middle loop wraps for its indices
  `n, n+1, …, n+j`; `C10.perF` is the closed form (`C10.matF_wrap`): column `c ≤ j` holds
  `gs (n+c)` on the diagonal and `gd (n+c)` in the row above (row `n` for `c = 0`), overwriting the
  `1` of the first loop.  Every row again holds one pair `gd i`, `gs (i-1)` or a single `1`.

Everything downstream (`insertMany`, `Obj.insertKnots`, the history steps) follows as in the
non-periodic case (`Lemmas/C10Insert.lean`).
-/

set_option linter.unusedSectionVars false

namespace Splipy

variable {K : Type} [Field K] [LinearOrder K] [IsStrictOrderedRing K] [FloorRing K]

namespace C10

/-! ## the wrapping middle loop in closed form -/

/-- The middle loop at the wrapped indices `n+1+t`, `t < j`: column `t+1` gets `gd` in row `t` and
    `gs` in row `t+1`. -/
theorem loop2_wrap_closed (τ : ℕ → K) (x : K) (n p : ℕ) (F : ℕ → ℕ → K) (j : ℕ) (hj : j + 1 ≤ n)
    (r c : ℕ) :
    ((List.range' (n + 1) j).foldl (C04.stepF2 τ x n p) F) r c =
      if 1 ≤ c ∧ c ≤ j ∧ r = c then C04.gs τ x p (n + c)
      else if 1 ≤ c ∧ c ≤ j ∧ r + 1 = c then C04.gd τ x p (n + c) else F r c := by
  induction j with
  | zero =>
    simp only [List.range'_zero, List.foldl_nil]
    split_ifs <;> first | rfl | (exfalso; omega)
  | succ j ih =>
    rw [List.range'_concat, List.foldl_append]
    simp only [List.foldl_cons, List.foldl_nil, C04.stepF2, C04.setF, Nat.one_mul]
    have e1 : (n + 1 + j) % (n + 1) = j := by
      rw [Nat.add_mod_left, Nat.mod_eq_of_lt (by omega)]
    have e2 : (n + 1 + j) % n = j + 1 := by
      rw [show n + 1 + j = n + (j + 1) by omega, Nat.add_mod_left, Nat.mod_eq_of_lt (by omega)]
    have e3 : (n + 1 + j + 1) % (n + 1) = j + 1 := by
      rw [show n + 1 + j + 1 = (n + 1) + (j + 1) by omega, Nat.add_mod_left,
        Nat.mod_eq_of_lt (by omega)]
    rw [e1, e2, e3, ih (by omega)]
    split_ifs <;> first | rfl | (exfalso; omega) | (congr 1; omega)

/-- The middle loop at index `n`: `gd n` at `(n, 0)`, `gs n` at `(0, 0)`. -/
theorem stepF2_at_n (τ : ℕ → K) (x : K) (n p : ℕ) (F : ℕ → ℕ → K) (r c : ℕ) :
    C04.stepF2 τ x n p F n r c =
      if r = 0 ∧ c = 0 then C04.gs τ x p n else if r = n ∧ c = 0 then C04.gd τ x p n else F r c := by
  simp only [C04.stepF2, C04.setF]
  rw [Nat.mod_self, Nat.mod_self, Nat.mod_eq_of_lt (Nat.lt_succ_self n)]

/-- Closed form of the insertion matrix for `mu = n + 1 + j` (the wrapping case). -/
def perF (τ : ℕ → K) (x : K) (n p j : ℕ) : ℕ → ℕ → K := fun r c =>
  if c ≤ j ∧ r = c then C04.gs τ x p (n + c)
  else if c ≤ j ∧ (r + 1 = c ∨ (c = 0 ∧ r = n)) then C04.gd τ x p (n + c)
  else if n + 1 + j - p ≤ c ∧ r = c + 1 then C04.gs τ x p c
  else if n + 1 + j - p ≤ c ∧ r = c then C04.gd τ x p c
  else if r = c ∧ c < n + 1 + j - p then 1 else 0

theorem matF_wrap (τ : ℕ → K) (x : K) (n p j : ℕ) (hjp : j + 2 ≤ p) (hg : p + j ≤ n) (r c : ℕ)
    (hc : c < n) : C04.matF τ x n p (n + 1 + j) r c = perF τ x n p j r c := by
  have hsplit : List.range' (n + 1 + j - p) (n + 1 + j - (n + 1 + j - p))
      = List.range' (n + 1 + j - p) (n - (n + 1 + j - p)) ++ (n :: List.range' (n + 1) j) := by
    rw [show n + 1 + j - (n + 1 + j - p) = (n - (n + 1 + j - p)) + (1 + j) by omega,
      ← List.range'_append_1, show n + 1 + j - p + (n - (n + 1 + j - p)) = n by omega,
      ← List.range'_append_1]
    rfl
  have e0 : n + 1 - (n + 1 + j) = 0 := by omega
  unfold C04.matF
  simp only [e0, List.range'_zero, List.foldl_nil, hsplit, List.foldl_append, List.foldl_cons]
  rw [loop2_wrap_closed τ x n p _ j (by omega), stepF2_at_n,
    C04.loop2_closed τ x n p _ _ _ (by omega), C04.loop1_closed n _ _ (by omega)]
  unfold perF
  split_ifs <;> first | rfl | (exfalso; omega) | (congr 1; omega)

/-! ## the wrapped closed form is row stochastic -/

theorem perF_nonneg (τ : ℕ → K) (hτ : Monotone τ) (x : K) (n p j : ℕ) (hjp : j + 2 ≤ p)
    (hlo : ∀ i, i < n + 1 + j → τ i ≤ x) (hhi : ∀ i, n + 1 + j ≤ i → i ≤ n + p + j → x < τ i)
    (r c : ℕ) (hc : c < n) : 0 ≤ perF τ x n p j r c := by
  unfold perF
  split_ifs with h1 h2 h3 h4 h5
  · exact gs_nonneg τ hτ x p (n + c) (by omega) (le_of_lt (hhi _ (by omega) (by omega)))
  · exact gd_nonneg τ hτ x p (n + c) (by omega) (hlo _ (by omega))
  · exact gs_nonneg τ hτ x p c (by omega) (le_of_lt (hhi _ (by omega) (by omega)))
  · exact gd_nonneg τ hτ x p c (by omega) (hlo _ (by omega))
  · exact zero_le_one
  · exact le_refl _

theorem perF_row_sum (τ : ℕ → K) (x : K) (n p j : ℕ) (hjp : j + 2 ≤ p) (hg : p + j ≤ n)
    (hlo : ∀ i, i < n + 1 + j → τ i ≤ x) (hhi : ∀ i, n + 1 + j ≤ i → i ≤ n + p + j → x < τ i)
    (r : ℕ) (hr : r < n + 1) : (Finset.range n).sum (fun c => perF τ x n p j r c) = 1 := by
  by_cases hA : r < j
  · -- rows `0 … j-1`: `gs (n+r)` and `gd (n+r+1)`
    rw [Finset.sum_eq_add_of_mem r (r + 1) (Finset.mem_range.2 (by omega))
      (Finset.mem_range.2 (by omega)) (by omega) (by
        intro c hc hne
        have hc' := Finset.mem_range.1 hc
        unfold perF
        split_ifs <;> first | rfl | (exfalso; omega))]
    have v1 : perF τ x n p j r r = C04.gs τ x p (n + r + 1 - 1) := by
      unfold perF; rw [if_pos ⟨by omega, rfl⟩]; rfl
    have v2 : perF τ x n p j r (r + 1) = C04.gd τ x p (n + r + 1) := by
      unfold perF
      rw [if_neg (by omega), if_pos ⟨by omega, Or.inl rfl⟩]; rfl
    rw [v1, v2, add_comm]
    exact gd_add_gs τ x p (n + r + 1) (by omega) (hlo _ (by omega)) (hlo _ (by omega))
      (hhi _ (by omega) (by omega))
  by_cases hB : r = j
  · -- row `j`: the single entry `gs (mu-1) = 1`
    rw [Finset.sum_eq_single_of_mem r (Finset.mem_range.2 (by omega)) (by
        intro c hc hne
        have hc' := Finset.mem_range.1 hc
        unfold perF
        split_ifs <;> first | rfl | (exfalso; omega))]
    unfold perF
    rw [if_pos ⟨by omega, rfl⟩]
    unfold C04.gs
    rw [if_pos ⟨hlo _ (by omega), le_of_lt (hhi _ (by omega) (by omega))⟩]
  by_cases hC : r < n + 1 + j - p
  · -- untouched rows
    rw [Finset.sum_eq_single_of_mem r (Finset.mem_range.2 (by omega)) (by
        intro c hc hne
        have hc' := Finset.mem_range.1 hc
        unfold perF
        split_ifs <;> first | rfl | (exfalso; omega))]
    unfold perF
    rw [if_neg (by omega), if_neg (by omega), if_neg (by omega), if_neg (by omega),
      if_pos ⟨rfl, hC⟩]
  by_cases hD : r = n + 1 + j - p
  · -- row `mu - p`: the single entry `gd (mu-p) = 1`
    rw [Finset.sum_eq_single_of_mem r (Finset.mem_range.2 (by omega)) (by
        intro c hc hne
        have hc' := Finset.mem_range.1 hc
        unfold perF
        split_ifs <;> first | rfl | (exfalso; omega))]
    unfold perF
    rw [if_neg (by omega), if_neg (by omega), if_neg (by omega), if_pos ⟨by omega, rfl⟩]
    unfold C04.gd
    rw [if_pos]
    rw [show r + p - 1 = n + j by omega, show r + p = n + j + 1 by omega]
    exact ⟨hlo _ (by omega), le_of_lt (hhi _ (by omega) (by omega))⟩
  by_cases hE : r < n
  · -- rows `mu - p < r < n`: `gd r` and `gs (r-1)`
    rw [Finset.sum_eq_add_of_mem r (r - 1) (Finset.mem_range.2 hE)
      (Finset.mem_range.2 (by omega)) (by omega) (by
        intro c hc hne
        have hc' := Finset.mem_range.1 hc
        unfold perF
        split_ifs <;> first | rfl | (exfalso; omega))]
    have v1 : perF τ x n p j r r = C04.gd τ x p r := by
      unfold perF
      rw [if_neg (by omega), if_neg (by omega), if_neg (by omega), if_pos ⟨by omega, rfl⟩]
    have v2 : perF τ x n p j r (r - 1) = C04.gs τ x p (r - 1) := by
      unfold perF
      rw [if_neg (by omega), if_neg (by omega), if_pos ⟨by omega, by omega⟩]
    rw [v1, v2]
    exact gd_add_gs τ x p r (by omega) (hlo _ (by omega)) (hlo _ (by omega))
      (hhi _ (by omega) (by omega))
  · -- row `n`: `gd n` in column `0`, `gs (n-1)` in column `n-1`
    have hrn : r = n := by omega
    subst hrn
    rw [Finset.sum_eq_add_of_mem 0 (r - 1) (Finset.mem_range.2 (by omega))
      (Finset.mem_range.2 (by omega)) (by omega) (by
        intro c hc hne
        have hc' := Finset.mem_range.1 hc
        unfold perF
        split_ifs <;> first | rfl | (exfalso; omega))]
    have v1 : perF τ x r p j r 0 = C04.gd τ x p r := by
      unfold perF
      rw [if_neg (by omega), if_pos ⟨by omega, Or.inr ⟨rfl, rfl⟩⟩]; rfl
    have v2 : perF τ x r p j r (r - 1) = C04.gs τ x p (r - 1) := by
      unfold perF
      rw [if_neg (by omega), if_neg (by omega), if_pos ⟨by omega, by omega⟩]
    rw [v1, v2]
    exact gd_add_gs τ x p r (by omega) (hlo _ (by omega)) (hlo _ (by omega))
      (hhi _ (by omega) (by omega))

/-- The array matrix in the wrapping case `mu = n + 1 + j` is row stochastic. -/
theorem matC_wrap_stochastic (τ : ℕ → K) (hτ : Monotone τ) (x : K) (n p j : ℕ) (hjp : j + 2 ≤ p)
    (hg : p + j ≤ n) (hlo : ∀ i, i < n + 1 + j → τ i ≤ x)
    (hhi : ∀ i, n + 1 + j ≤ i → i ≤ n + p + j → x < τ i) :
    RowStochastic (n + 1) n (C04.matC τ x n p (n + 1 + j)) := by
  have hrel := C04.rel_matC τ x n p (n + 1 + j) (by omega)
  have hent : ∀ r c, r < n + 1 → c < n →
      C04.entry (C04.matC τ x n p (n + 1 + j)) r c = perF τ x n p j r c := by
    intro r c hr hc
    rw [hrel.2 r c hr hc, matF_wrap τ x n p j hjp hg r c hc]
  refine ⟨hrel.1, fun r c hr hc => ?_, fun r hr => ?_⟩
  · rw [hent r c hr hc]; exact perF_nonneg τ hτ x n p j hjp hlo hhi r c hc
  · rw [Finset.sum_congr rfl (fun c hc => hent r c hr (Finset.mem_range.1 hc))]
    exact perF_row_sum τ x n p j hjp hg hlo hhi r hr

/-- The array matrix in the non-wrapping case `p ≤ mu ≤ n` is row stochastic. -/
theorem matC_open_stochastic (τ : ℕ → K) (hτ : Monotone τ) (x : K) (n p mu : ℕ) (hp : 1 ≤ p)
    (hpm : p ≤ mu) (hmn : mu ≤ n) (hlo : ∀ i, i < mu → τ i ≤ x)
    (hhi : ∀ i, mu ≤ i → i < n + p → x < τ i) :
    RowStochastic (n + 1) n (C04.matC τ x n p mu) := by
  have hrel := C04.rel_matC τ x n p mu (by omega)
  have hxx : τ (mu - 1) ≤ x ∧ x ≤ τ mu := ⟨hlo _ (by omega), le_of_lt (hhi _ le_rfl (by omega))⟩
  have hent : ∀ r c, r < n + 1 → c < n →
      C04.entry (C04.matC τ x n p mu) r c = C04.codeF τ x p mu r c := by
    intro r c hr hc
    rw [hrel.2 r c hr hc, C04.matF_closed τ x n p mu hp hpm hmn hxx r c hc]
  refine ⟨hrel.1, fun r c hr hc => ?_, fun r hr => ?_⟩
  · rw [hent r c hr hc]; exact codeF_nonneg τ hτ x n p mu hp hlo hhi r c hc
  · rw [Finset.sum_congr rfl (fun c hc => hent r c hr (Finset.mem_range.1 hc))]
    exact codeF_row_sum τ x n p mu hp hpm hmn hlo hhi r hr

/-! ## one periodic insertion -/

/-- **One insertion into a periodic basis (`n ≥ p + k`, wrapped value not the domain end) is row
    stochastic.** -/
theorem insertKnot_stochastic_periodic (b : Basis K) (hv : b.Valid) (k : ℕ)
    (hk : b.periodic = (k : Int)) (hguard : b.order + k ≤ b.numFunctions) (x0 : K)
    (hne : C04.wrapVal b x0 ≠ b.stop) {b' : Basis K} {C : Mat K}
    (h : b.insertKnot x0 = .ok (b', C)) : RowStochastic (b.numFunctions + 1) b.numFunctions C := by
  obtain ⟨hw1, hw2, _⟩ := C04.wrapVal_mem b hv.start_lt_stop x0
  have hlt : C04.wrapVal b x0 < b.stop := lt_of_le_of_ne hw2 hne
  rw [C04.insertKnot_wrap b (by rw [hk]; omega) hv.start_lt_stop x0] at h
  generalize C04.wrapVal b x0 = x at hw1 hlt h
  obtain ⟨b1, C1, e1, _, _, _, _, _, _, _, _, _, _, eC⟩ :=
    C04.insertKnot_periodic b hv k hk hguard x ⟨hw1, hlt⟩
  rw [e1] at h
  have hC : C = C04.matC b.kn x b.numFunctions b.order (b.bisectR x) := by
    have := Except.ok.inj h
    rw [← (Prod.mk.inj this).2]; exact eC
  rw [hC]
  have hmono : Monotone b.kn := C04.kn_mono hv.sorted
  have hp := hv.order_pos
  have hsz := hv.size_ge
  have hpk : k + 2 ≤ b.order := by
    rcases hv.periodic_le with h' | h'
    · rw [hk] at h'; omega
    · rw [hk] at h'; omega
  have hn := C04.numFunctions_periodic b k hk
  obtain ⟨hm1, hm2, hm3⟩ := bisectRight_spec b.kn hmono x b.knots.size
  have hm1' : b.bisectR x ≤ b.knots.size := hm1
  have hm2' : ∀ i, i < b.bisectR x → b.kn i ≤ x := hm2
  have hm3' : ∀ i, b.bisectR x ≤ i → i < b.knots.size → x < b.kn i := hm3
  have hsize : b.knots.size = b.numFunctions + b.order + k + 1 := by omega
  have hpm : b.order ≤ b.bisectR x := by
    by_contra hcon
    have := hm3' (b.order - 1) (by omega) (by omega)
    exact absurd hw1 (not_le.2 this)
  have hmu2 : b.bisectR x ≤ b.numFunctions + k + 1 := by
    by_contra hcon
    have h2 : b.kn (b.knots.size - b.order) ≤ x := hm2' _ (by omega)
    exact absurd hlt (not_lt.2 h2)
  by_cases hmn : b.bisectR x ≤ b.numFunctions
  · exact matC_open_stochastic b.kn hmono x b.numFunctions b.order (b.bisectR x) hp hpm hmn hm2'
      (fun i h1 h2 => hm3' i h1 (by omega))
  · obtain ⟨j, hj⟩ : ∃ j, b.bisectR x = b.numFunctions + 1 + j :=
      ⟨b.bisectR x - (b.numFunctions + 1), by omega⟩
    rw [hj] at hm2' hm3' ⊢
    exact matC_wrap_stochastic b.kn hmono x b.numFunctions b.order j (by omega) (by omega) hm2'
      (fun i h1 h2 => hm3' i h1 (by omega))

/-! ## a sequence of periodic insertions -/

theorem insertMany_stochastic_periodic_aux (b0 : Basis K) (hv0 : b0.Valid) (k : ℕ)
    (hk : b0.periodic = (k : Int)) (hguard : b0.order + k ≤ b0.numFunctions) (xs : List K) :
    ∀ (b : Basis K) (Cacc : Mat K) (m : ℕ), C04.PerRefines b0 b Cacc m →
      RowStochastic (b0.numFunctions + m) b0.numFunctions Cacc →
      (∀ x ∈ xs, C04.wrapVal b0 x ≠ b0.stop) →
      ∀ {b' : Basis K} {C : Mat K}, C04.insertMany b Cacc xs = .ok (b', C) →
        RowStochastic (b0.numFunctions + (m + xs.length)) b0.numFunctions C := by
  induction xs with
  | nil =>
    intro b Cacc m _ hst _ b' C h
    have : (b, Cacc) = (b', C) := Except.ok.inj h
    rw [← (Prod.mk.inj this).2]
    simpa using hst
  | cons x xs ih =>
    intro b Cacc m href hst hxs b' C h
    have hx := hxs x List.mem_cons_self
    have hk' : b.periodic = (k : Int) := href.periodic_eq.trans hk
    have hguard' : b.order + k ≤ b.numFunctions := by rw [href.order_eq, href.num_eq]; omega
    have hne' : C04.wrapVal b x ≠ b.stop := by
      rw [C04.wrapVal_congr b0 b href.start_eq href.stop_eq, href.stop_eq]; exact hx
    obtain ⟨b1, C1, hins, hr1⟩ := C04.insertKnot_per_step b href.valid k hk' hguard' x hne'
    have hst1 := insertKnot_stochastic_periodic b href.valid k hk' hguard' x hne' hins
    rw [href.num_eq] at hst1
    have hstep : C04.stepIns (b, Cacc) x = .ok (b1, Mat.mul C1 Cacc) := by
      unfold C04.stepIns
      simp only [hins]
      rfl
    unfold C04.insertMany at h
    rw [List.foldlM_cons, hstep] at h
    have hn0 := C04.numFunctions_pos hv0
    have := ih b1 (Mat.mul C1 Cacc) (m + 1) (C04.perRefines_trans hv0 href hr1)
      (hst1.mul hst (by omega)) (fun y hy => hxs y (List.mem_cons_of_mem _ hy)) h
    have e : m + (x :: xs).length = m + 1 + xs.length := by simp; omega
    rw [e]; exact this

/-- **The accumulated matrix of a sequence of periodic insertions is row stochastic.** -/
theorem insertMany_stochastic_periodic (b : Basis K) (hv : b.Valid) (k : ℕ)
    (hk : b.periodic = (k : Int)) (hguard : b.order + k ≤ b.numFunctions) (xs : List K)
    (hxs : ∀ x ∈ xs, C04.wrapVal b x ≠ b.stop) {b' : Basis K} {C : Mat K}
    (h : C04.insertMany b (Mat.identity b.numFunctions) xs = .ok (b', C)) :
    RowStochastic (b.numFunctions + xs.length) b.numFunctions C := by
  have := insertMany_stochastic_periodic_aux b hv k hk hguard xs b (Mat.identity b.numFunctions) 0
    (C04.perRefines_refl b hv) (by simpa using rowStochastic_identity b.numFunctions) hxs h
  simpa using this

end C10

/-! ## object level -/

namespace Obj

/-- **`SplineObject.insert_knot` along a periodic direction (`n ≥ p + k`) keeps the object well
    formed.** -/
theorem WellFormed.insertKnots_periodic {o o' : Obj K} (h : o.WellFormed) (dir : ℕ)
    (hd : dir < o.bases.size) (k : ℕ) (hk : (o.basis dir).periodic = (k : Int))
    (hguard : (o.basis dir).order + k ≤ (o.basis dir).numFunctions) (xs : List K)
    (hxs : ∀ x ∈ xs, C04.wrapVal (o.basis dir) x ≠ (o.basis dir).stop)
    (hs : o.insertKnots xs dir = .ok o') :
    o'.WellFormed ∧ o'.bases.size = o.bases.size ∧ (∀ d, d ≠ dir → o'.basis d = o.basis d) ∧
      (o'.basis dir).periodic = (k : Int) ∧ (o'.basis dir).order = (o.basis dir).order ∧
      (o'.basis dir).numFunctions = (o.basis dir).numFunctions + xs.length ∧
      (o'.basis dir).start = (o.basis dir).start ∧ (o'.basis dir).stop = (o.basis dir).stop := by
  have hv := h.valid dir hd
  have hshape : o.cps.shape.getD dir 0 = (o.basis dir).numFunctions := h.shape_getD dir 0 hd
  obtain ⟨b', C, hm, href⟩ := C04.insertMany_periodic (o.basis dir) hv k hk hguard xs hxs
  have hst := C10.insertMany_stochastic_periodic (o.basis dir) hv k hk hguard xs hxs hm
  rw [C04.insertKnots_eq, hshape, hm] at hs
  have ho' : o' = { o with bases := o.bases.set! dir b', cps := Tensor.applyAxis C o.cps dir } :=
    (Except.ok.inj hs).symm
  subst ho'
  have hCsize : C.size = (o.basis dir).numFunctions + xs.length := href.shape.1
  have hmid : (Tensor.split3 o.cps.shape dir).2.1 = (o.basis dir).numFunctions := by
    simp only [Tensor.split3]; exact h.shape_getD dir 1 hd
  have hax1 : dir + 1 < o.cps.shape.length := by rw [h.shape_length]; omega
  refine ⟨?_, ?_, fun d hd' => C04.basis_set_ne o dir d hd' _ _, ?_, ?_, ?_, ?_, ?_⟩
  · refine h.build3 dir C.size (fun a r i =>
      (List.range (Tensor.split3 o.cps.shape dir).2.1).foldl
        (fun acc j => acc + (C.getD r #[]).getD j 0 * o.cps.at3 dir a j i) 0) b' hd href.valid
      (by rw [href.num_eq, hCsize]) ?_
    intro hr a r i ha hr' hi him
    have e : (List.range (Tensor.split3 o.cps.shape dir).2.1).foldl
        (fun acc j => acc + (C.getD r #[]).getD j 0 * o.cps.at3 dir a j i) 0
        = C04.mulVec C (o.basis dir).numFunctions (fun j => o.cps.at3 dir a j i) r := by
      rw [C04.foldl_add_eq_sum, hmid]; rfl
    rw [e]
    apply hst.mulVec_pos _ _ r (by omega)
    intro j hj
    exact C10.at3_pos o.cps o.ncomp o.dimension h.data_size (h.tpos hr) dir hax1 (h.last_eq 1) a j i ha
      (by rw [hmid]; exact hj) hi him
  · show (o.bases.set! dir b').size = o.bases.size
    simp
  · rw [C04.basis_set o dir hd]; exact href.periodic_eq.trans hk
  · rw [C04.basis_set o dir hd]; exact href.order_eq
  · rw [C04.basis_set o dir hd]; exact href.num_eq
  · rw [C04.basis_set o dir hd]; exact href.start_eq
  · rw [C04.basis_set o dir hd]; exact href.stop_eq

/-- A direction along which `insert_knot` is covered: non-periodic, or periodic with the guard
    `n ≥ p + k`. -/
def DirOK (b : Basis K) : Prop :=
  b.periodic = -1 ∨ ∃ k : ℕ, b.periodic = (k : Int) ∧ b.order + k ≤ b.numFunctions

/-- The values that may be inserted along a direction: `[start, end)` for a non-periodic one, any
    real whose wrapped image is not the domain end for a periodic one. -/
def KnotsOK (b : Basis K) (xs : List K) : Prop :=
  (b.periodic = -1 ∧ ∀ x ∈ xs, b.start ≤ x ∧ x < b.stop) ∨
  (∃ k : ℕ, b.periodic = (k : Int) ∧ b.order + k ≤ b.numFunctions ∧
    ∀ x ∈ xs, C04.wrapVal b x ≠ b.stop)

/-- Values strictly inside the domain may be inserted along any covered direction. -/
theorem KnotsOK.of_interior {b : Basis K} (hb : DirOK b) (xs : List K)
    (hxs : ∀ x ∈ xs, b.start < x ∧ x < b.stop) : KnotsOK b xs := by
  rcases hb with hb | ⟨k, hk, hg⟩
  · exact Or.inl ⟨hb, fun x hx => ⟨le_of_lt (hxs x hx).1, (hxs x hx).2⟩⟩
  · refine Or.inr ⟨k, hk, hg, fun x hx => ?_⟩
    obtain ⟨h1, h2⟩ := hxs x hx
    have : C04.wrapVal b x = x := by
      unfold C04.wrapVal
      rw [if_neg (not_or.2 ⟨not_lt.2 (le_of_lt h1), not_lt.2 (le_of_lt h2)⟩)]
    rw [this]; exact ne_of_lt h2

/-- Both cases of `insert_knot` at once. -/
theorem WellFormed.insertKnots_any {o o' : Obj K} (h : o.WellFormed) (dir : ℕ)
    (hd : dir < o.bases.size) (xs : List K) (hok : KnotsOK (o.basis dir) xs)
    (hs : o.insertKnots xs dir = .ok o') :
    o'.WellFormed ∧ o'.bases.size = o.bases.size ∧ (∀ d, d ≠ dir → o'.basis d = o.basis d) ∧
      DirOK (o'.basis dir) := by
  rcases hok with ⟨hper, hxs⟩ | ⟨k, hk, hg, hxs⟩
  · obtain ⟨h1, h2, h3, h4, _, _⟩ := h.insertKnots dir hd hper xs hxs hs
    exact ⟨h1, h2, h3, Or.inl h4⟩
  · obtain ⟨h1, h2, h3, h4, h5, h6, _, _⟩ := h.insertKnots_periodic dir hd k hk hg xs hxs hs
    exact ⟨h1, h2, h3, Or.inr ⟨k, h4, by rw [h5, h6]; omega⟩⟩

/-- Invariant of the loop of `refine`: well formed, every direction covered. -/
def GuardWF (o : Obj K) : Prop := o.WellFormed ∧ ∀ d, d < o.bases.size → DirOK (o.basis d)

theorem GuardWF.refineDir {o o' : Obj K} (h : o.GuardWF) (tol : K) (htol : 0 ≤ tol) (n d : ℕ)
    (hs : o.refineDir tol n d = .ok o') : o'.GuardWF := by
  unfold Obj.refineDir at hs
  by_cases hpd : d < o.pardim
  · rw [if_pos hpd] at hs
    simp only [] at hs
    unfold Obj.insertKnotDir at hs
    rw [if_pos hpd] at hs
    have hd : d < o.bases.size := by rw [← h.1.pardim_eq]; exact hpd
    have hv := h.1.valid d hd
    obtain ⟨hs1, hs2⟩ := C04.knotSpans_spec (o.basis d) hv tol htol
    have hmem : ∀ v ∈ refineValues ((o.basis d).knotSpans tol false).toList n,
        (o.basis d).start < v ∧ v < (o.basis d).stop := by
      intro v hv'
      exact (C04.refineValues_mem _ hs1 _ _ hs2 n v hv').2
    obtain ⟨hw, hsz, hoth, hp⟩ :=
      h.1.insertKnots_any d hd _ (KnotsOK.of_interior (h.2 d hd) _ hmem) hs
    refine ⟨hw, fun d' hd' => ?_⟩
    by_cases e : d' = d
    · subst e; exact hp
    · rw [hoth d' e]; exact h.2 d' (by rw [← hsz]; exact hd')
  · rw [if_neg hpd] at hs
    cases hs

theorem GuardWF.refineFold (tol : K) (htol : 0 ≤ tol) (l : List (ℕ × ℕ)) :
    ∀ (o o' : Obj K), o.GuardWF →
      l.foldlM (fun (o : Obj K) (nd : ℕ × ℕ) => o.refineDir tol nd.1 nd.2) o = .ok o' →
      o'.GuardWF := by
  induction l with
  | nil =>
    intro o o' h hs
    have : o = o' := Except.ok.inj hs
    rw [← this]; exact h
  | cons nd l ih =>
    intro o o' h hs
    rw [List.foldlM_cons] at hs
    cases hres : o.refineDir tol nd.1 nd.2 with
    | error e => rw [hres] at hs; cases hs
    | ok o1 =>
      rw [hres] at hs
      exact ih o1 o' (h.refineDir tol htol nd.1 nd.2 hres) hs

end Obj

/-! ## history steps -/

namespace History

/-- `insert_knot` along a periodic direction.  `_partial`: guard `n ≥ p + k`, wrapped values not the
    domain end (the exclusions of `C04_periodic_partial`). -/
theorem stepOut_insertKnot_periodic_wf_partial {o : Obj K} (h : o.WellFormed) (tol : K)
    (knots : List K) (dir : ℕ) (k : ℕ) (hk : (o.basis dir).periodic = (k : Int))
    (hguard : (o.basis dir).order + k ≤ (o.basis dir).numFunctions)
    (hxs : ∀ x ∈ knots, C04.wrapVal (o.basis dir) x ≠ (o.basis dir).stop)
    {out : Out K} (hs : stepOut tol o (.insertKnot knots dir) = .ok out) :
    out.recv.WellFormed ∧ out.news = [] := by
  change inPlace (o.insertKnotDir knots dir) = .ok out at hs
  unfold inPlace Obj.insertKnotDir at hs
  by_cases hpd : dir < o.pardim
  · rw [if_pos hpd] at hs
    have hd : dir < o.bases.size := by rw [← h.pardim_eq]; exact hpd
    cases hres : o.insertKnots knots dir with
    | error e => rw [hres] at hs; cases hs
    | ok o1 =>
      rw [hres] at hs
      have : ({ recv := o1, news := [] } : Out K) = out := Except.ok.inj hs
      rw [← this]
      exact ⟨(h.insertKnots_periodic dir hd k hk hguard knots hxs hres).1, rfl⟩
  · rw [if_neg hpd] at hs
    cases hs

/-- `insert_knot` along any covered direction (non-periodic with values in `[start, end)`, or periodic
    with the guard and wrapped values not the domain end). -/
theorem stepOut_insertKnot_any_wf_partial {o : Obj K} (h : o.WellFormed) (tol : K)
    (knots : List K) (dir : ℕ) (hok : Obj.KnotsOK (o.basis dir) knots)
    {out : Out K} (hs : stepOut tol o (.insertKnot knots dir) = .ok out) :
    out.recv.WellFormed ∧ out.news = [] := by
  rcases hok with ⟨hper, hxs⟩ | ⟨k, hk, hg, hxs⟩
  · exact stepOut_insertKnot_wf h tol knots dir hper hxs hs
  · exact stepOut_insertKnot_periodic_wf_partial h tol knots dir k hk hg hxs hs

/-- `refine` on an object all of whose directions are covered (non-periodic, or periodic with the
    guard `n ≥ p + k`). -/
theorem stepOut_refine_any_wf_partial {o : Obj K} (h : o.WellFormed) (tol : K) (htol : 0 ≤ tol)
    (ns : List ℕ) (direction : Option ℕ)
    (hdirs : ∀ d, d < o.bases.size → Obj.DirOK (o.basis d))
    {out : Out K} (hs : stepOut tol o (.refine ns direction) = .ok out) :
    out.recv.WellFormed ∧ out.news = [] := by
  change inPlace (o.refine tol ns direction) = .ok out at hs
  unfold inPlace at hs
  cases hres : o.refine tol ns direction with
  | error e => rw [hres] at hs; cases hs
  | ok o1 =>
    rw [hres] at hs
    have : ({ recv := o1, news := [] } : Out K) = out := Except.ok.inj hs
    rw [← this]
    obtain ⟨l, hl⟩ := Obj.refine_eq_fold tol ns direction hres
    exact ⟨(Obj.GuardWF.refineFold tol htol l o o1 ⟨h, hdirs⟩ hl).1, rfl⟩

end History

/-! # Every valid periodic basis: the end of the domain and the cover branch

`insert_knot` now accepts every real for every valid periodic basis: the wrapped value may be the end
of the domain (insertion index clamped to `len(knots) - p`), and a basis with `n < p + k` functions is
refined through its `R`-fold cover.

At the end of the domain the matrix need NOT be row stochastic: for the valid basis
`⟨2, #[0,0,1,1,2], 0⟩` (`n = 2 = p + k`, a knot of multiplicity `p` at the seam) `insert_knot(1)`
returns `[[1,0],[0,1],[1,1]]` — both guards `knots[i+p-1] <= x <= knots[i+p]` and
`knots[i] <= x <= knots[i+1]` of the middle loop hold at once, the last row sums to `2`.
What always holds, and what positivity of the weights needs, is `RowPositive`: entries `≥ 0`, every
row sum `≥ 1`.  Exact row sums `= 1` hold whenever the wrapped value is not the end of the domain
(`insertKnot_stochastic_periodic_all_partial`).
-/

namespace C10

/-- `rows × cols`, entries `≥ 0`, every row sums to at least one. -/
def RowPositive (rows cols : ℕ) (C : Mat K) : Prop :=
  C04.Shape rows cols C ∧ (∀ r c, r < rows → c < cols → 0 ≤ C04.entry C r c) ∧
    (∀ r, r < rows → 1 ≤ (Finset.range cols).sum (fun c => C04.entry C r c))

theorem RowStochastic.rowPositive {rows cols : ℕ} {C : Mat K} (h : RowStochastic rows cols C) :
    RowPositive rows cols C :=
  ⟨h.1, h.2.1, fun r hr => le_of_eq (h.2.2 r hr).symm⟩

theorem RowPositive.mul {a m n : ℕ} {A B : Mat K} (hA : RowPositive a m A)
    (hB : RowPositive m n B) (hm : 0 < m) : RowPositive a n (Mat.mul A B) := by
  refine ⟨C04.shape_mul hA.1 hB.1 hm, fun r c hr hc => ?_, fun r hr => ?_⟩
  · rw [C04.entry_mul hA.1 hB.1 hm r c hr hc]
    exact Finset.sum_nonneg (fun l hl => mul_nonneg (hA.2.1 r l hr (Finset.mem_range.1 hl))
      (hB.2.1 l c (Finset.mem_range.1 hl) hc))
  · rw [Finset.sum_congr rfl (fun c hc => C04.entry_mul hA.1 hB.1 hm r c hr (Finset.mem_range.1 hc)),
      Finset.sum_comm]
    have : ∀ l ∈ Finset.range m, C04.entry A r l
        ≤ (Finset.range n).sum (fun c => C04.entry A r l * C04.entry B l c) := by
      intro l hl
      rw [← Finset.mul_sum]
      calc C04.entry A r l = C04.entry A r l * 1 := (mul_one _).symm
        _ ≤ _ := mul_le_mul_of_nonneg_left (hB.2.2 l (Finset.mem_range.1 hl))
            (hA.2.1 r l hr (Finset.mem_range.1 hl))
    exact le_trans (hA.2.2 r hr) (Finset.sum_le_sum this)

/-- A row-positive matrix maps positive vectors to positive vectors. -/
theorem RowPositive.mulVec_pos {rows cols : ℕ} {C : Mat K} (h : RowPositive rows cols C)
    (w : ℕ → K) (hw : ∀ j, j < cols → 0 < w j) (r : ℕ) (hr : r < rows) :
    0 < C04.mulVec C cols w r := by
  unfold C04.mulVec
  apply Finset.sum_pos'
  · intro j hj
    exact mul_nonneg (h.2.1 r j hr (Finset.mem_range.1 hj)) (le_of_lt (hw j (Finset.mem_range.1 hj)))
  · by_contra hcon
    have hz : ∀ j ∈ Finset.range cols, C04.entry C r j = 0 := by
      intro j hj
      have h1 := h.2.1 r j hr (Finset.mem_range.1 hj)
      rcases lt_or_eq_of_le h1 with h2 | h2
      · exact absurd ⟨j, hj, mul_pos h2 (hw j (Finset.mem_range.1 hj))⟩ hcon
      · exact h2.symm
    have := h.2.2 r hr
    rw [Finset.sum_eq_zero hz] at this
    exact absurd this (not_le.2 zero_lt_one)

/-- The first `m` rows of a row-positive / row-stochastic matrix. -/
theorem RowPositive.extract {rows cols : ℕ} {C : Mat K} (h : RowPositive rows cols C) (m : ℕ)
    (hm : m ≤ rows) : RowPositive m cols (C.extract 0 m) := by
  obtain ⟨hs, he⟩ := C04.shape_extract C rows cols m h.1 hm
  refine ⟨hs, fun r c hr hc => ?_, fun r hr => ?_⟩
  · rw [he r c hr]; exact h.2.1 r c (by omega) hc
  · rw [Finset.sum_congr rfl (fun c _ => he r c hr)]; exact h.2.2 r (by omega)

theorem RowStochastic.extract {rows cols : ℕ} {C : Mat K} (h : RowStochastic rows cols C) (m : ℕ)
    (hm : m ≤ rows) : RowStochastic m cols (C.extract 0 m) := by
  obtain ⟨hs, he⟩ := C04.shape_extract C rows cols m h.1 hm
  refine ⟨hs, fun r c hr hc => ?_, fun r hr => ?_⟩
  · rw [he r c hr]; exact h.2.1 r c (by omega) hc
  · rw [Finset.sum_congr rfl (fun c _ => he r c hr)]; exact h.2.2 r (by omega)

/-- `np.tile(np.identity(n), (R, 1))` is row stochastic. -/
theorem rowStochastic_tile (n R : ℕ) (hn : 0 < n) :
    RowStochastic (R * n) n (Basis.tileIdentity n R : Mat K) := by
  have he : ∀ r c, r < R * n → c < n →
      C04.entry (Basis.tileIdentity n R : Mat K) r c = if r % n = c then 1 else 0 := by
    intro r c hr hc
    unfold Basis.tileIdentity
    exact C04.entry_ofFn2 (R * n) n (fun r c => if r % n = c then (1 : K) else 0) r c hr hc
  refine ⟨C04.tile_shape n R, fun r c hr hc => ?_, fun r hr => ?_⟩
  · rw [he r c hr hc]
    split_ifs
    · exact zero_le_one
    · exact le_refl _
  · rw [Finset.sum_congr rfl (fun c hc => he r c hr (Finset.mem_range.1 hc)),
      Finset.sum_ite_eq, if_pos (Finset.mem_range.2 (Nat.mod_lt _ hn))]

/-! ## the end of the domain: `x ≤ τ i` instead of `x < τ i` above the insertion index -/

theorem gd_add_gs_ge (τ : ℕ → K) (hτ : Monotone τ) (x : K) (p r : ℕ) (hp : 1 ≤ p) (hr : 1 ≤ r)
    (h1 : τ (r - 1) ≤ x) (h2 : τ r ≤ x) (h3 : x ≤ τ (r + p - 1)) :
    1 ≤ C04.gd τ x p r + C04.gs τ x p (r - 1) := by
  rcases lt_or_eq_of_le h3 with h | h
  · exact le_of_eq (gd_add_gs τ x p r hr h1 h2 h).symm
  · have hgd : C04.gd τ x p r = 1 := by
      unfold C04.gd
      rw [if_pos ⟨le_of_eq h.symm, le_trans h3 (hτ (by omega))⟩]
    have hgs : 0 ≤ C04.gs τ x p (r - 1) :=
      gs_nonneg τ hτ x p (r - 1) hp (by rw [show r - 1 + p = r + p - 1 by omega]; exact h3)
    rw [hgd]
    linarith

theorem perF_nonneg_le (τ : ℕ → K) (hτ : Monotone τ) (x : K) (n p j : ℕ) (hjp : j + 2 ≤ p)
    (hlo : ∀ i, i < n + 1 + j → τ i ≤ x) (hhi : ∀ i, n + 1 + j ≤ i → i ≤ n + p + j → x ≤ τ i)
    (r c : ℕ) (hc : c < n) : 0 ≤ perF τ x n p j r c := by
  unfold perF
  split_ifs with h1 h2 h3 h4 h5
  · exact gs_nonneg τ hτ x p (n + c) (by omega) (hhi _ (by omega) (by omega))
  · exact gd_nonneg τ hτ x p (n + c) (by omega) (hlo _ (by omega))
  · exact gs_nonneg τ hτ x p c (by omega) (hhi _ (by omega) (by omega))
  · exact gd_nonneg τ hτ x p c (by omega) (hlo _ (by omega))
  · exact zero_le_one
  · exact le_refl _

theorem perF_row_sum_ge (τ : ℕ → K) (hτ : Monotone τ) (x : K) (n p j : ℕ) (hjp : j + 2 ≤ p)
    (hg : p + j ≤ n) (hlo : ∀ i, i < n + 1 + j → τ i ≤ x)
    (hhi : ∀ i, n + 1 + j ≤ i → i ≤ n + p + j → x ≤ τ i)
    (r : ℕ) (hr : r < n + 1) : 1 ≤ (Finset.range n).sum (fun c => perF τ x n p j r c) := by
  by_cases hA : r < j
  · rw [Finset.sum_eq_add_of_mem r (r + 1) (Finset.mem_range.2 (by omega))
      (Finset.mem_range.2 (by omega)) (by omega) (by
        intro c hc hne
        have hc' := Finset.mem_range.1 hc
        unfold perF
        split_ifs <;> first | rfl | (exfalso; omega))]
    have v1 : perF τ x n p j r r = C04.gs τ x p (n + r + 1 - 1) := by
      unfold perF; rw [if_pos ⟨by omega, rfl⟩]; rfl
    have v2 : perF τ x n p j r (r + 1) = C04.gd τ x p (n + r + 1) := by
      unfold perF
      rw [if_neg (by omega), if_pos ⟨by omega, Or.inl rfl⟩]; rfl
    rw [v1, v2, add_comm]
    exact gd_add_gs_ge τ hτ x p (n + r + 1) (by omega) (by omega) (hlo _ (by omega))
      (hlo _ (by omega)) (hhi _ (by omega) (by omega))
  by_cases hB : r = j
  · refine le_of_eq (Eq.symm ?_)
    rw [Finset.sum_eq_single_of_mem r (Finset.mem_range.2 (by omega)) (by
        intro c hc hne
        have hc' := Finset.mem_range.1 hc
        unfold perF
        split_ifs <;> first | rfl | (exfalso; omega))]
    unfold perF
    rw [if_pos ⟨by omega, rfl⟩]
    unfold C04.gs
    rw [if_pos ⟨hlo _ (by omega), hhi _ (by omega) (by omega)⟩]
  by_cases hC : r < n + 1 + j - p
  · refine le_of_eq (Eq.symm ?_)
    rw [Finset.sum_eq_single_of_mem r (Finset.mem_range.2 (by omega)) (by
        intro c hc hne
        have hc' := Finset.mem_range.1 hc
        unfold perF
        split_ifs <;> first | rfl | (exfalso; omega))]
    unfold perF
    rw [if_neg (by omega), if_neg (by omega), if_neg (by omega), if_neg (by omega),
      if_pos ⟨rfl, hC⟩]
  by_cases hD : r = n + 1 + j - p
  · refine le_of_eq (Eq.symm ?_)
    rw [Finset.sum_eq_single_of_mem r (Finset.mem_range.2 (by omega)) (by
        intro c hc hne
        have hc' := Finset.mem_range.1 hc
        unfold perF
        split_ifs <;> first | rfl | (exfalso; omega))]
    unfold perF
    rw [if_neg (by omega), if_neg (by omega), if_neg (by omega), if_pos ⟨by omega, rfl⟩]
    unfold C04.gd
    rw [if_pos]
    rw [show r + p - 1 = n + j by omega, show r + p = n + j + 1 by omega]
    exact ⟨hlo _ (by omega), hhi _ (by omega) (by omega)⟩
  by_cases hE : r < n
  · rw [Finset.sum_eq_add_of_mem r (r - 1) (Finset.mem_range.2 hE)
      (Finset.mem_range.2 (by omega)) (by omega) (by
        intro c hc hne
        have hc' := Finset.mem_range.1 hc
        unfold perF
        split_ifs <;> first | rfl | (exfalso; omega))]
    have v1 : perF τ x n p j r r = C04.gd τ x p r := by
      unfold perF
      rw [if_neg (by omega), if_neg (by omega), if_neg (by omega), if_pos ⟨by omega, rfl⟩]
    have v2 : perF τ x n p j r (r - 1) = C04.gs τ x p (r - 1) := by
      unfold perF
      rw [if_neg (by omega), if_neg (by omega), if_pos ⟨by omega, by omega⟩]
    rw [v1, v2]
    exact gd_add_gs_ge τ hτ x p r (by omega) (by omega) (hlo _ (by omega)) (hlo _ (by omega))
      (hhi _ (by omega) (by omega))
  · have hrn : r = n := by omega
    subst hrn
    rw [Finset.sum_eq_add_of_mem 0 (r - 1) (Finset.mem_range.2 (by omega))
      (Finset.mem_range.2 (by omega)) (by omega) (by
        intro c hc hne
        have hc' := Finset.mem_range.1 hc
        unfold perF
        split_ifs <;> first | rfl | (exfalso; omega))]
    have v1 : perF τ x r p j r 0 = C04.gd τ x p r := by
      unfold perF
      rw [if_neg (by omega), if_pos ⟨by omega, Or.inr ⟨rfl, rfl⟩⟩]; rfl
    have v2 : perF τ x r p j r (r - 1) = C04.gs τ x p (r - 1) := by
      unfold perF
      rw [if_neg (by omega), if_neg (by omega), if_pos ⟨by omega, by omega⟩]
    rw [v1, v2]
    exact gd_add_gs_ge τ hτ x p r (by omega) (by omega) (hlo _ (by omega)) (hlo _ (by omega))
      (hhi _ (by omega) (by omega))

/-- The wrapping case with `x ≤ τ i` above the insertion index (the end of the domain). -/
theorem matC_wrap_rowPositive (τ : ℕ → K) (hτ : Monotone τ) (x : K) (n p j : ℕ) (hjp : j + 2 ≤ p)
    (hg : p + j ≤ n) (hlo : ∀ i, i < n + 1 + j → τ i ≤ x)
    (hhi : ∀ i, n + 1 + j ≤ i → i ≤ n + p + j → x ≤ τ i) :
    RowPositive (n + 1) n (C04.matC τ x n p (n + 1 + j)) := by
  have hrel := C04.rel_matC τ x n p (n + 1 + j) (by omega)
  have hent : ∀ r c, r < n + 1 → c < n →
      C04.entry (C04.matC τ x n p (n + 1 + j)) r c = perF τ x n p j r c := by
    intro r c hr hc
    rw [hrel.2 r c hr hc, matF_wrap τ x n p j hjp hg r c hc]
  refine ⟨hrel.1, fun r c hr hc => ?_, fun r hr => ?_⟩
  · rw [hent r c hr hc]; exact perF_nonneg_le τ hτ x n p j hjp hlo hhi r c hc
  · rw [Finset.sum_congr rfl (fun c hc => hent r c hr (Finset.mem_range.1 hc))]
    exact perF_row_sum_ge τ hτ x n p j hjp hg hlo hhi r hr

/-! ## one insertion, guard `n ≥ p + k`, any `start ≤ x ≤ end` -/

theorem wrapVal_of_mem (b : Basis K) (x : K) (hx : b.start ≤ x ∧ x ≤ b.stop) :
    C04.wrapVal b x = x := by
  unfold C04.wrapVal
  rw [if_neg (not_or.2 ⟨not_lt.2 hx.1, not_lt.2 hx.2⟩)]

theorem insertKnot_rowPositive_guard (c : Basis K) (hv : c.Valid) (k : ℕ)
    (hk : c.periodic = (k : Int)) (hguard : c.order + k ≤ c.numFunctions) (x : K)
    (hx : c.start ≤ x ∧ x ≤ c.stop) {c' : Basis K} {C : Mat K}
    (h : c.insertKnot x = .ok (c', C)) : RowPositive (c.numFunctions + 1) c.numFunctions C := by
  by_cases hlt : x < c.stop
  · exact (insertKnot_stochastic_periodic c hv k hk hguard x
      (by rw [wrapVal_of_mem c x hx]; exact ne_of_lt hlt) h).rowPositive
  · have hxe : x = c.stop := le_antisymm hx.2 (not_lt.1 hlt)
    obtain ⟨c1, C1, e1, _, _, _, _, _, _, _, _, _, _, eC⟩ :=
      C04.insertKnot_periodic_le c hv k hk hguard x hx
    rw [e1] at h
    have hC : C = C04.matC c.kn x c.numFunctions c.order (c.insertMu x) := by
      have := Except.ok.inj h
      rw [← (Prod.mk.inj this).2]; exact eC
    obtain ⟨_, _, m3, m4, _, m6⟩ := C04.insertMu_spec c hv k hk x hx
    have hmu : c.insertMu x = c.numFunctions + 1 + k := by rw [m6 hxe]; omega
    rw [hmu] at m3 m4
    rw [hC, hmu]
    have hmono : Monotone c.kn := C04.kn_mono hv.sorted
    have hpk : k + 2 ≤ c.order := by
      rcases hv.periodic_le with h' | h'
      · rw [hk] at h'; omega
      · rw [hk] at h'; omega
    exact matC_wrap_rowPositive c.kn hmono x c.numFunctions c.order k hpk hguard
      (fun i hi => le_trans (hmono (by omega)) m3) (fun i hi _ => le_trans m4 (hmono hi))

/-! ## the cover branch -/

section cover

variable (b : Basis K) (hv : b.Valid) (k : ℕ) (hk : b.periodic = (k : Int)) (r : ℕ)
  (hR : b.order + k ≤ (r + 1) * b.numFunctions) (x : K) (hx : b.start ≤ x ∧ x ≤ b.stop)

include hv hk hR hx

/-- Induction over the passes of the cover loop: the accumulated matrix after pass `j+1` is
    `C_j · (matrix after pass j)` with `C_j` the matrix of one insertion into the `j`-th cover. -/
theorem cover_cM_induct (Q : ℕ → Mat K → Prop)
    (h0 : Q 0 (Basis.tileIdentity b.numFunctions (r + 1)))
    (hstep : ∀ j, j ≤ r → ∀ (c' : Basis K) (Ck : Mat K), Q j (C04.cM b r x j) →
      (C04.cB b r x j).insertKnot (x + (j : K) * (b.stop - b.start)) = .ok (c', Ck) →
      Q (j + 1) (Mat.mul Ck (C04.cM b r x j))) :
    ∀ j, j ≤ r + 1 → Q j (C04.cM b r x j) := by
  intro j
  induction j with
  | zero => intro _; exact h0
  | succ j ih =>
    intro hj
    have hs := C04.cB_state b hv k hk r hR x hx j (by omega)
    have e1 := C04.cB_run b hv k hk r hR x hx j (by omega)
    have e2 := C04.cB_run b hv k hk r hR x hx (j + 1) hj
    rw [C04.coverRun, e1] at e2
    have e3 : C04.coverStep (b.stop - b.start)
        (C04.cB b r x j, C04.cM b r x j, x + (j : K) * (b.stop - b.start))
        = .ok (C04.cB b r x (j + 1), C04.cM b r x (j + 1),
            x + ((j + 1 : ℕ) : K) * (b.stop - b.start)) := e2
    unfold C04.coverStep at e3
    have hguard : (C04.cB b r x j).order + k ≤ (C04.cB b r x j).numFunctions := by
      rw [hs.order, hs.num]; omega
    cases hres : (C04.cB b r x j).insertKnotPlain (x + (j : K) * (b.stop - b.start)) with
    | error e => simp only [hres] at e3; cases e3
    | ok pr =>
      obtain ⟨c', Ck⟩ := pr
      simp only [hres] at e3
      have hM : Mat.mul Ck (C04.cM b r x j) = C04.cM b r x (j + 1) := by
        have := Except.ok.inj e3
        exact (Prod.mk.inj (Prod.mk.inj this).2).1
      rw [← hM]
      apply hstep j (by omega) c' Ck (ih (by omega))
      rw [C04.insertKnot_eq_plain _ _
        (C04.not_coverCond_of_guard _ hs.valid.order_pos k hs.per hguard)]
      exact hres

/-- the value of pass `j` lies in the domain of the `j`-th cover -/
theorem cover_xj_mem (j : ℕ) (hj : j ≤ r) :
    (C04.cB b r x j).start ≤ x + (j : K) * (b.stop - b.start) ∧
      x + (j : K) * (b.stop - b.start) ≤ (C04.cB b r x j).stop ∧
      (x < b.stop → x + (j : K) * (b.stop - b.start) < (C04.cB b r x j).stop) := by
  have hs := C04.cB_state b hv k hk r hR x hx j (by omega)
  have hT : 0 < b.stop - b.start := sub_pos.2 hv.start_lt_stop
  have hjK : (j : K) ≤ (r : K) := by exact_mod_cast hj
  rw [hs.start, hs.stop]
  have h1 : 0 ≤ (j : K) * (b.stop - b.start) := mul_nonneg (Nat.cast_nonneg j) (le_of_lt hT)
  have h2 : (j : K) * (b.stop - b.start) ≤ (r : K) * (b.stop - b.start) :=
    mul_le_mul_of_nonneg_right hjK (le_of_lt hT)
  exact ⟨by linarith [hx.1], by linarith [hx.2], fun h => by linarith⟩

theorem cover_rowPositive :
    RowPositive ((r + 1) * b.numFunctions + (r + 1)) b.numFunctions (C04.cM b r x (r + 1)) := by
  have hn1 := C04.numFunctions_pos hv
  refine cover_cM_induct b hv k hk r hR x hx
    (fun j M => RowPositive ((r + 1) * b.numFunctions + j) b.numFunctions M)
    (rowStochastic_tile b.numFunctions (r + 1) hn1).rowPositive ?_ (r + 1) (le_refl _)
  intro j hj c' Ck hQ hins
  have hs := C04.cB_state b hv k hk r hR x hx j (by omega)
  obtain ⟨x1, x2, _⟩ := cover_xj_mem b hv k hk r hR x hx j hj
  have hst := insertKnot_rowPositive_guard (C04.cB b r x j) hs.valid k hs.per
    (by rw [hs.order, hs.num]; omega) _ ⟨x1, x2⟩ hins
  rw [hs.num] at hst
  exact hst.mul hQ (by have : 1 ≤ (r + 1) * b.numFunctions := by nlinarith
                       omega)

theorem cover_rowStochastic (hlt : x < b.stop) :
    RowStochastic ((r + 1) * b.numFunctions + (r + 1)) b.numFunctions (C04.cM b r x (r + 1)) := by
  have hn1 := C04.numFunctions_pos hv
  refine cover_cM_induct b hv k hk r hR x hx
    (fun j M => RowStochastic ((r + 1) * b.numFunctions + j) b.numFunctions M)
    (rowStochastic_tile b.numFunctions (r + 1) hn1) ?_ (r + 1) (le_refl _)
  intro j hj c' Ck hQ hins
  have hs := C04.cB_state b hv k hk r hR x hx j (by omega)
  obtain ⟨x1, x2, x3⟩ := cover_xj_mem b hv k hk r hR x hx j hj
  have hst := insertKnot_stochastic_periodic (C04.cB b r x j) hs.valid k hs.per
    (by rw [hs.order, hs.num]; omega) _
    (by rw [wrapVal_of_mem _ _ ⟨x1, x2⟩]; exact ne_of_lt (x3 hlt)) hins
  rw [hs.num] at hst
  exact hst.mul hQ (by have : 1 ≤ (r + 1) * b.numFunctions := by nlinarith
                       omega)

end cover

/-- The matrix returned by the cover branch: the first `n+1` rows of the accumulated matrix. -/
theorem insertKnot_small_matrix (b : Basis K) (hv : b.Valid) (k : ℕ) (hk : b.periodic = (k : Int))
    (hsmall : b.numFunctions < b.order + k) (x : K) (hx : b.start ≤ x ∧ x ≤ b.stop) :
    ∃ r b1, b.order + k ≤ (r + 1) * b.numFunctions ∧
      b.insertKnot x = .ok (b1, (C04.cM b r x (r + 1)).extract 0 (b.numFunctions + 1)) := by
  have hn1 := C04.numFunctions_pos hv
  have hn := C04.numFunctions_periodic b k hk
  have hp := hv.order_pos
  have hsz0 := hv.size_ge
  have hper : 0 ≤ b.periodic := by rw [hk]; omega
  obtain ⟨r, hRdef, _, hR⟩ := C04.cover_R b.order k b.numFunctions hn1 hsmall
  have hnI : (b.knots.size : Int) - (b.order : Int) - (b.periodic + 1) = (b.numFunctions : Int) := by
    rw [hk]; omega
  have hcc : C04.coverCond b := by
    unfold C04.coverCond
    refine ⟨hper, ?_⟩
    rw [hnI, hk]; omega
  have hw : C04.wrapX b x = .ok x := by
    unfold C04.wrapX
    rw [if_pos hper, if_neg (not_or.2 ⟨not_lt.2 hx.1, not_lt.2 hx.2⟩)]
  have hRe : (b.order + b.periodic.toNat + b.numFunctions - 1) / b.numFunctions = r + 1 := by
    rw [hk]; exact hRdef
  have hrun := C04.cB_run b hv k hk r hR x hx (r + 1) (le_refl _)
  have key : b.insertKnot x = .ok
      ({ b with knots := (C04.cB b r x (r + 1)).knots.extract 0 (b.knots.size + 1) },
        (C04.cM b r x (r + 1)).extract 0 (b.numFunctions + 1)) := by
    rw [C04.insertKnot_cover_eq b x x hw hcc hn1 hnI, hRe]
    have : C04.coverRun (b.stop - b.start)
        (C04.coverBasis b (r + 1), (Basis.tileIdentity b.numFunctions (r + 1) : Mat K), x) (r + 1)
        = .ok (C04.cB b r x (r + 1), C04.cM b r x (r + 1),
            x + ((r + 1 : ℕ) : K) * (b.stop - b.start)) := hrun
    rw [this]
  exact ⟨r, _, hR, key⟩

/-! ## one insertion into ANY valid periodic basis -/

/-- **One insertion into any valid periodic basis, any real**: entries `≥ 0`, row sums `≥ 1`. -/
theorem insertKnot_rowPositive_periodic_all (b : Basis K) (hv : b.Valid) (k : ℕ)
    (hk : b.periodic = (k : Int)) (x0 : K) {b' : Basis K} {C : Mat K}
    (h : b.insertKnot x0 = .ok (b', C)) : RowPositive (b.numFunctions + 1) b.numFunctions C := by
  obtain ⟨hw1, hw2, _⟩ := C04.wrapVal_mem b hv.start_lt_stop x0
  rw [C04.insertKnot_wrap b (by rw [hk]; omega) hv.start_lt_stop x0] at h
  generalize C04.wrapVal b x0 = x at hw1 hw2 h
  by_cases hg : b.order + k ≤ b.numFunctions
  · exact insertKnot_rowPositive_guard b hv k hk hg x ⟨hw1, hw2⟩ h
  · obtain ⟨r, b1, hR, e1⟩ := insertKnot_small_matrix b hv k hk (by omega) x ⟨hw1, hw2⟩
    rw [e1] at h
    have hC : (C04.cM b r x (r + 1)).extract 0 (b.numFunctions + 1) = C :=
      (Prod.mk.inj (Except.ok.inj h)).2
    rw [← hC]
    have hn1 := C04.numFunctions_pos hv
    exact (cover_rowPositive b hv k hk r hR x ⟨hw1, hw2⟩).extract _
      (by have : b.numFunctions ≤ (r + 1) * b.numFunctions := by nlinarith
          omega)

/-- **One insertion into any valid periodic basis is row stochastic unless the wrapped value is the end
    of the domain.**  `_partial`: the requested statement without `hne` is false (see the file header:
    `⟨2, #[0,0,1,1,2], 0⟩`, `insert_knot(1)`). -/
theorem insertKnot_stochastic_periodic_all_partial (b : Basis K) (hv : b.Valid) (k : ℕ)
    (hk : b.periodic = (k : Int)) (x0 : K) (hne : C04.wrapVal b x0 ≠ b.stop) {b' : Basis K}
    {C : Mat K} (h : b.insertKnot x0 = .ok (b', C)) :
    RowStochastic (b.numFunctions + 1) b.numFunctions C := by
  by_cases hg : b.order + k ≤ b.numFunctions
  · exact insertKnot_stochastic_periodic b hv k hk hg x0 hne h
  · obtain ⟨hw1, hw2, _⟩ := C04.wrapVal_mem b hv.start_lt_stop x0
    have hlt : C04.wrapVal b x0 < b.stop := lt_of_le_of_ne hw2 hne
    rw [C04.insertKnot_wrap b (by rw [hk]; omega) hv.start_lt_stop x0] at h
    generalize C04.wrapVal b x0 = x at hw1 hw2 hlt h
    obtain ⟨r, b1, hR, e1⟩ := insertKnot_small_matrix b hv k hk (by omega) x ⟨hw1, hw2⟩
    rw [e1] at h
    have hC : (C04.cM b r x (r + 1)).extract 0 (b.numFunctions + 1) = C :=
      (Prod.mk.inj (Except.ok.inj h)).2
    rw [← hC]
    have hn1 := C04.numFunctions_pos hv
    exact (cover_rowStochastic b hv k hk r hR x ⟨hw1, hw2⟩ hlt).extract _
      (by have : b.numFunctions ≤ (r + 1) * b.numFunctions := by nlinarith
          omega)

/-! ## sequences -/

theorem insertMany_rowPositive_periodic_all_aux (b0 : Basis K) (hv0 : b0.Valid) (k : ℕ)
    (hk : b0.periodic = (k : Int)) (xs : List K) :
    ∀ (b : Basis K) (Cacc : Mat K) (m : ℕ), C04.PerRefines b0 b Cacc m →
      RowPositive (b0.numFunctions + m) b0.numFunctions Cacc →
      ∀ {b' : Basis K} {C : Mat K}, C04.insertMany b Cacc xs = .ok (b', C) →
        RowPositive (b0.numFunctions + (m + xs.length)) b0.numFunctions C := by
  induction xs with
  | nil =>
    intro b Cacc m _ hst b' C h
    have : (b, Cacc) = (b', C) := Except.ok.inj h
    rw [← (Prod.mk.inj this).2]
    simpa using hst
  | cons x xs ih =>
    intro b Cacc m href hst b' C h
    have hk' : b.periodic = (k : Int) := href.periodic_eq.trans hk
    obtain ⟨b1, C1, hins, hr1, _⟩ := C04.insertKnot_per_step_all b href.valid k hk' x
    have hst1 := insertKnot_rowPositive_periodic_all b href.valid k hk' x hins
    rw [href.num_eq] at hst1
    have hstep : C04.stepIns (b, Cacc) x = .ok (b1, Mat.mul C1 Cacc) := by
      unfold C04.stepIns
      simp only [hins]
      rfl
    unfold C04.insertMany at h
    rw [List.foldlM_cons, hstep] at h
    have hn0 := C04.numFunctions_pos hv0
    have := ih b1 (Mat.mul C1 Cacc) (m + 1) (C04.perRefines_trans hv0 href hr1)
      (hst1.mul hst (by omega)) h
    have e : m + (x :: xs).length = m + 1 + xs.length := by simp; omega
    rw [e]; exact this

/-- **The accumulated matrix of any sequence of insertions into any valid periodic basis**: entries
    `≥ 0`, row sums `≥ 1`. -/
theorem insertMany_rowPositive_periodic_all (b : Basis K) (hv : b.Valid) (k : ℕ)
    (hk : b.periodic = (k : Int)) (xs : List K) {b' : Basis K} {C : Mat K}
    (h : C04.insertMany b (Mat.identity b.numFunctions) xs = .ok (b', C)) :
    RowPositive (b.numFunctions + xs.length) b.numFunctions C := by
  have := insertMany_rowPositive_periodic_all_aux b hv k hk xs b (Mat.identity b.numFunctions) 0
    (C04.perRefines_refl b hv)
    (by simpa using (rowStochastic_identity b.numFunctions).rowPositive) h
  simpa using this

theorem insertMany_stochastic_periodic_all_partial_aux (b0 : Basis K) (hv0 : b0.Valid) (k : ℕ)
    (hk : b0.periodic = (k : Int)) (xs : List K) :
    ∀ (b : Basis K) (Cacc : Mat K) (m : ℕ), C04.PerRefines b0 b Cacc m →
      RowStochastic (b0.numFunctions + m) b0.numFunctions Cacc →
      (∀ x ∈ xs, C04.wrapVal b0 x ≠ b0.stop) →
      ∀ {b' : Basis K} {C : Mat K}, C04.insertMany b Cacc xs = .ok (b', C) →
        RowStochastic (b0.numFunctions + (m + xs.length)) b0.numFunctions C := by
  induction xs with
  | nil =>
    intro b Cacc m _ hst _ b' C h
    have : (b, Cacc) = (b', C) := Except.ok.inj h
    rw [← (Prod.mk.inj this).2]
    simpa using hst
  | cons x xs ih =>
    intro b Cacc m href hst hxs b' C h
    have hx := hxs x List.mem_cons_self
    have hk' : b.periodic = (k : Int) := href.periodic_eq.trans hk
    have hne' : C04.wrapVal b x ≠ b.stop := by
      rw [C04.wrapVal_congr b0 b href.start_eq href.stop_eq, href.stop_eq]; exact hx
    obtain ⟨b1, C1, hins, hr1, _⟩ := C04.insertKnot_per_step_all b href.valid k hk' x
    have hst1 := insertKnot_stochastic_periodic_all_partial b href.valid k hk' x hne' hins
    rw [href.num_eq] at hst1
    have hstep : C04.stepIns (b, Cacc) x = .ok (b1, Mat.mul C1 Cacc) := by
      unfold C04.stepIns
      simp only [hins]
      rfl
    unfold C04.insertMany at h
    rw [List.foldlM_cons, hstep] at h
    have hn0 := C04.numFunctions_pos hv0
    have := ih b1 (Mat.mul C1 Cacc) (m + 1) (C04.perRefines_trans hv0 href hr1)
      (hst1.mul hst (by omega)) (fun y hy => hxs y (List.mem_cons_of_mem _ hy)) h
    have e : m + (x :: xs).length = m + 1 + xs.length := by simp; omega
    rw [e]; exact this

/-- Row stochastic when no wrapped value is the end of the domain (any number of functions). -/
theorem insertMany_stochastic_periodic_all_partial (b : Basis K) (hv : b.Valid) (k : ℕ)
    (hk : b.periodic = (k : Int)) (xs : List K) (hxs : ∀ x ∈ xs, C04.wrapVal b x ≠ b.stop)
    {b' : Basis K} {C : Mat K}
    (h : C04.insertMany b (Mat.identity b.numFunctions) xs = .ok (b', C)) :
    RowStochastic (b.numFunctions + xs.length) b.numFunctions C := by
  have := insertMany_stochastic_periodic_all_partial_aux b hv k hk xs b
    (Mat.identity b.numFunctions) 0 (C04.perRefines_refl b hv)
    (by simpa using rowStochastic_identity b.numFunctions) hxs h
  simpa using this

end C10

/-! ## object level, every periodic direction -/

namespace Obj

/-- **`SplineObject.insert_knot` along ANY periodic direction, any reals, keeps the object well
    formed.** -/
theorem WellFormed.insertKnots_periodic_all {o o' : Obj K} (h : o.WellFormed) (dir : ℕ)
    (hd : dir < o.bases.size) (k : ℕ) (hk : (o.basis dir).periodic = (k : Int)) (xs : List K)
    (hs : o.insertKnots xs dir = .ok o') :
    o'.WellFormed ∧ o'.bases.size = o.bases.size ∧ (∀ d, d ≠ dir → o'.basis d = o.basis d) ∧
      (o'.basis dir).periodic = (k : Int) ∧ (o'.basis dir).order = (o.basis dir).order ∧
      (o'.basis dir).numFunctions = (o.basis dir).numFunctions + xs.length ∧
      (o'.basis dir).start = (o.basis dir).start ∧ (o'.basis dir).stop = (o.basis dir).stop := by
  have hv := h.valid dir hd
  have hshape : o.cps.shape.getD dir 0 = (o.basis dir).numFunctions := h.shape_getD dir 0 hd
  obtain ⟨b', C, hm, href, _⟩ := C04.insertMany_periodic_all (o.basis dir) hv k hk xs
  have hst := C10.insertMany_rowPositive_periodic_all (o.basis dir) hv k hk xs hm
  rw [C04.insertKnots_eq, hshape, hm] at hs
  have ho' : o' = { o with bases := o.bases.set! dir b', cps := Tensor.applyAxis C o.cps dir } :=
    (Except.ok.inj hs).symm
  subst ho'
  have hCsize : C.size = (o.basis dir).numFunctions + xs.length := href.shape.1
  have hmid : (Tensor.split3 o.cps.shape dir).2.1 = (o.basis dir).numFunctions := by
    simp only [Tensor.split3]; exact h.shape_getD dir 1 hd
  have hax1 : dir + 1 < o.cps.shape.length := by rw [h.shape_length]; omega
  refine ⟨?_, ?_, fun d hd' => C04.basis_set_ne o dir d hd' _ _, ?_, ?_, ?_, ?_, ?_⟩
  · refine h.build3 dir C.size (fun a r i =>
      (List.range (Tensor.split3 o.cps.shape dir).2.1).foldl
        (fun acc j => acc + (C.getD r #[]).getD j 0 * o.cps.at3 dir a j i) 0) b' hd href.valid
      (by rw [href.num_eq, hCsize]) ?_
    intro hr a r i ha hr' hi him
    have e : (List.range (Tensor.split3 o.cps.shape dir).2.1).foldl
        (fun acc j => acc + (C.getD r #[]).getD j 0 * o.cps.at3 dir a j i) 0
        = C04.mulVec C (o.basis dir).numFunctions (fun j => o.cps.at3 dir a j i) r := by
      rw [C04.foldl_add_eq_sum, hmid]; rfl
    rw [e]
    apply hst.mulVec_pos _ _ r (by omega)
    intro j hj
    exact C10.at3_pos o.cps o.ncomp o.dimension h.data_size (h.tpos hr) dir hax1 (h.last_eq 1) a j i ha
      (by rw [hmid]; exact hj) hi him
  · show (o.bases.set! dir b').size = o.bases.size
    simp
  · rw [C04.basis_set o dir hd]; exact href.periodic_eq.trans hk
  · rw [C04.basis_set o dir hd]; exact href.order_eq
  · rw [C04.basis_set o dir hd]; exact href.num_eq
  · rw [C04.basis_set o dir hd]; exact href.start_eq
  · rw [C04.basis_set o dir hd]; exact href.stop_eq

/-- The only condition left on inserted values: inside `[start, end)` along a NON-periodic direction. -/
def OpenKnotsOK (b : Basis K) (xs : List K) : Prop :=
  b.periodic = -1 → ∀ x ∈ xs, b.start ≤ x ∧ x < b.stop

theorem periodic_cases {b : Basis K} (hv : b.Valid) :
    b.periodic = -1 ∨ ∃ k : ℕ, b.periodic = (k : Int) := by
  have := hv.periodic_ge
  by_cases h : b.periodic = -1
  · exact Or.inl h
  · exact Or.inr ⟨b.periodic.toNat, by omega⟩

/-- **`SplineObject.insert_knot` along any direction keeps the object well formed.** -/
theorem WellFormed.insertKnots_all {o o' : Obj K} (h : o.WellFormed) (dir : ℕ)
    (hd : dir < o.bases.size) (xs : List K) (hok : OpenKnotsOK (o.basis dir) xs)
    (hs : o.insertKnots xs dir = .ok o') :
    o'.WellFormed ∧ o'.bases.size = o.bases.size ∧ (∀ d, d ≠ dir → o'.basis d = o.basis d) ∧
      (o'.basis dir).periodic = (o.basis dir).periodic := by
  rcases periodic_cases (h.valid dir hd) with hper | ⟨k, hk⟩
  · obtain ⟨h1, h2, h3, h4, _, _⟩ := h.insertKnots dir hd hper xs (hok hper) hs
    exact ⟨h1, h2, h3, by rw [h4, hper]⟩
  · obtain ⟨h1, h2, h3, h4, _⟩ := h.insertKnots_periodic_all dir hd k hk xs hs
    exact ⟨h1, h2, h3, by rw [h4, hk]⟩

theorem WellFormed.refineDir {o o' : Obj K} (h : o.WellFormed) (tol : K) (htol : 0 ≤ tol) (n d : ℕ)
    (hs : o.refineDir tol n d = .ok o') : o'.WellFormed := by
  unfold Obj.refineDir at hs
  by_cases hpd : d < o.pardim
  · rw [if_pos hpd] at hs
    simp only [] at hs
    unfold Obj.insertKnotDir at hs
    rw [if_pos hpd] at hs
    have hd : d < o.bases.size := by rw [← h.pardim_eq]; exact hpd
    have hv := h.valid d hd
    obtain ⟨hs1, hs2⟩ := C04.knotSpans_spec (o.basis d) hv tol htol
    have hok : OpenKnotsOK (o.basis d) (refineValues ((o.basis d).knotSpans tol false).toList n) := by
      intro _ v hv'
      have := (C04.refineValues_mem _ hs1 _ _ hs2 n v hv').2
      exact ⟨le_of_lt this.1, this.2⟩
    exact (h.insertKnots_all d hd _ hok hs).1
  · rw [if_neg hpd] at hs
    cases hs

theorem WellFormed.refineFold (tol : K) (htol : 0 ≤ tol) (l : List (ℕ × ℕ)) :
    ∀ (o o' : Obj K), o.WellFormed →
      l.foldlM (fun (o : Obj K) (nd : ℕ × ℕ) => o.refineDir tol nd.1 nd.2) o = .ok o' →
      o'.WellFormed := by
  induction l with
  | nil =>
    intro o o' h hs
    have : o = o' := Except.ok.inj hs
    rw [← this]; exact h
  | cons nd l ih =>
    intro o o' h hs
    rw [List.foldlM_cons] at hs
    cases hres : o.refineDir tol nd.1 nd.2 with
    | error e => rw [hres] at hs; cases hs
    | ok o1 =>
      rw [hres] at hs
      exact ih o1 o' (h.refineDir tol htol nd.1 nd.2 hres) hs

end Obj

/-! ## history steps, every direction -/

namespace History

/-- `insert_knot` along any direction.  `_partial`: along a NON-periodic direction the values must lie
    in `[start, end)` (the code raises / the end value is excluded as in C04); nothing is asked of a
    periodic direction. -/
theorem stepOut_insertKnot_all_wf_partial {o : Obj K} (h : o.WellFormed) (tol : K)
    (knots : List K) (dir : ℕ) (hok : Obj.OpenKnotsOK (o.basis dir) knots)
    {out : Out K} (hs : stepOut tol o (.insertKnot knots dir) = .ok out) :
    out.recv.WellFormed ∧ out.news = [] := by
  change inPlace (o.insertKnotDir knots dir) = .ok out at hs
  unfold inPlace Obj.insertKnotDir at hs
  by_cases hpd : dir < o.pardim
  · rw [if_pos hpd] at hs
    have hd : dir < o.bases.size := by rw [← h.pardim_eq]; exact hpd
    cases hres : o.insertKnots knots dir with
    | error e => rw [hres] at hs; cases hs
    | ok o1 =>
      rw [hres] at hs
      have : ({ recv := o1, news := [] } : Out K) = out := Except.ok.inj hs
      rw [← this]
      exact ⟨(h.insertKnots_all dir hd knots hok hres).1, rfl⟩
  · rw [if_neg hpd] at hs
    cases hs

/-- **`refine` keeps every well-formed object well formed** (no hypothesis on the directions). -/
theorem stepOut_refine_wf_all {o : Obj K} (h : o.WellFormed) (tol : K) (htol : 0 ≤ tol)
    (ns : List ℕ) (direction : Option ℕ)
    {out : Out K} (hs : stepOut tol o (.refine ns direction) = .ok out) :
    out.recv.WellFormed ∧ out.news = [] := by
  change inPlace (o.refine tol ns direction) = .ok out at hs
  unfold inPlace at hs
  cases hres : o.refine tol ns direction with
  | error e => rw [hres] at hs; cases hs
  | ok o1 =>
    rw [hres] at hs
    have : ({ recv := o1, news := [] } : Out K) = out := Except.ok.inj hs
    rw [← this]
    obtain ⟨l, hl⟩ := Obj.refine_eq_fold tol ns direction hres
    exact ⟨Obj.WellFormed.refineFold tol htol l o o1 h hl, rfl⟩

end History

end Splipy
