import Splipy.Lemmas.C16VolumeReal

/-!
# C16: additivity of the element sums, and the ends of `knot_spans()`
-/

namespace Splipy

open MeasureTheory C04

/-- **Additivity over the elements of a list**: if `f` is interval integrable on every element
`[a,b]` (consecutive entries) of `L`, the element integrals add up to the integral from the first to
the last entry (no monotonicity of `L` is needed). -/
theorem sum_elements_integral (f : ℝ → ℝ) (L : List ℝ) (d : ℝ)
    (h : ∀ e ∈ elements L, IntervalIntegrable f volume e.1 e.2) :
    ((elements L).map (fun e => ∫ x in e.1..e.2, f x)).sum
        = ∫ x in (L.head?.getD d)..(L.getLast?.getD d), f x ∧
      IntervalIntegrable f volume (L.head?.getD d) (L.getLast?.getD d) := by
  induction L with
  | nil => simp [elements]
  | cons a L ih =>
    cases L with
    | nil => simp [elements]
    | cons b L =>
      have hel : elements (a :: b :: L) = (a, b) :: elements (b :: L) := by
        simp [elements]
      rw [hel] at h ⊢
      obtain ⟨ih1, ih2⟩ := ih (fun e he => h e (List.mem_cons_of_mem _ he))
      have hab := h (a, b) (by simp)
      simp only [List.map_cons, List.sum_cons, List.head?_cons, Option.getD_some] at ih1 ih2 ⊢
      have hl : (a :: b :: L).getLast?.getD d = (b :: L).getLast?.getD d := by
        simp [List.getLast?_cons_cons]
      rw [hl, ih1]
      exact ⟨intervalIntegral.integral_add_adjacent_intervals hab ih2, hab.trans ih2⟩

variable {K : Type} [Field K] [LinearOrder K] [IsStrictOrderedRing K] [FloorRing K]

omit [IsStrictOrderedRing K] [FloorRing K] in
theorem spanStep_head (tol : K) (acc : Array K) (k : K) (h : 0 < acc.size) :
    (spanStep tol acc k).toList.head? = acc.toList.head? := by
  unfold spanStep
  split_ifs
  · have : acc.toList ≠ [] := by
      intro hc
      have h0 : acc.toList.length = 0 := by rw [hc]; rfl
      rw [Array.length_toList] at h0
      omega
    rw [Array.toList_push, List.head?_append_of_ne_nil _ this]
  · rfl

omit [IsStrictOrderedRing K] [FloorRing K] in
theorem spanFold_head (tol : K) (ks : List K) (acc : Array K) (h : 0 < acc.size) :
    (ks.foldl (spanStep tol) acc).toList.head? = acc.toList.head? := by
  induction ks generalizing acc with
  | nil => rfl
  | cons k ks ih =>
    have hne' : 0 < (spanStep tol acc k).size := by
      unfold spanStep
      split_ifs
      · simp
      · exact h
    rw [List.foldl_cons, ih _ hne', spanStep_head tol acc k h]

/-- The first entry of `knot_spans()` is `start`. -/
theorem Basis.knotSpans_head (b : Basis K) (tol : K) :
    (b.knotSpans tol false).toList.head? = some b.start := by
  have hform : b.knotSpans tol false
      = (if b.order = 1 then [] else
          (b.knots.extract (b.order - 1) (b.knots.size - b.order + 1)).toList).foldl
          (spanStep tol) #[b.kn (b.order - 1)] := by
    unfold Basis.knotSpans
    simp only [Bool.false_eq_true, if_false]
    rfl
  rw [hform, spanFold_head tol _ _ (by simp)]
  rfl

/-- Every domain knot is an entry of `knot_spans()` (order `≥ 2`, distinct knots `> tol` apart). -/
theorem Basis.knotSpans_domain_mem (b : Basis K) (hv : b.Valid) (tol : K) (hsep : b.SepStrict tol)
    (hp2 : 2 ≤ b.order) (i : ℕ) (hi1 : b.order - 1 ≤ i) (hi2 : i ≤ b.nAll) :
    b.kn i ∈ (b.knotSpans tol false).toList := by
  have hsz := hv.size_ge
  have h1 : b.order ≠ 1 := by omega
  have hform : b.knotSpans tol false
      = ((b.knots.extract (b.order - 1) (b.knots.size - b.order + 1)).toList).foldl
          (spanStep tol) #[b.kn (b.order - 1)] := by
    unfold Basis.knotSpans
    simp only [if_neg h1]
    rfl
  rw [hform]
  rcases Nat.eq_or_lt_of_le hi1 with heq | hgt
  · rw [← heq]
    exact spanFold_mono tol _ _ _ (by simp)
  · apply spanFold_complete tol _ _ (by simp)
    · intro k hk a ha
      rw [extract_toList b _ _ (by omega), List.mem_map] at hk
      obtain ⟨j, -, rfl⟩ := hk
      have ha' : a = b.kn (b.order - 1) := by simpa using ha
      subst ha'
      exact hsep _ _
    · rw [extract_toList b _ _ (by omega), List.pairwise_map]
      exact List.pairwise_of_forall (fun _ _ => hsep _ _)
    · rw [extract_toList b _ _ (by omega), List.mem_map]
      refine ⟨i - (b.order - 1), ?_, by congr 1; omega⟩
      rw [List.mem_range]
      unfold Basis.nAll at hi2
      omega

omit [Field K] [IsStrictOrderedRing K] [FloorRing K] in
theorem getLast_of_max (L : List K) (hL : L.Pairwise (· < ·)) (x : K) (hx : x ∈ L)
    (hmax : ∀ v ∈ L, v ≤ x) : L.getLast? = some x := by
  induction L with
  | nil => simp at hx
  | cons a L ih =>
    cases L with
    | nil =>
      have : x = a := by simpa using hx
      simp [this]
    | cons b L =>
      rw [List.getLast?_cons_cons]
      have hL' := List.pairwise_cons.mp hL
      apply ih hL'.2
      · rcases List.mem_cons.mp hx with rfl | h
        · exact absurd (hL'.1 b (by simp)) (not_lt.mpr (hmax b (by simp)))
        · exact h
      · exact fun v hv => hmax v (List.mem_cons_of_mem _ hv)

/-- The last entry of `knot_spans()` is `end`. -/
theorem Basis.knotSpans_last (b : Basis K) (hv : b.Valid) (tol : K) (htol : 0 ≤ tol)
    (hsep : b.SepStrict tol) (hp2 : 2 ≤ b.order) :
    (b.knotSpans tol false).toList.getLast? = some b.stop := by
  obtain ⟨hpw, hrange⟩ := knotSpans_spec b hv tol htol
  have hle := hv.order_le_nAll
  exact getLast_of_max _ hpw b.stop
    (b.knotSpans_domain_mem hv tol hsep hp2 b.nAll (by omega) le_rfl) (fun v hv' => (hrange v hv').2)

end Splipy
