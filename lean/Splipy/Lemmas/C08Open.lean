import Splipy.Lemmas.C04PerSeq
import Splipy.Lemmas.C08Lower

/-!
# Inserting `start` `j` times into a periodic basis: knots and coefficients explicitly

`b0` valid periodic (order `p`, continuity `k`, `n ≥ p + k` functions), seam with exactly its declared
multiplicity: `kn k < start < kn p`.  After `j ≤ k + 1` insertions of `x = start` the knots (up to
index `n + j`) are `seamKn`: `τ 0 … τ k`, then `x` at `k+1 … p-1+j`, then the old knots shifted by
`j`; the accumulated matrix keeps row `0` and copies the old row `r - j` into every row `r ≥ k + j`.
-/

namespace Splipy

set_option linter.unusedSectionVars false
set_option linter.unusedVariables false

open C04

variable {K : Type} [Field K] [LinearOrder K] [IsStrictOrderedRing K] [FloorRing K]

/-- Knots after `j` insertions of `x` at the seam. -/
def seamKn (τ : ℕ → K) (p k j : ℕ) (x : K) (i : ℕ) : K :=
  if i ≤ k then τ i else if i ≤ p - 1 + j then x else τ (i - j)

theorem bisectR_of_between {b : Basis K} (hv : b.Valid) (x : K) (mu : ℕ) (hmu : mu < b.knots.size)
    (hpos : 1 ≤ mu) (h1 : b.kn (mu - 1) ≤ x) (h2 : x < b.kn mu) : b.bisectR x = mu := by
  obtain ⟨a1, a2, a3⟩ := bisectRight_spec b.kn hv.kn_mono x b.knots.size
  have c1 : mu - 1 < b.bisectR x := by
    by_contra hc
    have := a3 (mu - 1) (by unfold Basis.bisectR at hc; omega) (by omega)
    exact absurd h1 (not_le.2 this)
  have c2 : b.bisectR x ≤ mu := by
    by_contra hc
    have := a2 mu (by unfold Basis.bisectR at hc; omega)
    exact absurd h2 (not_lt.2 this)
  omega

theorem bisectL_of_between {b : Basis K} (hv : b.Valid) (x : K) (mu : ℕ) (hmu : mu < b.knots.size)
    (h1 : ∀ i, i < mu → b.kn i < x) (h2 : x ≤ b.kn mu) : b.bisectL x = mu := by
  obtain ⟨a1, a2, a3⟩ := bisectLeft_spec b.kn hv.kn_mono x b.knots.size
  have c1 : b.bisectL x ≤ mu := by
    by_contra hc
    have := a2 mu (by unfold Basis.bisectL at hc; omega)
    exact absurd h2 (not_le.2 this)
  have c2 : mu ≤ b.bisectL x := by
    by_contra hc
    have hlt : b.bisectL x < mu := by omega
    have := a3 (b.bisectL x) (le_refl _) (by unfold Basis.bisectL at hlt ⊢; omega)
    exact absurd (h1 _ hlt) (not_lt.2 this)
  omega

/-- State after `j` insertions of `start` into `b0`. -/
structure SeamState (b0 : Basis K) (k : ℕ) (b : Basis K) (C : Mat K) (j : ℕ) : Prop where
  ref : PerRefines b0 b C j
  kn_eq : ∀ i, i ≤ b0.numFunctions + j → b.kn i = seamKn b0.kn b0.order k j b0.start i
  row0 : ∀ c : ℕ → K, mulVec C b0.numFunctions c 0 = c 0
  rows : ∀ (c : ℕ → K) r, k + j ≤ r → r < b0.numFunctions + j →
    mulVec C b0.numFunctions c r = c (r - j)

section
variable {b0 : Basis K} (hv : b0.Valid) (k : ℕ) (hk : b0.periodic = (k : Int))
  (hguard : b0.order + k ≤ b0.numFunctions)
  (hseam : b0.start < b0.kn b0.order) (hghost : b0.kn k < b0.start)
include hv hk hguard hseam hghost

theorem seamState_zero : SeamState b0 k b0 (Mat.identity b0.numFunctions) 0 := by
  have hper : 0 ≤ b0.periodic := by rw [hk]; omega
  have hktn : b0.periodic.toNat = k := by rw [hk]; omega
  refine ⟨perRefines_refl b0 hv, fun i hi => ?_, fun c => ?_, fun c r h1 h2 => ?_⟩
  · unfold seamKn
    split_ifs with h1 h2
    · rfl
    · exact Basis.per_kn_start hv hper i (by rw [hktn]; omega) (by omega)
    · rfl
  · exact mulVec_identity _ c 0 (numFunctions_pos hv)
  · rw [mulVec_identity _ c r (by omega)]; rfl

/-- One more insertion of `start` (`j ≤ k`). -/
theorem seamState_step (b : Basis K) (C : Mat K) (j : ℕ) (hj : j ≤ k) (hS : SeamState b0 k b C j) :
    ∃ b' C', stepIns (b, C) b0.start = .ok (b', C') ∧ SeamState b0 k b' C' (j + 1) := by
  have hR := hS.ref
  have hp := hv.order_pos
  have hpk : k + 2 ≤ b0.order := by
    rcases hv.periodic_le with h | h
    · rw [hk] at h; omega
    · rw [hk] at h; omega
  have hn0 := numFunctions_pos hv
  set n := b0.numFunctions with hn
  set p := b0.order with hpdef
  set x := b0.start with hx
  have hvb : b.Valid := hR.valid
  have hkb : b.periodic = (k : Int) := hR.periodic_eq.trans hk
  have hordb : b.order = p := hR.order_eq
  have hnb : b.numFunctions = n + j := hR.num_eq
  have hstb : b.start = x := hR.start_eq
  have hspb : b.stop = b0.stop := hR.stop_eq
  have hsize0 : b0.knots.size = n + p + k + 1 := by
    have := Basis.per_size hv (by rw [hk]; omega)
    rw [show b0.periodic.toNat = k by rw [hk]; omega] at this
    exact this
  have hsizeb : b.knots.size = n + p + k + 1 + j := by rw [hR.size_eq, hsize0]
  have hkn := hS.kn_eq
  -- knot values around the insertion position
  have hknx : ∀ i, k + 1 ≤ i → i ≤ p - 1 + j → b.kn i = x := by
    intro i h1 h2
    rw [hkn i (by omega)]; unfold seamKn
    rw [if_neg (by omega), if_pos h2]
  have hknp : b.kn (p + j) = b0.kn p := by
    rw [hkn _ (by omega)]; unfold seamKn
    rw [if_neg (by omega), if_neg (by omega)]
    congr 1; omega
  have hmu : b.bisectR x = p + j :=
    bisectR_of_between hvb x (p + j) (by omega) (by omega)
      (by rw [hknx _ (by omega) (by omega)]) (by rw [hknp]; exact hseam)
  obtain ⟨bk, Ck, hins, hvk, hok, hpk', hsk, hnk, hstk, hspk, _, hshape, hknk, hCk⟩ :=
    insertKnot_periodic b hvb k hkb (by rw [hordb, hnb]; omega) x
      ⟨by rw [hstb], by rw [hspb]; exact hv.start_lt_stop⟩
  obtain ⟨bk', Ck', hins', hstep⟩ := insertKnot_per_step b hvb k hkb (by rw [hordb, hnb]; omega) x
    (by
      rw [wrapVal_of_mem b x (by rw [hstb]) (by rw [hspb]; exact le_of_lt hv.start_lt_stop), hspb]
      exact ne_of_lt hv.start_lt_stop)
  rw [hins] at hins'
  have e := Except.ok.inj hins'
  have e1 : bk = bk' := (Prod.mk.inj e).1
  have e2 : Ck = Ck' := (Prod.mk.inj e).2
  subst e1 e2
  refine ⟨bk, Mat.mul Ck C, ?_, ?_⟩
  · unfold stepIns
    simp only [hins]
    rfl
  have hShapeC : Shape (n + j) n C := hR.shape
  have hShapeCk : Shape (n + j + 1) (n + j) Ck := by rw [hnb] at hshape; exact hshape
  -- new knots up to index n + j + 1
  have hknew : ∀ i, i ≤ n + (j + 1) → bk.kn i = seamKn b0.kn p k (j + 1) x i := by
    intro i hi
    rw [hknk i (by omega), hmu, hnb, hordb]
    unfold repSeq
    rw [if_pos (by omega)]
    have hwin : ¬ (n + j + 1 ≤ i ∧ i < n + j + 1 + (p + k + 1)) ∨ i = n + j + 1 := by omega
    have hval : (if n + j + 1 ≤ i ∧ i < n + j + 1 + (p + k + 1) then
        insertSeq b.kn (p + j) x (n + j + 1) + (insertSeq b.kn (p + j) x (i - (n + j + 1))
          - insertSeq b.kn (p + j) x 0) else insertSeq b.kn (p + j) x i) = insertSeq b.kn (p + j) x i := by
      rcases hwin with h | h
      · rw [if_neg h]
      · subst h
        rw [if_pos ⟨le_refl _, by omega⟩, Nat.sub_self]; ring
    rw [hval]
    unfold seamKn
    rcases Nat.lt_trichotomy i (p + j) with h | h | h
    · rw [bo_ins_lt h, hkn i (by omega)]
      unfold seamKn
      split_ifs <;> first | rfl | omega
    · subst h
      rw [bo_ins_self, if_neg (by omega), if_pos (by omega)]
    · rw [bo_ins_gt (k := i - 1) (by omega) (by omega), hkn (i - 1) (by omega)]
      unfold seamKn
      rw [if_neg (by omega), if_neg (by omega), if_neg (by omega), if_neg (by omega)]
      congr 1; omega
  -- rows of the new matrix
  have hrow : ∀ (d : ℕ → K) r, r < n + j + 1 →
      mulVec Ck (n + j) d r = (if r < n + j then diagE b.kn x p (p + j) r * d r else 0)
        + (if 1 ≤ r ∧ r - 1 < n + j then subE b.kn x p (p + j) (r - 1) * d (r - 1) else 0) := by
    intro d r hr
    rw [← mulVecF_codeF]
    unfold mulVec mulVecF
    apply Finset.sum_congr rfl
    intro c hc
    rw [Finset.mem_range] at hc
    rw [hCk, hmu, hnb, hordb, (rel_matC b.kn x (n + j) p (p + j) (by omega)).2 r c hr hc,
      matF_closed b.kn x (n + j) p (p + j) hp (by omega) (by omega)
        ⟨by rw [show p + j - 1 = p - 1 + j by omega, hknx _ (by omega) (by omega)],
         by rw [hknp]; exact le_of_lt hseam⟩ r c hc]
  have hmono := hvb.kn_mono
  have hmv : ∀ (c : ℕ → K) r, r < n + (j + 1) →
      mulVec (Mat.mul Ck C) n c r = mulVec Ck (n + j) (mulVec C n c) r :=
    fun c r hr => mulVec_mul hShapeCk hShapeC (by omega) c r (by omega)
  refine ⟨perRefines_trans hv hR hstep, hknew, fun c => ?_, fun c r h1 h2 => ?_⟩
  · rw [hmv c 0 (by omega), hrow _ 0 (by omega), if_pos (by omega), if_neg (by omega), add_zero,
      hS.row0 c]
    have : diagE b.kn x p (p + j) 0 = 1 := by
      unfold diagE
      by_cases h : 0 + p < p + j
      · rw [if_pos h]
      · rw [if_neg h, if_pos (by omega)]
        have hj0 : j = 0 := by omega
        unfold gd
        rw [if_pos]
        constructor
        · rw [Nat.zero_add, hknx _ (by omega) (by omega)]
        · rw [Nat.zero_add]
          have := hknp
          rw [hj0, Nat.add_zero] at this
          rw [this]; exact le_of_lt hseam
    rw [this, one_mul]
  · rw [hmv c r (by omega), hrow _ r (by omega)]
    have hd : (if r < n + j then diagE b.kn x p (p + j) r * mulVec C n c r else 0) = 0 := by
      by_cases hr : r < n + j
      · rw [if_pos hr]
        have : diagE b.kn x p (p + j) r = 0 := by
          unfold diagE
          rw [if_neg (by omega)]
          by_cases hrm : r < p + j
          · rw [if_pos hrm]
            unfold gd
            have hgt : x < b.kn (r + p - 1) :=
              lt_of_lt_of_le (by rw [hknp]; exact hseam) (hmono (by omega))
            rw [if_neg (fun h => absurd h.1 (not_le.2 hgt)), hknx r (by omega) (by omega), sub_self,
              zero_div]
          · rw [if_neg hrm]
        rw [this, zero_mul]
      · rw [if_neg hr]
    have hs : subE b.kn x p (p + j) (r - 1) = 1 := by
      unfold subE
      rw [if_neg (by omega)]
      by_cases hrm : r - 1 < p + j
      · rw [if_pos hrm]
        unfold gs
        rw [if_pos]
        constructor
        · calc b.kn (r - 1) ≤ b.kn (p + j - 1) := hmono (by omega)
            _ = x := hknx _ (by omega) (by omega)
        · rw [show r - 1 + 1 = r by omega]
          calc x = b.kn (k + 1) := (hknx _ (le_refl _) (by omega)).symm
            _ ≤ b.kn r := hmono (by omega)
      · rw [if_neg hrm]
    rw [hd, zero_add, if_pos ⟨by omega, by omega⟩, hs, one_mul, hS.rows c (r - 1) (by omega) (by omega)]
    congr 1; omega

/-- `j ≤ k + 1` insertions of `start` through `insertMany` (what `Obj.insertKnots` folds). -/
theorem seamState_many (j : ℕ) (hj : j ≤ k + 1) :
    ∃ b' C, insertMany b0 (Mat.identity b0.numFunctions) (List.replicate j b0.start) = .ok (b', C) ∧
      SeamState b0 k b' C j := by
  induction j with
  | zero => exact ⟨b0, _, rfl, seamState_zero hv k hk hguard hseam hghost⟩
  | succ j ih =>
    obtain ⟨b1, C1, h1, hS1⟩ := ih (by omega)
    obtain ⟨b2, C2, h2, hS2⟩ := seamState_step hv k hk hguard hseam hghost b1 C1 j (by omega) hS1
    refine ⟨b2, C2, ?_, hS2⟩
    unfold insertMany at h1 ⊢
    rw [List.replicate_succ', List.foldlM_append, h1]
    simp only [List.foldlM_cons, List.foldlM_nil, bind_pure]
    exact h2

end

/-- `continuity(start)` of a periodic basis whose seam is separated from its neighbours by more than
the tolerance: the declared continuity `k`. -/
theorem continuity_start {b0 : Basis K} (hv : b0.Valid) (k : ℕ) (hk : b0.periodic = (k : Int))
    {tol : K} (htol : 0 < tol) (htolL : b0.kn k < b0.start - tol)
    (htolR : b0.start + tol ≤ b0.kn b0.order) :
    b0.continuity tol b0.start = .ok (some (k : Int)) := by
  have hper : 0 ≤ b0.periodic := by rw [hk]; omega
  have hktn : b0.periodic.toNat = k := by rw [hk]; omega
  have hp := hv.order_pos
  have hpk := Basis.per_k_le hv hper
  rw [hktn] at hpk
  have hs := Basis.per_size hv hper
  rw [hktn] at hs
  have hmono := hv.kn_mono
  have hstartkn : b0.kn (b0.order - 1) = b0.start := rfl
  have hhi : b0.bisectL (b0.start + tol) = b0.order :=
    bisectL_of_between hv _ b0.order (by omega)
      (fun i hi => by
        have : b0.kn i ≤ b0.start := by rw [← hstartkn]; exact hmono (by omega)
        linarith) htolR
  have hlo : b0.bisectL (b0.start - tol) = k + 1 :=
    bisectL_of_between hv _ (k + 1) (by omega)
      (fun i hi => lt_of_le_of_lt (hmono (by omega)) htolL)
      (by
        rw [Basis.per_kn_start hv hper (k + 1) (by rw [hktn]) (by omega)]
        linarith)
  have hw : ¬ (b0.start < b0.start ∨ b0.start > b0.stop) := by
    rintro (h | h)
    · exact absurd h (lt_irrefl _)
    · exact absurd h (not_lt.2 (le_of_lt hv.start_lt_stop))
  unfold Basis.continuity
  simp only [ge_iff_le, hper, if_true, hw, if_false, hhi, hlo]
  rw [if_neg (by omega)]
  congr 2
  push_cast
  omega

end Splipy
